/-
Proofs of the tie between the generated scanner model (`Gen/TextGen.lean`, from `flussab/src/text.rs`)
and `Model/Text.lean`.  The statements that count are collected in `Props/TieText.lean`.
-/
import Flussab.Gen.TextGen
import Flussab.Proof.Digits
import Flussab.Proof.SwarList
open Flussab Flussab.Text

namespace Flussab
namespace TieTextAux

theorem demand_rest (v : View) (k : Nat) : (v.demand k).rest = v.rest := by
  unfold View.demand; dsimp only; split <;> rfl

theorem demand_of_lt (v : View) (k : Nat) (h : k < v.rest.length) :
    v.demand k = { v with peeked := max v.peeked (v.pos + k + 1) } := by
  unfold View.demand; dsimp only; simp [h]

theorem demand_demand (v : View) (a b : Nat) (ha : a < v.rest.length) (hab : a ≤ b) :
    (v.demand a).demand b = v.demand b := by
  rw [demand_of_lt v a ha]
  unfold View.demand; dsimp only
  have hm : max (max v.peeked (v.pos + a + 1)) (v.pos + b + 1) = max v.peeked (v.pos + b + 1) := by omega
  rw [hm]

@[simp] theorem reqAt_apply (k : Nat) (v : View) : TextExt.reqAt k v = (some v.rest[k]?, v.demand k) := rfl

theorem fromInt_small (t : IntTy) (hb : 8 ≤ t.bits) (x : Nat) (hx : x ≤ 127) : t.fromInt (x : Int) = some (x : Int) := by
  have h2 : 2 ^ 7 ≤ 2 ^ (t.bits - 1) := Nat.pow_le_pow_right (by decide) (by omega)
  have h3 : 2 ^ 7 ≤ 2 ^ t.bits := Nat.pow_le_pow_right (by decide) (by omega)
  have : t.fits (x : Int) = true := by
    rw [IntTy.fits_iff]
    unfold IntTy.minVal IntTy.maxVal
    cases t.signed <;> simp only [if_true, if_false, Bool.false_eq_true] <;> omega
  simp [IntTy.fromInt, this]

theorem digit_sub (b : UInt8) (h : 48 ≤ b) : ((b - 48).toNat : Int) = digitVal b := by
  unfold digitVal
  have h1 : (48 : UInt8).toNat ≤ b.toNat := h
  rw [UInt8.toNat_sub_of_le b 48 h]
  rfl

theorem digitsLoop_succ (t : IntTy) (sub : Bool) (bs : VBytes) (v : Int) (o : Bool) (n : Nat) :
    digitsLoop t sub bs v o (n + 1) =
      ((digitsLoop t sub bs v o n).1, (digitsLoop t sub bs v o n).2.1, (digitsLoop t sub bs v o n).2.2 + 1) := by
  induction bs generalizing v o n with
  | nil => simp [digitsLoop]
  | cons b bs ih =>
    simp only [digitsLoop]
    split
    · exact ih _ _ _
    · rfl

/-- Result of a digit loop in terms of `digitsLoop` over the bytes at `off`. -/
def loopRes (t : IntTy) (sub : Bool) (v : View) (off : Nat) (val : Int) (ov : Bool) :
    Option (Ctl (Nat × Int × Bool) (Option Int × Nat)) × View :=
  let r := digitsLoop t sub (v.rest.drop off) val ov 0
  (some (Ctl.brk (off + r.2.2, r.1, r.2.1)), v.demand (off + r.2.2))

theorem asciiDigits_loop (t : IntTy) (hb : 8 ≤ t.bits) (fuel : Nat) : ∀ (off : Nat) (val : Int) (ov : Bool) (v : View),
    v.rest.length - off < fuel →
    Gen.Text.asciiDigits.loop1 t fuel (off, val, ov) v = loopRes t false v off val ov := by
  induction fuel with
  | zero => intro off val ov v h; omega
  | succ fuel ih =>
    intro off val ov v hf
    rw [Gen.Text.asciiDigits.loop1]
    simp only [RM.bind_apply, reqAt_apply]
    by_cases hlt : off < v.rest.length
    · have hget : v.rest[off]? = some v.rest[off] := List.getElem?_eq_getElem hlt
      have hdrop : v.rest.drop off = v.rest[off] :: v.rest.drop (off + 1) := List.drop_eq_getElem_cons hlt
      simp only [hget]
      by_cases hd : isDigit v.rest[off] = true
      · have hd' := hd
        unfold isDigit at hd'
        simp only [Bool.and_eq_true, decide_eq_true_eq] at hd'
        have c1 : (48 : UInt8) ≤ v.rest[off] := hd'.1
        have c2 : v.rest[off] ≤ (57 : UInt8) := hd'.2
        simp only [c1, c2, decide_true, Bool.and_self, if_true, RM.bind_apply, RM.liftOpt_apply]
        have f10 : t.fromInt ((10 : UInt8).toNat : Int) = some 10 := fromInt_small t hb 10 (by decide)
        have hdv : ((v.rest[off] - 48).toNat : Int) = digitVal v.rest[off] := digit_sub _ c1
        have fd : t.fromInt ((v.rest[off] - 48).toNat : Int) = some (digitVal v.rest[off]) := by
          rw [← hdv]
          apply fromInt_small t hb
          have : (v.rest[off] - 48).toNat = v.rest[off].toNat - 48 := by
            rw [UInt8.toNat_sub_of_le _ _ c1]; rfl
          have : v.rest[off].toNat ≤ 57 := c2
          omega
        simp only [f10, fd]
        rw [ih (off + 1) _ _ _ (by rw [demand_rest]; omega)]
        unfold loopRes
        simp only [demand_rest, hdrop, digitsLoop, hd, if_true, Bool.false_eq_true, if_false]
        rw [digitsLoop_succ]
        generalize digitsLoop t false (List.drop (off + 1) v.rest) _ _ 0 = r
        rw [demand_demand v off _ hlt (by omega)]
        have : off + 1 + r.2.2 = off + (r.2.2 + 1) := by omega
        rw [this]
      · have hnd : ¬ (decide ((48 : UInt8) ≤ v.rest[off]) && decide (v.rest[off] ≤ (57 : UInt8))) = true := by
          simpa [isDigit] using hd
        simp only [hnd, if_false, Bool.false_eq_true]
        unfold loopRes
        rw [hdrop]
        simp only [digitsLoop, hd, Bool.false_eq_true, if_false, Nat.add_zero]
        rfl
    · have hnone : v.rest[off]? = none := List.getElem?_eq_none (by omega)
      have hdrop : v.rest.drop off = [] := List.drop_eq_nil_of_le (by omega)
      simp only [hnone]
      unfold loopRes
      simp [hdrop, digitsLoop]


theorem contPos_loop (t : IntTy) (hb : 8 ≤ t.bits) (fuel : Nat) : ∀ (off : Nat) (val : Int) (ov : Bool) (v : View),
    v.rest.length - off < fuel →
    Gen.Text.asciiDigitsContPos.loop1 t fuel (off, val, ov) v = loopRes t false v off val ov := by
  induction fuel with
  | zero => intro off val ov v h; omega
  | succ fuel ih =>
    intro off val ov v hf
    rw [Gen.Text.asciiDigitsContPos.loop1]
    simp only [RM.bind_apply, reqAt_apply]
    by_cases hlt : off < v.rest.length
    · have hget : v.rest[off]? = some v.rest[off] := List.getElem?_eq_getElem hlt
      have hdrop : v.rest.drop off = v.rest[off] :: v.rest.drop (off + 1) := List.drop_eq_getElem_cons hlt
      simp only [hget]
      by_cases hd : isDigit v.rest[off] = true
      · have hd' := hd
        unfold isDigit at hd'
        simp only [Bool.and_eq_true, decide_eq_true_eq] at hd'
        have c1 : (48 : UInt8) ≤ v.rest[off] := hd'.1
        have c2 : v.rest[off] ≤ (57 : UInt8) := hd'.2
        simp only [c1, c2, decide_true, Bool.and_self, if_true, RM.bind_apply, RM.liftOpt_apply]
        have f10 : t.fromInt ((10 : UInt8).toNat : Int) = some 10 := fromInt_small t hb 10 (by decide)
        have hdv : ((v.rest[off] - 48).toNat : Int) = digitVal v.rest[off] := digit_sub _ c1
        have fd : t.fromInt ((v.rest[off] - 48).toNat : Int) = some (digitVal v.rest[off]) := by
          rw [← hdv]
          apply fromInt_small t hb
          have : (v.rest[off] - 48).toNat = v.rest[off].toNat - 48 := by
            rw [UInt8.toNat_sub_of_le _ _ c1]; rfl
          have : v.rest[off].toNat ≤ 57 := c2
          omega
        simp only [f10, fd]
        rw [ih (off + 1) _ _ _ (by rw [demand_rest]; omega)]
        unfold loopRes
        simp only [demand_rest, hdrop, digitsLoop, hd, if_true, Bool.false_eq_true, if_false]
        rw [digitsLoop_succ]
        generalize digitsLoop t false (List.drop (off + 1) v.rest) _ _ 0 = r
        rw [demand_demand v off _ hlt (by omega)]
        have : off + 1 + r.2.2 = off + (r.2.2 + 1) := by omega
        rw [this]
      · have hnd : ¬ (decide ((48 : UInt8) ≤ v.rest[off]) && decide (v.rest[off] ≤ (57 : UInt8))) = true := by
          simpa [isDigit] using hd
        simp only [hnd, if_false, Bool.false_eq_true]
        unfold loopRes
        rw [hdrop]
        simp only [digitsLoop, hd, Bool.false_eq_true, if_false, Nat.add_zero]
        rfl
    · have hnone : v.rest[off]? = none := List.getElem?_eq_none (by omega)
      have hdrop : v.rest.drop off = [] := List.drop_eq_nil_of_le (by omega)
      simp only [hnone]
      unfold loopRes
      simp [hdrop, digitsLoop]


theorem contNeg_loop (t : IntTy) (hb : 8 ≤ t.bits) (fuel : Nat) : ∀ (off : Nat) (val : Int) (ov : Bool) (v : View),
    v.rest.length - off < fuel →
    Gen.Text.asciiDigitsContNeg.loop1 t fuel (off, val, ov) v = loopRes t true v off val ov := by
  induction fuel with
  | zero => intro off val ov v h; omega
  | succ fuel ih =>
    intro off val ov v hf
    rw [Gen.Text.asciiDigitsContNeg.loop1]
    simp only [RM.bind_apply, reqAt_apply]
    by_cases hlt : off < v.rest.length
    · have hget : v.rest[off]? = some v.rest[off] := List.getElem?_eq_getElem hlt
      have hdrop : v.rest.drop off = v.rest[off] :: v.rest.drop (off + 1) := List.drop_eq_getElem_cons hlt
      simp only [hget]
      by_cases hd : isDigit v.rest[off] = true
      · have hd' := hd
        unfold isDigit at hd'
        simp only [Bool.and_eq_true, decide_eq_true_eq] at hd'
        have c1 : (48 : UInt8) ≤ v.rest[off] := hd'.1
        have c2 : v.rest[off] ≤ (57 : UInt8) := hd'.2
        simp only [c1, c2, decide_true, Bool.and_self, if_true, RM.bind_apply, RM.liftOpt_apply]
        have f10 : t.fromInt ((10 : UInt8).toNat : Int) = some 10 := fromInt_small t hb 10 (by decide)
        have hdv : ((v.rest[off] - 48).toNat : Int) = digitVal v.rest[off] := digit_sub _ c1
        have fd : t.fromInt ((v.rest[off] - 48).toNat : Int) = some (digitVal v.rest[off]) := by
          rw [← hdv]
          apply fromInt_small t hb
          have : (v.rest[off] - 48).toNat = v.rest[off].toNat - 48 := by
            rw [UInt8.toNat_sub_of_le _ _ c1]; rfl
          have : v.rest[off].toNat ≤ 57 := c2
          omega
        simp only [f10, fd]
        rw [ih (off + 1) _ _ _ (by rw [demand_rest]; omega)]
        unfold loopRes
        simp only [demand_rest, hdrop, digitsLoop, hd, if_true, Bool.false_eq_true, if_false]
        rw [digitsLoop_succ]
        generalize digitsLoop t true (List.drop (off + 1) v.rest) _ _ 0 = r
        rw [demand_demand v off _ hlt (by omega)]
        have : off + 1 + r.2.2 = off + (r.2.2 + 1) := by omega
        rw [this]
      · have hnd : ¬ (decide ((48 : UInt8) ≤ v.rest[off]) && decide (v.rest[off] ≤ (57 : UInt8))) = true := by
          simpa [isDigit] using hd
        simp only [hnd, if_false, Bool.false_eq_true]
        unfold loopRes
        rw [hdrop]
        simp only [digitsLoop, hd, Bool.false_eq_true, if_false, Nat.add_zero]
        rfl
    · have hnone : v.rest[off]? = none := List.getElem?_eq_none (by omega)
      have hdrop : v.rest.drop off = [] := List.drop_eq_nil_of_le (by omega)
      simp only [hnone]
      unfold loopRes
      simp [hdrop, digitsLoop]


theorem signedNeg_loop (t : IntTy) (hb : 8 ≤ t.bits) (fuel : Nat) : ∀ (off : Nat) (val : Int) (ov : Bool) (v : View),
    v.rest.length - off < fuel →
    Gen.Text.signedAsciiDigits.loop1 t fuel (off, val, ov) v = loopRes t true v off val ov := by
  induction fuel with
  | zero => intro off val ov v h; omega
  | succ fuel ih =>
    intro off val ov v hf
    rw [Gen.Text.signedAsciiDigits.loop1]
    simp only [RM.bind_apply, reqAt_apply]
    by_cases hlt : off < v.rest.length
    · have hget : v.rest[off]? = some v.rest[off] := List.getElem?_eq_getElem hlt
      have hdrop : v.rest.drop off = v.rest[off] :: v.rest.drop (off + 1) := List.drop_eq_getElem_cons hlt
      simp only [hget]
      by_cases hd : isDigit v.rest[off] = true
      · have hd' := hd
        unfold isDigit at hd'
        simp only [Bool.and_eq_true, decide_eq_true_eq] at hd'
        have c1 : (48 : UInt8) ≤ v.rest[off] := hd'.1
        have c2 : v.rest[off] ≤ (57 : UInt8) := hd'.2
        simp only [c1, c2, decide_true, Bool.and_self, if_true, RM.bind_apply, RM.liftOpt_apply]
        have f10 : t.fromInt ((10 : UInt8).toNat : Int) = some 10 := fromInt_small t hb 10 (by decide)
        have hdv : ((v.rest[off] - 48).toNat : Int) = digitVal v.rest[off] := digit_sub _ c1
        have fd : t.fromInt ((v.rest[off] - 48).toNat : Int) = some (digitVal v.rest[off]) := by
          rw [← hdv]
          apply fromInt_small t hb
          have : (v.rest[off] - 48).toNat = v.rest[off].toNat - 48 := by
            rw [UInt8.toNat_sub_of_le _ _ c1]; rfl
          have : v.rest[off].toNat ≤ 57 := c2
          omega
        simp only [f10, fd]
        rw [ih (off + 1) _ _ _ (by rw [demand_rest]; omega)]
        unfold loopRes
        simp only [demand_rest, hdrop, digitsLoop, hd, if_true, Bool.false_eq_true, if_false]
        rw [digitsLoop_succ]
        generalize digitsLoop t true (List.drop (off + 1) v.rest) _ _ 0 = r
        rw [demand_demand v off _ hlt (by omega)]
        have : off + 1 + r.2.2 = off + (r.2.2 + 1) := by omega
        rw [this]
      · have hnd : ¬ (decide ((48 : UInt8) ≤ v.rest[off]) && decide (v.rest[off] ≤ (57 : UInt8))) = true := by
          simpa [isDigit] using hd
        simp only [hnd, if_false, Bool.false_eq_true]
        unfold loopRes
        rw [hdrop]
        simp only [digitsLoop, hd, Bool.false_eq_true, if_false, Nat.add_zero]
        rfl
    · have hnone : v.rest[off]? = none := List.getElem?_eq_none (by omega)
      have hdrop : v.rest.drop off = [] := List.drop_eq_nil_of_le (by omega)
      simp only [hnone]
      unfold loopRes
      simp [hdrop, digitsLoop]


theorem signedPos_loop (t : IntTy) (hb : 8 ≤ t.bits) (fuel : Nat) : ∀ (off : Nat) (val : Int) (ov : Bool) (v : View),
    v.rest.length - off < fuel →
    Gen.Text.signedAsciiDigits.loop2 t fuel (off, val, ov) v = loopRes t false v off val ov := by
  induction fuel with
  | zero => intro off val ov v h; omega
  | succ fuel ih =>
    intro off val ov v hf
    rw [Gen.Text.signedAsciiDigits.loop2]
    simp only [RM.bind_apply, reqAt_apply]
    by_cases hlt : off < v.rest.length
    · have hget : v.rest[off]? = some v.rest[off] := List.getElem?_eq_getElem hlt
      have hdrop : v.rest.drop off = v.rest[off] :: v.rest.drop (off + 1) := List.drop_eq_getElem_cons hlt
      simp only [hget]
      by_cases hd : isDigit v.rest[off] = true
      · have hd' := hd
        unfold isDigit at hd'
        simp only [Bool.and_eq_true, decide_eq_true_eq] at hd'
        have c1 : (48 : UInt8) ≤ v.rest[off] := hd'.1
        have c2 : v.rest[off] ≤ (57 : UInt8) := hd'.2
        simp only [c1, c2, decide_true, Bool.and_self, if_true, RM.bind_apply, RM.liftOpt_apply]
        have f10 : t.fromInt ((10 : UInt8).toNat : Int) = some 10 := fromInt_small t hb 10 (by decide)
        have hdv : ((v.rest[off] - 48).toNat : Int) = digitVal v.rest[off] := digit_sub _ c1
        have fd : t.fromInt ((v.rest[off] - 48).toNat : Int) = some (digitVal v.rest[off]) := by
          rw [← hdv]
          apply fromInt_small t hb
          have : (v.rest[off] - 48).toNat = v.rest[off].toNat - 48 := by
            rw [UInt8.toNat_sub_of_le _ _ c1]; rfl
          have : v.rest[off].toNat ≤ 57 := c2
          omega
        simp only [f10, fd]
        rw [ih (off + 1) _ _ _ (by rw [demand_rest]; omega)]
        unfold loopRes
        simp only [demand_rest, hdrop, digitsLoop, hd, if_true, Bool.false_eq_true, if_false]
        rw [digitsLoop_succ]
        generalize digitsLoop t false (List.drop (off + 1) v.rest) _ _ 0 = r
        rw [demand_demand v off _ hlt (by omega)]
        have : off + 1 + r.2.2 = off + (r.2.2 + 1) := by omega
        rw [this]
      · have hnd : ¬ (decide ((48 : UInt8) ≤ v.rest[off]) && decide (v.rest[off] ≤ (57 : UInt8))) = true := by
          simpa [isDigit] using hd
        simp only [hnd, if_false, Bool.false_eq_true]
        unfold loopRes
        rw [hdrop]
        simp only [digitsLoop, hd, Bool.false_eq_true, if_false, Nat.add_zero]
        rfl
    · have hnone : v.rest[off]? = none := List.getElem?_eq_none (by omega)
      have hdrop : v.rest.drop off = [] := List.drop_eq_nil_of_le (by omega)
      simp only [hnone]
      unfold loopRes
      simp [hdrop, digitsLoop]


/-- A pure model scanner as an `RM View` result. -/
def ret {α : Type} (p : α × View) : Option α × View := (some p.1, p.2)

theorem fuel_ok (v : View) (off : Nat) : v.rest.length - off < v.rest.length + 1 := by omega

theorem asciiDigits_eq (t : IntTy) (hb : 8 ≤ t.bits) (off : Nat) (v : View) :
    Gen.Text.asciiDigits t off v = ret (Text.asciiDigits t v off) := by
  unfold Gen.Text.asciiDigits
  simp only [RM.bind_apply, RM.get_apply, RM.pure_apply]
  rw [asciiDigits_loop t hb _ off 0 false v (fuel_ok v off)]
  simp [loopRes, ret, Text.asciiDigits, Text.digitsCont]
  rcases digitsLoop t false (List.drop off v.rest) 0 false 0 with ⟨a, b, c⟩
  cases b <;> simp

theorem contPos_eq (t : IntTy) (hb : 8 ≤ t.bits) (off : Nat) (value : Option Int) (v : View) :
    Gen.Text.asciiDigitsContPos t off value v = ret (Text.digitsCont t false v off value) := by
  unfold Gen.Text.asciiDigitsContPos
  simp only [RM.bind_apply, RM.get_apply, RM.pure_apply]
  rw [contPos_loop t hb _ off _ _ v (fuel_ok v off)]
  simp [loopRes, ret, Text.digitsCont]
  rcases digitsLoop t false (List.drop off v.rest) (value.getD 0) value.isNone 0 with ⟨a, b, c⟩
  cases b <;> simp

theorem contNeg_eq (t : IntTy) (hb : 8 ≤ t.bits) (off : Nat) (value : Option Int) (v : View) :
    Gen.Text.asciiDigitsContNeg t off value v = ret (Text.digitsCont t true v off value) := by
  unfold Gen.Text.asciiDigitsContNeg
  simp only [RM.bind_apply, RM.get_apply, RM.pure_apply]
  rw [contNeg_loop t hb _ off _ _ v (fuel_ok v off)]
  simp [loopRes, ret, Text.digitsCont]
  rcases digitsLoop t true (List.drop off v.rest) (value.getD 0) value.isNone 0 with ⟨a, b, c⟩
  cases b <;> simp


theorem demand_idem (v : View) (k : Nat) : (v.demand k).demand k = v.demand k := by
  by_cases h : k < v.rest.length
  · exact demand_demand v k k h (Nat.le_refl k)
  · unfold View.demand
    simp [h]

theorem model_signed_other (t : IntTy) (v : View) (off : Nat) (h : v.rest[off]? ≠ some 45) :
    Text.signedAsciiDigits t v off = digitsCont t false v off (some 0) := by
  unfold Text.signedAsciiDigits
  split
  · rename_i h'; exact absurd h' h
  · rfl

theorem signedAsciiDigits_eq (t : IntTy) (hb : 8 ≤ t.bits) (off : Nat) (v : View) :
    Gen.Text.signedAsciiDigits t off v = ret (Text.signedAsciiDigits t v off) := by
  unfold Gen.Text.signedAsciiDigits
  simp only [RM.bind_apply, reqAt_apply]
  rcases hv : v.rest[off]? with _ | b
  · rw [model_signed_other t v off (by rw [hv]; simp)]
    simp only [Bool.not_false, if_true, RM.bind_apply, RM.get_apply]
    rw [signedPos_loop t hb _ off _ _ _ (by simp only [demand_rest]; omega)]
    simp only [loopRes, demand_rest, ret, Text.digitsCont, Option.getD_some, Option.isNone_some, RM.bind_apply,
      RM.pure_apply]
    by_cases hlt : off < v.rest.length
    · have hn : ∀ n, (v.demand off).demand (off + n) = v.demand (off + n) :=
        fun n => demand_demand v off _ hlt (by omega)
      rw [hn]
      rcases digitsLoop t false (List.drop off v.rest) 0 false 0 with ⟨a, b, c⟩
      cases b <;> simp
    · have hdrop : v.rest.drop off = [] := List.drop_eq_nil_of_le (by omega)
      simp only [hdrop, digitsLoop, Nat.add_zero, demand_idem]
      rfl
  · by_cases h45 : b = 45
    · subst h45
      unfold Text.signedAsciiDigits
      simp only [hv]
      have hlt : off < v.rest.length := by
        rcases Nat.lt_or_ge off v.rest.length with h | h
        · exact h
        · rw [List.getElem?_eq_none h] at hv; cases hv
      simp only [BEq.rfl, if_true, RM.bind_apply, reqAt_apply, demand_rest]
      rcases hd : v.rest[off + 1]? with _ | d
      · simp [ret]
      · simp only
        by_cases hdig : isDigit d = true
        · have hd' := hdig
          unfold isDigit at hd'
          simp only [Bool.and_eq_true, decide_eq_true_eq] at hd'
          have c1 : (48 : UInt8) ≤ d := hd'.1
          have c2 : d ≤ (57 : UInt8) := hd'.2
          have fd : t.fromInt ((d - 48).toNat : Int) = some (digitVal d) := by
            rw [← digit_sub d c1]
            apply fromInt_small t hb
            have : (d - 48).toNat = d.toNat - 48 := by rw [UInt8.toNat_sub_of_le _ _ c1]; rfl
            have : d.toNat ≤ 57 := c2
            omega
          simp only [c1, c2, decide_true, Bool.and_self, if_true, RM.bind_apply, RM.liftOpt_apply, fd, hdig,
            RM.get_apply, RM.pure_apply, demand_rest]
          rw [signedNeg_loop t hb _ (off + 2) _ _ _ (by simp only [demand_rest]; omega)]
          simp only [loopRes, demand_rest, ret, Bool.false_or]
          have hlt1 : off + 1 < v.rest.length := by
            rcases Nat.lt_or_ge (off + 1) v.rest.length with h | h
            · exact h
            · rw [List.getElem?_eq_none h] at hd; cases hd
          rw [demand_demand _ (off + 1) _ (by rw [demand_rest]; exact hlt1) (by omega)]
          rcases digitsLoop t true (List.drop (off + 2) v.rest) (t.osub 0 (digitVal d)).1 (t.osub 0 (digitVal d)).2 0 with ⟨a, b, c⟩
          cases b <;> simp
        · have hnd : ¬ (decide ((48 : UInt8) ≤ d) && decide (d ≤ (57 : UInt8))) = true := by
            simpa [isDigit] using hdig
          simp [hnd, hdig, ret]
    · have hne : (b == 45) = false := by simpa using h45
      rw [model_signed_other t v off (by rw [hv]; intro hh; exact h45 (Option.some.inj hh))]
      simp only [hne, Bool.false_eq_true, if_false, Bool.not_false, if_true, RM.bind_apply, RM.get_apply]
      rw [signedPos_loop t hb _ off _ _ _ (by simp only [demand_rest]; omega)]
      simp only [loopRes, demand_rest, ret, Text.digitsCont, Option.getD_some, Option.isNone_some, RM.bind_apply,
        RM.pure_apply]
      by_cases hlt : off < v.rest.length
      · have hn : ∀ n, (v.demand off).demand (off + n) = v.demand (off + n) :=
          fun n => demand_demand v off _ hlt (by omega)
        rw [hn]
        rcases digitsLoop t false (List.drop off v.rest) 0 false 0 with ⟨a, b, c⟩
        cases b <;> simp
      · have hdrop : v.rest.drop off = [] := List.drop_eq_nil_of_le (by omega)
        simp only [hdrop, digitsLoop, Nat.add_zero, demand_idem]
        rfl

theorem multiCold_eq (t : IntTy) (hb : 8 ≤ t.bits) (off : Nat) (v : View) :
    Gen.Text.asciiDigitsMultiCold t off v = ret (Text.asciiDigits t v off) := by
  unfold Gen.Text.asciiDigitsMultiCold
  simp only [RM.bind_apply, asciiDigits_eq t hb, ret, RM.pure_apply]

theorem signedMultiCold_eq (t : IntTy) (hb : 8 ≤ t.bits) (off : Nat) (v : View) :
    Gen.Text.signedAsciiDigitsMultiCold t off v = ret (Text.signedAsciiDigits t v off) := by
  unfold Gen.Text.signedAsciiDigitsMultiCold
  simp only [RM.bind_apply, signedAsciiDigits_eq t hb, ret, RM.pure_apply]

theorem asciiDigitsMulti_eq (t : IntTy) (hb : 8 ≤ t.bits) (bl off : Nat) (v : View) :
    Gen.Text.asciiDigitsMulti t bl off v = ret (Text.asciiDigitsMulti t v off bl) := by
  unfold Gen.Text.asciiDigitsMulti Text.asciiDigitsMulti
  by_cases h : bl < off + 8
  · simp only [h, decide_true, if_true, RM.bind_apply, multiCold_eq t hb, ret, RM.pure_apply]
  · have h' : off + 8 ≤ bl := by omega
    simp only [h, decide_false, Bool.false_eq_true, if_false]
    unfold Gen.Text.asciiDigitsMulti.k1
    simp only [RM.bind_apply, TextExt.loadLe64, h', if_true, RM.pure_apply]
    rcases hs : Gen.swarAsciiDigitsU64Le (le64 (List.drop off v.rest)) with ⟨value, md⟩
    simp only
    by_cases h8 : md = 8
    · simp [h8, contPos_eq t hb, ret]
    · simp [h8, ret]

theorem takeWhile_len_le (p : UInt8 → Bool) (a : VBytes) : (a.takeWhile p).length ≤ a.length := by
  induction a with
  | nil => simp
  | cons x xs ih => simp only [List.takeWhile]; split <;> simp <;> omega

theorem foldl_dec_lt (ds : VBytes) (hd : ∀ b ∈ ds, isDigit b = true) (a : Nat) :
    ds.foldl (fun acc b => acc * 10 + (b.toNat - 48)) a < (a + 1) * 10 ^ ds.length := by
  induction ds generalizing a with
  | nil => simp
  | cons b bs ih =>
    simp only [List.foldl, List.length_cons]
    have hb := hd b (by simp)
    unfold isDigit at hb
    simp only [Bool.and_eq_true, decide_eq_true_eq] at hb
    have h2 : b.toNat ≤ 57 := hb.2
    have := ih (fun x hx => hd x (by simp [hx])) (a * 10 + (b.toNat - 48))
    calc _ < (a * 10 + (b.toNat - 48) + 1) * 10 ^ bs.length := this
      _ ≤ ((a + 1) * 10) * 10 ^ bs.length := Nat.mul_le_mul_right _ (by omega)
      _ = (a + 1) * 10 ^ (bs.length + 1) := by rw [Nat.pow_succ, Nat.mul_assoc, Nat.mul_comm 10]

theorem decVal_lt (ds : VBytes) (hd : ∀ b ∈ ds, isDigit b = true) : decVal ds < 10 ^ ds.length := by
  rw [decVal_eq]
  have := foldl_dec_lt ds hd 0
  simpa using this

/-- The kernel's value on any 8 explicit bytes is below 10^8 (so `value as i32` does not wrap). -/
theorem swar_value_lt (b0 b1 b2 b3 b4 b5 b6 b7 : UInt8) (rest : VBytes) :
    (Gen.swarAsciiDigitsU64Le (le64 (b0 :: b1 :: b2 :: b3 :: b4 :: b5 :: b6 :: b7 :: rest))).1.toNat < 10 ^ 8 := by
  obtain ⟨h1, h2⟩ := Swar.swar_list b0 b1 b2 b3 b4 b5 b6 b7 rest
  rw [h2]
  have hd : ∀ b ∈ (List.take 8 (b0 :: b1 :: b2 :: b3 :: b4 :: b5 :: b6 :: b7 :: rest)).takeWhile isDigit, isDigit b = true :=
    takeWhile_all _ _
  have hl := decVal_lt _ hd
  have hlen : ((List.take 8 (b0 :: b1 :: b2 :: b3 :: b4 :: b5 :: b6 :: b7 :: rest)).takeWhile isDigit).length ≤ 8 := by
    have := takeWhile_len_le isDigit (List.take 8 (b0 :: b1 :: b2 :: b3 :: b4 :: b5 :: b6 :: b7 :: rest))
    simp at this ⊢
    omega
  calc _ < 10 ^ _ := hl
    _ ≤ 10 ^ 8 := Nat.pow_le_pow_right (by decide) hlen

theorem explicit8 (l : VBytes) (h : 8 ≤ l.length) :
    ∃ b0 b1 b2 b3 b4 b5 b6 b7 rest, l = b0 :: b1 :: b2 :: b3 :: b4 :: b5 :: b6 :: b7 :: rest := by
  match l, h with
  | b0 :: b1 :: b2 :: b3 :: b4 :: b5 :: b6 :: b7 :: rest, _ => exact ⟨b0, b1, b2, b3, b4, b5, b6, b7, rest, rfl⟩

theorem toInt_of_lt (x : BitVec 32) (h : x.toNat < 10 ^ 8) : x.toInt = (x.toNat : Int) := by
  rw [BitVec.toInt_eq_toNat_cond]
  have : 2 * x.toNat < 2 ^ 32 := by omega
  simp [this]

/-- `signed_ascii_digits_multi`, for a buffered amount `bl` that does not exceed the stream in front
of the cursor (the buffered window is a prefix of it). -/
theorem signedAsciiDigitsMulti_eq (t : IntTy) (hb : 8 ≤ t.bits) (bl off : Nat) (v : View)
    (hbl : bl ≤ v.rest.length) :
    Gen.Text.signedAsciiDigitsMulti t bl off v = ret (Text.signedAsciiDigitsMulti t v off bl) := by
  unfold Gen.Text.signedAsciiDigitsMulti Text.signedAsciiDigitsMulti
  by_cases h : bl < off + 8
  · simp only [h, decide_true, if_true, RM.bind_apply, signedMultiCold_eq t hb, ret, RM.pure_apply]
  · have h' : off + 8 ≤ bl := by omega
    simp only [h, decide_false, Bool.false_eq_true, if_false]
    simp only [RM.bind_apply, TextExt.loadLe64, h', if_true, RM.pure_apply]
    obtain ⟨b0, b1, b2, b3, b4, b5, b6, b7, rest, hl⟩ := explicit8 (v.rest.drop off) (by simp; omega)
    obtain ⟨hfirst, hshift⟩ := Swar.le64_first_byte b0 b1 b2 b3 b4 b5 b6 b7 rest
    rw [hl]
    by_cases hm : (le64 (b0 :: b1 :: b2 :: b3 :: b4 :: b5 :: b6 :: b7 :: rest) &&& 255#64 == 45#64) = true
    · simp only [hm, if_true, hshift]
      have hlt := swar_value_lt b1 b2 b3 b4 b5 b6 b7 0 []
      rcases hs : Gen.swarAsciiDigitsU64Le (le64 [b1, b2, b3, b4, b5, b6, b7, 0]) with ⟨value, md⟩
      rw [hs] at hlt
      simp only at hlt
      simp only [toInt_of_lt value hlt]
      by_cases h7 : md = 7
      · simp [h7, contNeg_eq t hb, ret]
      · simp [h7, ret]
    · simp only [hm, if_false, Bool.false_eq_true]
      rcases hs : Gen.swarAsciiDigitsU64Le (le64 (b0 :: b1 :: b2 :: b3 :: b4 :: b5 :: b6 :: b7 :: rest)) with ⟨value, md⟩
      simp only
      by_cases h8 : md = 8
      · simp [h8, contPos_eq t hb, ret]
      · simp [h8, ret]

theorem tabs_loop (fuel : Nat) : ∀ (off : Nat) (v : View), v.rest.length - off < fuel →
    Gen.Text.tabsOrSpaces.loop1 fuel off v =
      (some (Ctl.brk (off + runLen isBlank (v.rest.drop off))), v.demand (off + runLen isBlank (v.rest.drop off))) := by
  induction fuel with
  | zero => intro off v h; omega
  | succ fuel ih =>
    intro off v hf
    rw [Gen.Text.tabsOrSpaces.loop1]
    simp only [RM.bind_apply, reqAt_apply]
    by_cases hlt : off < v.rest.length
    · have hget : v.rest[off]? = some v.rest[off] := List.getElem?_eq_getElem hlt
      have hdrop : v.rest.drop off = v.rest[off] :: v.rest.drop (off + 1) := List.drop_eq_getElem_cons hlt
      rw [hget, hdrop]
      by_cases hb : isBlank v.rest[off] = true
      · have hb' : (v.rest[off] == 32 || v.rest[off] == 9) = true := hb
        simp only [runLen, hb, hb', if_true]
        rw [ih (off + 1) _ (by rw [demand_rest]; omega), demand_rest, demand_demand v off _ hlt (by omega)]
        rw [show off + (runLen isBlank (List.drop (off + 1) v.rest) + 1) = off + 1 + runLen isBlank (List.drop (off + 1) v.rest) by omega]
      · have hb' : ¬ (v.rest[off] == 32 || v.rest[off] == 9) = true := hb
        simp only [runLen, hb, hb', Bool.false_eq_true, if_false, Nat.add_zero]
        rfl
    · have hnone : v.rest[off]? = none := List.getElem?_eq_none (by omega)
      have hdrop : v.rest.drop off = [] := List.drop_eq_nil_of_le (by omega)
      rw [hnone, hdrop]
      simp [runLen]

theorem tabsOrSpaces_eq (off : Nat) (v : View) :
    Gen.Text.tabsOrSpaces off v = ret (Text.tabsOrSpaces v off) := by
  unfold Gen.Text.tabsOrSpaces
  simp only [RM.bind_apply, RM.get_apply, RM.pure_apply]
  rw [tabs_loop _ off v (fuel_ok v off)]
  simp [ret, Text.tabsOrSpaces]

theorem model_newline (v : View) (off : Nat) :
    Text.newline v off =
      match v.rest[off]? with
      | some b => if b == 10 then (off + 1, v.demand off)
          else if b == 13 then
            (match v.rest[off + 1]? with
              | some c => if c == 10 then (off + 2, (v.demand off).demand (off + 1))
                  else (off, (v.demand off).demand (off + 1))
              | none => (off, (v.demand off).demand (off + 1)))
          else (off, v.demand off)
      | none => (off, v.demand off) := by
  unfold Text.newline
  rcases v.rest[off]? with _ | b
  · rfl
  · by_cases h10 : b = 10
    · subst h10; rfl
    · by_cases h13 : b = 13
      · subst h13
        simp only
        rcases v.rest[off + 1]? with _ | c
        · rfl
        · by_cases hc : c = 10
          · subst hc; rfl
          · have : (c == 10) = false := by simpa using hc
            simp only [this, Bool.false_eq_true, if_false]
            split
            · rename_i h; exact absurd (Option.some.inj h) hc
            · rfl
      · have e10 : (b == 10) = false := by simpa using h10
        have e13 : (b == 13) = false := by simpa using h13
        simp only [e10, e13, Bool.false_eq_true, if_false]
        split
        · rename_i h; exact absurd (Option.some.inj h) h10
        · rename_i h; exact absurd (Option.some.inj h) h13
        · rfl

theorem newline_eq (off : Nat) (v : View) : Gen.Text.newline off v = ret (Text.newline v off) := by
  unfold Gen.Text.newline
  rw [model_newline]
  simp only [RM.bind_apply, reqAt_apply]
  rcases v.rest[off]? with _ | b
  · simp [ret]
  · simp only
    by_cases h10 : (b == 10) = true
    · simp [h10, ret]
    · simp only [h10, Bool.false_eq_true, if_false]
      by_cases h13 : (b == 13) = true
      · simp only [h13, if_true, RM.bind_apply, reqAt_apply, demand_rest]
        rcases v.rest[off + 1]? with _ | c
        · simp [ret]
        · by_cases hc : (c == 10) = true <;> simp [hc, ret]
      · simp [h13, ret]

theorem nn_loop (fuel : Nat) : ∀ (off : Nat) (v : View), v.rest.length - off < fuel →
    Gen.Text.nextNewline.loop1 fuel off v =
      (some (Ctl.brk (off + runLen (· != 10) (v.rest.drop off))), v.demand (off + runLen (· != 10) (v.rest.drop off))) := by
  induction fuel with
  | zero => intro off v h; omega
  | succ fuel ih =>
    intro off v hf
    rw [Gen.Text.nextNewline.loop1]
    simp only [RM.bind_apply, reqAt_apply]
    by_cases hlt : off < v.rest.length
    · have hget : v.rest[off]? = some v.rest[off] := List.getElem?_eq_getElem hlt
      have hdrop : v.rest.drop off = v.rest[off] :: v.rest.drop (off + 1) := List.drop_eq_getElem_cons hlt
      rw [hget, hdrop]
      by_cases hb : (v.rest[off] == 10) = true
      · have hb2 : (v.rest[off] != 10) = false := by simp [bne, hb]
        simp [runLen, hb, hb2]
      · have hb1 : (v.rest[off] == 10) = false := by simpa using hb
        have hb2 : (v.rest[off] != 10) = true := by simp [bne, hb1]
        simp only [runLen, hb1, hb2, Bool.not_false, Bool.not_true, Bool.false_eq_true, if_false, if_true]
        rw [ih (off + 1) _ (by rw [demand_rest]; omega), demand_rest, demand_demand v off _ hlt (by omega)]
        rw [show off + (runLen (fun x => x != 10) (List.drop (off + 1) v.rest) + 1) = off + 1 + runLen (fun x => x != 10) (List.drop (off + 1) v.rest) by omega]
    · have hnone : v.rest[off]? = none := List.getElem?_eq_none (by omega)
      have hdrop : v.rest.drop off = [] := List.drop_eq_nil_of_le (by omega)
      rw [hnone, hdrop]
      simp [runLen]

theorem nextNewline_eq (off : Nat) (v : View) :
    Gen.Text.nextNewline off v = ret (Text.nextNewline v off) := by
  unfold Gen.Text.nextNewline
  simp only [RM.bind_apply, RM.get_apply, RM.pure_apply]
  rw [nn_loop _ off v (fuel_ok v off)]
  simp only [ret, Text.nextNewline, reqAt_apply, demand_rest, demand_idem, RM.bind_apply, RM.pure_apply]

theorem fixed_loop (off : Nat) (pat0 : VBytes) : ∀ (pat : VBytes) (i : Nat) (v : View),
    Gen.Text.fixed.loop1 off pat0 pat i () v =
      if matchLen pat (v.rest.drop (off + i)) = pat.length then
        (some (Ctl.brk ()), if pat.isEmpty then v else v.demand (off + i + pat.length - 1))
      else (some (Ctl.ret off), v.demand (off + i + matchLen pat (v.rest.drop (off + i)))) := by
  intro pat
  induction pat with
  | nil => intro i v; simp [Gen.Text.fixed.loop1, matchLen]
  | cons p ps ih =>
    intro i v
    rw [Gen.Text.fixed.loop1]
    simp only [RM.bind_apply, reqAt_apply]
    by_cases hlt : off + i < v.rest.length
    · have hget : v.rest[off + i]? = some v.rest[off + i] := List.getElem?_eq_getElem hlt
      have hdrop : v.rest.drop (off + i) = v.rest[off + i] :: v.rest.drop (off + i + 1) := List.drop_eq_getElem_cons hlt
      rw [hget, hdrop]
      by_cases hp : (p == v.rest[off + i]) = true
      · have hp' : p = v.rest[off + i] := by simpa using hp
        have hne : ¬ (some v.rest[off + i] != some p) = true := by simp [hp']
        simp only [matchLen, hp, if_true, hne, Bool.false_eq_true, if_false]
        have := ih (i + 1) (v.demand (off + i))
        rw [show off + (i + 1) = off + i + 1 by omega] at this
        rw [this, demand_rest]
        by_cases hm : matchLen ps (List.drop (off + i + 1) v.rest) = ps.length
        · simp only [hm, if_true, List.length_cons, List.isEmpty_cons, Bool.false_eq_true, if_false]
          cases ps with
          | nil => simp
          | cons q qs =>
            simp only [List.isEmpty_cons, Bool.false_eq_true, if_false, List.length_cons]
            rw [demand_demand v (off + i) _ hlt (by omega)]
            congr 2; omega
        · have : ¬ matchLen ps (List.drop (off + i + 1) v.rest) + 1 = ps.length + 1 := by omega
          simp only [hm, if_false, List.length_cons, this]
          rw [demand_demand v (off + i) _ hlt (by omega)]
          congr 2; omega
      · have hp1 : (p == v.rest[off + i]) = false := by simpa using hp
        have hne : (some v.rest[off + i] != some p) = true := by
          have : v.rest[off + i] ≠ p := fun h => by simp [h] at hp1
          simp [this]
        simp [matchLen, hp1, hne]
    · have hnone : v.rest[off + i]? = none := List.getElem?_eq_none (by omega)
      have hdrop : v.rest.drop (off + i) = [] := List.drop_eq_nil_of_le (by omega)
      rw [hnone, hdrop]
      simp [matchLen]

theorem fixed_eq (off : Nat) (pat : VBytes) (v : View) :
    Gen.Text.fixed off pat v = ret (Text.fixed v off pat) := by
  unfold Gen.Text.fixed Text.fixed
  simp only [RM.bind_apply]
  rw [fixed_loop off pat pat 0 v]
  simp only [Nat.add_zero]
  by_cases hm : matchLen pat (List.drop off v.rest) = pat.length
  · simp [hm, ret]
  · simp [hm, ret]

end TieTextAux
end Flussab
