/-
Document level of the layout-independence proof: the clause alternative of the three formats,
`next_clause`, the header, `Parser::new`, and the driver loop over all clauses.
-/
import Flussab.Proof.CnfClause

namespace Flussab.CnfP
open Flussab Flussab.PM Flussab.Cnf Flussab.Spec
set_option linter.unusedSimpArgs false
set_option linter.unusedVariables false

/-! ### counts, weights, groups -/

theorem u64_fits (x : Int) (h0 : 0 ≤ x) (h1 : x < 2 ^ 64) : (IntTy.mk false 64).fits x = true := by
  rw [IntTy.fits_iff]
  simp only [IntTy.minVal, IntTy.maxVal, Bool.false_eq_true, ↓reduceIte]
  have : ((2 ^ 64 : Nat) : Int) = 2 ^ 64 := by simp
  omega

theorem uintCount_ok {N} (t : IntTy) (hb : 1 ≤ t.bits) (z : Nat) (x : Int) (bl rest : VBytes)
    (h0 : 0 ≤ x) (hfit : t.fits x = true) (hbl : AllBlank bl) (hnb : NB rest) (hwe : WE (bl ++ rest)) :
    Steps N (uintCount t) (some x) (intNumeral z x ++ (bl ++ rest)) rest := by
  unfold uintCount
  refine Steps.bind (Steps.setMark _) ?_
  exact Steps.bind (uint_intNumeral t hb z x bl rest h0 hfit hbl hnb hwe) (Steps.pure _ _)

theorem uintCount_fall {N} (t : IntTy) (hb : 1 ≤ t.bits) (r : VBytes) (hnd : ND r) :
    Steps N (uintCount t) none r r := by
  unfold uintCount
  refine Steps.bind (Steps.setMark _) ?_
  exact Steps.bind (uint_fall t hb r hnd) (Steps.pure _ _)

theorem varCount_ok {N} (l : LitTy) (hl2 : l.bits ≤ 64) (z : Nat) (x : Int) (bl rest : VBytes)
    (h0 : 0 ≤ x) (h1 : x ≤ l.maxDimacs) (hbl : AllBlank bl) (hnb : NB rest) (hwe : WE (bl ++ rest)) :
    Steps N (varCount l) (some x) (intNumeral z x ++ (bl ++ rest)) rest := by
  have hm := maxDimacs_le l hl2
  unfold varCount
  refine Steps.bind (Steps.setMark _) ?_
  refine Steps.bind (uint_intNumeral usizeTy (by decide) z x bl rest h0
    (u64_fits x h0 (by omega)) hbl hnb hwe) ?_
  have : ¬ x > l.maxDimacs := by omega
  simp only [this, ↓reduceIte]
  exact Steps.pure _ _

theorem clauseGroup_ok {N} (limit : Int) (z : Nat) (x : Int) (bl rest : VBytes) (h0 : 0 ≤ x)
    (h1 : x < 2 ^ 64) (h2 : x ≤ limit) (hbl : AllBlank bl) (hnb : NB rest) :
    Steps N (clauseGroup limit) (some x) ([123] ++ intNumeral z x ++ [125] ++ (bl ++ rest)) rest := by
  unfold clauseGroup
  refine Steps.bind (Steps.setMark _) ?_
  refine Steps.bind (bracedUint_intNumeral usizeTy (by decide) z x bl rest h0 (u64_fits x h0 h1) hbl hnb) ?_
  have : ¬ x > limit := by omega
  simp only [this, ↓reduceIte]
  exact Steps.pure _ _

theorem clauseGroup_fall {N} (limit : Int) (r : VBytes) (h : r.head? ≠ some 123) :
    Steps N (clauseGroup limit) none r r := by
  unfold clauseGroup
  refine Steps.bind (Steps.setMark _) ?_
  exact Steps.bind (bracedUint_fall usizeTy r h) (Steps.pure _ _)

/-! ### the clause alternative -/

/-- What the parser (in state `p`) accepts as the weight / group of a clause. -/
def TagOk (fmt : Format) (groupLimit : Int) (tag : Int) : Prop :=
  match fmt with
  | .cnf => tag = 0
  | .wcnf => 0 ≤ tag ∧ tag < 2 ^ 64
  | .gcnf => 0 ≤ tag ∧ tag < 2 ^ 64 ∧ tag ≤ groupLimit

structure ClauseOk (fmt : Format) (l : LitTy) (litLimit groupLimit : Int) (c : Clause) : Prop where
  tag : TagOk fmt groupLimit c.tag
  lits : ∀ x ∈ c.lits, LitOk l litLimit x

/-- The clause without leading blanks / junk and without its line end. -/
def coreText (fmt : Format) (cl : ClauseLayout) (c : Clause) (R : VBytes) : VBytes :=
  renderTag fmt cl c ++ litsText cl.lits c.lits cl.termNeg cl.termZeros cl.post R

theorem startsCore_coreText (fmt cl c R) : StartsCore fmt (coreText fmt cl c R) := by
  unfold coreText renderTag
  cases fmt
  · simp only [List.nil_append]; exact startsNum_litsText _ _ _ _ _ _
  · simp only [List.append_assoc]; exact startsNum_intNumeral _ _ _
  · exact ⟨_, rfl⟩

theorem clauseLayout_valid {cl : ClauseLayout} (h : cl.valid = true) :
    cl.junk.valid = true ∧ cl.tagSep.valid = true ∧ (cl.lits.all fun a => a.2.valid) = true := by
  simpa [ClauseLayout.valid, and_assoc] using h

/-- A line end, or nothing at the very end of the input. -/
def EndMark (e rest : VBytes) : Prop := IsEol e ∨ (e = [] ∧ rest = [])

theorem EndMark.startsEol {e rest} (h : EndMark e rest) : StartsEol (e ++ rest) := by
  rcases h with h | ⟨h1, h2⟩
  · rcases h with h | h <;> subst h
    · exact Or.inr ⟨10, rest, rfl, Or.inl rfl⟩
    · exact Or.inr ⟨13, 10 :: rest, rfl, Or.inr rfl⟩
  · subst h1; subst h2; exact Or.inl rfl

theorem clauseAlt_ok {N} (p : Parser) (hl1 : 1 ≤ p.lit.bits) (hl2 : p.lit.bits ≤ 64)
    (cl : ClauseLayout) (c : Clause) (e rest : VBytes) (he : EndMark e rest)
    (hlen : cl.lits.length = c.lits.length) (hv : cl.valid = true)
    (hc : ClauseOk p.fmt p.lit p.litLimit p.groupLimit c) :
    Steps N (clauseAlt p) (some c) (coreText p.fmt cl c (e ++ rest)) rest := by
  obtain ⟨hvj, hvs, hvl⟩ := clauseLayout_valid hv
  have hlits := clauseLits_ok (N := N) p.lit p.litLimit hl1 hl2 cl.lits c.lits cl.termNeg cl.termZeros
    cl.post (e ++ rest) he.startsEol hlen hvl hc.lits
  have heol : Steps N (orGiveUp interactiveEndOfLine unexpected) () (e ++ rest) rest :=
    Steps.orGiveUp (interactiveEndOfLine_ok e rest he)
  have hsn := startsNum_litsText cl.lits c.lits cl.termNeg cl.termZeros cl.post (e ++ rest)
  have htag := hc.tag
  obtain ⟨tag, lits⟩ := c
  unfold clauseAlt coreText renderTag
  cases hf : p.fmt with
  | cnf =>
    rw [hf] at htag
    simp only [TagOk] at htag
    subst htag
    simp only [List.nil_append]
    refine Steps.bind hlits ?_
    exact Steps.bind heol (Steps.pure _ _)
  | wcnf =>
    rw [hf] at htag
    simp only [TagOk] at htag
    simp only [sep_render, List.append_assoc]
    refine Steps.bind (uintCount_ok u64Ty (by decide) cl.zTag tag (sepLead cl.tagSep) _ htag.1
      (u64_fits tag htag.1 htag.2) (allBlank_sepLead _) (nb_sepTail _ hsn.nb) (we_sep _ _)) ?_
    obtain ⟨b, hb⟩ := ntl_sepTail (N := N) cl.tagSep _ hvs hsn
    refine Steps.bind hb ?_
    refine Steps.bind (Steps.orGiveUp hlits) ?_
    exact Steps.bind heol (Steps.pure _ _)
  | gcnf =>
    rw [hf] at htag
    simp only [TagOk] at htag
    simp only [sep_render, List.append_assoc]
    have := clauseGroup_ok (N := N) p.groupLimit cl.zTag tag (sepLead cl.tagSep)
      (sepTail cl.tagSep ++ litsText cl.lits lits cl.termNeg cl.termZeros cl.post (e ++ rest))
      htag.1 htag.2.1 htag.2.2 (allBlank_sepLead _) (nb_sepTail _ hsn.nb)
    simp only [List.append_assoc, List.singleton_append, List.cons_append, List.nil_append] at this ⊢
    refine Steps.bind this ?_
    obtain ⟨b, hb⟩ := ntl_sepTail (N := N) cl.tagSep _ hvs hsn
    refine Steps.bind hb ?_
    refine Steps.bind (Steps.orGiveUp hlits) ?_
    exact Steps.bind heol (Steps.pure _ _)

/-- At a junk line or at the end of the input no clause starts. -/
theorem clauseAlt_fall {N} (p : Parser) (r : VBytes) (h : StartsLine r) :
    Steps N (clauseAlt p) none r r := by
  unfold clauseAlt
  cases p.fmt with
  | cnf =>
    simp only []
    refine Steps.bind (a := none) ?_ (Steps.pure _ _)
    unfold clauseLits
    refine Steps.bind (Steps.setMark _) ?_
    exact Steps.bind (litInt_fall r h) (Steps.pure _ _)
  | wcnf =>
    simp only []
    exact Steps.bind (uintCount_fall u64Ty (by decide) r h.nd) (Steps.pure _ _)
  | gcnf =>
    simp only []
    exact Steps.bind (clauseGroup_fall _ r h.ne.2.1) (Steps.pure _ _)

/-! ### `next_clause` -/

/-- The loop of `next_clause` absorbs junk lines. -/
theorem nextClauseLoop_junk {N} (p : Parser) (res : Option Clause × Parser) (j : Junk)
    (T post : VBytes) (hv : j.valid = true) (hnb : NB T)
    (hK : ∀ f, T.length + 2 ≤ f → Steps N (nextClauseLoop p f) res T post) :
    ∀ f, (renderJunk j ++ T).length + 2 ≤ f →
      Steps N (nextClauseLoop p f) res (renderJunk j ++ T) post := by
  induction j with
  | nil => intro f hf; simpa [renderJunk] using hK f (by simpa [renderJunk] using hf)
  | cons x j ih =>
    obtain ⟨l, b⟩ := x
    obtain ⟨hl, hj⟩ := junk_valid_cons hv
    intro f hf
    have hpos := junkLine_len_pos l
    simp only [renderJunk, List.length_append, List.append_assoc] at hf ⊢
    obtain ⟨f', rfl⟩ : ∃ f', f = f' + 1 := ⟨f - 1, by omega⟩
    have ih' := ih hj f' (by simp only [List.length_append]; omega)
    have hline := startsLine_junkLine l (renderBlanks b ++ (renderJunk j ++ T))
    have hcont : Steps N (do
          if ← «matches» comment then nextClauseLoop p f'
          else if ← «matches» newline then nextClauseLoop p f'
          else
            let mayEnd := !p.clauseLimitActive || (p.clauseCount : Int) ≥ p.clauseLimit
            if mayEnd then
              if ← «matches» eof then pure (none, p) else unexpected
            else unexpected) res (l.render ++ (renderBlanks b ++ (renderJunk j ++ T))) post := by
      rcases junkLine_step (N := N) l b (renderJunk j ++ T) hl (nb_junk j hnb) with h | ⟨h1, h2⟩
      · refine Steps.bind (Steps.matches h) ?_
        simp only [Option.isSome_some, ↓reduceIte]
        exact ih'
      · refine Steps.bind (Steps.matches h1) ?_
        simp only [Option.isSome_none, Bool.false_eq_true, ↓reduceIte]
        refine Steps.bind (Steps.matches h2) ?_
        simp only [Option.isSome_some, ↓reduceIte]
        exact ih'
    rw [nextClauseLoop]
    split
    · exact Steps.bind (clauseAlt_fall p _ hline) hcont
    · exact Steps.bind (Steps.pure _ _) hcont

/-- `next_clause` on a rendered clause. -/
theorem nextClause_ok {N} (p : Parser) (hl1 : 1 ≤ p.lit.bits) (hl2 : p.lit.bits ≤ 64)
    (cl : ClauseLayout) (c : Clause) (e rest : VBytes) (he : EndMark e rest)
    (hlen : cl.lits.length = c.lits.length) (hv : cl.valid = true)
    (hc : ClauseOk p.fmt p.lit p.litLimit p.groupLimit c)
    (htry : ((p.clauseCount : Int) != p.clauseLimit || !p.clauseLimitActive) = true) :
    Steps N p.nextClause (some c, { p with clauseCount := p.clauseCount + 1 })
      (renderBlanks cl.pre ++ (renderJunk cl.junk ++ coreText p.fmt cl c (e ++ rest))) rest := by
  obtain ⟨hvj, _, _⟩ := clauseLayout_valid hv
  have hcore := startsCore_coreText p.fmt cl c (e ++ rest)
  unfold Parser.nextClause
  refine Steps.bind (skipWhitespace_ok _ _ (allBlank_render cl.pre) (nb_junk cl.junk hcore.nb)) ?_
  refine Steps.get_bind ?_
  intro lr hlr
  refine nextClauseLoop_junk p _ cl.junk _ rest hvj hcore.nb ?_ _ (by rw [hlr]; omega)
  intro f hf
  obtain ⟨f', rfl⟩ : ∃ f', f = f' + 1 := ⟨f - 1, by omega⟩
  rw [nextClauseLoop]
  simp only [htry, ↓reduceIte]
  exact Steps.bind (clauseAlt_ok p hl1 hl2 cl c e rest he hlen hv hc) (Steps.pure _ _)

/-- `next_clause` at the end of the document: blanks, junk, end of input. -/
theorem nextClause_end {N} (p : Parser) (tr : Option (Blanks × Junk))
    (hv : (match tr with | some (_, j) => j.valid | none => true) = true)
    (hend : (!p.clauseLimitActive || decide ((p.clauseCount : Int) ≥ p.clauseLimit)) = true) :
    Steps N p.nextClause (none, p) (renderTrailer tr) [] := by
  have hfin : ∀ f, ([] : VBytes).length + 2 ≤ f → Steps N (nextClauseLoop p f) (none, p) [] [] := by
    intro f hf
    obtain ⟨f', rfl⟩ : ∃ f', f = f' + 1 := ⟨f - 1, by omega⟩
    have hcont : Steps N (do
          if ← «matches» comment then nextClauseLoop p f'
          else if ← «matches» newline then nextClauseLoop p f'
          else
            let mayEnd := !p.clauseLimitActive || (p.clauseCount : Int) ≥ p.clauseLimit
            if mayEnd then
              if ← «matches» eof then pure (none, p) else unexpected
            else unexpected) (none, p) [] [] := by
      refine Steps.bind (Steps.matches (comment_fall [] (by simp))) ?_
      simp only [Option.isSome_none, Bool.false_eq_true, ↓reduceIte]
      refine Steps.bind (Steps.matches (newline_fall [] (by simp) (by simp))) ?_
      simp only [Option.isSome_none, Bool.false_eq_true, ↓reduceIte, hend]
      refine Steps.bind (Steps.matches eof_ok) ?_
      simp only [Option.isSome_some, ↓reduceIte]
      exact Steps.pure _ _
    rw [nextClauseLoop]
    split
    · exact Steps.bind (clauseAlt_fall p _ (Or.inl rfl)) hcont
    · exact Steps.bind (Steps.pure _ _) hcont
  unfold Parser.nextClause
  cases tr with
  | none =>
    simp only [renderTrailer]
    refine Steps.bind (skipWhitespace_ok [] [] (fun _ h => by simp at h) NB.nil) ?_
    refine Steps.get_bind ?_
    intro lr hlr
    exact hfin _ (by rw [hlr]; simp)
  | some bj =>
    obtain ⟨b, j⟩ := bj
    simp only [renderTrailer]
    have h0 : renderJunk j = renderJunk j ++ [] := by simp
    rw [h0]
    refine Steps.bind (skipWhitespace_ok _ _ (allBlank_render b) (nb_junk j NB.nil)) ?_
    refine Steps.get_bind ?_
    intro lr hlr
    exact nextClauseLoop_junk p _ j [] [] hv NB.nil hfin _ (by rw [hlr]; omega)

/-! ### the driver loop -/

/-- The parser state fits the remaining clauses `cs`. -/
structure PInv (fmt : Format) (l : LitTy) (p : Parser) (cs : List Clause) : Prop where
  hfmt : p.fmt = fmt
  hlit : p.lit = l
  clauses : ∀ c ∈ cs, ClauseOk fmt l p.litLimit p.groupLimit c
  count : p.clauseLimitActive = true → p.clauseLimit = (p.clauseCount : Int) + cs.length

theorem renderClauses_cons (fmt : Format) (cl : ClauseLayout) (cls : List ClauseLayout) (c : Clause)
    (cs : List Clause) (tr : Option (Blanks × Junk)) :
    renderClauses fmt (cl :: cls) (c :: cs) tr =
      renderBlanks cl.pre ++ (renderJunk cl.junk ++ coreText fmt cl c
        ((if cls.isEmpty && tr.isNone then [] else cl.eol.render) ++ renderClauses fmt cls cs tr)) := by
  simp only [renderClauses, renderClauseBody, coreText, litsText, List.append_assoc]

theorem driveClauses_ok {N} (fmt : Format) (l : LitTy) (hl1 : 1 ≤ l.bits) (hl2 : l.bits ≤ 64)
    (tr : Option (Blanks × Junk))
    (htr : (match tr with | some (_, j) => j.valid | none => true) = true) :
    ∀ (cls : List ClauseLayout) (cs : List Clause), FitsClauses cls cs →
      ∀ (p : Parser) (acc : List Clause) (lr : LR) (f : Nat), PInv fmt l p cs → Good N lr →
        lr.v.rest = renderClauses fmt cls cs tr → lr.v.rest.length + 2 ≤ f →
        ∃ lr', driveClauses f p acc lr = (acc.reverse ++ cs, none, lr') := by
  intro cls
  induction cls with
  | nil =>
    intro cs hfit p acc lr f hp hg hr hf
    cases cs with
    | cons _ _ => exact absurd hfit (by simp [FitsClauses])
    | nil =>
      obtain ⟨f', rfl⟩ : ∃ f', f = f' + 1 := ⟨f - 1, by omega⟩
      have hend : (!p.clauseLimitActive || decide ((p.clauseCount : Int) ≥ p.clauseLimit)) = true := by
        cases ha : p.clauseLimitActive with
        | false => rfl
        | true => have := hp.count ha; simp at this ⊢; omega
      obtain ⟨lr', e, _, _⟩ := nextClause_end (N := N) p tr htr hend lr hg (by rw [hr]; rfl)
      refine ⟨lr', ?_⟩
      rw [driveClauses, e]
      simp
  | cons cl cls ih =>
    intro cs hfit p acc lr f hp hg hr hf
    cases cs with
    | nil => exact absurd hfit (by simp [FitsClauses])
    | cons c cs =>
      obtain ⟨hlen, hv, hfit'⟩ := hfit
      obtain ⟨f', rfl⟩ : ∃ f', f = f' + 1 := ⟨f - 1, by omega⟩
      have hc : ClauseOk p.fmt p.lit p.litLimit p.groupLimit c := by
        rw [hp.hfmt, hp.hlit]; exact hp.clauses c (by simp)
      have htry : ((p.clauseCount : Int) != p.clauseLimit || !p.clauseLimitActive) = true := by
        cases ha : p.clauseLimitActive with
        | false => simp
        | true =>
          have := hp.count ha
          simp only [List.length_cons] at this
          simp only [Bool.not_true, Bool.or_false, bne_iff_ne, ne_eq]
          push_cast at this
          omega
      have he : EndMark (if cls.isEmpty && tr.isNone then [] else cl.eol.render)
          (renderClauses fmt cls cs tr) := by
        by_cases hlast : (cls.isEmpty && tr.isNone) = true
        · right
          simp only [hlast, ↓reduceIte, true_and]
          simp only [Bool.and_eq_true, List.isEmpty_iff, Option.isNone_iff_eq_none] at hlast
          obtain ⟨h1, h2⟩ := hlast
          subst h1; subst h2
          cases cs <;> simp [renderClauses, renderTrailer]
        · left
          simp only [hlast, ↓reduceIte]
          exact isEol_render _
      rw [renderClauses_cons] at hr
      have key := nextClause_ok (N := N) p (by rw [hp.hlit]; exact hl1)
        (by rw [hp.hlit]; exact hl2) cl c _ _ he hlen hv hc htry
      rw [hp.hfmt] at key
      obtain ⟨lr1, e1, g1, r1⟩ := key lr hg hr
      have hp' : PInv fmt l { p with fmt := fmt, clauseCount := p.clauseCount + 1 } cs := by
        refine ⟨rfl, hp.hlit, fun c' hc' => hp.clauses c' (by simp [hc']), ?_⟩
        intro ha
        have := hp.count ha
        simp only [List.length_cons] at this
        push_cast at this ⊢
        omega
      have hshort : lr1.v.rest.length + 2 ≤ f' := by
        have hl0 := hg.len
        have hl1' := g1.len
        have hstep : lr1.v.rest.length < lr.v.rest.length := by
          rw [r1, hr]
          have hpos : 0 < (terminator cl.termNeg cl.termZeros).length := terminator_len_pos _ _
          simp only [coreText, litsText, List.length_append]
          omega
        omega
      obtain ⟨lr', e'⟩ := ih cs hfit' _ (c :: acc) lr1 f' hp' g1 r1 hshort
      refine ⟨lr', ?_⟩
      rw [driveClauses, e1]
      dsimp only
      rw [e']
      simp

end Flussab.CnfP
