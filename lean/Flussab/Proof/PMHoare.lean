/-
A small Hoare-style framework for the parser monad `PM = ExceptT PErr (StateM LR)`, and the state
invariant of `LineReader`-based parsers (properties C05 and C08).

* `Wp E m lr Q` ("from state `lr`, `m` ends in `Q` or fails in `E`"): a weakest-precondition
  style predicate on one run; `Safe E P m Q` is the corresponding triple.  Rules for `pure`,
  `bind`, `throw`, state access and every primitive of `Model/LineReader.lean`; `if` / `match` are
  handled by `split`.
* Scanner rules (`Wp.tabs`, `Wp.newline0`, `Wp.nextNewline`, `Wp.fixed0`, `Wp.asciiDigits`,
  `Wp.signedDigits0`): what the `Text.*` scanners return and that they only raise the look-ahead
  ghost, from the C16 / C13 specifications.
* `Inv b lr`: the invariant of a parser state over the input `b` (ghost): the unconsumed bytes
  are `b.drop pos`; `line_start ≤ pos`; no newline has been consumed since `line_start`; and the
  `(line_start, line)` bookkeeping is right (`Lines.LineAt`).  `Err b` is the error
  postcondition: never a panic, a syntax error designates a position inside `b`, and the
  invariant still holds.
-/
import Flussab.Model.LineReader
import Flussab.Proof.Lines
import Flussab.Props.C16
import Flussab.Props.C13

namespace Flussab
namespace PM
open Lines

/-! ### outcomes -/

/-- Predicate on the outcome of a run: `Q` on a result, `E` on an error. -/
def Res {α : Type} (E : PErr → LR → Prop) (Q : α → LR → Prop) : Except PErr α × LR → Prop
  | (.ok a, lr') => Q a lr'
  | (.error e, lr') => E e lr'

/-- Running `m` from `lr` returns in `Q` or fails in `E`. -/
def Wp {α : Type} (E : PErr → LR → Prop) (m : PM α) (lr : LR) (Q : α → LR → Prop) : Prop :=
  Res E Q (m.run lr)

/-- The Hoare triple: from every state in `P`. -/
def Safe {α : Type} (E : PErr → LR → Prop) (P : LR → Prop) (m : PM α) (Q : α → LR → Prop) :
    Prop :=
  ∀ lr, P lr → Wp E m lr Q

variable {α β : Type} {E : PErr → LR → Prop} {lr : LR}

theorem run_bind (m : PM α) (f : α → PM β) (lr : LR) :
    (m >>= f).run lr = match m.run lr with
      | (.ok a, lr') => (f a).run lr'
      | (.error e, lr') => (.error e, lr') := by
  show (ExceptT.run (m >>= f)) lr = _
  rw [ExceptT.run_bind]
  show (StateT.bind _ _) lr = _
  unfold StateT.bind
  show (match m.run lr with | (a, s) => _) = _
  rcases m.run lr with ⟨_|_, _⟩ <;> rfl

theorem Wp.bind {m : PM α} {f : α → PM β} {Q : β → LR → Prop}
    (h : Wp E m lr (fun a lr1 => Wp E (f a) lr1 Q)) : Wp E (m >>= f) lr Q := by
  unfold Wp at *
  rw [run_bind]
  rcases hm : m.run lr with ⟨_|_, _⟩ <;> rw [hm] at h <;> exact h

theorem Wp.mono {m : PM α} {Q Q' : α → LR → Prop} (h : Wp E m lr Q)
    (hq : ∀ a lr1, Q a lr1 → Q' a lr1) : Wp E m lr Q' := by
  unfold Wp at *
  rcases hm : m.run lr with ⟨_|_, _⟩ <;> rw [hm] at h
  · exact h
  · exact hq _ _ h

/-- Forward form of the rule for `bind`: a specification of the first step, then the rest from
every state it allows. -/
theorem Wp.bind' {m : PM α} {f : α → PM β} {Q1 : α → LR → Prop} {Q : β → LR → Prop}
    (h : Wp E m lr Q1) (hf : ∀ a lr1, Q1 a lr1 → Wp E (f a) lr1 Q) : Wp E (m >>= f) lr Q :=
  Wp.bind (Wp.mono h hf)

theorem Wp.pure {a : α} {Q : α → LR → Prop} (h : Q a lr) : Wp E (pure a) lr Q := h

theorem Wp.throw {e : PErr} {Q : α → LR → Prop} (h : E e lr) : Wp E (throw e : PM α) lr Q := h

theorem Wp.get {Q : LR → LR → Prop} (h : Q lr lr) : Wp E (get : PM LR) lr Q := h

theorem Wp.set {s : LR} {Q : PUnit → LR → Prop} (h : Q ⟨⟩ s) : Wp E (set s : PM PUnit) lr Q := h

theorem Wp.modify {f : LR → LR} {Q : PUnit → LR → Prop} (h : Q ⟨⟩ (f lr)) :
    Wp E (modify f : PM PUnit) lr Q := h

theorem Wp.modifyGet {f : LR → α × LR} {Q : α → LR → Prop} (h : Q (f lr).1 (f lr).2) :
    Wp E (modifyGet f : PM α) lr Q := h

/-- What a result of a run means for `Wp`. -/
theorem Wp.of_run {m : PM α} {Q : α → LR → Prop} (h : Wp E m lr Q) :
    (∀ a lr1, m.run lr = (.ok a, lr1) → Q a lr1) ∧
    (∀ e lr1, m.run lr = (.error e, lr1) → E e lr1) := by
  unfold Wp at h
  refine ⟨?_, ?_⟩
  · intro a lr1 hr; rw [hr] at h; exact h
  · intro e lr1 hr; rw [hr] at h; exact h

/-! ### the primitives of `Model/LineReader.lean` (weakest-precondition form) -/

theorem Wp.scan {f : View → α × View} {Q : α → LR → Prop}
    (h : Q (f lr.v).1 { lr with v := (f lr.v).2 }) : Wp E (PM.scan f) lr Q := h

theorem Wp.reqAt {k : Nat} {Q : Option UInt8 → LR → Prop}
    (h : Q lr.v.rest[k]? { lr with v := lr.v.demand k }) : Wp E (PM.reqAt k) lr Q := h

theorem Wp.advance {n : Nat} {Q : Unit → LR → Prop} (hn : n ≤ lr.v.demanded)
    (h : Q () { lr with v := { lr.v with rest := lr.v.rest.drop n, pos := lr.v.pos + n } }) :
    Wp E (PM.advance n) lr Q := by
  unfold PM.advance
  refine Wp.bind (Wp.get ?_)
  simp only [View.advance, hn, ↓reduceIte]
  exact h

theorem Wp.bufPrefix {n : Nat} {Q : VBytes → LR → Prop} (hn : n ≤ lr.v.demanded)
    (h : Q (lr.v.rest.take n) lr) : Wp E (PM.bufPrefix n) lr Q := by
  unfold PM.bufPrefix
  refine Wp.bind (Wp.get ?_)
  simp only [View.bufPrefix, hn, ↓reduceIte]
  exact h

theorem Wp.advanceWithBuf {n : Nat} {Q : VBytes → LR → Prop} (hn : n ≤ lr.v.demanded)
    (h : Q (lr.v.rest.take n)
      { lr with v := { lr.v with rest := lr.v.rest.drop n, pos := lr.v.pos + n } }) :
    Wp E (PM.advanceWithBuf n) lr Q := by
  unfold PM.advanceWithBuf
  refine Wp.bind (Wp.bufPrefix hn ?_)
  refine Wp.bind (Wp.advance hn ?_)
  exact h

theorem Wp.setMark {Q : PUnit → LR → Prop} (h : Q ⟨⟩ { lr with v := lr.v.setMark }) :
    Wp E PM.setMark lr Q := h

theorem Wp.position {Q : Nat → LR → Prop} (h : Q lr.v.pos lr) : Wp E PM.position lr Q := h

theorem Wp.mark {Q : Nat → LR → Prop} (h : Q lr.v.mark lr) : Wp E PM.mark lr Q := h

theorem Wp.lineAtOffset {off : Nat} {Q : Unit → LR → Prop} (h1 : lr.line + 1 ≤ usizeMax)
    (h2 : lr.v.pos + off ≤ usizeMax)
    (h : Q () { lr with line := lr.line + 1, lineStart := lr.v.pos + off }) :
    Wp E (PM.lineAtOffset off) lr Q := by
  unfold PM.lineAtOffset
  refine Wp.bind (Wp.get ?_)
  have : ¬ (lr.line + 1 > usizeMax ∨ lr.v.pos + off > usizeMax) := by omega
  simp only [this, ↓reduceIte]
  exact h

/-- `give_up_at(p)`: the parked I/O error, or a syntax error at `line : p - line_start + 1` —
provided `line_start ≤ p` (the checked subtraction). -/
theorem Wp.giveUpAt {p : Nat} {Q : α → LR → Prop}
    (hio : lr.v.ioErr = true → E .io { lr with v := lr.v.checkIoError.2 })
    (hsyn : lr.v.ioErr = false → lr.lineStart ≤ p ∧
      E (.syn lr.line (p - lr.lineStart + 1)) { lr with v := lr.v.checkIoError.2 }) :
    Wp E (PM.giveUpAt p : PM α) lr Q := by
  unfold PM.giveUpAt
  refine Wp.bind (Wp.get ?_)
  simp only [View.checkIoError]
  refine Wp.bind (Wp.set ?_)
  by_cases hc : lr.v.ioErr = true
  · simp only [hc, ↓reduceIte]
    exact hio hc
  · have hc' : lr.v.ioErr = false := by simpa using hc
    obtain ⟨h1, h2⟩ := hsyn hc'
    have : ¬ p < lr.lineStart := by omega
    simp only [hc', Bool.false_eq_true, ↓reduceIte, this]
    exact h2

theorem Wp.giveUp {Q : α → LR → Prop}
    (hio : lr.v.ioErr = true → E .io { lr with v := lr.v.checkIoError.2 })
    (hsyn : lr.v.ioErr = false → lr.lineStart ≤ lr.v.pos ∧
      E (.syn lr.line (lr.v.pos - lr.lineStart + 1)) { lr with v := lr.v.checkIoError.2 }) :
    Wp E (PM.giveUp : PM α) lr Q := by
  unfold PM.giveUp
  refine Wp.bind (Wp.position ?_)
  exact Wp.giveUpAt hio hsyn

theorem Wp.orGiveUp {p : PM (Option α)} {err : PM α} {Q : α → LR → Prop}
    (h : Wp E p lr (fun r lr1 => match r with | some a => Q a lr1 | none => Wp E err lr1 Q)) :
    Wp E (PM.orGiveUp p err) lr Q := by
  unfold PM.orGiveUp
  refine Wp.bind (Wp.mono h ?_)
  intro r lr1 hr
  cases r <;> exact hr

theorem Wp.matches {p : PM (Option α)} {Q : Bool → LR → Prop}
    (h : Wp E p lr (fun r lr1 => Q r.isSome lr1)) : Wp E (PM.«matches» p) lr Q := by
  unfold PM.matches
  exact Wp.bind (Wp.mono h (fun _ _ hr => hr))

theorem Wp.orParse {p q : PM (Option α)} {Q : Option α → LR → Prop}
    (h : Wp E p lr (fun r lr1 => match r with | some a => Q (some a) lr1 | none => Wp E q lr1 Q)) :
    Wp E (PM.orParse p q) lr Q := by
  unfold PM.orParse
  refine Wp.bind (Wp.mono h ?_)
  intro r lr1 hr
  cases r <;> exact hr

theorem Wp.utf8Unwrap {bs : VBytes} {Q : Unit → LR → Prop} (hb : ∀ x ∈ bs, x < 128)
    (h : Q () lr) : Wp E (PM.utf8Unwrap bs) lr Q := by
  unfold PM.utf8Unwrap
  have : bs.all (· < 128) = true := by
    rw [List.all_eq_true]; intro x hx; simpa using hb x hx
  simp only [this, ↓reduceIte]
  exact h

/-! ### what a scanner may change -/

/-- The source-failure bookkeeping of the view: a failing source that has hit the end has its
error parked (until `check_io_error` takes it, which always ends the parse), and only a failing
source parks an error. -/
def FInv (lr : LR) : Prop :=
  (lr.v.fault = true → lr.v.sawEnd = true → lr.v.ioErr = true) ∧
  (lr.v.ioErr = true → lr.v.fault = true)

/-- `lr'` is `lr` after look-ahead only: nothing consumed, same line, same mark. -/
structure Ext (lr lr' : LR) : Prop where
  rest : lr'.v.rest = lr.v.rest
  pos : lr'.v.pos = lr.v.pos
  mark : lr'.v.mark = lr.v.mark
  line : lr'.line = lr.line
  lineStart : lr'.lineStart = lr.lineStart
  peeked : lr.v.peeked ≤ lr'.v.peeked
  fault : lr'.v.fault = lr.v.fault
  finv : FInv lr → FInv lr'

theorem Ext.refl (lr : LR) : Ext lr lr := ⟨rfl, rfl, rfl, rfl, rfl, Nat.le_refl _, rfl, id⟩

theorem Ext.trans {a b c : LR} (h1 : Ext a b) (h2 : Ext b c) : Ext a c :=
  ⟨h2.rest.trans h1.rest, h2.pos.trans h1.pos, h2.mark.trans h1.mark, h2.line.trans h1.line,
    h2.lineStart.trans h1.lineStart, Nat.le_trans h1.peeked h2.peeked, h2.fault.trans h1.fault,
    fun h => h2.finv (h1.finv h)⟩

theorem demand_finv (v : View) (k : Nat)
    (h : (v.fault = true → v.sawEnd = true → v.ioErr = true) ∧ (v.ioErr = true → v.fault = true)) :
    ((v.demand k).fault = true → (v.demand k).sawEnd = true → (v.demand k).ioErr = true) ∧
    ((v.demand k).ioErr = true → (v.demand k).fault = true) := by
  unfold View.demand
  by_cases hk : k < v.rest.length
  · simpa [hk] using h
  · simp only [hk, ↓reduceIte]
    revert h
    cases v.fault <;> cases v.sawEnd <;> cases v.ioErr <;> simp

variable {lr0 : LR}

/-- Demanding offset `k` from a state that differs from the base state `lr0` by look-ahead. -/
theorem Ext.demandF (e : Ext lr0 lr) (k : Nat) :
    Ext lr0 { lr with v := lr.v.demand k } ∧
    (lr.v.demand k).peeked = max lr.v.peeked (lr0.v.pos + k + 1) ∧
    (lr0.v.rest.length ≤ k → (lr.v.demand k).sawEnd = true) := by
  obtain ⟨h1, h2, h3, h4, h5⟩ := C16.demand_effect lr.v k
  have hf : (lr.v.demand k).fault = lr.v.fault := by
    unfold View.demand; dsimp only; split <;> rfl
  refine ⟨e.trans ⟨h1, h2, h3, rfl, rfl, by rw [h4]; omega, hf, demand_finv lr.v k⟩, ?_, ?_⟩
  · rw [h4, e.pos]
  · intro hk
    rw [h5, e.rest]
    simp [hk]

/-- All of `l[i..j)` exist and satisfy `p`. -/
def AllAt (p : UInt8 → Prop) (l : VBytes) (i j : Nat) : Prop :=
  ∀ k, i ≤ k → k < j → ∃ x, l[k]? = some x ∧ p x

theorem AllAt.mono {p q : UInt8 → Prop} {l : VBytes} {i j : Nat} (h : AllAt p l i j)
    (hpq : ∀ x, p x → q x) : AllAt q l i j := by
  intro k h1 h2
  obtain ⟨x, hx, hp⟩ := h k h1 h2
  exact ⟨x, hx, hpq x hp⟩

theorem AllAt.append {p : UInt8 → Prop} {l : VBytes} {i j k : Nat} (h1 : AllAt p l i j)
    (h2 : AllAt p l j k) : AllAt p l i k := by
  intro n hn1 hn2
  by_cases hj : n < j
  · exact h1 n hn1 hj
  · exact h2 n (by omega) hn2

theorem AllAt.le_length {p : UInt8 → Prop} {l : VBytes} {i j : Nat} (h : AllAt p l i j)
    (hij : i < j) : j ≤ l.length := by
  obtain ⟨x, hx, _⟩ := h (j - 1) (by omega) (by omega)
  have := (List.getElem?_eq_some_iff.mp hx).1
  omega

theorem AllAt.empty (p : UInt8 → Prop) (l : VBytes) (i : Nat) : AllAt p l i i := by
  intro k h1 h2; omega

theorem allAt_takeWhile (p : UInt8 → Bool) (l : VBytes) (off : Nat) :
    AllAt (fun x => p x = true) l off (off + ((l.drop off).takeWhile p).length) := by
  intro k h1 h2
  have hk : k - off < ((l.drop off).takeWhile p).length := by omega
  have hmem := Text.takeWhile_all p (l.drop off) _ (List.getElem_mem hk)
  refine ⟨((l.drop off).takeWhile p)[k - off], ?_, hmem⟩
  have hpre : (l.drop off).takeWhile p <+: l.drop off := List.takeWhile_prefix p
  have h3 : (l.drop off)[k - off]? = some (((l.drop off).takeWhile p)[k - off]) :=
    List.prefix_iff_getElem?.mp hpre _ hk
  rw [List.getElem?_drop] at h3
  have : off + (k - off) = k := by omega
  rw [this] at h3
  exact h3

theorem takeWhile_end (p : UInt8 → Bool) (l : VBytes) (off : Nat) (h : off ≤ l.length) :
    off + ((l.drop off).takeWhile p).length ≤ l.length := by
  have := C13.takeWhile_length_le p (l.drop off)
  simp only [List.length_drop] at this
  omega

/-! ### scanner rules

Inside a token function several scans follow each other; `lr0` is the state at the entry of the
function, `lr` the current one (`Ext lr0 lr`: only look-ahead happened in between).  All facts are
stated about `lr0`, so they chain without rewriting.  Each rule says what the scanner returns in
terms of the bytes in front of the cursor, and what it does to the look-ahead ghost `peeked`
(exactly, or bounded from both sides). -/

theorem Wp.reqAtF (e : Ext lr0 lr) (k : Nat) :
    Wp E (PM.reqAt k) lr (fun a lr1 => Ext lr0 lr1 ∧ a = lr0.v.rest[k]? ∧
      lr1.v.peeked = max lr.v.peeked (lr0.v.pos + k + 1) ∧ (a = none → lr1.v.sawEnd = true)) := by
  obtain ⟨e1, p, se⟩ := e.demandF k
  refine Wp.reqAt ⟨e1, by rw [e.rest], p, ?_⟩
  intro ha
  apply se
  rw [e.rest] at ha
  exact List.getElem?_eq_none_iff.mp ha

theorem Wp.reqByteF (e : Ext lr0 lr) :
    Wp E PM.reqByte lr (fun a lr1 => Ext lr0 lr1 ∧ a = lr0.v.rest[0]? ∧
      lr1.v.peeked = max lr.v.peeked (lr0.v.pos + 0 + 1) ∧ (a = none → lr1.v.sawEnd = true)) :=
  Wp.reqAtF e 0

/-- `tabs_or_spaces` from `off`. -/
theorem Wp.tabsF (e : Ext lr0 lr) (off : Nat) :
    Wp E (PM.scan (Text.tabsOrSpaces · off)) lr (fun r lr1 => Ext lr0 lr1 ∧ off ≤ r ∧
      AllAt (fun x => isBlank x = true) lr0.v.rest off r ∧
      (off ≤ lr0.v.rest.length → r ≤ lr0.v.rest.length) ∧
      lr1.v.peeked = max lr.v.peeked (lr0.v.pos + r + 1)) := by
  apply Wp.scan
  obtain ⟨h1, h2⟩ := C16.tabs_or_spaces_spec lr.v off
  rw [h1, h2, e.rest]
  obtain ⟨e1, p, _⟩ := e.demandF (off + ((lr0.v.rest.drop off).takeWhile isBlank).length)
  exact ⟨e1, by omega, allAt_takeWhile isBlank _ _, takeWhile_end isBlank _ _, p⟩

/-- `newline` at the cursor: nothing, LF, or CRLF. -/
theorem Wp.newline0F (e : Ext lr0 lr) :
    Wp E (PM.scan (Text.newline · 0)) lr (fun r lr1 => Ext lr0 lr1 ∧
      ((r = 0 ∧ lr0.v.rest[0]? ≠ some 10 ∧
          (lr0.v.rest[0]? = some 13 → lr0.v.rest[1]? ≠ some 10)) ∨
        (r = 1 ∧ lr0.v.rest[0]? = some 10) ∨
        (r = 2 ∧ lr0.v.rest[0]? = some 13 ∧ lr0.v.rest[1]? = some 10)) ∧
      lr1.v.peeked = max lr.v.peeked
        (lr0.v.pos + (if r = 0 then (if lr0.v.rest[0]? = some 13 then 2 else 1) else r))) := by
  apply Wp.scan
  obtain ⟨s1, s2, s3, s4⟩ := C16.newline_spec lr.v 0
  rw [e.rest] at s1 s2 s3 s4
  by_cases h10 : lr0.v.rest[0]? = some 10
  · rw [s1 h10]
    obtain ⟨e1, p, _⟩ := e.demandF 0
    exact ⟨e1, Or.inr (Or.inl ⟨rfl, h10⟩), by simpa using p⟩
  · by_cases h13 : lr0.v.rest[0]? = some 13
    · obtain ⟨e1, p1, _⟩ := e.demandF 0
      obtain ⟨e2, p2, _⟩ := e1.demandF (0 + 1)
      simp only at p1 p2
      by_cases h1 : lr0.v.rest[0 + 1]? = some 10
      · rw [s2 h13 h1]
        refine ⟨e2, Or.inr (Or.inr ⟨rfl, h13, h1⟩), ?_⟩
        simp only [p2, p1]; simp <;> omega
      · rw [s3 h13 h1]
        refine ⟨e2, Or.inl ⟨rfl, h10, fun _ => h1⟩, ?_⟩
        simp only [p2, p1, h13]; simp <;> omega
    · rw [s4 h10 h13]
      obtain ⟨e1, p, _⟩ := e.demandF 0
      refine ⟨e1, Or.inl ⟨rfl, h10, fun h => absurd h h13⟩, ?_⟩
      simp only [p, h13]; simp

/-- `next_newline` from `off`: up to and including the next LF, or to the end of the input. -/
theorem Wp.nextNewlineF (e : Ext lr0 lr) (off : Nat) :
    Wp E (PM.scan (Text.nextNewline · off)) lr (fun r lr1 => Ext lr0 lr1 ∧ off ≤ r ∧
      (off ≤ lr0.v.rest.length → r ≤ lr0.v.rest.length) ∧
      ((off < r ∧ lr0.v.rest[r - 1]? = some 10 ∧ AllAt (· ≠ 10) lr0.v.rest off (r - 1) ∧
          lr1.v.peeked = max lr.v.peeked (lr0.v.pos + r)) ∨
       (lr0.v.rest.length ≤ r ∧ AllAt (· ≠ 10) lr0.v.rest off r ∧
          lr1.v.peeked = max lr.v.peeked (lr0.v.pos + r + 1) ∧ lr1.v.sawEnd = true))) := by
  apply Wp.scan
  obtain ⟨s1, s2, s3, s4⟩ := C16.next_newline_spec lr.v off
  rw [e.rest] at s1 s2 s3 s4
  have hall := allAt_takeWhile (· != 10) lr0.v.rest off
  have hall' : AllAt (· ≠ 10) lr0.v.rest off
      (off + ((lr0.v.rest.drop off).takeWhile (· != 10)).length) :=
    hall.mono (fun x hx => by simpa using hx)
  have hend := takeWhile_end (· != 10) lr0.v.rest off
  obtain ⟨e1, p, se⟩ := e.demandF (off + ((lr0.v.rest.drop off).takeWhile (· != 10)).length)
  rw [s1]
  rcases s4 with h | h
  · have hr := s2 h
    have hlt := (List.getElem?_eq_some_iff.mp h).1
    rw [hr]
    refine ⟨e1, by omega, fun _ => by omega, Or.inl ⟨by omega, ?_, ?_, p⟩⟩
    · simpa using h
    · simpa using hall'
  · obtain ⟨hr, hge⟩ := s3 h
    rw [hr]
    exact ⟨e1, by omega, hend, Or.inr ⟨hge, hall', p, se hge⟩⟩

/-- `fixed` at the cursor: all of the pattern or nothing; it never looks beyond the pattern. -/
theorem Wp.fixed0F (e : Ext lr0 lr) (pat : VBytes) :
    Wp E (PM.scan (Text.fixed · 0 pat)) lr (fun r lr1 => Ext lr0 lr1 ∧
      lr.v.peeked ≤ lr1.v.peeked ∧ lr1.v.peeked ≤ max lr.v.peeked (lr0.v.pos + pat.length) ∧
      ((r = 0 ∧ (pat = [] ∨ ¬ pat <+: lr0.v.rest)) ∨
       (r = pat.length ∧ pat <+: lr0.v.rest ∧ lr0.v.pos + r ≤ lr1.v.peeked))) := by
  apply Wp.scan
  obtain ⟨s1, s2, s3, s4, s5⟩ := C16.fixed_spec lr.v 0 pat
  simp only [List.drop_zero, Nat.zero_add] at s1 s2 s4 s5
  rw [e.rest] at s1 s2 s4 s5
  by_cases hp : pat <+: lr0.v.rest
  · by_cases hne : pat = []
    · rw [s3 hne, s1 hp]; subst hne
      exact ⟨e, Nat.le_refl _, by simp only; omega, Or.inl ⟨rfl, Or.inl rfl⟩⟩
    · rw [s1 hp, s4 hne hp]
      obtain ⟨e1, p, _⟩ := e.demandF (pat.length - 1)
      have : 0 < pat.length := List.length_pos_iff.mpr hne
      refine ⟨e1, ?_, ?_, Or.inr ⟨rfl, hp, ?_⟩⟩ <;> (simp only; omega)
  · rw [s2 hp, (s5 hp).1]
    obtain ⟨e1, p, _⟩ := e.demandF (Text.matchLen pat lr0.v.rest)
    have := (s5 hp).2.1
    refine ⟨e1, ?_, ?_, Or.inl ⟨rfl, Or.inr hp⟩⟩ <;> (simp only; omega)

theorem digitsLoop_count (t : IntTy) (sub : Bool) (bs : VBytes) (v : Int) (o : Bool) (n : Nat) :
    (Text.digitsLoop t sub bs v o n).2.2 = n + (bs.takeWhile isDigit).length := by
  induction bs generalizing v o n with
  | nil => simp [Text.digitsLoop]
  | cons c cs ih =>
    by_cases hc : isDigit c = true
    · simp only [Text.digitsLoop, hc, ↓reduceIte, List.takeWhile, List.length_cons]
      rw [ih]; omega
    · have hc' : isDigit c = false := by simpa using hc
      simp [Text.digitsLoop, hc', List.takeWhile]

theorem digitsCont_spec (t : IntTy) (sub : Bool) (v : View) (off : Nat) (value : Option Int) :
    (Text.digitsCont t sub v off value).1.2 = off + ((v.rest.drop off).takeWhile isDigit).length ∧
    (Text.digitsCont t sub v off value).2 =
      v.demand (off + ((v.rest.drop off).takeWhile isDigit).length) := by
  have h := digitsLoop_count t sub (v.rest.drop off) (value.getD 0) value.isNone 0
  simp only [Text.digitsCont]
  generalize Text.digitsLoop t sub (v.rest.drop off) (value.getD 0) value.isNone 0 = r at *
  obtain ⟨a, c, n⟩ := r
  simp only [Nat.zero_add] at h ⊢
  subst h
  exact ⟨rfl, rfl⟩

/-- `ascii_digits` from `off`: passes over digits only. -/
theorem Wp.asciiDigitsF (e : Ext lr0 lr) (t : IntTy) (off : Nat) :
    Wp E (PM.scan (Text.asciiDigits t · off)) lr (fun r lr1 => Ext lr0 lr1 ∧ off ≤ r.2 ∧
      AllAt (fun x => isDigit x = true) lr0.v.rest off r.2 ∧
      (off ≤ lr0.v.rest.length → r.2 ≤ lr0.v.rest.length) ∧
      lr1.v.peeked = max lr.v.peeked (lr0.v.pos + r.2 + 1)) := by
  apply Wp.scan
  obtain ⟨h1, h2⟩ := digitsCont_spec t false lr.v off (some 0)
  simp only [Text.asciiDigits]
  rw [h1, h2, e.rest]
  obtain ⟨e1, p, _⟩ := e.demandF (off + ((lr0.v.rest.drop off).takeWhile isDigit).length)
  exact ⟨e1, by omega, allAt_takeWhile isDigit _ _, takeWhile_end isDigit _ _, p⟩

/-- `signed_ascii_digits` at the cursor: passes over an optional `-` and digits only. -/
theorem Wp.signedDigits0F (e : Ext lr0 lr) (t : IntTy) :
    Wp E (PM.scan (Text.signedAsciiDigits t · 0)) lr (fun r lr1 => Ext lr0 lr1 ∧
      lr.v.peeked ≤ lr1.v.peeked ∧
      AllAt (fun x => isDigit x = true ∨ x = 45) lr0.v.rest 0 r.2 ∧
      (lr1.v.peeked ≤ max lr.v.peeked (lr0.v.pos + r.2 + 1) ∨
       (r.2 = 0 ∧ lr0.v.rest[0]? = some 45 ∧ lr1.v.peeked ≤ max lr.v.peeked (lr0.v.pos + 2)))) := by
  apply Wp.scan
  simp only [Text.signedAsciiDigits, Nat.zero_add]
  rw [e.rest]
  obtain ⟨e1, p1, _⟩ := e.demandF 0
  obtain ⟨e2, p2, _⟩ := e1.demandF 1
  simp only at p1 p2
  split
  · rename_i h45
    split
    · rename_i d hd
      split
      · rename_i hdig
        have hcnt := digitsLoop_count t true (lr0.v.rest.drop (0 + 2)) (t.osub 0 (digitVal d)).1
          (t.osub 0 (digitVal d)).2 0
        generalize Text.digitsLoop t true (lr0.v.rest.drop (0 + 2)) (t.osub 0 (digitVal d)).1
          (t.osub 0 (digitVal d)).2 0 = r at *
        obtain ⟨a, c, n⟩ := r
        simp only [Nat.zero_add] at hcnt ⊢
        subst hcnt
        obtain ⟨e3, p3, _⟩ := e2.demandF (2 + ((lr0.v.rest.drop 2).takeWhile isDigit).length)
        simp only at p3
        refine ⟨e3, by omega, ?_, Or.inl (by omega)⟩
        intro k _ hk
        by_cases hk0 : k = 0
        · subst hk0; exact ⟨45, h45, Or.inr rfl⟩
        · by_cases hk1 : k = 1
          · subst hk1; exact ⟨d, by simpa using hd, Or.inl hdig⟩
          · obtain ⟨x, hx, hp⟩ := allAt_takeWhile isDigit lr0.v.rest 2 k (by omega) hk
            exact ⟨x, hx, Or.inl hp⟩
      · exact ⟨e2, by simp only; omega, AllAt.empty _ _ _, Or.inr ⟨rfl, h45, by simp only; omega⟩⟩
    · exact ⟨e2, by simp only; omega, AllAt.empty _ _ _, Or.inr ⟨rfl, h45, by simp only; omega⟩⟩
  · obtain ⟨h1, h2⟩ := digitsCont_spec t false lr.v 0 (some 0)
    rw [h1, h2, e.rest]
    obtain ⟨e3, p3, _⟩ := e.demandF (0 + ((lr0.v.rest.drop 0).takeWhile isDigit).length)
    exact ⟨e3, by omega, (allAt_takeWhile isDigit _ _).mono (fun x hx => Or.inl hx),
      Or.inl (by omega)⟩

/-! ### the invariant -/

/-- The input is short enough that `line_at_offset` cannot overflow (`b.length < 2^63` is
plenty). -/
def SizeOK (b : VBytes) : Prop := b.length + 3 ≤ usizeMax

theorem SizeOK.of_lt {b : VBytes} (h : b.length < 2 ^ 63) : SizeOK b := by
  unfold SizeOK usizeMax; omega

/-- The view is a cursor into the input `b` of a source that fails at its end iff `f`. -/
structure Base (b : VBytes) (f : Bool) (lr : LR) : Prop where
  size : SizeOK b
  rest : lr.v.rest = b.drop lr.v.pos
  pos_le : lr.v.pos ≤ b.length
  fault : lr.v.fault = f

/-- `p` is a position on the current line `(s, l)`. -/
structure OnLine (b : VBytes) (s l p : Nat) : Prop where
  le : s ≤ p
  p_le : p ≤ b.length
  nolf : NoLF b s p
  lineAt : LineAt b s l

/-- The part of the invariant that also holds after an error has been taken. -/
structure InvE (b : VBytes) (f : Bool) (lr : LR) : Prop extends Base b f lr where
  online : OnLine b lr.lineStart lr.line lr.v.pos

/-- The state invariant of a `LineReader` parser over the input `b`. -/
structure Inv (b : VBytes) (f : Bool) (lr : LR) : Prop extends InvE b f lr where
  finv : FInv lr

/-- Error postcondition: never a panic; an I/O error only from a failing source; a syntax error
designates a position inside `b` and, when the source is a failing one, is raised before the
reader has hit the end of the data; the position invariant still holds. -/
def Err (b : VBytes) (f : Bool) (e : PErr) (lr : LR) : Prop :=
  InvE b f lr ∧
  match e with
  | .io => f = true
  | .syn l c => InRange b l c ∧ (f = true → lr.v.sawEnd = false)
  | .panic _ => False

/-- The mark is a position on the current line (what `exceeds_var_count` needs). -/
def MarkOK (lr : LR) : Prop := lr.lineStart ≤ lr.v.mark ∧ lr.v.mark ≤ lr.v.pos

/-- `lr'` is `lr` moved forward on the same line with the same mark. -/
structure Fwd (lr lr' : LR) : Prop where
  pos : lr.v.pos ≤ lr'.v.pos
  line : lr'.line = lr.line
  lineStart : lr'.lineStart = lr.lineStart
  mark : lr'.v.mark = lr.v.mark

theorem Fwd.refl (lr : LR) : Fwd lr lr := ⟨Nat.le_refl _, rfl, rfl, rfl⟩

theorem Fwd.trans {a b c : LR} (h1 : Fwd a b) (h2 : Fwd b c) : Fwd a c :=
  ⟨Nat.le_trans h1.pos h2.pos, h2.line.trans h1.line, h2.lineStart.trans h1.lineStart,
    h2.mark.trans h1.mark⟩

theorem Ext.fwd {a b : LR} (h : Ext a b) : Fwd a b :=
  ⟨by rw [h.pos]; exact Nat.le_refl _, h.line, h.lineStart, h.mark⟩

theorem MarkOK.fwd {a b : LR} (h : MarkOK a) (hf : Fwd a b) : MarkOK b := by
  obtain ⟨h1, h2⟩ := h
  have := hf.pos
  exact ⟨by rw [hf.lineStart, hf.mark]; exact h1, by rw [hf.mark]; omega⟩

variable {b : VBytes} {f : Bool}

theorem inv_init (b : VBytes) (fault : Bool) (h : SizeOK b) : Inv b fault (LR.init b fault) :=
  { size := h, rest := by simp [LR.init, View.init], pos_le := Nat.zero_le _, fault := rfl,
    online := ⟨Nat.le_refl _, Nat.zero_le _, fun i h1 h2 => by simp [LR.init, View.init] at h2,
      lineAt_init b⟩,
    finv := ⟨fun _ h => by simp [LR.init, View.init] at h, fun h => by simp [LR.init, View.init] at h⟩ }

theorem Base.ext {lr lr1 : LR} (h : Base b f lr) (e : Ext lr lr1) : Base b f lr1 :=
  ⟨h.size, by rw [e.rest, e.pos]; exact h.rest, by rw [e.pos]; exact h.pos_le,
    by rw [e.fault]; exact h.fault⟩

theorem Inv.ext {lr lr1 : LR} (h : Inv b f lr) (e : Ext lr lr1) : Inv b f lr1 :=
  { toBase := h.toBase.ext e, online := by rw [e.lineStart, e.line, e.pos]; exact h.online,
    finv := e.finv h.finv }

theorem Base.getElem? {lr : LR} (h : Base b f lr) (i : Nat) : lr.v.rest[i]? = b[lr.v.pos + i]? := by
  rw [h.rest, List.getElem?_drop]

theorem Base.rest_length {lr : LR} (h : Base b f lr) : lr.v.rest.length = b.length - lr.v.pos := by
  rw [h.rest, List.length_drop]

/-- With the invariant on both sides, progress of the position is progress on the input. -/
theorem Base.rest_lt {lr lr1 : LR} (h : Base b f lr) (h1 : Base b f lr1)
    (hp : lr.v.pos < lr1.v.pos) : lr1.v.rest.length < lr.v.rest.length := by
  have := h.rest_length; have := h1.rest_length; have := h1.pos_le
  omega

theorem Base.rest_le {lr lr1 : LR} (h : Base b f lr) (h1 : Base b f lr1)
    (hp : lr.v.pos ≤ lr1.v.pos) : lr1.v.rest.length ≤ lr.v.rest.length := by
  have := h.rest_length; have := h1.rest_length
  omega

/-- The current line extends over consumed bytes that are not newlines. -/
theorem OnLine.extend {lr : LR} {s l i j : Nat} (hb : Base b f lr)
    (ho : OnLine b s l (lr.v.pos + i)) (hij : i ≤ j) (hj : j ≤ lr.v.rest.length)
    (h : AllAt (· ≠ 10) lr.v.rest i j) : OnLine b s l (lr.v.pos + j) := by
  have hl := hb.rest_length
  have := hb.pos_le
  refine ⟨by have := ho.le; omega, by omega, ?_, ho.lineAt⟩
  intro k h1 h2
  by_cases hk : k < lr.v.pos + i
  · exact ho.nolf k h1 hk
  · obtain ⟨x, hx, hne⟩ := h (k - lr.v.pos) (by omega) (by omega)
    rw [hb.getElem?] at hx
    have : lr.v.pos + (k - lr.v.pos) = k := by omega
    rw [this] at hx
    rw [hx]; simpa using hne

/-- Enough has been looked at to advance by `n`. -/
theorem demanded_ge {lr : LR} {n : Nat} (h1 : n ≤ lr.v.rest.length) (h2 : lr.v.pos + n ≤ lr.v.peeked) :
    n ≤ lr.v.demanded := by
  unfold View.demanded; omega

/-- `&buf()[..n]` of scanned bytes. -/
theorem Wp.bufPrefixF {lr0 lr : LR} {n : Nat} {Q : VBytes → LR → Prop} (e : Ext lr0 lr)
    (hn : n ≤ lr0.v.rest.length) (hp : lr0.v.pos + n ≤ lr.v.peeked)
    (h : Q (lr0.v.rest.take n) lr) : Wp E (PM.bufPrefix n) lr Q := by
  refine Wp.bufPrefix (demanded_ge (by rw [e.rest]; exact hn) (by rw [e.pos]; exact hp)) ?_
  rw [e.rest]; exact h

theorem allAt_take {p : UInt8 → Prop} {l : VBytes} {n : Nat} (h : AllAt p l 0 n) :
    ∀ x ∈ l.take n, p x := by
  intro x hx
  obtain ⟨i, hi, hxi⟩ := List.getElem_of_mem hx
  have hi' : i < n := by simp at hi; omega
  obtain ⟨y, hy, hp⟩ := h i (Nat.zero_le _) hi'
  have : (l.take n)[i]? = some y := by rw [List.getElem?_take_of_lt hi']; exact hy
  rw [List.getElem?_eq_getElem hi, hxi] at this
  simp at this; rw [this]; exact hp

theorem allAt_prefix {p : UInt8 → Prop} {pat l : VBytes} (hpre : pat <+: l) (hp : ∀ x ∈ pat, p x) :
    AllAt p l 0 pat.length := by
  intro k _ hk
  refine ⟨pat[k], List.prefix_iff_getElem?.mp hpre k hk, hp _ (List.getElem_mem hk)⟩

theorem AllAt.sub {p : UInt8 → Prop} {l : VBytes} {i j i' j' : Nat} (h : AllAt p l i j)
    (hi : i ≤ i') (hj : j' ≤ j) : AllAt p l i' j' :=
  fun k h1 h2 => h k (by omega) (by omega)

theorem AllAt.single {p : UInt8 → Prop} {l : VBytes} {i : Nat} {x : UInt8} (h : l[i]? = some x)
    (hp : p x) : AllAt p l i (i + 1) := by
  intro k h1 h2
  have : k = i := by omega
  subst this; exact ⟨x, h, hp⟩

theorem blank_ne_lf (x : UInt8) (h : isBlank x = true) : x ≠ 10 := by
  intro hx; subst hx; simp [isBlank] at h

theorem digit_ne_lf (x : UInt8) (h : isDigit x = true) : x ≠ 10 := by
  intro hx; subst hx; simp [isDigit] at h

theorem digit_lt (x : UInt8) (h : isDigit x = true) : x < 128 := by
  simp only [isDigit, Bool.and_eq_true, decide_eq_true_eq] at h
  have h2 : x.toNat ≤ 57 := UInt8.le_iff_toNat_le.mp h.2
  exact UInt8.lt_iff_toNat_lt.mpr (by simp; omega)

/-- `advance(n)` to a position on the current line (`lr0`: the state the facts are about). -/
theorem Wp.adv' {lr0 lr : LR} {n : Nat} (e : Ext lr0 lr) (hb : Base b f lr0) (hf : FInv lr0)
    (hn : n ≤ lr0.v.rest.length) (hp : lr0.v.pos + n ≤ lr.v.peeked)
    (ho : OnLine b lr.lineStart lr.line (lr0.v.pos + n)) :
    Wp E (PM.advance n) lr (fun _ lr1 => Inv b f lr1 ∧ lr1.v.pos = lr0.v.pos + n ∧
      lr1.line = lr.line ∧ lr1.lineStart = lr.lineStart ∧ lr1.v.mark = lr0.v.mark ∧
      lr1.v.peeked = lr.v.peeked ∧ lr1.v.sawEnd = lr.v.sawEnd) := by
  have hr := e.rest; have hps := e.pos
  refine Wp.advance (demanded_ge (by rw [hr]; exact hn) (by rw [hps]; exact hp)) ?_
  refine ⟨{ size := hb.size, rest := ?_, pos_le := ?_, fault := ?_, online := ?_, finv := e.finv hf },
    ?_, rfl, rfl, e.mark, rfl, rfl⟩
  · show lr.v.rest.drop n = b.drop (lr.v.pos + n)
    rw [hr, hps, hb.rest, List.drop_drop]
  · have := hb.rest_length; have := hb.pos_le
    show lr.v.pos + n ≤ b.length
    omega
  · show lr.v.fault = f
    rw [e.fault]; exact hb.fault
  · show OnLine b lr.lineStart lr.line (lr.v.pos + n)
    rw [hps]; exact ho
  · show lr.v.pos + n = lr0.v.pos + n
    rw [hps]

/-- `advance(n)` over scanned bytes that are not newlines. -/
theorem Wp.adv {lr0 lr : LR} {n : Nat} (e : Ext lr0 lr) (h : Inv b f lr0)
    (hn : n ≤ lr0.v.rest.length) (hp : lr0.v.pos + n ≤ lr.v.peeked)
    (hlf : AllAt (· ≠ 10) lr0.v.rest 0 n) :
    Wp E (PM.advance n) lr (fun _ lr1 => Inv b f lr1 ∧ Fwd lr0 lr1 ∧ lr1.v.pos = lr0.v.pos + n ∧
      lr1.v.peeked = lr.v.peeked ∧ lr1.v.sawEnd = lr.v.sawEnd) := by
  have ho := OnLine.extend h.toBase (i := 0) h.online (Nat.zero_le _) hn hlf
  refine (Wp.adv' e h.toBase h.finv hn hp (by rw [e.line, e.lineStart]; exact ho)).mono ?_
  intro _ lr1 ⟨i1, p1, l1, s1, m1, k1, e1⟩
  exact ⟨i1, ⟨by omega, l1.trans e.line, s1.trans e.lineStart, m1⟩, p1, k1, e1⟩

/-- The state after `line_at_offset(off)`. -/
def nextLine (lr : LR) (off : Nat) : LR :=
  { lr with line := lr.line + 1, lineStart := lr.v.pos + off }

@[simp] theorem nextLine_v (lr : LR) (off : Nat) : (nextLine lr off).v = lr.v := rfl
@[simp] theorem nextLine_line (lr : LR) (off : Nat) : (nextLine lr off).line = lr.line + 1 := rfl
@[simp] theorem nextLine_lineStart (lr : LR) (off : Nat) :
    (nextLine lr off).lineStart = lr.v.pos + off := rfl

/-- `line_at_offset(off)` behind a scanned line end: no overflow; the new line start is right.
The base state becomes `nextLine lr0 off`. -/
theorem Wp.lao {lr0 lr : LR} {off : Nat} (e : Ext lr0 lr) (h : Inv b f lr0) (h0 : 0 < off)
    (hle : off ≤ lr0.v.rest.length) (hno : AllAt (· ≠ 10) lr0.v.rest 0 (off - 1))
    (hend : lr0.v.rest[off - 1]? = some 10 ∨ off = lr0.v.rest.length) :
    Wp E (PM.lineAtOffset off) lr (fun _ lr1 => Ext (nextLine lr0 off) lr1 ∧
      lr1.v = lr.v ∧ Base b f (nextLine lr0 off) ∧
      OnLine b (lr0.v.pos + off) (lr0.line + 1) (lr0.v.pos + off)) := by
  have hl := h.rest_length
  have hpl := h.pos_le
  have hsz := h.size
  obtain ⟨hs1, hs2⟩ := lineAt_le b _ _ h.online.lineAt
  unfold SizeOK at hsz
  have hps := e.pos; have hli := e.line
  refine Wp.lineAtOffset (by omega) (by omega) ?_
  refine ⟨⟨e.rest, e.pos, e.mark, ?_, ?_, e.peeked, e.fault, e.finv⟩, rfl,
    ⟨h.size, h.rest, h.pos_le, h.fault⟩, ?_⟩
  · show lr.line + 1 = lr0.line + 1
    rw [hli]
  · show lr.v.pos + off = lr0.v.pos + off
    rw [hps]
  have hext := OnLine.extend h.toBase (i := 0) (j := off - 1) h.online (Nat.zero_le _) (by omega) hno
  refine ⟨Nat.le_refl _, by omega, fun i h1 h2 => by omega, ?_⟩
  apply lineAt_step b lr0.lineStart lr0.line _ h.online.lineAt
  · have := h.online.le; omega
  · omega
  · have : lr0.v.pos + off - 1 = lr0.v.pos + (off - 1) := by omega
    rw [this]; exact hext.nolf
  · rcases hend with he | he
    · left
      rw [h.getElem?] at he
      have : lr0.v.pos + off - 1 = lr0.v.pos + (off - 1) := by omega
      rw [this]; exact he
    · right; omega

/-- `give_up_at(p)` for a position on the current line. -/
theorem Wp.errAt {lr : LR} {p : Nat} {Q : α → LR → Prop} (h : Inv b f lr)
    (h1 : lr.lineStart ≤ p) (h2 : p ≤ lr.v.pos) : Wp (Err b f) (PM.giveUpAt p : PM α) lr Q := by
  have hinv : InvE b f { lr with v := lr.v.checkIoError.2 } :=
    { size := h.size, rest := h.rest, pos_le := h.pos_le, fault := h.fault, online := h.online }
  refine Wp.giveUpAt (fun hio => ⟨hinv, ?_⟩) (fun hio => ⟨h1, hinv, ?_, ?_⟩)
  · show f = true
    rw [← h.fault]; exact h.finv.2 hio
  · have := h.pos_le
    exact lineAt_inRange b _ _ p h.online.lineAt h1 (by omega)
      (fun i hi1 hi2 => h.online.nolf i hi1 (by omega))
  · intro hf
    show lr.v.sawEnd = false
    cases hs : lr.v.sawEnd
    · rfl
    · have := h.finv.1 (by rw [h.fault]; exact hf) hs
      rw [hio] at this; exact absurd this (by simp)

/-- `give_up()`: an error at the cursor. -/
theorem Wp.err {lr : LR} {Q : α → LR → Prop} (h : Inv b f lr) :
    Wp (Err b f) (PM.giveUp : PM α) lr Q := by
  unfold PM.giveUp
  refine Wp.bind (Wp.position ?_)
  exact Wp.errAt h h.online.le (Nat.le_refl _)

end PM
end Flussab
