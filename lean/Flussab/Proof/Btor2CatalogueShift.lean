/-
What the BTOR2 parser returns does not depend on where in the stream it is: from two shifted
states (`Cat.Sh`: same unconsumed input, same look-ahead, same I/O bookkeeping — position, mark and
line bookkeeping arbitrary) every function of `Model/Btor2Token.lean` / `Model/Btor2.lean` that
returns in the first run returns the same value in the second, in shifted states, unless the second
run panics (an overflow check of `line_at_offset`).  One lemma per function (`ShC G f`).
-/
import Flussab.Proof.Btor2Catalogue

namespace Flussab
namespace Btor2
namespace Cat
open PM
open Gen.Btor2 (NodeToken NodeValueToken SortToken)

variable {α : Type} {G : PErr → Prop}

/-! ### scanners -/

theorem shScan_scanWhile (p : UInt8 → Bool) (off : Nat) : ShScan (scanWhile p · off) := by
  intro a b h
  simp only [scanWhile, h.rest]
  exact ⟨trivial, h.demand _⟩

theorem shScan_asciiDigits (t : IntTy) (off : Nat) : ShScan (Text.asciiDigits t · off) := by
  intro a b h
  simp only [Text.asciiDigits, Text.digitsCont, h.rest]
  generalize Text.digitsLoop t false (b.rest.drop off) _ _ _ = r
  obtain ⟨val, ov, n⟩ := r
  exact ⟨trivial, h.demand _⟩

theorem shScan_decimalString (off : Nat) : ShScan (decimalString · off) := by
  intro a b h
  simp only [decimalString, h.rest]
  split
  · exact shScan_scanWhile isDigit (off + 1) _ _ (h.demand off)
  · exact shScan_scanWhile isDigit off _ _ (h.demand off)

/-! ### tokens -/

theorem space_sh : ShC G space := by
  unfold space
  refine ShC.bind ShC.reqByte (fun a => ?_)
  split
  · exact ShC.bind (ShC.advance 1) (fun _ => ShC.pure _)
  · exact ShC.pure _

theorem commentStart_sh : ShC G commentStart := by
  unfold commentStart
  refine ShC.bind ShC.reqByte (fun a => ?_)
  split
  · exact ShC.bind (ShC.advance 1) (fun _ => ShC.pure _)
  · exact ShC.pure _

theorem newline_sh : ShC G newline := by
  unfold newline
  refine ShC.bind ShC.reqByte (fun a => ?_)
  split
  · exact ShC.bind (ShC.advance 1) (fun _ => ShC.bind (ShC.lineAtOffset 0) (fun _ => ShC.pure _))
  · exact ShC.pure _

theorem requiredSpace_sh : ShC G requiredSpace := ShC.orGiveUp space_sh

theorem skipWsLoop_sh : ∀ (f off : Nat), ShC G (skipWsLoop f off)
  | 0, _ => by
    unfold skipWsLoop
    exact ShWp.throw
  | f + 1, off => by
    unfold skipWsLoop
    refine ShC.bind (ShC.reqAt off) (fun a => ?_)
    split
    · exact skipWsLoop_sh f (off + 1)
    · exact ShC.bind (ShC.lineAtOffset _) (fun _ => skipWsLoop_sh f (off + 1))
    · exact ShC.pure _

theorem skipWhitespace_sh : ShC G skipWhitespace := by
  unfold skipWhitespace
  refine ShWp.getBind (fun u1 u2 hs => ?_)
  rw [hs.rest]
  exact ShC.bind (skipWsLoop_sh _ 0) (fun off => ShC.advance off)

theorem uint_sh : ShC G uint := by
  unfold uint
  refine ShC.bind (ShC.scan (shScan_asciiDigits u64Ty 0)) (fun r => ?_)
  obtain ⟨value, off⟩ := r
  dsimp only
  split
  · refine ShC.bind (ShC.bufPrefix 1) (fun first => ?_)
    split
    · exact ShC.bind (ShC.advance _) (fun _ => ShC.pure _)
    · exact ShC.bind (ShC.bufPrefix _) (fun bs => ShC.bind (ShC.utf8Unwrap bs) (fun _ => ShC.pure _))
  · exact ShC.pure _

theorem exceedsCount_never (t : LR) (a : α) (s : LR) : (exceedsCount : PM α).run t ≠ (.ok a, s) := by
  unfold exceedsCount
  intro h
  rw [run_bind] at h
  exact giveUpAt_never t a s h

theorem positiveInt_sh : ShC G positiveInt := by
  unfold positiveInt
  refine ShC.bind ShC.reqByte (fun a => ?_)
  split
  · exact ShC.pure _
  · refine ShC.bind ShC.setMark (fun _ => ?_)
    refine ShC.bind uint_sh (fun r => ?_)
    split
    · exact ShC.pure _
    · exact ShWp.left exceedsCount_never
    · split
      · exact ShWp.throw
      · exact ShC.pure _

theorem nonnegativeInt_sh : ShC G nonnegativeInt := by
  unfold nonnegativeInt
  refine ShC.bind ShC.setMark (fun _ => ?_)
  refine ShC.bind uint_sh (fun r => ?_)
  split
  · exact ShC.pure _
  · exact ShWp.left exceedsCount_never
  · exact ShC.pure _

theorem requiredId_sh : ShC G requiredNodeId := ShC.orGiveUp positiveInt_sh
theorem requiredNonneg_sh : ShC G requiredNonnegativeInt := ShC.orGiveUp nonnegativeInt_sh

theorem ShWp.set {u1 u2 : LR} (h : Sh u1 u2) :
    ShWp G (set u1 : PM PUnit) (set u2 : PM PUnit) (fun _ _ => True) :=
  fun _ _ _ => RWp.set ⟨trivial, h⟩

theorem checkIoError_sh : ShC G checkIoError := by
  unfold checkIoError
  refine ShWp.getBind (fun u1 u2 hs => ?_)
  simp only [View.checkIoError]
  refine ShWp.bind (ShWp.set (u1 := { u1 with v := { u1.v with ioErr := false } })
    (u2 := { u2 with v := { u2.v with ioErr := false } })
    ⟨hs.rest, hs.fault, hs.sawEnd, rfl, hs.la⟩) (fun _ _ _ => ?_)
  have hio := hs.ioErr
  by_cases h1 : u1.v.ioErr = true
  · have h2 : u2.v.ioErr = true := hio ▸ h1
    simp only [h1, h2, ↓reduceIte]
    exact ShWp.throw
  · have h2 : ¬ u2.v.ioErr = true := hio ▸ h1
    simp only [h1, h2, ↓reduceIte]
    exact ShC.pure _

theorem commentBody_sh : ShC G commentBody := by
  unfold commentBody
  refine ShC.bind (ShC.scan (shScan_scanWhile _ 0)) (fun off => ?_)
  refine ShC.bind (ShC.reqAt off) (fun a => ?_)
  split
  · refine ShWp.getBind (fun u1 u2 hs => ?_)
    simp only [View.checkIoError]
    refine ShWp.bind (ShWp.set (u1 := { u1 with v := { u1.v with ioErr := false } })
      (u2 := { u2 with v := { u2.v with ioErr := false } })
      ⟨hs.rest, hs.fault, hs.sawEnd, rfl, hs.la⟩) (fun _ _ _ => ?_)
    have hio := hs.ioErr
    by_cases h1 : u1.v.ioErr = true
    · have h2 : u2.v.ioErr = true := hio ▸ h1
      simp only [h1, h2, ↓reduceIte]
      exact ShWp.bind (ρ := fun _ _ => True) ShWp.throw (fun _ _ _ => ShC.advanceWithBuf off)
    · have h2 : ¬ u2.v.ioErr = true := hio ▸ h1
      simp only [h1, h2, ↓reduceIte]
      exact ShC.advanceWithBuf off
  · exact ShC.advanceWithBuf off

theorem symbolName_sh : ShC G symbolName := by
  unfold symbolName
  refine ShC.bind (ShC.scan (shScan_scanWhile _ 0)) (fun off => ?_)
  split
  · exact ShC.pure _
  · exact ShC.bind (ShC.advanceWithBuf off) (fun _ => ShC.pure _)

theorem eof_sh : ShC G eof := by
  unfold eof
  refine ShC.bind ShC.reqByte (fun a => ?_)
  split
  · refine ShWp.getBind (fun u1 u2 hs => ?_)
    rw [hs.ioErr]
    split
    · exact ShC.pure _
    · exact ShC.pure _
  · exact ShC.pure _

theorem requiredConstant_sh (scanner : View → Nat → Nat × View) (hs : ShScan (scanner · 0)) :
    ShC G (requiredConstant scanner) := by
  unfold requiredConstant
  refine ShC.bind (ShC.scan hs) (fun m => ?_)
  split
  · exact ShWp.unexpected
  · exact ShC.advanceWithBuf m

theorem keywordToken_sh {τ : Type} (table : VBytes → Option τ) : ShC G (keywordToken table) := by
  unfold keywordToken lowercaseRun
  refine ShC.bind (ShC.scan (shScan_scanWhile _ 0)) (fun off => ?_)
  refine ShC.bind (ShC.bufPrefix off) (fun matched => ?_)
  split
  · exact ShC.pure _
  · exact ShC.bind (ShC.advance _) (fun _ => ShC.pure _)

/-! ### the line parser -/

theorem justiceLoop_sh : ∀ (f remaining : Nat) (acc : List Nat), ShC G (justiceLoop f remaining acc)
  | 0, _, _ => by
    unfold justiceLoop
    exact ShWp.throw
  | f + 1, remaining, acc => by
    unfold justiceLoop
    split
    · exact ShC.pure _
    · exact ShC.bind requiredSpace_sh (fun _ => ShC.bind requiredId_sh (fun c =>
        justiceLoop_sh f (remaining - 1) (c :: acc)))

local macro "sh_space" : tactic => `(tactic| refine ShC.bind requiredSpace_sh (fun _ => ?_))
local macro "sh_id" : tactic => `(tactic| refine ShC.bind requiredId_sh (fun _ => ?_))
local macro "sh_nonneg" : tactic => `(tactic| refine ShC.bind requiredNonneg_sh (fun _ => ?_))

theorem valueVariant_sh (tok : NodeValueToken) : ShC G (valueVariant tok) := by
  unfold valueVariant
  cases tok with
  | const =>
    sh_space
    exact ShC.bind (requiredConstant_sh _ (shScan_scanWhile _ 0)) (fun _ => ShC.pure _)
  | constd =>
    sh_space
    exact ShC.bind (requiredConstant_sh _ (shScan_decimalString 0)) (fun _ => ShC.pure _)
  | consth =>
    sh_space
    exact ShC.bind (requiredConstant_sh _ (shScan_scanWhile _ 0)) (fun _ => ShC.pure _)
  | ones => exact ShC.pure _
  | one => exact ShC.pure _
  | zero => exact ShC.pure _
  | input => exact ShC.pure _
  | state => exact ShC.pure _
  | extOp e =>
    sh_space; sh_id; sh_space; sh_nonneg
    exact ShC.pure _
  | slice =>
    sh_space; sh_id; sh_space; sh_nonneg; sh_space; sh_nonneg
    exact ShC.pure _
  | unaryOp t =>
    sh_space; sh_id
    exact ShC.pure _
  | binaryOp b =>
    sh_space; sh_id; sh_space; sh_id
    exact ShC.pure _
  | ternaryOp t =>
    sh_space; sh_id; sh_space; sh_id; sh_space; sh_id
    exact ShC.pure _

theorem nodeVariant_sh (tok : NodeToken) : ShC G (nodeVariant tok) := by
  unfold nodeVariant
  cases tok with
  | sort =>
    sh_space
    refine ShC.bind (ShC.orGiveUp (keywordToken_sh _)) (fun st => ?_)
    cases st with
    | bitvec =>
      sh_space; sh_id
      exact ShC.pure _
    | array =>
      sh_space; sh_id; sh_space; sh_id
      exact ShC.pure _
  | assignment kind =>
    sh_space; sh_id; sh_space; sh_id; sh_space; sh_id
    exact ShC.pure _
  | output kind =>
    sh_space; sh_id
    exact ShC.pure _
  | justice =>
    sh_space; sh_id
    refine ShWp.getBind (fun u1 u2 hs => ?_)
    rw [hs.rest]
    exact ShC.bind (justiceLoop_sh _ _ _) (fun _ => ShC.pure _)
  | value vt =>
    sh_space; sh_id
    exact ShC.bind (valueVariant_sh vt) (fun _ => ShC.pure _)

theorem trailer_sh : ShC G trailer := by
  unfold trailer
  refine ShC.bind space_sh (fun r => ?_)
  split
  · refine ShC.bind commentStart_sh (fun r => ?_)
    split
    · exact ShC.pure _
    · refine ShC.bind symbolName_sh (fun r => ?_)
      split
      · refine ShC.bind space_sh (fun r => ?_)
        split
        · refine ShC.bind commentStart_sh (fun r => ?_)
          split
          · exact ShC.pure _
          · exact ShWp.unexpected
        · refine ShC.bind newline_sh (fun r => ?_)
          split
          · exact ShC.pure _
          · exact ShWp.unexpected
      · exact ShWp.unexpected
  · refine ShC.bind newline_sh (fun r => ?_)
    split
    · exact ShC.pure _
    · exact ShWp.unexpected

theorem tryNode_sh : ShC G tryNode := by
  unfold tryNode
  refine ShC.bind positiveInt_sh (fun r => ?_)
  split
  · exact ShC.pure _
  · sh_space
    refine ShC.bind (ShC.orGiveUp (keywordToken_sh _)) (fun tok => ?_)
    refine ShC.bind (nodeVariant_sh tok) (fun variant => ?_)
    refine ShC.bind trailer_sh (fun r => ?_)
    exact ShC.pure _

/-- The part of `next_line` behind `try_node`. -/
theorem nextLine_sh : ShC G nextLine := by
  unfold nextLine
  refine ShC.bind skipWhitespace_sh (fun _ => ?_)
  refine ShC.bind tryNode_sh (fun r => ?_)
  split
  · split
    · exact ShC.bind commentBody_sh (fun _ => ShC.pure _)
    · exact ShC.pure _
  · refine ShC.bind commentStart_sh (fun r => ?_)
    split
    · exact ShC.bind commentBody_sh (fun _ => ShC.pure _)
    · refine ShC.bind eof_sh (fun r => ?_)
      split
      · exact ShC.bind checkIoError_sh (fun _ => ShC.pure _)
      · exact ShWp.unexpected

/-- Whole documents from shifted states: if the first run ends cleanly, the second one ends
cleanly, or in a panic or an error in `G`. -/
theorem driveLines_sh : ∀ (f1 f2 : Nat) (acc1 acc2 : List Line) (t1 t2 : LR), Sh t1 t2 →
    (driveLines f1 acc1 t1).2.1 = none → ∀ e, (driveLines f2 acc2 t2).2.1 = some e → Good G e
  | 0, _, _, _, _, _, _, h1, _, _ => by
    simp [driveLines] at h1
  | f1 + 1, 0, _, _, _, _, _, _, e, h2 => by
    simp only [driveLines, Option.some.injEq] at h2
    subst h2
    exact Good.panic _
  | f1 + 1, f2 + 1, acc1, acc2, t1, t2, hs, h1, e, h2 => by
    have hn := nextLine_sh (G := G) t1 t2 hs
    unfold driveLines at h1 h2
    rcases hr1 : nextLine.run t1 with ⟨e1 | a1, s1⟩
    · rw [hr1] at h1
      simp at h1
    · obtain ⟨hok, herr⟩ := hn a1 s1 hr1
      rcases hr2 : nextLine.run t2 with ⟨e2 | a2, s2⟩
      · rw [hr2] at h2
        simp only [Option.some.injEq] at h2
        subst h2
        exact herr _ _ hr2
      · obtain ⟨ha, hs'⟩ := hok a2 s2 hr2
        subst ha
        rw [hr1] at h1
        rw [hr2] at h2
        cases a1 with
        | none => simp at h2
        | some l =>
          simp only at h1 h2
          exact driveLines_sh f1 f2 _ _ s1 s2 hs' h1 e h2

end Cat
end Btor2
end Flussab
