/-
Proofs of the tie between the generated section readers of the binary AIGER parser
(`Gen/AigerBinSectionsGen.lean`, from `flussab-aiger/src/binary.rs`: `Parser::latches`, `impl ParseLatches` …
`impl ParseAndGates`) and the section functions of `Model/Aiger.lean`.  Statements:
`Props/TieAigerBinSections.lean`.

Everything that is shared with the ASCII parser is reused from `Proof/TieAigerSections.lean`: `run_tok` /
`run_getS` / … (one run of a generated function as a `PM` term), `nextLit_eq` (the five literal sections),
`nextJusticePropertySize_eq` (the generated definition is the same term as the ASCII one), `Counted` /
`loop_eq` / `drain_eq` for the draining loops.  New here: `next_latch` and `next_and_gate` of binary.rs (the
running next-literal counter `p.code`, `wrapping_add(2)`, `delta_code`) with their `Counted` instances, and
`Parser::latches`.
-/
import Flussab.Gen.AigerBinSectionsGen
import Flussab.Proof.TieAigerSections

set_option linter.unusedVariables false
set_option linter.unusedSimpArgs false

namespace Flussab
namespace TieAigerBinSectionsAux
open PM AigerSectionsExt TieAigerHeaderAux TieAigerSectionsAux

variable {α β : Type}

/-! ### the `next_*` functions -/

theorem nextOutput_eq (s : Aiger.St) : Gen.AigerBinSections.nextOutput.run s = Aiger.nextOutput s :=
  nextLit_eq _ false (by unfold Gen.AigerBinSections.nextOutput; rfl) s
theorem nextBadStateProperty_eq (s : Aiger.St) :
    Gen.AigerBinSections.nextBadStateProperty.run s = Aiger.nextBad s :=
  nextLit_eq _ false (by unfold Gen.AigerBinSections.nextBadStateProperty; rfl) s
theorem nextInvariantConstraint_eq (s : Aiger.St) :
    Gen.AigerBinSections.nextInvariantConstraint.run s = Aiger.nextConstraint s :=
  nextLit_eq _ false (by unfold Gen.AigerBinSections.nextInvariantConstraint; rfl) s
theorem nextJusticeLit_eq (s : Aiger.St) :
    Gen.AigerBinSections.nextJusticePropertyLocalFairnessConstraint.run s = Aiger.nextJusticeLit s :=
  nextLit_eq _ false (by unfold Gen.AigerBinSections.nextJusticePropertyLocalFairnessConstraint; rfl) s
theorem nextFairnessConstraint_eq (s : Aiger.St) :
    Gen.AigerBinSections.nextFairnessConstraint.run s = Aiger.nextFairness s :=
  nextLit_eq _ false (by unfold Gen.AigerBinSections.nextFairnessConstraint; rfl) s

/-- `next_justice_property_size` of binary.rs generates the same term as the one of ascii.rs. -/
theorem nextJusticePropertySize_same :
    Gen.AigerBinSections.nextJusticePropertySize = Gen.AigerSections.nextJusticePropertySize := by
  unfold Gen.AigerBinSections.nextJusticePropertySize Gen.AigerSections.nextJusticePropertySize
  rfl

theorem nextJusticePropertySize_eq (s : Aiger.St) (ht : s.total ≤ PM.usizeMax) :
    Gen.AigerBinSections.nextJusticePropertySize.run s = Aiger.nextJusticeSize s := by
  rw [nextJusticePropertySize_same]
  exact TieAigerSectionsAux.nextJusticePropertySize_eq s ht

/-- `Parser::latches`: there is no section state before it, the counters of the record are overwritten. -/
theorem latches_eq (s : Aiger.St) (hb : s.p.bin = true) :
    Prod.fst <$> Gen.AigerBinSections.latches.run s = Aiger.toLatches { p := s.p } := by
  unfold Gen.AigerBinSections.latches
  simp [Aiger.toLatches, hb]

theorem nextLatch_eq (s : Aiger.St) : Gen.AigerBinSections.nextLatch.run s = Aiger.nextLatchBin s := by
  unfold Gen.AigerBinSections.nextLatch Gen.AigerBinSections.nextLatch.k1
  rcases s with ⟨p, left, total⟩
  cases left with
  | zero => simp [Aiger.nextLatchBin]
  | succ n =>
    simp [Aiger.nextLatchBin, usub_succ, Aiger.latchReset, Aiger.latchInit]
    apply pm_bind_congr; intro nx
    apply pm_bind_congr; intro sp
    cases sp with
    | false => simp
    | true =>
      simp
      apply pm_bind_congr; intro ic
      by_cases h1 : ic < 2
      · simp [h1]
      · by_cases h2 : ic = p.code
        · subst h2; simp [h1]
        · simp [h1, h2, errorAtMark_bind]

theorem nextAndGate_eq (s : Aiger.St) : Gen.AigerBinSections.nextAndGate.run s = Aiger.nextAndGateBin s := by
  unfold Gen.AigerBinSections.nextAndGate
  rcases s with ⟨p, left, total⟩
  cases left with
  | zero => simp [Aiger.nextAndGateBin]
  | succ n => simp [Aiger.nextAndGateBin, usub_succ]

/-! ### the draining loops and the transitions -/

theorem counted_nextLatchBin : Counted (fun _ => True) Aiger.nextLatchBin := by
  constructor
  · intro s h
    rcases s with ⟨p, left, total⟩
    simp only at h; subst h
    rfl
  · intro s n _ h
    rcases s with ⟨p, left, total⟩
    simp only at h; subst h
    refine ⟨Aiger.OLatch, (do
        let nx ← Aiger.lit p.maxLit false
        let init ← Aiger.latchReset p p.code
        pure ({ next := p.lit.fromCode nx, init := init } : Aiger.OLatch)),
      fun c => (c, { p := { p with code := (p.code + 2) % 2 ^ 64 }, left := n, total := total }), ?_,
      fun _ => ⟨rfl, trivial⟩⟩
    simp [Aiger.nextLatchBin]

theorem counted_nextAndGateBin : Counted (fun _ => True) Aiger.nextAndGateBin := by
  constructor
  · intro s h
    rcases s with ⟨p, left, total⟩
    simp only at h; subst h
    rfl
  · intro s n _ h
    rcases s with ⟨p, left, total⟩
    simp only at h; subst h
    refine ⟨Aiger.OGate, (do
        let c0 ← Aiger.deltaCode p.code
        let c1 ← Aiger.deltaCode c0
        pure ({ in0 := p.lit.fromCode c0, in1 := p.lit.fromCode c1 } : Aiger.OGate)),
      fun c => (c, { p := { p with code := (p.code + 2) % 2 ^ 64 }, left := n, total := total }), ?_,
      fun _ => ⟨rfl, trivial⟩⟩
    simp [Aiger.nextAndGateBin]

theorem outputs_eq (s : Aiger.St) (hb : s.p.bin = true) :
    Prod.fst <$> Gen.AigerBinSections.outputs.run s = Aiger.toOutputs s := by
  rw [drain_eq (fun _ => True) _ _ (fun s h => nextLatch_eq s) counted_nextLatchBin Gen.AigerBinSections.outputs.loop1 (fun f => rfl) _ (do
      let t3 ← getS
      pure ({ t3 with left := ((← getS).p.header).outputCount } : Aiger.St)) Gen.AigerBinSections.outputs
    rfl rfl s trivial]
  simp [Aiger.toOutputs, hb]

theorem badStateProperties_eq (s : Aiger.St) :
    Prod.fst <$> Gen.AigerBinSections.badStateProperties.run s = Aiger.toBad s := by
  rw [drain_eq (fun _ => True) _ _ (fun s h => nextOutput_eq s) (counted_nextLit false) Gen.AigerBinSections.badStateProperties.loop1 (fun f => rfl) _ (do
      let t3 ← getS
      pure ({ t3 with left := ((← getS).p.header).badCount } : Aiger.St)) Gen.AigerBinSections.badStateProperties
    rfl rfl s trivial]
  simp [Aiger.toBad]

theorem invariantConstraints_eq (s : Aiger.St) :
    Prod.fst <$> Gen.AigerBinSections.invariantConstraints.run s = Aiger.toConstraints s := by
  rw [drain_eq (fun _ => True) _ _ (fun s h => nextBadStateProperty_eq s) (counted_nextLit false) Gen.AigerBinSections.invariantConstraints.loop1 (fun f => rfl) _ (do
      let t3 ← getS
      pure ({ t3 with left := ((← getS).p.header).constraintCount } : Aiger.St)) Gen.AigerBinSections.invariantConstraints
    rfl rfl s trivial]
  simp [Aiger.toConstraints]

theorem justiceProperties_eq (s : Aiger.St) :
    Prod.fst <$> Gen.AigerBinSections.justiceProperties.run s = Aiger.toJusticeSizes s := by
  rw [drain_eq (fun _ => True) _ _ (fun s h => nextInvariantConstraint_eq s) (counted_nextLit false) Gen.AigerBinSections.justiceProperties.loop1 (fun f => rfl) _ (do
      let t3 ← getS
      pure ({ t3 with left := ((← getS).p.header).justiceCount, total := 0 } : Aiger.St)) Gen.AigerBinSections.justiceProperties
    rfl rfl s trivial]
  simp [Aiger.toJusticeSizes]

theorem justiceLits_eq (s : Aiger.St) (ht : s.total ≤ PM.usizeMax) :
    Prod.fst <$> Gen.AigerBinSections.justicePropertyLocalFairnessConstraints.run s = Aiger.toJusticeLits s := by
  rw [drain_eq (fun s => s.total ≤ PM.usizeMax) _ _ (fun s h => nextJusticePropertySize_eq s h) counted_nextJusticeSize Gen.AigerBinSections.justicePropertyLocalFairnessConstraints.loop1 (fun f => rfl) _ (do
      let t3 ← getS
      pure ({ t3 with left := (← getS).total } : Aiger.St)) Gen.AigerBinSections.justicePropertyLocalFairnessConstraints
    rfl rfl s ht]
  simp [Aiger.toJusticeLits]

theorem fairnessConstraints_eq (s : Aiger.St) :
    Prod.fst <$> Gen.AigerBinSections.fairnessConstraints.run s = Aiger.toFairness s := by
  rw [drain_eq (fun _ => True) _ _ (fun s h => nextJusticeLit_eq s) (counted_nextLit false) Gen.AigerBinSections.fairnessConstraints.loop1 (fun f => rfl) _ (do
      let t3 ← getS
      pure ({ t3 with left := ((← getS).p.header).fairnessCount } : Aiger.St)) Gen.AigerBinSections.fairnessConstraints
    rfl rfl s trivial]
  simp [Aiger.toFairness]

theorem andGates_eq (s : Aiger.St) :
    Prod.fst <$> Gen.AigerBinSections.andGates.run s = Aiger.toAndGates s := by
  rw [drain_eq (fun _ => True) _ _ (fun s h => nextFairnessConstraint_eq s) (counted_nextLit false) Gen.AigerBinSections.andGates.loop1 (fun f => rfl) _ (do
      let t3 ← getS
      pure ({ t3 with left := ((← getS).p.header).andGateCount } : Aiger.St)) Gen.AigerBinSections.andGates
    rfl rfl s trivial]
  simp [Aiger.toAndGates]

theorem symbols_eq (s : Aiger.St) (hb : s.p.bin = true) :
    Prod.fst <$> Gen.AigerBinSections.symbols.run s = Aiger.toSymbols s := by
  rw [drain_eq (fun _ => True) _ _ (fun s h => nextAndGate_eq s) counted_nextAndGateBin Gen.AigerBinSections.symbols.loop1
    (fun f => rfl) _ (do
      let t3 ← getS
      pure t3.p) Gen.AigerBinSections.symbols
    rfl rfl s trivial]
  simp [Aiger.toSymbols, hb]

end TieAigerBinSectionsAux
end Flussab
