/-
Proofs of the tie between the generated whole-file drivers of the two AIGER parsers — `Gen/AigerParseGen.lean`
(`Parser::parse` of `flussab-aiger/src/ascii.rs`) and `Gen/AigerBinParseGen.lean` (`Parser::parse` of
`flussab-aiger/src/binary.rs`) — and `Model/Aiger.lean` (`parseAscii`, `parseBinary`, `parseMid`, `parseTail`,
`whileSome`, `justiceSeek`, `justiceLitsLoop`).  Statements: `Props/TieAigerParse.lean`.

Method (that of `Proof/TieSatLog.lean`).  Every generated loop returns a `Ctl`; the caller turns `Ctl.fuel` into
the model's out-of-fuel value (`fuel_panic` of the unit) and every loop has the model's fuel expression, so each
loop lemma is stated fuel for fuel and for every continuation `K` with `K Ctl.fuel = rpanic "fuel"`:
    `loopN n (aig, r) >>= K  =  whileSome next n r [] >>= fun p => K (Ctl.brk ({ aig with f := aig.f ++ p.1 }, p.2))`.
* `loop_generic`: one lemma for the shape `while let Some(x) = r.next_x()? { a.push(x) }` (any state, item and
  accumulator type), from the two defining equations of the generated loop; `whileSome` conses and reverses at
  the end, the code pushes: `ws` / `whileSome_ws` relate the two.
* `loopK_bind` (K = seek loop): the inner `while` with its two checked index expressions is `justiceSeek`; a
  failed bounds check and running out of fuel are both the model's `none`
  (`rpanic "justice property index out of bounds"`, the site name of the contract `AigerParseExt.index`).
* `loopJ_bind` (J = local fairness constraints): `justiceLitsLoop`; the checked push after a successful seek
  cannot fail (`justiceSeek_get`); the cursor `justice_property` is dead after the loop.
* `parse_eq_aux`: the chain of the loop lemmas and `pm_bind_congr` over the unfolded function.  The unfolded
  function is never simplified as a whole (`simp` would inline the join points the `do` notation creates after
  every loop, 2^11 copies of the tail): each stage is peeled off with `Eq.trans` against the loop lemma, whose
  statement for an explicit constructor application (`loopN_bind'`) keeps the record term linear in size.
* `parse_eq`: the model takes `max_var_index` (binary: and `input_count`) from the parser record the last
  transition returns, the code from `self`; the existing postconditions `parseAscii_post` / `parseBinary_post`
  (`Proof/AigerParse.lean`: `AigOk.maxVarIndex`, `OrderedOk.inputCount`) say these are the same values.
The per-format sections below are instances of the same text (`Ascii`: loops 1–11, `Bin`: loops 1–10, no input
section).  The whole file checks in a few seconds.
-/
import Flussab.Gen.AigerParseGen
import Flussab.Gen.AigerBinParseGen
import Flussab.Proof.AigerParse
import Flussab.Proof.TieAigerHeader

set_option linter.unusedSimpArgs false

namespace Flussab
namespace TieAigerParseAux
open PM Aiger

variable {β : Type}

theorem rpanic_bind {α β : Type} (s : String) (f : α → PM β) : ((rpanic s : PM α) >>= f) = rpanic s := by
  funext lr; rfl

theorem pm_bind_congr {α β : Type} {x : PM α} {f g : α → PM β} (h : ∀ a, f a = g a) :
    (x >>= f) = (x >>= g) := by
  have : f = g := funext h
  rw [this]

/-! ### `whileSome` with the items in reading order -/

/-- `whileSome` without the accumulator: the items read, in order. -/
def ws {σ α : Type} (next : σ → PM (Option α × σ)) : Nat → σ → PM (List α × σ)
  | 0, _ => rpanic "fuel"
  | f + 1, s => next s >>= fun t =>
    match t.1 with
    | some a => ws next f t.2 >>= fun p => pure (a :: p.1, p.2)
    | none => pure ([], t.2)

theorem whileSome_ws {σ α : Type} (next : σ → PM (Option α × σ)) (n : Nat) :
    ∀ (s : σ) (acc : List α),
      whileSome next n s acc = ws next n s >>= fun p => pure (acc.reverse ++ p.1, p.2) := by
  induction n with
  | zero => intro s acc; rw [whileSome, ws, rpanic_bind]
  | succ n ih =>
    intro s acc
    rw [whileSome, ws, bind_assoc]
    apply pm_bind_congr; intro t
    rcases t with ⟨_ | a, s'⟩
    · simp
    · simp only [ih, bind_assoc, pure_bind, List.reverse_cons, List.append_assoc, List.singleton_append]

/-- The shape of every generated `while let Some(x) = r.next_x()? { a.push(x) }` loop: `L` is the generated
loop, `pack a r` its tuple of loop-carried variables (`a`: what is pushed onto, `r`: the typestate value). -/
theorem loop_generic {σ α A T R : Type} (next : σ → PM (Option α × σ)) (push : A → α → A) (pack : A → σ → T)
    (L : Nat → T → PM (Ctl T R))
    (hz : ∀ a r, L 0 (pack a r) = pure Ctl.fuel)
    (hs : ∀ f a r, L (f + 1) (pack a r) = next r >>= fun t =>
      match t.1 with
      | some x => L f (pack (push a x) t.2)
      | none => pure (Ctl.brk (pack a t.2)))
    (n : Nat) : ∀ (a : A) (r : σ) (K : Ctl T R → PM β), K Ctl.fuel = rpanic "fuel" →
      (L n (pack a r) >>= K) =
        (whileSome next n r [] >>= fun p => K (Ctl.brk (pack (p.1.foldl push a) p.2))) := by
  have key : ∀ (n : Nat) (a : A) (r : σ) (K : Ctl T R → PM β), K Ctl.fuel = rpanic "fuel" →
      (L n (pack a r) >>= K) = (ws next n r >>= fun p => K (Ctl.brk (pack (p.1.foldl push a) p.2))) := by
    intro n
    induction n with
    | zero => intro a r K hK; rw [hz, pure_bind, hK, ws, rpanic_bind]
    | succ n ih =>
      intro a r K hK
      rw [hs, ws, bind_assoc, bind_assoc]
      apply pm_bind_congr; intro t
      rcases t with ⟨_ | x, s'⟩
      · simp
      · simp only [ih _ _ K hK, bind_assoc, pure_bind, List.foldl_cons]
  intro a r K hK
  rw [key n a r K hK, whileSome_ws, bind_assoc]
  simp


theorem justiceSeek_get (js : List (List Nat)) (sizes : List Nat) :
    ∀ (n jp jp' : Nat), justiceSeek js sizes n jp = some jp' → ∃ j, js[jp']? = some j := by
  intro n
  induction n with
  | zero => intro jp jp' h; simp [justiceSeek] at h
  | succ n ih =>
    intro jp jp' h
    unfold justiceSeek at h
    cases hj : js[jp]? with
    | none => simp [hj] at h
    | some j =>
      cases hs : sizes[jp]? with
      | none => simp [hj, hs] at h
      | some sz =>
        simp only [hj, hs] at h
        by_cases he : (j.length == sz) = true
        · rw [if_pos he] at h; exact ih _ _ h
        · rw [if_neg he] at h; cases h; exact ⟨j, hj⟩

/-- A postcondition (`Aiger.Post`) used under a bind. -/
theorem bind_congr_Post {α β : Type} {x : PM α} {P : α → Prop} (hP : Aiger.Post x P) {f g : α → PM β}
    (hfg : ∀ a, P a → f a = g a) : (x >>= f) = (x >>= g) :=
  TieAigerHeaderAux.bind_congr_post x P (fun lr a s h => hP lr a s h) f g hfg

/-! ## `ascii::Parser::parse` -/

namespace Ascii
open Gen.AigerParse

theorem foldl_inputs (l : List Nat) : ∀ a : Aig,
    l.foldl (fun a x => ({ a with inputs := a.inputs ++ [x] } : Aig)) a = { a with inputs := a.inputs ++ l } := by
  induction l with
  | nil => intro a; simp
  | cons x l ih => intro a; simp [ih]

/-- loop 1: `while let Some(x) = r.nextInput()? { aig.inputs.push(x) }` = `whileSome`, fuel for fuel. -/
theorem loop1_bind {β : Type} (n : Nat) (a : Aig) (r : St) (K : Ctl (Aig × St) Aig → PM β) (hK : K Ctl.fuel = rpanic "fuel") :
    (parse.loop1 n (a, r) >>= K) =
      (whileSome nextInput n r [] >>= fun p => K (Ctl.brk ({ a with inputs := a.inputs ++ p.1 }, p.2))) := by
  have := loop_generic nextInput (fun a x => ({ a with inputs := a.inputs ++ [x] } : Aig)) Prod.mk parse.loop1
    (fun a r => by rw [parse.loop1])
    (fun f a r => by rw [parse.loop1]; apply pm_bind_congr; intro t; rcases t with ⟨_ | x, s'⟩ <;> rfl) n a r K hK
  simpa only [foldl_inputs] using this

theorem loop1_bind' {β : Type} (n : Nat) (mv : Nat) (i : List Nat) (la : List Latch) (o : List Nat) (b : List Nat) (c : List Nat) (j : List (List Nat)) (f : List Nat) (g : List AndGate) (sy : List Symbol) (co : Option VBytes) (r : St)
    (K : Ctl (Aig × St) Aig → PM β) (hK : K Ctl.fuel = rpanic "fuel") :
    (parse.loop1 n ((⟨mv, i, la, o, b, c, j, f, g, sy, co⟩ : Aig), r) >>= K) =
      (whileSome nextInput n r [] >>= fun p => K (Ctl.brk ((⟨mv, i ++ p.1, la, o, b, c, j, f, g, sy, co⟩ : Aig), p.2))) :=
  loop1_bind n _ r K hK

theorem foldl_latches (l : List Latch) : ∀ a : Aig,
    l.foldl (fun a x => ({ a with latches := a.latches ++ [x] } : Aig)) a = { a with latches := a.latches ++ l } := by
  induction l with
  | nil => intro a; simp
  | cons x l ih => intro a; simp [ih]

/-- loop 2: `while let Some(x) = r.nextLatchAscii()? { aig.latches.push(x) }` = `whileSome`, fuel for fuel. -/
theorem loop2_bind {β : Type} (n : Nat) (a : Aig) (r : St) (K : Ctl (Aig × St) Aig → PM β) (hK : K Ctl.fuel = rpanic "fuel") :
    (parse.loop2 n (a, r) >>= K) =
      (whileSome nextLatchAscii n r [] >>= fun p => K (Ctl.brk ({ a with latches := a.latches ++ p.1 }, p.2))) := by
  have := loop_generic nextLatchAscii (fun a x => ({ a with latches := a.latches ++ [x] } : Aig)) Prod.mk parse.loop2
    (fun a r => by rw [parse.loop2])
    (fun f a r => by rw [parse.loop2]; apply pm_bind_congr; intro t; rcases t with ⟨_ | x, s'⟩ <;> rfl) n a r K hK
  simpa only [foldl_latches] using this

theorem loop2_bind' {β : Type} (n : Nat) (mv : Nat) (i : List Nat) (la : List Latch) (o : List Nat) (b : List Nat) (c : List Nat) (j : List (List Nat)) (f : List Nat) (g : List AndGate) (sy : List Symbol) (co : Option VBytes) (r : St)
    (K : Ctl (Aig × St) Aig → PM β) (hK : K Ctl.fuel = rpanic "fuel") :
    (parse.loop2 n ((⟨mv, i, la, o, b, c, j, f, g, sy, co⟩ : Aig), r) >>= K) =
      (whileSome nextLatchAscii n r [] >>= fun p => K (Ctl.brk ((⟨mv, i, la ++ p.1, o, b, c, j, f, g, sy, co⟩ : Aig), p.2))) :=
  loop2_bind n _ r K hK

theorem foldl_outputs (l : List Nat) : ∀ a : Aig,
    l.foldl (fun a x => ({ a with outputs := a.outputs ++ [x] } : Aig)) a = { a with outputs := a.outputs ++ l } := by
  induction l with
  | nil => intro a; simp
  | cons x l ih => intro a; simp [ih]

/-- loop 3: `while let Some(x) = r.nextOutput()? { aig.outputs.push(x) }` = `whileSome`, fuel for fuel. -/
theorem loop3_bind {β : Type} (n : Nat) (a : Aig) (r : St) (K : Ctl (Aig × St) Aig → PM β) (hK : K Ctl.fuel = rpanic "fuel") :
    (parse.loop3 n (a, r) >>= K) =
      (whileSome nextOutput n r [] >>= fun p => K (Ctl.brk ({ a with outputs := a.outputs ++ p.1 }, p.2))) := by
  have := loop_generic nextOutput (fun a x => ({ a with outputs := a.outputs ++ [x] } : Aig)) Prod.mk parse.loop3
    (fun a r => by rw [parse.loop3])
    (fun f a r => by rw [parse.loop3]; apply pm_bind_congr; intro t; rcases t with ⟨_ | x, s'⟩ <;> rfl) n a r K hK
  simpa only [foldl_outputs] using this

theorem loop3_bind' {β : Type} (n : Nat) (mv : Nat) (i : List Nat) (la : List Latch) (o : List Nat) (b : List Nat) (c : List Nat) (j : List (List Nat)) (f : List Nat) (g : List AndGate) (sy : List Symbol) (co : Option VBytes) (r : St)
    (K : Ctl (Aig × St) Aig → PM β) (hK : K Ctl.fuel = rpanic "fuel") :
    (parse.loop3 n ((⟨mv, i, la, o, b, c, j, f, g, sy, co⟩ : Aig), r) >>= K) =
      (whileSome nextOutput n r [] >>= fun p => K (Ctl.brk ((⟨mv, i, la, o ++ p.1, b, c, j, f, g, sy, co⟩ : Aig), p.2))) :=
  loop3_bind n _ r K hK

theorem foldl_bad (l : List Nat) : ∀ a : Aig,
    l.foldl (fun a x => ({ a with bad := a.bad ++ [x] } : Aig)) a = { a with bad := a.bad ++ l } := by
  induction l with
  | nil => intro a; simp
  | cons x l ih => intro a; simp [ih]

/-- loop 4: `while let Some(x) = r.nextBad()? { aig.bad.push(x) }` = `whileSome`, fuel for fuel. -/
theorem loop4_bind {β : Type} (n : Nat) (a : Aig) (r : St) (K : Ctl (Aig × St) Aig → PM β) (hK : K Ctl.fuel = rpanic "fuel") :
    (parse.loop4 n (a, r) >>= K) =
      (whileSome nextBad n r [] >>= fun p => K (Ctl.brk ({ a with bad := a.bad ++ p.1 }, p.2))) := by
  have := loop_generic nextBad (fun a x => ({ a with bad := a.bad ++ [x] } : Aig)) Prod.mk parse.loop4
    (fun a r => by rw [parse.loop4])
    (fun f a r => by rw [parse.loop4]; apply pm_bind_congr; intro t; rcases t with ⟨_ | x, s'⟩ <;> rfl) n a r K hK
  simpa only [foldl_bad] using this

theorem loop4_bind' {β : Type} (n : Nat) (mv : Nat) (i : List Nat) (la : List Latch) (o : List Nat) (b : List Nat) (c : List Nat) (j : List (List Nat)) (f : List Nat) (g : List AndGate) (sy : List Symbol) (co : Option VBytes) (r : St)
    (K : Ctl (Aig × St) Aig → PM β) (hK : K Ctl.fuel = rpanic "fuel") :
    (parse.loop4 n ((⟨mv, i, la, o, b, c, j, f, g, sy, co⟩ : Aig), r) >>= K) =
      (whileSome nextBad n r [] >>= fun p => K (Ctl.brk ((⟨mv, i, la, o, b ++ p.1, c, j, f, g, sy, co⟩ : Aig), p.2))) :=
  loop4_bind n _ r K hK

theorem foldl_constraints (l : List Nat) : ∀ a : Aig,
    l.foldl (fun a x => ({ a with constraints := a.constraints ++ [x] } : Aig)) a = { a with constraints := a.constraints ++ l } := by
  induction l with
  | nil => intro a; simp
  | cons x l ih => intro a; simp [ih]

/-- loop 5: `while let Some(x) = r.nextConstraint()? { aig.constraints.push(x) }` = `whileSome`, fuel for fuel. -/
theorem loop5_bind {β : Type} (n : Nat) (a : Aig) (r : St) (K : Ctl (Aig × St) Aig → PM β) (hK : K Ctl.fuel = rpanic "fuel") :
    (parse.loop5 n (a, r) >>= K) =
      (whileSome nextConstraint n r [] >>= fun p => K (Ctl.brk ({ a with constraints := a.constraints ++ p.1 }, p.2))) := by
  have := loop_generic nextConstraint (fun a x => ({ a with constraints := a.constraints ++ [x] } : Aig)) Prod.mk parse.loop5
    (fun a r => by rw [parse.loop5])
    (fun f a r => by rw [parse.loop5]; apply pm_bind_congr; intro t; rcases t with ⟨_ | x, s'⟩ <;> rfl) n a r K hK
  simpa only [foldl_constraints] using this

theorem loop5_bind' {β : Type} (n : Nat) (mv : Nat) (i : List Nat) (la : List Latch) (o : List Nat) (b : List Nat) (c : List Nat) (j : List (List Nat)) (f : List Nat) (g : List AndGate) (sy : List Symbol) (co : Option VBytes) (r : St)
    (K : Ctl (Aig × St) Aig → PM β) (hK : K Ctl.fuel = rpanic "fuel") :
    (parse.loop5 n ((⟨mv, i, la, o, b, c, j, f, g, sy, co⟩ : Aig), r) >>= K) =
      (whileSome nextConstraint n r [] >>= fun p => K (Ctl.brk ((⟨mv, i, la, o, b, c ++ p.1, j, f, g, sy, co⟩ : Aig), p.2))) :=
  loop5_bind n _ r K hK

theorem foldl_fairness (l : List Nat) : ∀ a : Aig,
    l.foldl (fun a x => ({ a with fairness := a.fairness ++ [x] } : Aig)) a = { a with fairness := a.fairness ++ l } := by
  induction l with
  | nil => intro a; simp
  | cons x l ih => intro a; simp [ih]

/-- loop 9: `while let Some(x) = r.nextFairness()? { aig.fairness.push(x) }` = `whileSome`, fuel for fuel. -/
theorem loop9_bind {β : Type} (n : Nat) (a : Aig) (r : St) (K : Ctl (Aig × St) Aig → PM β) (hK : K Ctl.fuel = rpanic "fuel") :
    (parse.loop9 n (a, r) >>= K) =
      (whileSome nextFairness n r [] >>= fun p => K (Ctl.brk ({ a with fairness := a.fairness ++ p.1 }, p.2))) := by
  have := loop_generic nextFairness (fun a x => ({ a with fairness := a.fairness ++ [x] } : Aig)) Prod.mk parse.loop9
    (fun a r => by rw [parse.loop9])
    (fun f a r => by rw [parse.loop9]; apply pm_bind_congr; intro t; rcases t with ⟨_ | x, s'⟩ <;> rfl) n a r K hK
  simpa only [foldl_fairness] using this

theorem loop9_bind' {β : Type} (n : Nat) (mv : Nat) (i : List Nat) (la : List Latch) (o : List Nat) (b : List Nat) (c : List Nat) (j : List (List Nat)) (f : List Nat) (g : List AndGate) (sy : List Symbol) (co : Option VBytes) (r : St)
    (K : Ctl (Aig × St) Aig → PM β) (hK : K Ctl.fuel = rpanic "fuel") :
    (parse.loop9 n ((⟨mv, i, la, o, b, c, j, f, g, sy, co⟩ : Aig), r) >>= K) =
      (whileSome nextFairness n r [] >>= fun p => K (Ctl.brk ((⟨mv, i, la, o, b, c, j, f ++ p.1, g, sy, co⟩ : Aig), p.2))) :=
  loop9_bind n _ r K hK

theorem foldl_gates (l : List AndGate) : ∀ a : Aig,
    l.foldl (fun a x => ({ a with gates := a.gates ++ [x] } : Aig)) a = { a with gates := a.gates ++ l } := by
  induction l with
  | nil => intro a; simp
  | cons x l ih => intro a; simp [ih]

/-- loop 10: `while let Some(x) = r.nextAndGateAscii()? { aig.gates.push(x) }` = `whileSome`, fuel for fuel. -/
theorem loop10_bind {β : Type} (n : Nat) (a : Aig) (r : St) (K : Ctl (Aig × St) Aig → PM β) (hK : K Ctl.fuel = rpanic "fuel") :
    (parse.loop10 n (a, r) >>= K) =
      (whileSome nextAndGateAscii n r [] >>= fun p => K (Ctl.brk ({ a with gates := a.gates ++ p.1 }, p.2))) := by
  have := loop_generic nextAndGateAscii (fun a x => ({ a with gates := a.gates ++ [x] } : Aig)) Prod.mk parse.loop10
    (fun a r => by rw [parse.loop10])
    (fun f a r => by rw [parse.loop10]; apply pm_bind_congr; intro t; rcases t with ⟨_ | x, s'⟩ <;> rfl) n a r K hK
  simpa only [foldl_gates] using this

theorem loop10_bind' {β : Type} (n : Nat) (mv : Nat) (i : List Nat) (la : List Latch) (o : List Nat) (b : List Nat) (c : List Nat) (j : List (List Nat)) (f : List Nat) (g : List AndGate) (sy : List Symbol) (co : Option VBytes) (r : St)
    (K : Ctl (Aig × St) Aig → PM β) (hK : K Ctl.fuel = rpanic "fuel") :
    (parse.loop10 n ((⟨mv, i, la, o, b, c, j, f, g, sy, co⟩ : Aig), r) >>= K) =
      (whileSome nextAndGateAscii n r [] >>= fun p => K (Ctl.brk ((⟨mv, i, la, o, b, c, j, f, g ++ p.1, sy, co⟩ : Aig), p.2))) :=
  loop10_bind n _ r K hK

/-! ### the justice bookkeeping -/

theorem foldl_sizes (l : List Nat) : ∀ a : Aig × List Nat,
    l.foldl (fun a x => (({ a.1 with justice := a.1.justice ++ [([] : List Nat)] } : Aig), a.2 ++ [x])) a
      = ({ a.1 with justice := a.1.justice ++ l.map fun _ => [] }, a.2 ++ l) := by
  induction l with
  | nil => intro a; simp
  | cons x l ih => intro a; simp [ih]

/-- loop 6: the sizes are collected, and an empty vector is pushed per size. -/
theorem loop6_bind {β : Type} (n : Nat) (a : Aig) (sz : List Nat) (r : St) (K : Ctl (Aig × List Nat × St) Aig → PM β)
    (hK : K Ctl.fuel = rpanic "fuel") :
    (parse.loop6 n (a, sz, r) >>= K) =
      (whileSome nextJusticeSize n r [] >>= fun p =>
        K (Ctl.brk ({ a with justice := a.justice ++ p.1.map fun _ => [] }, sz ++ p.1, p.2))) := by
  have := loop_generic nextJusticeSize
    (fun (a : Aig × List Nat) x => (({ a.1 with justice := a.1.justice ++ [([] : List Nat)] } : Aig), a.2 ++ [x]))
    (fun a r => (a.1, a.2, r)) parse.loop6
    (fun a r => by rw [parse.loop6])
    (fun f a r => by rw [parse.loop6]; apply pm_bind_congr; intro t; rcases t with ⟨_ | x, s'⟩ <;> rfl) n (a, sz) r K hK
  simpa only [foldl_sizes] using this

theorem loop6_bind' {β : Type} (n : Nat) (mv : Nat) (i : List Nat) (la : List Latch) (o : List Nat) (b : List Nat) (c : List Nat) (j : List (List Nat)) (f : List Nat) (g : List AndGate) (sy : List Symbol) (co : Option VBytes) (sz : List Nat) (r : St)
    (K : Ctl (Aig × List Nat × St) Aig → PM β) (hK : K Ctl.fuel = rpanic "fuel") :
    (parse.loop6 n ((⟨mv, i, la, o, b, c, j, f, g, sy, co⟩ : Aig), sz, r) >>= K) =
      (whileSome nextJusticeSize n r [] >>= fun p =>
        K (Ctl.brk ((⟨mv, i, la, o, b, c, j ++ p.1.map fun _ => [], f, g, sy, co⟩ : Aig), sz ++ p.1, p.2))) :=
  loop6_bind n _ sz r K hK

/-- loop 8, `while aig.justice_properties[jp].len() == justice_property_sizes[jp] { jp += 1 }` with both checked
index expressions, is `justiceSeek`, fuel for fuel; a failed bounds check is the model's `none`. -/
theorem loop8_bind {β : Type} (a : Aig) (sizes : List Nat) (n : Nat) :
    ∀ (jp : Nat) (K : Ctl Nat Aig → PM β), K Ctl.fuel = rpanic "justice property index out of bounds" →
      (parse.loop8 a sizes n jp >>= K) =
        (match justiceSeek a.justice sizes n jp with
          | none => rpanic "justice property index out of bounds"
          | some jp' => K (Ctl.brk jp')) := by
  induction n with
  | zero => intro jp K hK; rw [parse.loop8, pure_bind, hK, justiceSeek]
  | succ n ih =>
    intro jp K hK
    rw [parse.loop8, justiceSeek]
    simp only [AigerParseExt.index, bind_assoc]
    cases hj : a.justice[jp]? with
    | none => simp only [rpanic_bind]
    | some j =>
      simp only [pure_bind]
      cases hs : sizes[jp]? with
      | none => simp only [rpanic_bind]
      | some sz =>
        simp only [pure_bind]
        by_cases he : (j.length == sz) = true
        · simp only [he, Bool.not_true, Bool.false_eq_true, if_false, if_true, pure_bind, bind_assoc]
          exact ih _ K hK
        · have he' : (j.length == sz) = false := by simpa using he
          simp only [he', Bool.not_false, if_true, Bool.false_eq_true, if_false, pure_bind]

/-- loop 7 = `justiceLitsLoop`, fuel for fuel, for every continuation that does not look at the cursor
`justice_property` (dead after the loop).  The checked `aig.justice_properties[jp].push(..)` after a successful
seek cannot fail (`justiceSeek_get`). -/
theorem loop7_bind {β : Type} (sizes : List Nat) (n : Nat) :
    ∀ (a : Aig) (jp : Nat) (r : St) (K : Ctl (Aig × Nat × St) Aig → PM β), K Ctl.fuel = rpanic "fuel" →
      (∀ a jp jp' r, K (Ctl.brk (a, jp, r)) = K (Ctl.brk (a, jp', r))) →
      (parse.loop7 sizes n (a, jp, r) >>= K) =
        (justiceLitsLoop sizes n r a.justice jp >>= fun p => K (Ctl.brk ({ a with justice := p.1 }, 0, p.2))) := by
  induction n with
  | zero => intro a jp r K hK _; rw [parse.loop7, justiceLitsLoop, pure_bind, hK, rpanic_bind]
  | succ n ih =>
    intro a jp r K hK hjp
    rw [parse.loop7, justiceLitsLoop]
    simp only [bind_assoc]
    apply pm_bind_congr; intro t
    rcases t with ⟨_ | c, s'⟩
    · simp only [pure_bind]
      exact hjp _ _ _ _
    · simp only [bind_assoc]
      refine (loop8_bind a sizes _ jp _ ?_).trans ?_
      · simp only [rpanic_bind]
      cases hseek : justiceSeek a.justice sizes (a.justice.length + 1) jp with
      | none => simp only [rpanic_bind]
      | some jp' =>
        obtain ⟨j, hj⟩ := justiceSeek_get _ _ _ _ _ hseek
        simp only [pure_bind, AigerParseExt.pushAt, hj, bind_assoc]
        exact ih _ _ _ K hK hjp

theorem loop7_bind' {β : Type} (sizes : List Nat) (n : Nat) (mv : Nat) (i : List Nat) (la : List Latch) (o : List Nat) (b : List Nat) (c : List Nat) (j : List (List Nat)) (f : List Nat) (g : List AndGate) (sy : List Symbol) (co : Option VBytes) (jp : Nat) (r : St)
    (K : Ctl (Aig × Nat × St) Aig → PM β) (hK : K Ctl.fuel = rpanic "fuel")
    (hjp : ∀ a jp jp' r, K (Ctl.brk (a, jp, r)) = K (Ctl.brk (a, jp', r))) :
    (parse.loop7 sizes n ((⟨mv, i, la, o, b, c, j, f, g, sy, co⟩ : Aig), jp, r) >>= K) =
      (justiceLitsLoop sizes n r j jp >>= fun p => K (Ctl.brk ((⟨mv, i, la, o, b, c, p.1, f, g, sy, co⟩ : Aig), 0, p.2))) :=
  loop7_bind sizes n _ jp r K hK hjp

/-! ### symbol table, and the whole function -/

theorem foldl_symbols (l : List Symbol) : ∀ a : Aig,
    l.foldl (fun a x => ({ a with symbols := a.symbols ++ [x] } : Aig)) a = { a with symbols := a.symbols ++ l } := by
  induction l with
  | nil => intro a; simp
  | cons x l ih => intro a; simp [ih]

/-- loop 11: the symbol table; the typestate value is the parser record, which `next_symbol` leaves unchanged. -/
theorem loop11_bind {β : Type} (p : Parser) (n : Nat) (a : Aig) (K : Ctl Aig Aig → PM β) (hK : K Ctl.fuel = rpanic "fuel") :
    (parse.loop11 p n a >>= K) =
      (whileSome (fun (_ : Unit) => do pure (← nextSymbol p, ())) n () [] >>= fun q =>
        K (Ctl.brk { a with symbols := a.symbols ++ q.1 })) := by
  have := loop_generic (fun (_ : Unit) => do pure (← nextSymbol p, ()))
    (fun a x => ({ a with symbols := a.symbols ++ [x] } : Aig)) (fun a _ => a) (parse.loop11 p)
    (fun a r => by rw [parse.loop11])
    (fun f a r => by
      rw [parse.loop11]; simp only [bind_assoc, pure_bind]
      apply pm_bind_congr; intro t; cases t <;> rfl) n a () K hK
  simpa only [foldl_symbols] using this

theorem loop11_bind' {β : Type} (p : Parser) (n : Nat) (mv : Nat) (i : List Nat) (la : List Latch) (o : List Nat) (b : List Nat) (c : List Nat) (j : List (List Nat)) (f : List Nat) (g : List AndGate) (sy : List Symbol) (co : Option VBytes)
    (K : Ctl Aig Aig → PM β) (hK : K Ctl.fuel = rpanic "fuel") :
    (parse.loop11 p n (⟨mv, i, la, o, b, c, j, f, g, sy, co⟩ : Aig) >>= K) =
      (whileSome (fun (_ : Unit) => do pure (← nextSymbol p, ())) n () [] >>= fun q =>
        K (Ctl.brk (⟨mv, i, la, o, b, c, j, f, g, sy ++ q.1, co⟩ : Aig))) :=
  loop11_bind p n _ K hK

/-- The generated `parse` against the model, with the two header values of the result taken from the parser the
function was called with (the model takes them from the record the last transition returns). -/
theorem parse_eq_aux (p : Parser) :
    Gen.AigerParse.parse p = (parseAscii p >>= fun a => pure { a with maxVarIndex := p.header.maxVarIndex }) := by
  unfold parseAscii parseMid parseTail
  conv => rhs; simp only [bind_assoc, pure_bind]
  unfold Gen.AigerParse.parse
  refine (loop1_bind' _ _ _ _ _ _ _ _ _ _ _ _ _ _ (rpanic_bind _ _)).trans ?_
  apply pm_bind_congr; rintro ⟨l, s⟩
  refine (pure_bind _ _).trans ?_
  apply pm_bind_congr; intro t
  refine (loop2_bind' _ _ _ _ _ _ _ _ _ _ _ _ _ _ (rpanic_bind _ _)).trans ?_
  apply pm_bind_congr; rintro ⟨l, s⟩
  refine (pure_bind _ _).trans ?_
  apply pm_bind_congr; intro t
  refine (loop3_bind' _ _ _ _ _ _ _ _ _ _ _ _ _ _ (rpanic_bind _ _)).trans ?_
  apply pm_bind_congr; rintro ⟨l, s⟩
  refine (pure_bind _ _).trans ?_
  apply pm_bind_congr; intro t
  refine (loop4_bind' _ _ _ _ _ _ _ _ _ _ _ _ _ _ (rpanic_bind _ _)).trans ?_
  apply pm_bind_congr; rintro ⟨l, s⟩
  refine (pure_bind _ _).trans ?_
  apply pm_bind_congr; intro t
  refine (loop5_bind' _ _ _ _ _ _ _ _ _ _ _ _ _ _ (rpanic_bind _ _)).trans ?_
  apply pm_bind_congr; rintro ⟨l, s⟩
  refine (pure_bind _ _).trans ?_
  apply pm_bind_congr; intro t
  refine (loop6_bind' _ _ _ _ _ _ _ _ _ _ _ _ _ _ _ (rpanic_bind _ _)).trans ?_
  apply pm_bind_congr; rintro ⟨l, s⟩
  refine (pure_bind _ _).trans ?_
  apply pm_bind_congr; intro t
  refine (loop7_bind' _ _ _ _ _ _ _ _ _ _ _ _ _ _ _ _ (rpanic_bind _ _) (fun _ _ _ _ => rfl)).trans ?_
  apply pm_bind_congr; rintro ⟨l, s⟩
  refine (pure_bind _ _).trans ?_
  apply pm_bind_congr; intro t
  refine (loop9_bind' _ _ _ _ _ _ _ _ _ _ _ _ _ _ (rpanic_bind _ _)).trans ?_
  apply pm_bind_congr; rintro ⟨l, s⟩
  refine (pure_bind _ _).trans ?_
  apply pm_bind_congr; intro t
  refine (loop10_bind' _ _ _ _ _ _ _ _ _ _ _ _ _ _ (rpanic_bind _ _)).trans ?_
  apply pm_bind_congr; rintro ⟨l, s⟩
  refine (pure_bind _ _).trans ?_
  apply pm_bind_congr; intro t
  apply pm_bind_congr; intro lr
  refine (loop11_bind' _ _ _ _ _ _ _ _ _ _ _ _ _ _ (rpanic_bind _ _)).trans ?_
  apply pm_bind_congr; rintro ⟨l, s⟩
  refine (pure_bind _ _).trans ?_
  apply pm_bind_congr; intro co
  cases co <;> simp

theorem parse_eq (p : Parser) : Gen.AigerParse.parse p = parseAscii p := by
  rw [parse_eq_aux]
  refine (bind_congr_Post (parseAscii_post p) (g := pure) ?_).trans (bind_pure _)
  intro a ha
  rcases a with ⟨mv, i, la, o, b, c, j, f, g, sy, co⟩
  have h1 := ha.maxVarIndex
  dsimp only at h1 ⊢
  subst h1
  rfl

end Ascii

/-! ## `binary::Parser::parse` -/

namespace Bin
open Gen.AigerBinParse

theorem foldl_latches (l : List OLatch) : ∀ a : OrderedAig,
    l.foldl (fun a x => ({ a with latches := a.latches ++ [x] } : OrderedAig)) a = { a with latches := a.latches ++ l } := by
  induction l with
  | nil => intro a; simp
  | cons x l ih => intro a; simp [ih]

/-- loop 1: `while let Some(x) = r.nextLatchBin()? { aig.latches.push(x) }` = `whileSome`, fuel for fuel. -/
theorem loop1_bind {β : Type} (n : Nat) (a : OrderedAig) (r : St) (K : Ctl (OrderedAig × St) OrderedAig → PM β) (hK : K Ctl.fuel = rpanic "fuel") :
    (parse.loop1 n (a, r) >>= K) =
      (whileSome nextLatchBin n r [] >>= fun p => K (Ctl.brk ({ a with latches := a.latches ++ p.1 }, p.2))) := by
  have := loop_generic nextLatchBin (fun a x => ({ a with latches := a.latches ++ [x] } : OrderedAig)) Prod.mk parse.loop1
    (fun a r => by rw [parse.loop1])
    (fun f a r => by rw [parse.loop1]; apply pm_bind_congr; intro t; rcases t with ⟨_ | x, s'⟩ <;> rfl) n a r K hK
  simpa only [foldl_latches] using this

theorem loop1_bind' {β : Type} (n : Nat) (mv : Nat) (ic : Nat) (la : List OLatch) (o : List Nat) (b : List Nat) (c : List Nat) (j : List (List Nat)) (f : List Nat) (g : List OGate) (sy : List Symbol) (co : Option VBytes) (r : St)
    (K : Ctl (OrderedAig × St) OrderedAig → PM β) (hK : K Ctl.fuel = rpanic "fuel") :
    (parse.loop1 n ((⟨mv, ic, la, o, b, c, j, f, g, sy, co⟩ : OrderedAig), r) >>= K) =
      (whileSome nextLatchBin n r [] >>= fun p => K (Ctl.brk ((⟨mv, ic, la ++ p.1, o, b, c, j, f, g, sy, co⟩ : OrderedAig), p.2))) :=
  loop1_bind n _ r K hK

theorem foldl_outputs (l : List Nat) : ∀ a : OrderedAig,
    l.foldl (fun a x => ({ a with outputs := a.outputs ++ [x] } : OrderedAig)) a = { a with outputs := a.outputs ++ l } := by
  induction l with
  | nil => intro a; simp
  | cons x l ih => intro a; simp [ih]

/-- loop 2: `while let Some(x) = r.nextOutput()? { aig.outputs.push(x) }` = `whileSome`, fuel for fuel. -/
theorem loop2_bind {β : Type} (n : Nat) (a : OrderedAig) (r : St) (K : Ctl (OrderedAig × St) OrderedAig → PM β) (hK : K Ctl.fuel = rpanic "fuel") :
    (parse.loop2 n (a, r) >>= K) =
      (whileSome nextOutput n r [] >>= fun p => K (Ctl.brk ({ a with outputs := a.outputs ++ p.1 }, p.2))) := by
  have := loop_generic nextOutput (fun a x => ({ a with outputs := a.outputs ++ [x] } : OrderedAig)) Prod.mk parse.loop2
    (fun a r => by rw [parse.loop2])
    (fun f a r => by rw [parse.loop2]; apply pm_bind_congr; intro t; rcases t with ⟨_ | x, s'⟩ <;> rfl) n a r K hK
  simpa only [foldl_outputs] using this

theorem loop2_bind' {β : Type} (n : Nat) (mv : Nat) (ic : Nat) (la : List OLatch) (o : List Nat) (b : List Nat) (c : List Nat) (j : List (List Nat)) (f : List Nat) (g : List OGate) (sy : List Symbol) (co : Option VBytes) (r : St)
    (K : Ctl (OrderedAig × St) OrderedAig → PM β) (hK : K Ctl.fuel = rpanic "fuel") :
    (parse.loop2 n ((⟨mv, ic, la, o, b, c, j, f, g, sy, co⟩ : OrderedAig), r) >>= K) =
      (whileSome nextOutput n r [] >>= fun p => K (Ctl.brk ((⟨mv, ic, la, o ++ p.1, b, c, j, f, g, sy, co⟩ : OrderedAig), p.2))) :=
  loop2_bind n _ r K hK

theorem foldl_bad (l : List Nat) : ∀ a : OrderedAig,
    l.foldl (fun a x => ({ a with bad := a.bad ++ [x] } : OrderedAig)) a = { a with bad := a.bad ++ l } := by
  induction l with
  | nil => intro a; simp
  | cons x l ih => intro a; simp [ih]

/-- loop 3: `while let Some(x) = r.nextBad()? { aig.bad.push(x) }` = `whileSome`, fuel for fuel. -/
theorem loop3_bind {β : Type} (n : Nat) (a : OrderedAig) (r : St) (K : Ctl (OrderedAig × St) OrderedAig → PM β) (hK : K Ctl.fuel = rpanic "fuel") :
    (parse.loop3 n (a, r) >>= K) =
      (whileSome nextBad n r [] >>= fun p => K (Ctl.brk ({ a with bad := a.bad ++ p.1 }, p.2))) := by
  have := loop_generic nextBad (fun a x => ({ a with bad := a.bad ++ [x] } : OrderedAig)) Prod.mk parse.loop3
    (fun a r => by rw [parse.loop3])
    (fun f a r => by rw [parse.loop3]; apply pm_bind_congr; intro t; rcases t with ⟨_ | x, s'⟩ <;> rfl) n a r K hK
  simpa only [foldl_bad] using this

theorem loop3_bind' {β : Type} (n : Nat) (mv : Nat) (ic : Nat) (la : List OLatch) (o : List Nat) (b : List Nat) (c : List Nat) (j : List (List Nat)) (f : List Nat) (g : List OGate) (sy : List Symbol) (co : Option VBytes) (r : St)
    (K : Ctl (OrderedAig × St) OrderedAig → PM β) (hK : K Ctl.fuel = rpanic "fuel") :
    (parse.loop3 n ((⟨mv, ic, la, o, b, c, j, f, g, sy, co⟩ : OrderedAig), r) >>= K) =
      (whileSome nextBad n r [] >>= fun p => K (Ctl.brk ((⟨mv, ic, la, o, b ++ p.1, c, j, f, g, sy, co⟩ : OrderedAig), p.2))) :=
  loop3_bind n _ r K hK

theorem foldl_constraints (l : List Nat) : ∀ a : OrderedAig,
    l.foldl (fun a x => ({ a with constraints := a.constraints ++ [x] } : OrderedAig)) a = { a with constraints := a.constraints ++ l } := by
  induction l with
  | nil => intro a; simp
  | cons x l ih => intro a; simp [ih]

/-- loop 4: `while let Some(x) = r.nextConstraint()? { aig.constraints.push(x) }` = `whileSome`, fuel for fuel. -/
theorem loop4_bind {β : Type} (n : Nat) (a : OrderedAig) (r : St) (K : Ctl (OrderedAig × St) OrderedAig → PM β) (hK : K Ctl.fuel = rpanic "fuel") :
    (parse.loop4 n (a, r) >>= K) =
      (whileSome nextConstraint n r [] >>= fun p => K (Ctl.brk ({ a with constraints := a.constraints ++ p.1 }, p.2))) := by
  have := loop_generic nextConstraint (fun a x => ({ a with constraints := a.constraints ++ [x] } : OrderedAig)) Prod.mk parse.loop4
    (fun a r => by rw [parse.loop4])
    (fun f a r => by rw [parse.loop4]; apply pm_bind_congr; intro t; rcases t with ⟨_ | x, s'⟩ <;> rfl) n a r K hK
  simpa only [foldl_constraints] using this

theorem loop4_bind' {β : Type} (n : Nat) (mv : Nat) (ic : Nat) (la : List OLatch) (o : List Nat) (b : List Nat) (c : List Nat) (j : List (List Nat)) (f : List Nat) (g : List OGate) (sy : List Symbol) (co : Option VBytes) (r : St)
    (K : Ctl (OrderedAig × St) OrderedAig → PM β) (hK : K Ctl.fuel = rpanic "fuel") :
    (parse.loop4 n ((⟨mv, ic, la, o, b, c, j, f, g, sy, co⟩ : OrderedAig), r) >>= K) =
      (whileSome nextConstraint n r [] >>= fun p => K (Ctl.brk ((⟨mv, ic, la, o, b, c ++ p.1, j, f, g, sy, co⟩ : OrderedAig), p.2))) :=
  loop4_bind n _ r K hK

theorem foldl_fairness (l : List Nat) : ∀ a : OrderedAig,
    l.foldl (fun a x => ({ a with fairness := a.fairness ++ [x] } : OrderedAig)) a = { a with fairness := a.fairness ++ l } := by
  induction l with
  | nil => intro a; simp
  | cons x l ih => intro a; simp [ih]

/-- loop 8: `while let Some(x) = r.nextFairness()? { aig.fairness.push(x) }` = `whileSome`, fuel for fuel. -/
theorem loop8_bind {β : Type} (n : Nat) (a : OrderedAig) (r : St) (K : Ctl (OrderedAig × St) OrderedAig → PM β) (hK : K Ctl.fuel = rpanic "fuel") :
    (parse.loop8 n (a, r) >>= K) =
      (whileSome nextFairness n r [] >>= fun p => K (Ctl.brk ({ a with fairness := a.fairness ++ p.1 }, p.2))) := by
  have := loop_generic nextFairness (fun a x => ({ a with fairness := a.fairness ++ [x] } : OrderedAig)) Prod.mk parse.loop8
    (fun a r => by rw [parse.loop8])
    (fun f a r => by rw [parse.loop8]; apply pm_bind_congr; intro t; rcases t with ⟨_ | x, s'⟩ <;> rfl) n a r K hK
  simpa only [foldl_fairness] using this

theorem loop8_bind' {β : Type} (n : Nat) (mv : Nat) (ic : Nat) (la : List OLatch) (o : List Nat) (b : List Nat) (c : List Nat) (j : List (List Nat)) (f : List Nat) (g : List OGate) (sy : List Symbol) (co : Option VBytes) (r : St)
    (K : Ctl (OrderedAig × St) OrderedAig → PM β) (hK : K Ctl.fuel = rpanic "fuel") :
    (parse.loop8 n ((⟨mv, ic, la, o, b, c, j, f, g, sy, co⟩ : OrderedAig), r) >>= K) =
      (whileSome nextFairness n r [] >>= fun p => K (Ctl.brk ((⟨mv, ic, la, o, b, c, j, f ++ p.1, g, sy, co⟩ : OrderedAig), p.2))) :=
  loop8_bind n _ r K hK

theorem foldl_gates (l : List OGate) : ∀ a : OrderedAig,
    l.foldl (fun a x => ({ a with gates := a.gates ++ [x] } : OrderedAig)) a = { a with gates := a.gates ++ l } := by
  induction l with
  | nil => intro a; simp
  | cons x l ih => intro a; simp [ih]

/-- loop 9: `while let Some(x) = r.nextAndGateBin()? { aig.gates.push(x) }` = `whileSome`, fuel for fuel. -/
theorem loop9_bind {β : Type} (n : Nat) (a : OrderedAig) (r : St) (K : Ctl (OrderedAig × St) OrderedAig → PM β) (hK : K Ctl.fuel = rpanic "fuel") :
    (parse.loop9 n (a, r) >>= K) =
      (whileSome nextAndGateBin n r [] >>= fun p => K (Ctl.brk ({ a with gates := a.gates ++ p.1 }, p.2))) := by
  have := loop_generic nextAndGateBin (fun a x => ({ a with gates := a.gates ++ [x] } : OrderedAig)) Prod.mk parse.loop9
    (fun a r => by rw [parse.loop9])
    (fun f a r => by rw [parse.loop9]; apply pm_bind_congr; intro t; rcases t with ⟨_ | x, s'⟩ <;> rfl) n a r K hK
  simpa only [foldl_gates] using this

theorem loop9_bind' {β : Type} (n : Nat) (mv : Nat) (ic : Nat) (la : List OLatch) (o : List Nat) (b : List Nat) (c : List Nat) (j : List (List Nat)) (f : List Nat) (g : List OGate) (sy : List Symbol) (co : Option VBytes) (r : St)
    (K : Ctl (OrderedAig × St) OrderedAig → PM β) (hK : K Ctl.fuel = rpanic "fuel") :
    (parse.loop9 n ((⟨mv, ic, la, o, b, c, j, f, g, sy, co⟩ : OrderedAig), r) >>= K) =
      (whileSome nextAndGateBin n r [] >>= fun p => K (Ctl.brk ((⟨mv, ic, la, o, b, c, j, f, g ++ p.1, sy, co⟩ : OrderedAig), p.2))) :=
  loop9_bind n _ r K hK

/-! ### the justice bookkeeping -/

theorem foldl_sizes (l : List Nat) : ∀ a : OrderedAig × List Nat,
    l.foldl (fun a x => (({ a.1 with justice := a.1.justice ++ [([] : List Nat)] } : OrderedAig), a.2 ++ [x])) a
      = ({ a.1 with justice := a.1.justice ++ l.map fun _ => [] }, a.2 ++ l) := by
  induction l with
  | nil => intro a; simp
  | cons x l ih => intro a; simp [ih]

/-- loop 5: the sizes are collected, and an empty vector is pushed per size. -/
theorem loop5_bind {β : Type} (n : Nat) (a : OrderedAig) (sz : List Nat) (r : St) (K : Ctl (OrderedAig × List Nat × St) OrderedAig → PM β)
    (hK : K Ctl.fuel = rpanic "fuel") :
    (parse.loop5 n (a, sz, r) >>= K) =
      (whileSome nextJusticeSize n r [] >>= fun p =>
        K (Ctl.brk ({ a with justice := a.justice ++ p.1.map fun _ => [] }, sz ++ p.1, p.2))) := by
  have := loop_generic nextJusticeSize
    (fun (a : OrderedAig × List Nat) x => (({ a.1 with justice := a.1.justice ++ [([] : List Nat)] } : OrderedAig), a.2 ++ [x]))
    (fun a r => (a.1, a.2, r)) parse.loop5
    (fun a r => by rw [parse.loop5])
    (fun f a r => by rw [parse.loop5]; apply pm_bind_congr; intro t; rcases t with ⟨_ | x, s'⟩ <;> rfl) n (a, sz) r K hK
  simpa only [foldl_sizes] using this

theorem loop5_bind' {β : Type} (n : Nat) (mv : Nat) (ic : Nat) (la : List OLatch) (o : List Nat) (b : List Nat) (c : List Nat) (j : List (List Nat)) (f : List Nat) (g : List OGate) (sy : List Symbol) (co : Option VBytes) (sz : List Nat) (r : St)
    (K : Ctl (OrderedAig × List Nat × St) OrderedAig → PM β) (hK : K Ctl.fuel = rpanic "fuel") :
    (parse.loop5 n ((⟨mv, ic, la, o, b, c, j, f, g, sy, co⟩ : OrderedAig), sz, r) >>= K) =
      (whileSome nextJusticeSize n r [] >>= fun p =>
        K (Ctl.brk ((⟨mv, ic, la, o, b, c, j ++ p.1.map fun _ => [], f, g, sy, co⟩ : OrderedAig), sz ++ p.1, p.2))) :=
  loop5_bind n _ sz r K hK

/-- loop 7, `while aig.justice_properties[jp].len() == justice_property_sizes[jp] { jp += 1 }` with both checked
index expressions, is `justiceSeek`, fuel for fuel; a failed bounds check is the model's `none`. -/
theorem loop7_bind {β : Type} (a : OrderedAig) (sizes : List Nat) (n : Nat) :
    ∀ (jp : Nat) (K : Ctl Nat OrderedAig → PM β), K Ctl.fuel = rpanic "justice property index out of bounds" →
      (parse.loop7 a sizes n jp >>= K) =
        (match justiceSeek a.justice sizes n jp with
          | none => rpanic "justice property index out of bounds"
          | some jp' => K (Ctl.brk jp')) := by
  induction n with
  | zero => intro jp K hK; rw [parse.loop7, pure_bind, hK, justiceSeek]
  | succ n ih =>
    intro jp K hK
    rw [parse.loop7, justiceSeek]
    simp only [AigerParseExt.index, bind_assoc]
    cases hj : a.justice[jp]? with
    | none => simp only [rpanic_bind]
    | some j =>
      simp only [pure_bind]
      cases hs : sizes[jp]? with
      | none => simp only [rpanic_bind]
      | some sz =>
        simp only [pure_bind]
        by_cases he : (j.length == sz) = true
        · simp only [he, Bool.not_true, Bool.false_eq_true, if_false, if_true, pure_bind, bind_assoc]
          exact ih _ K hK
        · have he' : (j.length == sz) = false := by simpa using he
          simp only [he', Bool.not_false, if_true, Bool.false_eq_true, if_false, pure_bind]

/-- loop 6 = `justiceLitsLoop`, fuel for fuel, for every continuation that does not look at the cursor
`justice_property` (dead after the loop).  The checked `aig.justice_properties[jp].push(..)` after a successful
seek cannot fail (`justiceSeek_get`). -/
theorem loop6_bind {β : Type} (sizes : List Nat) (n : Nat) :
    ∀ (a : OrderedAig) (jp : Nat) (r : St) (K : Ctl (OrderedAig × Nat × St) OrderedAig → PM β), K Ctl.fuel = rpanic "fuel" →
      (∀ a jp jp' r, K (Ctl.brk (a, jp, r)) = K (Ctl.brk (a, jp', r))) →
      (parse.loop6 sizes n (a, jp, r) >>= K) =
        (justiceLitsLoop sizes n r a.justice jp >>= fun p => K (Ctl.brk ({ a with justice := p.1 }, 0, p.2))) := by
  induction n with
  | zero => intro a jp r K hK _; rw [parse.loop6, justiceLitsLoop, pure_bind, hK, rpanic_bind]
  | succ n ih =>
    intro a jp r K hK hjp
    rw [parse.loop6, justiceLitsLoop]
    simp only [bind_assoc]
    apply pm_bind_congr; intro t
    rcases t with ⟨_ | c, s'⟩
    · simp only [pure_bind]
      exact hjp _ _ _ _
    · simp only [bind_assoc]
      refine (loop7_bind a sizes _ jp _ ?_).trans ?_
      · simp only [rpanic_bind]
      cases hseek : justiceSeek a.justice sizes (a.justice.length + 1) jp with
      | none => simp only [rpanic_bind]
      | some jp' =>
        obtain ⟨j, hj⟩ := justiceSeek_get _ _ _ _ _ hseek
        simp only [pure_bind, AigerParseExt.pushAt, hj, bind_assoc]
        exact ih _ _ _ K hK hjp

theorem loop6_bind' {β : Type} (sizes : List Nat) (n : Nat) (mv : Nat) (ic : Nat) (la : List OLatch) (o : List Nat) (b : List Nat) (c : List Nat) (j : List (List Nat)) (f : List Nat) (g : List OGate) (sy : List Symbol) (co : Option VBytes) (jp : Nat) (r : St)
    (K : Ctl (OrderedAig × Nat × St) OrderedAig → PM β) (hK : K Ctl.fuel = rpanic "fuel")
    (hjp : ∀ a jp jp' r, K (Ctl.brk (a, jp, r)) = K (Ctl.brk (a, jp', r))) :
    (parse.loop6 sizes n ((⟨mv, ic, la, o, b, c, j, f, g, sy, co⟩ : OrderedAig), jp, r) >>= K) =
      (justiceLitsLoop sizes n r j jp >>= fun p => K (Ctl.brk ((⟨mv, ic, la, o, b, c, p.1, f, g, sy, co⟩ : OrderedAig), 0, p.2))) :=
  loop6_bind sizes n _ jp r K hK hjp

/-! ### symbol table, and the whole function -/

theorem foldl_symbols (l : List Symbol) : ∀ a : OrderedAig,
    l.foldl (fun a x => ({ a with symbols := a.symbols ++ [x] } : OrderedAig)) a = { a with symbols := a.symbols ++ l } := by
  induction l with
  | nil => intro a; simp
  | cons x l ih => intro a; simp [ih]

/-- loop 10: the symbol table; the typestate value is the parser record, which `next_symbol` leaves unchanged. -/
theorem loop10_bind {β : Type} (p : Parser) (n : Nat) (a : OrderedAig) (K : Ctl OrderedAig OrderedAig → PM β) (hK : K Ctl.fuel = rpanic "fuel") :
    (parse.loop10 p n a >>= K) =
      (whileSome (fun (_ : Unit) => do pure (← nextSymbol p, ())) n () [] >>= fun q =>
        K (Ctl.brk { a with symbols := a.symbols ++ q.1 })) := by
  have := loop_generic (fun (_ : Unit) => do pure (← nextSymbol p, ()))
    (fun a x => ({ a with symbols := a.symbols ++ [x] } : OrderedAig)) (fun a _ => a) (parse.loop10 p)
    (fun a r => by rw [parse.loop10])
    (fun f a r => by
      rw [parse.loop10]; simp only [bind_assoc, pure_bind]
      apply pm_bind_congr; intro t; cases t <;> rfl) n a () K hK
  simpa only [foldl_symbols] using this

theorem loop10_bind' {β : Type} (p : Parser) (n : Nat) (mv : Nat) (ic : Nat) (la : List OLatch) (o : List Nat) (b : List Nat) (c : List Nat) (j : List (List Nat)) (f : List Nat) (g : List OGate) (sy : List Symbol) (co : Option VBytes)
    (K : Ctl OrderedAig OrderedAig → PM β) (hK : K Ctl.fuel = rpanic "fuel") :
    (parse.loop10 p n (⟨mv, ic, la, o, b, c, j, f, g, sy, co⟩ : OrderedAig) >>= K) =
      (whileSome (fun (_ : Unit) => do pure (← nextSymbol p, ())) n () [] >>= fun q =>
        K (Ctl.brk (⟨mv, ic, la, o, b, c, j, f, g, sy ++ q.1, co⟩ : OrderedAig))) :=
  loop10_bind p n _ K hK

/-- The generated `parse` against the model, with the two header values of the result taken from the parser the
function was called with (the model takes them from the record the last transition returns). -/
theorem parse_eq_aux (p : Parser) :
    Gen.AigerBinParse.parse p = (parseBinary p >>= fun a => pure { a with maxVarIndex := p.header.maxVarIndex, inputCount := p.header.inputCount }) := by
  unfold parseBinary parseMid parseTail
  conv => rhs; simp only [bind_assoc, pure_bind]
  unfold Gen.AigerBinParse.parse
  apply pm_bind_congr; intro t
  refine (loop1_bind' _ _ _ _ _ _ _ _ _ _ _ _ _ _ (rpanic_bind _ _)).trans ?_
  apply pm_bind_congr; rintro ⟨l, s⟩
  refine (pure_bind _ _).trans ?_
  apply pm_bind_congr; intro t
  refine (loop2_bind' _ _ _ _ _ _ _ _ _ _ _ _ _ _ (rpanic_bind _ _)).trans ?_
  apply pm_bind_congr; rintro ⟨l, s⟩
  refine (pure_bind _ _).trans ?_
  apply pm_bind_congr; intro t
  refine (loop3_bind' _ _ _ _ _ _ _ _ _ _ _ _ _ _ (rpanic_bind _ _)).trans ?_
  apply pm_bind_congr; rintro ⟨l, s⟩
  refine (pure_bind _ _).trans ?_
  apply pm_bind_congr; intro t
  refine (loop4_bind' _ _ _ _ _ _ _ _ _ _ _ _ _ _ (rpanic_bind _ _)).trans ?_
  apply pm_bind_congr; rintro ⟨l, s⟩
  refine (pure_bind _ _).trans ?_
  apply pm_bind_congr; intro t
  refine (loop5_bind' _ _ _ _ _ _ _ _ _ _ _ _ _ _ _ (rpanic_bind _ _)).trans ?_
  apply pm_bind_congr; rintro ⟨l, s⟩
  refine (pure_bind _ _).trans ?_
  apply pm_bind_congr; intro t
  refine (loop6_bind' _ _ _ _ _ _ _ _ _ _ _ _ _ _ _ _ (rpanic_bind _ _) (fun _ _ _ _ => rfl)).trans ?_
  apply pm_bind_congr; rintro ⟨l, s⟩
  refine (pure_bind _ _).trans ?_
  apply pm_bind_congr; intro t
  refine (loop8_bind' _ _ _ _ _ _ _ _ _ _ _ _ _ _ (rpanic_bind _ _)).trans ?_
  apply pm_bind_congr; rintro ⟨l, s⟩
  refine (pure_bind _ _).trans ?_
  apply pm_bind_congr; intro t
  refine (loop9_bind' _ _ _ _ _ _ _ _ _ _ _ _ _ _ (rpanic_bind _ _)).trans ?_
  apply pm_bind_congr; rintro ⟨l, s⟩
  refine (pure_bind _ _).trans ?_
  apply pm_bind_congr; intro t
  apply pm_bind_congr; intro lr
  refine (loop10_bind' _ _ _ _ _ _ _ _ _ _ _ _ _ _ (rpanic_bind _ _)).trans ?_
  apply pm_bind_congr; rintro ⟨l, s⟩
  refine (pure_bind _ _).trans ?_
  apply pm_bind_congr; intro co
  cases co <;> simp

theorem parse_eq (p : Parser) : Gen.AigerBinParse.parse p = parseBinary p := by
  rw [parse_eq_aux]
  refine (bind_congr_Post (parseBinary_post p) (g := pure) ?_).trans (bind_pure _)
  intro a ha
  rcases a with ⟨mv, ic, la, o, b, c, j, f, g, sy, co⟩
  have h1 := ha.maxVarIndex
  have h2 := ha.inputCount
  dsimp only at h1 h2 ⊢
  subst h1 h2
  rfl

end Bin

end TieAigerParseAux
end Flussab
