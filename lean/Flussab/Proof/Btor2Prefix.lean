/-
Prefix monotonicity of the BTOR2 parser for the lines it hands out (C04): the lines a parse of the
bytes `b` delivered by a FAILING source hands out before it ends (necessarily in an error) are the
first lines of the parse of any extension `b ++ more` from a source that does not fail.

No relational pass over the parser is needed: an accepted line's consumed text is canonical
(`nextLine_c`, `Proof/Btor2Canonical.lean`), it is in the domain of the round trip (`nextLine_val`),
so the round trip (`nextLineRest_exact`) reads it back from the same bytes whatever follows them;
and a line ending in a comment that reaches the end of a failing source's data is never handed out
(F10) — the `FInv` part of the safety invariant.
-/
import Flussab.Proof.Btor2Document
import Flussab.Proof.Btor2Canonical
import Flussab.Proof.Btor2ParserSafe

namespace Flussab
namespace Btor2
open PM Lines

variable {E : PErr → LR → Prop}

/-- The state after `skip_whitespace` has consumed the spaces / newlines `ws`. -/
structure WsDone (lr : LR) (ws : VBytes) (lr1 : LR) : Prop where
  rest : lr1.v.rest = lr.v.rest.drop ws.length
  pos : lr1.v.pos = lr.v.pos + ws.length
  fault : lr1.v.fault = lr.v.fault
  sawEnd : lr1.v.sawEnd = lr.v.sawEnd
  ioErr : lr1.v.ioErr = lr.v.ioErr
  line : lr1.line = lr.line + ws.count 10

theorem getElem?_of_drop {l : VBytes} {off : Nat} {y : UInt8} {ys : VBytes} (h : l.drop off = y :: ys) :
    l[off]? = some y ∧ off < l.length ∧ l.drop (off + 1) = ys := by
  have hlt : off < l.length := by
    by_cases hh : off < l.length
    · exact hh
    · rw [List.drop_eq_nil_of_le (by omega)] at h; simp at h
  rw [List.drop_eq_getElem_cons hlt] at h
  simp only [List.cons.injEq] at h
  exact ⟨by rw [List.getElem?_eq_getElem hlt, h.1], hlt, h.2⟩

/-- The loop of `skip_whitespace` over the remaining whitespace `wsr`, followed by a byte that is
neither a space nor a newline. -/
theorem skipWsLoop_ws : ∀ (wsr : VBytes) (fuel off : Nat) (lr : LR) (x : UInt8) (tl : VBytes),
    wsr.all isWs = true → x ≠ 32 → x ≠ 10 → lr.v.rest.drop off = wsr ++ x :: tl → wsr.length < fuel →
    lr.line + wsr.count 10 ≤ usizeMax → lr.v.pos + off + wsr.length + 1 ≤ usizeMax →
    Wp E (skipWsLoop fuel off) lr (fun r lr1 => r = off + wsr.length ∧ lr1.v.rest = lr.v.rest ∧
      lr1.v.pos = lr.v.pos ∧ lr1.v.fault = lr.v.fault ∧ lr1.v.sawEnd = lr.v.sawEnd ∧
      lr1.v.ioErr = lr.v.ioErr ∧ lr1.line = lr.line + wsr.count 10 ∧ lr.v.pos + r + 1 ≤ lr1.v.peeked) := by
  intro wsr
  induction wsr with
  | nil =>
    intro fuel off lr x tl _ h32 h10 hd hf _ _
    cases fuel with
    | zero => simp at hf
    | succ f =>
      obtain ⟨hx, hlt, _⟩ := getElem?_of_drop (by simpa using hd)
      rw [skipWsLoop]
      refine Wp.bind (Wp.reqAt ?_)
      rw [hx]
      split
      · rename_i heq; simp only [Option.some.injEq] at heq; exact absurd heq h32
      · rename_i heq; simp only [Option.some.injEq] at heq; exact absurd heq h10
      · rw [demand_of_lt lr.v off hlt]
        refine Wp.pure ⟨by simp, rfl, rfl, rfl, rfl, rfl, by simp, ?_⟩
        show lr.v.pos + off + 1 ≤ max lr.v.peeked (lr.v.pos + off + 1)
        omega
  | cons w wsr ih =>
    intro fuel off lr x tl hall h32 h10 hd hf hl hp
    simp only [List.all_cons, Bool.and_eq_true] at hall
    obtain ⟨hw, hall'⟩ := hall
    cases fuel with
    | zero => simp at hf
    | succ f =>
      obtain ⟨hx, hlt, hd'⟩ := getElem?_of_drop (by simpa using hd)
      simp only [List.length_cons] at hf hp
      rw [skipWsLoop]
      refine Wp.bind (Wp.reqAt ?_)
      rw [hx, demand_of_lt lr.v off hlt]
      have hw' : w = 32 ∨ w = 10 := by simpa [isWs] using hw
      rcases hw' with h | h
      · subst h
        split
        case h_2 heq => exact absurd heq (by decide)
        case h_3 hn32 _ => exact absurd rfl hn32
        refine (ih f (off + 1) _ x tl hall' h32 h10 (by simpa using hd') (by omega)
          (by simpa using hl) (by show lr.v.pos + (off + 1) + wsr.length + 1 ≤ usizeMax; omega)).mono ?_
        intro r lr1 ⟨h1, h2, h3, h4, h5, h6, h7, h8⟩
        refine ⟨by rw [h1]; simp; omega, h2, h3, h4, h5, h6, by simpa using h7, ?_⟩
        have : lr.v.pos + r + 1 ≤ lr1.v.peeked := h8
        exact this
      · subst h
        have hc : (10 :: wsr).count 10 = wsr.count 10 + 1 := by simp
        rw [hc] at hl
        split
        case h_1 heq => exact absurd heq (by decide)
        case h_3 _ hn10 => exact absurd rfl hn10
        refine Wp.bind (Wp.lineAtOffset (by show lr.line + 1 ≤ usizeMax; omega)
          (by show lr.v.pos + (off + 1) ≤ usizeMax; omega) ?_)
        refine (ih f (off + 1) _ x tl hall' h32 h10 (by simpa using hd') (by omega)
          (by show lr.line + 1 + wsr.count 10 ≤ usizeMax; omega)
          (by show lr.v.pos + (off + 1) + wsr.length + 1 ≤ usizeMax; omega)).mono ?_
        intro r lr1 ⟨h1, h2, h3, h4, h5, h6, h7, h8⟩
        refine ⟨by rw [h1]; simp; omega, h2, h3, h4, h5, h6, ?_, ?_⟩
        · rw [hc]; have : lr1.line = lr.line + 1 + wsr.count 10 := h7; omega
        · have : lr.v.pos + r + 1 ≤ lr1.v.peeked := h8
          exact this

/-- `skip_whitespace` in front of a line: exactly the whitespace is consumed. -/
theorem skipWhitespace_ws {lr : LR} (ws : VBytes) {x : UInt8} {tl : VBytes} (hws : ws.all isWs = true)
    (h32 : x ≠ 32) (h10 : x ≠ 10) (hr : lr.v.rest = ws ++ x :: tl)
    (hl : lr.line + ws.count 10 ≤ usizeMax) (hp : lr.v.pos + ws.length + 1 ≤ usizeMax) :
    Wp E skipWhitespace lr (fun _ lr1 => WsDone lr ws lr1) := by
  unfold skipWhitespace
  refine Wp.bind (Wp.get ?_)
  have hlen : lr.v.rest.length = ws.length + (tl.length + 1) := by rw [hr]; simp
  refine Wp.bind' (skipWsLoop_ws ws _ 0 lr x tl hws h32 h10 (by simpa using hr) (by omega) hl (by omega)) ?_
  intro r lr1 ⟨h1, h2, h3, h4, h5, h6, h7, h8⟩
  subst h1
  simp only [Nat.zero_add] at h8 ⊢
  refine Wp.advance (demanded_ge (by rw [h2]; omega) (by rw [h3]; omega)) ?_
  exact ⟨by show lr1.v.rest.drop ws.length = _; rw [h2], by show lr1.v.pos + ws.length = _; rw [h3],
    h4, h5, h6, h7⟩

/-- **`next_line` on `ws ++ write(l) ++ T`** returns `l` and stops behind the line (on its newline,
if it ends in a comment). -/
theorem nextLine_ws_exact {lr : LR} (l : Line) (hwf : l.wf = true) (ws T : VBytes) (hws : ws.all isWs = true)
    (hr : lr.v.rest = ws ++ (writeLine l ++ T)) (h1 : lr.line + ws.count 10 + 1 ≤ usizeMax)
    (h2 : lr.v.pos + lr.v.rest.length ≤ usizeMax) :
    Wp E nextLine lr (fun r lr1 => r = some l ∧
      lr1.v.rest = (if l.endsInComment then [10] else []) ++ T) := by
  obtain ⟨x, tl, hx, h32, h10⟩ := writeLine_head l
  have hlen : lr.v.rest.length = ws.length + ((writeLine l).length + T.length) := by rw [hr]; simp
  have hpos := writeLine_length_pos l
  rw [nextLine_eq]
  refine Wp.bind' (skipWhitespace_ws ws hws h32 h10 (by rw [hr, hx]; rfl) (by omega) (by omega)) ?_
  intro _ lr1 d
  have r1 : lr1.v.rest = writeLine l ++ T := by rw [d.rest, hr]; simp
  refine (nextLineRest_exact l hwf r1 (by rw [d.line]; omega) (by rw [d.pos]; omega)).mono ?_
  intro r lr2 ⟨hres, le⟩
  exact ⟨hres, by rw [le.rest, r1]; exact drop_writeLine l T⟩

/-- The lines collected so far stay in front. -/
theorem driveLines_acc_prefix (fuel : Nat) : ∀ (acc : List Line) (lr : LR),
    acc.reverse <+: (driveLines fuel acc lr).1 := by
  induction fuel with
  | zero => intro acc lr; simp [driveLines]
  | succ fuel ih =>
    intro acc lr
    unfold driveLines
    rcases nextLine.run lr with ⟨r, lr'⟩
    cases r with
    | error e => simp
    | ok o =>
      cases o with
      | none => simp
      | some x =>
        simp only
        refine List.IsPrefix.trans ?_ (ih (x :: acc) lr')
        simp

/-- **Prefix monotonicity for handed-out lines**: `lrA` reads `b` from a failing source, `lrB` reads
`b ++ more` from a source that does not fail, both at the same place. -/
theorem driveLines_prefix (b more : VBytes) (hsize : (b ++ more).length < 2 ^ 62) :
    ∀ (fuelA fuelB : Nat) (acc : List Line) (lrA lrB : LR),
    Inv b true lrA → Inv (b ++ more) false lrB → lrB.v.rest = lrA.v.rest ++ more →
    lrB.v.rest.length < fuelB →
    (driveLines fuelA acc lrA).1 <+: (driveLines fuelB acc lrB).1 := by
  intro fuelA
  induction fuelA with
  | zero => intro fuelB acc lrA lrB _ _ _ _; simpa [driveLines] using driveLines_acc_prefix fuelB acc lrB
  | succ fA ih =>
    intro fuelB acc lrA lrB hA hB hrel hfB
    obtain ⟨okA, _⟩ := (nextLine_ok hA).of_run
    rcases hrunA : nextLine.run lrA with ⟨r, lrA'⟩
    cases r with
    | error e => rw [driveLines, hrunA]; exact driveLines_acc_prefix fuelB acc lrB
    | ok o =>
      cases o with
      | none => rw [driveLines, hrunA]; exact driveLines_acc_prefix fuelB acc lrB
      | some l =>
        rw [driveLines, hrunA]
        simp only
        obtain ⟨⟨iA', _, _⟩, _⟩ := okA (some l) lrA' hrunA
        have hwf : l.wf = true := (nextLine_val (lr := lrA)).of_run.1 (some l) lrA' hrunA l rfl
        obtain ⟨ws, hws, hplain, hcomment⟩ := (nextLine_c (lr := lrA)).of_run.1 (some l) lrA' hrunA l rfl
        -- the same text in front of `lrB`, followed by `T`
        obtain ⟨T, hT, hBtext⟩ : ∃ T, (if l.endsInComment then [10] else []) ++ T = lrA'.v.rest ++ more ∧
            lrB.v.rest = ws ++ (writeLine l ++ T) := by
          cases hc : l.endsInComment with
          | false =>
            have hs := hplain hc
            unfold Step at hs
            exact ⟨lrA'.v.rest ++ more, by simp, by rw [hrel, hs]; simp⟩
          | true =>
            obtain ⟨hs, hend⟩ := hcomment hc
            unfold Step at hs
            rcases hend with h10 | ⟨hnil, hse, hio⟩
            · obtain ⟨R, hR⟩ : ∃ R, lrA'.v.rest = 10 :: R := by
                cases hr : lrA'.v.rest with
                | nil => rw [hr] at h10; simp at h10
                | cons y R => rw [hr] at h10; simp at h10; exact ⟨R, by rw [h10]⟩
              refine ⟨R ++ more, by rw [hR]; simp, ?_⟩
              rw [hrel, hs, hR]; simp [writeLine]
            · -- a failing source whose end was observed has its error parked: not handed out
              have := iA'.finv.1 iA'.fault hse
              rw [hio] at this; exact absurd this (by simp)
        -- `lrB` makes the same step
        obtain ⟨hs1, hs2⟩ := lineAt_le (b ++ more) _ _ hB.online.lineAt
        have hBlen := hB.rest_length
        have hBpos := hB.pos_le
        have hwsl : ws.count 10 ≤ lrB.v.rest.length := by
          have h1 : ws.count 10 ≤ ws.length := List.count_le_length
          have h2 : ws.length ≤ lrB.v.rest.length := by rw [hBtext]; simp
          omega
        obtain ⟨rB, lrB', hrunB, hresB, hrestB⟩ := run_of_wp_false
          (nextLine_ws_exact l hwf ws T hws hBtext (by unfold usizeMax; omega) (by unfold usizeMax; omega))
        subst hresB
        obtain ⟨okB, _⟩ := (nextLine_ok hB).of_run
        obtain ⟨⟨iB', _, hprog⟩, _⟩ := okB (some l) lrB' hrunB
        have hlt := Base.rest_lt hB.toBase iB'.toBase (hprog rfl)
        cases fuelB with
        | zero => omega
        | succ fB =>
          rw [driveLines, hrunB]
          simp only
          exact ih fB (l :: acc) lrA' lrB' iA' iB' (by rw [hrestB, hT]) (by omega)

end Btor2
end Flussab
