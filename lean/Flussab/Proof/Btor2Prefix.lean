/-
Prefix monotonicity of the BTOR2 parser for the lines it hands out (C04): the lines a parse of the
bytes `b` delivered by a FAILING source hands out before it ends (necessarily in an error) are the
first lines of the parse of any extension `b ++ more` from a source that does not fail.

No relational pass over the parser is needed: an accepted line's consumed text is canonical
(`nextLine_c`, `Proof/Btor2Canonical.lean`), it is in the domain of the round trip (`nextLine_val`),
so the round trip (`nextLineRest_exact`) reads it back from the same bytes whatever follows them;
and a line ending in a comment that reaches the end of a failing source's data is never handed out
(F10) — the `FInv` part of the safety invariant.
-/
import Flussab.Proof.Btor2Document
import Flussab.Proof.Btor2Canonical
import Flussab.Proof.Btor2ParserSafe

namespace Flussab
namespace Btor2
open PM

variable {E : PErr → LR → Prop}

/-- The state after `skip_whitespace` has consumed the spaces / newlines `ws`. -/
structure WsDone (lr : LR) (ws : VBytes) (lr1 : LR) : Prop where
  rest : lr1.v.rest = lr.v.rest.drop ws.length
  pos : lr1.v.pos = lr.v.pos + ws.length
  fault : lr1.v.fault = lr.v.fault
  sawEnd : lr1.v.sawEnd = lr.v.sawEnd
  ioErr : lr1.v.ioErr = lr.v.ioErr
  line : lr1.line = lr.line + ws.count 10

theorem getElem?_of_drop {l : VBytes} {off : Nat} {y : UInt8} {ys : VBytes} (h : l.drop off = y :: ys) :
    l[off]? = some y ∧ off < l.length ∧ l.drop (off + 1) = ys := by
  have hlt : off < l.length := by
    by_cases hh : off < l.length
    · exact hh
    · rw [List.drop_eq_nil_of_le (by omega)] at h; simp at h
  rw [List.drop_eq_getElem_cons hlt] at h
  simp only [List.cons.injEq] at h
  exact ⟨by rw [List.getElem?_eq_getElem hlt, h.1], hlt, h.2⟩

/-- The loop of `skip_whitespace` over the remaining whitespace `wsr`, followed by a byte that is
neither a space nor a newline. -/
theorem skipWsLoop_ws : ∀ (wsr : VBytes) (fuel off : Nat) (lr : LR) (x : UInt8) (tl : VBytes),
    wsr.all isWs = true → x ≠ 32 → x ≠ 10 → lr.v.rest.drop off = wsr ++ x :: tl → wsr.length < fuel →
    lr.line + wsr.count 10 ≤ usizeMax → lr.v.pos + off + wsr.length + 1 ≤ usizeMax →
    Wp E (skipWsLoop fuel off) lr (fun r lr1 => r = off + wsr.length ∧ lr1.v.rest = lr.v.rest ∧
      lr1.v.pos = lr.v.pos ∧ lr1.v.fault = lr.v.fault ∧ lr1.v.sawEnd = lr.v.sawEnd ∧
      lr1.v.ioErr = lr.v.ioErr ∧ lr1.line = lr.line + wsr.count 10 ∧ lr.v.pos + r + 1 ≤ lr1.v.peeked) := by
  intro wsr
  induction wsr with
  | nil =>
    intro fuel off lr x tl _ h32 h10 hd hf _ _
    cases fuel with
    | zero => simp at hf
    | succ f =>
      obtain ⟨hx, hlt, _⟩ := getElem?_of_drop (by simpa using hd)
      rw [skipWsLoop]
      refine Wp.bind (Wp.reqAt ?_)
      rw [hx]
      split
      · rename_i heq; simp only [Option.some.injEq] at heq; exact absurd heq h32
      · rename_i heq; simp only [Option.some.injEq] at heq; exact absurd heq h10
      · rw [demand_of_lt lr.v off hlt]
        refine Wp.pure ⟨by simp, rfl, rfl, rfl, rfl, rfl, by simp, ?_⟩
        show lr.v.pos + off + 1 ≤ max lr.v.peeked (lr.v.pos + off + 1)
        omega
  | cons w wsr ih =>
    intro fuel off lr x tl hall h32 h10 hd hf hl hp
    simp only [List.all_cons, Bool.and_eq_true] at hall
    obtain ⟨hw, hall'⟩ := hall
    cases fuel with
    | zero => simp at hf
    | succ f =>
      obtain ⟨hx, hlt, hd'⟩ := getElem?_of_drop (by simpa using hd)
      simp only [List.length_cons] at hf hp
      rw [skipWsLoop]
      refine Wp.bind (Wp.reqAt ?_)
      rw [hx, demand_of_lt lr.v off hlt]
      have hw' : w = 32 ∨ w = 10 := by simpa [isWs] using hw
      rcases hw' with h | h
      · subst h
        split
        case h_2 heq => exact absurd heq (by decide)
        case h_3 hn32 _ => exact absurd rfl hn32
        refine (ih f (off + 1) _ x tl hall' h32 h10 (by simpa using hd') (by omega)
          (by simpa using hl) (by show lr.v.pos + (off + 1) + wsr.length + 1 ≤ usizeMax; omega)).mono ?_
        intro r lr1 ⟨h1, h2, h3, h4, h5, h6, h7, h8⟩
        refine ⟨by rw [h1]; simp; omega, h2, h3, h4, h5, h6, by simpa using h7, ?_⟩
        have : lr.v.pos + r + 1 ≤ lr1.v.peeked := h8
        exact this
      · subst h
        have hc : (10 :: wsr).count 10 = wsr.count 10 + 1 := by simp
        rw [hc] at hl
        split
        case h_1 heq => exact absurd heq (by decide)
        case h_3 _ hn10 => exact absurd rfl hn10
        refine Wp.bind (Wp.lineAtOffset (by show lr.line + 1 ≤ usizeMax; omega)
          (by show lr.v.pos + (off + 1) ≤ usizeMax; omega) ?_)
        refine (ih f (off + 1) _ x tl hall' h32 h10 (by simpa using hd') (by omega)
          (by show lr.line + 1 + wsr.count 10 ≤ usizeMax; omega)
          (by show lr.v.pos + (off + 1) + wsr.length + 1 ≤ usizeMax; omega)).mono ?_
        intro r lr1 ⟨h1, h2, h3, h4, h5, h6, h7, h8⟩
        refine ⟨by rw [h1]; simp; omega, h2, h3, h4, h5, h6, ?_, ?_⟩
        · rw [hc]; have : lr1.line = lr.line + 1 + wsr.count 10 := h7; omega
        · have : lr.v.pos + r + 1 ≤ lr1.v.peeked := h8
          exact this

/-- `skip_whitespace` in front of a line: exactly the whitespace is consumed. -/
theorem skipWhitespace_ws {lr : LR} (ws : VBytes) {x : UInt8} {tl : VBytes} (hws : ws.all isWs = true)
    (h32 : x ≠ 32) (h10 : x ≠ 10) (hr : lr.v.rest = ws ++ x :: tl)
    (hl : lr.line + ws.count 10 ≤ usizeMax) (hp : lr.v.pos + ws.length + 1 ≤ usizeMax) :
    Wp E skipWhitespace lr (fun _ lr1 => WsDone lr ws lr1) := by
  unfold skipWhitespace
  refine Wp.bind (Wp.get ?_)
  have hlen : lr.v.rest.length = ws.length + (tl.length + 1) := by rw [hr]; simp
  refine Wp.bind' (skipWsLoop_ws ws _ 0 lr x tl hws h32 h10 (by simpa using hr) (by omega) hl (by omega)) ?_
  intro r lr1 ⟨h1, h2, h3, h4, h5, h6, h7, h8⟩
  subst h1
  simp only [Nat.zero_add] at h8 ⊢
  refine Wp.advance (demanded_ge (by rw [h2]; omega) (by rw [h3]; omega)) ?_
  exact ⟨by show lr1.v.rest.drop ws.length = _; rw [h2], by show lr1.v.pos + ws.length = _; rw [h3],
    h4, h5, h6, h7⟩

/-- **`next_line` on `ws ++ write(l) ++ T`** returns `l` and stops behind the line (on its newline,
if it ends in a comment). -/
theorem nextLine_ws_exact {lr : LR} (l : Line) (hwf : l.wf = true) (ws T : VBytes) (hws : ws.all isWs = true)
    (hr : lr.v.rest = ws ++ (writeLine l ++ T)) (h1 : lr.line + ws.count 10 + 1 ≤ usizeMax)
    (h2 : lr.v.pos + lr.v.rest.length ≤ usizeMax) :
    Wp E nextLine lr (fun r lr1 => r = some l ∧
      lr1.v.rest = (if l.endsInComment then [10] else []) ++ T) := by
  obtain ⟨x, tl, hx, h32, h10⟩ := writeLine_head l
  have hlen : lr.v.rest.length = ws.length + ((writeLine l).length + T.length) := by rw [hr]; simp
  have hpos := writeLine_length_pos l
  rw [nextLine_eq]
  refine Wp.bind' (skipWhitespace_ws ws hws h32 h10 (by rw [hr, hx]; rfl) (by omega) (by omega)) ?_
  intro _ lr1 d
  have r1 : lr1.v.rest = writeLine l ++ T := by rw [d.rest, hr]; simp
  refine (nextLineRest_exact l hwf r1 (by rw [d.line]; omega) (by rw [d.pos]; omega)).mono ?_
  intro r lr2 ⟨hres, le⟩
  exact ⟨hres, by rw [le.rest, r1]; exact drop_writeLine l T⟩

end Btor2
end Flussab
