/-
Proofs of the tie between the generated SAT-solver-log parser (`Gen/SatLogGen.lean`, from
`flussab-cnf/src/sat_solver_log.rs`: `parse_log`, `Config::ignore_unknown_lines`) and `Model/Cnf.lean`
(`Cnf.parseLog`, `logLoop`, `strictCommentLoop`, `valueLoop`).  Statements: `Props/TieSatLog.lean`.

Method.  The generated loops return a `Ctl` (`brk` locals / `fuel` / `ret`); the caller turns `Ctl.fuel` into
`rpanic "fuel"` (`fuel_panic` of the unit = the model's out-of-fuel value), and the unit gives every loop the
fuel expression of the model's loop.  Each loop lemma is therefore stated *fuel for fuel* and *for every
continuation* `K` that maps `Ctl.fuel` to `rpanic "fuel"`:
    `loopN … n locals >>= K  =  modelLoop n st >>= fun st' => K (Ctl.brk (locals of st'))`
(induction on `n`; no termination argument, and `Ctl.ret` — which no loop of `parse_log` produces, every
`return Err(..)` being a thrown error — never has to be looked at).  The Rust locals correspond to the model's
`Cnf.LogState` by `tup`: `(satisfiable, assignment, assignment_started, assignment_finished) =
(st.satisfiable, st.assignment.reverse, st.started, st.finished)` (the model conses, Rust pushes).

The body of the outer loop is one `do` block whose join points `simp` inlines (the code after the
`if … else if …` chain and after each `cond && token(..).matches()?` is copied into every branch); the proof
follows the branches in the order the code tests them, with the shared tails as local tactic macros
(`ep_tac`: end of file / unknown line, `sp_tac`: solution line and what follows, `sol_tail`: end of a solution
line).  Every branch is closed by `pm_bind_congr` steps and `cases` on the token results; the whole file checks
in a few seconds.
-/
import Flussab.Gen.SatLogGen
import Flussab.Proof.TieCnfToken

set_option linter.unusedSimpArgs false

namespace Flussab
namespace TieSatLogAux
open PM TieCnfTokenAux Gen.SatLog

variable {β : Type}

theorem rpanic_bind {α β : Type} (s : String) (f : α → PM β) : ((rpanic s : PM α) >>= f) = rpanic s := by
  funext lr; rw [bind_apply]; rfl

theorem pm_bind_congr {α β : Type} {x : PM α} {f g : α → PM β} (h : ∀ a, f a = g a) :
    (x >>= f) = (x >>= g) := by
  have : f = g := funext h
  rw [this]

theorem loop2_bind (l : Cnf.LitTy) (n : Nat) :
    ∀ (K : Ctl Unit Cnf.SolverLog → PM β), K Ctl.fuel = rpanic "fuel" →
      (parseLog.loop2 l n () >>= K) = (Cnf.strictCommentLoop n >>= fun _ => K (Ctl.brk ())) := by
  induction n with
  | zero =>
    intro K hK
    rw [parseLog.loop2, Cnf.strictCommentLoop, pure_bind, hK, rpanic_bind]
  | succ n ih =>
    intro K hK
    rw [parseLog.loop2, Cnf.strictCommentLoop]
    simp only [«matches», bind_assoc, pure_bind]
    apply pm_bind_congr; intro t1
    cases t1 with
    | none => simp
    | some u => simp [ih K hK]
theorem litInt_eq_m :
    (Cnf.int Cnf.isizeTy >>= fun t =>
        CnfTokenExt.mapErr t fun _ => (Cnf.exceedsVarCount : PM (Option Int))) = Cnf.litInt := by
  unfold Cnf.litInt CnfTokenExt.mapErr
  apply pm_bind_congr; intro o
  rcases o with _ | (_ | v) <;> rfl

theorem loop3_bind (l : Cnf.LitTy) (n : Nat) :
    ∀ (st : Cnf.LogState) (K : Ctl (List Int × Bool) Cnf.SolverLog → PM β) (K' : Cnf.LogState → PM β),
      K Ctl.fuel = rpanic "fuel" →
      (∀ a f, K' { st with assignment := a, finished := f } = K (Ctl.brk (a.reverse, f))) →
      (parseLog.loop3 l n (st.assignment.reverse, st.finished) >>= K) = (Cnf.valueLoop l n st >>= K') := by
  induction n with
  | zero =>
    intro st K K' hK hK'
    rw [parseLog.loop3, Cnf.valueLoop, pure_bind, hK, rpanic_bind]
  | succ n ih =>
    intro st K K' hK hK'
    rw [parseLog.loop3, Cnf.valueLoop, ← litInt_eq_m]
    simp only [bind_assoc, pure_bind]
    apply pm_bind_congr; intro _
    apply pm_bind_congr; intro t6
    apply pm_bind_congr; intro t7
    cases t7 with
    | none =>
      simp only [pure_bind]
      exact (hK' st.assignment st.finished).symm
    | some lit =>
      by_cases h0 : lit = 0
      · subst h0
        simp only [BEq.rfl, if_true, pure_bind]
        exact (hK' st.assignment true).symm
      · have e0' : (lit == 0) = false := by simpa using h0
        simp only [e0', Bool.false_eq_true, if_false]
        by_cases hr : -l.maxDimacs ≤ lit ∧ lit ≤ l.maxDimacs
        · have hd : (decide (-l.maxDimacs ≤ lit) && decide (lit ≤ l.maxDimacs)) = true := by simp [hr]
          rw [if_pos hr]
          simp only [hd, if_true, pure_bind, bind_assoc]
          have := ih { st with assignment := l.fromDimacs lit :: st.assignment } K K' hK (fun a f => hK' a f)
          simp only [List.reverse_cons] at this
          exact this
        · have hd : (decide (-l.maxDimacs ≤ lit) && decide (lit ≤ l.maxDimacs)) = false := by
            by_cases h1 : -l.maxDimacs ≤ lit
            · have h2 : ¬ lit ≤ l.maxDimacs := fun h => hr ⟨h1, h⟩
              simp [h1, h2]
            · simp [h1]
          rw [if_neg hr]
          simp only [hd, Bool.false_eq_true, if_false, exceedsVarCount_bind, bind_assoc]

/-- The Rust locals `(satisfiable, assignment, assignment_started, assignment_finished)` of a model state. -/
@[reducible] def tup (st : Cnf.LogState) : Option (Option Bool) × List Int × Bool × Bool :=
  (st.satisfiable, st.assignment.reverse, st.started, st.finished)

set_option hygiene false in
/-- the end-of-file / unknown-line alternatives of the outer loop (the goal after the `v ` and `s ` alternatives) -/
local macro "ep_tac" : tactic => `(tactic| (
  simp only [bind_assoc, «matches», pure_bind]
  apply pm_bind_congr; intro t24
  cases t24
  · simp only [Option.isSome_none, Bool.false_eq_true, if_false]
    by_cases hign : cfg.ignoreUnknownLines = true
    · rw [if_pos hign, if_pos hign]
      simp only [«matches», bind_assoc, pure_bind]
      apply pm_bind_congr; intro t25
      cases t25
      · simp only [Option.isSome_none, Bool.false_eq_true, if_false, unexpected_bind]
      · simp only [Option.isSome_some, if_true]
        exact ih ⟨_, _, _, _⟩ K hK
    · rw [if_neg hign, if_neg hign]
      simp only [pure_bind, Bool.false_eq_true, if_false, unexpected_bind]
  · simp only [Option.isSome_some, if_true]
    cases started <;> simp [unexpected_bind]))

set_option hygiene false in
/-- after one of the three words of a solution line has matched: end of line, then the next iteration -/
local macro "sol_tail" : tactic => `(tactic| (
  simp only [Option.map_some, Option.map_none, CnfTokenExt.orParse, CnfTokenExt.andAlso, CnfTokenExt.orGiveUp,
    bind_assoc, pure_bind]
  apply pm_bind_congr; intro t20
  cases t20
  · simp only [unexpected_bind]
  · simp only [pure_bind]
    exact ih ⟨_, _, _, _⟩ K hK))

set_option hygiene false in
/-- the `s ` alternative and what follows it -/
local macro "sp_tac" : tactic => `(tactic| (
  cases sat
  · simp only [Option.isNone_none, if_true, bind_assoc, «matches», pure_bind]
    apply pm_bind_congr; intro t13
    cases t13
    · simp only [Option.isSome_none, Bool.false_eq_true, if_false]
      ep_tac
    · simp only [Option.isSome_some, if_true, bind_assoc, PM.orGiveUp, PM.orParse, pure_bind]
      apply pm_bind_congr; intro t15
      cases t15
      · simp only [Option.map_none, CnfTokenExt.orParse, bind_assoc, pure_bind]
        apply pm_bind_congr; intro t16
        cases t16
        · simp only [Option.map_none, CnfTokenExt.orParse, bind_assoc, pure_bind]
          apply pm_bind_congr; intro t18
          cases t18
          · simp only [Option.map_none, CnfTokenExt.andAlso, CnfTokenExt.orGiveUp, bind_assoc, pure_bind,
              unexpected_bind]
          · sol_tail
        · sol_tail
      · sol_tail
  · simp only [Option.isNone_some, Bool.false_eq_true, if_false]
    ep_tac))

theorem loop1_bind (l : Cnf.LitTy) (cfg : SatLogExt.Config) (n : Nat) :
    ∀ (st : Cnf.LogState) (K : Ctl (Option (Option Bool) × List Int × Bool × Bool) Cnf.SolverLog → PM β),
      K Ctl.fuel = rpanic "fuel" →
      (parseLog.loop1 l cfg n (tup st) >>= K) =
        (Cnf.logLoop l cfg.ignoreUnknownLines n st >>= fun st' => K (Ctl.brk (tup st'))) := by
  induction n with
  | zero =>
    intro st K hK
    rw [parseLog.loop1, Cnf.logLoop, pure_bind, hK, rpanic_bind]
  | succ n ih =>
    intro st K hK
    rcases st with ⟨sat, asg, started, fin⟩
    rw [parseLog.loop1, Cnf.logLoop]
    simp only [PMExt.getLR, bind_assoc, pure_bind]
    apply pm_bind_congr; intro lr
    refine (loop2_bind l _ _ ?_).trans ?_
    · simp only [rpanic_bind]
    apply pm_bind_congr; intro _
    dsimp only
    cases fin
    · simp only [Bool.not_false, if_true, «matches», bind_assoc, pure_bind]
      apply pm_bind_congr; intro t3
      cases t3
      · simp only [Option.isSome_none, Bool.false_eq_true, if_false]
        sp_tac
      · simp only [Option.isSome_some, if_true, bind_assoc]
        apply pm_bind_congr; intro _
        apply pm_bind_congr; intro lr2
        refine loop3_bind l _ ⟨sat, asg, true, false⟩ _ _ ?_ ?_
        · simp only [rpanic_bind]
        · intro a f
          simp only [PM.orGiveUp, CnfTokenExt.orGiveUp, bind_assoc]
          apply pm_bind_congr; intro t11
          cases t11
          · simp only [unexpected_bind]
          · simp only [pure_bind]
            exact (ih ⟨_, _, _, _⟩ K hK).symm
    · simp only [Bool.not_true, Bool.false_eq_true, if_false, pure_bind]
      sp_tac

theorem parseLog_eq (l : Cnf.LitTy) (cfg : SatLogExt.Config) :
    Gen.SatLog.parseLog l cfg = Cnf.parseLog l cfg.ignoreUnknownLines := by
  unfold Gen.SatLog.parseLog Cnf.parseLog
  simp only [PMExt.getLR, bind_assoc, pure_bind]
  apply pm_bind_congr; intro lr
  refine (loop1_bind l cfg _ ⟨none, [], false, false⟩ _ ?_).trans ?_
  · simp only [rpanic_bind]
  · rfl

theorem ignoreUnknownLines_eq (c : SatLogExt.Config) (v : Bool) :
    Gen.SatLog.ignoreUnknownLines c v = pure { c with ignoreUnknownLines := v } := rfl

end TieSatLogAux
end Flussab
