/-
UTF-8 validation, the direction needed by the converse of the AIGER round trip: the scan can be
read one sequence at a time (`validUtf8_step`), and a newline at the end of a valid text can be
taken off again (`validUtf8_of_append_lf`) — `remaining_file_content` validates the comment
*including* its final newline and returns it without.
-/
import Flussab.Proof.AigerUtf8

namespace Flussab
namespace Aiger

/-- One step of the scan. -/
theorem utf8ValidUpTo_cons_step (x : UInt8) (xs : VBytes) (h0 : utf8SeqLen (x :: xs) ≠ 0) :
    utf8ValidUpTo (x :: xs) =
      utf8ValidUpTo ((x :: xs).drop (utf8SeqLen (x :: xs))) + utf8SeqLen (x :: xs) := by
  have hle := utf8SeqLen_le (x :: xs)
  simp only [List.length_cons] at hle
  unfold utf8ValidUpTo
  simp only [List.length_cons]
  rw [utf8Aux_step _ _ _ h0, Nat.zero_add]
  have h1 := utf8Aux_shift xs.length ((x :: xs).drop (utf8SeqLen (x :: xs))) 0 (utf8SeqLen (x :: xs))
  rw [Nat.zero_add] at h1
  rw [h1]
  have h2 := utf8Aux_fuel xs.length ((x :: xs).drop (utf8SeqLen (x :: xs))).length
    ((x :: xs).drop (utf8SeqLen (x :: xs))) 0
    (by simp only [List.length_drop, List.length_cons]; omega) (Nat.le_refl _)
  rw [h2]

theorem utf8ValidUpTo_cons_zero (x : UInt8) (xs : VBytes) (h0 : utf8SeqLen (x :: xs) = 0) :
    utf8ValidUpTo (x :: xs) = 0 := by
  unfold utf8ValidUpTo
  simp only [List.length_cons]
  rw [utf8ValidUpToAux]
  simp [h0]

/-- A non-empty text is valid iff it starts with a well-formed sequence and the rest is valid. -/
theorem validUtf8_step (a : VBytes) (hne : a ≠ []) :
    validUtf8 a = true ↔ (0 < utf8SeqLen a ∧ validUtf8 (a.drop (utf8SeqLen a)) = true) := by
  cases a with
  | nil => exact absurd rfl hne
  | cons x xs =>
    have hle := utf8SeqLen_le (x :: xs)
    by_cases h0 : utf8SeqLen (x :: xs) = 0
    · unfold validUtf8
      rw [utf8ValidUpTo_cons_zero x xs h0]
      simp [h0]
    · unfold validUtf8
      rw [utf8ValidUpTo_cons_step x xs h0]
      simp only [beq_iff_eq, List.length_drop]
      simp only [List.length_cons] at hle ⊢
      omega

/-- The line feed is neither a lead byte of a longer sequence nor a continuation byte: a
well-formed sequence at the front of `a ++ "\n"` lies inside `a`. -/
theorem utf8SeqLen_of_append_lf (a : VBytes) (hne : a ≠ []) (h : 0 < utf8SeqLen (a ++ [10])) :
    utf8SeqLen a = utf8SeqLen (a ++ [10]) := by
  rcases a with _ | ⟨b0, _ | ⟨b1, _ | ⟨b2, _ | ⟨b3, r⟩⟩⟩⟩
  · exact absurd rfl hne
  all_goals
    simp only [utf8SeqLen, List.cons_append, List.nil_append] at h ⊢
    repeat' split at h
    all_goals first
      | omega
      | (simp_all [isCont])
      | (split <;> simp_all [isCont])

theorem validUtf8_of_append_lf_aux : ∀ (n : Nat) (a : VBytes), a.length = n →
    validUtf8 (a ++ [10]) = true → validUtf8 a = true := by
  intro n
  induction n using Nat.strongRecOn with
  | _ n ih =>
    intro a hn hv
    by_cases hne : a = []
    · subst hne; decide
    · obtain ⟨hk, hrest⟩ := (validUtf8_step (a ++ [10]) (by simp)).mp hv
      have hsl := utf8SeqLen_of_append_lf a hne hk
      have hle := utf8SeqLen_le a
      rw [← hsl] at hk hrest
      rw [List.drop_append_of_le_length hle] at hrest
      have := ih (a.drop (utf8SeqLen a)).length (by simp only [List.length_drop]; omega) _ rfl hrest
      exact (validUtf8_step a hne).mpr ⟨hk, this⟩

/-- **A final newline can be taken off a valid text.** -/
theorem validUtf8_of_append_lf (a : VBytes) (h : validUtf8 (a ++ [10]) = true) : validUtf8 a = true :=
  validUtf8_of_append_lf_aux a.length a rfl h

/-- The form in which `remaining_file_content` needs it: the bytes up to the end of the file are
valid and end in a newline (or there are none); all but the last byte are valid. -/
theorem validUtf8_take_pred (bs : VBytes) (hv : validUtf8 bs = true)
    (hl : bs.getLast? = some 10 ∨ bs = []) : validUtf8 (bs.take (bs.length - 1)) = true := by
  rcases hl with hl | hl
  · obtain ⟨ys, hys⟩ : ∃ ys, bs = ys ++ [10] := by
      rcases List.eq_nil_or_concat bs with h | ⟨L, b, h⟩
      · rw [h] at hl; simp at hl
      · rw [List.concat_eq_append] at h
        rw [h] at hl
        simp at hl
        exact ⟨L, by rw [h, hl]⟩
    subst hys
    have : (ys ++ [10]).take ((ys ++ [10]).length - 1) = ys := by simp
    rw [this]
    exact validUtf8_of_append_lf ys hv
  · subst hl; decide

end Aiger
end Flussab
