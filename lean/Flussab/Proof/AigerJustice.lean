/-
The justice distribution loop of `parse()` (`Model/Aiger.lean`, `justiceLitsLoop`): the index
arithmetic `justice_properties[jp]` / `justice_property_sizes[jp]` never goes out of bounds, and at
the end every justice property has exactly the size its size line declared.

Invariant: `js` (the vectors so far) and `sizes` have the same length; no vector is over-full; all
vectors before the cursor `jp` are full; and the total deficit equals the number of literals still
to be read (`left`).
-/
import Flussab.Proof.AigerSafe

namespace Flussab
namespace Aiger
open PM Lines

/-- Number of literals still missing. -/
def deficit : List (List Nat) → List Nat → Nat
  | j :: js, sz :: sizes => (sz - j.length) + deficit js sizes
  | _, _ => 0

structure JInv (js : List (List Nat)) (sizes : List Nat) (jp left : Nat) : Prop where
  len : js.length = sizes.length
  le : ∀ (i : Nat) (j : List Nat) (sz : Nat), js[i]? = some j → sizes[i]? = some sz → j.length ≤ sz
  full : ∀ (i : Nat) (j : List Nat) (sz : Nat), i < jp → js[i]? = some j → sizes[i]? = some sz → j.length = sz
  def_ : deficit js sizes = left

theorem deficit_zero_of_full (js : List (List Nat)) (sizes : List Nat)
    (h : ∀ (i : Nat) (j : List Nat) (sz : Nat), js[i]? = some j → sizes[i]? = some sz → j.length = sz) : deficit js sizes = 0 := by
  induction js generalizing sizes with
  | nil => rfl
  | cons j js ih =>
    cases sizes with
    | nil => rfl
    | cons sz sizes =>
      have h0 := h 0 j sz rfl rfl
      have := ih sizes (fun i j' sz' hj hs => h (i + 1) j' sz' (by simpa using hj) (by simpa using hs))
      simp only [deficit, this, h0]
      omega

theorem full_of_deficit_zero (js : List (List Nat)) (sizes : List Nat) (hlen : js.length = sizes.length)
    (hle : ∀ (i : Nat) (j : List Nat) (sz : Nat), js[i]? = some j → sizes[i]? = some sz → j.length ≤ sz)
    (h0 : deficit js sizes = 0) : js.map List.length = sizes := by
  induction js generalizing sizes with
  | nil =>
    cases sizes with
    | nil => rfl
    | cons _ _ => simp at hlen
  | cons j js ih =>
    cases sizes with
    | nil => simp at hlen
    | cons sz sizes =>
      simp only [deficit] at h0
      have hj := hle 0 j sz rfl rfl
      have := ih sizes (by simpa using hlen)
        (fun i j' sz' hj hs => hle (i + 1) j' sz' (by simpa using hj) (by simpa using hs)) (by omega)
      simp only [List.map_cons, this]
      congr 1
      omega

theorem deficit_modify (js : List (List Nat)) (sizes : List Nat) (i c : Nat) (j : List Nat) (sz : Nat)
    (hj : js[i]? = some j) (hs : sizes[i]? = some sz) (hlt : j.length < sz) :
    deficit (js.modify i (· ++ [c])) sizes + 1 = deficit js sizes := by
  induction js generalizing sizes i with
  | nil => simp at hj
  | cons j0 js ih =>
    cases sizes with
    | nil => simp at hs
    | cons sz0 sizes =>
      cases i with
      | zero =>
        simp only [List.getElem?_cons_zero, Option.some.injEq] at hj hs
        subst hj hs
        simp only [List.modify_zero_cons, deficit, List.length_append, List.length_singleton]
        omega
      | succ i =>
        simp only [List.getElem?_cons_succ] at hj hs
        simp only [List.modify_succ_cons, deficit]
        have := ih sizes i hj hs
        omega

/-- `justiceSeek` finds the first property at or behind the cursor that is not yet full — there
is one, because literals are still outstanding. -/
theorem justiceSeek_some (js : List (List Nat)) (sizes : List Nat) (left : Nat) (hpos : 0 < left) :
    ∀ (n jp fuel : Nat), js.length - jp ≤ n → n < fuel → JInv js sizes jp left →
      ∃ jp', justiceSeek js sizes fuel jp = some jp' ∧ JInv js sizes jp' left ∧
        ∃ j sz, js[jp']? = some j ∧ sizes[jp']? = some sz ∧ j.length < sz := by
  intro n
  induction n with
  | zero =>
    intro jp fuel hn _ hi
    have : deficit js sizes = 0 := deficit_zero_of_full js sizes (fun i j sz hj hs =>
      hi.full i j sz (by have := (List.getElem?_eq_some_iff.mp hj).1; omega) hj hs)
    rw [hi.def_] at this
    omega
  | succ n ih =>
    intro jp fuel hn hf hi
    by_cases hjp : js.length ≤ jp
    · have : deficit js sizes = 0 := deficit_zero_of_full js sizes (fun i j sz hj hs =>
        hi.full i j sz (by have := (List.getElem?_eq_some_iff.mp hj).1; omega) hj hs)
      rw [hi.def_] at this
      omega
    · have hlt : jp < js.length := by omega
      have hlt' : jp < sizes.length := by rw [← hi.len]; exact hlt
      cases fuel with
      | zero => omega
      | succ fuel =>
        unfold justiceSeek
        have hj : js[jp]? = some js[jp] := List.getElem?_eq_getElem hlt
        have hs : sizes[jp]? = some sizes[jp] := List.getElem?_eq_getElem hlt'
        simp only [hj, hs]
        by_cases heq : js[jp].length = sizes[jp]
        · simp only [heq, beq_self_eq_true, ↓reduceIte]
          refine ih (jp + 1) fuel (by omega) (by omega) ⟨hi.len, hi.le, ?_, hi.def_⟩
          intro i j sz hlt1 hj1 hs1
          by_cases hi1 : i < jp
          · exact hi.full i j sz hi1 hj1 hs1
          · have : i = jp := by omega
            subst this
            rw [hj] at hj1; rw [hs] at hs1
            cases hj1; cases hs1
            exact heq
        · have hne : (js[jp].length == sizes[jp]) = false := by simpa using heq
          simp only [hne, Bool.false_eq_true, ↓reduceIte]
          have := hi.le jp _ _ hj hs
          exact ⟨jp, rfl, hi, js[jp], sizes[jp], hj, hs, by omega⟩

/-- One more literal stored at `jp'`. -/
theorem JInv.push {js : List (List Nat)} {sizes : List Nat} {jp left : Nat} (hi : JInv js sizes jp (left + 1))
    (c : Nat) (j : List Nat) (sz : Nat) (hj : js[jp]? = some j) (hs : sizes[jp]? = some sz)
    (hlt : j.length < sz) : JInv (js.modify jp (· ++ [c])) sizes jp left := by
  refine ⟨by rw [List.length_modify]; exact hi.len, ?_, ?_, ?_⟩
  · intro i j' sz' hj' hs'
    rw [List.getElem?_modify] at hj'
    cases hji : js[i]? with
    | none => rw [hji] at hj'; simp at hj'
    | some j0 =>
      rw [hji] at hj'
      simp only [Option.map_eq_map, Option.map_some, Option.some.injEq] at hj'
      by_cases hjp : jp = i
      · subst hjp
        simp only [↓reduceIte] at hj'
        rw [hj] at hji; cases hji
        rw [hs] at hs'; cases hs'
        rw [← hj']; simp only [List.length_append, List.length_singleton]; omega
      · simp only [hjp, ↓reduceIte] at hj'
        subst hj'
        exact hi.le i _ sz' hji hs'
  · intro i j' sz' hlt1 hj' hs'
    rw [List.getElem?_modify] at hj'
    cases hji : js[i]? with
    | none => rw [hji] at hj'; simp at hj'
    | some j0 =>
      rw [hji] at hj'
      have hjp : ¬ jp = i := by omega
      simp only [Option.map_eq_map, Option.map_some, hjp, ↓reduceIte, Option.some.injEq] at hj'
      subst hj'
      exact hi.full i _ sz' hlt1 hji hs'
  · have := deficit_modify js sizes jp c j sz hj hs hlt
    have := hi.def_
    omega

theorem jinv_init (sizes : List Nat) : JInv (sizes.map fun _ => []) sizes 0 sizes.sum := by
  refine ⟨by simp, ?_, fun i _ _ h => by omega, ?_⟩
  · intro i j sz hj _
    simp only [List.getElem?_map] at hj
    cases hs : sizes[i]? with
    | none => rw [hs] at hj; simp at hj
    | some _ => rw [hs] at hj; simp at hj; subst hj; simp
  · induction sizes with
    | nil => rfl
    | cons sz sizes ih => simp only [List.map_cons, deficit, List.length_nil, List.sum_cons, ih]; omega

variable {b : VBytes} {f : Bool}

/-- The distribution loop never panics (no index out of bounds, fuel suffices), and it ends with
every justice property at its declared size. -/
theorem justiceLitsLoop_ok (sizes : List Nat) :
    ∀ (fuel : Nat) (s : St) (js : List (List Nat)) (jp : Nat) (lr : LR), Inv b f lr → SInv s →
      s.left < fuel → JInv js sizes jp s.left →
      Wp (Err b f) (justiceLitsLoop sizes fuel s js jp) lr (fun r lr1 => Inv b f lr1 ∧ SInv r.2 ∧
        lr.v.pos ≤ lr1.v.pos ∧ r.1.map List.length = sizes) := by
  intro fuel
  induction fuel with
  | zero => intro s js jp lr _ _ hf; omega
  | succ fuel ih =>
    intro s js jp lr h hs hf hi
    unfold justiceLitsLoop
    refine Wp.bind' (nextLit_ok false b f s lr h hs) ?_
    intro r lr1 ⟨i1, s1, p1, hr⟩
    obtain ⟨o, s'⟩ := r
    cases o with
    | none =>
      simp only at hr ⊢
      obtain ⟨hr, hl0⟩ := hr
      subst hr
      refine Wp.pure ⟨i1, s1, p1, ?_⟩
      exact full_of_deficit_zero js sizes hi.len hi.le (by rw [hi.def_, hl0])
    | some c =>
      simp only at hr s1 ⊢
      have hleft : s.left = s'.left + 1 := hr.symm
      rw [hleft] at hi
      obtain ⟨jp', hseek, hi', j, sz, hj, hsz, hlt⟩ :=
        justiceSeek_some js sizes (s'.left + 1) (by omega) (js.length - jp) jp (js.length + 1)
          (Nat.le_refl _) (by omega) hi
      simp only [hseek]
      refine (ih s' _ jp' lr1 i1 s1 (by omega) (hi'.push c j sz hj hsz hlt)).mono ?_
      intro r lr2 ⟨i2, s2, p2, hm⟩
      exact ⟨i2, s2, by omega, hm⟩

end Aiger
end Flussab

namespace Flussab
namespace Aiger
open PM Lines

/-- Whenever the distribution loop returns, every justice property has its declared size (no
assumption on the reader state). -/
theorem justiceLitsLoop_sizes (sizes : List Nat) :
    ∀ (fuel : Nat) (s : St) (js : List (List Nat)) (jp : Nat), JInv js sizes jp s.left →
      Post (justiceLitsLoop sizes fuel s js jp) (fun r => r.1.map List.length = sizes) := by
  intro fuel
  induction fuel with
  | zero => intro s js jp _; unfold justiceLitsLoop; exact Post.of_fails (fails_rpanic _)
  | succ fuel ih =>
    intro s js jp hi
    unfold justiceLitsLoop
    refine Post.bind (nextLit_spec false s) fun r hr => ?_
    obtain ⟨o, s'⟩ := r
    cases o with
    | none =>
      simp only at hr ⊢
      obtain ⟨h0, hs⟩ := hr
      subst hs
      exact Post.pure (full_of_deficit_zero js sizes hi.len hi.le (by rw [hi.def_, h0]))
    | some c =>
      simp only at hr ⊢
      obtain ⟨_, hl, _, _⟩ := hr
      have hleft : s.left = s'.left + 1 := hl.symm
      rw [hleft] at hi
      obtain ⟨jp', hseek, hi', j, sz, hj, hsz, hlt⟩ :=
        justiceSeek_some js sizes (s'.left + 1) (by omega) (js.length - jp) jp (js.length + 1)
          (Nat.le_refl _) (by omega) hi
      simp only [hseek]
      exact ih s' _ jp' (hi'.push c j sz hj hsz hlt)

variable {b : VBytes} {f : Bool} {lr : LR}

/-! ### whole-file `parse()` of the ASCII format -/

/-- `whileSome` with both the safety and the value-level facts. -/
theorem whileSome_both {α : Type} {next : St → PM (Option α × St)} {P : Nat → LitTy → α → Prop}
    {w : α → Nat} (hok : StepOk next) (hspec : StepSpec P w next) (s : St) (h : Inv b f lr)
    (hs : SInv s) :
    Wp (Err b f) (whileSome next (s.left + 1) s []) lr (fun r lr1 => Inv b f lr1 ∧ SInv r.2 ∧
      lr.v.pos ≤ lr1.v.pos ∧ Drained P w s r.1 r.2) := by
  refine (wp_andPost (whileSome_ok hok _ s [] lr h hs (by omega)) (whileSome_spec hspec _ s [])).mono ?_
  rintro ⟨xs, s'⟩ lr1 ⟨⟨i1, s1, p1⟩, ys, hy, hd⟩
  simp only [List.reverse_nil, List.nil_append] at hy
  subst hy
  exact ⟨i1, s1, p1, hd⟩

theorem parseMid_ok (s : St) (h : Inv b f lr) (hs : SInv s) :
    Wp (Err b f) (parseMid s) lr (fun r lr1 => Inv b f lr1 ∧ SInv r.2 ∧ r.2.p.bin = s.p.bin) := by
  unfold parseMid
  refine Wp.bind' (toOutputs_ok s h hs) ?_
  intro s1 lr1 ⟨i1, q1, _, b1⟩
  refine Wp.bind' (whileSome_both (nextLit_ok false) (nextLit_spec false) s1 i1 q1) ?_
  rintro ⟨outputs, s2⟩ lr2 ⟨i2, q2, _, d2⟩
  dsimp only at q2 d2 ⊢
  refine Wp.bind' (toBad_ok s2 i2 q2) ?_
  intro s3 lr3 ⟨i3, q3, _, b3⟩
  refine Wp.bind' (whileSome_both (nextLit_ok false) (nextLit_spec false) s3 i3 q3) ?_
  rintro ⟨bad, s4⟩ lr4 ⟨i4, q4, _, d4⟩
  dsimp only at q4 d4 ⊢
  refine Wp.bind' (toConstraints_ok s4 i4 q4) ?_
  intro s5 lr5 ⟨i5, q5, _, b5⟩
  refine Wp.bind' (whileSome_both (nextLit_ok false) (nextLit_spec false) s5 i5 q5) ?_
  rintro ⟨constraints, s6⟩ lr6 ⟨i6, q6, _, d6⟩
  dsimp only at q6 d6 ⊢
  refine Wp.bind' (wp_andPost (toJusticeSizes_ok s6 i6 q6) (toJusticeSizes_post s6)) ?_
  intro s7 lr7 ⟨⟨i7, q7, _, b7⟩, _, _, t7⟩
  refine Wp.bind' (whileSome_both nextJusticeSize_ok nextJusticeSize_spec s7 i7 q7) ?_
  rintro ⟨sizes, s8⟩ lr8 ⟨i8, q8, _, d8⟩
  dsimp only at q8 d8 ⊢
  refine Wp.bind' (wp_andPost (toJusticeLits_ok s8 i8 q8) (toJusticeLits_post s8)) ?_
  intro s9 lr9 ⟨⟨i9, q9, _, b9⟩, _, l9⟩
  have hleft : s9.left = sizes.sum := by
    rw [l9 d8.left, d8.total, t7]
    simp
  refine Wp.bind' (wp_andPost (justiceLitsLoop_ok sizes _ s9 _ 0 lr9 i9 q9 (by omega)
      (by rw [hleft]; exact jinv_init sizes))
    (justiceLitsLoop_post sizes _ s9 (sizes.map fun _ => []) 0 (by
      intro j hj x hx
      obtain ⟨_, _, rfl⟩ := List.mem_map.mp hj
      simp at hx))) ?_
  rintro ⟨justice, s10⟩ lr10 ⟨⟨i10, q10, _, _⟩, _, _, c10⟩
  dsimp only at q10 c10 ⊢
  refine Wp.bind' (toFairness_ok s10 i10 q10) ?_
  intro s11 lr11 ⟨i11, q11, _, b11⟩
  refine Wp.bind' (whileSome_both (nextLit_ok false) (nextLit_spec false) s11 i11 q11) ?_
  rintro ⟨fairness, s12⟩ lr12 ⟨i12, q12, _, d12⟩
  dsimp only at q12 d12 ⊢
  refine Wp.pure ⟨i12, q12, ?_⟩
  show s12.p.bin = s.p.bin
  rw [d12.cfg.2.2.2, b11, c10.2.2.2, b9, d8.cfg.2.2.2, b7, d6.cfg.2.2.2, b5, d4.cfg.2.2.2, b3,
    d2.cfg.2.2.2, b1]

/-- The symbol loop of `parse()`. -/
theorem symbolsLoop_ok (p : Parser) :
    ∀ (fuel : Nat) (acc : List Symbol) (lr : LR), Inv b f lr → lr.v.rest.length < fuel →
      Wp (Err b f) (whileSome (fun (_ : Unit) => do pure (← nextSymbol p, ())) fuel () acc) lr
        (fun _ lr1 => Inv b f lr1) := by
  intro fuel
  induction fuel with
  | zero => intro acc lr _ hf; omega
  | succ fuel ih =>
    intro acc lr h hf
    unfold whileSome
    refine Wp.bind' (Q1 := fun r lr1 => Inv b f lr1 ∧ (r.1.isSome = true → lr.v.pos < lr1.v.pos)) ?_ ?_
    · refine Wp.bind' (nextSymbol_ok p h) ?_
      intro r lr1 ⟨i1, _, q1⟩
      exact Wp.pure ⟨i1, q1⟩
    rintro ⟨o, u⟩ lr1 ⟨i1, q1⟩
    cases o with
    | none => exact Wp.pure i1
    | some sym =>
      have hlt := Base.rest_lt h.toBase i1.toBase (q1 rfl)
      exact ih _ lr1 i1 (by omega)

theorem parseTail_ok (p : Parser) (h : Inv b f lr) :
    Wp (Err b f) (parseTail p) lr (fun _ _ => f = false) := by
  unfold parseTail
  refine Wp.bind (Wp.get ?_)
  refine Wp.bind' (symbolsLoop_ok p _ [] lr h (by omega)) ?_
  rintro ⟨symbols, u⟩ lr1 i1
  refine Wp.bind' (comment_ok p i1) ?_
  intro c lr2 hf
  exact Wp.pure hf

/-- `ascii::Parser::parse` never panics. -/
theorem parseAscii_ok (p : Parser) (hb : p.bin = false) (h : Inv b f lr) :
    Wp (Err b f) (parseAscii p) lr (fun _ _ => f = false) := by
  unfold parseAscii
  have hs0 : SInv p.inputs := Nat.zero_le _
  refine Wp.bind' (whileSome_both (nextLit_ok true) (nextLit_spec true) p.inputs h hs0) ?_
  rintro ⟨inputs, s1⟩ lr1 ⟨i1, q1, _, d1⟩
  dsimp only at q1 d1 ⊢
  refine Wp.bind' (toLatches_ok s1 i1 q1) ?_
  intro s2 lr2 ⟨i2, q2, _, b2⟩
  refine Wp.bind' (whileSome_both nextLatchAscii_ok nextLatchAscii_spec s2 i2 q2) ?_
  rintro ⟨latches, s3⟩ lr3 ⟨i3, q3, _, d3⟩
  dsimp only at q3 d3 ⊢
  refine Wp.bind' (parseMid_ok s3 i3 q3) ?_
  rintro ⟨mid, s4⟩ lr4 ⟨i4, q4, b4⟩
  dsimp only at q4 b4 ⊢
  refine Wp.bind' (toAndGates_ok s4 i4 q4) ?_
  intro s5 lr5 ⟨i5, q5, _, b5⟩
  refine Wp.bind' (whileSome_both nextAndGateAscii_ok nextAndGateAscii_spec s5 i5 q5) ?_
  rintro ⟨gates, s6⟩ lr6 ⟨i6, q6, _, d6⟩
  dsimp only at q6 d6 ⊢
  have hb6 : s6.p.bin = false := by
    rw [d6.cfg.2.2.2, b5, b4, d3.cfg.2.2.2, b2, d1.cfg.2.2.2]
    exact hb
  refine Wp.bind' (toSymbols_ok s6 hb6 i6 q6) ?_
  intro p' lr7 ⟨i7, _⟩
  refine Wp.bind' (parseTail_ok p' i7) ?_
  rintro ⟨symbols, c⟩ lr8 hf
  exact Wp.pure hf

/-- `Parser::from_read(..)?.parse()` of the ASCII format never panics. -/
theorem parseAag_ok (l : LitTy) (hl : l.bits ≤ 64) (h : Inv b f lr) :
    Wp (Err b f) (parseAag l) lr (fun _ _ => f = false) := by
  unfold parseAag
  refine Wp.bind' (Parser.new_ok false l hl h) ?_
  intro p lr1 ⟨i1, ok⟩
  exact parseAscii_ok p ok.bin i1

end Aiger
end Flussab
