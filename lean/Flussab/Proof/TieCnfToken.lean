/-
Proofs of the tie between the generated DIMACS token model (`Gen/CnfTokenGen.lean`, from
`flussab-cnf/src/token.rs`) and `Model/CnfToken.lean`.  Statements: `Props/TieCnfToken.lean`.
-/
import Flussab.Gen.CnfTokenGen
import Flussab.Model.CnfToken

namespace Flussab
namespace TieCnfTokenAux

theorem skipWhitespace_eq : Gen.CnfToken.skipWhitespace = Cnf.skipWhitespace := by
  simp [Gen.CnfToken.skipWhitespace, Cnf.skipWhitespace]

theorem wordEnd (o : Option UInt8) :
    (match o with | some b2 => ((((b2 == 32) || (b2 == 9)) || (b2 == 13)) || (b2 == 10)) | none => true) = Cnf.isWordEnd o := by
  rcases o with _ | b
  · rfl
  · by_cases h1 : b = 32
    · subst h1; rfl
    · by_cases h2 : b = 9
      · subst h2; rfl
      · by_cases h3 : b = 13
        · subst h3; rfl
        · by_cases h4 : b = 10
          · subst h4; rfl
          · have e1 : (b == 32) = false := by simpa using h1
            have e2 : (b == 9) = false := by simpa using h2
            have e3 : (b == 13) = false := by simpa using h3
            have e4 : (b == 10) = false := by simpa using h4
            simp only [e1, e2, e3, e4, Bool.or_self]
            unfold Cnf.isWordEnd
            split <;> first | rfl | (rename_i h; simp_all)

theorem isEndOfWord_eq (off : Nat) : Gen.CnfToken.isEndOfWord off = Cnf.isEndOfWord off := by
  unfold Gen.CnfToken.isEndOfWord Cnf.isEndOfWord
  congr 1
  funext o
  rw [← wordEnd o]
  rfl

theorem wordTok_eq (pat : VBytes) : Gen.CnfToken.wordTok pat = Cnf.word pat := by
  unfold Gen.CnfToken.wordTok Cnf.word
  simp [isEndOfWord_eq]

theorem uint_eq (t : IntTy) : Gen.CnfToken.uint t = Cnf.uint t := by
  unfold Gen.CnfToken.uint Cnf.uint Cnf.numberTail
  simp [isEndOfWord_eq]
  congr 1
  funext p
  rcases p with ⟨value, off⟩
  simp only
  by_cases h : off = 0 <;> simp [h]
  congr 1
  funext b
  cases b <;> simp
  cases value <;> simp

theorem int_eq (t : IntTy) : Gen.CnfToken.int t = Cnf.int t := by
  unfold Gen.CnfToken.int Cnf.int Cnf.numberTail
  simp [isEndOfWord_eq]
  congr 1
  funext p
  rcases p with ⟨value, off⟩
  simp only
  by_cases h : off = 0 <;> simp [h]
  congr 1
  funext b
  cases b <;> simp
  cases value <;> simp

theorem comment_eq : Gen.CnfToken.comment = Cnf.comment := by
  unfold Gen.CnfToken.comment Cnf.comment
  congr 1
  funext o
  rcases o with _ | b
  · rfl
  · by_cases h : b = 99
    · subst h; rfl
    · have e : (b == 99) = false := by simpa using h
      have e2 : (some b == some 99) = false := by simp [h]
      simp [e, e2]

theorem eof_eq : Gen.CnfToken.eof = Cnf.eof := by
  unfold Gen.CnfToken.eof Cnf.eof PMExt.ioError
  simp

theorem bracedUint_eq (t : IntTy) : Gen.CnfToken.bracedUint t = Cnf.bracedUint t := by
  unfold Gen.CnfToken.bracedUint Cnf.bracedUint
  simp
  congr 1
  funext o
  rcases o with _ | b
  · simp
  · by_cases hb : b = 123
    · subst hb
      simp
      congr 1
      funext p
      rcases p with ⟨value, off⟩
      simp only
      by_cases h1 : off = 1 <;> simp [h1]
      congr 1
      funext o2
      rcases o2 with _ | c
      · simp
      · by_cases hc : c = 125
        · subst hc
          simp
          cases value <;> simp
        · have e : (c == 125) = false := by simpa using hc
          simp [e, hc]
    · have e : (b == 123) = false := by simpa using hb
      simp [e, hb]

theorem fixedTok_eq (pat : VBytes) : Gen.CnfToken.fixedTok pat = Cnf.fixed pat := rfl
theorem interactiveSkipLine_eq : Gen.CnfToken.interactiveSkipLine = Cnf.interactiveSkipLine := rfl
theorem newlineTok_eq : Gen.CnfToken.newlineTok = Cnf.newline := rfl
theorem interactiveNewline_eq : Gen.CnfToken.interactiveNewline = Cnf.interactiveNewline := rfl
theorem interactiveStrictComment_eq : Gen.CnfToken.interactiveStrictComment = Cnf.interactiveStrictComment := rfl

end TieCnfTokenAux
end Flussab
