/-
Proofs of the tie between the generated DIMACS token model (`Gen/CnfTokenGen.lean`, from
`flussab-cnf/src/token.rs`) and `Model/CnfToken.lean`.  Statements: `Props/TieCnfToken.lean`.

The functions built from closures and `flussab::Parsed` combinators are generated as applications of the
contracts of `Model/CnfTokenExt.lean` to the value of the receiver; their ties unfold those contracts.  Errors
that are bound further (`e >>= f` for an `e` that always throws) are removed by `giveUpAt_bind`.
`non_terminating_linebreaks` needs that the loop's fuel is never used up (`lines_loop`, with the rules of
`Proof/PMHoare.lean` for "a match consumes input").
-/
import Flussab.Gen.CnfTokenGen
import Flussab.Model.CnfToken
import Flussab.Proof.PMHoare

namespace Flussab
namespace TieCnfTokenAux

theorem skipWhitespace_eq : Gen.CnfToken.skipWhitespace = Cnf.skipWhitespace := by
  simp [Gen.CnfToken.skipWhitespace, Cnf.skipWhitespace]

theorem wordEnd (o : Option UInt8) :
    (match o with | some b2 => ((((b2 == 32) || (b2 == 9)) || (b2 == 13)) || (b2 == 10)) | none => true) = Cnf.isWordEnd o := by
  rcases o with _ | b
  · rfl
  · by_cases h1 : b = 32
    · subst h1; rfl
    · by_cases h2 : b = 9
      · subst h2; rfl
      · by_cases h3 : b = 13
        · subst h3; rfl
        · by_cases h4 : b = 10
          · subst h4; rfl
          · have e1 : (b == 32) = false := by simpa using h1
            have e2 : (b == 9) = false := by simpa using h2
            have e3 : (b == 13) = false := by simpa using h3
            have e4 : (b == 10) = false := by simpa using h4
            simp only [e1, e2, e3, e4, Bool.or_self]
            unfold Cnf.isWordEnd
            split <;> first | rfl | (rename_i h; simp_all)

theorem isEndOfWord_eq (off : Nat) : Gen.CnfToken.isEndOfWord off = Cnf.isEndOfWord off := by
  unfold Gen.CnfToken.isEndOfWord Cnf.isEndOfWord
  congr 1
  funext o
  rw [← wordEnd o]
  rfl

theorem wordTok_eq (pat : VBytes) : Gen.CnfToken.wordTok pat = Cnf.word pat := by
  unfold Gen.CnfToken.wordTok Cnf.word
  simp [isEndOfWord_eq]

theorem uint_eq (t : IntTy) : Gen.CnfToken.uint t = Cnf.uint t := by
  unfold Gen.CnfToken.uint Cnf.uint Cnf.numberTail
  simp [isEndOfWord_eq]
  congr 1
  funext p
  rcases p with ⟨value, off⟩
  simp only
  by_cases h : off = 0 <;> simp [h]
  congr 1
  funext b
  cases b <;> simp
  cases value <;> simp

theorem int_eq (t : IntTy) : Gen.CnfToken.int t = Cnf.int t := by
  unfold Gen.CnfToken.int Cnf.int Cnf.numberTail
  simp [isEndOfWord_eq]
  congr 1
  funext p
  rcases p with ⟨value, off⟩
  simp only
  by_cases h : off = 0 <;> simp [h]
  congr 1
  funext b
  cases b <;> simp
  cases value <;> simp

theorem comment_eq : Gen.CnfToken.comment = Cnf.comment := by
  unfold Gen.CnfToken.comment Cnf.comment
  congr 1
  funext o
  rcases o with _ | b
  · rfl
  · by_cases h : b = 99
    · subst h; rfl
    · have e : (b == 99) = false := by simpa using h
      have e2 : (some b == some 99) = false := by simp [h]
      simp [e, e2]

theorem eof_eq : Gen.CnfToken.eof = Cnf.eof := by
  unfold Gen.CnfToken.eof Cnf.eof PMExt.ioError
  simp

theorem bracedUint_eq (t : IntTy) : Gen.CnfToken.bracedUint t = Cnf.bracedUint t := by
  unfold Gen.CnfToken.bracedUint Cnf.bracedUint
  simp
  congr 1
  funext o
  rcases o with _ | b
  · simp
  · by_cases hb : b = 123
    · subst hb
      simp
      congr 1
      funext p
      rcases p with ⟨value, off⟩
      simp only
      by_cases h1 : off = 1 <;> simp [h1]
      congr 1
      funext o2
      rcases o2 with _ | c
      · simp
      · by_cases hc : c = 125
        · subst hc
          simp
          cases value <;> simp
        · have e : (c == 125) = false := by simpa using hc
          simp [e, hc]
    · have e : (b == 123) = false := by simpa using hb
      simp [e, hb]

theorem fixedTok_eq (pat : VBytes) : Gen.CnfToken.fixedTok pat = Cnf.fixed pat := rfl
theorem interactiveSkipLine_eq : Gen.CnfToken.interactiveSkipLine = Cnf.interactiveSkipLine := rfl
theorem newlineTok_eq : Gen.CnfToken.newlineTok = Cnf.newline := rfl
theorem interactiveNewline_eq : Gen.CnfToken.interactiveNewline = Cnf.interactiveNewline := rfl
theorem interactiveStrictComment_eq : Gen.CnfToken.interactiveStrictComment = Cnf.interactiveStrictComment := rfl

/-! ### functions built from closures and `Parsed` combinators -/

open PM

variable {α β : Type}

theorem pure_apply (a : α) (lr : LR) : (pure a : PM α) lr = (.ok a, lr) := rfl
theorem get_apply (lr : LR) : (get : PM LR) lr = (.ok lr, lr) := rfl
theorem getLR_apply (lr : LR) : PMExt.getLR lr = (.ok lr, lr) := rfl

theorem giveUpAt_apply (pos : Nat) (lr : LR) :
    (giveUpAt pos : PM α) lr =
      (.error (if lr.v.ioErr then .io
               else if pos < lr.lineStart then .panic "column underflow (position before line start)"
               else .syn lr.line (pos - lr.lineStart + 1)),
       { lr with v := { lr.v with ioErr := false } }) := by
  unfold giveUpAt View.checkIoError
  rw [bind_apply, get_apply]
  simp only []
  rw [bind_apply]
  by_cases h1 : lr.v.ioErr = true
  · simp only [h1, if_true]; rfl
  · by_cases h2 : pos < lr.lineStart
    · simp only [h1, h2, if_true]; rfl
    · simp only [h1, h2, if_false]; rfl

theorem giveUpAt_bind (pos : Nat) (f : α → PM β) : ((giveUpAt pos : PM α) >>= f) = giveUpAt pos := by
  funext lr
  rw [bind_apply, giveUpAt_apply, giveUpAt_apply]

theorem giveUp_bind (f : α → PM β) : ((giveUp : PM α) >>= f) = giveUp := by
  unfold giveUp
  rw [bind_assoc]
  congr 1; funext p
  exact giveUpAt_bind p f

theorem exceedsVarCount_bind (f : α → PM β) : ((Cnf.exceedsVarCount : PM α) >>= f) = Cnf.exceedsVarCount := by
  unfold Cnf.exceedsVarCount
  rw [bind_assoc]
  congr 1; funext p
  exact giveUpAt_bind p f

theorem interactiveEndOfLine_eq : Gen.CnfToken.interactiveEndOfLine = Cnf.interactiveEndOfLine := by
  unfold Gen.CnfToken.interactiveEndOfLine Cnf.interactiveEndOfLine PM.orParse
  rw [interactiveNewline_eq, eof_eq]
  congr 1

theorem maxDimacs_nonneg (l : Cnf.LitTy) : 0 ≤ l.maxDimacs := by
  unfold Cnf.LitTy.maxDimacs
  have : 0 < 2 ^ (l.bits - 1) := Nat.two_pow_pos _
  omega

theorem isizeAsUsize_maxDimacs (l : Cnf.LitTy) : CnfTokenExt.isizeAsUsize l.maxDimacs = l.maxDimacs := by
  unfold CnfTokenExt.isizeAsUsize
  rw [if_pos (maxDimacs_nonneg l)]

theorem varCount_eq (l : Cnf.LitTy) : Gen.CnfToken.varCount l = Cnf.varCount l := by
  unfold Gen.CnfToken.varCount Cnf.varCount
  rw [uint_eq, isizeAsUsize_maxDimacs]
  congr 1; funext _; congr 1; funext r
  rcases r with _ | _ | v
  · rfl
  · exact exceedsVarCount_bind _
  · show (pure (some v) >>= _) = _
    rw [pure_bind]
    unfold CnfTokenExt.andAlso
    by_cases h : v > l.maxDimacs
    · simp only [h, decide_true, if_true]
      exact exceedsVarCount_bind _
    · simp only [h, decide_false, Bool.false_eq_true, if_false]
      rfl

theorem uintCount_eq (t : IntTy) (w : Unit) : Gen.CnfToken.uintCount t w = Cnf.uintCount t := by
  unfold Gen.CnfToken.uintCount Cnf.uintCount
  rw [uint_eq]
  congr 1; funext _; congr 1; funext r
  rcases r with _ | _ | v <;> rfl

theorem clauseGroup_eq (limit : Nat) (hl : Bool) : Gen.CnfToken.clauseGroup limit hl = Cnf.clauseGroup limit := by
  unfold Gen.CnfToken.clauseGroup Cnf.clauseGroup
  rw [bracedUint_eq]
  congr 1; funext _; congr 1; funext r
  rcases r with _ | _ | v
  · rfl
  · exact giveUp_bind _
  · show (pure (some v) >>= _) = _
    rw [pure_bind]
    unfold CnfTokenExt.andAlso
    by_cases h : v > (limit : Int)
    · simp only [h, decide_true, if_true]
      rw [bind_assoc]
      show _ = Cnf.exceedsVarCount
      unfold Cnf.exceedsVarCount
      congr 1; funext p
      rw [bind_assoc]
      exact giveUpAt_bind p _
    · simp only [h, decide_false, Bool.false_eq_true, if_false]
      rfl

/-! ### `non_terminating_linebreaks`: the comment / newline loop

The generated loop and `Cnf.skipLinesLoop` differ in their out-of-fuel value (`rpanic "generated"` /
`rpanic "fuel"`).  Both start with fuel `rest.length + 1`, and every iteration that does not leave the
loop has consumed at least one byte (`prog_lines`: `advance n` with `n ≠ 0` succeeds only inside the
remaining input), so neither is ever reached: the equation holds for every state. -/

/-- Errors are not constrained. -/
def T : PErr → LR → Prop := fun _ _ => True

theorem demand_rest (v : View) (k : Nat) : (v.demand k).rest = v.rest := by
  unfold View.demand; dsimp only; split <;> rfl

theorem wp_advance (n : Nat) (lr : LR) :
    Wp T (advance n) lr (fun _ lr1 => lr1.v.rest.length + n = lr.v.rest.length) := by
  unfold PM.advance
  refine Wp.bind (Wp.get ?_)
  unfold View.advance View.demanded
  split
  · rename_i v' hv
    split at hv
    · cases hv
      show (lr.v.rest.drop n).length + n = lr.v.rest.length
      rw [List.length_drop]; omega
    · cases hv
  · trivial

theorem wp_lineAtOffset (off : Nat) (lr : LR) :
    Wp T (lineAtOffset off) lr (fun _ lr1 => lr1.v = lr.v) := by
  unfold Wp
  show Res T _ (lineAtOffset off lr)
  rw [lineAtOffset_apply]
  split
  · trivial
  · rfl

theorem tabs_fst (v : View) (off : Nat) : off ≤ (Text.tabsOrSpaces v off).1 := by
  unfold Text.tabsOrSpaces; simp
theorem tabs_rest (v : View) (off : Nat) : (Text.tabsOrSpaces v off).2.rest = v.rest := by
  unfold Text.tabsOrSpaces; exact demand_rest _ _
theorem nextNewline_fst (v : View) (off : Nat) : off ≤ (Text.nextNewline v off).1 := by
  unfold Text.nextNewline; simp only []; omega
theorem nextNewline_rest (v : View) (off : Nat) : (Text.nextNewline v off).2.rest = v.rest := by
  unfold Text.nextNewline; exact demand_rest _ _
theorem newline_rest (v : View) (off : Nat) : (Text.newline v off).2.rest = v.rest := by
  unfold Text.newline
  split
  · exact demand_rest _ _
  · split
    · simp only [demand_rest]
    · simp only [demand_rest]
  · exact demand_rest _ _

/-- What the loop needs of a line-level token: a match consumes input, a fall-through none. -/
abbrev ProgPost (lr : LR) (o : Option Unit) (lr1 : LR) : Prop :=
  (o.isSome = true → lr1.v.rest.length < lr.v.rest.length) ∧ (o = none → lr1.v.rest = lr.v.rest)

theorem prog_comment (lr : LR) : Wp T Cnf.comment lr (ProgPost lr) := by
  unfold Cnf.comment
  refine Wp.bind (Wp.reqAt ?_)
  split
  · refine Wp.bind (Wp.scan ?_)
    refine Wp.bind' (wp_lineAtOffset _ _) ?_
    intro _ lr1 h1
    refine Wp.bind (Wp.scan ?_)
    refine Wp.bind' (wp_advance _ _) ?_
    intro _ lr2 h2
    refine Wp.pure ⟨fun _ => ?_, fun h => by cases h⟩
    simp only [h1, tabs_rest, nextNewline_rest, demand_rest] at h2
    have a1 := tabs_fst (Text.nextNewline (lr.v.demand 0) 1).2 (Text.nextNewline (lr.v.demand 0) 1).1
    have a2 := nextNewline_fst (lr.v.demand 0) 1
    omega
  · exact Wp.pure ⟨fun h => (by cases h), fun _ => demand_rest _ _⟩

theorem prog_newline (lr : LR) : Wp T Cnf.newline lr (ProgPost lr) := by
  unfold Cnf.newline
  refine Wp.bind (Wp.scan ?_)
  split
  · rename_i hne
    refine Wp.bind' (wp_lineAtOffset _ _) ?_
    intro _ lr1 h1
    refine Wp.bind (Wp.scan ?_)
    refine Wp.bind' (wp_advance _ _) ?_
    intro _ lr2 h2
    refine Wp.pure ⟨fun _ => ?_, fun h => by cases h⟩
    simp only [h1, tabs_rest, newline_rest] at h2
    have a1 := tabs_fst (Text.newline lr.v 0).2 (Text.newline lr.v 0).1
    have : (Text.newline lr.v 0).1 ≠ 0 := by simpa using hne
    omega
  · exact Wp.pure ⟨fun h => (by cases h), fun _ => newline_rest _ _⟩

theorem prog_lines (lr : LR) : Wp T («matches» (orParse Cnf.comment Cnf.newline)) lr
    (fun c lr1 => c = true → lr1.v.rest.length < lr.v.rest.length) := by
  unfold «matches» orParse
  refine Wp.bind ?_
  refine Wp.bind' (prog_comment lr) ?_
  intro o lr1 h1
  split
  · refine Wp.pure (Wp.pure ?_)
    intro _
    exact h1.1 rfl
  · refine Wp.mono (prog_newline lr1) ?_
    intro o2 lr2 h2
    refine Wp.pure ?_
    intro hc
    have := h2.1 hc
    rw [h1.2 rfl] at this
    exact this

/-- One iteration of the generated loop, in terms of the model's test. -/
theorem lines_step (f : Nat) : Gen.CnfToken.nonTerminatingLinebreaks.loop1 (f + 1) () =
    («matches» (orParse Cnf.comment Cnf.newline) >>= fun c =>
      if c = true then Gen.CnfToken.nonTerminatingLinebreaks.loop1 f () else pure (Ctl.brk ())) := by
  rw [Gen.CnfToken.nonTerminatingLinebreaks.loop1]
  unfold «matches» orParse CnfTokenExt.orParse
  rw [comment_eq, newlineTok_eq]
  simp only [bind_assoc]
  congr 1; funext o
  rcases o with _ | a
  · simp only []
    congr 1; funext o2
    cases o2 <;> simp
  · simp

/-- The generated loop is the model's loop; the fuel `rest.length + 1` is never used up (every further
iteration has consumed at least one byte), so the different out-of-fuel values do not matter. -/
theorem lines_loop (fuel : Nat) : ∀ lr : LR, lr.v.rest.length < fuel →
    Gen.CnfToken.nonTerminatingLinebreaks.loop1 fuel () lr =
      (Cnf.skipLinesLoop fuel >>= fun _ => (pure (Ctl.brk ()) : PM (Ctl Unit Bool))) lr := by
  induction fuel with
  | zero => intro lr h; omega
  | succ fuel ih =>
    intro lr hf
    rw [lines_step, Cnf.skipLinesLoop, bind_assoc, bind_apply, bind_apply]
    have hp := (Wp.of_run (prog_lines lr)).1
    cases hm : «matches» (orParse Cnf.comment Cnf.newline) lr with
    | mk r lr1 =>
      cases r with
      | error e => rfl
      | ok c =>
        simp only []
        cases c with
        | false => rfl
        | true =>
          simp only [if_true]
          have := hp true lr1 hm rfl
          exact ih lr1 (by omega)

theorem nonTerminatingLinebreaks_eq : Gen.CnfToken.nonTerminatingLinebreaks = Cnf.nonTerminatingLinebreaks := by
  funext lr
  unfold Gen.CnfToken.nonTerminatingLinebreaks Cnf.nonTerminatingLinebreaks «matches»
  rw [newlineTok_eq, bind_assoc, bind_apply, bind_apply]
  cases Cnf.newline lr with
  | mk r lr1 =>
    cases r with
    | error e => rfl
    | ok o =>
      simp only []
      rw [pure_bind]
      cases o with
      | none => rfl
      | some u =>
        simp only [Option.isSome_some, if_true]
        rw [bind_apply, getLR_apply]
        simp only []
        rw [bind_apply, lines_loop _ lr1 (by omega)]
        rw [bind_apply, bind_apply]
        have hg : (get : PM LR) lr1 = (.ok lr1, lr1) := rfl
        rw [hg]
        simp only []
        rw [bind_apply]
        cases Cnf.skipLinesLoop (lr1.v.rest.length + 1) lr1 with
        | mk r2 lr2 =>
          cases r2 with
          | error e => rfl
          | ok a => rfl

/-! ### `clause_lits` (the literal loop; see `tools/unit_cnftoken.py` for the out-parameter convention) -/

section ClauseLits
open PM Gen.CnfToken

theorem litInt_eq' :
    (Gen.CnfToken.int Cnf.isizeTy >>= fun t =>
        CnfTokenExt.mapErr t fun _ => (Cnf.exceedsVarCount : PM (Option Int))) = Cnf.litInt := by
  rw [int_eq]
  unfold Cnf.litInt CnfTokenExt.mapErr
  congr 1
  funext o
  rcases o with _ | (_ | v) <;> rfl

theorem ite_bind {α β : Type} (c : Prop) [Decidable c] (a b : PM α) (f : α → PM β) :
    ((if c then a else b) >>= f) = if c then a >>= f else b >>= f := by
  split <;> rfl

theorem unexpected_bind {α β : Type} (f : α → PM β) : ((Cnf.unexpected : PM α) >>= f) = Cnf.unexpected := by
  unfold Cnf.unexpected
  simp only [bind_assoc, ite_bind, giveUp_bind]

/-- The literal loop's result as the model's. -/
def litsPost (r : Except PErr (Ctl (List Int × Int) (Option (List Int))) × LR) : Except PErr (List Int) × LR :=
  match r with
  | (.ok (Ctl.brk (lits, _)), s) => (.ok lits, s)
  | (.ok Ctl.fuel, s) => (.error (.panic "fuel"), s)
  | (.ok (Ctl.ret _), s) => (.error (.panic "unreachable"), s)
  | (.error e, s) => (.error e, s)

def postM (x : PM (Ctl (List Int × Int) (Option (List Int)))) : PM (List Int) := fun lr => litsPost (x lr)

theorem postM_bind {α : Type} (x : PM α) (f : α → PM (Ctl (List Int × Int) (Option (List Int)))) :
    postM (x >>= f) = x >>= fun a => postM (f a) := by
  funext lr
  show litsPost ((x >>= f) lr) = _
  rw [bind_apply, bind_apply]
  rcases x lr with ⟨r, s⟩
  cases r <;> rfl

theorem postM_ite (c : Prop) [Decidable c] (a b : PM (Ctl (List Int × Int) (Option (List Int)))) :
    postM (if c then a else b) = if c then postM a else postM b := by
  split <;> rfl

theorem postM_exceeds : postM (Cnf.exceedsVarCount) = Cnf.exceedsVarCount := by
  have := postM_bind (Cnf.exceedsVarCount : PM Unit) (fun _ => (pure Ctl.fuel))
  rw [exceedsVarCount_bind, exceedsVarCount_bind] at this
  exact this

theorem postM_unexpected : postM (Cnf.unexpected) = Cnf.unexpected := by
  have := postM_bind (Cnf.unexpected : PM Unit) (fun _ => (pure Ctl.fuel))
  rw [unexpected_bind, unexpected_bind] at this
  exact this

theorem clauseLits_loop (l : Cnf.LitTy) (limit : Int) (hard : Bool) (fuel : Nat) :
    ∀ (lits : List Int) (lit : Int),
      postM (clauseLits.loop1 l limit hard fuel (lits, lit)) = Cnf.clauseLitsLoop l limit fuel lit lits.reverse := by
  induction fuel with
  | zero => intro lits lit; rfl
  | succ fuel ih =>
    intro lits lit
    rw [clauseLits.loop1, Cnf.clauseLitsLoop]
    by_cases h0 : lit = 0
    · subst h0
      funext lr
      simp [postM, litsPost]
      rfl
    · have e0 : (lit != 0) = true := by simpa using h0
      have e0' : (lit == 0) = false := by simpa using h0
      simp only [e0, e0', Bool.not_true, Bool.false_eq_true, if_false]
      by_cases hr : -limit ≤ lit ∧ lit ≤ limit
      · have hd : (decide (-limit ≤ lit) && decide (lit ≤ limit)) = true := by simp [hr]
        have hrev : (lits ++ [l.fromDimacs lit]).reverse = l.fromDimacs lit :: lits.reverse := by simp
        rw [if_pos hr]
        simp only [hd, if_true, postM_bind, bind_assoc, nonTerminatingLinebreaks_eq]
        congr 1; funext _
        rw [← litInt_eq', bind_assoc]
        congr 1; funext t3
        congr 1; funext t4
        rcases t4 with _ | next
        · simp only [postM_bind]
          congr 1; funext t5
          cases t5
          · simp only [Bool.false_eq_true, if_false, unexpected_bind, postM_unexpected]
          · simp only [if_true, postM_bind, bind_assoc]
            congr 1; funext _
            unfold PM.orGiveUp
            rw [bind_assoc, bind_assoc]
            congr 1; funext t6
            congr 1; funext t7
            rcases t7 with _ | nx
            · simp only [CnfTokenExt.orGiveUp, unexpected_bind]
            · simp only [CnfTokenExt.orGiveUp, pure_bind]
              rw [ih, hrev]
        · simp only
          rw [ih, hrev]
      · have hd : (decide (-limit ≤ lit) && decide (lit ≤ limit)) = false := by
          by_cases h1 : -limit ≤ lit
          · have h2 : ¬ lit ≤ limit := fun h => hr ⟨h1, h⟩
            simp [h1, h2]
          · simp [h1]
        rw [if_neg hr]
        simp only [hd, Bool.false_eq_true, if_false, exceedsVarCount_bind, postM_exceeds]

abbrev LoopT := Ctl (List Int × Int) (Option (List Int))

/-- A loop computation that never reports a `return` of the enclosing function. -/
def NoRet (x : PM LoopT) : Prop := ∀ lr v s, x lr ≠ (.ok (Ctl.ret v), s)

theorem noRet_pure_brk (m : List Int × Int) : NoRet (pure (Ctl.brk m)) := by
  intro lr v s h; cases h
theorem noRet_pure_fuel : NoRet (pure Ctl.fuel) := by
  intro lr v s h; cases h

theorem noRet_bind {α : Type} (x : PM α) (f : α → PM LoopT) (hf : ∀ a, NoRet (f a)) : NoRet (x >>= f) := by
  intro lr v s h
  rw [bind_apply] at h
  rcases hx : x lr with ⟨r, s1⟩
  rw [hx] at h
  cases r with
  | error e => cases h
  | ok a => exact hf a s1 v s h

theorem noRet_ite (c : Prop) [Decidable c] (a b : PM LoopT) (ha : NoRet a) (hb : NoRet b) : NoRet (if c then a else b) := by
  split <;> assumption

theorem noRet_of_bind_absorb (x : PM LoopT) (h : ∀ (f : LoopT → PM LoopT), (x >>= f) = x) : NoRet x := by
  intro lr v s hx
  have := congrFun (h (fun _ => throw .io)) lr
  rw [bind_apply, hx] at this
  cases this

theorem noRet_unexpected : NoRet (Cnf.unexpected) := noRet_of_bind_absorb _ (fun f => unexpected_bind f)
theorem noRet_exceeds : NoRet (Cnf.exceedsVarCount) := noRet_of_bind_absorb _ (fun f => exceedsVarCount_bind f)

theorem loop_noRet (l : Cnf.LitTy) (limit : Int) (hard : Bool) (fuel : Nat) :
    ∀ (lits : List Int) (lit : Int), NoRet (clauseLits.loop1 l limit hard fuel (lits, lit)) := by
  induction fuel with
  | zero => intro lits lit; exact noRet_pure_fuel
  | succ fuel ih =>
    intro lits lit
    rw [clauseLits.loop1]
    apply noRet_ite
    · exact noRet_pure_brk _
    · -- the tail after the range test is the same in both branches
      have tail : ∀ (ls : List Int), NoRet (do
          PM.setMark
          let t3 ← Gen.CnfToken.int Cnf.isizeTy
          let t4 ← CnfTokenExt.mapErr t3 fun _ => (Cnf.exceedsVarCount : PM (Option Int))
          match t4 with
          | some next_lit => clauseLits.loop1 l limit hard fuel (ls, next_lit)
          | _ => do
            let t5 ← Gen.CnfToken.nonTerminatingLinebreaks
            if t5 then do
              PM.setMark
              let t6 ← Gen.CnfToken.int Cnf.isizeTy
              let t7 ← CnfTokenExt.mapErr t6 fun _ => (Cnf.exceedsVarCount : PM (Option Int))
              let t8 ← CnfTokenExt.orGiveUp t7 Cnf.unexpected
              clauseLits.loop1 l limit hard fuel (ls, t8)
            else do
              (Cnf.unexpected : PM Unit)
              clauseLits.loop1 l limit hard fuel (ls, lit)) := by
        intro ls
        refine noRet_bind _ _ fun _ => noRet_bind _ _ fun _ => noRet_bind _ _ fun t4 => ?_
        rcases t4 with _ | nx
        · refine noRet_bind _ _ fun t5 => ?_
          cases t5
          · simp only [Bool.false_eq_true, if_false, unexpected_bind]
            exact noRet_unexpected
          · simp only [if_true]
            exact noRet_bind _ _ fun _ => noRet_bind _ _ fun _ => noRet_bind _ _ fun _ => noRet_bind _ _ fun _ => ih _ _
        · exact ih _ _
      apply noRet_ite
      · exact tail _
      · rw [exceedsVarCount_bind]
        exact noRet_exceeds

theorem clauseLits_eq (l : Cnf.LitTy) (limit : Int) (hard : Bool) :
    Gen.CnfToken.clauseLits l limit hard = Cnf.clauseLits l limit := by
  unfold Gen.CnfToken.clauseLits Cnf.clauseLits
  simp only [bind_assoc]
  congr 1; funext _
  rw [← litInt_eq', bind_assoc]
  congr 1; funext t1
  congr 1; funext t2
  rcases t2 with _ | lit
  · rfl
  · simp only [PMExt.getLR]
    congr 1; funext lr
    have h := clauseLits_loop l limit hard (lr.v.rest.length + 2) [] lit
    funext s
    have hs := congrFun h s
    simp only [postM, List.reverse_nil] at hs
    rw [bind_apply, bind_apply, ← hs]
    rcases hl : clauseLits.loop1 l limit hard (lr.v.rest.length + 2) ([], lit) s with ⟨r, s'⟩
    rcases r with e | c
    · rfl
    · rcases c with ⟨lits, x⟩ | v | _
      · rfl
      · exact absurd hl (loop_noRet l limit hard _ [] lit s v s')
      · rfl

end ClauseLits

end TieCnfTokenAux
end Flussab
