/-
Safety of the DIMACS token layer (`Model/CnfToken.lean`): one lemma per function.  Each one says:
from a state satisfying the invariant `Inv b f` (`Proof/PMHoare.lean`) the function never panics,
re-establishes the invariant, only moves forward, and — what the callers' fuel arguments need —
consumes at least one byte whenever it reports success.  Errors satisfy `Err b f`.
-/
import Flussab.Model.Cnf
import Flussab.Proof.PMHoare

namespace Flussab
namespace Cnf
open PM Lines

variable {b : VBytes} {f : Bool} {lr lr0 : LR} {E : PErr → LR → Prop}

/-- Postcondition of a token that stays on its line and leaves the mark alone. -/
abbrev TokPost (b : VBytes) (f : Bool) (lr : LR) {α : Type} (r : Option α) (lr1 : LR) : Prop :=
  Inv b f lr1 ∧ Fwd lr lr1 ∧ (r.isSome = true → lr.v.pos < lr1.v.pos)

/-- Postcondition of a token that may end the line or set the mark. -/
abbrev LinePost (b : VBytes) (f : Bool) (lr : LR) {α : Type} (r : Option α) (lr1 : LR) : Prop :=
  Inv b f lr1 ∧ lr.v.pos ≤ lr1.v.pos ∧ (r.isSome = true → lr.v.pos < lr1.v.pos)

/-- Postcondition of the number tokens: `some none` (an overflowing numeral, reported by the
caller) consumes nothing. -/
abbrev NumPost (b : VBytes) (f : Bool) (lr : LR) (r : Option (Option Int)) (lr1 : LR) : Prop :=
  Inv b f lr1 ∧ Fwd lr lr1 ∧ (∀ v, r = some (some v) → lr.v.pos < lr1.v.pos)

theorem TokPost.line {α : Type} {r : Option α} {lr1 : LR} (h : TokPost b f lr r lr1) :
    LinePost b f lr r lr1 := ⟨h.1, h.2.1.pos, h.2.2⟩

theorem isEndOfWord_ok (e : Ext lr0 lr) (off : Nat) :
    Wp E (isEndOfWord off) lr (fun _ lr1 => Ext lr0 lr1 ∧
      lr1.v.peeked = max lr.v.peeked (lr0.v.pos + off + 1)) := by
  unfold isEndOfWord
  refine Wp.bind' (Wp.reqAtF e off) ?_
  intro a lr1 ⟨e1, _, p, _⟩
  exact Wp.pure ⟨e1, p⟩

theorem word_ok (pat : VBytes) (hpat : ∀ x ∈ pat, x ≠ 10) (h : Inv b f lr) :
    Wp E (word pat) lr (TokPost b f lr) := by
  unfold word
  refine Wp.bind' (Wp.fixed0F (Ext.refl lr) pat) ?_
  intro off lr1 ⟨e1, _, _, hoff⟩
  split
  · rename_i hne
    have hne' : off ≠ 0 := by simpa using hne
    rcases hoff with ⟨h0, _⟩ | ⟨hlen, hpre, hpk⟩
    · exact absurd h0 hne'
    refine Wp.bind' (isEndOfWord_ok e1 off) ?_
    intro c lr2 ⟨e2, p2⟩
    split
    · refine Wp.bind' (Wp.tabsF e2 off) ?_
      intro off' lr3 ⟨e3, hle, hbl, hlen', p3⟩
      have hoffle : off ≤ lr.v.rest.length := by rw [hlen]; exact hpre.length_le
      refine Wp.bind' (Wp.adv e3 h (hlen' hoffle) (by omega) ?_) ?_
      · refine AllAt.append (j := off) ?_ (hbl.mono blank_ne_lf)
        rw [hlen]; exact allAt_prefix hpre hpat
      intro _ lr4 ⟨i4, f4, p4, _, _⟩
      exact Wp.pure ⟨i4, f4, fun _ => by omega⟩
    · exact Wp.pure ⟨h.ext e2, e2.fwd, by simp⟩
  · exact Wp.pure ⟨h.ext e1, e1.fwd, by simp⟩

theorem fixed_ok (pat : VBytes) (hpat : ∀ x ∈ pat, x ≠ 10) (h : Inv b f lr) :
    Wp E (Cnf.fixed pat) lr (TokPost b f lr) := by
  unfold Cnf.fixed
  refine Wp.bind' (Wp.fixed0F (Ext.refl lr) pat) ?_
  intro off lr1 ⟨e1, _, _, hoff⟩
  split
  · rename_i hne
    have hne' : off ≠ 0 := by simpa using hne
    rcases hoff with ⟨h0, _⟩ | ⟨hlen, hpre, hpk⟩
    · exact absurd h0 hne'
    have hoffle : off ≤ lr.v.rest.length := by rw [hlen]; exact hpre.length_le
    refine Wp.bind' (Wp.adv e1 h hoffle hpk ?_) ?_
    · rw [hlen]; exact allAt_prefix hpre hpat
    intro _ lr2 ⟨i2, f2, p2, _, _⟩
    exact Wp.pure ⟨i2, f2, fun _ => by omega⟩
  · exact Wp.pure ⟨h.ext e1, e1.fwd, by simp⟩

/-- Bytes of a numeral: ASCII and no newline. -/
theorem num_byte (x : UInt8) (h : isDigit x = true ∨ x = 45) : x ≠ 10 ∧ x < 128 := by
  rcases h with h | h
  · exact ⟨digit_ne_lf x h, digit_lt x h⟩
  · subst h; exact ⟨by decide, by decide⟩

theorem numberTail_ok (e : Ext lr0 lr) (h : Inv b f lr0) (value : Option Int) (off : Nat)
    (hnum : AllAt (fun x => x ≠ 10 ∧ x < 128) lr0.v.rest 0 off) :
    Wp E (numberTail value off) lr (NumPost b f lr0) := by
  unfold numberTail
  split
  · rename_i hne
    have hne' : off ≠ 0 := by simpa using hne
    have hoffle : off ≤ lr0.v.rest.length := hnum.le_length (by omega)
    refine Wp.bind' (isEndOfWord_ok e off) ?_
    intro c lr2 ⟨e2, p2⟩
    split
    · split
      · refine Wp.bind' (Wp.tabsF e2 off) ?_
        intro off' lr3 ⟨e3, hle, hbl, hlen', p3⟩
        refine Wp.bind' (Wp.adv e3 h (hlen' hoffle) (by omega) ?_) ?_
        · exact AllAt.append (hnum.mono (fun x hx => hx.1)) (hbl.mono blank_ne_lf)
        intro _ lr4 ⟨i4, f4, p4, _, _⟩
        exact Wp.pure ⟨i4, f4, fun _ _ => by omega⟩
      · refine Wp.bind (Wp.bufPrefixF e2 hoffle (by omega) ?_)
        refine Wp.bind (Wp.utf8Unwrap (allAt_take (hnum.mono (fun x hx => hx.2))) ?_)
        exact Wp.pure ⟨h.ext e2, e2.fwd, fun v hv => by simp at hv⟩
    · exact Wp.pure ⟨h.ext e2, e2.fwd, fun v hv => by simp at hv⟩
  · exact Wp.pure ⟨h.ext e, e.fwd, fun v hv => by simp at hv⟩

theorem uint_ok (t : IntTy) (h : Inv b f lr) : Wp E (uint t) lr (NumPost b f lr) := by
  unfold uint
  refine Wp.bind' (Wp.asciiDigitsF (Ext.refl lr) t 0) ?_
  intro r lr1 ⟨e1, _, hd, _, _⟩
  obtain ⟨value, off⟩ := r
  exact numberTail_ok e1 h value off (hd.mono (fun x hx => num_byte x (Or.inl hx)))

theorem int_ok (t : IntTy) (h : Inv b f lr) : Wp E (int t) lr (NumPost b f lr) := by
  unfold int
  refine Wp.bind' (Wp.signedDigits0F (Ext.refl lr) t) ?_
  intro r lr1 ⟨e1, _, hd, _⟩
  obtain ⟨value, off⟩ := r
  exact numberTail_ok e1 h value off (hd.mono num_byte)

theorem bracedUint_ok (t : IntTy) (h : Inv b f lr) :
    Wp E (bracedUint t) lr (NumPost b f lr) := by
  unfold bracedUint
  refine Wp.bind' (Wp.reqByteF (Ext.refl lr)) ?_
  intro c lr1 ⟨e1, hc, p1, _⟩
  split
  · exact Wp.pure ⟨h.ext e1, e1.fwd, fun v hv => by simp at hv⟩
  · rename_i hbr
    have hc0 : lr.v.rest[0]? = some 123 := by
      rw [← hc]; simpa using hbr
    refine Wp.bind' (Wp.asciiDigitsF e1 t 1) ?_
    intro r lr2 ⟨e2, hle, hd, _, p2⟩
    obtain ⟨value, off⟩ := r
    dsimp only at hle hd p2 ⊢
    split
    · refine Wp.bind' (Wp.reqAtF e2 off) ?_
      intro c2 lr3 ⟨e3, hc2, p3, _⟩
      split
      · rename_i hcl
        have hcl' : lr.v.rest[off]? = some 125 := by
          rw [← hc2]; simpa using hcl
        have hall : AllAt (fun x => x ≠ 10 ∧ x < 128) lr.v.rest 0 (off + 1) := by
          refine AllAt.append (j := 1) (AllAt.single hc0 ⟨by decide, by decide⟩) ?_
          refine AllAt.append (j := off) (hd.mono (fun x hx => num_byte x (Or.inl hx))) ?_
          exact AllAt.single hcl' ⟨by decide, by decide⟩
        have hoffle : off + 1 ≤ lr.v.rest.length := hall.le_length (by omega)
        split
        · refine Wp.bind' (Wp.tabsF e3 (off + 1)) ?_
          intro off' lr4 ⟨e4, hle', hbl, hlen', p4⟩
          refine Wp.bind' (Wp.adv e4 h (hlen' hoffle) (by omega) ?_) ?_
          · exact AllAt.append (hall.mono (fun x hx => hx.1)) (hbl.mono blank_ne_lf)
          intro _ lr5 ⟨i5, f5, p5, _, _⟩
          exact Wp.pure ⟨i5, f5, fun _ _ => by omega⟩
        · refine Wp.bind (Wp.bufPrefixF e3 hoffle (by omega) ?_)
          refine Wp.bind (Wp.utf8Unwrap (allAt_take (hall.mono (fun x hx => hx.2))) ?_)
          exact Wp.pure ⟨h.ext e3, e3.fwd, fun v hv => by simp at hv⟩
      · exact Wp.pure ⟨h.ext e3, e3.fwd, fun v hv => by simp at hv⟩
    · exact Wp.pure ⟨h.ext e2, e2.fwd, fun v hv => by simp at hv⟩

/-- The common tail `line_at_offset(off); tabs_or_spaces; advance` of `comment` and `newline`. -/
theorem lineTailBlanks_ok {off : Nat} (e : Ext lr0 lr) (h : Inv b f lr0) (h0 : 0 < off)
    (hle : off ≤ lr0.v.rest.length) (hno : AllAt (· ≠ 10) lr0.v.rest 0 (off - 1))
    (hend : lr0.v.rest[off - 1]? = some 10 ∨ off = lr0.v.rest.length) :
    Wp E (do
        lineAtOffset off
        let off ← scan (Text.tabsOrSpaces · off)
        advance off
        pure (some ())) lr (LinePost b f lr0) := by
  refine Wp.bind' (Wp.lao e h h0 hle hno hend) ?_
  intro _ lr1 ⟨e1, _, hb1, ho1⟩
  refine Wp.bind' (Wp.tabsF e1 off) ?_
  intro off' lr2 ⟨e2, hle', hbl, hlen', p2⟩
  simp only [nextLine_v] at hbl hlen' p2
  have ho2 : OnLine b lr2.lineStart lr2.line ((nextLine lr0 off).v.pos + off') := by
    rw [e2.lineStart, e2.line]
    exact OnLine.extend hb1 (i := off) (j := off') ho1 hle' (hlen' hle) (hbl.mono blank_ne_lf)
  refine Wp.bind' (Wp.adv' e2 hb1 h.finv (hlen' hle) (by simp only [nextLine_v]; omega) ho2) ?_
  intro _ lr3 ⟨i3, p3, _⟩
  simp only [nextLine_v] at p3
  exact Wp.pure ⟨i3, by omega, fun _ => by omega⟩

/-- The common tail `line_at_offset(off); advance(off)` of the interactive line tokens. -/
theorem lineTailPlain_ok {off : Nat} (e : Ext lr0 lr) (h : Inv b f lr0) (h0 : 0 < off)
    (hle : off ≤ lr0.v.rest.length) (hno : AllAt (· ≠ 10) lr0.v.rest 0 (off - 1))
    (hend : lr0.v.rest[off - 1]? = some 10 ∨ off = lr0.v.rest.length)
    (hp : lr0.v.pos + off ≤ lr.v.peeked) :
    Wp E (do
        lineAtOffset off
        advance off
        pure (some ())) lr (LinePost b f lr0) := by
  refine Wp.bind' (Wp.lao e h h0 hle hno hend) ?_
  intro _ lr1 ⟨e1, hv1, hb1, ho1⟩
  have ho2 : OnLine b lr1.lineStart lr1.line ((nextLine lr0 off).v.pos + off) := by
    rw [e1.lineStart, e1.line]; exact ho1
  refine Wp.bind' (Wp.adv' e1 hb1 h.finv hle (by rw [hv1]; exact hp) ho2) ?_
  intro _ lr3 ⟨i3, p3, _⟩
  simp only [nextLine_v] at p3
  exact Wp.pure ⟨i3, by omega, fun _ => by omega⟩

/-- What `next_newline` from `k ≥ 1` establishes for the line tails, given that the first `k`
bytes are not newlines. -/
theorem nextNewline_facts {k r : Nat} {l : VBytes} (hk : AllAt (· ≠ 10) l 0 k) (_hkr : k ≤ r)
    (hlen : r ≤ l.length)
    (hcase : (k < r ∧ l[r - 1]? = some 10 ∧ AllAt (· ≠ 10) l k (r - 1)) ∨
      (l.length ≤ r ∧ AllAt (· ≠ 10) l k r)) :
    AllAt (· ≠ 10) l 0 (r - 1) ∧ (l[r - 1]? = some 10 ∨ r = l.length) := by
  rcases hcase with ⟨h1, h2, h3⟩ | ⟨h1, h2⟩
  · exact ⟨AllAt.append hk h3, Or.inl h2⟩
  · exact ⟨(AllAt.append hk h2).sub (Nat.le_refl _) (by omega), Or.inr (by omega)⟩

theorem comment_ok (h : Inv b f lr) : Wp E comment lr (LinePost b f lr) := by
  unfold comment
  refine Wp.bind' (Wp.reqByteF (Ext.refl lr)) ?_
  intro c lr1 ⟨e1, hc, p1, _⟩
  split
  · rename_i hcc
    have hc0 : lr.v.rest[0]? = some 99 := by rw [← hc]; simpa using hcc
    have h1 : 1 ≤ lr.v.rest.length := (AllAt.single (p := fun _ => True) hc0 trivial).le_length (by omega)
    refine Wp.bind' (Wp.nextNewlineF e1 1) ?_
    intro off lr2 ⟨e2, hle, hlen, hcase⟩
    have hcase' : (1 < off ∧ lr.v.rest[off - 1]? = some 10 ∧ AllAt (· ≠ 10) lr.v.rest 1 (off - 1)) ∨
        (lr.v.rest.length ≤ off ∧ AllAt (· ≠ 10) lr.v.rest 1 off) := by
      rcases hcase with ⟨a, b', c', _⟩ | ⟨a, b', _⟩
      · exact Or.inl ⟨a, b', c'⟩
      · exact Or.inr ⟨a, b'⟩
    obtain ⟨hno, hend⟩ := nextNewline_facts (AllAt.single hc0 (by decide)) hle (hlen h1) hcase'
    exact lineTailBlanks_ok e2 h (by omega) (hlen h1) hno hend
  · exact Wp.pure ⟨h.ext e1, by rw [e1.pos]; exact Nat.le_refl _, by simp⟩

theorem interactiveStrictComment_ok (h : Inv b f lr) :
    Wp E interactiveStrictComment lr (LinePost b f lr) := by
  unfold interactiveStrictComment
  refine Wp.bind' (Wp.fixed0F (Ext.refl lr) [99, 32]) ?_
  intro r lr1 ⟨e1, _, _, hr⟩
  split
  · rename_i hne
    have hne' : r ≠ 0 := by simpa using hne
    rcases hr with ⟨h0, _⟩ | ⟨hlen, hpre, hpk⟩
    · exact absurd h0 hne'
    have h2 : 2 ≤ lr.v.rest.length := hpre.length_le
    have hk : AllAt (· ≠ 10) lr.v.rest 0 2 :=
      allAt_prefix hpre (by intro x hx; simp at hx; rcases hx with rfl | rfl <;> decide)
    refine Wp.bind' (Wp.nextNewlineF e1 2) ?_
    intro off lr2 ⟨e2, hle, hlen2, hcase⟩
    have hcase' : (2 < off ∧ lr.v.rest[off - 1]? = some 10 ∧ AllAt (· ≠ 10) lr.v.rest 2 (off - 1)) ∨
        (lr.v.rest.length ≤ off ∧ AllAt (· ≠ 10) lr.v.rest 2 off) := by
      rcases hcase with ⟨a, b', c', _⟩ | ⟨a, b', _⟩
      · exact Or.inl ⟨a, b', c'⟩
      · exact Or.inr ⟨a, b'⟩
    have hpk2 : lr.v.pos + off ≤ lr2.v.peeked := by
      rcases hcase with ⟨_, _, _, p⟩ | ⟨_, _, p, _⟩ <;> omega
    obtain ⟨hno, hend⟩ := nextNewline_facts hk hle (hlen2 h2) hcase'
    exact lineTailPlain_ok e2 h (by omega) (hlen2 h2) hno hend hpk2
  · exact Wp.pure ⟨h.ext e1, by rw [e1.pos]; exact Nat.le_refl _, by simp⟩

theorem interactiveSkipLine_ok (h : Inv b f lr) :
    Wp E interactiveSkipLine lr (LinePost b f lr) := by
  unfold interactiveSkipLine
  refine Wp.bind' (Wp.nextNewlineF (Ext.refl lr) 0) ?_
  intro off lr1 ⟨e1, hle, hlen, hcase⟩
  split
  · rename_i hne
    have hne' : off ≠ 0 := by simpa using hne
    have hcase' : (0 < off ∧ lr.v.rest[off - 1]? = some 10 ∧ AllAt (· ≠ 10) lr.v.rest 0 (off - 1)) ∨
        (lr.v.rest.length ≤ off ∧ AllAt (· ≠ 10) lr.v.rest 0 off) := by
      rcases hcase with ⟨a, b', c', _⟩ | ⟨a, b', _⟩
      · exact Or.inl ⟨a, b', c'⟩
      · exact Or.inr ⟨a, b'⟩
    have hpk : lr.v.pos + off ≤ lr1.v.peeked := by
      rcases hcase with ⟨_, _, _, p⟩ | ⟨_, _, p, _⟩ <;> omega
    obtain ⟨hno, hend⟩ := nextNewline_facts (AllAt.empty _ _ 0) hle (hlen (Nat.zero_le _)) hcase'
    exact lineTailPlain_ok e1 h (by omega) (hlen (Nat.zero_le _)) hno hend hpk
  · exact Wp.pure ⟨h.ext e1, by rw [e1.pos]; exact Nat.le_refl _, by simp⟩

/-- What the `newline` scanner establishes for the line tails. -/
theorem newline_facts {r : Nat} {l : VBytes} (hne : r ≠ 0)
    (hr : (r = 0 ∧ l[0]? ≠ some 10 ∧ (l[0]? = some 13 → l[1]? ≠ some 10)) ∨
      (r = 1 ∧ l[0]? = some 10) ∨
      (r = 2 ∧ l[0]? = some 13 ∧ l[1]? = some 10)) :
    r ≤ l.length ∧ AllAt (· ≠ 10) l 0 (r - 1) ∧ (l[r - 1]? = some 10 ∨ r = l.length) := by
  rcases hr with ⟨h0, _⟩ | ⟨h1, h2⟩ | ⟨h1, h2, h3⟩
  · exact absurd h0 hne
  · subst h1
    exact ⟨(AllAt.single (p := fun _ => True) h2 trivial).le_length (by omega), AllAt.empty _ _ _,
      Or.inl h2⟩
  · subst h1
    exact ⟨(AllAt.single (p := fun _ => True) h3 trivial).le_length (by omega),
      AllAt.single h2 (by decide), Or.inl h3⟩

theorem newline_ok (h : Inv b f lr) : Wp E newline lr (LinePost b f lr) := by
  unfold newline
  refine Wp.bind' (Wp.newline0F (Ext.refl lr)) ?_
  intro off lr1 ⟨e1, hr, _⟩
  split
  · rename_i hne
    have hne' : off ≠ 0 := by simpa using hne
    obtain ⟨hlen, hno, hend⟩ := newline_facts hne' hr
    exact lineTailBlanks_ok e1 h (by omega) hlen hno hend
  · exact Wp.pure ⟨h.ext e1, by rw [e1.pos]; exact Nat.le_refl _, by simp⟩

theorem interactiveNewline_ok (h : Inv b f lr) :
    Wp E interactiveNewline lr (LinePost b f lr) := by
  unfold interactiveNewline
  refine Wp.bind' (Wp.newline0F (Ext.refl lr)) ?_
  intro off lr1 ⟨e1, hr, p1⟩
  split
  · rename_i hne
    have hne' : off ≠ 0 := by simpa using hne
    obtain ⟨hlen, hno, hend⟩ := newline_facts hne' hr
    have hpk : lr.v.pos + off ≤ lr1.v.peeked := by
      rw [p1]; simp only [hne', ↓reduceIte]; omega
    exact lineTailPlain_ok e1 h (by omega) hlen hno hend hpk
  · exact Wp.pure ⟨h.ext e1, by rw [e1.pos]; exact Nat.le_refl _, by simp⟩

/-- `eof` consumes nothing, and succeeds only at the end of a source that did not fail. -/
theorem eof_ok (h : Inv b f lr) :
    Wp E eof lr (fun r lr1 => Inv b f lr1 ∧ Fwd lr lr1 ∧ lr1.v.pos = lr.v.pos ∧
      (r.isSome = true → f = false ∧ lr1.v.sawEnd = true)) := by
  unfold eof
  refine Wp.bind' (Wp.reqByteF (Ext.refl lr)) ?_
  intro c lr1 ⟨e1, _, _, hse⟩
  have i1 := h.ext e1
  split
  · rename_i hnone
    refine Wp.bind (Wp.get ?_)
    split
    · rename_i hio
      refine Wp.pure ⟨i1, e1.fwd, e1.pos, fun _ => ?_⟩
      have hs := hse (by simpa using hnone)
      refine ⟨?_, hs⟩
      cases hf : f
      · rfl
      · have := i1.finv.1 (by rw [i1.fault]; exact hf) hs
        rw [this] at hio; simp at hio
    · exact Wp.pure ⟨i1, e1.fwd, e1.pos, by simp⟩
  · exact Wp.pure ⟨i1, e1.fwd, e1.pos, by simp⟩

/-- `or_parse` of two line-level tokens. -/
theorem orParse_line {α : Type} {p q : PM (Option α)}
    (hp : ∀ lr, Inv b f lr → Wp (Err b f) p lr (LinePost b f lr))
    (hq : ∀ lr, Inv b f lr → Wp (Err b f) q lr (LinePost b f lr)) (h : Inv b f lr) :
    Wp (Err b f) (orParse p q) lr (LinePost b f lr) := by
  refine Wp.orParse ((hp lr h).mono ?_)
  intro r lr1 ⟨i1, p1, s1⟩
  cases r with
  | some a => exact ⟨i1, p1, s1⟩
  | none =>
    refine (hq lr1 i1).mono ?_
    intro r2 lr2 ⟨i2, p2, s2⟩
    exact ⟨i2, by omega, fun hs => by have := s2 hs; omega⟩

/-- `interactive_end_of_line`: a consumed line end, or the clean end of a source that did not
fail. -/
theorem interactiveEndOfLine_ok (h : Inv b f lr) :
    Wp E interactiveEndOfLine lr (fun r lr1 => Inv b f lr1 ∧ lr.v.pos ≤ lr1.v.pos ∧
      (r.isSome = true → lr.v.pos < lr1.v.pos ∨ (f = false ∧ lr1.v.sawEnd = true))) := by
  unfold interactiveEndOfLine
  refine Wp.orParse ((interactiveNewline_ok h).mono ?_)
  intro r lr1 ⟨i1, p1, s1⟩
  cases r with
  | some a => exact ⟨i1, p1, fun hs => Or.inl (s1 hs)⟩
  | none =>
    refine (eof_ok i1).mono ?_
    intro r2 lr2 ⟨i2, f2, p2, s2⟩
    exact ⟨i2, by omega, fun hs => Or.inr (s2 hs)⟩

theorem skipWhitespace_ok (h : Inv b f lr) :
    Wp E skipWhitespace lr (fun _ lr1 => Inv b f lr1 ∧ Fwd lr lr1) := by
  unfold skipWhitespace
  refine Wp.bind' (Wp.tabsF (Ext.refl lr) 0) ?_
  intro off lr1 ⟨e1, _, hbl, hlen, p1⟩
  refine (Wp.adv e1 h (hlen (Nat.zero_le _)) (by omega) (hbl.mono blank_ne_lf)).mono ?_
  intro _ lr2 ⟨i2, f2, _⟩
  exact ⟨i2, f2⟩

/-- `unexpected` always fails, with an error at the cursor (or the parked I/O error). -/
theorem unexpected_ok {α : Type} {Q : α → LR → Prop} (h : Inv b f lr) :
    Wp (Err b f) (unexpected : PM α) lr Q := by
  unfold unexpected
  refine Wp.bind' (Wp.newline0F (Ext.refl lr)) ?_
  intro r lr1 ⟨e1, _, _⟩
  split
  · exact Wp.err (h.ext e1)
  · refine Wp.bind (Wp.get ?_)
    split
    · exact Wp.err (h.ext e1)
    · refine Wp.bind (Wp.get ?_)
      refine Wp.bind' (Wp.reqAtF e1 _) ?_
      intro _ lr2 ⟨e2, _⟩
      exact Wp.err (h.ext e2)

/-- `exceeds_var_count`: an error at the mark, which must be on the current line. -/
theorem exceedsVarCount_ok {α : Type} {Q : α → LR → Prop} (h : Inv b f lr) (hm : MarkOK lr) :
    Wp (Err b f) (exceedsVarCount : PM α) lr Q := by
  unfold exceedsVarCount
  refine Wp.bind (Wp.mark ?_)
  exact Wp.errAt h hm.1 hm.2

theorem setMark_ok (h : Inv b f lr) :
    Wp E setMark lr (fun _ lr1 => Inv b f lr1 ∧ MarkOK lr1 ∧ lr1.v.pos = lr.v.pos) := by
  refine Wp.setMark ⟨?_, ⟨h.online.le, Nat.le_refl _⟩, rfl⟩
  exact { size := h.size, rest := h.rest, pos_le := h.pos_le, fault := h.fault, online := h.online,
          finv := h.finv }

theorem varCount_ok (l : LitTy) (h : Inv b f lr) :
    Wp (Err b f) (varCount l) lr (LinePost b f lr) := by
  unfold varCount
  refine Wp.bind' (setMark_ok h) ?_
  intro _ lr1 ⟨i1, m1, p1⟩
  refine Wp.bind' (uint_ok usizeTy i1) ?_
  intro r lr2 ⟨i2, f2, s2⟩
  have m2 := m1.fwd f2
  have := f2.pos
  split
  · exact Wp.pure ⟨i2, by omega, by simp⟩
  · exact exceedsVarCount_ok i2 m2
  · split
    · exact exceedsVarCount_ok i2 m2
    · exact Wp.pure ⟨i2, by omega, fun _ => by have := s2 _ rfl; omega⟩

theorem uintCount_ok (t : IntTy) (h : Inv b f lr) :
    Wp (Err b f) (uintCount t) lr (LinePost b f lr) := by
  unfold uintCount
  refine Wp.bind' (setMark_ok h) ?_
  intro _ lr1 ⟨i1, m1, p1⟩
  refine Wp.bind' (uint_ok t i1) ?_
  intro r lr2 ⟨i2, f2, s2⟩
  have := f2.pos
  split
  · exact Wp.pure ⟨i2, by omega, by simp⟩
  · exact Wp.err i2
  · exact Wp.pure ⟨i2, by omega, fun _ => by have := s2 _ rfl; omega⟩

theorem clauseGroup_ok (limit : Int) (h : Inv b f lr) :
    Wp (Err b f) (clauseGroup limit) lr (LinePost b f lr) := by
  unfold clauseGroup
  refine Wp.bind' (setMark_ok h) ?_
  intro _ lr1 ⟨i1, m1, p1⟩
  refine Wp.bind' (bracedUint_ok usizeTy i1) ?_
  intro r lr2 ⟨i2, f2, s2⟩
  have m2 := m1.fwd f2
  have := f2.pos
  split
  · exact Wp.pure ⟨i2, by omega, by simp⟩
  · exact Wp.err i2
  · split
    · exact exceedsVarCount_ok i2 m2
    · exact Wp.pure ⟨i2, by omega, fun _ => by have := s2 _ rfl; omega⟩

/-- `Parsed::matches` of a line-level token. -/
theorem matches_line {α : Type} {p : PM (Option α)} (h : Wp (Err b f) p lr (LinePost b f lr)) :
    Wp (Err b f) («matches» p) lr (fun c lr1 => Inv b f lr1 ∧ lr.v.pos ≤ lr1.v.pos ∧
      (c = true → lr.v.pos < lr1.v.pos)) :=
  Wp.matches (Q := fun c lr1 => Inv b f lr1 ∧ lr.v.pos ≤ lr1.v.pos ∧
      (c = true → lr.v.pos < lr1.v.pos)) h

/-- A loop that repeats a line-level token while it matches: fuel `rest.length + 1` suffices. -/
theorem skipLinesLoop_ok (fuel : Nat) (h : Inv b f lr) (hf : lr.v.rest.length < fuel) :
    Wp (Err b f) (skipLinesLoop fuel) lr (fun _ lr1 => Inv b f lr1 ∧ lr.v.pos ≤ lr1.v.pos) := by
  induction fuel generalizing lr with
  | zero => omega
  | succ n ih =>
    unfold skipLinesLoop
    refine Wp.bind' (matches_line (orParse_line (fun _ => comment_ok) (fun _ => newline_ok) h)) ?_
    intro c lr1 ⟨i1, p1, s1⟩
    split
    · rename_i hc
      have hlt := h.toBase.rest_lt i1.toBase (s1 hc)
      refine (ih i1 (by omega)).mono ?_
      intro _ lr2 ⟨i2, p2⟩
      exact ⟨i2, by omega⟩
    · exact Wp.pure ⟨i1, p1⟩

theorem nonTerminatingLinebreaks_ok (h : Inv b f lr) :
    Wp (Err b f) nonTerminatingLinebreaks lr (fun r lr1 => Inv b f lr1 ∧ lr.v.pos ≤ lr1.v.pos ∧
      (r = true → lr.v.pos < lr1.v.pos)) := by
  unfold nonTerminatingLinebreaks
  refine Wp.bind' (matches_line (newline_ok h)) ?_
  intro c lr1 ⟨i1, p1, s1⟩
  dsimp only
  split
  · rename_i hc
    refine Wp.bind (Wp.get ?_)
    refine Wp.bind' (skipLinesLoop_ok _ i1 (by omega)) ?_
    intro _ lr2 ⟨i2, p2⟩
    exact Wp.pure ⟨i2, by omega, fun hc => by have := s1 hc; omega⟩
  · exact Wp.pure ⟨i1, p1, s1⟩

theorem litInt_ok (h : Inv b f lr) (hm : MarkOK lr) :
    Wp (Err b f) litInt lr (TokPost b f lr) := by
  unfold litInt
  refine Wp.bind' (int_ok isizeTy h) ?_
  intro r lr1 ⟨i1, f1, s1⟩
  split
  · exact Wp.pure ⟨i1, f1, by simp⟩
  · exact exceedsVarCount_ok i1 (hm.fwd f1)
  · exact Wp.pure ⟨i1, f1, fun _ => s1 _ rfl⟩

/-- The literal loop: fuel `rest.length + 1` suffices (every further literal consumes a byte), and
the clause is no longer than the bytes consumed for it. -/
theorem clauseLitsLoop_ok (l : LitTy) (limit : Int) (fuel : Nat) (lit : Int) (acc : List Int)
    (h : Inv b f lr) (hm : MarkOK lr) (hf : lr.v.rest.length < fuel) :
    Wp (Err b f) (clauseLitsLoop l limit fuel lit acc) lr (fun r lr1 => Inv b f lr1 ∧
      lr.v.pos ≤ lr1.v.pos ∧ r.length + lr.v.pos ≤ acc.length + lr1.v.pos) := by
  induction fuel generalizing lr lit acc with
  | zero => omega
  | succ n ih =>
    unfold clauseLitsLoop
    split
    · exact Wp.pure ⟨h, Nat.le_refl _, by simp⟩
    · split
      · refine Wp.bind' (setMark_ok h) ?_
        intro _ lr1 ⟨i1, m1, p1⟩
        refine Wp.bind' (litInt_ok i1 m1) ?_
        intro r lr2 ⟨i2, f2, s2⟩
        have hp2 := f2.pos
        split
        · have hlt := h.toBase.rest_lt i2.toBase (by have := s2 rfl; omega)
          refine (ih _ _ i2 (m1.fwd f2) (by omega)).mono ?_
          intro r3 lr3 ⟨i3, p3, l3⟩
          have := s2 rfl
          simp only [List.length_cons] at l3
          exact ⟨i3, by omega, by omega⟩
        · refine Wp.bind' (nonTerminatingLinebreaks_ok i2) ?_
          intro c lr3 ⟨i3, p3, s3⟩
          split
          · rename_i hc
            have hp3 := s3 hc
            refine Wp.bind' (setMark_ok i3) ?_
            intro _ lr4 ⟨i4, m4, p4⟩
            refine Wp.bind' (Q1 := fun _ lr5 => Inv b f lr5 ∧ MarkOK lr5 ∧ lr4.v.pos ≤ lr5.v.pos)
              (Wp.orGiveUp ((litInt_ok i4 m4).mono ?_)) ?_
            · intro r5 lr5 ⟨i5, f5, s5⟩
              cases r5 with
              | some a => exact ⟨i5, m4.fwd f5, f5.pos⟩
              | none => exact unexpected_ok i5
            · intro next lr5 ⟨i5, m5, p5⟩
              have hlt := h.toBase.rest_lt i5.toBase (by omega)
              refine (ih _ _ i5 m5 (by omega)).mono ?_
              intro r6 lr6 ⟨i6, p6, l6⟩
              simp only [List.length_cons] at l6
              exact ⟨i6, by omega, by omega⟩
          · exact unexpected_ok i3
      · exact exceedsVarCount_ok h hm

/-- `clause_lits`: on success at least one byte is consumed and the clause is no longer than the
bytes consumed. -/
theorem clauseLits_ok (l : LitTy) (limit : Int) (h : Inv b f lr) :
    Wp (Err b f) (clauseLits l limit) lr (fun r lr1 => Inv b f lr1 ∧ lr.v.pos ≤ lr1.v.pos ∧
      (r.isSome = true → lr.v.pos < lr1.v.pos) ∧
      (∀ lits, r = some lits → lits.length + lr.v.pos ≤ lr1.v.pos)) := by
  unfold clauseLits
  refine Wp.bind' (setMark_ok h) ?_
  intro _ lr1 ⟨i1, m1, p1⟩
  refine Wp.bind' (litInt_ok i1 m1) ?_
  intro r lr2 ⟨i2, f2, s2⟩
  have hp2 := f2.pos
  split
  · exact Wp.pure ⟨i2, by omega, by simp, by simp⟩
  · refine Wp.bind (Wp.get ?_)
    refine Wp.bind' (clauseLitsLoop_ok l limit _ _ [] i2 (m1.fwd f2) (by omega)) ?_
    intro lits lr3 ⟨i3, p3, l3⟩
    have := s2 rfl
    simp only [List.length_nil] at l3
    refine Wp.pure ⟨i3, by omega, fun _ => by omega, fun lits' hl => ?_⟩
    simp only [Option.some.injEq] at hl
    subst hl; omega

/-! ### exact error locations (C08)

The same functions once more with the error postcondition "an I/O error, or a syntax error at
exactly this line and position".  The scanning parts are shared (the lemmas above are generic in
the error postcondition); only the raising ends differ. -/

/-- The error is the parked I/O error or a syntax error on line `lr.line` at absolute position
`p` (column `p - line_start + 1`). -/
abbrev ErrAt (lr : LR) (p : Nat) (e : PErr) (_ : LR) : Prop :=
  e = .io ∨ e = .syn lr.line (p - lr.lineStart + 1)

theorem giveUpAt_at {α : Type} {Q : α → LR → Prop} {lr0 : LR} {p : Nat}
    (hl : lr.line = lr0.line) (hs : lr.lineStart = lr0.lineStart) (hp : lr0.lineStart ≤ p) :
    Wp (ErrAt lr0 p) (giveUpAt p : PM α) lr Q :=
  Wp.giveUpAt (fun _ => Or.inl rfl) (fun _ => ⟨by rw [hs]; exact hp, Or.inr (by rw [hl, hs])⟩)

theorem unexpected_at {α : Type} {Q : α → LR → Prop} (h : lr.lineStart ≤ lr.v.pos) :
    Wp (ErrAt lr lr.v.pos) (unexpected : PM α) lr Q := by
  have hg : ∀ lr1, Ext lr lr1 → Wp (ErrAt lr lr.v.pos) (giveUp : PM α) lr1 Q := by
    intro lr1 e1
    unfold PM.giveUp
    refine Wp.bind (Wp.position ?_)
    rw [e1.pos]
    exact giveUpAt_at e1.line e1.lineStart h
  unfold unexpected
  refine Wp.bind' (Wp.newline0F (Ext.refl lr)) ?_
  intro r lr1 ⟨e1, _, _⟩
  split
  · exact hg lr1 e1
  · refine Wp.bind (Wp.get ?_)
    split
    · exact hg lr1 e1
    · refine Wp.bind (Wp.get ?_)
      refine Wp.bind' (Wp.reqAtF e1 _) ?_
      intro _ lr2 ⟨e2, _⟩
      exact hg lr2 e2

theorem exceedsVarCount_at {α : Type} {Q : α → LR → Prop} {lr0 : LR} (hl : lr.line = lr0.line)
    (hs : lr.lineStart = lr0.lineStart) (hp : lr0.lineStart ≤ lr.v.mark) :
    Wp (ErrAt lr0 lr.v.mark) (exceedsVarCount : PM α) lr Q := by
  unfold exceedsVarCount
  refine Wp.bind (Wp.mark ?_)
  exact giveUpAt_at hl hs hp

theorem setMark_ok' (h : Inv b f lr) :
    Wp E setMark lr (fun _ lr1 => Inv b f lr1 ∧ lr1.v.mark = lr.v.pos ∧ lr1.v.pos = lr.v.pos ∧
      lr1.line = lr.line ∧ lr1.lineStart = lr.lineStart) := by
  refine Wp.setMark ⟨?_, rfl, rfl, rfl, rfl⟩
  exact { size := h.size, rest := h.rest, pos_le := h.pos_le, fault := h.fault, online := h.online,
          finv := h.finv }

/-- `var_count`: every error it raises is at the first byte of the numeral. -/
theorem varCount_at (l : LitTy) (h : Inv b f lr) :
    Wp (ErrAt lr lr.v.pos) (varCount l) lr (fun _ _ => True) := by
  unfold varCount
  refine Wp.bind' (setMark_ok' h) ?_
  intro _ lr1 ⟨i1, m1, p1, l1, s1⟩
  refine Wp.bind' (uint_ok usizeTy i1) ?_
  intro r lr2 ⟨i2, f2, _⟩
  have hm : lr2.v.mark = lr.v.pos := f2.mark.trans m1
  have hle := h.online.le
  split
  · exact Wp.pure trivial
  · rw [← hm]
    exact exceedsVarCount_at (f2.line.trans l1) (f2.lineStart.trans s1) (by rw [hm]; exact hle)
  · split
    · rw [← hm]
      exact exceedsVarCount_at (f2.line.trans l1) (f2.lineStart.trans s1) (by rw [hm]; exact hle)
    · exact Wp.pure trivial

/-- `uint_count`: an unrepresentable count is reported at the first byte of the numeral (nothing
of it has been consumed). -/
theorem uintCount_at (t : IntTy) (h : Inv b f lr) :
    Wp (ErrAt lr lr.v.pos) (uintCount t) lr (fun _ _ => True) := by
  unfold uintCount
  refine Wp.bind' (setMark_ok' h) ?_
  intro _ lr1 ⟨i1, m1, p1, l1, s1⟩
  refine Wp.bind' (Q1 := fun r lr2 => Fwd lr1 lr2 ∧ (r = some none → lr2.v.pos = lr1.v.pos)) ?_ ?_
  · -- the overflow result consumes nothing
    unfold uint
    refine Wp.bind' (Wp.asciiDigitsF (Ext.refl lr1) t 0) ?_
    intro r lr2 ⟨e2, _, hd, _, _⟩
    obtain ⟨value, off⟩ := r
    have hnum := hd.mono (fun x hx => num_byte x (Or.inl hx))
    dsimp only at hnum ⊢
    unfold numberTail
    split
    · have hoffle : off ≤ lr1.v.rest.length := hnum.le_length (by rename_i hne; simp at hne; omega)
      refine Wp.bind' (isEndOfWord_ok e2 off) ?_
      intro c lr3 ⟨e3, p3⟩
      split
      · split
        · refine Wp.bind' (Wp.tabsF e3 off) ?_
          intro off' lr4 ⟨e4, hle, hbl, hlen', p4⟩
          refine Wp.bind' (Wp.adv e4 i1 (hlen' hoffle) (by omega) ?_) ?_
          · exact AllAt.append (hnum.mono (fun x hx => hx.1)) (hbl.mono blank_ne_lf)
          intro _ lr5 ⟨_, f5, _⟩
          exact Wp.pure ⟨f5, by simp⟩
        · refine Wp.bind (Wp.bufPrefixF e3 hoffle (by omega) ?_)
          refine Wp.bind (Wp.utf8Unwrap (allAt_take (hnum.mono (fun x hx => hx.2))) ?_)
          exact Wp.pure ⟨e3.fwd, fun _ => e3.pos⟩
      · exact Wp.pure ⟨e3.fwd, by simp⟩
    · exact Wp.pure ⟨e2.fwd, by simp⟩
  · intro r lr2 ⟨f2, hz⟩
    split
    · exact Wp.pure trivial
    · unfold PM.giveUp
      refine Wp.bind (Wp.position ?_)
      rw [hz rfl, p1]
      exact giveUpAt_at (f2.line.trans l1) (f2.lineStart.trans s1) h.online.le
    · exact Wp.pure trivial

/-- `litInt` (the literal scanner of clauses and value lines): an unrepresentable literal is
reported at the mark. -/
theorem litInt_at (h : Inv b f lr) (hm : lr.lineStart ≤ lr.v.mark) :
    Wp (ErrAt lr lr.v.mark) litInt lr (fun _ _ => True) := by
  unfold litInt
  refine Wp.bind' (int_ok isizeTy h) ?_
  intro r lr1 ⟨_, f1, _⟩
  split
  · exact Wp.pure trivial
  · rw [← f1.mark]
    exact exceedsVarCount_at f1.line f1.lineStart (by rw [f1.mark]; exact hm)
  · exact Wp.pure trivial

end Cnf
end Flussab
