/-
Line geometry of a byte string, for property C08 ("a syntax error designates a position inside
the input").

`linesOf b` are the `'\n'`-separated segments of `b`: an unterminated last segment counts as a
line, a trailing newline does not open a new one (this is `delivered.split(|b| *b == b'\n')` with
a trailing empty segment popped — the oracle of `harness/src/eng_cnf.rs`, search for `C08:`).

`LineAt b s l` is the bookkeeping invariant of `LineReader`: `s` (`line_start`) is `0` or follows
a `'\n'` and `l` (`line`) is one more than the number of newlines in front of it — or, after a
comment that ran into the end of the input without a newline, `s` is the end of the input and `l`
is one more than the number of lines.  `lineAt_inRange` turns it into the range statement of C08.
-/
import Flussab.Model.View

namespace Flussab
namespace Lines

/-- The lines of `b`. -/
def linesOf : VBytes → List VBytes
  | [] => []
  | c :: cs =>
    if c = 10 then [] :: linesOf cs
    else match linesOf cs with
      | [] => [[c]]
      | s :: ss => (c :: s) :: ss

/-- Number of lines. -/
def nlines (b : VBytes) : Nat := (linesOf b).length

/-- Length of line `l` (1-based, without its newline); `0` for a line that does not exist. -/
def lineLen (b : VBytes) (l : Nat) : Nat :=
  if l = 0 then 0 else
    match (linesOf b)[l - 1]? with
    | some s => s.length
    | none => 0

/-- `(l, c)` designates a position inside `b`: an existing line or the one after the last, and a
column on it or the one after its last byte. -/
def InRange (b : VBytes) (l c : Nat) : Prop :=
  1 ≤ l ∧ l ≤ nlines b + 1 ∧ 1 ≤ c ∧ c ≤ lineLen b l + 1

/-- No `'\n'` among `b[s..p)`. -/
def NoLF (b : VBytes) (s p : Nat) : Prop := ∀ i, s ≤ i → i < p → b[i]? ≠ some 10

/-- `s` starts a line: the beginning of the input or the byte after a newline. -/
def StartsLine (b : VBytes) (s : Nat) : Prop := s ≤ b.length ∧ (s = 0 ∨ b[s - 1]? = some 10)

/-- The `(line_start, line)` bookkeeping is right (see the file comment). -/
def LineAt (b : VBytes) (s l : Nat) : Prop :=
  (StartsLine b s ∧ l = 1 + (b.take s).count 10) ∨
  (s = b.length ∧ ∃ t, t < s ∧ StartsLine b t ∧ NoLF b t s ∧ l = 2 + (b.take t).count 10)

/-! ### `linesOf` -/

theorem linesOf_eq_nil (b : VBytes) : linesOf b = [] ↔ b = [] := by
  cases b with
  | nil => simp [linesOf]
  | cons c cs =>
    simp only [linesOf]
    split
    · simp
    · split <;> simp

/-- The first line is the run up to the first newline. -/
theorem linesOf_head (b : VBytes) (hb : b ≠ []) :
    ∃ t, linesOf b = b.takeWhile (· != 10) :: t := by
  induction b with
  | nil => exact absurd rfl hb
  | cons c cs ih =>
    simp only [linesOf]
    by_cases hc : c = 10
    · subst hc; simp [List.takeWhile]
    · have hc' : (c != 10) = true := by simpa using hc
      simp only [hc, ↓reduceIte, List.takeWhile, hc']
      by_cases hcs : cs = []
      · subst hcs; simp [linesOf, List.takeWhile]
      · obtain ⟨t, ht⟩ := ih hcs
        rw [ht]; exact ⟨t, rfl⟩

/-- A non-empty string without newline is one line. -/
theorem linesOf_single (r : VBytes) (hr : r ≠ []) (h : ∀ x ∈ r, x ≠ 10) : linesOf r = [r] := by
  induction r with
  | nil => exact absurd rfl hr
  | cons c cs ih =>
    have hc : c ≠ 10 := h c (by simp)
    simp only [linesOf, hc, ↓reduceIte]
    by_cases hcs : cs = []
    · subst hcs; simp [linesOf]
    · rw [ih hcs (fun x hx => h x (by simp [hx]))]

theorem linesOf_append_lf (x y : VBytes) :
    linesOf (x ++ 10 :: y) = linesOf (x ++ [10]) ++ linesOf y := by
  induction x with
  | nil => simp [linesOf]
  | cons c cs ih =>
    simp only [List.cons_append, linesOf]
    by_cases hc : c = 10
    · simp [hc, ih]
    · simp only [hc, ↓reduceIte, ih]
      have hne : linesOf (cs ++ [10]) ≠ [] := by
        intro h; rw [linesOf_eq_nil] at h; simp at h
      cases hl : linesOf (cs ++ [10]) with
      | nil => exact absurd hl hne
      | cons s ss => simp

theorem linesOf_lf_length (x : VBytes) : (linesOf (x ++ [10])).length = x.count 10 + 1 := by
  induction x with
  | nil => simp [linesOf]
  | cons c cs ih =>
    simp only [List.cons_append, linesOf]
    by_cases hc : c = 10
    · subst hc; simp [ih]
    · have hne : linesOf (cs ++ [10]) ≠ [] := by
        intro h; rw [linesOf_eq_nil] at h; simp at h
      have hc' : (c == 10) = false := by simpa using hc
      simp only [hc, ↓reduceIte, List.count_cons, hc', Bool.false_eq_true, Nat.add_zero]
      cases hl : linesOf (cs ++ [10]) with
      | nil => exact absurd hl hne
      | cons s ss => rw [hl] at ih; simpa using ih

/-- Splitting the input at the start of a line splits the list of lines; the part in front has
as many lines as newlines. -/
theorem linesOf_split (b : VBytes) (t : Nat) (h : StartsLine b t) :
    ∃ pre, linesOf b = pre ++ linesOf (b.drop t) ∧ pre.length = (b.take t).count 10 := by
  obtain ⟨hle, h0 | hlf⟩ := h
  · subst h0; exact ⟨[], by simp, by simp⟩
  · by_cases ht : t = 0
    · subst ht; exact ⟨[], by simp, by simp⟩
    · have hlt : t - 1 < b.length := by omega
      have hget : b[t - 1] = 10 := by
        have := List.getElem?_eq_getElem hlt
        rw [hlf] at this; simpa using this.symm
      have hsplit : b = b.take (t - 1) ++ 10 :: b.drop t := by
        have h1 : b = b.take (t - 1) ++ b.drop (t - 1) := (List.take_append_drop _ _).symm
        have h2 : b.drop (t - 1) = b[t - 1] :: b.drop (t - 1 + 1) := List.drop_eq_getElem_cons hlt
        have h3 : t - 1 + 1 = t := by omega
        rw [h3, hget] at h2
        rw [← h2]; exact h1
      have htake : b.take t = b.take (t - 1) ++ [10] := by
        have : b.take t = (b.take (t - 1) ++ 10 :: b.drop t).take t := by rw [← hsplit]
        rw [this, List.take_append]
        have hl : (b.take (t - 1)).length = t - 1 := by simp; omega
        rw [hl]
        have h4 : t - (t - 1) = 1 := by omega
        rw [h4]
        have : List.take t (List.take (t - 1) b) = List.take (t - 1) b := by
          rw [List.take_take]; congr 1; omega
        rw [this]; rfl
      refine ⟨linesOf (b.take (t - 1) ++ [10]), ?_, ?_⟩
      · conv => lhs; rw [hsplit]
        exact linesOf_append_lf _ _
      · rw [linesOf_lf_length, htake]; simp

/-! ### runs without newline -/

theorem noLF_takeWhile (r : VBytes) (k : Nat) (hk : k ≤ r.length)
    (h : ∀ i, i < k → r[i]? ≠ some 10) : k ≤ (r.takeWhile (· != 10)).length := by
  induction r generalizing k with
  | nil => simpa using hk
  | cons c cs ih =>
    cases k with
    | zero => exact Nat.zero_le _
    | succ k =>
      have hc : c ≠ 10 := by
        have := h 0 (by omega); simpa using this
      have hc' : (c != 10) = true := by simpa using hc
      simp only [List.takeWhile, hc', List.length_cons]
      have := ih k (by simpa using hk) (fun i hi => by
        have := h (i + 1) (by omega); simpa using this)
      omega

theorem count_take_of_noLF (b : VBytes) (s p : Nat) (hsp : s ≤ p) (h : NoLF b s p) :
    (b.take p).count 10 = (b.take s).count 10 := by
  induction p with
  | zero => have : s = 0 := by omega
            subst this; rfl
  | succ p ih =>
    by_cases hs : s = p + 1
    · subst hs; rfl
    · have hsp' : s ≤ p := by omega
      rw [← ih hsp' (fun i h1 h2 => h i h1 (by omega))]
      by_cases hp : p < b.length
      · rw [List.take_succ_eq_append_getElem hp, List.count_append]
        have : b[p] ≠ 10 := by
          have h1 := h p hsp' (by omega)
          rw [List.getElem?_eq_getElem hp] at h1
          simpa using h1
        simp [this]
      · rw [List.take_of_length_le (by omega), List.take_of_length_le (by omega)]

theorem count_take_lf (b : VBytes) (p : Nat) (h : b[p]? = some 10) :
    (b.take (p + 1)).count 10 = (b.take p).count 10 + 1 := by
  have hp : p < b.length := (List.getElem?_eq_some_iff.mp h).1
  have hg : b[p] = 10 := (List.getElem?_eq_some_iff.mp h).2
  rw [List.take_succ_eq_append_getElem hp, List.count_append, hg]
  simp

theorem count_take_le (b : VBytes) (s : Nat) : (b.take s).count 10 ≤ b.length := by
  have h1 := List.count_le_length (a := (10 : UInt8)) (l := b.take s)
  have h2 : (b.take s).length ≤ b.length := by simp; omega
  omega

/-! ### `LineAt` -/

theorem lineAt_init (b : VBytes) : LineAt b 0 1 :=
  Or.inl ⟨⟨Nat.zero_le _, Or.inl rfl⟩, by simp⟩

theorem lineAt_le (b : VBytes) (s l : Nat) (h : LineAt b s l) : s ≤ b.length ∧ l ≤ b.length + 2 := by
  rcases h with ⟨⟨h1, _⟩, h2⟩ | ⟨h1, t, _, _, _, h2⟩
  · have := count_take_le b s; omega
  · have := count_take_le b t; omega

/-- `line_at_offset`: the new line start `s'` lies behind a newline that is the only one since the
old line start, or it is the end of an input whose last line has no newline. -/
theorem lineAt_step (b : VBytes) (s l s' : Nat) (h : LineAt b s l) (hlt : s < s')
    (hle : s' ≤ b.length) (hno : NoLF b s (s' - 1))
    (hend : b[s' - 1]? = some 10 ∨ s' = b.length) : LineAt b s' (l + 1) := by
  rcases h with ⟨hst, hl⟩ | ⟨hs, _⟩
  · by_cases hlf : b[s' - 1]? = some 10
    · left
      refine ⟨⟨hle, Or.inr hlf⟩, ?_⟩
      have h1 := count_take_lf b (s' - 1) hlf
      have h2 := count_take_of_noLF b s (s' - 1) (by omega) hno
      have h3 : s' - 1 + 1 = s' := by omega
      rw [h3] at h1
      omega
    · right
      have hs' : s' = b.length := by
        rcases hend with h | h
        · exact absurd h hlf
        · exact h
      refine ⟨hs', s, hlt, hst, ?_, by omega⟩
      intro i h1 h2
      by_cases hi : i < s' - 1
      · exact hno i h1 hi
      · have : i = s' - 1 := by omega
        subst this; exact hlf
  · omega

/-- **The bookkeeping invariant gives the range statement**: an error reported at a position `p`
of the current line (`line_start ≤ p`, no newline between them) designates a position inside the
input. -/
theorem lineAt_inRange (b : VBytes) (s l p : Nat) (h : LineAt b s l) (hsp : s ≤ p)
    (hp : p ≤ b.length) (hno : NoLF b s p) : InRange b l (p - s + 1) := by
  -- the analysis at a line start `t` with `k` newlines in front of it
  have key : ∀ t, StartsLine b t →
      (t = b.length → nlines b = (b.take t).count 10) ∧
      (t < b.length → (b.take t).count 10 < nlines b ∧
        ∀ q, t ≤ q → q ≤ b.length → NoLF b t q → q - t ≤ lineLen b ((b.take t).count 10 + 1) ∧
          (q = b.length → nlines b = (b.take t).count 10 + 1)) := by
    intro t ht
    obtain ⟨pre, hpre, hlen⟩ := linesOf_split b t ht
    refine ⟨?_, ?_⟩
    · intro he
      have : b.drop t = [] := by rw [he]; simp
      rw [this] at hpre
      simp only [nlines, hpre, linesOf, List.append_nil, hlen]
    · intro hlt
      have hne : b.drop t ≠ [] := by
        intro h0
        have := congrArg List.length h0
        simp at this; omega
      obtain ⟨tl, htl⟩ := linesOf_head (b.drop t) hne
      refine ⟨?_, ?_⟩
      · simp only [nlines, hpre, htl, List.length_append, List.length_cons]; omega
      · intro q hq1 hq2 hq3
        have hrun : q - t ≤ ((b.drop t).takeWhile (· != 10)).length := by
          apply noLF_takeWhile
          · simp; omega
          · intro i hi
            rw [List.getElem?_drop]
            exact hq3 (t + i) (by omega) (by omega)
        have hline : lineLen b ((b.take t).count 10 + 1) = ((b.drop t).takeWhile (· != 10)).length := by
          simp only [lineLen, Nat.add_one_ne_zero, ↓reduceIte, Nat.add_sub_cancel, hpre, htl]
          rw [List.getElem?_append_right (by omega), hlen]
          simp
        refine ⟨by omega, ?_⟩
        intro hqe
        subst hqe
        have hall : ∀ x ∈ b.drop t, x ≠ 10 := by
          intro x hx
          obtain ⟨i, hi, hxi⟩ := List.getElem_of_mem hx
          have h1 := hq3 (t + i) (by omega) (by simp at hi; omega)
          rw [← List.getElem?_drop, List.getElem?_eq_getElem hi, hxi] at h1
          simpa using h1
        rw [linesOf_single _ hne hall] at hpre
        simp only [nlines, hpre, List.length_append, hlen, List.length_cons, List.length_nil]
  rcases h with ⟨hst, hl⟩ | ⟨hs, t, htlt, hst, hnot, hl⟩
  · obtain ⟨k1, k2⟩ := key s hst
    by_cases hse : s = b.length
    · have hn := k1 hse
      have hps : p - s = 0 := by omega
      refine ⟨by omega, by omega, by omega, ?_⟩
      rw [hps]; omega
    · obtain ⟨k3, k4⟩ := k2 (by have := hst.1; omega)
      obtain ⟨k5, _⟩ := k4 p hsp hp hno
      refine ⟨by omega, by omega, by omega, ?_⟩
      rw [hl, Nat.add_comm 1]; omega
  · obtain ⟨_, k2⟩ := key t hst
    obtain ⟨k3, k4⟩ := k2 (by omega)
    obtain ⟨_, k6⟩ := k4 b.length (by omega) (Nat.le_refl _) (hs ▸ hnot)
    have hn := k6 rfl
    have hps : p - s = 0 := by omega
    refine ⟨by omega, by omega, by omega, ?_⟩
    rw [hps]; omega

/-- Sanity: the definition agrees with the oracle on the boundary cases (empty input, missing
final newline, trailing newline, empty lines). -/
example :
    linesOf [] = [] ∧ linesOf [97, 98] = [[97, 98]] ∧ linesOf [97, 98, 10] = [[97, 98]] ∧
    linesOf [10] = [[]] ∧ linesOf [97, 10, 10, 98] = [[97], [], [98]] ∧
    linesOf [10, 10] = [[], []] ∧ lineLen [97, 10, 98, 99] 2 = 2 ∧ lineLen [97, 10] 2 = 0 := by
  decide

end Lines
end Flussab
