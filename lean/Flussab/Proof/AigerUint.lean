/-
The decimal token of the AIGER formats (`token::uint`): what it accepts is exactly the canonical
decimal text of the value it returns (`uint_exact`), and conversely it reads the canonical text of
every `usize` back (`uint_natDigits`, used by the round-trip proofs).  Composes C13
`digits_exact` (the scanner returns the value of the digit run iff it fits) with the
leading-zero rule of `uint` and the uniqueness of canonical decimal text.
-/
import Flussab.Proof.AigerToken
import Flussab.Proof.Decimal
import Flussab.Props.C13

namespace Flussab
namespace Aiger
open PM Writer

theorem decVal_single (b : UInt8) : Text.decVal [b] = b.toNat - 48 := by
  simp [Text.decVal]

theorem digit_ofNat (b : UInt8) (h : isDigit b = true) :
    UInt8.ofNat (48 + (b.toNat - 48)) = b ∧ b.toNat - 48 < 10 := by
  simp only [isDigit, Bool.and_eq_true, decide_eq_true_eq] at h
  have h1 : 48 ≤ b.toNat := by have := UInt8.le_iff_toNat_le.mp h.1; simpa using this
  have h2 : b.toNat ≤ 57 := by have := UInt8.le_iff_toNat_le.mp h.2; simpa using this
  have : 48 + (b.toNat - 48) = b.toNat := by omega
  rw [this]
  exact ⟨UInt8.ofNat_toNat, by omega⟩

theorem decVal_pos (ds : VBytes) (hall : ∀ b ∈ ds, isDigit b = true) (hne : ds ≠ [])
    (hh : ds.head? ≠ some 48) : 1 ≤ Text.decVal ds := by
  cases ds with
  | nil => exact absurd rfl hne
  | cons h t =>
    have := Text.decVal_append [h] t
    simp only [List.singleton_append] at this
    rw [this, decVal_single]
    have hd := hall h (by simp)
    simp only [isDigit, Bool.and_eq_true, decide_eq_true_eq] at hd
    have h1 : 48 ≤ h.toNat := by have := UInt8.le_iff_toNat_le.mp hd.1; simpa using this
    have hne48 : h.toNat ≠ 48 := by
      intro he
      apply hh
      simp only [List.head?_cons, Option.some.injEq]
      exact UInt8.toNat_inj.mp (by simpa using he)
    have hp : 0 < 10 ^ t.length := Nat.pow_pos (by decide)
    have : 1 * 1 ≤ (h.toNat - 48) * 10 ^ t.length := Nat.mul_le_mul (by omega) hp
    omega

/-- **Canonical decimal text is unique**: a non-empty digit string without a leading zero (or the
single digit `0`) is the canonical text of its value. -/
theorem canonical_digits : ∀ (n : Nat) (ds : VBytes), ds.length = n → (∀ b ∈ ds, isDigit b = true) →
    ds ≠ [] → (ds.head? ≠ some 48 ∨ ds.length = 1) → ds = digitsOf (Text.decVal ds) := by
  intro n
  induction n with
  | zero => intro ds hl _ hne _; exact absurd (List.eq_nil_of_length_eq_zero hl) hne
  | succ n ih =>
    intro ds hl hall hne hlz
    rcases List.eq_nil_or_concat ds with h | ⟨L, b, h⟩
    · exact absurd h hne
    · rw [List.concat_eq_append] at h
      subst h
      have hb := hall b (by simp)
      obtain ⟨hb1, hb2⟩ := digit_ofNat b hb
      rw [Text.decVal_append, decVal_single]
      simp only [List.length_singleton, Nat.pow_one]
      by_cases hL : L = []
      · subst hL
        simp only [Text.decVal_nil, Nat.zero_mul, Nat.zero_add, List.nil_append]
        rw [digitsOf]
        simp only [hb2, ↓reduceDIte, hb1]
      · have hlen : L.length = n := by simpa using hl
        have h2 : 2 ≤ (L ++ [b]).length := by
          have : 0 < L.length := List.length_pos_iff.mpr hL
          simp only [List.length_append, List.length_singleton]; omega
        have hhead : L.head? ≠ some 48 := by
          rcases hlz with h | h
          · cases L with
            | nil => exact absurd rfl hL
            | cons x xs => simpa using h
          · omega
        have hLall : ∀ x ∈ L, isDigit x = true := fun x hx => hall x (by simp [hx])
        have ihL := ih L hlen hLall hL (Or.inl hhead)
        have hpos := decVal_pos L hLall hL hhead
        rw [digitsOf]
        have hge : ¬ Text.decVal L * 10 + (b.toNat - 48) < 10 := by omega
        simp only [hge, ↓reduceDIte]
        have hdiv : (Text.decVal L * 10 + (b.toNat - 48)) / 10 = Text.decVal L := by omega
        have hmod : (Text.decVal L * 10 + (b.toNat - 48)) % 10 = b.toNat - 48 := by omega
        rw [hdiv, hmod, hb1, ← ihL]

/-- **`uint` is exact** (C06 `aiger_uint_exact`): whenever it returns `v`, the bytes it consumed
are the canonical decimal text of `v` — in particular digits only, no leading zero — and `v` is a
`usize`. -/
theorem uint_exact (lr lr' : LR) (v : Nat) (h : uint.run lr = (.ok (.ok v), lr')) :
    ∃ rest, lr.v.rest = natDigits v ++ rest ∧ lr'.v.rest = rest ∧ v < 2 ^ 64 ∧
      lr'.v.pos = lr.v.pos + (natDigits v).length := by
  have hex := C13.digits_exact usizeTy (by decide) lr.v 0
  simp only [List.drop_zero, Nat.zero_add] at hex
  have hst : (Text.asciiDigits usizeTy lr.v 0).2.rest = lr.v.rest ∧
      (Text.asciiDigits usizeTy lr.v 0).2.pos = lr.v.pos := by
    simp only [Text.asciiDigits, Text.digitsCont]
    exact ⟨demand_rest _ _, demand_pos _ _⟩
  have hall : ∀ b ∈ lr.v.rest.takeWhile isDigit, isDigit b = true := Text.takeWhile_all _ _
  obtain ⟨t, ht⟩ := List.takeWhile_prefix (l := lr.v.rest) isDigit
  generalize lr.v.rest.takeWhile isDigit = ds at hex hall ht
  unfold uint at h
  simp only [run_bind, run_scan, hex] at h
  generalize (Text.asciiDigits usizeTy lr.v 0).2 = v1 at h hst
  by_cases hne : (ds.length != 0) = true
  · simp only [hne, ↓reduceIte, run_bind, run_bufPrefix] at h
    by_cases hdem : ds.length ≤ v1.demanded
    · simp only [hdem, ↓reduceIte] at h
      have htake : v1.rest.take ds.length = ds := by
        rw [hst.1, ← ht, List.take_left']; rfl
      rw [htake] at h
      cases hcs : ds with
      | nil => rw [hcs] at hne; simp at hne
      | cons b0 tl =>
        rw [hcs] at h
        simp only at h
        rw [← hcs] at h
        by_cases hplain : (b0 != 48 || ds.length == 1) = true
        · by_cases hfit : usizeTy.fits ↑(Text.decVal ds) = true
          · simp only [hplain, hfit, ↓reduceIte, run_bind, run_advance, hdem, run_pure] at h
            cases h
            have hcanon : ds = digitsOf (Text.decVal ds) := by
              refine canonical_digits ds.length ds rfl hall (by rw [hcs]; simp) ?_
              simp only [Bool.or_eq_true, bne_iff_ne, ne_eq, beq_iff_eq] at hplain
              rcases hplain with hp | hp
              · left; rw [hcs]; simpa using hp
              · right; exact hp
            have hlt : Text.decVal ds < 2 ^ 64 := by
              rw [IntTy.fits_iff] at hfit
              simp only [usizeTy, IntTy.maxVal, Bool.false_eq_true, ↓reduceIte] at hfit
              omega
            simp only [Int.toNat_natCast]
            refine ⟨t, ?_, ?_, hlt, ?_⟩
            · rw [natDigits_eq, ← hcanon, ht]
            · show v1.rest.drop ds.length = t
              rw [hst.1, ← ht, List.drop_left']; rfl
            · show v1.pos + ds.length = _
              rw [hst.2, natDigits_eq, ← hcanon]
          · simp only [hplain, hfit, Bool.false_eq_true, ↓reduceIte, run_bind, run_utf8Unwrap] at h
            split at h <;> cases h
        · have hplain' : (b0 != 48 || ds.length == 1) = false := by simpa using hplain
          simp only [hplain', run_bind, run_utf8Unwrap] at h
          split at h <;> cases h
    · simp only [hdem, ↓reduceIte] at h
      cases h
  · simp only [hne, Bool.false_eq_true, ↓reduceIte, run_pure] at h
    cases h

end Aiger
end Flussab
