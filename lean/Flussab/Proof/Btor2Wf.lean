/-
The converse of the round trip (C03): every `Line` that `next_line` returns is in the domain
`Line.wf` of `btor2_roundtrip` — ids are non-zero `u64`s, indices `u64`s, constants are accepted by
the `TryFrom` validators, a `justice` line has as many (≥ 1) conditions as it announces, symbols
and comments are of the shape the writer can emit.  A partial-correctness pass (error
postcondition `T`) that tracks the returned values; no hypothesis on the reader state is needed.
-/
import Flussab.Proof.Btor2Lookahead
import Flussab.Proof.Btor2Roundtrip

namespace Flussab
namespace Btor2
open PM

variable {lr : LR}

/-- `&buf()[..n]` with its value. -/
theorem Wp.bufPrefix_val (n : Nat) :
    Wp T (PM.bufPrefix n) lr (fun bs lr1 => lr1 = lr ∧ bs = lr.v.rest.take n ∧ n ≤ lr.v.rest.length) := by
  unfold PM.bufPrefix
  refine Wp.bind (Wp.get ?_)
  by_cases hn : n ≤ lr.v.demanded
  · simp only [View.bufPrefix, hn, ↓reduceIte]
    have : lr.v.demanded ≤ lr.v.rest.length := by unfold View.demanded; omega
    exact Wp.pure ⟨rfl, rfl, by omega⟩
  · simp only [View.bufPrefix, hn, ↓reduceIte]
    trivial

theorem Wp.advanceWithBuf_val (n : Nat) :
    Wp T (PM.advanceWithBuf n) lr (fun bs _ => bs = lr.v.rest.take n ∧ n ≤ lr.v.rest.length) := by
  unfold PM.advanceWithBuf
  refine Wp.bind' (Wp.bufPrefix_val n) ?_
  intro bs lr1 ⟨e1, hb, hn⟩
  subst e1
  refine Wp.bind_any ?_
  intro _ lr2
  exact Wp.pure ⟨hb, hn⟩

/-- Nothing consumed. -/
structure SameV (lr lr1 : LR) : Prop where
  rest : lr1.v.rest = lr.v.rest

theorem Wp.reqAt_val (k : Nat) :
    Wp T (PM.reqAt k) lr (fun x lr1 => x = lr.v.rest[k]? ∧ lr1.v.rest = lr.v.rest) :=
  Wp.reqAt ⟨rfl, demand_rest _ _⟩

/-! ### numbers -/

theorem Wp.asciiDigits_val :
    Wp T (PM.scan (Text.asciiDigits u64Ty · 0)) lr (fun r _ => ∀ x, r.1 = some x → x.toNat < 2 ^ 64) := by
  apply Wp.scan
  have hx := C13.digits_exact u64Ty (by decide) lr.v 0
  simp only at hx
  rw [hx]
  intro x hxv
  simp only at hxv
  split at hxv
  · rename_i hfit
    simp only [Option.some.injEq] at hxv
    subst hxv
    rw [IntTy.fits_iff] at hfit
    simp only [u64Ty, IntTy.minVal, IntTy.maxVal, Bool.false_eq_true, ↓reduceIte] at hfit
    omega
  · simp at hxv

theorem uint_val : Wp T uint lr (fun r _ => ∀ v, r = some (some v) → v < 2 ^ 64) := by
  unfold uint
  refine Wp.bind' Wp.asciiDigits_val ?_
  intro r lr1 hr
  obtain ⟨value, off⟩ := r
  dsimp only at hr ⊢
  split
  · refine Wp.bind_any ?_
    intro first lr2
    split
    · rename_i v _
      refine Wp.bind_any ?_
      intro _ lr3
      refine Wp.pure ?_
      intro w hw
      simp only [Option.some.injEq] at hw
      subst hw
      exact hr v rfl
    · refine Wp.bind_any ?_
      intro _ lr3
      refine Wp.bind_any ?_
      intro _ lr4
      exact Wp.pure (fun v hv => by simp at hv)
  · exact Wp.pure (fun v hv => by simp at hv)

theorem positiveInt_val : Wp T positiveInt lr (fun r _ => ∀ v, r = some v → idOk v = true) := by
  unfold positiveInt
  refine Wp.bind_any ?_
  intro a lr1
  split
  · exact Wp.pure (fun v hv => by simp at hv)
  · refine Wp.bind_any ?_
    intro _ lr2
    refine Wp.bind' uint_val ?_
    intro r lr3 hr
    split
    · exact Wp.pure (fun v hv => by simp at hv)
    · exact exceedsCount_pc _
    · rename_i v
      split
      · trivial
      · rename_i hnz
        refine Wp.pure ?_
        intro w hw
        simp only [Option.some.injEq] at hw
        subst hw
        have hlt := hr v rfl
        have hne : v ≠ 0 := by simpa using hnz
        rw [idOk_iff]; omega

theorem nonnegativeInt_val : Wp T nonnegativeInt lr (fun r _ => ∀ v, r = some v → u64Ok v = true) := by
  unfold nonnegativeInt
  refine Wp.bind_any ?_
  intro _ lr2
  refine Wp.bind' uint_val ?_
  intro r lr3 hr
  split
  · exact Wp.pure (fun v hv => by simp at hv)
  · exact exceedsCount_pc _
  · rename_i v
    refine Wp.pure ?_
    intro w hw
    simp only [Option.some.injEq] at hw
    subst hw
    rw [u64Ok_iff]; exact hr v rfl

theorem requiredId_val : Wp T requiredNodeId lr (fun v _ => idOk v = true) :=
  orGiveUp_pc (positiveInt_val.mono (fun _ _ hh a ha => hh a ha))

theorem requiredNonneg_val : Wp T requiredNonnegativeInt lr (fun v _ => u64Ok v = true) :=
  orGiveUp_pc (nonnegativeInt_val.mono (fun _ _ hh a ha => hh a ha))

/-! ### constants, symbols, comments -/

theorem take_runLen (p : UInt8 → Bool) (l : VBytes) : l.take (Text.runLen p l) = l.takeWhile p := by
  induction l with
  | nil => rfl
  | cons x xs ih =>
    by_cases hp : p x = true
    · simp [Text.runLen, List.takeWhile, hp, ih]
    · simp [Text.runLen, List.takeWhile, hp]

theorem takeWhile_all' (p : UInt8 → Bool) (l : VBytes) : (l.takeWhile p).all p = true := by
  rw [List.all_eq_true]; exact Text.takeWhile_all p l

/-- What `required_*_constant` needs of its scanner to return a valid constant: the scanned prefix
(if non-empty) satisfies the validator, and scanning consumes nothing. -/
def ScanVal (scanner : View → Nat → Nat × View) (ok : VBytes → Bool) : Prop :=
  ∀ v : View, (scanner v 0).2.rest = v.rest ∧
    ((scanner v 0).1 ≠ 0 → ok (v.rest.take (scanner v 0).1) = true)

theorem scanWhile_scanVal (p : UInt8 → Bool) : ScanVal (scanWhile p) (fun s => !s.isEmpty && s.all p) := by
  intro v
  simp only [scanWhile, List.drop_zero, Nat.zero_add]
  refine ⟨demand_rest _ _, fun hne => ?_⟩
  rw [take_runLen, takeWhile_all']
  have : v.rest.takeWhile p ≠ [] := by
    intro he
    rw [runLen_eq_takeWhile, he] at hne; simp at hne
  simp [this]

theorem decimalString_scanVal : ScanVal decimalString decimalConstOk := by
  intro v
  simp only [decimalString, scanWhile]
  by_cases h45 : v.rest[0]? = some 45
  · simp only [h45, beq_self_eq_true, ↓reduceIte, demand_rest]
    refine ⟨trivial, fun _ => ?_⟩
    obtain ⟨tl, htl⟩ : ∃ tl, v.rest = 45 :: tl := by
      cases hr : v.rest with
      | nil => rw [hr] at h45; simp at h45
      | cons x tl => rw [hr] at h45; simp at h45; exact ⟨tl, by rw [h45]⟩
    rw [htl]
    simp only [Nat.zero_add, List.drop_one, List.tail_cons]
    rw [show 1 + Text.runLen isDigit tl = Text.runLen isDigit tl + 1 by omega, List.take_succ_cons,
      take_runLen]
    simp [decimalConstOk, decimalCharsOk, decimalCharsOk_false, takeWhile_all']
  · have hne : (v.rest[0]? == some 45) = false := by simpa using h45
    simp only [hne, Bool.false_eq_true, ↓reduceIte, demand_rest, List.drop_zero, Nat.zero_add]
    refine ⟨trivial, fun hn0 => ?_⟩
    rw [take_runLen]
    cases hr : v.rest with
    | nil => rw [hr] at hn0; simp [Text.runLen] at hn0
    | cons d ds =>
      rw [hr] at hn0
      by_cases hd : isDigit d = true
      · simp [List.takeWhile, hd, decimalConstOk, decimalCharsOk, decimalCharsOk_false, takeWhile_all']
      · simp [Text.runLen, hd] at hn0

theorem requiredConstant_val (scanner : View → Nat → Nat × View) (ok : VBytes → Bool)
    (hs : ScanVal scanner ok) : Wp T (requiredConstant scanner) lr (fun s _ => ok s = true) := by
  unfold requiredConstant
  refine Wp.bind (Wp.scan ?_)
  obtain ⟨h1, h2⟩ := hs lr.v
  split
  · exact unexpected_pc _
  · rename_i hne
    refine (Wp.advanceWithBuf_val _).mono ?_
    intro bs lr2 ⟨hb, _⟩
    rw [hb]
    show ok ((scanner lr.v 0).2.rest.take (scanner lr.v 0).1) = true
    rw [h1]
    exact h2 (by simpa using hne)

theorem commentStart_val :
    Wp T commentStart lr (fun r lr1 => r = none → lr1.v.rest = lr.v.rest ∧ lr.v.rest[0]? ≠ some 59) := by
  unfold commentStart
  refine Wp.bind' (Wp.reqAt_val 0) ?_
  intro a lr1 ⟨ha, r1⟩
  split
  · refine Wp.bind_any ?_
    intro _ _
    exact Wp.pure (by simp)
  · rename_i hne
    refine Wp.pure (fun _ => ⟨r1, ?_⟩)
    rw [← ha]; simpa using hne

theorem symbolName_val :
    Wp T symbolName lr (fun r _ => ∀ s, r = some s →
      s ≠ [] ∧ s.all (fun b => b != 10 && b != 32) = true ∧ s.head? = lr.v.rest[0]?) := by
  unfold symbolName
  refine Wp.bind (Wp.scan ?_)
  simp only [scanWhile, List.drop_zero, Nat.zero_add]
  split
  · exact Wp.pure (by simp)
  · rename_i hne
    refine Wp.bind' (Wp.advanceWithBuf_val _) ?_
    intro bs lr2 ⟨hb, _⟩
    refine Wp.pure ?_
    intro s hs
    simp only [Option.some.injEq] at hs
    subst hs
    rw [hb]
    show _ ∧ _ ∧ ((lr.v.demand _).rest.take _).head? = _
    rw [demand_rest, take_runLen]
    have hne' : Text.runLen (fun b => b != 10 && b != 32) lr.v.rest ≠ 0 := by simpa using hne
    have hnil : lr.v.rest.takeWhile (fun b => b != 10 && b != 32) ≠ [] := by
      intro he; rw [runLen_eq_takeWhile, he] at hne'; simp at hne'
    refine ⟨hnil, takeWhile_all' _ _, ?_⟩
    cases hr : lr.v.rest with
    | nil => rw [hr] at hnil; simp at hnil
    | cons x xs =>
      rw [hr] at hnil
      by_cases hx : (x != 10 && x != 32) = true
      · simp [List.takeWhile, hx]
      · simp [List.takeWhile, hx] at hnil

theorem commentBody_val : Wp T commentBody lr (fun c _ => commentOk c = true) := by
  unfold commentBody
  refine Wp.bind (Wp.scan ?_)
  simp only [scanWhile, List.drop_zero, Nat.zero_add]
  refine Wp.bind' (Wp.reqAt_val _) ?_
  intro a lr2 ⟨_, r2⟩
  rw [demand_rest] at r2
  have hfin : ∀ lr3 : LR, lr3.v.rest = lr.v.rest →
      Wp T (advanceWithBuf (Text.runLen (· != 10) lr.v.rest)) lr3 (fun c _ => commentOk c = true) := by
    intro lr3 r3
    refine (Wp.advanceWithBuf_val _).mono ?_
    intro bs _ ⟨hb, _⟩
    rw [hb, r3, take_runLen]
    exact takeWhile_all' _ _
  split
  · refine Wp.bind (Wp.get ?_)
    simp only [View.checkIoError]
    refine Wp.bind (Wp.set ?_)
    by_cases hio : lr2.v.ioErr = true
    · simp only [hio, ↓reduceIte]
      exact Wp.bind (Wp.throw trivial)
    · have hio' : lr2.v.ioErr = false := by simpa using hio
      simp only [hio', Bool.false_eq_true, ↓reduceIte]
      exact hfin _ r2
  · exact hfin _ r2

/-! ### the line parser -/

theorem justiceLoop_val (fuel : Nat) : ∀ (remaining : Nat) (acc : List Nat) (lr : LR),
    Wp T (justiceLoop fuel remaining acc) lr (fun r _ => r.length = acc.length + remaining ∧
      (acc.all idOk = true → r.all idOk = true)) := by
  induction fuel with
  | zero => intro _ _ lr; unfold justiceLoop; trivial
  | succ fuel ih =>
    intro remaining acc lr
    unfold justiceLoop
    split
    · rename_i h0
      have : remaining = 0 := by simpa using h0
      exact Wp.pure ⟨by simp [this], fun h => by simpa using h⟩
    · rename_i hne
      have hpos : remaining ≠ 0 := by simpa using hne
      refine Wp.bind_any ?_
      intro _ lr1
      refine Wp.bind' requiredId_val ?_
      intro c lr2 hc
      refine (ih (remaining - 1) (c :: acc) lr2).mono ?_
      intro r _ ⟨h1, h2⟩
      refine ⟨by simp only [List.length_cons] at h1; omega, fun hacc => h2 ?_⟩
      simp [hc, hacc]

local macro "v_skip" : tactic => `(tactic| (refine Wp.bind_any ?_; intro _ _))
local macro "v_id" : tactic => `(tactic| (refine Wp.bind' requiredId_val ?_; intro _ _ _))
local macro "v_nonneg" : tactic => `(tactic| (refine Wp.bind' requiredNonneg_val ?_; intro _ _ _))

theorem valueVariant_val (tok : Gen.Btor2.NodeValueToken) :
    Wp T (valueVariant tok) lr (fun vv _ => vv.wf = true) := by
  cases tok <;> simp only [valueVariant]
  case const =>
    v_skip
    refine Wp.bind' (requiredConstant_val binaryString _ (scanWhile_scanVal isBinDigit)) ?_
    intro s _ hs
    exact Wp.pure (by simpa [ValueVariant.wf, Const.wf, binaryConstOk] using hs)
  case constd =>
    v_skip
    refine Wp.bind' (requiredConstant_val decimalString _ decimalString_scanVal) ?_
    intro s _ hs
    exact Wp.pure (by simpa [ValueVariant.wf, Const.wf] using hs)
  case consth =>
    v_skip
    refine Wp.bind' (requiredConstant_val hexString _ (scanWhile_scanVal isHexDigit)) ?_
    intro s _ hs
    exact Wp.pure (by simpa [ValueVariant.wf, Const.wf, hexConstOk] using hs)
  case ones => exact Wp.pure rfl
  case one => exact Wp.pure rfl
  case zero => exact Wp.pure rfl
  case input => exact Wp.pure rfl
  case state => exact Wp.pure rfl
  case extOp e =>
    v_skip; v_id; v_skip; v_nonneg
    refine Wp.pure ?_
    cases e <;> simp_all [ValueVariant.wf, Op.wf, UnaryOp.wf, Gen.Btor2.extOpTokenUnaryOp]
  case slice =>
    v_skip; v_id; v_skip; v_nonneg; v_skip; v_nonneg
    exact Wp.pure (by simp_all [ValueVariant.wf, Op.wf, UnaryOp.wf])
  case unaryOp t =>
    v_skip; v_id
    refine Wp.pure ?_
    cases t <;> simp_all [ValueVariant.wf, Op.wf, UnaryOp.wf, Gen.Btor2.unaryOpTokenUnaryOp]
  case binaryOp t =>
    v_skip; v_id; v_skip; v_id
    exact Wp.pure (by simp_all [ValueVariant.wf, Op.wf])
  case ternaryOp t =>
    v_skip; v_id; v_skip; v_id; v_skip; v_id
    exact Wp.pure (by simp_all [ValueVariant.wf, Op.wf])

theorem nodeVariant_val (tok : Gen.Btor2.NodeToken) :
    Wp T (nodeVariant tok) lr (fun v _ => v.wf = true) := by
  cases tok <;> simp only [nodeVariant]
  case sort =>
    v_skip
    refine Wp.bind_any ?_
    intro st _
    cases st
    · dsimp only; v_skip; v_id
      exact Wp.pure (by simp_all [NodeVariant.wf])
    · dsimp only; v_skip; v_id; v_skip; v_id
      exact Wp.pure (by simp_all [NodeVariant.wf])
  case assignment k =>
    v_skip; v_id; v_skip; v_id; v_skip; v_id
    exact Wp.pure (by simp_all [NodeVariant.wf])
  case output k =>
    v_skip; v_id
    exact Wp.pure (by simp_all [NodeVariant.wf])
  case justice =>
    v_skip
    refine Wp.bind' requiredId_val ?_
    intro count _ hcount
    refine Wp.bind (Wp.get ?_)
    refine Wp.bind' (justiceLoop_val _ count [] _) ?_
    intro nodes _ ⟨hlen, hall⟩
    refine Wp.pure ?_
    obtain ⟨h0, hlt⟩ := idOk_iff.mp hcount
    simp only [List.length_nil, Nat.zero_add] at hlen
    have hne : nodes ≠ [] := by intro he; rw [he] at hlen; simp at hlen; omega
    simp [NodeVariant.wf, hne, hlen, hlt, hall (by simp)]
  case value vt =>
    v_skip
    refine Wp.bind' requiredId_val ?_
    intro srt _ hs
    refine Wp.bind' (valueVariant_val vt) ?_
    intro vv _ hvv
    exact Wp.pure (by simp [NodeVariant.wf, hs, hvv])

/-- Fallthrough of `space` is irrelevant here; success moves the cursor. -/
theorem trailer_val : Wp T trailer lr (fun r _ => ∀ s, r.1 = some s → symbolOk s = true) := by
  unfold trailer
  refine Wp.bind_any ?_
  intro r lr1
  cases r with
  | some _ =>
    dsimp only
    refine Wp.bind' commentStart_val ?_
    intro r lr2 hcs
    cases r with
    | some _ => exact Wp.pure (by simp)
    | none =>
      obtain ⟨r2, h59⟩ := hcs rfl
      dsimp only
      refine Wp.bind' symbolName_val ?_
      intro r lr3 hsym
      cases r with
      | some sym =>
        obtain ⟨hne, hall, hhead⟩ := hsym sym rfl
        have hok : symbolOk sym = true := by
          rw [r2] at hhead
          simp only [symbolOk, Bool.and_eq_true, Bool.not_eq_true', List.isEmpty_eq_false_iff, bne_iff_ne,
            ne_eq]
          exact ⟨⟨hne, hall⟩, by rw [hhead]; exact h59⟩
        dsimp only
        refine Wp.bind_any ?_
        intro r lr4
        cases r with
        | some _ =>
          dsimp only
          refine Wp.bind_any ?_
          intro r lr5
          cases r with
          | some _ =>
            refine Wp.pure ?_
            intro s hs
            simp only [Option.some.injEq] at hs
            subst hs; exact hok
          | none => exact unexpected_pc _
        | none =>
          dsimp only
          refine Wp.bind_any ?_
          intro r lr5
          cases r with
          | some _ =>
            refine Wp.pure ?_
            intro s hs
            simp only [Option.some.injEq] at hs
            subst hs; exact hok
          | none => exact unexpected_pc _
      | none => exact unexpected_pc _
  | none =>
    dsimp only
    refine Wp.bind_any ?_
    intro r lr2
    cases r with
    | some _ => exact Wp.pure (by simp)
    | none => exact unexpected_pc _

theorem tryNode_val :
    Wp T tryNode lr (fun r _ => ∀ nd hc, r = some (nd, hc) → nd.wf = true ∧ nd.comment = none) := by
  unfold tryNode
  refine Wp.bind' positiveInt_val ?_
  intro r lr1 hid
  cases r with
  | none => exact Wp.pure (by simp)
  | some id =>
    dsimp only
    v_skip
    refine Wp.bind_any ?_
    intro tok lr3
    refine Wp.bind' (nodeVariant_val tok) ?_
    intro variant lr4 hv
    refine Wp.bind' trailer_val ?_
    intro sc lr5 hsym
    obtain ⟨symbol, hasComment⟩ := sc
    refine Wp.pure ?_
    intro nd hc heq
    simp only [Option.some.injEq, Prod.mk.injEq] at heq
    obtain ⟨h1, _⟩ := heq
    subst h1
    refine ⟨?_, rfl⟩
    simp only [Node.wf, hid id rfl, hv, Bool.and_self, Bool.true_and, Bool.and_true]
    cases symbol with
    | none => rfl
    | some s => exact hsym s rfl

/-- **Every line `next_line` returns is in the domain of the round trip.** -/
theorem nextLine_val : Wp T nextLine lr (fun r _ => ∀ l, r = some l → l.wf = true) := by
  unfold nextLine
  v_skip
  refine Wp.bind' tryNode_val ?_
  intro r lr2 hn
  cases r with
  | some nc =>
    obtain ⟨node, hasComment⟩ := nc
    obtain ⟨hwf, hcm⟩ := hn node hasComment rfl
    dsimp only
    split
    · refine Wp.bind' commentBody_val ?_
      intro c lr3 hc
      refine Wp.pure ?_
      intro l hl
      simp only [Option.some.injEq] at hl
      subst hl
      simp only [Node.wf, Bool.and_eq_true] at hwf
      simp only [Line.wf, Node.wf, hwf.1.1.1, hwf.1.1.2, hwf.1.2, hc, Bool.and_self]
    · refine Wp.pure ?_
      intro l hl
      simp only [Option.some.injEq] at hl
      subst hl
      exact hwf
  | none =>
    dsimp only
    refine Wp.bind_any ?_
    intro r lr3
    cases r with
    | some _ =>
      dsimp only
      refine Wp.bind' commentBody_val ?_
      intro c lr4 hc
      refine Wp.pure ?_
      intro l hl
      simp only [Option.some.injEq] at hl
      subst hl
      exact hc
    | none =>
      dsimp only
      refine Wp.bind_any ?_
      intro r lr4
      cases r with
      | some _ =>
        dsimp only
        refine Wp.bind_any ?_
        intro _ lr5
        exact Wp.pure (by simp)
      | none => exact unexpected_pc _

/-- All lines a whole parse hands out (whatever its final outcome) are in the domain. -/
theorem driveLines_wf (fuel : Nat) : ∀ (acc : List Line) (lr : LR), (∀ l ∈ acc, l.wf = true) →
    ∀ l ∈ (driveLines fuel acc lr).1, l.wf = true := by
  induction fuel with
  | zero => intro acc lr hacc l hl; simp only [driveLines, List.mem_reverse] at hl; exact hacc l hl
  | succ fuel ih =>
    intro acc lr hacc
    have hval := (nextLine_val (lr := lr)).of_run.1
    unfold driveLines
    rcases hrun : nextLine.run lr with ⟨r, lr'⟩
    cases r with
    | error e => intro l hl; simp only [List.mem_reverse] at hl; exact hacc l hl
    | ok o =>
      cases o with
      | none => intro l hl; simp only [List.mem_reverse] at hl; exact hacc l hl
      | some x =>
        simp only
        refine ih (x :: acc) lr' ?_
        intro l hl
        simp only [List.mem_cons] at hl
        rcases hl with h | h
        · rw [h]; exact hval (some x) lr' hrun x rfl
        · exact hacc l h

end Btor2
end Flussab
