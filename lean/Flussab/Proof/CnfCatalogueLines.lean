/-
Prefix determinism inside a line (C08, replaced numeral token): the line-structure tokens of
`Model/CnfToken.lean` — `skip_whitespace`, `eof`, `newline`, `interactive_newline`, `comment` — and
the collection of all token lemmas as `Both` (in-prefix statement + shifted-states statement).

`comment` is the one DIMACS token that can pass over the replaced token (`comment_cross`): both
runs then stand behind the comment's newline in shifted states.
-/
import Flussab.Proof.CnfCatalogueTokens

namespace Flussab
namespace Cnf
namespace Cat
open PM
open Flussab.Btor2.Cat
open Flussab.Btor2 (demand_rest demand_pos demand_of_lt demand_of_ge demand_demand runLen_le
  runLen_eq_takeWhile takeWhile_stop)

variable {X : Ctx} {α β : Type}

theorem skipWhitespace_pw (hX : OKC X) : PWP X skipWhitespace skipWhitespace := by
  intro s hs
  obtain ⟨d1, tl1, e1, hd1⟩ := hX.q1_hd
  obtain ⟨d2, tl2, e2, hd2⟩ := hX.q2_hd
  have l1 := hX.q1_len
  have l2 := hX.q2_len
  have hle := tabs_le s 0 (Nat.zero_le _)
  unfold skipWhitespace
  refine RWp.bind (RWp.scanE (f1 := (Text.tabsOrSpaces · 0)) (f2 := (Text.tabsOrSpaces · 0))
    (tabs_E e1 (dig_not_blank hd1) s 0 (Nat.zero_le _)) (tabs_E e2 (dig_not_blank hd2) s 0 (Nat.zero_le _))
    (by omega) (by omega) ?_)
  refine RWp.advanceE (by simp only [pk_rest]; exact hle) ?_
  exact Post.inP (hs.adv_pk hle hle (take_tabs_nolf _ 0 (by simp)))

theorem eof_pw (hX : OKC X) : PWP X eof eof := by
  intro s hs
  have l1 := hX.q1_len
  have l2 := hX.q2_len
  unfold eof
  refine RWp.bind (RWp.reqAtE (k := 0) (by omega) (by omega) ?_)
  have g1 : ((s.v.rest ++ X.q1)[0]?).isNone = false := by
    cases h : (s.v.rest ++ X.q1)[0]? with
    | some _ => rfl
    | none => have := List.getElem?_eq_none_iff.mp h; rw [List.length_append] at this; omega
  have g2 : ((s.v.rest ++ X.q2)[0]?).isNone = false := by
    cases h : (s.v.rest ++ X.q2)[0]? with
    | some _ => rfl
    | none => have := List.getElem?_eq_none_iff.mp h; rw [List.length_append] at this; omega
  simp only [g1, g2, Bool.false_eq_true, ↓reduceIte]
  exact RWp.pure (Post.inP (hs.pk 0 (Nat.zero_le _)))

/-! ### `newline` -/

/-- `Text.newline` at the cursor of the two extensions: the same result `off` and the same request
`k`; a non-zero `off` ends behind a newline of the short input. -/
theorem newlineScan {s : LR} (hs : St X s) :
    ∃ off k, k ≤ s.v.rest.length ∧
      (∀ q d tl, q = d :: tl → isDigit d = true →
        Text.newline (E q s).v 0 = (off, (E q s).v.demand k)) ∧
      (off = 0 ∨ ∃ n0, off = n0 + 1 ∧ (∀ x ∈ s.v.rest.take n0, x ≠ 10) ∧ s.v.rest[n0]? = some 10) := by
  cases hr : s.v.rest with
  | nil =>
    refine ⟨0, 0, Nat.zero_le _, ?_, Or.inl rfl⟩
    intro q d tl hq hd
    have g : (E q s).v.rest[0]? = some d := by rw [E_rest, hr, hq]; rfl
    have a : ¬ ((some d : Option UInt8) = some 10) := by
      intro h; exact dig_ne hd (c := 10) (Or.inl (by decide)) (Option.some.inj h)
    have b : ¬ ((some d : Option UInt8) = some 13) := by
      intro h; exact dig_ne hd (c := 13) (Or.inl (by decide)) (Option.some.inj h)
    rw [newline_shape]
    simp only [g, a, b, ↓reduceIte]
  | cons c r1 =>
    by_cases h10 : c = 10
    · subst h10
      refine ⟨1, 0, Nat.zero_le _, ?_, Or.inr ⟨0, rfl, by simp, rfl⟩⟩
      intro q d tl hq hd
      have g : (E q s).v.rest[0]? = some 10 := by rw [E_rest, hr]; rfl
      rw [newline_shape]
      simp only [g, ↓reduceIte]
    · by_cases h13 : c = 13
      · subst h13
        cases r1 with
        | nil =>
          have hne : s.v.rest ≠ [] := by rw [hr]; simp
          obtain ⟨c, hlast, hc⟩ := hs.last hne
          rw [hr] at hlast
          simp only [List.getLast?_singleton, Option.some.injEq] at hlast
          subst hlast
          rcases hc with h | h <;> cases h
        | cons c' r2 =>
          have n1310 : ¬ ((some 13 : Option UInt8) = some 10) := by decide
          by_cases h1 : c' = 10
          · subst h1
            refine ⟨2, 1, by simp, ?_, Or.inr ⟨1, rfl, ?_, rfl⟩⟩
            · intro q d tl hq hd
              have hrest : (E q s).v.rest = 13 :: 10 :: (r2 ++ q) := by rw [E_rest, hr]; rfl
              have h0 : 0 < (E q s).v.rest.length := by rw [hrest]; simp
              rw [newline_shape, hrest]
              simp only [List.getElem?_cons_zero, n1310, List.getElem?_cons_succ, ↓reduceIte]
              rw [demand_demand _ 0 1 h0 (by omega)]
            · intro x hx
              simp only [List.take_succ_cons, List.take_zero, List.mem_singleton] at hx
              rw [hx]; decide
          · refine ⟨0, 1, by simp, ?_, Or.inl rfl⟩
            intro q d tl hq hd
            have hrest : (E q s).v.rest = 13 :: c' :: (r2 ++ q) := by rw [E_rest, hr]; rfl
            have h0 : 0 < (E q s).v.rest.length := by rw [hrest]; simp
            have hc' : ¬ ((some c' : Option UInt8) = some 10) := fun h => h1 (Option.some.inj h)
            rw [newline_shape, hrest]
            simp only [List.getElem?_cons_zero, n1310, List.getElem?_cons_succ, hc', ↓reduceIte]
            rw [demand_demand _ 0 1 h0 (by omega)]
      · refine ⟨0, 0, Nat.zero_le _, ?_, Or.inl rfl⟩
        intro q d tl hq hd
        have g : (E q s).v.rest[0]? = some c := by rw [E_rest, hr]; rfl
        have a : ¬ ((some c : Option UInt8) = some 10) := fun h => h10 (Option.some.inj h)
        have b : ¬ ((some c : Option UInt8) = some 13) := fun h => h13 (Option.some.inj h)
        rw [newline_shape]
        simp only [g, a, b, ↓reduceIte]

theorem newline_pw (hX : OKC X) : PWP X newline newline := by
  intro s hs
  obtain ⟨d1, tl1, e1, hd1⟩ := hX.q1_hd
  obtain ⟨d2, tl2, e2, hd2⟩ := hX.q2_hd
  have l1 := hX.q1_len
  have l2 := hX.q2_len
  obtain ⟨off, k, hk, hf, hoff⟩ := newlineScan hs
  unfold newline
  refine RWp.bind (RWp.scanE (f1 := (Text.newline · 0)) (f2 := (Text.newline · 0))
    (hf _ _ _ e1 hd1) (hf _ _ _ e2 hd2) (by omega) (by omega) ?_)
  rcases hoff with rfl | ⟨n0, rfl, hno, h10⟩
  · simp only [bne_self_eq_false, Bool.false_eq_true, ↓reduceIte]
    exact RWp.pure (Post.inP (hs.pk k hk))
  · have hne : (n0 + 1 != 0) = true := by rw [bne_iff_ne]; omega
    simp only [hne, ↓reduceIte]
    exact lineTail_pw hX (hs.pk k hk) n0 (by simp only [pk_rest]; exact hno)
      (by simp only [pk_rest]; exact h10) _

theorem interactiveNewline_pw (hX : OKC X) : PWP X interactiveNewline interactiveNewline := by
  intro s hs
  obtain ⟨d1, tl1, e1, hd1⟩ := hX.q1_hd
  obtain ⟨d2, tl2, e2, hd2⟩ := hX.q2_hd
  have l1 := hX.q1_len
  have l2 := hX.q2_len
  obtain ⟨off, k, hk, hf, hoff⟩ := newlineScan hs
  unfold interactiveNewline
  refine RWp.bind (RWp.scanE (f1 := (Text.newline · 0)) (f2 := (Text.newline · 0))
    (hf _ _ _ e1 hd1) (hf _ _ _ e2 hd2) (by omega) (by omega) ?_)
  rcases hoff with rfl | ⟨n0, rfl, hno, h10⟩
  · simp only [bne_self_eq_false, Bool.false_eq_true, ↓reduceIte]
    exact RWp.pure (Post.inP (hs.pk k hk))
  · have hne : (n0 + 1 != 0) = true := by rw [bne_iff_ne]; omega
    simp only [hne, ↓reduceIte]
    exact lineTail0_pw hX (hs.pk k hk) n0 (by simp only [pk_rest]; exact hno)
      (by simp only [pk_rest]; exact h10) _

/-! ### `comment` -/

/-- A request in front of the virtual cursor does not change the view behind it. -/
theorem shv_demand_lt {w1 w2 : View} {a1 a2 k1 k2 : Nat} (h : ShV (vadv a1 w1) (vadv a2 w2))
    (hk1 : k1 < a1) (hk2 : k2 < a2) (ha1 : a1 ≤ w1.rest.length) (ha2 : a2 ≤ w2.rest.length) :
    ShV (vadv a1 (w1.demand k1)) (vadv a2 (w2.demand k2)) := by
  rw [demand_of_lt _ _ (by omega), demand_of_lt _ _ (by omega)]
  have hla := h.la
  simp only [vadv] at hla
  refine ⟨h.rest, h.fault, h.sawEnd, h.ioErr, ?_⟩
  show max w1.peeked (w1.pos + k1 + 1) - (w1.pos + a1) = max w2.peeked (w2.pos + k2 + 1) - (w2.pos + a2)
  omega

theorem shv_vadv_add {w1 w2 : View} {a1 a2 : Nat} (j : Nat) (h : ShV (vadv a1 w1) (vadv a2 w2)) :
    ShV (vadv (a1 + j) w1) (vadv (a2 + j) w2) := by
  have hla := h.la
  have hr := h.rest
  simp only [vadv] at hla hr
  refine ⟨?_, h.fault, h.sawEnd, h.ioErr, ?_⟩
  · show w1.rest.drop (a1 + j) = w2.rest.drop (a2 + j)
    rw [← List.drop_drop, ← List.drop_drop, hr]
  · show w1.peeked - (w1.pos + (a1 + j)) = w2.peeked - (w2.pos + (a2 + j))
    omega

/-- `comment` from two states whose views are shifted behind offsets `a1` / `a2` inside the comment:
the runs end in shifted states. -/
theorem comment_cross {G : PErr → Prop} {t1 t2 : LR} {a1 a2 m nb : Nat} {x : Option UInt8}
    (h1 : t1.v.rest[0]? = some 99) (h2 : t2.v.rest[0]? = some 99) (hp1 : 0 < a1) (hp2 : 0 < a2)
    (hn1 : 1 + Text.runLen (· != 10) (t1.v.rest.drop 1) = a1 + m)
    (hn2 : 1 + Text.runLen (· != 10) (t2.v.rest.drop 1) = a2 + m)
    (hx1 : t1.v.rest[a1 + m]? = x) (hx2 : t2.v.rest[a2 + m]? = x)
    (hb1 : Text.runLen isBlank (t1.v.rest.drop (a1 + m + (if x.isSome then 1 else 0))) = nb)
    (hb2 : Text.runLen isBlank (t2.v.rest.drop (a2 + m + (if x.isSome then 1 else 0))) = nb)
    (hle1 : a1 ≤ t1.v.rest.length) (hle2 : a2 ≤ t2.v.rest.length)
    (hsh : ShV (vadv a1 t1.v) (vadv a2 t2.v)) :
    RWp G comment comment t1 t2 (fun r1 u1 r2 u2 => r1 = r2 ∧ Sh u1 u2) := by
  have s0 := shv_demand_lt (k1 := 0) (k2 := 0) hsh hp1 hp2 hle1 hle2
  have s1 := s0.demand m
  rw [← vadv_demand _ m _ (by rw [demand_rest]; exact hle1),
    ← vadv_demand _ m _ (by rw [demand_rest]; exact hle2)] at s1
  have s2 := s1.demand (m + (if x.isSome then 1 else 0) + nb)
  rw [← vadv_demand _ _ _ (by rw [demand_rest, demand_rest]; exact hle1),
    ← vadv_demand _ _ _ (by rw [demand_rest, demand_rest]; exact hle2)] at s2
  have s3 := shv_vadv_add (m + (if x.isSome then 1 else 0) + nb) s2
  unfold comment
  refine RWp.bind (RWp.reqAt ?_)
  simp only [h1, h2, beq_self_eq_true, ↓reduceIte]
  refine RWp.bind (RWp.scan ?_)
  rw [nextNewline_eq, nextNewline_eq]
  simp only [demand_rest, hn1, hn2, hx1, hx2]
  refine RWp.bind (RWp.lineAtOffset ?_)
  refine RWp.bind (RWp.scan ?_)
  simp only [Text.tabsOrSpaces, PM.nextLine_v, demand_rest, hb1, hb2]
  refine RWp.bind (RWp.advance (fun _ _ => ?_))
  refine RWp.pure ⟨rfl, ?_⟩
  have e1 : a1 + m + (if x.isSome = true then 1 else 0) + nb = a1 + (m + (if x.isSome = true then 1 else 0) + nb) := by
    omega
  have e2 : a2 + m + (if x.isSome = true then 1 else 0) + nb = a2 + (m + (if x.isSome = true then 1 else 0) + nb) := by
    omega
  rw [e1, e2]
  exact s3

theorem comment_pw (hX : OKC X) : PW X comment comment Eq No1 No1 := by
  intro s hs
  obtain ⟨d1, tl1, e1, hd1⟩ := hX.q1_hd
  obtain ⟨d2, tl2, e2, hd2⟩ := hX.q2_hd
  have l1 := hX.q1_len
  have l2 := hX.q2_len
  -- not a comment: both runs fall through
  have hnot : ∀ c : UInt8, (s.v.rest ++ X.q1)[0]? = some c → (s.v.rest ++ X.q2)[0]? ≠ none → c ≠ 99 →
      (∀ c2, (s.v.rest ++ X.q2)[0]? = some c2 → c2 ≠ 99) →
      RWp (Loc X) comment comment (E X.q1 s) (E X.q2 s) (Post X Eq No1 No1) := by
    intro c g1 _ hc hc2
    unfold comment
    refine RWp.bind (RWp.reqAtE (k := 0) (by omega) (by omega) ?_)
    cases g2 : (s.v.rest ++ X.q2)[0]? with
    | none => have := List.getElem?_eq_none_iff.mp g2; rw [List.length_append] at this; omega
    | some c2 =>
      have n1 : ((some c : Option UInt8) == some 99) = false := by simpa using hc
      have n2 : ((some c2 : Option UInt8) == some 99) = false := by simpa using hc2 c2 g2
      simp only [g1, n1, n2, Bool.false_eq_true, ↓reduceIte]
      exact RWp.pure (Post.inP (hs.pk 0 (Nat.zero_le _)))
  cases hr : s.v.rest with
  | nil =>
    rw [hr] at hnot
    refine hnot d1 (by rw [e1]; rfl) (by rw [e2]; simp) (dig_ne hd1 (Or.inr (by decide))) ?_
    intro c2 hc2
    rw [e2] at hc2
    simp only [List.nil_append, List.getElem?_cons_zero, Option.some.injEq] at hc2
    subst hc2
    exact dig_ne hd2 (Or.inr (by decide))
  | cons c r1 =>
    by_cases hc : c = 99
    · subst hc
      have h0 : 0 < s.v.rest.length := by rw [hr]; simp
      have hd1r : s.v.rest.drop 1 = r1 := by rw [hr]; rfl
      by_cases h10 : s.v.rest.count 10 = 0
      · -- the comment runs over the replaced token
        have hr10 : ∀ x ∈ s.v.rest.drop 1, (x != 10) = true := by
          intro x hx
          have := count10_zero.mp h10 x (List.mem_of_mem_drop hx)
          simpa using this
        have hdg : ∀ x, isDigit x = true → (x != 10) = true := by
          intro x hx
          have := dig_ne hx (c := 10) (Or.inl (by decide))
          simpa using this
        have ht1 : ∀ x ∈ X.tok, (x != 10) = true := fun x hx => hdg x (List.all_eq_true.mp hX.tok_dig x hx)
        have ht2 : ∀ x ∈ X.tok', (x != 10) = true := fun x hx => hdg x (List.all_eq_true.mp hX.tok'_dig x hx)
        have hlen1 : (s.v.rest.drop 1).length + 1 = s.v.rest.length := by
          simp only [List.length_drop]; omega
        have hp := hs.peek
        have hpos1 := hX.tok_pos
        have hpos2 := hX.tok'_pos
        refine (comment_cross (t1 := E X.q1 s) (t2 := E X.q2 s)
          (a1 := s.v.rest.length + (X.tok.length + 0)) (a2 := s.v.rest.length + (X.tok'.length + 0))
          (m := Text.runLen (· != 10) X.post) (x := X.post[Text.runLen (· != 10) X.post]?)
          (nb := Text.runLen isBlank (X.post.drop (Text.runLen (· != 10) X.post +
            (if (X.post[Text.runLen (· != 10) X.post]?).isSome then 1 else 0))))
          ?_ ?_ (by omega) (by omega) ?_ ?_ ?_ ?_ ?_ ?_ ?_ ?_ ?_).mono ?_
        · rw [E_rest, hr]; rfl
        · rw [E_rest, hr]; rfl
        · rw [E_rest, List.drop_append_of_le_length (by omega)]
          unfold Ctx.q1
          rw [runLen_append_all _ _ hr10, runLen_append_all _ _ ht1]
          omega
        · rw [E_rest, List.drop_append_of_le_length (by omega)]
          unfold Ctx.q2
          rw [runLen_append_all _ _ hr10, runLen_append_all _ _ ht2]
          omega
        · rw [E_rest]; unfold Ctx.q1
          have := getElem_cross s.v.rest X.tok X.post (Text.runLen (· != 10) X.post)
          simpa [Nat.add_assoc] using this
        · rw [E_rest]; unfold Ctx.q2
          have := getElem_cross s.v.rest X.tok' X.post (Text.runLen (· != 10) X.post)
          simpa [Nat.add_assoc] using this
        · rw [E_rest]; unfold Ctx.q1
          have := drop_cross s.v.rest X.tok X.post (Text.runLen (· != 10) X.post +
            (if (X.post[Text.runLen (· != 10) X.post]?).isSome then 1 else 0))
          simp only [Nat.add_zero]
          rw [show s.v.rest.length + X.tok.length + Text.runLen (· != 10) X.post +
              (if (X.post[Text.runLen (· != 10) X.post]?).isSome then 1 else 0) =
            s.v.rest.length + (X.tok.length + (Text.runLen (· != 10) X.post +
              (if (X.post[Text.runLen (· != 10) X.post]?).isSome then 1 else 0))) by omega, this]
        · rw [E_rest]; unfold Ctx.q2
          have := drop_cross s.v.rest X.tok' X.post (Text.runLen (· != 10) X.post +
            (if (X.post[Text.runLen (· != 10) X.post]?).isSome then 1 else 0))
          simp only [Nat.add_zero]
          rw [show s.v.rest.length + X.tok'.length + Text.runLen (· != 10) X.post +
              (if (X.post[Text.runLen (· != 10) X.post]?).isSome then 1 else 0) =
            s.v.rest.length + (X.tok'.length + (Text.runLen (· != 10) X.post +
              (if (X.post[Text.runLen (· != 10) X.post]?).isSome then 1 else 0))) by omega, this]
        · simp only [E_rest, Ctx.q1, List.length_append]; omega
        · simp only [E_rest, Ctx.q2, List.length_append]; omega
        · refine ⟨?_, rfl, rfl, rfl, ?_⟩
          · show (s.v.rest ++ X.q1).drop _ = (s.v.rest ++ X.q2).drop _
            unfold Ctx.q1 Ctx.q2
            rw [drop_cross, drop_cross]
          · show s.v.peeked - (s.v.pos + (s.v.rest.length + (X.tok.length + 0))) =
              s.v.peeked - (s.v.pos + (s.v.rest.length + (X.tok'.length + 0)))
            omega
        · intro r1' u1 r2' u2 h
          exact Or.inr (Or.inl h)
      · -- the comment ends inside the short input
        have hmem : (10 : UInt8) ∈ s.v.rest.drop 1 := by
          have : (10 : UInt8) ∈ s.v.rest := by
            apply Classical.byContradiction
            intro hn
            exact h10 (List.count_eq_zero.mpr hn)
          rw [hr] at this
          rw [hd1r]
          simp only [List.mem_cons] at this
          rcases this with h | h
          · cases h
          · exact h
        have hn := runLen_lt_of_mem (· != 10) hmem (by decide)
        have hlen1 : (s.v.rest.drop 1).length + 1 = s.v.rest.length := by
          simp only [List.length_drop]; omega
        generalize hnn : Text.runLen (· != 10) (s.v.rest.drop 1) = n at hn
        have hlt : 1 + n < s.v.rest.length := by omega
        -- the byte that ends the run is the newline
        have h10' : s.v.rest[1 + n]? = some 10 := by
          have hget : (s.v.rest.drop 1)[n]? = some ((s.v.rest.drop 1)[n]) := List.getElem?_eq_getElem hn
          have hstop := takeWhile_stop (· != 10) (s.v.rest.drop 1) _ (by
            rw [← runLen_eq_takeWhile, hnn]; exact hget)
          have hx : (s.v.rest.drop 1)[n] = 10 := by simpa using hstop
          rw [List.getElem?_drop] at hget
          rw [hget, hx]
        have hno : ∀ x ∈ s.v.rest.take (1 + n), x ≠ 10 := by
          intro x hx
          rw [List.take_add, List.mem_append] at hx
          rcases hx with hx | hx
          · rw [hr] at hx
            simp only [List.take_succ_cons, List.take_zero, List.mem_singleton] at hx
            rw [hx]; decide
          · rw [← hnn] at hx
            have := runLen_take_all (· != 10) _ x hx
            simpa using this
        have fN : ∀ q, Text.nextNewline (E q (pk 0 s)).v 1 =
            (1 + n + 1, (E q (pk 0 s)).v.demand (1 + n)) := by
          intro q
          have hrun : Text.runLen (· != 10) ((s.v.rest ++ q).drop 1) = n := by
            rw [List.drop_append_of_le_length (by omega), PM.runLen_append _ _ _ (by rw [hnn]; exact hn), hnn]
          have hsome : ((s.v.rest ++ q)[1 + n]?).isSome = true := by
            rw [List.getElem?_append_left hlt, h10']; rfl
          rw [nextNewline_eq]
          simp only [E_rest, pk_rest, hrun, hsome, ↓reduceIte]
        unfold comment
        refine RWp.bind (RWp.reqAtE (k := 0) (by omega) (by omega) ?_)
        have g1 : (s.v.rest ++ X.q1)[0]? = some 99 := by rw [hr]; rfl
        have g2 : (s.v.rest ++ X.q2)[0]? = some 99 := by rw [hr]; rfl
        simp only [g1, g2, beq_self_eq_true, ↓reduceIte]
        refine RWp.bind (RWp.scanE (f1 := (Text.nextNewline · 1)) (f2 := (Text.nextNewline · 1))
          (fN X.q1) (fN X.q2) (by simp only [pk_rest]; omega) (by simp only [pk_rest]; omega) ?_)
        have hst := (hs.pk 0 (Nat.zero_le _)).pk (1 + n) (by simp only [pk_rest]; omega)
        exact (lineTail_pw hX hst (1 + n) (by simp only [pk_rest]; exact hno)
          (by simp only [pk_rest]; exact h10') _).mono
          (fun _ _ _ _ h => h.mono (fun _ _ hh => hh.elim) (fun _ hh => hh) (fun _ hh => hh))
    · have hc2 : ∀ c2, ((c :: r1) ++ X.q2)[0]? = some c2 → c2 ≠ 99 := by
        intro c2 h
        simp only [List.cons_append, List.getElem?_cons_zero, Option.some.injEq] at h
        subst h; exact hc
      rw [hr] at hnot
      exact hnot c rfl (by simp) hc hc2

/-! ### the tokens, both passes -/

theorem toBoth {m : PM α} (hp : PWP X m m) (hs : ShC (Loc X) m) : Both X m :=
  ⟨hp.weaken, hs⟩

theorem both_skipWhitespace (hX : OKC X) : Both X skipWhitespace :=
  toBoth (skipWhitespace_pw hX) skipWhitespace_sh

theorem both_eof (hX : OKC X) : Both X eof := toBoth (eof_pw hX) eof_sh

theorem both_newline (hX : OKC X) : Both X newline := toBoth (newline_pw hX) newline_sh

theorem both_interactiveNewline (hX : OKC X) : Both X interactiveNewline :=
  toBoth (interactiveNewline_pw hX) interactiveNewline_sh

theorem both_interactiveEndOfLine (hX : OKC X) : Both X interactiveEndOfLine :=
  Both.orParse (both_interactiveNewline hX) (both_eof hX)

theorem both_comment (hX : OKC X) : Both X comment := ⟨comment_pw hX, comment_sh⟩

theorem both_word (hX : OKC X) (pat : VBytes) (hne : pat ≠ [])
    (hpat : ∀ x ∈ pat, isDigit x = false ∧ x ≠ 10) : Both X (word pat) :=
  toBoth (word_pw hX pat hne hpat) (word_sh pat)

theorem both_varCount (hX : OKC X) (l : LitTy) : Both X (varCount l) :=
  toBoth (varCount_pw hX l) (varCount_sh l)

theorem both_uintCount (hX : OKC X) (t : IntTy) (hb : 1 ≤ t.bits) (hfit : t.maxVal < 2 ^ 64) :
    Both X (uintCount t) :=
  toBoth (uintCount_pw hX t hb hfit) (uintCount_sh t)

theorem both_clauseGroup (hX : OKC X) (limit : Int) : Both X (clauseGroup limit) :=
  toBoth (clauseGroup_pw hX limit) (clauseGroup_sh limit)

theorem bothM_litInt (hX : OKC X) : BothM X litInt := ⟨litInt_pwm hX, litInt_sh⟩

end Cat
end Cnf
end Flussab
