/-
Prefix determinism inside a line (C08, replaced numeral token): the token functions of
`Model/Btor2Token.lean`, run side by side on `pre ++ tok ++ post` and `pre ++ tok' ++ post` from
the two extensions of a short state (`Proof/Btor2CataloguePrefix.lean`).

A token that starts inside `pre` ends inside `pre` (it stops at the space / newline `pre` ends in
at the latest), so both runs do the same.  At the boundary the runs differ: a numeral scanner
rejects `tok'` at its first byte (`positiveInt_bd`, …); a keyword scanner falls through in both
runs; `symbol_name`, the constant scanners and `comment_body` pass over `tok` / `tok'` and leave
the two runs in shifted states (`Cat.Sh`) — or, for a binary constant, stuck on a digit `2..9`.
-/
import Flussab.Proof.Btor2CataloguePrefix

namespace Flussab
namespace Btor2
namespace Cat
open PM

variable {X : Ctx} {α : Type}

/-! ### byte classes -/

theorem dig_range {d : UInt8} (h : isDigit d = true) : 48 ≤ d.toNat ∧ d.toNat ≤ 57 := by
  simp only [isDigit, Bool.and_eq_true, decide_eq_true_eq] at h
  exact ⟨UInt8.le_iff_toNat_le.mp h.1, UInt8.le_iff_toNat_le.mp h.2⟩

theorem dig_ne {d c : UInt8} (h : isDigit d = true) (hc : c.toNat < 48 ∨ 57 < c.toNat) : d ≠ c := by
  rintro rfl
  have := dig_range h
  omega

theorem dig_not_lower {d : UInt8} (h : isDigit d = true) : isLower d = false := by
  have := dig_range h
  cases hl : isLower d
  · rfl
  · simp only [isLower, Bool.and_eq_true, decide_eq_true_eq] at hl
    have := UInt8.le_iff_toNat_le.mp hl.1
    have : (97 : UInt8).toNat = 97 := rfl
    omega

theorem ws_not_digit {c : UInt8} (h : c = 32 ∨ c = 10) : isDigit c = false := by
  rcases h with rfl | rfl <;> rfl

theorem dig_beq {d c : UInt8} (h : isDigit d = true) (hc : c.toNat < 48 ∨ 57 < c.toNat) :
    ((some d : Option UInt8) == some c) = false := by
  have := dig_ne h hc
  simpa using this

theorem mem_of_getLast {l : VBytes} {c : UInt8} (h : l.getLast? = some c) : c ∈ l :=
  List.mem_of_getLast? h

/-! ### single bytes -/

/-- `space`, `comment_start`. -/
theorem byteToken_pw (hX : X.OK) (c : UInt8) (hcd : c.toNat < 48 ∨ 57 < c.toNat) (hc10 : c ≠ 10) :
    PWP X (do if (← reqByte) == some c then advance 1; pure (some ()) else pure none : PM (Option Unit))
      (do if (← reqByte) == some c then advance 1; pure (some ()) else pure none : PM (Option Unit)) := by
  intro s hs
  have l1 := hX.q1_len
  have l2 := hX.q2_len
  refine RWp.bind (RWp.reqAtE (k := 0) (by omega) (by omega) ?_)
  cases hr : s.v.rest with
  | nil =>
    obtain ⟨d1, tl1, e1, hd1⟩ := hX.q1_hd
    obtain ⟨d2, tl2, e2, hd2⟩ := hX.q2_hd
    have g1 : ([] ++ X.q1)[0]? = some d1 := by rw [e1]; rfl
    have g2 : ([] ++ X.q2)[0]? = some d2 := by rw [e2]; rfl
    simp only [g1, g2, dig_beq hd1 hcd, dig_beq hd2 hcd, Bool.false_eq_true, ↓reduceIte]
    exact RWp.pure (Post.inP (hs.pk 0 (Nat.zero_le _)))
  | cons x r' =>
    simp only [List.cons_append, List.getElem?_cons_zero]
    by_cases hx : x = c
    · subst hx
      simp only [beq_self_eq_true, ↓reduceIte]
      have hlen : 1 ≤ s.v.rest.length := by rw [hr]; simp
      refine RWp.bind (RWp.advanceE (n := 1) hlen ?_)
      refine RWp.pure (Post.inP ?_)
      refine hs.adv_pk hlen (Nat.zero_le _) ?_
      intro y hy
      rw [hr] at hy
      simp only [List.take_succ_cons, List.take_zero, List.mem_singleton] at hy
      rw [hy]; exact hc10
    · have hne : ((some x : Option UInt8) == some c) = false := by simpa using hx
      simp only [hne, Bool.false_eq_true, ↓reduceIte]
      exact RWp.pure (Post.inP (hs.pk 0 (Nat.zero_le _)))

theorem space_pw (hX : X.OK) : PWP X space space := byteToken_pw hX 32 (Or.inl (by decide)) (by decide)

theorem commentStart_pw (hX : X.OK) : PWP X commentStart commentStart :=
  byteToken_pw hX 59 (Or.inr (by decide)) (by decide)

theorem PWP.orGiveUp {p : PM (Option α)} (hp : PWP X p p) :
    PWP X (PM.orGiveUp p unexpected) (PM.orGiveUp p unexpected) := by
  unfold PM.orGiveUp
  refine PW.bindP hp (fun r => ?_)
  cases r with
  | some a => exact PW.pure a
  | none => exact PW.unexpected

theorem requiredSpace_pw (hX : X.OK) : PWP X requiredSpace requiredSpace := (space_pw hX).orGiveUp

theorem newline_pw (hX : X.OK) : PWP X newline newline := by
  intro s hs
  have l1 := hX.q1_len
  have l2 := hX.q2_len
  unfold newline
  refine RWp.bind (RWp.reqAtE (k := 0) (by omega) (by omega) ?_)
  cases hr : s.v.rest with
  | nil =>
    obtain ⟨d1, tl1, e1, hd1⟩ := hX.q1_hd
    obtain ⟨d2, tl2, e2, hd2⟩ := hX.q2_hd
    have g1 : ([] ++ X.q1)[0]? = some d1 := by rw [e1]; rfl
    have g2 : ([] ++ X.q2)[0]? = some d2 := by rw [e2]; rfl
    simp only [g1, g2, dig_beq hd1 (c := 10) (Or.inl (by decide)), dig_beq hd2 (c := 10) (Or.inl (by decide)),
      Bool.false_eq_true, ↓reduceIte]
    exact RWp.pure (Post.inP (hs.pk 0 (Nat.zero_le _)))
  | cons x r' =>
    simp only [List.cons_append, List.getElem?_cons_zero]
    by_cases hx : x = 10
    · subst hx
      simp only [beq_self_eq_true, ↓reduceIte]
      have hlen : 1 ≤ s.v.rest.length := by rw [hr]; simp
      refine RWp.bind (RWp.advanceE (n := 1) hlen ?_)
      refine RWp.bind (RWp.lineAtOffset ?_)
      refine RWp.pure (Post.inP (s := PM.nextLine (advLR 1 (pk 0 s)) 0) ?_)
      refine hs.of_nl hr ?_ rfl rfl rfl ?_
      · show (s.v.rest.drop 1) = r'
        rw [hr]; rfl
      · have := hs.peek
        show max s.v.peeked (s.v.pos + 0 + 1) ≤ _
        omega
    · have hne : ((some x : Option UInt8) == some 10) = false := by simpa using hx
      simp only [hne, Bool.false_eq_true, ↓reduceIte]
      exact RWp.pure (Post.inP (hs.pk 0 (Nat.zero_le _)))

theorem eof_pw (hX : X.OK) : PWP X eof eof := by
  intro s hs
  have l1 := hX.q1_len
  have l2 := hX.q2_len
  unfold eof
  refine RWp.bind (RWp.reqAtE (k := 0) (by omega) (by omega) ?_)
  have g1 : ((s.v.rest ++ X.q1)[0]?).isNone = false := by
    cases h : (s.v.rest ++ X.q1)[0]? with
    | some _ => rfl
    | none => have := List.getElem?_eq_none_iff.mp h; rw [List.length_append] at this; omega
  have g2 : ((s.v.rest ++ X.q2)[0]?).isNone = false := by
    cases h : (s.v.rest ++ X.q2)[0]? with
    | some _ => rfl
    | none => have := List.getElem?_eq_none_iff.mp h; rw [List.length_append] at this; omega
  simp only [g1, g2, Bool.false_eq_true, ↓reduceIte]
  exact RWp.pure (Post.inP (hs.pk 0 (Nat.zero_le _)))

theorem checkIoError_pw : PWP X checkIoError checkIoError := by
  intro s hs
  unfold checkIoError
  refine RWp.getBind ?_
  simp only [View.checkIoError]
  refine RWp.bind (RWp.set ?_)
  have hst : St X { s with v := { s.v with ioErr := false } } :=
    hs.of_peek rfl rfl rfl rfl hs.peek
  by_cases hio : s.v.ioErr = true
  · have h1 : (E X.q1 s).v.ioErr = true := hio
    simp only [h1, ↓reduceIte]
    exact RWp.throwLeft
  · have h1 : ¬ (E X.q1 s).v.ioErr = true := hio
    have h2 : ¬ (E X.q2 s).v.ioErr = true := hio
    simp only [h1, h2, ↓reduceIte]
    exact RWp.pure (Post.inP (s := { s with v := { s.v with ioErr := false } }) hst)

/-! ### `skip_whitespace` -/

theorem skipWsLoop_step (f off : Nat) :
    skipWsLoop (f + 1) off = PM.reqAt off >>= fun x =>
      if x = some 32 then skipWsLoop f (off + 1)
      else if x = some 10 then (PM.lineAtOffset (off + 1) >>= fun _ => skipWsLoop f (off + 1))
      else pure off := by
  rw [skipWsLoop]
  congr
  funext x
  split
  · simp
  · simp
  · rename_i h32 h10
    have a : ¬ x = some 32 := fun h => h32 h
    have b : ¬ x = some 10 := fun h => h10 h
    simp [a, b]

theorem skipWsLoop_pw (hX : X.OK) : ∀ (f1 f2 off : Nat) (s : LR), off ≤ s.v.rest.length →
    St X (advLR off s) →
    RWp (Loc X) (skipWsLoop f1 off) (skipWsLoop f2 off) (E X.q1 s) (E X.q2 s)
      (fun o1 u1 o2 u2 => o1 = o2 ∧ ∃ s', u1 = E X.q1 s' ∧ u2 = E X.q2 s' ∧
        o1 ≤ s'.v.rest.length ∧ St X (advLR o1 s'))
  | 0, _, _, _, _, _ => by
    unfold skipWsLoop
    exact RWp.throwLeft
  | f1 + 1, 0, _, _, _, _ => by
    rw [skipWsLoop.eq_1]
    exact RWp.panicRight
  | f1 + 1, f2 + 1, off, s, hoff, hst => by
    have l1 := hX.q1_len
    have l2 := hX.q2_len
    rw [skipWsLoop_step, skipWsLoop_step]
    refine RWp.bind (RWp.reqAtE (k := off) (by omega) (by omega) ?_)
    have hst' : St X (advLR off (pk off s)) := by
      refine hst.of_peek rfl rfl rfl rfl ?_
      have := hst.peek
      simp only [advLR, List.length_drop] at this
      show max s.v.peeked (s.v.pos + off + 1) ≤ s.v.pos + off + (s.v.rest.drop off).length + 1
      simp only [List.length_drop]
      omega
    by_cases hlt : off < s.v.rest.length
    · have g1 : (s.v.rest ++ X.q1)[off]? = s.v.rest[off]? := List.getElem?_append_left hlt
      have g2 : (s.v.rest ++ X.q2)[off]? = s.v.rest[off]? := List.getElem?_append_left hlt
      rw [g1, g2]
      have hget : s.v.rest[off]? = some s.v.rest[off] := List.getElem?_eq_getElem hlt
      have hdrop : s.v.rest.drop off = s.v.rest[off] :: s.v.rest.drop (off + 1) :=
        List.drop_eq_getElem_cons hlt
      by_cases h32 : s.v.rest[off]? = some 32
      · simp only [h32, ↓reduceIte]
        refine skipWsLoop_pw hX f1 f2 (off + 1) (pk off s) hlt ?_
        have hc : s.v.rest[off] = 32 := by rw [hget] at h32; exact Option.some.inj h32
        refine hst'.of_adv 1 ?_ ?_ ?_ ?_ rfl rfl ?_
        · show 1 ≤ (s.v.rest.drop off).length
          simp only [List.length_drop]; omega
        · intro y hy
          have : y ∈ (s.v.rest.drop off).take 1 := hy
          rw [hdrop] at this
          simp only [List.take_succ_cons, List.take_zero, List.mem_singleton] at this
          rw [this, hc]; decide
        · show s.v.rest.drop (off + 1) = (s.v.rest.drop off).drop 1
          rw [List.drop_drop]
        · show s.v.pos + (off + 1) = s.v.pos + off + 1
          omega
        · exact hst'.peek
      · by_cases h10 : s.v.rest[off]? = some 10
        · have n32 : ¬ ((some 10 : Option UInt8) = some 32) := by decide
          simp only [h10, n32, ↓reduceIte]
          refine RWp.bind (RWp.lineAtOffset ?_)
          refine skipWsLoop_pw hX f1 f2 (off + 1) (PM.nextLine (pk off s) (off + 1))
            hlt ?_
          have hc : s.v.rest[off] = 10 := by rw [hget] at h10; exact Option.some.inj h10
          refine hst'.of_nl (r' := s.v.rest.drop (off + 1)) ?_ rfl ?_ rfl ?_ ?_
          · show s.v.rest.drop off = _
            rw [hdrop, hc]
          · show s.v.pos + (off + 1) = s.v.pos + off + 1
            omega
          · show s.v.pos + (off + 1) = s.v.pos + off + 1
            omega
          · exact hst'.peek
        · simp only [h32, h10, ↓reduceIte]
          exact RWp.pure ⟨rfl, pk off s, rfl, rfl, by simpa using hoff, hst'⟩
    · have hoff' : off = s.v.rest.length := by omega
      obtain ⟨d1, tl1, e1, hd1⟩ := hX.q1_hd
      obtain ⟨d2, tl2, e2, hd2⟩ := hX.q2_hd
      have g1 : (s.v.rest ++ X.q1)[off]? = some d1 := by
        rw [hoff', List.getElem?_append_right (Nat.le_refl _), Nat.sub_self, e1]; rfl
      have g2 : (s.v.rest ++ X.q2)[off]? = some d2 := by
        rw [hoff', List.getElem?_append_right (Nat.le_refl _), Nat.sub_self, e2]; rfl
      have a1 : ¬ ((some d1 : Option UInt8) = some 32) := by
        intro h; exact dig_ne hd1 (c := 32) (Or.inl (by decide)) (Option.some.inj h)
      have a2 : ¬ ((some d1 : Option UInt8) = some 10) := by
        intro h; exact dig_ne hd1 (c := 10) (Or.inl (by decide)) (Option.some.inj h)
      have b1 : ¬ ((some d2 : Option UInt8) = some 32) := by
        intro h; exact dig_ne hd2 (c := 32) (Or.inl (by decide)) (Option.some.inj h)
      have b2 : ¬ ((some d2 : Option UInt8) = some 10) := by
        intro h; exact dig_ne hd2 (c := 10) (Or.inl (by decide)) (Option.some.inj h)
      simp only [g1, g2, a1, a2, b1, b2, ↓reduceIte]
      exact RWp.pure ⟨rfl, pk off s, rfl, rfl, by simpa using hoff, hst'⟩

theorem skipWhitespace_pw (hX : X.OK) : PWP X skipWhitespace skipWhitespace := by
  intro s hs
  unfold skipWhitespace
  refine RWp.getBind ?_
  have h0 : St X (advLR 0 s) := by
    refine hs.of_adv 0 (Nat.zero_le _) (by simp) rfl rfl rfl rfl hs.peek
  refine RWp.bind' (skipWsLoop_pw hX _ _ 0 s (Nat.zero_le _) h0) ?_
  rintro o1 u1 o2 u2 ⟨rfl, s', rfl, rfl, hle, hst⟩
  exact RWp.advanceE hle (Post.inP hst)

/-! ### numbers -/

/-- The value `ascii_digits` returns for a digit run. -/
def numVal (ds : VBytes) : Option Int :=
  if u64Ty.fits (Text.decVal ds : Nat) then some ((Text.decVal ds : Nat) : Int) else none

theorem asciiDigits_eq (v : View) :
    Text.asciiDigits u64Ty v 0 =
      ((numVal (v.rest.takeWhile isDigit), (v.rest.takeWhile isDigit).length),
        v.demand (v.rest.takeWhile isDigit).length) := by
  have h1 := C13.digits_exact u64Ty (by decide) v 0
  obtain ⟨_, h2⟩ := digitsCont_spec u64Ty false v 0 (some 0)
  simp only [List.drop_zero, Nat.zero_add] at h1 h2
  have h2' : (Text.asciiDigits u64Ty v 0).2 = v.demand (v.rest.takeWhile isDigit).length := h2
  exact Prod.ext h1 h2'

theorem utf8Unwrap_rwp {G : PErr → Prop} {t1 t2 : LR} (bs : VBytes) {Q : Unit → LR → Unit → LR → Prop}
    (h : Q () t1 () t2) : RWp G (PM.utf8Unwrap bs) (PM.utf8Unwrap bs) t1 t2 Q := by
  unfold PM.utf8Unwrap
  split
  · exact RWp.pure h
  · exact RWp.throwLeft

/-- `uint` that starts inside the short input. -/
theorem uint_in (hX : X.OK) {s : LR} (hs : St X s) (hne : s.v.rest ≠ []) :
    RWp (Loc X) uint uint (E X.q1 s) (E X.q2 s) (Post X No2 No1 No1) := by
  obtain ⟨c, hlast, hc⟩ := hs.last hne
  have hcd : isDigit c = false := ws_not_digit hc
  have hn : Text.runLen isDigit s.v.rest < s.v.rest.length := runLen_lt_of_getLast isDigit hlast hcd
  have htw : ∀ q, (E q s).v.rest.takeWhile isDigit = s.v.rest.takeWhile isDigit := fun q =>
    takeWhile_append_stop _ _ ⟨c, mem_of_getLast hlast, hcd⟩
  have hlen : (s.v.rest.takeWhile isDigit).length = Text.runLen isDigit s.v.rest :=
    (runLen_eq_takeWhile _ _).symm
  have hno : ∀ x ∈ s.v.rest.take (Text.runLen isDigit s.v.rest), x ≠ 10 :=
    fun x hx => digit_ne_lf x (runLen_take_all isDigit _ x hx)
  unfold uint
  have f1 := asciiDigits_eq (E X.q1 s).v
  have f2 := asciiDigits_eq (E X.q2 s).v
  rw [htw, hlen] at f1 f2
  refine RWp.bind (RWp.scanE (f1 := (Text.asciiDigits u64Ty · 0)) (f2 := (Text.asciiDigits u64Ty · 0))
    f1 f2 (by omega) (by omega) ?_)
  dsimp only
  split
  · have h1 : 1 ≤ (pk (Text.runLen isDigit s.v.rest) s).v.rest.length := by
      simp only [pk_rest]; omega
    refine RWp.bind (RWp.bufPrefixE (n := 1) h1 ?_)
    split
    · refine RWp.bind (RWp.advanceE (by simp only [pk_rest]; omega) ?_)
      exact RWp.pure (Post.inP (hs.adv_pk (by omega) (by omega) hno))
    · refine RWp.bind (RWp.bufPrefixE (by simp only [pk_rest]; omega) ?_)
      refine RWp.bind (utf8Unwrap_rwp _ ?_)
      exact RWp.pure (Post.inP (hs.pk _ (by omega)))
  · exact RWp.pure (Post.inP (hs.pk _ (by omega)))

theorem St.setMark {s : LR} (hs : St X s) : St X { s with v := s.v.setMark } :=
  hs.of_peek rfl rfl rfl rfl hs.peek

/-- `positive_int` that starts inside the short input. -/
theorem positiveInt_in (hX : X.OK) {s : LR} (hs : St X s) (hne : s.v.rest ≠ []) :
    RWp (Loc X) positiveInt positiveInt (E X.q1 s) (E X.q2 s) (Post X No2 No1 No1) := by
  have l1 := hX.q1_len
  have l2 := hX.q2_len
  unfold positiveInt
  refine RWp.bind (RWp.reqAtE (k := 0) (by omega) (by omega) ?_)
  cases hr : s.v.rest with
  | nil => exact absurd hr hne
  | cons x r' =>
    simp only [List.cons_append, List.getElem?_cons_zero]
    split
    · exact RWp.pure (Post.inP (hs.pk 0 (Nat.zero_le _)))
    · refine RWp.bind (RWp.setMark ?_)
      have hst : St X { pk 0 s with v := (pk 0 s).v.setMark } := (hs.pk 0 (Nat.zero_le _)).setMark
      refine RWp.bind' (uint_in hX hst hne) ?_
      intro a1 u1 a2 u2 hp
      rcases hp with ⟨rfl, s3, hs3, rfl, rfl⟩ | ⟨h, _⟩ | ⟨h, _⟩ | ⟨h, _⟩
      · split
        · exact RWp.pure (Post.inP hs3)
        · exact RWp.left (exceedsCount_never _)
        · split
          · exact RWp.throwLeft
          · exact RWp.pure (Post.inP hs3)
      · exact h.elim
      · exact h.elim
      · exact h.elim

theorem nonnegativeInt_in (hX : X.OK) {s : LR} (hs : St X s) (hne : s.v.rest ≠ []) :
    RWp (Loc X) nonnegativeInt nonnegativeInt (E X.q1 s) (E X.q2 s) (Post X No2 No1 No1) := by
  unfold nonnegativeInt
  refine RWp.bind (RWp.setMark ?_)
  refine RWp.bind' (uint_in hX hs.setMark hne) ?_
  intro a1 u1 a2 u2 hp
  rcases hp with ⟨rfl, s3, hs3, rfl, rfl⟩ | ⟨h, _⟩ | ⟨h, _⟩ | ⟨h, _⟩
  · split
    · exact RWp.pure (Post.inP hs3)
    · exact RWp.left (exceedsCount_never _)
    · exact RWp.pure (Post.inP hs3)
  · exact h.elim
  · exact h.elim
  · exact h.elim

/-- The digit run at the boundary in run 2 is the replacement token. -/
theorem q2_takeWhile (hX : X.OK) : X.q2.takeWhile isDigit = X.tok' := by
  obtain ⟨c, tl, hp, hc⟩ := hX.post_cons
  unfold Ctx.q2
  rw [hp]
  exact takeWhile_append isDigit _ c tl hX.tok'_dig (ws_not_digit hc)

theorem E_nil_rest {s : LR} (q : VBytes) (hr : s.v.rest = []) : (E q s).v.rest = q := by
  simp [hr]

/-- A number read at the boundary in run 2 would be the value of the replacement token. -/
theorem numberRead_bd (hX : X.OK) {s u : LR} (hr : s.v.rest = []) {v : Nat}
    (h : NumberRead (E X.q2 s) v u) : False := by
  have h1 := h.value
  have h2 := h.range
  rw [E_nil_rest _ hr, q2_takeWhile hX] at h1
  have := hX.big
  omega

theorem dig2_bd (hX : X.OK) {s u : LR} (hs : St X s) (hr : s.v.rest = []) (hst : Still (E X.q2 s) u)
    (hrest : u.v.rest = (E X.q2 s).v.rest) : Dig2 X u := by
  obtain ⟨d2, tl2, e2, hd2⟩ := hX.q2_hd
  refine ⟨⟨d2, tl2, by rw [hrest, E_nil_rest _ hr, e2], hd2⟩, ?_⟩
  rw [hst.line, hst.pos, hst.lineStart]
  exact hs.loc hr 0 hX.tok'_pos

/-- `positive_int` at the boundary in run 2: an error on the token, or a Fallthrough (leading `0`)
that consumed nothing. -/
theorem positiveInt_bd (hX : X.OK) {s : LR} (hs : St X s) (hr : s.v.rest = []) :
    Wp (fun e _ => Loc X e) positiveInt (E X.q2 s) (fun a u => a = none ∧ Dig2 X u) := by
  have hA := positiveInt_at (lr := E X.q2 s)
  have hB := positiveInt_c (lr := E X.q2 s)
  have hC := positiveInt_exact_pc (lr := E X.q2 s)
  refine (Wp.monoE (Wp.and (Wp.and hA hB) hC) ?_).mono ?_
  · rintro e u ⟨⟨ha, _⟩, _⟩
    exact atStart_loc (hs.loc hr 0 hX.tok'_pos) e u ha
  · rintro a u ⟨⟨h1, h2⟩, h3⟩
    cases a with
    | none => exact ⟨rfl, dig2_bd hX hs hr (h1 rfl) (h2.2 rfl)⟩
    | some v => exact (numberRead_bd hX hr (h3 v rfl).1).elim

theorem positiveInt_pw (hX : X.OK) : PW X positiveInt positiveInt No2 No1 (· = none) := by
  intro s hs
  by_cases hr : s.v.rest = []
  · exact RWp.right ((positiveInt_bd hX hs hr).mono
      (fun a u h _ _ => Or.inr (Or.inr (Or.inl h))))
  · exact (positiveInt_in hX hs hr).mono (fun _ _ _ _ h => h.mono (fun _ _ hh => hh.elim)
      (fun _ hh => hh.elim) (fun _ hh => hh.elim))

theorem requiredId_pw (hX : X.OK) : PWP X requiredNodeId requiredNodeId := by
  intro s hs
  by_cases hr : s.v.rest = []
  · have hA := requiredId_at (lr := E X.q2 s)
    have hC := requiredId_exact_pc (lr := E X.q2 s)
    refine RWp.right ((Wp.monoE (Wp.and hA hC) ?_).mono ?_)
    · rintro e u ⟨ha, _⟩
      exact atStart_loc (hs.loc hr 0 hX.tok'_pos) e u ha
    · rintro a u ⟨_, h3⟩
      exact (numberRead_bd hX hr h3.1).elim
  · unfold requiredNodeId nodeId PM.orGiveUp
    refine RWp.bind' (positiveInt_in hX hs hr) ?_
    intro a1 u1 a2 u2 hp
    rcases hp with ⟨rfl, s3, hs3, rfl, rfl⟩ | ⟨h, _⟩ | ⟨h, _⟩ | ⟨h, _⟩
    · cases a1 with
      | some a => exact RWp.pure (Post.inP hs3)
      | none => exact RWp.unexpectedLeft
    · exact h.elim
    · exact h.elim
    · exact h.elim

theorem requiredNonneg_pw (hX : X.OK) : PWP X requiredNonnegativeInt requiredNonnegativeInt := by
  intro s hs
  by_cases hr : s.v.rest = []
  · have hA := requiredNonneg_at (lr := E X.q2 s)
    have hC := requiredNonneg_exact_pc (lr := E X.q2 s)
    refine RWp.right ((Wp.monoE (Wp.and hA hC) ?_).mono ?_)
    · rintro e u ⟨ha, _⟩
      exact atStart_loc (hs.loc hr 0 hX.tok'_pos) e u ha
    · rintro a u ⟨_, h3⟩
      exact (numberRead_bd hX hr h3).elim
  · unfold requiredNonnegativeInt PM.orGiveUp
    refine RWp.bind' (nonnegativeInt_in hX hs hr) ?_
    intro a1 u1 a2 u2 hp
    rcases hp with ⟨rfl, s3, hs3, rfl, rfl⟩ | ⟨h, _⟩ | ⟨h, _⟩ | ⟨h, _⟩
    · cases a1 with
      | some a => exact RWp.pure (Post.inP hs3)
      | none => exact RWp.unexpectedLeft
    · exact h.elim
    · exact h.elim
    · exact h.elim

/-! ### keywords -/

theorem scanWhile0_eq (p : UInt8 → Bool) (v : View) :
    scanWhile p v 0 = (Text.runLen p v.rest, v.demand (Text.runLen p v.rest)) := by
  simp [scanWhile]

theorem lower_ne_lf {x : UInt8} (h : isLower x = true) : x ≠ 10 := by
  rintro rfl
  simp [isLower] at h

theorem keywordToken_pw (hX : X.OK) {τ : Type} (table : VBytes → Option τ) :
    PWP X (keywordToken table) (keywordToken table) := by
  intro s hs
  have l1 := hX.q1_len
  have l2 := hX.q2_len
  obtain ⟨d1, tl1, e1, hd1⟩ := hX.q1_hd
  obtain ⟨d2, tl2, e2, hd2⟩ := hX.q2_hd
  have hle : Text.runLen isLower s.v.rest ≤ s.v.rest.length := runLen_le _ _
  have r1 : Text.runLen isLower (E X.q1 s).v.rest = Text.runLen isLower s.v.rest := by
    rw [E_rest, e1]; exact runLen_append_hd _ _ (dig_not_lower hd1)
  have r2 : Text.runLen isLower (E X.q2 s).v.rest = Text.runLen isLower s.v.rest := by
    rw [E_rest, e2]; exact runLen_append_hd _ _ (dig_not_lower hd2)
  have f1 := scanWhile0_eq isLower (E X.q1 s).v
  have f2 := scanWhile0_eq isLower (E X.q2 s).v
  rw [r1] at f1
  rw [r2] at f2
  have hno : ∀ x ∈ s.v.rest.take (Text.runLen isLower s.v.rest), x ≠ 10 :=
    fun x hx => lower_ne_lf (runLen_take_all isLower _ x hx)
  unfold keywordToken lowercaseRun
  refine RWp.bind (RWp.scanE (f1 := (scanWhile isLower · 0)) (f2 := (scanWhile isLower · 0))
    f1 f2 (by omega) (by omega) ?_)
  refine RWp.bind (RWp.bufPrefixE (by simp only [pk_rest]; exact hle) ?_)
  simp only [pk_rest]
  split
  · exact RWp.pure (Post.inP (hs.pk _ hle))
  · have hl : (s.v.rest.take (Text.runLen isLower s.v.rest)).length = Text.runLen isLower s.v.rest := by
      rw [List.length_take]; omega
    rw [hl]
    refine RWp.bind (RWp.advanceE (by simp only [pk_rest]; exact hle) ?_)
    exact RWp.pure (Post.inP (hs.adv_pk hle hle hno))

end Cat
end Btor2
end Flussab
