/-
The 8-byte SWAR kernel of the BTOR2 keyword scanner (`ascii_lowercase_u64`, regenerated from
/repo into `Flussab.Gen.asciiLowercaseU64`) is correct for ALL 2^64 words: for each possible
number `c ∈ 0..8` of leading `a..z` bytes it returns `c` and the word masked to those `c` bytes,
and none of its debug-build arithmetic checks can fire.  Each case is one `bv_decide` call
(SAT + verified LRAT check), like `Proof/Swar.lean` for the digit kernel.

Then, on byte lists: applied to the little-endian load of 8 buffered bytes the kernel returns the
leading `a..z` run of those bytes (as a word) and its length.
-/
import Flussab.Proof.SwarList
import Flussab.Model.Btor2Token

namespace Flussab.SwarLower
open Flussab Flussab.Gen Flussab.Swar Flussab.Text

/-- `b'a'..=b'z'` on a lane. -/
def isLow (b : BitVec 8) : Bool := 97#8 ≤ b && b ≤ 122#8

theorem decide_toNat_lt (x : BitVec 32) : decide (x.toNat < 64) = x.ult 64#32 := by
  simp [BitVec.ult]

/-- **No arithmetic check of the kernel can fire** (`REPEAET * k`, the two additions and the
shift amount are all in range), for every word. -/
theorem lower_noPanic (w : BitVec 64) : asciiLowercaseU64NoPanic w = true := by
  simp only [asciiLowercaseU64NoPanic, decide_toNat_lt]
  bv_decide (config := {timeout := 600})

theorem lower_c0 (w : BitVec 64)  (h0 : isLow (byteAt w 0) = false) :
    asciiLowercaseU64 w = (w &&& 0#64, 0) := by
  simp only [byteAt, isLow] at *
  refine Prod.ext ?_ ?_
  · simp only [asciiLowercaseU64]
    rw [ite_fst]
    bv_decide (config := {timeout := 600})
  · simp only [asciiLowercaseU64]
    rw [ite_snd]; simp only [ite_toNat]
    apply toNat_eq_of_eq_ofNat _ (by decide)
    bv_decide (config := {timeout := 600})

theorem lower_c1 (w : BitVec 64) (h0 : isLow (byteAt w 0) = true) (h1 : isLow (byteAt w 1) = false) :
    asciiLowercaseU64 w = (w &&& 0xff#64, 1) := by
  simp only [byteAt, isLow] at *
  refine Prod.ext ?_ ?_
  · simp only [asciiLowercaseU64]
    rw [ite_fst]
    bv_decide (config := {timeout := 600})
  · simp only [asciiLowercaseU64]
    rw [ite_snd]; simp only [ite_toNat]
    apply toNat_eq_of_eq_ofNat _ (by decide)
    bv_decide (config := {timeout := 600})

theorem lower_c2 (w : BitVec 64) (h0 : isLow (byteAt w 0) = true) (h1 : isLow (byteAt w 1) = true) (h2 : isLow (byteAt w 2) = false) :
    asciiLowercaseU64 w = (w &&& 0xffff#64, 2) := by
  simp only [byteAt, isLow] at *
  refine Prod.ext ?_ ?_
  · simp only [asciiLowercaseU64]
    rw [ite_fst]
    bv_decide (config := {timeout := 600})
  · simp only [asciiLowercaseU64]
    rw [ite_snd]; simp only [ite_toNat]
    apply toNat_eq_of_eq_ofNat _ (by decide)
    bv_decide (config := {timeout := 600})

theorem lower_c3 (w : BitVec 64) (h0 : isLow (byteAt w 0) = true) (h1 : isLow (byteAt w 1) = true) (h2 : isLow (byteAt w 2) = true) (h3 : isLow (byteAt w 3) = false) :
    asciiLowercaseU64 w = (w &&& 0xffffff#64, 3) := by
  simp only [byteAt, isLow] at *
  refine Prod.ext ?_ ?_
  · simp only [asciiLowercaseU64]
    rw [ite_fst]
    bv_decide (config := {timeout := 600})
  · simp only [asciiLowercaseU64]
    rw [ite_snd]; simp only [ite_toNat]
    apply toNat_eq_of_eq_ofNat _ (by decide)
    bv_decide (config := {timeout := 600})

theorem lower_c4 (w : BitVec 64) (h0 : isLow (byteAt w 0) = true) (h1 : isLow (byteAt w 1) = true) (h2 : isLow (byteAt w 2) = true) (h3 : isLow (byteAt w 3) = true) (h4 : isLow (byteAt w 4) = false) :
    asciiLowercaseU64 w = (w &&& 0xffffffff#64, 4) := by
  simp only [byteAt, isLow] at *
  refine Prod.ext ?_ ?_
  · simp only [asciiLowercaseU64]
    rw [ite_fst]
    bv_decide (config := {timeout := 600})
  · simp only [asciiLowercaseU64]
    rw [ite_snd]; simp only [ite_toNat]
    apply toNat_eq_of_eq_ofNat _ (by decide)
    bv_decide (config := {timeout := 600})

theorem lower_c5 (w : BitVec 64) (h0 : isLow (byteAt w 0) = true) (h1 : isLow (byteAt w 1) = true) (h2 : isLow (byteAt w 2) = true) (h3 : isLow (byteAt w 3) = true) (h4 : isLow (byteAt w 4) = true) (h5 : isLow (byteAt w 5) = false) :
    asciiLowercaseU64 w = (w &&& 0xffffffffff#64, 5) := by
  simp only [byteAt, isLow] at *
  refine Prod.ext ?_ ?_
  · simp only [asciiLowercaseU64]
    rw [ite_fst]
    bv_decide (config := {timeout := 600})
  · simp only [asciiLowercaseU64]
    rw [ite_snd]; simp only [ite_toNat]
    apply toNat_eq_of_eq_ofNat _ (by decide)
    bv_decide (config := {timeout := 600})

theorem lower_c6 (w : BitVec 64) (h0 : isLow (byteAt w 0) = true) (h1 : isLow (byteAt w 1) = true) (h2 : isLow (byteAt w 2) = true) (h3 : isLow (byteAt w 3) = true) (h4 : isLow (byteAt w 4) = true) (h5 : isLow (byteAt w 5) = true) (h6 : isLow (byteAt w 6) = false) :
    asciiLowercaseU64 w = (w &&& 0xffffffffffff#64, 6) := by
  simp only [byteAt, isLow] at *
  refine Prod.ext ?_ ?_
  · simp only [asciiLowercaseU64]
    rw [ite_fst]
    bv_decide (config := {timeout := 600})
  · simp only [asciiLowercaseU64]
    rw [ite_snd]; simp only [ite_toNat]
    apply toNat_eq_of_eq_ofNat _ (by decide)
    bv_decide (config := {timeout := 600})

theorem lower_c7 (w : BitVec 64) (h0 : isLow (byteAt w 0) = true) (h1 : isLow (byteAt w 1) = true) (h2 : isLow (byteAt w 2) = true) (h3 : isLow (byteAt w 3) = true) (h4 : isLow (byteAt w 4) = true) (h5 : isLow (byteAt w 5) = true) (h6 : isLow (byteAt w 6) = true) (h7 : isLow (byteAt w 7) = false) :
    asciiLowercaseU64 w = (w &&& 0xffffffffffffff#64, 7) := by
  simp only [byteAt, isLow] at *
  refine Prod.ext ?_ ?_
  · simp only [asciiLowercaseU64]
    rw [ite_fst]
    bv_decide (config := {timeout := 600})
  · simp only [asciiLowercaseU64]
    rw [ite_snd]; simp only [ite_toNat]
    apply toNat_eq_of_eq_ofNat _ (by decide)
    bv_decide (config := {timeout := 600})

theorem lower_c8 (w : BitVec 64) (h0 : isLow (byteAt w 0) = true) (h1 : isLow (byteAt w 1) = true) (h2 : isLow (byteAt w 2) = true) (h3 : isLow (byteAt w 3) = true) (h4 : isLow (byteAt w 4) = true) (h5 : isLow (byteAt w 5) = true) (h6 : isLow (byteAt w 6) = true) (h7 : isLow (byteAt w 7) = true) :
    asciiLowercaseU64 w = (w, 8) := by
  simp only [byteAt, isLow] at *
  refine Prod.ext ?_ ?_
  · simp only [asciiLowercaseU64]
    rw [ite_fst]
    bv_decide (config := {timeout := 600})
  · simp only [asciiLowercaseU64]
    rw [ite_snd]; simp only [ite_toNat]
    apply toNat_eq_of_eq_ofNat _ (by decide)
    bv_decide (config := {timeout := 600})

/-! ### from words to byte lists -/

theorem isLow_toBitVec (b : UInt8) : isLow b.toBitVec = Btor2.isLower b := by
  simp only [isLow, Btor2.isLower]
  congr 1

theorem le64_bytes (b0 b1 b2 b3 b4 b5 b6 b7 : UInt8) (rest : VBytes) :
    byteAt (le64 (b0 :: b1 :: b2 :: b3 :: b4 :: b5 :: b6 :: b7 :: rest)) 0 = b0.toBitVec ∧ byteAt (le64 (b0 :: b1 :: b2 :: b3 :: b4 :: b5 :: b6 :: b7 :: rest)) 1 = b1.toBitVec ∧
    byteAt (le64 (b0 :: b1 :: b2 :: b3 :: b4 :: b5 :: b6 :: b7 :: rest)) 2 = b2.toBitVec ∧ byteAt (le64 (b0 :: b1 :: b2 :: b3 :: b4 :: b5 :: b6 :: b7 :: rest)) 3 = b3.toBitVec ∧
    byteAt (le64 (b0 :: b1 :: b2 :: b3 :: b4 :: b5 :: b6 :: b7 :: rest)) 4 = b4.toBitVec ∧ byteAt (le64 (b0 :: b1 :: b2 :: b3 :: b4 :: b5 :: b6 :: b7 :: rest)) 5 = b5.toBitVec ∧
    byteAt (le64 (b0 :: b1 :: b2 :: b3 :: b4 :: b5 :: b6 :: b7 :: rest)) 6 = b6.toBitVec ∧ byteAt (le64 (b0 :: b1 :: b2 :: b3 :: b4 :: b5 :: b6 :: b7 :: rest)) 7 = b7.toBitVec :=
  Flussab.Swar.le64_bytes b0 b1 b2 b3 b4 b5 b6 b7 rest

theorem le64_mask0 (b0 b1 b2 b3 b4 b5 b6 b7 : UInt8) (rest : VBytes) :
    le64 (b0 :: b1 :: b2 :: b3 :: b4 :: b5 :: b6 :: b7 :: rest) &&& 0#64 = le64 [] := by
  simp only [le64, List.getD_cons_zero, List.getD_cons_succ, List.getD_nil]
  have h0 : (0 : UInt8).toBitVec = 0#8 := rfl
  rw [h0]
  generalize b0.toBitVec = x0
  generalize b1.toBitVec = x1
  generalize b2.toBitVec = x2
  generalize b3.toBitVec = x3
  generalize b4.toBitVec = x4
  generalize b5.toBitVec = x5
  generalize b6.toBitVec = x6
  generalize b7.toBitVec = x7
  bv_decide

theorem le64_mask1 (b0 b1 b2 b3 b4 b5 b6 b7 : UInt8) (rest : VBytes) :
    le64 (b0 :: b1 :: b2 :: b3 :: b4 :: b5 :: b6 :: b7 :: rest) &&& 0xff#64 = le64 [b0] := by
  simp only [le64, List.getD_cons_zero, List.getD_cons_succ, List.getD_nil]
  have h0 : (0 : UInt8).toBitVec = 0#8 := rfl
  rw [h0]
  generalize b0.toBitVec = x0
  generalize b1.toBitVec = x1
  generalize b2.toBitVec = x2
  generalize b3.toBitVec = x3
  generalize b4.toBitVec = x4
  generalize b5.toBitVec = x5
  generalize b6.toBitVec = x6
  generalize b7.toBitVec = x7
  bv_decide

theorem le64_mask2 (b0 b1 b2 b3 b4 b5 b6 b7 : UInt8) (rest : VBytes) :
    le64 (b0 :: b1 :: b2 :: b3 :: b4 :: b5 :: b6 :: b7 :: rest) &&& 0xffff#64 = le64 [b0, b1] := by
  simp only [le64, List.getD_cons_zero, List.getD_cons_succ, List.getD_nil]
  have h0 : (0 : UInt8).toBitVec = 0#8 := rfl
  rw [h0]
  generalize b0.toBitVec = x0
  generalize b1.toBitVec = x1
  generalize b2.toBitVec = x2
  generalize b3.toBitVec = x3
  generalize b4.toBitVec = x4
  generalize b5.toBitVec = x5
  generalize b6.toBitVec = x6
  generalize b7.toBitVec = x7
  bv_decide

theorem le64_mask3 (b0 b1 b2 b3 b4 b5 b6 b7 : UInt8) (rest : VBytes) :
    le64 (b0 :: b1 :: b2 :: b3 :: b4 :: b5 :: b6 :: b7 :: rest) &&& 0xffffff#64 = le64 [b0, b1, b2] := by
  simp only [le64, List.getD_cons_zero, List.getD_cons_succ, List.getD_nil]
  have h0 : (0 : UInt8).toBitVec = 0#8 := rfl
  rw [h0]
  generalize b0.toBitVec = x0
  generalize b1.toBitVec = x1
  generalize b2.toBitVec = x2
  generalize b3.toBitVec = x3
  generalize b4.toBitVec = x4
  generalize b5.toBitVec = x5
  generalize b6.toBitVec = x6
  generalize b7.toBitVec = x7
  bv_decide

theorem le64_mask4 (b0 b1 b2 b3 b4 b5 b6 b7 : UInt8) (rest : VBytes) :
    le64 (b0 :: b1 :: b2 :: b3 :: b4 :: b5 :: b6 :: b7 :: rest) &&& 0xffffffff#64 = le64 [b0, b1, b2, b3] := by
  simp only [le64, List.getD_cons_zero, List.getD_cons_succ, List.getD_nil]
  have h0 : (0 : UInt8).toBitVec = 0#8 := rfl
  rw [h0]
  generalize b0.toBitVec = x0
  generalize b1.toBitVec = x1
  generalize b2.toBitVec = x2
  generalize b3.toBitVec = x3
  generalize b4.toBitVec = x4
  generalize b5.toBitVec = x5
  generalize b6.toBitVec = x6
  generalize b7.toBitVec = x7
  bv_decide

theorem le64_mask5 (b0 b1 b2 b3 b4 b5 b6 b7 : UInt8) (rest : VBytes) :
    le64 (b0 :: b1 :: b2 :: b3 :: b4 :: b5 :: b6 :: b7 :: rest) &&& 0xffffffffff#64 = le64 [b0, b1, b2, b3, b4] := by
  simp only [le64, List.getD_cons_zero, List.getD_cons_succ, List.getD_nil]
  have h0 : (0 : UInt8).toBitVec = 0#8 := rfl
  rw [h0]
  generalize b0.toBitVec = x0
  generalize b1.toBitVec = x1
  generalize b2.toBitVec = x2
  generalize b3.toBitVec = x3
  generalize b4.toBitVec = x4
  generalize b5.toBitVec = x5
  generalize b6.toBitVec = x6
  generalize b7.toBitVec = x7
  bv_decide

theorem le64_mask6 (b0 b1 b2 b3 b4 b5 b6 b7 : UInt8) (rest : VBytes) :
    le64 (b0 :: b1 :: b2 :: b3 :: b4 :: b5 :: b6 :: b7 :: rest) &&& 0xffffffffffff#64 = le64 [b0, b1, b2, b3, b4, b5] := by
  simp only [le64, List.getD_cons_zero, List.getD_cons_succ, List.getD_nil]
  have h0 : (0 : UInt8).toBitVec = 0#8 := rfl
  rw [h0]
  generalize b0.toBitVec = x0
  generalize b1.toBitVec = x1
  generalize b2.toBitVec = x2
  generalize b3.toBitVec = x3
  generalize b4.toBitVec = x4
  generalize b5.toBitVec = x5
  generalize b6.toBitVec = x6
  generalize b7.toBitVec = x7
  bv_decide

theorem le64_mask7 (b0 b1 b2 b3 b4 b5 b6 b7 : UInt8) (rest : VBytes) :
    le64 (b0 :: b1 :: b2 :: b3 :: b4 :: b5 :: b6 :: b7 :: rest) &&& 0xffffffffffffff#64 = le64 [b0, b1, b2, b3, b4, b5, b6] := by
  simp only [le64, List.getD_cons_zero, List.getD_cons_succ, List.getD_nil]
  have h0 : (0 : UInt8).toBitVec = 0#8 := rfl
  rw [h0]
  generalize b0.toBitVec = x0
  generalize b1.toBitVec = x1
  generalize b2.toBitVec = x2
  generalize b3.toBitVec = x3
  generalize b4.toBitVec = x4
  generalize b5.toBitVec = x5
  generalize b6.toBitVec = x6
  generalize b7.toBitVec = x7
  bv_decide

theorem le64_take8 (b0 b1 b2 b3 b4 b5 b6 b7 : UInt8) (rest : VBytes) :
    le64 (b0 :: b1 :: b2 :: b3 :: b4 :: b5 :: b6 :: b7 :: rest) = le64 [b0, b1, b2, b3, b4, b5, b6, b7] := by
  simp only [le64, List.getD_cons_zero, List.getD_cons_succ]

/-- **Kernel on 8 buffered bytes** = (the leading `a..z` run of those bytes as a word, its length). -/
theorem lower_list (b0 b1 b2 b3 b4 b5 b6 b7 : UInt8) (rest : VBytes) :
    asciiLowercaseU64 (le64 (b0 :: b1 :: b2 :: b3 :: b4 :: b5 :: b6 :: b7 :: rest)) =
      (le64 ((List.take 8 (b0 :: b1 :: b2 :: b3 :: b4 :: b5 :: b6 :: b7 :: rest)).takeWhile Btor2.isLower),
       ((List.take 8 (b0 :: b1 :: b2 :: b3 :: b4 :: b5 :: b6 :: b7 :: rest)).takeWhile Btor2.isLower).length) := by
  obtain ⟨hb0, hb1, hb2, hb3, hb4, hb5, hb6, hb7⟩ := le64_bytes b0 b1 b2 b3 b4 b5 b6 b7 rest
  cases hd0 : Btor2.isLower b0
  · -- b0 is not a..z: run length 0
    have hs := lower_c0 (le64 (b0 :: b1 :: b2 :: b3 :: b4 :: b5 :: b6 :: b7 :: rest)) (by rw [hb0, isLow_toBitVec]; exact hd0)
    simp only [List.take, List.takeWhile, hd0]
    rw [hs]
    rw [le64_mask0]; rfl
  · -- b0 is a..z
    cases hd1 : Btor2.isLower b1
    · -- b1 is not a..z: run length 1
      have hs := lower_c1 (le64 (b0 :: b1 :: b2 :: b3 :: b4 :: b5 :: b6 :: b7 :: rest)) (by rw [hb0, isLow_toBitVec]; exact hd0) (by rw [hb1, isLow_toBitVec]; exact hd1)
      simp only [List.take, List.takeWhile, hd0, hd1]
      rw [hs]
      rw [le64_mask1]; rfl
    · -- b1 is a..z
      cases hd2 : Btor2.isLower b2
      · -- b2 is not a..z: run length 2
        have hs := lower_c2 (le64 (b0 :: b1 :: b2 :: b3 :: b4 :: b5 :: b6 :: b7 :: rest)) (by rw [hb0, isLow_toBitVec]; exact hd0) (by rw [hb1, isLow_toBitVec]; exact hd1) (by rw [hb2, isLow_toBitVec]; exact hd2)
        simp only [List.take, List.takeWhile, hd0, hd1, hd2]
        rw [hs]
        rw [le64_mask2]; rfl
      · -- b2 is a..z
        cases hd3 : Btor2.isLower b3
        · -- b3 is not a..z: run length 3
          have hs := lower_c3 (le64 (b0 :: b1 :: b2 :: b3 :: b4 :: b5 :: b6 :: b7 :: rest)) (by rw [hb0, isLow_toBitVec]; exact hd0) (by rw [hb1, isLow_toBitVec]; exact hd1) (by rw [hb2, isLow_toBitVec]; exact hd2) (by rw [hb3, isLow_toBitVec]; exact hd3)
          simp only [List.take, List.takeWhile, hd0, hd1, hd2, hd3]
          rw [hs]
          rw [le64_mask3]; rfl
        · -- b3 is a..z
          cases hd4 : Btor2.isLower b4
          · -- b4 is not a..z: run length 4
            have hs := lower_c4 (le64 (b0 :: b1 :: b2 :: b3 :: b4 :: b5 :: b6 :: b7 :: rest)) (by rw [hb0, isLow_toBitVec]; exact hd0) (by rw [hb1, isLow_toBitVec]; exact hd1) (by rw [hb2, isLow_toBitVec]; exact hd2) (by rw [hb3, isLow_toBitVec]; exact hd3) (by rw [hb4, isLow_toBitVec]; exact hd4)
            simp only [List.take, List.takeWhile, hd0, hd1, hd2, hd3, hd4]
            rw [hs]
            rw [le64_mask4]; rfl
          · -- b4 is a..z
            cases hd5 : Btor2.isLower b5
            · -- b5 is not a..z: run length 5
              have hs := lower_c5 (le64 (b0 :: b1 :: b2 :: b3 :: b4 :: b5 :: b6 :: b7 :: rest)) (by rw [hb0, isLow_toBitVec]; exact hd0) (by rw [hb1, isLow_toBitVec]; exact hd1) (by rw [hb2, isLow_toBitVec]; exact hd2) (by rw [hb3, isLow_toBitVec]; exact hd3) (by rw [hb4, isLow_toBitVec]; exact hd4) (by rw [hb5, isLow_toBitVec]; exact hd5)
              simp only [List.take, List.takeWhile, hd0, hd1, hd2, hd3, hd4, hd5]
              rw [hs]
              rw [le64_mask5]; rfl
            · -- b5 is a..z
              cases hd6 : Btor2.isLower b6
              · -- b6 is not a..z: run length 6
                have hs := lower_c6 (le64 (b0 :: b1 :: b2 :: b3 :: b4 :: b5 :: b6 :: b7 :: rest)) (by rw [hb0, isLow_toBitVec]; exact hd0) (by rw [hb1, isLow_toBitVec]; exact hd1) (by rw [hb2, isLow_toBitVec]; exact hd2) (by rw [hb3, isLow_toBitVec]; exact hd3) (by rw [hb4, isLow_toBitVec]; exact hd4) (by rw [hb5, isLow_toBitVec]; exact hd5) (by rw [hb6, isLow_toBitVec]; exact hd6)
                simp only [List.take, List.takeWhile, hd0, hd1, hd2, hd3, hd4, hd5, hd6]
                rw [hs]
                rw [le64_mask6]; rfl
              · -- b6 is a..z
                cases hd7 : Btor2.isLower b7
                · -- b7 is not a..z: run length 7
                  have hs := lower_c7 (le64 (b0 :: b1 :: b2 :: b3 :: b4 :: b5 :: b6 :: b7 :: rest)) (by rw [hb0, isLow_toBitVec]; exact hd0) (by rw [hb1, isLow_toBitVec]; exact hd1) (by rw [hb2, isLow_toBitVec]; exact hd2) (by rw [hb3, isLow_toBitVec]; exact hd3) (by rw [hb4, isLow_toBitVec]; exact hd4) (by rw [hb5, isLow_toBitVec]; exact hd5) (by rw [hb6, isLow_toBitVec]; exact hd6) (by rw [hb7, isLow_toBitVec]; exact hd7)
                  simp only [List.take, List.takeWhile, hd0, hd1, hd2, hd3, hd4, hd5, hd6, hd7]
                  rw [hs]
                  rw [le64_mask7]; rfl
                · -- b7 is a..z
                  have hs := lower_c8 (le64 (b0 :: b1 :: b2 :: b3 :: b4 :: b5 :: b6 :: b7 :: rest)) (by rw [hb0, isLow_toBitVec]; exact hd0) (by rw [hb1, isLow_toBitVec]; exact hd1) (by rw [hb2, isLow_toBitVec]; exact hd2) (by rw [hb3, isLow_toBitVec]; exact hd3) (by rw [hb4, isLow_toBitVec]; exact hd4) (by rw [hb5, isLow_toBitVec]; exact hd5) (by rw [hb6, isLow_toBitVec]; exact hd6) (by rw [hb7, isLow_toBitVec]; exact hd7)
                  simp only [List.take, List.takeWhile, hd0, hd1, hd2, hd3, hd4, hd5, hd6, hd7]
                  rw [hs]
                  rw [le64_take8]; rfl

end Flussab.SwarLower
