/-
UTF-8 validation (`Model/AigerToken.lean`: `utf8SeqLen`, `utf8ValidUpTo`, `validUtf8`) is
compositional: a valid text followed by any bytes is valid up to the end of the text plus what is
valid of the rest (`utf8ValidUpTo_append`); hence valid ++ valid is valid, and a newline can be
appended to a valid comment.
-/
import Flussab.Proof.AigerToken

namespace Flussab
namespace Aiger

/-- The fuel of the scan does not matter once it covers the input. -/
theorem utf8Aux_fuel : ∀ (f g : Nat) (bs : VBytes) (n : Nat), bs.length ≤ f → bs.length ≤ g →
    utf8ValidUpToAux f bs n = utf8ValidUpToAux g bs n := by
  intro f
  induction f with
  | zero =>
    intro g bs n hf _
    have : bs = [] := List.eq_nil_of_length_eq_zero (by omega)
    subst this
    cases g with
    | zero => rfl
    | succ g => simp [utf8ValidUpToAux, utf8SeqLen]
  | succ f ih =>
    intro g bs n hf hg
    cases g with
    | zero =>
      have : bs = [] := List.eq_nil_of_length_eq_zero (by omega)
      subst this
      simp [utf8ValidUpToAux, utf8SeqLen]
    | succ g =>
      unfold utf8ValidUpToAux
      simp only
      split
      · rfl
      · rename_i hk
        have hk' : utf8SeqLen bs ≠ 0 := by simpa using hk
        have hle := utf8SeqLen_le bs
        exact ih g _ _ (by simp only [List.length_drop]; omega) (by simp only [List.length_drop]; omega)

/-- The running count is an accumulator. -/
theorem utf8Aux_shift : ∀ (f : Nat) (bs : VBytes) (n c : Nat),
    utf8ValidUpToAux f bs (n + c) = utf8ValidUpToAux f bs n + c := by
  intro f
  induction f with
  | zero => intro bs n c; rfl
  | succ f ih =>
    intro bs n c
    unfold utf8ValidUpToAux
    simp only
    split
    · rfl
    · rw [show n + c + utf8SeqLen bs = n + utf8SeqLen bs + c by omega]
      exact ih _ _ _

theorem utf8Aux_step (f : Nat) (bs : VBytes) (n : Nat) (hk : utf8SeqLen bs ≠ 0) :
    utf8ValidUpToAux (f + 1) bs n =
      utf8ValidUpToAux f (bs.drop (utf8SeqLen bs)) (n + utf8SeqLen bs) := by
  rw [utf8ValidUpToAux]
  have : (utf8SeqLen bs == 0) = false := by simpa using hk
  simp only [this, Bool.false_eq_true, ↓reduceIte]

/-- A well-formed sequence at the front is not affected by what follows it. -/
theorem utf8SeqLen_append (a b : VBytes) (h : 0 < utf8SeqLen a) :
    utf8SeqLen (a ++ b) = utf8SeqLen a := by
  rcases a with _ | ⟨b0, _ | ⟨b1, _ | ⟨b2, _ | ⟨b3, r⟩⟩⟩⟩
  · simp [utf8SeqLen] at h
  all_goals
    simp only [utf8SeqLen, List.cons_append, List.nil_append] at h ⊢
    repeat' split at h
    all_goals first
      | omega
      | (simp_all)
      | (split <;> simp_all)

theorem utf8ValidUpTo_append_aux : ∀ (m : Nat) (a : VBytes), a.length = m → validUtf8 a = true →
    ∀ (b : VBytes), utf8ValidUpTo (a ++ b) = a.length + utf8ValidUpTo b := by
  intro m
  induction m using Nat.strongRecOn with
  | _ m ih =>
    intro a hm hv b
    cases a with
    | nil => simp
    | cons x xs =>
      have hk : 0 < utf8SeqLen (x :: xs) := by
        unfold validUtf8 utf8ValidUpTo at hv
        simp only [List.length_cons] at hv
        unfold utf8ValidUpToAux at hv
        by_cases h0 : utf8SeqLen (x :: xs) = 0
        · simp [h0] at hv
        · omega
      have hle := utf8SeqLen_le (x :: xs)
      generalize hkk : utf8SeqLen (x :: xs) = k at hk hle
      -- validity of the remainder
      have hv' : validUtf8 ((x :: xs).drop k) = true := by
        unfold validUtf8 utf8ValidUpTo at hv ⊢
        simp only [List.length_cons] at hv
        unfold utf8ValidUpToAux at hv
        have hk0 : (k == 0) = false := by simpa using (by omega : k ≠ 0)
        simp only [hkk, hk0, Bool.false_eq_true, ↓reduceIte, Nat.zero_add] at hv
        have h1 := utf8Aux_shift xs.length ((x :: xs).drop k) 0 k
        rw [Nat.zero_add] at h1
        rw [h1] at hv
        have h2 := utf8Aux_fuel xs.length ((x :: xs).drop k).length ((x :: xs).drop k) 0
          (by simp only [List.length_drop, List.length_cons]; omega) (Nat.le_refl _)
        rw [h2] at hv
        simp only [List.length_drop, List.length_cons, beq_iff_eq] at hv ⊢
        simp only [List.length_cons] at hle
        omega
      have hdrop : ((x :: xs) ++ b).drop k = (x :: xs).drop k ++ b := by
        rw [List.drop_append_of_le_length hle]
      have hih := ih ((x :: xs).drop k).length (by
        simp only [List.length_drop, List.length_cons] at hm ⊢; omega) _ rfl hv' b
      -- one step of the scan of `a ++ b`
      have hsl : utf8SeqLen ((x :: xs) ++ b) = k := by
        rw [utf8SeqLen_append (x :: xs) b (by omega), hkk]
      have hlen : ((x :: xs) ++ b).length = (xs.length + b.length) + 1 := by
        simp only [List.length_append, List.length_cons]; omega
      have h1 := utf8Aux_shift (xs.length + b.length) ((x :: xs).drop k ++ b) 0 k
      rw [Nat.zero_add] at h1
      have h2 := utf8Aux_fuel (xs.length + b.length) ((x :: xs).drop k ++ b).length
        ((x :: xs).drop k ++ b) 0
        (by simp only [List.length_append, List.length_drop, List.length_cons]; omega) (Nat.le_refl _)
      have hfin : utf8ValidUpTo ((x :: xs) ++ b) =
          utf8ValidUpTo ((x :: xs).drop k ++ b) + k := by
        unfold utf8ValidUpTo
        rw [hlen, utf8Aux_step _ _ _ (by rw [hsl]; omega), hsl, hdrop, Nat.zero_add, h1, h2]
      rw [hfin, hih]
      simp only [List.length_drop, List.length_cons] at hle ⊢
      omega

/-- **Valid text is a prefix-closed unit of the scan**: behind a valid text the scan continues as
if it started there. -/
theorem utf8ValidUpTo_append (a b : VBytes) (h : validUtf8 a = true) :
    utf8ValidUpTo (a ++ b) = a.length + utf8ValidUpTo b :=
  utf8ValidUpTo_append_aux a.length a rfl h b

theorem validUtf8_append (a b : VBytes) (ha : validUtf8 a = true) (hb : validUtf8 b = true) :
    validUtf8 (a ++ b) = true := by
  unfold validUtf8 at hb ⊢
  rw [utf8ValidUpTo_append a b ha]
  simp only [beq_iff_eq] at hb
  simp [hb]

/-- A newline can be appended to a valid text (the writer's `comment ++ "\n"`). -/
theorem validUtf8_append_newline (a : VBytes) (ha : validUtf8 a = true) :
    validUtf8 (a ++ [10]) = true :=
  validUtf8_append a [10] ha (by decide)

end Aiger
end Flussab
