/-
Layout independence of the SAT solver log parser (`parse_log`): tokens of the log format, the
value loop, and the line loop on a rendered log (`Spec/LogLayout.lean`).
-/
import Flussab.Spec.LogLayout
import Flussab.Proof.CnfDoc

namespace Flussab.CnfP
open Flussab Flussab.PM Flussab.Cnf Flussab.Spec
set_option linter.unusedSimpArgs false
set_option linter.unusedVariables false

/-! ### tokens of the log format -/

theorem takeWhile_all_noLF {body : VBytes} (hb : body.all (· != 10) = true) :
    body.takeWhile (· != 10) = body := by
  induction body with
  | nil => rfl
  | cons b body ih =>
    simp only [List.all_cons, Bool.and_eq_true] at hb
    simp only [List.takeWhile, hb.1, ih hb.2]

/-- `next_newline` over the rest of a line: body, then a line end or the end of the input. -/
theorem nextNewline_line {v0 v : View} (hv : VOk v0 v) (off : Nat) {body e rest : VBytes}
    (h : v.rest.drop off = body ++ (e ++ rest)) (hb : body.all (· != 10) = true)
    (he : EndMark e rest) :
    ∃ v', Text.nextNewline v off = (off + body.length + e.length, v') ∧ VOk v0 v' ∧
      v0.pos + (off + body.length + e.length) ≤ v'.peeked := by
  rcases he with he | ⟨he, hrest⟩
  · rcases he with he | he
    · subst he
      have := nextNewline_eq v off (body := body) (rest := rest) (by rw [h]; rfl) hb
      obtain ⟨a, b⟩ := hv.demand (off + body.length)
      exact ⟨_, this, a, by simp only [List.length_cons, List.length_nil]; omega⟩
    · subst he
      have hb' : (body ++ [13]).all (· != 10) = true := by
        simp only [List.all_append, hb, Bool.true_and]; rfl
      have := nextNewline_eq v off (body := body ++ [13]) (rest := rest) (by rw [h]; simp) hb'
      obtain ⟨a, b⟩ := hv.demand (off + (body ++ [13]).length)
      refine ⟨_, ?_, a, ?_⟩
      · rw [this]; simp only [List.length_append, List.length_cons, List.length_nil]
        congr 1
      · simp only [List.length_append, List.length_cons, List.length_nil] at b ⊢; omega
  · subst he; subst hrest
    simp only [List.append_nil] at h
    have hs := C16.next_newline_spec v off
    simp only at hs
    rw [h, takeWhile_all_noLF hb] at hs
    obtain ⟨h1, _, h3, _⟩ := hs
    have hnone : v.rest[off + body.length]? = none := by
      have : (v.rest.drop off)[body.length]? = none := by rw [h]; simp
      simpa [List.getElem?_drop] using this
    obtain ⟨a, b⟩ := hv.demand (off + body.length)
    refine ⟨v.demand (off + body.length), Prod.ext ?_ h1, a, ?_⟩
    · simp only [(h3 hnone).1, List.length_nil, Nat.add_zero]
    · have hz : ([] : VBytes).length = 0 := rfl
      rw [hz]; omega

theorem fixedTok_ok {N} (pat rest : VBytes) (hne : pat ≠ []) :
    Steps N (Cnf.fixed pat) (some ()) (pat ++ rest) rest := by
  intro lr hg hr
  obtain ⟨v1, p1⟩ := hg.vok.demand (pat.length - 1)
  have hlen : 0 < pat.length := List.length_pos_iff.mpr hne
  have hoff : (pat.length != 0) = true := by rw [bne_iff_ne]; omega
  unfold Cnf.fixed Run
  simp only [run_bind, run_scan, fixed_eq lr.v hr hne, hoff, ↓reduceIte]
  rw [run_advance]
  · refine ⟨_, rfl, good_after hg v1 _ _ _ ?_ ?_, ?_⟩
    · rw [hr]; simp
    · have := hg.line; dsimp only; omega
    · dsimp only; rw [v1.rest, hr]; simp
  · dsimp only; rw [v1.pos]; omega
  · dsimp only; rw [v1.rest, hr]; simp

theorem fixedTok_fall {N} (pat r : VBytes) (h : ¬ pat <+: r) : Steps N (Cnf.fixed pat) none r r := by
  intro lr hg hr
  obtain ⟨_, h2, _, _, _⟩ := C16.fixed_spec lr.v 0 pat
  have hoff : (Text.fixed lr.v 0 pat).1 = 0 := h2 (by rw [List.drop_zero, hr]; exact h)
  unfold Cnf.fixed Run
  simp only [run_bind, run_scan, hoff, bne_self_eq_false, Bool.false_eq_true, ↓reduceIte, run_pure]
  exact fall_state hg (hg.vok.fixed 0 pat) _ hr

theorem EndMark.len_le {e rest : VBytes} (he : EndMark e rest) : e.length ≤ 2 := by
  rcases he with he | ⟨he, _⟩
  · rcases he with he | he <;> subst he <;> simp
  · subst he; simp

/-- `interactive_strict_comment` on `"c " ++ body ++ line end`. -/
theorem strictComment_ok {N} (body e rest : VBytes) (hb : body.all (· != 10) = true)
    (he : EndMark e rest) :
    Steps N interactiveStrictComment (some ()) ([99, 32] ++ (body ++ (e ++ rest))) rest := by
  intro lr hg hr
  obtain ⟨v1, p1⟩ := hg.vok.demand 1
  have hd : (lr.v.demand 1).rest.drop 2 = body ++ (e ++ rest) := by
    rw [v1.rest, hr]; rfl
  obtain ⟨v2, hv2e, v2ok, p2⟩ := nextNewline_line v1 2 hd hb he
  have hfix : Text.fixed lr.v 0 [99, 32] = (2, lr.v.demand 1) :=
    fixed_eq lr.v (pat := [99, 32]) (rest := body ++ (e ++ rest)) hr (by simp)
  have hrl : lr.v.rest.length = 2 + body.length + e.length + rest.length := by
    rw [hr]; simp; omega
  have hl := hg.len
  have hbd := hg.bound
  have hln := hg.line
  unfold interactiveStrictComment Run
  have h20 : ((2 : Nat) != 0) = true := rfl
  simp only [run_bind, run_scan, hfix, h20, ↓reduceIte, hv2e]
  rw [run_lineAtOffset _ _ (by dsimp only; omega) (by dsimp only; rw [v2ok.pos]; omega)]
  simp only []
  rw [run_advance]
  · refine ⟨_, rfl, good_after hg v2ok _ _ _ ?_ ?_, ?_⟩
    · omega
    · dsimp only; omega
    · dsimp only; rw [v2ok.rest, hr]
      have : ([99, 32] ++ (body ++ (e ++ rest))) = ([99, 32] ++ body ++ e) ++ rest := by simp
      rw [this, List.drop_left' (by simp; omega)]
  · dsimp only; rw [v2ok.pos]; omega
  · dsimp only; rw [v2ok.rest]; omega

theorem strictComment_fall {N} (r : VBytes) (h : ¬ [99, 32] <+: r) :
    Steps N interactiveStrictComment none r r := by
  intro lr hg hr
  obtain ⟨_, h2, _, _, _⟩ := C16.fixed_spec lr.v 0 [99, 32]
  have hoff : (Text.fixed lr.v 0 [99, 32]).1 = 0 := h2 (by rw [List.drop_zero, hr]; exact h)
  unfold interactiveStrictComment Run
  simp only [run_bind, run_scan, hoff, bne_self_eq_false, Bool.false_eq_true, ↓reduceIte, run_pure]
  exact fall_state hg (hg.vok.fixed 0 _) _ hr

/-- `interactive_skip_line` on a non-empty `text ++ line end`. -/
theorem skipLine_ok {N} (text e rest : VBytes) (hb : text.all (· != 10) = true)
    (he : EndMark e rest) (hne : text ≠ [] ∨ e ≠ []) :
    Steps N interactiveSkipLine (some ()) (text ++ (e ++ rest)) rest := by
  intro lr hg hr
  have hd : lr.v.rest.drop 0 = text ++ (e ++ rest) := by rw [List.drop_zero, hr]
  obtain ⟨v2, hv2e, v2ok, p2⟩ := nextNewline_line hg.vok 0 hd hb he
  have hpos : 0 < text.length + e.length := by
    rcases hne with h | h
    · have := List.length_pos_iff.mpr h; omega
    · have := List.length_pos_iff.mpr h; omega
  have hoff : (0 + text.length + e.length != 0) = true := by rw [bne_iff_ne]; omega
  have hrl : lr.v.rest.length = text.length + e.length + rest.length := by
    rw [hr]; simp; omega
  have hl := hg.len
  have hbd := hg.bound
  have hln := hg.line
  unfold interactiveSkipLine Run
  simp only [run_bind, run_scan, hv2e, hoff, ↓reduceIte]
  rw [run_lineAtOffset _ _ (by dsimp only; omega) (by dsimp only; rw [v2ok.pos]; omega)]
  simp only []
  rw [run_advance]
  · refine ⟨_, rfl, good_after hg v2ok _ _ _ ?_ ?_, ?_⟩
    · omega
    · dsimp only; omega
    · dsimp only; rw [v2ok.rest, hr]
      have : (text ++ (e ++ rest)) = (text ++ e) ++ rest := by simp
      rw [this, List.drop_left' (by simp)]
  · dsimp only; rw [v2ok.pos]; omega
  · dsimp only; rw [v2ok.rest]; omega

/-! ### the value loop -/

theorem renderValueLits_take (ls : List (Nat × Blank1)) (xs : List Int) :
    renderValueLits ls xs = renderValueLits ls (xs.take ls.length) := by
  induction ls generalizing xs with
  | nil => cases xs <;> rfl
  | cons a ls ih =>
    obtain ⟨z, b⟩ := a
    cases xs with
    | nil => rfl
    | cons x xs => simp only [renderValueLits, List.length_cons, List.take_succ_cons]; rw [ih]

theorem startsEol_or_num_nb (ls : List (Nat × Blank1)) (xs : List Int) {R : VBytes} (hR : NB R) :
    NB (renderValueLits ls xs ++ R) := by
  cases ls with
  | nil => simpa [renderValueLits] using hR
  | cons a ls =>
    obtain ⟨z, b⟩ := a
    cases xs with
    | nil => simpa [renderValueLits] using hR
    | cons x xs =>
      simp only [renderValueLits, List.append_assoc]
      exact (startsNum_intNumeral _ _ _).nb

/-- A value line without terminator: all its literals are collected, the loop stops at the line
end. -/
theorem valueLoop_line {N} (l : LitTy) (hl1 : 1 ≤ l.bits) (hl2 : l.bits ≤ 64) (R : VBytes)
    (hR : StartsEol R) :
    ∀ (ls : List (Nat × Blank1)) (xs : List Int), ls.length = xs.length →
      (∀ x ∈ xs, LitOk l l.maxDimacs x) →
      ∀ (f : Nat) (s : Option (Option Bool)) (a : List Int) (b c : Bool), ls.length + 1 ≤ f →
        Steps N (valueLoop l f ⟨s, a, b, c⟩) ⟨s, xs.reverse ++ a, b, c⟩
          (renderValueLits ls xs ++ R) R := by
  intro ls
  induction ls with
  | nil =>
    intro xs hlen hxs f s a b c hf
    cases xs with
    | cons _ _ => simp at hlen
    | nil =>
      obtain ⟨f', rfl⟩ : ∃ f', f = f' + 1 := ⟨f - 1, by omega⟩
      rw [valueLoop]
      simp only [renderValueLits, List.nil_append, List.reverse_nil]
      refine Steps.bind (Steps.setMark _) ?_
      exact Steps.bind (litInt_fall R hR.line) (Steps.pure _ _)
  | cons p ls ih =>
    obtain ⟨z, bl⟩ := p
    intro xs hlen hxs f s a b c hf
    cases xs with
    | nil => simp at hlen
    | cons x xs =>
      have hx : LitOk l l.maxDimacs x := hxs x (by simp)
      obtain ⟨r1, r2⟩ := litOk_range hl2 hx
      simp only [List.length_cons] at hf
      obtain ⟨f', rfl⟩ : ∃ f', f = f' + 1 := ⟨f - 1, by omega⟩
      rw [valueLoop]
      simp only [renderValueLits, List.append_assoc]
      refine Steps.bind (Steps.setMark _) ?_
      refine Steps.bind (litInt_num z x bl.render _ r1 r2 (allBlank_render1 bl)
        (startsEol_or_num_nb ls xs hR.line.nb) (we_blank1 _ _)) ?_
      have hx0 : (x == 0) = false := by simpa using hx.ne
      have hrange : -l.maxDimacs ≤ x ∧ x ≤ l.maxDimacs := ⟨hx.tlo, hx.thi⟩
      simp only [hx0, Bool.false_eq_true, ↓reduceIte, hrange, and_self,
        fromDimacs_id l hl1 x hx.tlo hx.thi]
      have := ih xs (by simpa using hlen) (fun y hy => hxs y (by simp [hy])) f' s (x :: a) b c (by omega)
      have e : xs.reverse ++ x :: a = (x :: xs).reverse ++ a := by simp
      rw [e] at this
      exact this

/-- The last value line: literals, terminator, blanks. -/
theorem valueLoop_final {N} (l : LitTy) (hl1 : 1 ≤ l.bits) (hl2 : l.bits ≤ 64) (neg : Bool) (z0 : Nat)
    (post : Blanks) (R : VBytes) (hR : StartsEol R) :
    ∀ (ls : List (Nat × Blank1)) (xs : List Int), ls.length = xs.length →
      (∀ x ∈ xs, LitOk l l.maxDimacs x) →
      ∀ (f : Nat) (s : Option (Option Bool)) (a : List Int) (b c : Bool), ls.length + 1 ≤ f →
        Steps N (valueLoop l f ⟨s, a, b, c⟩) ⟨s, xs.reverse ++ a, b, true⟩
          (renderValueLits ls xs ++ (terminator neg z0 ++ (renderBlanks post ++ R))) R := by
  intro ls
  induction ls with
  | nil =>
    intro xs hlen hxs f s a b c hf
    cases xs with
    | cons _ _ => simp at hlen
    | nil =>
      obtain ⟨f', rfl⟩ : ∃ f', f = f' + 1 := ⟨f - 1, by omega⟩
      rw [valueLoop]
      simp only [renderValueLits, List.nil_append, List.reverse_nil]
      refine Steps.bind (Steps.setMark _) ?_
      refine Steps.bind (litInt_term neg z0 (renderBlanks post) R (allBlank_render post) hR.line.nb
        (we_blanks post hR.we)) ?_
      simp only [beq_self_eq_true, ↓reduceIte]
      exact Steps.pure _ _
  | cons p ls ih =>
    obtain ⟨z, bl⟩ := p
    intro xs hlen hxs f s a b c hf
    cases xs with
    | nil => simp at hlen
    | cons x xs =>
      have hx : LitOk l l.maxDimacs x := hxs x (by simp)
      obtain ⟨r1, r2⟩ := litOk_range hl2 hx
      simp only [List.length_cons] at hf
      obtain ⟨f', rfl⟩ : ∃ f', f = f' + 1 := ⟨f - 1, by omega⟩
      rw [valueLoop]
      simp only [renderValueLits, List.append_assoc]
      refine Steps.bind (Steps.setMark _) ?_
      refine Steps.bind (litInt_num z x bl.render _ r1 r2 (allBlank_render1 bl)
        (startsEol_or_num_nb ls xs (startsNum_terminator neg z0 _).nb) (we_blank1 _ _)) ?_
      have hx0 : (x == 0) = false := by simpa using hx.ne
      have hrange : -l.maxDimacs ≤ x ∧ x ≤ l.maxDimacs := ⟨hx.tlo, hx.thi⟩
      simp only [hx0, Bool.false_eq_true, ↓reduceIte, hrange, and_self,
        fromDimacs_id l hl1 x hx.tlo hx.thi]
      have := ih xs (by simpa using hlen) (fun y hy => hxs y (by simp [hy])) f' s (x :: a) b c (by omega)
      have e : xs.reverse ++ x :: a = (x :: xs).reverse ++ a := by simp
      rw [e] at this
      exact this

/-! ### the line loop -/

/-- The solution keyword alternatives of `parse_log` (a copy of the model's code). -/
def statusBlock : PM (Option Bool) :=
  orGiveUp (do
      let r ← orParse
        (do match ← Cnf.fixed [83, 65, 84, 73, 83, 70, 73, 65, 66, 76, 69] with
            | some () => pure (some (some true)) | none => pure none)
        (orParse
          (do match ← Cnf.fixed [85, 78, 83, 65, 84, 73, 83, 70, 73, 65, 66, 76, 69] with
              | some () => pure (some (some false)) | none => pure none)
          (do match ← Cnf.fixed [85, 78, 75, 78, 79, 87, 78] with
              | some () => pure (some none) | none => pure none))
      match r with
      | some v => do orGiveUp interactiveEndOfLine unexpected; pure (some v)
      | none => pure none) unexpected

/-- One iteration of the loop of `parse_log` after its comment-skipping (a copy of the model's
code). -/
def logBody (l : LitTy) (ignoreUnknown : Bool) (f : Nat) (st : LogState) : PM LogState := do
  let isV ← if !st.finished then «matches» (Cnf.fixed [118, 32]) else pure false
  if isV then
    skipWhitespace
    let st ← valueLoop l ((← get).v.rest.length + 2) { st with started := true }
    orGiveUp interactiveEndOfLine unexpected
    logLoop l ignoreUnknown f st
  else
    let isS ← if st.satisfiable.isNone then «matches» (Cnf.fixed [115, 32]) else pure false
    if isS then
      let sat ← statusBlock
      logLoop l ignoreUnknown f { st with satisfiable := some sat }
    else if ← «matches» eof then
      if st.started && !st.finished then unexpected else pure st
    else
      let skipped ← if ignoreUnknown then «matches» interactiveSkipLine else pure false
      if skipped then logLoop l ignoreUnknown f st else unexpected

theorem logLoop_succ (l : LitTy) (ign : Bool) (f : Nat) (st : LogState) :
    logLoop l ign (f + 1) st =
      (do strictCommentLoop ((← get).v.rest.length + 1); logBody l ign f st) := by
  rw [logLoop]; rfl

theorem statusBlock_ok {N} (sat : Option Bool) (e rest : VBytes) (he : EndMark e rest) :
    Steps N statusBlock sat (statusWord sat ++ (e ++ rest)) rest := by
  have heol : Steps N (orGiveUp interactiveEndOfLine unexpected) () (e ++ rest) rest :=
    Steps.orGiveUp (interactiveEndOfLine_ok e rest he)
  unfold statusBlock
  refine Steps.orGiveUp ?_
  match sat with
  | some true =>
    refine Steps.bind (a := some (some true)) (r1 := e ++ rest) ?_ ?_
    · refine Steps.orParse_left ?_
      exact Steps.bind (fixedTok_ok _ _ (by simp)) (Steps.pure _ _)
    · exact Steps.bind heol (Steps.pure _ _)
  | some false =>
    refine Steps.bind (a := some (some false)) (r1 := e ++ rest) ?_ ?_
    · refine Steps.orParse_right ?_ (Steps.orParse_left ?_)
      · refine Steps.bind (fixedTok_fall _ _ ?_) (Steps.pure _ _)
        intro h; obtain ⟨t, ht⟩ := h; simp [statusWord] at ht
      · exact Steps.bind (fixedTok_ok _ _ (by simp)) (Steps.pure _ _)
    · exact Steps.bind heol (Steps.pure _ _)
  | none =>
    refine Steps.bind (a := some none) (r1 := e ++ rest) ?_ ?_
    · refine Steps.orParse_right ?_ (Steps.orParse_right ?_ ?_)
      · refine Steps.bind (fixedTok_fall _ _ ?_) (Steps.pure _ _)
        intro h; obtain ⟨t, ht⟩ := h; simp [statusWord] at ht
      · refine Steps.bind (fixedTok_fall _ _ ?_) (Steps.pure _ _)
        intro h; obtain ⟨t, ht⟩ := h; simp [statusWord] at ht
      · exact Steps.bind (fixedTok_ok _ _ (by simp)) (Steps.pure _ _)
    · exact Steps.bind heol (Steps.pure _ _)

/-- A text whose first line does not start with `[a, 32]`. -/
theorem not_prefix_line (a : UInt8) (ha : a ≠ 10 ∧ a ≠ 13) (u R : VBytes)
    (hu : startsWith [a, 32] u = false) (hR : StartsEol R) : ¬ [a, 32] <+: u ++ R := by
  intro h
  obtain ⟨t, ht⟩ := h
  match u, hu with
  | [], _ =>
    rcases hR with hR | ⟨b, t', hR, hb⟩
    · subst hR; simp at ht
    · subst hR
      simp only [List.nil_append, List.cons_append, List.cons.injEq] at ht
      rcases hb with hb | hb <;> subst hb
      · exact ha.1 ht.1
      · exact ha.2 ht.1
  | [x], _ =>
    rcases hR with hR | ⟨b, t', hR, hb⟩
    · subst hR; simp at ht
    · subst hR
      simp only [List.cons_append, List.nil_append, List.cons.injEq] at ht
      obtain ⟨_, h2, _⟩ := ht
      rcases hb with hb | hb <;> subst hb <;> exact absurd h2 (by decide)
  | x :: y :: u', hu =>
    simp only [List.cons_append, List.nil_append, List.cons.injEq] at ht
    simp only [startsWith, List.isPrefixOf, Bool.and_true, Bool.and_eq_false_imp, beq_iff_eq] at hu
    have := hu ht.1
    simp at this
    exact this ht.2.1

theorem not_prefix_head (a b : UInt8) (hab : a ≠ b) (p t : VBytes) : ¬ (a :: p) <+: (b :: t) := by
  intro h; obtain ⟨t', ht⟩ := h
  simp only [List.cons_append, List.cons.injEq] at ht
  exact hab ht.1

theorem lineEnd_mark (drop : Bool) (sat : Option Bool) (e : Eol) (rest : List (LogLine × Eol))
    (xs : List Int) :
    EndMark (if rest.isEmpty && drop then [] else e.render) (renderLog sat drop rest xs) := by
  by_cases hlast : (rest.isEmpty && drop) = true
  · right
    simp only [hlast, ↓reduceIte, true_and]
    simp only [Bool.and_eq_true, List.isEmpty_iff] at hlast
    rw [hlast.1]; rfl
  · left
    simp only [hlast, ↓reduceIte]
    exact isEol_render _

theorem EndMark.len_pos_or {e rest : VBytes} (he : EndMark e rest) : e ≠ [] ∨ (e = [] ∧ rest = []) := by
  rcases he with he | he
  · left; rcases he with he | he <;> subst he <;> simp
  · right; exact he

theorem Steps.ite_bind {α β N} {c : Prop} [Decidable c] {x y : PM α} {g : α → PM β} {a b r0 r1 r2}
    (hx : c → Steps N x a r0 r1) (hy : ¬ c → Steps N y a r0 r1) (h2 : Steps N (g a) b r1 r2) :
    Steps N (if c then x >>= g else y >>= g) b r0 r2 := by
  split
  · rename_i hc; exact Steps.bind (hx hc) h2
  · rename_i hc; exact Steps.bind (hy hc) h2

theorem renderValueLits_len (ls : List (Nat × Blank1)) (xs : List Int) (h : ls.length ≤ xs.length) :
    ls.length ≤ (renderValueLits ls xs).length := by
  induction ls generalizing xs with
  | nil => simp
  | cons p ls ih =>
    obtain ⟨z, b⟩ := p
    cases xs with
    | nil => simp at h
    | cons x xs =>
      have := ih xs (by simpa using h)
      have := intNumeral_len_pos z x
      simp only [renderValueLits, List.length_append, List.length_cons]
      omega

/-- The comment-skipping loop stops in front of a line that is not a `"c "` comment. -/
theorem strictLoop_stop {N} {β} (g : Nat) (hg : 1 ≤ g) (r r' : VBytes) (h : ¬ [99, 32] <+: r)
    (K : PM β) (b : β) (hK : Steps N K b r r') :
    Steps N (strictCommentLoop g >>= fun _ => K) b r r' := by
  obtain ⟨g', rfl⟩ : ∃ g', g = g' + 1 := ⟨g - 1, by omega⟩
  rw [strictCommentLoop, bind_assoc]
  refine Steps.bind (Steps.matches (strictComment_fall r h)) ?_
  simp only [Option.isSome_none, Bool.false_eq_true, ↓reduceIte]
  exact Steps.bind (Steps.pure _ _) hK

/-- **The line loop on a rendered log.**  `s a started finished` is the parser's state, matching
the flags of `FitsLog`. -/
theorem logLines_ok {N} (l : LitTy) (hl1 : 1 ≤ l.bits) (hl2 : l.bits ≤ 64) (ign : Bool)
    (sat : Option Bool) (drop : Bool) :
    ∀ (lines : List (LogLine × Eol)) (xs : List Int) (seenS started finished : Bool)
      (s : Option (Option Bool)) (a : List Int),
      FitsLog ign sat drop seenS started finished lines xs →
      (∀ x ∈ xs, LitOk l l.maxDimacs x) →
      (if seenS then s = some sat else s = none) →
      ∀ f g, (renderLog sat drop lines xs).length + 1 ≤ g → (renderLog sat drop lines xs).length ≤ f →
        ∃ st', Steps N (strictCommentLoop g >>= fun _ => logBody l ign f ⟨s, a, started, finished⟩) st'
            (renderLog sat drop lines xs) [] ∧
          st'.assignment = xs.reverse ++ a ∧ st'.satisfiable.join = sat := by
  intro lines
  induction lines with
  | nil =>
    intro xs seenS started finished s a hfit hxs hs f g hg hf
    obtain ⟨hx0, hsf, hss⟩ := hfit
    subst hx0
    obtain ⟨g', rfl⟩ : ∃ g', g = g' + 1 := ⟨g - 1, by omega⟩
    refine ⟨⟨s, a, started, finished⟩, ?_, by simp, ?_⟩
    · simp only [renderLog]
      refine strictLoop_stop (g' + 1) (by omega) _ _ (by simp) _ _ ?_
      · simp only [logBody]
        refine Steps.ite_bind (a := false) (r1 := [])
          (fun _ => Steps.matches (fixedTok_fall _ _ (by simp))) (fun _ => Steps.pure _ _) ?_
        simp only [Bool.false_eq_true, ↓reduceIte]
        refine Steps.ite_bind (a := false) (r1 := [])
          (fun _ => Steps.matches (fixedTok_fall _ _ (by simp))) (fun _ => Steps.pure _ _) ?_
        simp only [Bool.false_eq_true, ↓reduceIte]
        refine Steps.bind (Steps.matches eof_ok) ?_
        simp only [Option.isSome_some, ↓reduceIte]
        have : (started && !finished) = false := by
          cases started <;> cases finished <;> simp_all
        simp only [this, Bool.false_eq_true, ↓reduceIte]
        exact Steps.pure _ _
    · simp only
      cases seenS with
      | true => simp only [↓reduceIte] at hs; subst hs; rfl
      | false =>
        simp only [Bool.false_eq_true, ↓reduceIte] at hs; subst hs
        cases sat with
        | none => rfl
        | some _ => simp at hss
  | cons ln rest ih =>
    obtain ⟨ln, e⟩ := ln
    intro xs seenS started finished s a hfit hxs hs f g hg hf
    have hmark := lineEnd_mark drop sat e rest (xs.drop ln.uses)
    -- continuing with `logLoop f st₁` on the remaining lines
    have hcont : ∀ (xs' : List Int) (seenS' started' finished' : Bool) (s' : Option (Option Bool))
        (a' : List Int), FitsLog ign sat drop seenS' started' finished' rest xs' →
        (∀ x ∈ xs', LitOk l l.maxDimacs x) → (if seenS' then s' = some sat else s' = none) →
        (renderLog sat drop rest xs').length + 1 ≤ f →
        ∃ st', Steps N (logLoop l ign f ⟨s', a', started', finished'⟩) st'
            (renderLog sat drop rest xs') [] ∧
          st'.assignment = xs'.reverse ++ a' ∧ st'.satisfiable.join = sat := by
      intro xs' seenS' started' finished' s' a' hfit' hxs' hs' hf'
      obtain ⟨f', rfl⟩ : ∃ f', f = f' + 1 := ⟨f - 1, by omega⟩
      obtain ⟨st', h1, h2, h3⟩ := ih xs' seenS' started' finished' s' a' hfit' hxs' hs' f'
        ((renderLog sat drop rest xs').length + 1) (Nat.le_refl _) (by omega)
      refine ⟨st', ?_, h2, h3⟩
      rw [logLoop_succ]
      refine Steps.get_bind ?_
      intro lr hlr
      rw [hlr]
      exact h1
    cases ln with
    | comment body =>
      obtain ⟨hb, hfit'⟩ := hfit
      simp only [renderLog, LogLine.render, LogLine.uses, List.drop_zero, List.append_assoc] at hg hf hmark ⊢
      obtain ⟨g', rfl⟩ : ∃ g', g = g' + 1 := ⟨g - 1, by omega⟩
      simp only [List.length_append, List.length_cons, List.length_nil] at hg hf
      obtain ⟨st', h1, h2, h3⟩ := ih xs seenS started finished s a hfit' hxs hs f g'
        (by omega) (by omega)
      refine ⟨st', ?_, h2, h3⟩
      rw [strictCommentLoop, bind_assoc]
      refine Steps.bind (Steps.matches (strictComment_ok body _ _ hb hmark)) ?_
      simp only [Option.isSome_some, ↓reduceIte]
      exact h1
    | unknown text =>
      obtain ⟨hign, hb, hc, hv, hsx, hne, hfit'⟩ := hfit
      subst hign
      simp only [renderLog, LogLine.render, LogLine.uses, List.drop_zero, List.append_assoc] at hg hf hmark ⊢
      have hse := hmark.startsEol
      have hnonempty : text ≠ [] ∨ (if (rest.isEmpty && drop) = true then [] else e.render) ≠ [] := by
        by_cases ht : text = []
        · right
          have := hne ht
          have hlast : ¬ (rest.isEmpty && drop) = true := by
            simpa [Bool.and_eq_true] using this
          simp only [hlast, ↓reduceIte]
          cases e <;> simp [Eol.render]
        · exact Or.inl ht
      have hpos : 0 < text.length + (if (rest.isEmpty && drop) = true then [] else e.render).length := by
        rcases hnonempty with h | h
        · have := List.length_pos_iff.mpr h; omega
        · have := List.length_pos_iff.mpr h; omega
      simp only [List.length_append] at hg hf
      obtain ⟨st', h1, h2, h3⟩ := hcont xs seenS started finished s a hfit' hxs hs (by omega)
      refine ⟨st', ?_, h2, h3⟩
      refine strictLoop_stop g (by omega) _ _ (not_prefix_line 99 (by decide) text _ hc hse) _ _ ?_
      simp only [logBody]
      refine Steps.ite_bind (a := false) (r1 := text ++
          ((if (rest.isEmpty && drop) = true then [] else e.render) ++ renderLog sat drop rest xs))
        (fun _ => Steps.matches (fixedTok_fall _ _ (not_prefix_line 118 (by decide) text _ hv hse)))
        (fun _ => Steps.pure _ _) ?_
      simp only [Bool.false_eq_true, ↓reduceIte]
      refine Steps.ite_bind (a := false) (r1 := text ++
          ((if (rest.isEmpty && drop) = true then [] else e.render) ++ renderLog sat drop rest xs))
        (fun _ => Steps.matches (fixedTok_fall _ _ (not_prefix_line 115 (by decide) text _ hsx hse)))
        (fun _ => Steps.pure _ _) ?_
      simp only [Bool.false_eq_true, ↓reduceIte]
      refine Steps.bind (Steps.matches (eof_fall _ ?_)) ?_
      · intro h0
        have := congrArg List.length h0
        simp only [List.length_append, List.length_nil] at this
        omega
      simp only [Option.isSome_none, Bool.false_eq_true, ↓reduceIte]
      refine Steps.bind (Steps.matches (skipLine_ok text _ _ hb hmark hnonempty)) ?_
      simp only [Option.isSome_some, ↓reduceIte]
      exact h1
    | status =>
      obtain ⟨hseen, hfit'⟩ := hfit
      subst hseen
      simp only [Bool.false_eq_true, ↓reduceIte] at hs
      subst hs
      simp only [renderLog, LogLine.render, LogLine.uses, List.drop_zero, List.append_assoc] at hg hf hmark ⊢
      simp only [List.length_append, List.length_cons, List.length_nil] at hg hf
      obtain ⟨st', h1, h2, h3⟩ := hcont xs true started finished (some sat) a hfit' hxs rfl (by omega)
      refine ⟨st', ?_, h2, h3⟩
      refine strictLoop_stop g (by omega) _ _ (not_prefix_head 99 115 (by decide) _ _) _ _ ?_
      simp only [logBody]
      refine Steps.ite_bind (a := false) (r1 := [115, 32] ++ (statusWord sat ++
          ((if (rest.isEmpty && drop) = true then [] else e.render) ++ renderLog sat drop rest xs)))
        (fun _ => Steps.matches (fixedTok_fall _ _ (not_prefix_head 118 115 (by decide) _ _)))
        (fun _ => Steps.pure _ _) ?_
      simp only [Bool.false_eq_true, ↓reduceIte, Option.isNone_none]
      refine Steps.bind (Steps.matches (fixedTok_ok [115, 32] _ (by simp))) ?_
      simp only [Option.isSome_some, ↓reduceIte]
      refine Steps.bind (statusBlock_ok sat _ _ hmark) ?_
      exact h1
    | values pre lits =>
      obtain ⟨hfin, hle, hfit'⟩ := hfit
      subst hfin
      simp only [renderLog, LogLine.render, LogLine.uses, List.append_assoc] at hg hf hmark ⊢
      simp only [List.length_append, List.length_cons, List.length_nil] at hg hf
      have hxs1 : ∀ x ∈ xs.take lits.length, LitOk l l.maxDimacs x :=
        fun x hx => hxs x (List.mem_of_mem_take hx)
      have hxs2 : ∀ x ∈ xs.drop lits.length, LitOk l l.maxDimacs x :=
        fun x hx => hxs x (List.mem_of_mem_drop hx)
      obtain ⟨st', h1, h2, h3⟩ := hcont (xs.drop lits.length) seenS true false s
        ((xs.take lits.length).reverse ++ a) hfit' hxs2 hs (by omega)
      refine ⟨st', ?_, ?_, h3⟩
      · refine strictLoop_stop g (by omega) _ _ (not_prefix_head 99 118 (by decide) _ _) _ _ ?_
        simp only [logBody, Bool.not_false, ↓reduceIte]
        refine Steps.bind (Steps.matches (fixedTok_ok [118, 32] _ (by simp))) ?_
        simp only [Option.isSome_some, ↓reduceIte]
        refine Steps.bind (skipWhitespace_ok _ _ (allBlank_render pre)
          (startsEol_or_num_nb lits xs hmark.startsEol.line.nb)) ?_
        refine Steps.get_bind ?_
        intro lr hlr
        rw [renderValueLits_take]
        refine Steps.bind (valueLoop_line l hl1 hl2 _ hmark.startsEol lits (xs.take lits.length)
          (by rw [List.length_take]; omega) hxs1 _ s a true false
          (by have := renderValueLits_len lits xs hle
              rw [hlr]; simp only [List.length_append]; omega)) ?_
        refine Steps.bind (Steps.orGiveUp (interactiveEndOfLine_ok _ _ hmark)) ?_
        exact h1
      · rw [h2, ← List.append_assoc, ← List.reverse_append, List.take_append_drop]
    | final pre lits neg z post =>
      obtain ⟨hfin, hlen, hfit'⟩ := hfit
      subst hfin
      have hdrop : xs.drop lits.length = [] := by rw [hlen]; simp
      simp only [renderLog, LogLine.render, LogLine.uses, List.append_assoc, hdrop] at hg hf hmark ⊢
      simp only [List.length_append, List.length_cons, List.length_nil] at hg hf
      obtain ⟨st', h1, h2, h3⟩ := hcont [] seenS true true s (xs.reverse ++ a) hfit'
        (fun _ h => by simp at h) hs (by omega)
      refine ⟨st', ?_, by simpa using h2, h3⟩
      refine strictLoop_stop g (by omega) _ _ (not_prefix_head 99 118 (by decide) _ _) _ _ ?_
      simp only [logBody, Bool.not_false, ↓reduceIte]
      refine Steps.bind (Steps.matches (fixedTok_ok [118, 32] _ (by simp))) ?_
      simp only [Option.isSome_some, ↓reduceIte]
      refine Steps.bind (skipWhitespace_ok _ _ (allBlank_render pre)
        (startsEol_or_num_nb lits xs (startsNum_terminator neg z _).nb)) ?_
      refine Steps.get_bind ?_
      intro lr hlr
      refine Steps.bind (valueLoop_final l hl1 hl2 neg z post _ hmark.startsEol lits xs hlen hxs _
        s a true false
        (by have := renderValueLits_len lits xs (by omega)
            rw [hlr]; simp only [List.length_append]; omega)) ?_
      refine Steps.bind (Steps.orGiveUp (interactiveEndOfLine_ok _ _ hmark)) ?_
      exact h1

/-- **Layout independence of `parse_log`** at the model level. -/
theorem parseLog_render (l : LitTy) (ign : Bool) (v : SolverLog) (ℓ : LogLayout) (hwf : LogWF l v)
    (hfit : ℓ.Fits ign v) (hlen : (ℓ.render v).length < 2 ^ 64 - 1) :
    ∃ lr', (parseLog l ign).run (LR.init (ℓ.render v) false) = (.ok v, lr') := by
  obtain ⟨sat, xs⟩ := v
  obtain ⟨⟨hl1, hl2⟩, hx⟩ := hwf
  have hxs : ∀ x ∈ xs, LitOk l l.maxDimacs x := fun x hx' =>
    ⟨(hx x hx').1, (hx x hx').2.1, (hx x hx').2.2, (hx x hx').2.1, (hx x hx').2.2⟩
  have hg : Good (ℓ.render ⟨sat, xs⟩).length (LR.init (ℓ.render ⟨sat, xs⟩) false) := by
    refine ⟨hlen, rfl, rfl, ?_, ?_⟩
    · simp [LR.init, View.init]
    · simp [LR.init, View.init]
  obtain ⟨st', h1, h2, h3⟩ := logLines_ok (N := (ℓ.render ⟨sat, xs⟩).length) l hl1 hl2 ign sat
    ℓ.dropFinalEol ℓ.lines xs false false false none [] hfit hxs rfl
    ((renderLog sat ℓ.dropFinalEol ℓ.lines xs).length + 1)
    ((renderLog sat ℓ.dropFinalEol ℓ.lines xs).length + 1) (Nat.le_refl _) (by omega)
  have hsteps : Steps (ℓ.render ⟨sat, xs⟩).length (parseLog l ign) ⟨sat, xs⟩ (ℓ.render ⟨sat, xs⟩) [] := by
    unfold parseLog
    refine Steps.get_bind ?_
    intro lr hlr
    refine Steps.bind (a := st') (r1 := []) ?_ ?_
    · rw [hlr, logLoop_succ]
      refine Steps.get_bind ?_
      intro lr' hlr'
      rw [hlr']
      exact h1
    · rw [h2, h3]
      simp only [List.append_nil, List.reverse_reverse]
      exact Steps.pure _ _
  obtain ⟨lr', e, _, _⟩ := hsteps _ hg rfl
  exact ⟨lr', e⟩

end Flussab.CnfP
