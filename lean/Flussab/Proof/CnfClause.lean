/-
Clause level of the layout-independence proof: `clause_lits` on a rendered literal list with
terminator, the clause alternative of the three formats, `next_clause` on a rendered clause
(leading blanks, junk, core, end of line) and at the end of the document (trailer).
-/
import Flussab.Proof.CnfLayout

namespace Flussab.CnfP
open Flussab Flussab.PM Flussab.Cnf Flussab.Spec
set_option linter.unusedSimpArgs false
set_option linter.unusedVariables false

/-- A literal the parser accepts under the limit `limit` for the literal type `l`. -/
structure LitOk (l : LitTy) (limit : Int) (x : Int) : Prop where
  ne : x ≠ 0
  lo : -limit ≤ x
  hi : x ≤ limit
  tlo : -l.maxDimacs ≤ x
  thi : x ≤ l.maxDimacs

theorem maxDimacs_le (l : LitTy) (h : l.bits ≤ 64) : l.maxDimacs ≤ 2 ^ 63 - 1 := by
  unfold LitTy.maxDimacs
  have : 2 ^ (l.bits - 1) ≤ 2 ^ 63 := Nat.pow_le_pow_right (by omega) (by omega)
  have h2 : ((2 ^ (l.bits - 1) : Nat) : Int) ≤ ((2 ^ 63 : Nat) : Int) := by exact_mod_cast this
  have h3 : ((2 ^ 63 : Nat) : Int) = 2 ^ 63 := by simp
  omega

theorem fromDimacs_id (l : LitTy) (h1 : 1 ≤ l.bits) (x : Int) (lo : -l.maxDimacs ≤ x)
    (hi : x ≤ l.maxDimacs) : l.fromDimacs x = x := by
  unfold LitTy.fromDimacs
  apply IntTy.wrap_of_fits _ h1
  rw [IntTy.fits_iff]
  simp only [IntTy.minVal, IntTy.maxVal, ↓reduceIte]
  unfold LitTy.maxDimacs at lo hi
  omega

/-! ### `lit_int` -/

theorem litInt_num {N} (z : Nat) (x : Int) (bl rest : VBytes) (h1 : -(2 ^ 63 : Int) < x)
    (h2 : x < 2 ^ 63) (hbl : AllBlank bl) (hnb : NB rest) (hwe : WE (bl ++ rest)) :
    Steps N litInt (some x) (intNumeral z x ++ (bl ++ rest)) rest := by
  unfold litInt
  exact Steps.bind (int_intNumeral z x bl rest h1 h2 hbl hnb hwe) (Steps.pure _ _)

theorem litInt_term {N} (neg : Bool) (z : Nat) (bl rest : VBytes) (hbl : AllBlank bl) (hnb : NB rest)
    (hwe : WE (bl ++ rest)) :
    Steps N litInt (some 0) (terminator neg z ++ (bl ++ rest)) rest := by
  unfold litInt
  exact Steps.bind (int_terminator neg z bl rest hbl hnb hwe) (Steps.pure _ _)

theorem litInt_fall {N} (r : VBytes) (h : StartsLine r) : Steps N litInt none r r := by
  unfold litInt
  exact Steps.bind (int_fall isizeTy (by decide) r h.nd h.ne.1) (Steps.pure _ _)

/-! ### the literal loop -/

/-- Fetching the next number of a clause after the separator `s` (whose leading blanks the
previous number token consumed). -/
theorem fetch_next {N} (l : LitTy) (limit : Int) (f : Nat) (acc : List Int) (s : Sep)
    (T T' R : VBytes) (y : Int) (res : List Int) (hs : s.valid = true) (hT : StartsNum T)
    (h1 : Steps N litInt (some y) T T')
    (h2 : Steps N (clauseLitsLoop l limit f y acc) res T' R) :
    Steps N (do
        setMark
        match ← litInt with
          | some next => clauseLitsLoop l limit f next acc
          | none =>
            if ← nonTerminatingLinebreaks then
              setMark
              let next ← orGiveUp litInt unexpected
              clauseLitsLoop l limit f next acc
            else unexpected) res (sepTail s ++ T) R := by
  obtain ⟨h99, h10, h13, _⟩ := hT.ne
  cases s with
  | blank b =>
    simp only [sepTail, List.nil_append]
    refine Steps.bind (Steps.setMark _) ?_
    exact Steps.bind h1 h2
  | brk pre e post junk =>
    simp only [sepTail, List.append_assoc]
    refine Steps.bind (Steps.setMark _) ?_
    refine Steps.bind (litInt_fall _ (startsEol_eol e _).line) ?_
    refine Steps.bind (ntl_brk e post junk T hs hT.nb h99 h10 h13) ?_
    simp only [↓reduceIte]
    refine Steps.bind (Steps.setMark _) ?_
    exact Steps.bind (Steps.orGiveUp h1) h2

theorem numeral_len_pos (z n : Nat) : 0 < (numeral z n).length :=
  List.length_pos_iff.mpr (numeral_spec z n).2.1

theorem intNumeral_len_pos (z : Nat) (x : Int) : 0 < (intNumeral z x).length := by
  unfold intNumeral; split
  · simp
  · exact numeral_len_pos _ _

theorem terminator_len_pos (neg : Bool) (z : Nat) : 0 < (terminator neg z).length := by
  unfold terminator; split
  · simp
  · exact numeral_len_pos _ _

theorem litOk_range {l : LitTy} {limit x : Int} (hl2 : l.bits ≤ 64) (h : LitOk l limit x) :
    -(2 ^ 63 : Int) < x ∧ x < 2 ^ 63 := by
  have := maxDimacs_le l hl2
  have := h.tlo; have := h.thi
  omega

/-- The text behind the current literal: remaining literals, terminator, blanks. -/
def litsText (ls : List (Nat × Sep)) (xs : List Int) (neg : Bool) (z : Nat) (post : Blanks)
    (R : VBytes) : VBytes :=
  renderLits ls xs ++ (terminator neg z ++ (renderBlanks post ++ R))

theorem startsNum_litsText (ls xs neg z post R) : StartsNum (litsText ls xs neg z post R) := by
  unfold litsText
  cases ls with
  | nil => simp only [renderLits, List.nil_append]; exact startsNum_terminator _ _ _
  | cons a ls =>
    obtain ⟨z', s'⟩ := a
    cases xs with
    | nil => simp only [renderLits, List.nil_append]; exact startsNum_terminator _ _ _
    | cons y ys =>
      simp only [renderLits, List.append_assoc]; exact startsNum_intNumeral _ _ _

theorem clauseLitsLoop_ok {N} (l : LitTy) (limit : Int) (hl1 : 1 ≤ l.bits) (hl2 : l.bits ≤ 64)
    (neg : Bool) (z : Nat) (post : Blanks) (R : VBytes) (hR : StartsEol R) :
    ∀ (ls : List (Nat × Sep)) (xs : List Int), ls.length = xs.length →
      (ls.all fun a => a.2.valid) = true → (∀ x ∈ xs, LitOk l limit x) →
      ∀ (f : Nat) (x : Int) (s : Sep) (acc : List Int), LitOk l limit x → s.valid = true →
        (litsText ls xs neg z post R).length + 1 ≤ f →
        Steps N (clauseLitsLoop l limit f x acc) (acc.reverse ++ x :: xs)
          (sepTail s ++ litsText ls xs neg z post R) R := by
  intro ls
  induction ls with
  | nil =>
    intro xs hlen hval hxs f x s acc hx hs hf
    cases xs with
    | cons _ _ => simp at hlen
    | nil =>
      have hT := startsNum_litsText [] [] neg z post R
      have htl := terminator_len_pos neg z
      simp only [litsText, renderLits, List.nil_append, List.length_append] at hf hT ⊢
      obtain ⟨f', rfl⟩ : ∃ f', f = f' + 2 := ⟨f - 2, by omega⟩
      have hx0 : (x == 0) = false := by simpa using hx.ne
      have hrange : -limit ≤ x ∧ x ≤ limit := ⟨hx.lo, hx.hi⟩
      rw [clauseLitsLoop]
      simp only [hx0, Bool.false_eq_true, ↓reduceIte, hrange, and_self,
        fromDimacs_id l hl1 x hx.tlo hx.thi]
      refine fetch_next l limit (f' + 1) (x :: acc) s _ R R 0 _ hs hT
        (litInt_term neg z (renderBlanks post) R (allBlank_render post) hR.line.nb
          (we_blanks post hR.we)) ?_
      rw [clauseLitsLoop]
      simp only [beq_self_eq_true, ↓reduceIte]
      have : (x :: acc).reverse = acc.reverse ++ [x] := by simp
      rw [this]
      exact Steps.pure _ _
  | cons a ls ih =>
    obtain ⟨z', s'⟩ := a
    intro xs hlen hval hxs f x s acc hx hs hf
    cases xs with
    | nil => simp at hlen
    | cons y ys =>
      have hT := startsNum_litsText ((z', s') :: ls) (y :: ys) neg z post R
      have hy : LitOk l limit y := hxs y (by simp)
      have hys : ∀ x ∈ ys, LitOk l limit x := fun x hx => hxs x (by simp [hx])
      simp only [List.all_cons, Bool.and_eq_true] at hval
      have hnl := intNumeral_len_pos z' y
      have hsplit : litsText ((z', s') :: ls) (y :: ys) neg z post R =
          intNumeral z' y ++ (sepLead s' ++ (sepTail s' ++ litsText ls ys neg z post R)) := by
        simp only [litsText, renderLits, sep_render, List.append_assoc]
      rw [hsplit] at hf hT ⊢
      simp only [List.length_append] at hf
      obtain ⟨f', rfl⟩ : ∃ f', f = f' + 1 := ⟨f - 1, by omega⟩
      have hx0 : (x == 0) = false := by simpa using hx.ne
      have hrange : -limit ≤ x ∧ x ≤ limit := ⟨hx.lo, hx.hi⟩
      obtain ⟨r1, r2⟩ := litOk_range hl2 hy
      rw [clauseLitsLoop]
      simp only [hx0, Bool.false_eq_true, ↓reduceIte, hrange, and_self,
        fromDimacs_id l hl1 x hx.tlo hx.thi]
      refine fetch_next l limit f' (x :: acc) s _ _ R y _ hs hT
        (litInt_num z' y (sepLead s') _ r1 r2 (allBlank_sepLead s')
          (nb_sepTail s' (startsNum_litsText ls ys neg z post R).nb) (we_sep s' _)) ?_
      have := ih ys (by simpa using hlen) hval.2 hys f' y s' (x :: acc) hy hval.1 (by omega)
      have e : (x :: acc).reverse ++ y :: ys = acc.reverse ++ x :: y :: ys := by simp
      rw [e] at this
      exact this

/-- `clause_lits` on rendered literals with terminator and trailing blanks, in front of a line
end or the end of the input. -/
theorem clauseLits_ok {N} (l : LitTy) (limit : Int) (hl1 : 1 ≤ l.bits) (hl2 : l.bits ≤ 64)
    (ls : List (Nat × Sep)) (xs : List Int) (neg : Bool) (z : Nat) (post : Blanks) (R : VBytes)
    (hR : StartsEol R) (hlen : ls.length = xs.length) (hval : (ls.all fun a => a.2.valid) = true)
    (hxs : ∀ x ∈ xs, LitOk l limit x) :
    Steps N (clauseLits l limit) (some xs) (litsText ls xs neg z post R) R := by
  unfold clauseLits
  refine Steps.bind (Steps.setMark _) ?_
  cases ls with
  | nil =>
    cases xs with
    | cons _ _ => simp at hlen
    | nil =>
      simp only [litsText, renderLits, List.nil_append]
      refine Steps.bind (litInt_term neg z (renderBlanks post) R (allBlank_render post) hR.line.nb
          (we_blanks post hR.we)) ?_
      refine Steps.get_bind ?_
      intro lr hlr
      refine Steps.bind (a := []) ?_ (Steps.pure _ _)
      rw [clauseLitsLoop]
      simp only [beq_self_eq_true, ↓reduceIte]
      exact Steps.pure _ _
  | cons a ls =>
    obtain ⟨z', s'⟩ := a
    cases xs with
    | nil => simp at hlen
    | cons y ys =>
      have hy : LitOk l limit y := hxs y (by simp)
      have hys : ∀ x ∈ ys, LitOk l limit x := fun x hx => hxs x (by simp [hx])
      simp only [List.all_cons, Bool.and_eq_true] at hval
      have hsplit : litsText ((z', s') :: ls) (y :: ys) neg z post R =
          intNumeral z' y ++ (sepLead s' ++ (sepTail s' ++ litsText ls ys neg z post R)) := by
        simp only [litsText, renderLits, sep_render, List.append_assoc]
      rw [hsplit]
      obtain ⟨r1, r2⟩ := litOk_range hl2 hy
      refine Steps.bind (litInt_num z' y (sepLead s') _ r1 r2 (allBlank_sepLead s')
          (nb_sepTail s' (startsNum_litsText ls ys neg z post R).nb) (we_sep s' _)) ?_
      refine Steps.get_bind ?_
      intro lr hlr
      refine Steps.bind (a := y :: ys) ?_ (Steps.pure _ _)
      have := clauseLitsLoop_ok (N := N) l limit hl1 hl2 neg z post R hR ls ys (by simpa using hlen)
        hval.2 hys (lr.v.rest.length + 2) y s' [] hy hval.1 (by rw [hlr]; simp; omega)
      simpa using this

end Flussab.CnfP
