/-
Proofs of the tie between the generated AIGER token model (`Gen/AigerTokenGen.lean`, from
`flussab-aiger/src/token.rs`) and `Model/AigerToken.lean`.  Statements: `Props/TieAigerToken.lean`.
-/
import Flussab.Gen.AigerTokenGen
import Flussab.Model.AigerToken
import Flussab.Proof.PMHoare
import Flussab.Proof.TieLineReader

namespace Flussab
namespace TieAigerTokenAux
open Gen.AigerToken

theorem fixedTok_eq (pat : VBytes) : fixedTok pat = Aiger.fixed pat := rfl

theorem space_eq : space = Aiger.space := by
  unfold space Aiger.space
  congr 1
  funext o
  rcases o with _ | b
  · rfl
  · by_cases h : b = 32
    · subst h; rfl
    · have e : (b == 32) = false := by simpa using h
      have e2 : (some b == some 32) = false := by simp [h]
      simp [e, e2]

theorem newline_eq : newline = Aiger.newline := by
  unfold newline Aiger.newline
  congr 1
  funext o
  rcases o with _ | b
  · rfl
  · by_cases h : b = 10
    · subst h; rfl
    · have e : (b == 10) = false := by simpa using h
      have e2 : (some b == some 10) = false := by simp [h]
      simp [e, e2]

theorem eof_eq : eof = Aiger.eof := by
  unfold eof Aiger.eof PMExt.ioError
  simp

theorem fixedNotEol_eq (pat : VBytes) : fixedNotEol pat = Aiger.fixedNotEol pat := by
  unfold fixedNotEol Aiger.fixedNotEol
  congr 1
  funext off
  by_cases h : off = 0
  · subst h; simp
  · simp [h]
    congr 1
    funext o
    rcases o with _ | b
    · simp
    · by_cases hb : b = 10
      · subst hb; simp
      · have e : (b == 10) = false := by simpa using hb
        simp [e, hb]

theorem requiredSpace_eq : requiredSpace = Aiger.requiredSpace := by
  unfold requiredSpace Aiger.requiredSpace PM.orGiveUp AigerTokenExt.orGiveUp
  rw [space_eq]
  congr 1

theorem requiredNewline_eq : requiredNewline = Aiger.requiredNewline := by
  unfold requiredNewline Aiger.requiredNewline PM.orGiveUp AigerTokenExt.orGiveUp
  rw [newline_eq]
  congr 1


theorem requiredNewlineOrSpace_eq : requiredNewlineOrSpace = Aiger.requiredNewlineOrSpace := by
  unfold requiredNewlineOrSpace Aiger.requiredNewlineOrSpace
  congr 1
  funext o
  rcases o with _ | b
  · rfl
  · by_cases h : b = 10
    · subst h; rfl
    · by_cases h2 : b = 32
      · subst h2; rfl
      · have e : (b == 10) = false := by simpa using h
        have e2 : (b == 32) = false := by simpa using h2
        simp [e, e2]

/-! ### `binary_uint` (the variable-length integers of the binary format) -/

section BinaryUint
open TieLineReaderAux


/-- What `give_up` throws and the state it leaves (the parked I/O error is taken). -/
def giveUpOut (lr : LR) : PErr × LR :=
  (if lr.v.ioErr then PErr.io
   else if lr.v.pos < lr.lineStart then PErr.panic "column underflow (position before line start)"
   else PErr.syn lr.line (lr.v.pos - lr.lineStart + 1),
   { lr with v := { lr.v with ioErr := false } })

theorem giveUp_apply {β : Type} (lr : LR) : (PM.giveUp : PM β) lr = (.error (giveUpOut lr).1, (giveUpOut lr).2) := by
  unfold PM.giveUp
  simp only [PM.bind_apply, PM.position, get_apply, pure_apply]
  exact giveUpAt_apply lr.v.pos lr

/-- `unexpected` always throws; outcome and state do not depend on the result type. -/
def unexpectedOut (lr : LR) : PErr × LR :=
  let p := Text.newline lr.v 0
  let lr1 := { lr with v := p.2 }
  if p.1 != 0 then giveUpOut lr1
  else if lr1.v.isAtEnd then giveUpOut lr1
  else giveUpOut { lr1 with v := lr1.v.demand (min (Aiger.unexpectedLen lr1.v.rest 0) 59) }

theorem unexpected_apply {β : Type} (lr : LR) :
    (Aiger.unexpected : PM β) lr = (.error (unexpectedOut lr).1, (unexpectedOut lr).2) := by
  unfold Aiger.unexpected unexpectedOut
  have hs : ∀ (lr : LR), (PM.scan (fun x => Text.newline x 0) : PM Nat) lr =
      (.ok (Text.newline lr.v 0).1, { lr with v := (Text.newline lr.v 0).2 }) := fun _ => rfl
  simp only [PM.bind_apply, hs, get_apply]
  by_cases h1 : ((Text.newline lr.v 0).1 != 0) = true
  · simp only [h1, if_true, giveUp_apply]
  · simp only [h1, Bool.false_eq_true, if_false]
    have hg : ∀ (x : LR), (get : PM LR) x = (.ok x, x) := fun _ => rfl
    by_cases h2 : (Text.newline lr.v 0).2.isAtEnd = true
    · rw [PM.bind_apply, hg]
      simp only [h2, if_true, giveUp_apply]
    · rw [PM.bind_apply, hg]
      simp only [h2, Bool.false_eq_true, if_false]
      rw [PM.bind_apply, hg]
      simp only [PM.bind_apply, PM.reqAt_apply, giveUp_apply]


def lenRes (r : Except PErr Nat × LR) : Except PErr (Ctl Nat Nat) × LR :=
  match r with
  | (.ok n, lr) => (.ok (Ctl.brk n), lr)
  | (.error e, lr) => (.error e, lr)

/-- First loop of `binary_uint` = the model's `binaryUintLen`, for every fuel that cannot run out
(`n + fuel ≥ 11`: the test `byte_len == 10` ends the loop first). -/
theorem loop1_eq (fuel : Nat) : ∀ (n : Nat) (lr : LR), n + fuel ≥ 11 → n ≤ 9 →
    binaryUint.loop1 fuel n lr = lenRes (Aiger.binaryUintLen fuel n lr) := by
  induction fuel with
  | zero => intro n lr h1 h2; omega
  | succ fuel ih =>
    intro n lr h1 h2
    rw [binaryUint.loop1, Aiger.binaryUintLen]
    simp only [PM.bind_apply, PM.reqAt_apply]
    rcases lr.v.rest[n]? with _ | byte
    · simp only
      rw [PM.bind_apply, unexpected_apply, unexpected_apply]
      rfl
    · simp only
      by_cases hb : (byte &&& 128 == 0) = true
      · simp only [hb, if_true, lenRes, pure_apply]
      · simp only [hb, Bool.false_eq_true, if_false]
        by_cases h10 : (n + 1 == 10) = true
        · have e : (n + 1 == (64 + 6) / 7) = true := h10
          simp only [e, h10, if_true, PM.bind_apply, giveUp_apply, lenRes]
        · have e : (n + 1 == (64 + 6) / 7) = false := by simpa using h10
          have hn : n + 1 ≠ 10 := by simpa using h10
          simp only [e, h10, Bool.false_eq_true, if_false, PM.bind_apply, pure_apply]
          exact ih (n + 1) _ (by omega) (by omega)


/-- Second loop (`for byte in buf()[..byte_len].iter().rev()`) = the model's `binaryUintValue`. -/
theorem loop2_eq (bl : Nat) : ∀ (bs : List UInt8) (i value : Nat) (lr : LR),
    binaryUint.loop2 bl bs i value lr =
      match Aiger.binaryUintValue bs value with
      | some v => (.ok (Ctl.brk v), lr)
      | none => (.error (giveUpOut lr).1, (giveUpOut lr).2) := by
  intro bs
  induction bs with
  | nil => intro i value lr; rfl
  | cons byte rest ih =>
    intro i value lr
    rw [binaryUint.loop2, Aiger.binaryUintValue]
    have e7 : (2 : Nat) ^ 7 = 128 := by decide
    simp only [e7]
    by_cases h : (value * 128 % 2 ^ 64 / 128 != value) = true
    · simp only [h, if_true, PM.bind_apply, giveUp_apply]
    · simp only [h, Bool.false_eq_true, if_false, PM.bind_apply, pure_apply]
      exact ih _ _ lr

theorem binaryUint_eq : binaryUint = Aiger.binaryUint := by
  funext lr
  unfold binaryUint Aiger.binaryUint
  simp only [PM.bind_apply]
  rw [loop1_eq 11 0 lr (by omega) (by omega)]
  rcases hl : Aiger.binaryUintLen 11 0 lr with ⟨r, lr1⟩
  cases r with
  | error e => simp [lenRes]
  | ok n =>
    simp only [lenRes, pure_apply, PM.bind_apply]
    rcases hb : PM.bufPrefix n lr1 with ⟨rb, lr2⟩
    cases rb with
    | error e => rfl
    | ok bs =>
      simp only
      rw [loop2_eq]
      cases hv : Aiger.binaryUintValue bs.reverse 0 with
      | none => simp only [giveUp_apply]
      | some v =>
        simp only [pure_apply, PM.bind_apply]

end BinaryUint

theorem deltaCodeErr_eq (code delta : Nat) (a b : Unit) : deltaCodeErr code delta a b = Aiger.errorAtMark := rfl

theorem notAssigning_eq {α : Type} (v : Nat) (a b : Unit) : (notAssigning v a b : PM α) = Aiger.errorAtMark := by
  unfold notAssigning Aiger.errorAtMark
  split <;> rfl

theorem invalidInitialization_eq {α : Type} (f l : Nat) : (invalidInitialization f l : PM α) = Aiger.errorAtMark := rfl

theorem deltaCode_eq (code : Nat) (a b : Unit) : deltaCode code a b = Aiger.deltaCode code := by
  unfold deltaCode Aiger.deltaCode
  simp only [deltaCodeErr_eq, binaryUint_eq]
  congr 1
  funext u
  congr 1
  funext delta
  by_cases h : delta > code
  · simp [h]
  · have h' : delta ≤ code := by omega
    simp [h, PMExt.usub, h']

/-- `uint` without the early `return`. -/
def uintN (t : IntTy) : PM (Option (Option Int)) := do
  let (value, off) ← PM.scan (Text.asciiDigits t · 0)
  if off != 0 then
    let b0 ← AigerTokenExt.bufAt 0
    match (b0 != 48 || off == 1), value with
    | true, some v =>
      PM.advance off
      pure (some (some v))
    | _, _ =>
      let bs ← PM.bufPrefix off
      PM.utf8Unwrap bs
      pure (some none)
  else pure none

theorem uint_eq_uintN (t : IntTy) : uint t = uintN t := by
  unfold uint uintN
  simp
  congr 1
  funext p
  rcases p with ⟨value, off⟩
  simp only
  by_cases h : off = 0
  · simp [h]
  · simp [h]
    congr 1
    funext b0
    cases hc : (b0 != 48 || off == 1) <;> cases value <;> simp_all


theorem bufPrefix_apply (n : Nat) (lr : LR) (h : n ≤ lr.v.demanded) :
    PM.bufPrefix n lr = (.ok (lr.v.rest.take n), lr) := by
  have e : PM.bufPrefix n lr = (match lr.v.bufPrefix n with
      | some bs => (pure bs : PM VBytes)
      | none => PM.rpanic "slice beyond scanned data") lr := by
    show ((get : PM LR) >>= fun s : LR => match s.v.bufPrefix n with
      | some bs => (pure bs : PM VBytes)
      | none => PM.rpanic "slice beyond scanned data") lr = _
    rw [PM.bind_apply]; rfl
  rw [e]
  simp only [View.bufPrefix, h, if_true]
  rfl

theorem bufAt0_apply (lr : LR) (b0 : UInt8) (tl : VBytes) (hr : lr.v.rest = b0 :: tl) (h : 1 ≤ lr.v.demanded) :
    AigerTokenExt.bufAt 0 lr = (.ok b0, lr) := by
  unfold AigerTokenExt.bufAt
  rw [PM.bind_apply, bufPrefix_apply _ _ h]
  simp [hr]
  rfl


def conv (r : Option (Option Int)) : Aiger.UintRes := AigerTokenExt.toUintRes (AigerTokenExt.asUsize r)

def uintC (t : IntTy) : PM Aiger.UintRes := do
  let (value, off) ← PM.scan (Text.asciiDigits t · 0)
  if off != 0 then
    let b0 ← AigerTokenExt.bufAt 0
    match (b0 != 48 || off == 1), value with
    | true, some v =>
      PM.advance off
      pure (.ok v.toNat)
    | _, _ =>
      let bs ← PM.bufPrefix off
      PM.utf8Unwrap bs
      pure .bad
  else pure .fall

theorem conv_uint (t : IntTy) : conv <$> uint t = uintC t := by
  rw [uint_eq_uintN]
  unfold uintN uintC
  simp
  congr 1
  funext p
  rcases p with ⟨value, off⟩
  simp only
  by_cases h : off = 0
  · simp [h]; rfl
  · simp [h]
    congr 1
    funext b0
    cases hc : (b0 != 48 || off == 1) <;> cases value <;> simp_all <;> rfl


theorem demand_demanded (v : View) (k : Nat) (hk : k ≤ v.rest.length) :
    k ≤ (v.demand k).demanded ∧ (v.demand k).rest = v.rest := by
  by_cases hlt : k < v.rest.length
  · simp only [View.demand, View.demanded, hlt, if_true]
    exact ⟨by omega, trivial⟩
  · simp only [View.demand, View.demanded, hlt, if_false]
    exact ⟨by omega, trivial⟩

/-- The part of `uint` after the scanner, in a state where the scanned bytes are buffered. -/
theorem uint_tail (value : Option Int) (off : Nat) (lr : LR) (h : off ≤ lr.v.demanded) :
    (if off != 0 then do
      let b0 ← AigerTokenExt.bufAt 0
      match (b0 != 48 || off == 1), value with
      | true, some v =>
        PM.advance off
        pure (Aiger.UintRes.ok v.toNat)
      | _, _ =>
        let bs ← PM.bufPrefix off
        PM.utf8Unwrap bs
        pure Aiger.UintRes.bad
    else pure Aiger.UintRes.fall : PM Aiger.UintRes) lr =
    (if off != 0 then do
      let bs ← PM.bufPrefix off
      match bs with
      | [] => PM.rpanic "buf()[0]"
      | b0 :: _ =>
        let plain := b0 != 48 || off == 1
        match plain, value with
        | true, some v =>
          PM.advance off
          pure (Aiger.UintRes.ok v.toNat)
        | _, _ =>
          PM.utf8Unwrap bs
          pure Aiger.UintRes.bad
    else pure Aiger.UintRes.fall : PM Aiger.UintRes) lr := by
  by_cases h0 : off = 0
  · simp [h0]
  · have hne : (off != 0) = true := by simpa using h0
    simp only [hne, if_true]
    have hlen : off ≤ lr.v.rest.length := by
      have : lr.v.demanded ≤ lr.v.rest.length := by unfold View.demanded; omega
      omega
    rcases hr : lr.v.rest with _ | ⟨b0, tl⟩
    · rw [hr] at hlen; simp at hlen; omega
    · rw [PM.bind_apply, PM.bind_apply, bufAt0_apply lr b0 tl hr (by omega), bufPrefix_apply off lr h]
      obtain ⟨m, rfl⟩ : ∃ m, off = m + 1 := ⟨off - 1, by omega⟩
      simp only [hr, List.take_succ_cons]
      cases hc : (b0 != 48 || m + 1 == 1) <;> cases value <;> simp only [] <;>
        (rw [PM.bind_apply, bufPrefix_apply (m + 1) lr h, hr]; rfl)


theorem scan_bind_apply {α β : Type} (f : View → α × View) (k : α → PM β) (lr : LR) :
    (PM.scan f >>= k) lr = k (f lr.v).1 { lr with v := (f lr.v).2 } := by
  rw [PM.bind_apply]; rfl

theorem uintC_eq : uintC Aiger.usizeTy = Aiger.uint := by
  funext lr
  unfold uintC Aiger.uint
  rw [scan_bind_apply, scan_bind_apply]
  have hd : (Text.asciiDigits Aiger.usizeTy lr.v 0).1.2 ≤ (Text.asciiDigits Aiger.usizeTy lr.v 0).2.demanded := by
    obtain ⟨h1, h2⟩ := PM.digitsCont_spec Aiger.usizeTy false lr.v 0 (some 0)
    have := demand_demanded lr.v (0 + ((lr.v.rest.drop 0).takeWhile isDigit).length)
      (by simpa using C13.takeWhile_length_le isDigit lr.v.rest)
    rw [← h2, ← h1] at this
    exact this.1
  generalize Text.asciiDigits Aiger.usizeTy lr.v 0 = r at hd
  rcases r with ⟨⟨value, off⟩, v'⟩
  exact uint_tail value off { lr with v := v' } hd

theorem uint_eq : conv <$> uint Aiger.usizeTy = Aiger.uint := by
  rw [conv_uint, uintC_eq]


theorem throw_bind' {α β : Type} (e : PErr) (k : α → PM β) : (throw e : PM α) >>= k = throw e := rfl

theorem giveUpAt_bind {α β : Type} (pos : Nat) (k : α → PM β) : (PM.giveUpAt pos : PM α) >>= k = PM.giveUpAt pos := by
  unfold PM.giveUpAt PM.rpanic
  simp only [bind_assoc]
  congr 1
  funext lr
  congr 1
  funext u
  split
  · rfl
  · split <;> rfl

theorem errorAtMark_bind {α β : Type} (k : α → PM β) : (Aiger.errorAtMark : PM α) >>= k = Aiger.errorAtMark := by
  unfold Aiger.errorAtMark
  simp only [bind_assoc, giveUpAt_bind]

theorem errorAtMark_map {α β : Type} (f : α → β) : f <$> (Aiger.errorAtMark : PM α) = Aiger.errorAtMark := by
  rw [map_eq_pure_bind, errorAtMark_bind]

theorem headerField_eq (name : Unit) (limit : Nat) (hard : Bool) :
    headerField name limit hard = Aiger.headerField limit := by
  unfold headerField Aiger.headerField
  rw [← uint_eq]
  simp only [bind_map_left]
  congr 1
  funext u
  congr 1
  funext r
  rcases r with _ | _ | v
  · simp [conv, AigerTokenExt.asUsize, AigerTokenExt.toUintRes, AigerTokenExt.mapErr, AigerTokenExt.andAlso,
      AigerTokenExt.orGiveUp]
  · simp [conv, AigerTokenExt.asUsize, AigerTokenExt.toUintRes, AigerTokenExt.mapErr, AigerTokenExt.andAlso,
      AigerTokenExt.orGiveUp, errorAtMark_bind]
  · simp only [conv, AigerTokenExt.asUsize, AigerTokenExt.toUintRes, AigerTokenExt.mapErr, AigerTokenExt.andAlso,
      AigerTokenExt.orGiveUp, Option.map]
    generalize v.toNat = n
    by_cases h : n > limit <;> simp [h, errorAtMark_map, errorAtMark_bind]

theorem symbolIndex_eq (name : Unit) (limit : Nat) : symbolIndex name limit = Aiger.symbolIndex limit := by
  rw [Aiger.symbolIndex, ← headerField_eq () limit false]
  rfl

theorem litTok_eq (name : Unit) (limit : Nat) (assigning : Bool) :
    litTok name limit assigning = Aiger.lit limit assigning := by
  unfold litTok Aiger.lit
  rw [← uint_eq]
  simp only [bind_map_left]
  congr 1
  funext u
  congr 1
  funext r
  rcases r with _ | _ | v
  · simp [conv, AigerTokenExt.asUsize, AigerTokenExt.toUintRes, AigerTokenExt.mapErr, AigerTokenExt.andAlso,
      AigerTokenExt.orGiveUp]
  · simp [conv, AigerTokenExt.asUsize, AigerTokenExt.toUintRes, AigerTokenExt.mapErr, AigerTokenExt.andAlso,
      AigerTokenExt.orGiveUp, errorAtMark_bind]
  · simp only [conv, AigerTokenExt.asUsize, AigerTokenExt.toUintRes, AigerTokenExt.mapErr, AigerTokenExt.andAlso,
      AigerTokenExt.orGiveUp, Option.map, notAssigning_eq, Nat.and_one_is_mod]
    generalize v.toNat = n
    by_cases h1 : assigning = true ∧ (n = 0 ∨ n % 2 = 1)
    · simp [h1, errorAtMark_map, errorAtMark_bind]
    · by_cases h : n > limit <;> simp [h1, h, errorAtMark_map, errorAtMark_bind]

end TieAigerTokenAux
end Flussab
