/-
Running `PM` programs on healthy input: the bookkeeping used by the layout-independence proofs
(C07 / C03-DIMACS).

`Good N lr`: the reader state of a parse of an `N`-byte text from a source that does not fail
(`fault = false`, no parked error), `pos + rest.length = N`, `N < usize::MAX` and at most one line
counted per consumed byte (so `line_at_offset` cannot overflow).  `Steps N m a pre post`: started in
any good state whose remaining input is `pre`, the program `m` returns `a` (no error, no panic —
in particular never `rpanic "fuel"`) and leaves a good state whose remaining input is `post`.
Ghost fields (`peeked`, `sawEnd`, `mark`, `lineStart`) are existentially hidden.
-/
import Flussab.Model.Cnf
import Flussab.Props.C16
import Flussab.Props.C13

namespace Flussab.CnfP
open Flussab Flussab.PM Flussab.Cnf
set_option linter.unusedSimpArgs false

/-! ### the monad -/

theorem run_pure {α} (a : α) (lr : LR) : (pure a : PM α).run lr = (.ok a, lr) := rfl

theorem run_bind {α β} (x : PM α) (g : α → PM β) (lr : LR) :
    (x >>= g).run lr = match x.run lr with
      | (.ok a, lr') => (g a).run lr'
      | (.error e, lr') => (.error e, lr') := by
  show (ExceptT.bind x g).run lr = _
  simp only [ExceptT.bind, ExceptT.run, ExceptT.mk]
  show (StateT.bind _ _) lr = _
  simp only [StateT.bind]
  rcases x lr with ⟨r, lr'⟩
  cases r <;> rfl

theorem run_scan {α} (f : View → α × View) (lr : LR) :
    (scan f).run lr = (.ok (f lr.v).1, { lr with v := (f lr.v).2 }) := rfl

theorem run_get (lr : LR) : (get : PM LR).run lr = (.ok lr, lr) := rfl

theorem run_reqAt (k : Nat) (lr : LR) :
    (reqAt k).run lr = (.ok lr.v.rest[k]?, { lr with v := lr.v.demand k }) := rfl

theorem run_reqByte (lr : LR) :
    (reqByte).run lr = (.ok lr.v.rest[0]?, { lr with v := lr.v.demand 0 }) := rfl

theorem run_setMark (lr : LR) : (setMark).run lr = (.ok (), { lr with v := lr.v.setMark }) := rfl

theorem run_advance (lr : LR) (n : Nat) (h1 : lr.v.pos + n ≤ lr.v.peeked) (h2 : n ≤ lr.v.rest.length) :
    (advance n).run lr =
      (.ok (), { lr with v := { lr.v with rest := lr.v.rest.drop n, pos := lr.v.pos + n } }) := by
  have h : n ≤ lr.v.demanded := by unfold View.demanded; omega
  simp only [advance, run_bind, run_get, View.advance, h]
  rfl

theorem run_lineAtOffset (lr : LR) (off : Nat) (h1 : lr.line + 1 ≤ usizeMax)
    (h2 : lr.v.pos + off ≤ usizeMax) :
    (lineAtOffset off).run lr =
      (.ok (), { lr with line := lr.line + 1, lineStart := lr.v.pos + off }) := by
  have h : ¬ (lr.line + 1 > usizeMax ∨ lr.v.pos + off > usizeMax) := by omega
  simp only [lineAtOffset, run_bind, run_get, h, ↓reduceIte]
  rfl

/-! ### good states -/

structure Good (N : Nat) (lr : LR) : Prop where
  bound : N < PM.usizeMax
  fault : lr.v.fault = false
  ioErr : lr.v.ioErr = false
  line : lr.line ≤ lr.v.pos + 1
  len : lr.v.pos + lr.v.rest.length = N

def Run {α} (N : Nat) (m : PM α) (lr : LR) (a : α) (post : VBytes) : Prop :=
  ∃ lr', m.run lr = (.ok a, lr') ∧ Good N lr' ∧ lr'.v.rest = post

def Steps {α} (N : Nat) (m : PM α) (a : α) (pre post : VBytes) : Prop :=
  ∀ lr, Good N lr → lr.v.rest = pre → Run N m lr a post

theorem Steps.bind {α β N} {x : PM α} {g : α → PM β} {a b r0 r1 r2}
    (h1 : Steps N x a r0 r1) (h2 : Steps N (g a) b r1 r2) : Steps N (x >>= g) b r0 r2 := by
  intro lr hg hr
  obtain ⟨lr1, e1, g1, q1⟩ := h1 lr hg hr
  obtain ⟨lr2, e2, g2, q2⟩ := h2 lr1 g1 q1
  exact ⟨lr2, by rw [run_bind, e1]; exact e2, g2, q2⟩

theorem Steps.pure {α N} (a : α) (r : VBytes) : Steps N (pure a : PM α) a r r :=
  fun lr hg hr => ⟨lr, rfl, hg, hr⟩

/-- `(← get)` is only ever used for the amount of remaining input (fuel). -/
theorem Steps.get_bind {β N} {g : LR → PM β} {b r0 r1}
    (h : ∀ lr : LR, lr.v.rest = r0 → Steps N (g lr) b r0 r1) : Steps N (get >>= g) b r0 r1 := by
  intro lr hg hr
  obtain ⟨lr2, e2, g2, q2⟩ := h lr hr lr hg hr
  exact ⟨lr2, by rw [run_bind, run_get]; exact e2, g2, q2⟩

theorem Steps.cast {α N} {m : PM α} {a r0 r1 r0' r1'} (h : Steps N m a r0 r1) (e0 : r0' = r0)
    (e1 : r1' = r1) : Steps N m a r0' r1' := by subst e0; subst e1; exact h

/-- Scanning view: same stream in front, same position, healthy. -/
structure VOk (v0 v : View) : Prop where
  rest : v.rest = v0.rest
  pos : v.pos = v0.pos
  fault : v.fault = false
  ioErr : v.ioErr = false

theorem Good.vok {N lr} (hg : Good N lr) : VOk lr.v lr.v := ⟨rfl, rfl, hg.fault, hg.ioErr⟩

theorem Good.of_vok {N lr} (hg : Good N lr) {v' : View} (hv : VOk lr.v v') :
    Good N { lr with v := v' } ∧ ({ lr with v := v' } : LR).v.rest = lr.v.rest := by
  refine ⟨⟨hg.bound, hv.fault, hv.ioErr, ?_, ?_⟩, hv.rest⟩
  · have := hg.line; have := hv.pos; dsimp only; omega
  · have := hg.len; have := hv.pos; have := hv.rest; dsimp only; rw [hv.rest]; omega

theorem VOk.demand {v0 v : View} (h : VOk v0 v) (k : Nat) :
    VOk v0 (v.demand k) ∧ v0.pos + k + 1 ≤ (v.demand k).peeked := by
  obtain ⟨h1, h2, h3, h4⟩ := h
  unfold View.demand
  by_cases hk : k < v.rest.length
  · simp only [hk, ↓reduceIte]
    exact ⟨⟨h1, h2, h3, h4⟩, by first | omega | (dsimp only; omega)⟩
  · simp only [hk, ↓reduceIte]
    exact ⟨⟨h1, h2, h3, by simp [h3, h4]⟩, by first | omega | (dsimp only; omega)⟩

theorem VOk.setMark {v0 v : View} (h : VOk v0 v) : VOk v0 v.setMark := ⟨h.rest, h.pos, h.fault, h.ioErr⟩

/-! ### every scanner keeps the view healthy -/

theorem VOk.tabs {v0 v : View} (h : VOk v0 v) (off : Nat) : VOk v0 (Text.tabsOrSpaces v off).2 :=
  (h.demand _).1

theorem VOk.newline {v0 v : View} (h : VOk v0 v) (off : Nat) : VOk v0 (Text.newline v off).2 := by
  unfold Text.newline
  split
  · exact (h.demand _).1
  · split
    · exact (((h.demand _).1).demand _).1
    · exact (((h.demand _).1).demand _).1
  · exact (h.demand _).1

theorem VOk.nextNewline {v0 v : View} (h : VOk v0 v) (off : Nat) :
    VOk v0 (Text.nextNewline v off).2 := (h.demand _).1

theorem VOk.fixed {v0 v : View} (h : VOk v0 v) (off : Nat) (pat : VBytes) :
    VOk v0 (Text.fixed v off pat).2 := by
  unfold Text.fixed
  dsimp only
  split
  · split
    · exact h
    · exact (h.demand _).1
  · exact (h.demand _).1

theorem VOk.digits {v0 v : View} (h : VOk v0 v) (t : IntTy) (off : Nat) :
    VOk v0 (Text.asciiDigits t v off).2 := (h.demand _).1

theorem VOk.signed {v0 v : View} (h : VOk v0 v) (t : IntTy) (off : Nat) :
    VOk v0 (Text.signedAsciiDigits t v off).2 := by
  unfold Text.signedAsciiDigits
  split
  · split
    · split
      · exact ((((h.demand _).1).demand _).1.demand _).1
      · exact (((h.demand _).1).demand _).1
    · exact (((h.demand _).1).demand _).1
  · exact (h.demand _).1

/-- A scanner step whose answer is determined by the remaining input. -/
theorem Steps.scan {α N} (f : View → α × View) (a : α) (r : VBytes)
    (hval : ∀ v : View, v.rest = r → (f v).1 = a)
    (hvok : ∀ v : View, VOk v v → VOk v (f v).2) : Steps N (scan f) a r r := by
  intro lr hg hr
  obtain ⟨g', r'⟩ := hg.of_vok (hvok lr.v hg.vok)
  exact ⟨_, by rw [run_scan, hval lr.v hr], g', by rw [r', hr]⟩

theorem Steps.reqAt {N} (k : Nat) (r : VBytes) : Steps N (reqAt k) r[k]? r r :=
  Steps.scan _ _ _ (fun v hv => by simp [View.reqAt, hv]) (fun v hv => (hv.demand k).1)

theorem Steps.reqByte {N} (r : VBytes) : Steps N reqByte r.head? r r := by
  have := Steps.reqAt (N := N) 0 r
  rw [← List.head?_eq_getElem?] at this
  exact this

theorem Steps.setMark {N} (r : VBytes) : Steps N setMark () r r := by
  intro lr hg hr
  obtain ⟨g', r'⟩ := hg.of_vok hg.vok.setMark
  exact ⟨_, run_setMark lr, g', by rw [r', hr]⟩

/-! ### combinators -/

theorem Steps.orGiveUp {α N} {p : PM (Option α)} {err : PM α} {a r0 r1}
    (h : Steps N p (some a) r0 r1) : Steps N (orGiveUp p err) a r0 r1 :=
  Steps.bind h (Steps.pure a r1)

theorem Steps.matches {α N} {p : PM (Option α)} {x r0 r1}
    (h : Steps N p x r0 r1) : Steps N («matches» p) x.isSome r0 r1 :=
  Steps.bind h (Steps.pure _ r1)

theorem Steps.orParse_left {α N} {p q : PM (Option α)} {a r0 r1}
    (h : Steps N p (some a) r0 r1) : Steps N (orParse p q) (some a) r0 r1 :=
  Steps.bind h (Steps.pure _ r1)

theorem Steps.orParse_right {α N} {p q : PM (Option α)} {x r0 r1}
    (h1 : Steps N p none r0 r0) (h2 : Steps N q x r0 r1) : Steps N (orParse p q) x r0 r1 :=
  Steps.bind h1 h2

/-! ### byte classes -/

def AllBlank (bl : VBytes) : Prop := ∀ b ∈ bl, isBlank b = true
/-- The text does not start with a blank. -/
def NB (r : VBytes) : Prop := ∀ b, r.head? = some b → isBlank b = false
/-- The text starts with the end of a word: blank, CR, LF or end of input. -/
def WE (r : VBytes) : Prop := isWordEnd r.head? = true
def AllDigit (ds : VBytes) : Prop := ∀ b ∈ ds, isDigit b = true
/-- The text does not start with a digit. -/
def ND (r : VBytes) : Prop := ∀ b, r.head? = some b → isDigit b = false
def IsEol (e : VBytes) : Prop := e = [10] ∨ e = [13, 10]

theorem NB.nil : NB [] := fun _ h => by simp at h
theorem WE.nil : WE [] := rfl

theorem WE.nd {r : VBytes} (h : WE r) : ND r := by
  intro b hb
  unfold WE at h
  rw [hb] at h
  unfold isWordEnd at h
  split at h <;> simp_all [isDigit] <;> decide

theorem WE.of_blank {bl r : VBytes} (hbl : AllBlank bl) (hne : bl ≠ []) : WE (bl ++ r) := by
  cases bl with
  | nil => exact absurd rfl hne
  | cons b t =>
    have hb := hbl b (by simp)
    simp only [isBlank, Bool.or_eq_true, beq_iff_eq] at hb
    unfold WE
    rcases hb with hb | hb <;> subst hb <;> rfl

theorem takeWhile_blank {bl rest : VBytes} (hbl : AllBlank bl) (hnb : NB rest) :
    (bl ++ rest).takeWhile isBlank = bl := by
  induction bl with
  | nil =>
    cases rest with
    | nil => rfl
    | cons b t => simp [hnb b rfl]
  | cons b bl ih =>
    simp only [List.cons_append, List.takeWhile, hbl b (by simp)]
    rw [ih (fun x hx => hbl x (by simp [hx]))]

theorem takeWhile_digit {ds rest : VBytes} (hds : AllDigit ds) (hnd : ND rest) :
    (ds ++ rest).takeWhile isDigit = ds := by
  induction ds with
  | nil =>
    cases rest with
    | nil => rfl
    | cons b t => simp [hnd b rfl]
  | cons b ds ih =>
    simp only [List.cons_append, List.takeWhile, hds b (by simp)]
    rw [ih (fun x hx => hds x (by simp [hx]))]

theorem takeWhile_noLF {body rest : VBytes} (hb : body.all (· != 10) = true) :
    (body ++ 10 :: rest).takeWhile (· != 10) = body := by
  induction body with
  | nil => simp
  | cons b body ih =>
    simp only [List.all_cons, Bool.and_eq_true] at hb
    simp only [List.cons_append, List.takeWhile, hb.1]
    rw [ih hb.2]

/-! ### scanners on known text -/

theorem tabs_eq (v : View) (off : Nat) {bl rest : VBytes} (h : v.rest.drop off = bl ++ rest)
    (hbl : AllBlank bl) (hnb : NB rest) :
    Text.tabsOrSpaces v off = (off + bl.length, v.demand (off + bl.length)) := by
  obtain ⟨h1, h2⟩ := C16.tabs_or_spaces_spec v off
  rw [h, takeWhile_blank hbl hnb] at h1 h2
  exact Prod.ext h1 h2

theorem fixed_eq (v : View) {pat rest : VBytes} (h : v.rest = pat ++ rest) (hne : pat ≠ []) :
    Text.fixed v 0 pat = (pat.length, v.demand (pat.length - 1)) := by
  obtain ⟨h1, _, _, h4, _⟩ := C16.fixed_spec v 0 pat
  have hp : pat <+: v.rest.drop 0 := by rw [List.drop_zero, h]; exact List.prefix_append _ _
  have a := h1 hp
  have b := h4 hne hp
  simp only [Nat.zero_add] at a b
  exact Prod.ext a b

theorem nextNewline_eq (v : View) (off : Nat) {body rest : VBytes}
    (h : v.rest.drop off = body ++ 10 :: rest) (hb : body.all (· != 10) = true) :
    Text.nextNewline v off = (off + body.length + 1, v.demand (off + body.length)) := by
  have hs := C16.next_newline_spec v off
  simp only at hs
  rw [h, takeWhile_noLF hb] at hs
  obtain ⟨h1, h2, _, _⟩ := hs
  have hget : v.rest[off + body.length]? = some 10 := by
    have : (v.rest.drop off)[body.length]? = some 10 := by rw [h]; simp
    simpa [List.getElem?_drop] using this
  exact Prod.ext (h2 hget) h1

theorem digits_eq (t : IntTy) (hb : 1 ≤ t.bits) (v : View) (off : Nat) {ds rest : VBytes}
    (h : v.rest.drop off = ds ++ rest) (hds : AllDigit ds) (hnd : ND rest) :
    (Text.asciiDigits t v off).1 =
      (if t.fits (Text.decVal ds : Nat) then some ((Text.decVal ds : Nat) : Int) else none,
        off + ds.length) := by
  have := C13.digits_exact t hb v off
  simp only at this
  rw [h, takeWhile_digit hds hnd] at this
  exact this

end Flussab.CnfP
