/-
Prefix simulation (`Proof/Sim.lean`) for the AIGER parsers (`Model/Aiger.lean`): header, section
readers, transition functions, symbol table, comment and both whole-file `parse()` functions
commute with extending the stream as long as their run does not see the end of the data.  The
loops whose fuel is computed from the length of the stream (`skipSymbols`, the symbol loop of
`parse()`) are related for different amounts of fuel.
-/
import Flussab.Proof.AigerSim

namespace Flussab
namespace Aiger
open PM

variable {q : VBytes} {lr : LR}

theorem checkedSub_c (site : String) (a b : Nat) : C q (checkedSub site a b) lr := by
  unfold checkedSub
  exact R2.ite (fun _ => R2.panic_left _ _) (fun _ => R2.pure _)

theorem checkedAdd_c (site : String) (a b : Nat) : C q (checkedAdd site a b) lr := by
  unfold checkedAdd
  exact R2.ite (fun _ => R2.panic_left _ _) (fun _ => R2.pure _)

theorem checkedMul_c (site : String) (a b : Nat) : C q (checkedMul site a b) lr := by
  unfold checkedMul
  exact R2.ite (fun _ => R2.panic_left _ _) (fun _ => R2.pure _)

/-! ### header -/

theorem headerOptional_c (h : Header) : C q (headerOptional h) lr := by
  unfold headerOptional
  refine R2.bind requiredNewlineOrSpace_c ?_
  intro c1 lr1
  split
  · exact R2.pure _
  · refine R2.bind (headerField_c _) ?_
    intro f1 lr2
    refine R2.bind requiredNewlineOrSpace_c ?_
    intro c2 lr3
    split
    · exact R2.pure _
    · refine R2.bind (headerField_c _) ?_
      intro f2 lr4
      refine R2.bind requiredNewlineOrSpace_c ?_
      intro c3 lr5
      split
      · exact R2.pure _
      · refine R2.bind (headerField_c _) ?_
        intro f3 lr6
        refine R2.bind requiredNewlineOrSpace_c ?_
        intro c4 lr7
        split
        · exact R2.pure _
        · refine R2.bind (headerField_c _) ?_
          intro f4 lr8
          exact R2.bind requiredNewline_c (fun _ _ => R2.pure _)

theorem Header.parse_c (bin : Bool) (l : LitTy) : C q (Header.parse bin l) lr := by
  unfold Header.parse
  refine R2.bind (orGiveUp_c (fixed_c _)) ?_
  intro _ lr1
  refine R2.bind requiredSpace_c ?_
  intro _ lr2
  refine R2.bind (headerField_c _) ?_
  intro m lr3
  refine R2.bind requiredSpace_c ?_
  intro _ lr4
  refine R2.bind (headerField_c _) ?_
  intro i lr5
  refine R2.bind (checkedSub_c _ _ _) ?_
  intro lim1 lr6
  refine R2.bind requiredSpace_c ?_
  intro _ lr7
  refine R2.bind (headerField_c _) ?_
  intro la lr8
  refine R2.bind (checkedSub_c _ _ _) ?_
  intro lim2 lr9
  refine R2.bind requiredSpace_c ?_
  intro _ lr10
  refine R2.bind (headerField_c _) ?_
  intro o lr11
  refine R2.bind requiredSpace_c ?_
  intro _ lr12
  refine R2.bind (headerField_c _) ?_
  intro a lr13
  exact headerOptional_c _

theorem Parser.new_c (bin : Bool) (l : LitTy) : C q (Parser.new bin l) lr := by
  unfold Parser.new
  refine R2.bind (Header.parse_c bin l) ?_
  intro h lr1
  refine R2.bind (checkedMul_c _ _ _) ?_
  intro m2 lr2
  refine R2.bind (checkedAdd_c _ _ _) ?_
  intro ml lr3
  exact R2.pure _

/-! ### section readers -/

theorem litLine_c (p : Parser) (assigning : Bool) : C q (litLine p assigning) lr := by
  unfold litLine
  refine R2.bind (lit_c _ _) ?_
  intro c lr1
  exact R2.bind requiredNewline_c (fun _ _ => R2.pure _)

theorem nextLit_c (assigning : Bool) (s : St) (lr : LR) : C q (nextLit assigning s) lr := by
  unfold nextLit
  split
  · exact R2.pure _
  · exact R2.bind (litLine_c _ _) (fun _ _ => R2.pure _)

theorem latchInit_c (p : Parser) (stateCode : Nat) : C q (latchInit p stateCode) lr := by
  unfold latchInit
  refine R2.bind (lit_c _ _) ?_
  intro c lr1
  refine R2.bind ?_ ?_
  · split
    · exact R2.pure _
    · split
      · exact R2.pure _
      · exact errorAtMark_c
  · intro init lr2
    exact R2.bind requiredNewline_c (fun _ _ => R2.pure _)

theorem latchReset_c (p : Parser) (stateCode : Nat) : C q (latchReset p stateCode) lr := by
  unfold latchReset
  refine R2.bind requiredNewlineOrSpace_c ?_
  intro c lr1
  split
  · exact latchInit_c _ _
  · exact R2.pure _

theorem nextLatchAscii_c (s : St) (lr : LR) : C q (nextLatchAscii s) lr := by
  unfold nextLatchAscii
  split
  · exact R2.pure _
  · refine R2.bind (lit_c _ _) ?_
    intro sc lr1
    refine R2.bind requiredSpace_c ?_
    intro _ lr2
    refine R2.bind (lit_c _ _) ?_
    intro nc lr3
    exact R2.bind (latchReset_c _ _) (fun _ _ => R2.pure _)

theorem nextLatchBin_c (s : St) (lr : LR) : C q (nextLatchBin s) lr := by
  unfold nextLatchBin
  split
  · exact R2.pure _
  · refine R2.bind (lit_c _ _) ?_
    intro nc lr1
    exact R2.bind (latchReset_c _ _) (fun _ _ => R2.pure _)

theorem nextJusticeSize_c (s : St) (lr : LR) : C q (nextJusticeSize s) lr := by
  unfold nextJusticeSize
  split
  · exact R2.pure _
  · refine R2.bind (checkedSub_c _ _ _) ?_
    intro lim lr1
    refine R2.bind (headerField_c _) ?_
    intro count lr2
    refine R2.bind requiredNewline_c ?_
    intro _ lr3
    exact R2.bind (checkedAdd_c _ _ _) (fun _ _ => R2.pure _)

theorem nextAndGateAscii_c (s : St) (lr : LR) : C q (nextAndGateAscii s) lr := by
  unfold nextAndGateAscii
  split
  · exact R2.pure _
  · refine R2.bind (lit_c _ _) ?_
    intro oc lr1
    refine R2.bind requiredSpace_c ?_
    intro _ lr2
    refine R2.bind (lit_c _ _) ?_
    intro c0 lr3
    refine R2.bind requiredSpace_c ?_
    intro _ lr4
    refine R2.bind (lit_c _ _) ?_
    intro c1 lr5
    exact R2.bind requiredNewline_c (fun _ _ => R2.pure _)

theorem nextAndGateBin_c (s : St) (lr : LR) : C q (nextAndGateBin s) lr := by
  unfold nextAndGateBin
  split
  · exact R2.pure _
  · refine R2.bind (deltaCode_c _) ?_
    intro c0 lr1
    exact R2.bind (deltaCode_c _) (fun _ _ => R2.pure _)

/-- The draining loop, possibly with more fuel on the right. -/
theorem whileSome_r2 {σ α : Type} {next : σ → PM (Option α × σ)}
    (hn : ∀ s lr, C q (next s) lr) (n n' : Nat) (h : n ≤ n') (s : σ) (acc : List α) :
    R2 q (whileSome next n s acc) (whileSome next n' s acc) lr := by
  induction n generalizing n' lr s acc with
  | zero => unfold whileSome; exact R2.panic_left _ _
  | succ n ih =>
    cases n' with
    | zero => omega
    | succ n' =>
      unfold whileSome
      refine R2.bind (hn s _) ?_
      intro r lr1
      obtain ⟨o, s'⟩ := r
      cases o with
      | some a => exact ih n' (by omega) _ _
      | none => exact R2.pure _

theorem whileSome_c {σ α : Type} {next : σ → PM (Option α × σ)}
    (hn : ∀ s lr, C q (next s) lr) (n : Nat) (s : σ) (acc : List α) :
    C q (whileSome next n s acc) lr := whileSome_r2 hn n n (Nat.le_refl _) s acc

theorem finish_c {α : Type} {next : St → PM (Option α × St)} (hn : ∀ s lr, C q (next s) lr)
    (s : St) : C q (finish next s) lr := by
  unfold finish
  exact R2.bind (whileSome_c hn _ _ _) (fun _ _ => R2.pure _)

/-! ### transitions -/

theorem toLatches_c (s : St) : C q (toLatches s) lr := by
  unfold toLatches
  refine R2.bind ?_ (fun _ _ => R2.pure _)
  split
  · exact R2.pure _
  · exact finish_c (nextLit_c true) s

theorem toOutputs_c (s : St) : C q (toOutputs s) lr := by
  unfold toOutputs
  refine R2.bind ?_ (fun _ _ => R2.pure _)
  split
  · exact finish_c nextLatchBin_c s
  · exact finish_c nextLatchAscii_c s

theorem toBad_c (s : St) : C q (toBad s) lr := by
  unfold toBad
  exact R2.bind (finish_c (nextLit_c false) s) (fun _ _ => R2.pure _)

theorem toConstraints_c (s : St) : C q (toConstraints s) lr := by
  unfold toConstraints
  exact R2.bind (finish_c (nextLit_c false) s) (fun _ _ => R2.pure _)

theorem toJusticeSizes_c (s : St) : C q (toJusticeSizes s) lr := by
  unfold toJusticeSizes
  exact R2.bind (finish_c (nextLit_c false) s) (fun _ _ => R2.pure _)

theorem toJusticeLits_c (s : St) : C q (toJusticeLits s) lr := by
  unfold toJusticeLits
  exact R2.bind (finish_c nextJusticeSize_c s) (fun _ _ => R2.pure _)

theorem toFairness_c (s : St) : C q (toFairness s) lr := by
  unfold toFairness
  exact R2.bind (finish_c (nextLit_c false) s) (fun _ _ => R2.pure _)

theorem toAndGates_c (s : St) : C q (toAndGates s) lr := by
  unfold toAndGates
  exact R2.bind (finish_c (nextLit_c false) s) (fun _ _ => R2.pure _)

theorem toSymbols_c (s : St) : C q (toSymbols s) lr := by
  unfold toSymbols
  refine R2.bind ?_ (fun _ _ => R2.pure _)
  split
  · exact finish_c nextAndGateBin_c s
  · exact finish_c nextAndGateAscii_c s

/-! ### symbols and comment -/

theorem symAlt_c (count : Nat) (c : UInt8) (notEol : Bool) : C q (symAlt count c notEol) lr := by
  unfold symAlt
  split
  · refine R2.bind ?_ ?_
    · split
      · exact fixedNotEol_c _
      · exact fixed_c _
    · intro r lr1
      split
      · refine R2.bind (checkedSub_c _ _ _) ?_
        intro lim lr2
        exact R2.bind (symbolIndex_c _) (fun _ _ => R2.pure _)
      · exact R2.pure _
  · exact R2.pure _

theorem symTarget_c (alts : List (SymKind × Nat × UInt8 × Bool)) : C q (symTarget alts) lr := by
  induction alts generalizing lr with
  | nil => unfold symTarget; exact R2.pure _
  | cons a alts ih =>
    obtain ⟨k, count, c, ne⟩ := a
    unfold symTarget
    refine R2.bind (symAlt_c _ _ _) ?_
    intro r lr1
    split
    · exact R2.pure _
    · exact ih

theorem nextSymbol_c (p : Parser) : C q (nextSymbol p) lr := by
  unfold nextSymbol
  refine R2.bind (symTarget_c _) ?_
  intro r lr1
  split
  · refine R2.bind requiredSpace_c ?_
    intro _ lr2
    exact R2.bind remainingLineContent_c (fun _ _ => R2.pure _)
  · exact R2.pure _

theorem skipSymbols_r2 (p : Parser) (n n' : Nat) (h : n ≤ n') :
    R2 q (skipSymbols p n) (skipSymbols p n') lr := by
  induction n generalizing n' lr with
  | zero => unfold skipSymbols; exact R2.panic_left _ _
  | succ n ih =>
    cases n' with
    | zero => omega
    | succ n' =>
      unfold skipSymbols
      refine R2.bind (nextSymbol_c p) ?_
      intro r lr1
      exact R2.ite (fun _ => ih n' (by omega)) (fun _ => R2.pure _)

theorem comment_c (p : Parser) : C q (comment p) lr := by
  unfold comment
  refine R2.get_bind ?_
  refine R2.bind (skipSymbols_r2 p _ _ (by rw [ext_rest_length]; omega)) ?_
  intro _ lr1
  refine R2.bind (fixed_c _) ?_
  intro r lr2
  split
  · refine R2.bind requiredNewline_c ?_
    intro _ lr3
    exact R2.bind remainingFileContent_c (fun _ _ => R2.pure _)
  · exact R2.bind (orGiveUp_c eof_c) (fun _ _ => R2.pure _)

/-! ### whole-file `parse()` -/

theorem justiceLitsLoop_c (sizes : List Nat) (n : Nat) (s : St) (js : List (List Nat)) (jp : Nat) :
    C q (justiceLitsLoop sizes n s js jp) lr := by
  induction n generalizing lr s js jp with
  | zero => unfold justiceLitsLoop; exact R2.panic_left _ _
  | succ n ih =>
    unfold justiceLitsLoop
    refine R2.bind (nextLit_c false s _) ?_
    intro r lr1
    obtain ⟨o, s'⟩ := r
    cases o with
    | none => exact R2.pure _
    | some c =>
      dsimp only
      split
      · exact R2.panic_left _ _
      · exact ih _ _ _

theorem parseMid_c (s : St) : C q (parseMid s) lr := by
  unfold parseMid
  refine R2.bind (toOutputs_c s) ?_
  intro s1 lr1
  refine R2.bind (whileSome_c (nextLit_c false) _ _ _) ?_
  intro r2 lr2
  refine R2.bind (toBad_c _) ?_
  intro s3 lr3
  refine R2.bind (whileSome_c (nextLit_c false) _ _ _) ?_
  intro r4 lr4
  refine R2.bind (toConstraints_c _) ?_
  intro s5 lr5
  refine R2.bind (whileSome_c (nextLit_c false) _ _ _) ?_
  intro r6 lr6
  refine R2.bind (toJusticeSizes_c _) ?_
  intro s7 lr7
  refine R2.bind (whileSome_c nextJusticeSize_c _ _ _) ?_
  intro r8 lr8
  refine R2.bind (toJusticeLits_c _) ?_
  intro s9 lr9
  refine R2.bind (justiceLitsLoop_c _ _ _ _ _) ?_
  intro r10 lr10
  refine R2.bind (toFairness_c _) ?_
  intro s11 lr11
  refine R2.bind (whileSome_c (nextLit_c false) _ _ _) ?_
  intro r12 lr12
  exact R2.pure _

theorem symStep_c (p : Parser) (u : Unit) (lr : LR) :
    C q ((fun (_ : Unit) => do pure (← nextSymbol p, ())) u : PM (Option Symbol × Unit)) lr :=
  R2.bind (nextSymbol_c p) (fun _ _ => R2.pure _)

theorem parseTail_c (p : Parser) : C q (parseTail p) lr := by
  unfold parseTail
  refine R2.get_bind ?_
  refine R2.bind (whileSome_r2 (symStep_c p) _ _ (by rw [ext_rest_length]; omega) _ _) ?_
  intro r lr1
  exact R2.bind (comment_c p) (fun _ _ => R2.pure _)

theorem parseAscii_c (p : Parser) : C q (parseAscii p) lr := by
  unfold parseAscii
  refine R2.bind (whileSome_c (nextLit_c true) _ _ _) ?_
  intro r1 lr1
  refine R2.bind (toLatches_c _) ?_
  intro s2 lr2
  refine R2.bind (whileSome_c nextLatchAscii_c _ _ _) ?_
  intro r3 lr3
  refine R2.bind (parseMid_c _) ?_
  intro r4 lr4
  refine R2.bind (toAndGates_c _) ?_
  intro s5 lr5
  refine R2.bind (whileSome_c nextAndGateAscii_c _ _ _) ?_
  intro r6 lr6
  refine R2.bind (toSymbols_c _) ?_
  intro p7 lr7
  exact R2.bind (parseTail_c _) (fun _ _ => R2.pure _)

theorem parseBinary_c (p : Parser) : C q (parseBinary p) lr := by
  unfold parseBinary
  refine R2.bind (toLatches_c _) ?_
  intro s2 lr2
  refine R2.bind (whileSome_c nextLatchBin_c _ _ _) ?_
  intro r3 lr3
  refine R2.bind (parseMid_c _) ?_
  intro r4 lr4
  refine R2.bind (toAndGates_c _) ?_
  intro s5 lr5
  refine R2.bind (whileSome_c nextAndGateBin_c _ _ _) ?_
  intro r6 lr6
  refine R2.bind (toSymbols_c _) ?_
  intro p7 lr7
  exact R2.bind (parseTail_c _) (fun _ _ => R2.pure _)

theorem parseAag_c (l : LitTy) : C q (parseAag l) lr := by
  unfold parseAag
  exact R2.bind (Parser.new_c false l) (fun p _ => parseAscii_c p)

theorem parseAig_c (l : LitTy) : C q (parseAig l) lr := by
  unfold parseAig
  exact R2.bind (Parser.new_c true l) (fun p _ => parseBinary_c p)

end Aiger
end Flussab
