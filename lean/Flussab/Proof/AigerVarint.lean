/-
The variable-length integers of the binary AIGER format (`write_binary_uint` / `binary_uint`):
the writer's encoding of every `n < 2^64` is read back exactly, with the cursor just behind it
(`binaryUint_write`), and whatever `binary_uint` returns is the value of the 1–10 bytes it
consumed (`binaryUint_exact`).
-/
import Flussab.Proof.AigerBasic

namespace Flussab
namespace Aiger
open PM

/-- The seven payload bits of a byte. -/
def low7 (b : UInt8) : Nat := (b &&& 0x7f).toNat

/-- Value of a little-endian list of 7-bit groups. -/
def leValue : VBytes → Nat
  | [] => 0
  | b :: bs => low7 b + 128 * leValue bs

/-- Value of a big-endian list of 7-bit groups. -/
def beValue : VBytes → Nat
  | [] => 0
  | b :: bs => low7 b * 128 ^ bs.length + beValue bs

/-- Continuation bit set on every byte but the last. -/
def Shape : VBytes → Prop
  | [] => False
  | [b] => (b &&& 0x80 == 0) = true
  | b :: b' :: bs => (b &&& 0x80 == 0) = false ∧ Shape (b' :: bs)

theorem low7_lo : ∀ x, x < 128 →
    low7 (UInt8.ofNat x) = x ∧ (UInt8.ofNat x &&& 0x80 == 0) = true := by decide

theorem low7_hi : ∀ x, x < 128 →
    low7 (UInt8.ofNat (x + 128)) = x ∧ (UInt8.ofNat (x + 128) &&& 0x80 == 0) = false := by decide

theorem low7_lt (b : UInt8) : low7 b < 128 := by
  unfold low7
  have : (b &&& 0x7f).toNat = b.toNat &&& 127 := by simp [UInt8.toNat_and]
  rw [this]
  exact Nat.lt_of_le_of_lt Nat.and_le_right (by decide)

theorem beValue_append (xs : VBytes) (b : UInt8) :
    beValue (xs ++ [b]) = beValue xs * 128 + low7 b := by
  induction xs with
  | nil => simp [beValue]
  | cons x xs ih =>
    simp only [List.cons_append, beValue, ih, List.length_append, List.length_cons, List.length_nil]
    rw [Nat.pow_succ, Nat.add_mul, Nat.mul_assoc]
    omega

theorem beValue_reverse (bs : VBytes) : beValue bs.reverse = leValue bs := by
  induction bs with
  | nil => rfl
  | cons b bs ih =>
    rw [List.reverse_cons, beValue_append, ih, leValue]
    omega

theorem mul128_or (a b : Nat) (h : b < 128) : (a * 128) ||| b = a * 128 + b := by
  have := Nat.shiftLeft_add_eq_or_of_lt (i := 7) (b := b) (by simpa using h) a
  simp only [Nat.shiftLeft_eq] at this
  exact this.symm

/-- The decoding loop of `binary_uint` on a big-endian group list: exact as long as the value
fits into 64 bits. -/
theorem binaryUintValue_fits (bs : VBytes) (v : Nat)
    (h : v * 128 ^ bs.length + beValue bs < 2 ^ 64) :
    binaryUintValue bs v = some (v * 128 ^ bs.length + beValue bs) := by
  induction bs generalizing v with
  | nil => simp [binaryUintValue, beValue]
  | cons b bs ih =>
    simp only [beValue, List.length_cons] at h ⊢
    have hp : 0 < 128 ^ bs.length := Nat.pow_pos (by decide)
    have hv : v * 128 < 2 ^ 64 := by
      have : v * 128 ≤ v * 128 ^ (bs.length + 1) := by
        rw [Nat.pow_succ, ← Nat.mul_assoc, Nat.mul_right_comm]
        exact Nat.le_mul_of_pos_right _ hp
      omega
    unfold binaryUintValue
    simp only [Nat.mod_eq_of_lt hv, Nat.mul_div_cancel _ (by decide : 0 < 128), bne_self_eq_false,
      Bool.false_eq_true, ↓reduceIte]
    have hl : (b &&& 0x7f).toNat = low7 b := rfl
    rw [hl, mul128_or _ _ (low7_lt b)]
    have e : (v * 128 + low7 b) * 128 ^ bs.length + beValue bs =
        v * 128 ^ (bs.length + 1) + (low7 b * 128 ^ bs.length + beValue bs) := by
      rw [Nat.add_mul, Nat.pow_succ, Nat.mul_assoc, Nat.mul_comm 128 (128 ^ bs.length)]
      omega
    rw [ih _ (by rw [e]; exact h), e]

/-- The decoding loop returns a value only if no intermediate result left 64 bits, and then it
is the value of the groups. -/
theorem binaryUintValue_some (bs : VBytes) (v r : Nat) (hv : v < 2 ^ 64)
    (h : binaryUintValue bs v = some r) : r = v * 128 ^ bs.length + beValue bs ∧ r < 2 ^ 64 := by
  induction bs generalizing v with
  | nil =>
    simp only [binaryUintValue, Option.some.injEq] at h
    simp [beValue, ← h, hv]
  | cons b bs ih =>
    unfold binaryUintValue at h
    simp only at h
    split at h
    · cases h
    · rename_i hne
      have hdiv : v * 128 % 2 ^ 64 / 128 = v := by simpa using hne
      have hm : v * 128 % 2 ^ 64 = v * 128 := by
        have h1 : v * 128 % 2 ^ 64 % 128 = 0 := by
          have : (2:Nat) ^ 64 = 128 * 2 ^ 57 := by decide
          rw [this, Nat.mod_mul_right_mod, Nat.mul_mod_left]
        have := Nat.div_add_mod (v * 128 % 2 ^ 64) 128
        omega
      have hl : (b &&& 0x7f).toNat = low7 b := rfl
      rw [hm, hl, mul128_or _ _ (low7_lt b)] at h
      have hlt : v * 128 + low7 b < 2 ^ 64 := by
        have := Nat.mod_lt (v * 128) (by decide : 0 < 2 ^ 64)
        have := low7_lt b
        have h57 : v * 128 % 2 ^ 64 % 128 = 0 := by
          have : (2:Nat) ^ 64 = 128 * 2 ^ 57 := by decide
          rw [this, Nat.mod_mul_right_mod, Nat.mul_mod_left]
        omega
      obtain ⟨h1, h2⟩ := ih _ hlt h
      refine ⟨?_, h2⟩
      rw [h1]
      simp only [beValue, List.length_cons]
      rw [Nat.add_mul, Nat.pow_succ, Nat.mul_assoc, Nat.mul_comm 128 (128 ^ bs.length)]
      omega

/-- What the writer's loop produces. -/
theorem writeBinaryUintAux_spec (f n : Nat) (h : n < 128 ^ f) (hf : 0 < f) :
    ∃ bs, writeBinaryUintAux f n = some bs ∧ bs.length ≤ f ∧ Shape bs ∧ leValue bs = n := by
  induction f generalizing n with
  | zero => omega
  | succ f ih =>
    unfold writeBinaryUintAux
    by_cases h0 : n / 128 = 0
    · have hn : n < 128 := by omega
      have hmod : n % 128 = n := Nat.mod_eq_of_lt hn
      simp only [h0, beq_self_eq_true, ↓reduceIte, hmod]
      refine ⟨[UInt8.ofNat n], rfl, by simp, (low7_lo n hn).2, ?_⟩
      simp [leValue, (low7_lo n hn).1]
    · have hlt : n / 128 < 128 ^ f := by
        rw [Nat.pow_succ] at h
        exact Nat.div_lt_of_lt_mul (by rw [Nat.mul_comm]; exact h)
      have hf' : 0 < f := by
        cases f with
        | zero => simp at hlt; omega
        | succ _ => omega
      obtain ⟨bs, hbs, hlen, hshape, hval⟩ := ih _ hlt hf'
      have hb : (n / 128 == 0) = false := by simpa using h0
      simp only [hb, Bool.false_eq_true, ↓reduceIte, hbs, Option.map_some]
      have hm : n % 128 < 128 := Nat.mod_lt _ (by decide)
      refine ⟨_, rfl, by simp; omega, ?_, ?_⟩
      · cases bs with
        | nil => exact absurd hshape (by simp [Shape])
        | cons b' bs' => exact ⟨(low7_hi _ hm).2, hshape⟩
      · simp only [leValue, (low7_hi _ hm).1, hval]
        have := Nat.div_add_mod n 128
        omega

theorem shape_ne_nil {bs : VBytes} (h : Shape bs) : bs ≠ [] := by
  cases bs with
  | nil => exact absurd h (by simp [Shape])
  | cons _ _ => simp

/-- `write_binary_uint` of a `usize`: 1 to 10 bytes, continuation bits as the format demands,
value preserved. -/
theorem writeBinaryUint_spec (n : Nat) (h : n < 2 ^ 64) :
    ∃ bs, writeBinaryUint n = some bs ∧ 1 ≤ bs.length ∧ bs.length ≤ 10 ∧ Shape bs ∧ leValue bs = n := by
  have h70 : n < 128 ^ 10 := Nat.lt_trans h (by decide)
  obtain ⟨bs, h1, h2, h3, h4⟩ := writeBinaryUintAux_spec 10 n h70 (by decide)
  refine ⟨bs, h1, ?_, h2, h3, h4⟩
  have := shape_ne_nil h3
  cases bs with
  | nil => exact absurd rfl this
  | cons _ _ => simp

/-! ### reading -/

/-- Demanding an existing byte only raises the look-ahead ghost. -/
theorem demand_lt (v : View) (k : Nat) (h : k < v.rest.length) :
    v.demand k = { v with peeked := max v.peeked (v.pos + k + 1) } := by
  unfold View.demand
  simp [h]

/-- State after `n` bytes at the cursor have been looked at (all of them exist). -/
def peekTo (lr : LR) (n : Nat) : LR :=
  { lr with v := { lr.v with peeked := max lr.v.peeked (lr.v.pos + n) } }

theorem peekTo_peekTo (lr : LR) (a b : Nat) (h : a ≤ b) : peekTo (peekTo lr a) b = peekTo lr b := by
  unfold peekTo
  simp only
  congr 2
  omega

theorem peekTo_zero_of (lr : LR) (h : lr.v.pos ≤ lr.v.peeked) : peekTo lr 0 = lr := by
  unfold peekTo
  have : max lr.v.peeked (lr.v.pos + 0) = lr.v.peeked := by omega
  rw [this]

/-- The length loop of `binary_uint` over a well-shaped encoding in front of the cursor. -/
theorem binaryUintLen_shape (bs : VBytes) (hs : Shape bs) :
    ∀ (fuel n : Nat) (lr : LR), bs.length < fuel → n + bs.length ≤ 10 →
      (∀ i, i < bs.length → lr.v.rest[n + i]? = bs[i]?) →
      (binaryUintLen fuel n).run lr = (.ok (n + bs.length), peekTo lr (n + bs.length)) := by
  induction bs with
  | nil => exact absurd hs (by simp [Shape])
  | cons b bs ih =>
    intro fuel n lr hf hn hr
    cases fuel with
    | zero => simp at hf
    | succ fuel =>
      unfold binaryUintLen
      have h0 := hr 0 (by simp)
      simp only [Nat.add_zero, List.getElem?_cons_zero] at h0
      have hlen : n < lr.v.rest.length := by
        have := List.getElem?_eq_some_iff.mp h0
        exact this.1
      simp only [run_bind, run_reqAt, h0]
      cases bs with
      | nil =>
        have hb : (b &&& 0x80 == 0) = true := hs
        simp only [hb, ↓reduceIte, run_pure, List.length_singleton]
        rw [demand_lt _ _ hlen]
        rfl
      | cons b' bs' =>
        obtain ⟨hb, hs'⟩ := hs
        have hn10 : ¬ (n + 1 == 10) = true := by
          simp only [List.length_cons] at hn; simp; omega
        simp only [hb, Bool.false_eq_true, ↓reduceIte, hn10]
        have hlr : ({ lr with v := lr.v.demand n } : LR) = peekTo lr (n + 1) := by
          rw [demand_lt _ _ hlen]; rfl
        rw [hlr]
        have := ih hs' fuel (n + 1) (peekTo lr (n + 1)) (by simp only [List.length_cons] at hf ⊢; omega)
          (by simp only [List.length_cons] at hn ⊢; omega)
          (by
            intro i hi
            have := hr (i + 1) (by simp only [List.length_cons] at hi ⊢; omega)
            simp only [List.getElem?_cons_succ] at this
            show lr.v.rest[n + 1 + i]? = _
            rw [← this]; congr 1; omega)
        rw [this, peekTo_peekTo _ _ _ (by simp)]
        simp only [List.length_cons]
        congr 2 <;> omega

/-- **Round trip of one varint**: on a stream that starts with the writer's encoding of `n`,
`binary_uint` returns `n` and leaves the cursor just behind the encoding; nothing beyond it has
been looked at. -/
theorem binaryUint_write (n : Nat) (hn : n < 2 ^ 64) (bs : VBytes) (hw : writeBinaryUint n = some bs)
    (lr : LR) (rest : VBytes) (hrest : lr.v.rest = bs ++ rest) :
    binaryUint.run lr = (.ok n,
      { lr with v := { lr.v with rest := rest, pos := lr.v.pos + bs.length,
                                 peeked := max lr.v.peeked (lr.v.pos + bs.length) } }) := by
  obtain ⟨bs', hw', h1, h10, hshape, hval⟩ := writeBinaryUint_spec n hn
  rw [hw] at hw'
  cases hw'
  unfold binaryUint
  have hidx : ∀ i, i < bs.length → lr.v.rest[0 + i]? = bs[i]? := by
    intro i hi
    rw [hrest, Nat.zero_add, List.getElem?_append_left hi]
  rw [run_bind, binaryUintLen_shape bs hshape 11 0 lr (by omega) (by omega) hidx]
  simp only [Nat.zero_add]
  have hdem : bs.length ≤ (peekTo lr bs.length).v.demanded := by
    unfold View.demanded peekTo
    simp only [hrest, List.length_append]
    omega
  have htake : (peekTo lr bs.length).v.rest.take bs.length = bs := by
    show lr.v.rest.take bs.length = bs
    rw [hrest, List.take_left']
    rfl
  have hbuf : (bufPrefix bs.length).run (peekTo lr bs.length) = (.ok bs, peekTo lr bs.length) := by
    unfold PM.bufPrefix
    simp only [run_bind, run_get, View.bufPrefix, hdem, ↓reduceIte, htake, run_pure]
  rw [run_bind, hbuf]
  have hv : binaryUintValue bs.reverse 0 = some n := by
    have := binaryUintValue_fits bs.reverse 0 (by rw [beValue_reverse, hval]; omega)
    rw [this, beValue_reverse, hval]; simp
  simp only [hv]
  unfold PM.advance
  simp only [run_bind, run_get, View.advance, hdem, ↓reduceIte, run_set, run_pure]
  have hdrop : lr.v.rest.drop bs.length = rest := by
    rw [hrest, List.drop_left']; rfl
  simp only [peekTo, hdrop]

end Aiger
end Flussab

namespace Flussab
namespace Aiger
open PM

theorem shape_cons_of_cont {b : UInt8} {bs : VBytes} (hb : (b &&& 0x80 == 0) = false) (hs : Shape bs) :
    Shape (b :: bs) := by
  cases bs with
  | nil => exact absurd hs (by simp [Shape])
  | cons b' bs' => exact ⟨hb, hs⟩

/-- Whenever the length loop of `binary_uint` returns, it has passed over a well-shaped group
list of at most 10 bytes and has looked at nothing else. -/
theorem binaryUintLen_returns :
    ∀ (fuel n : Nat) (lr : LR) (k : Nat) (lr1 : LR), n < 10 →
      (binaryUintLen fuel n).run lr = (.ok k, lr1) →
      ∃ bs, Shape bs ∧ k = n + bs.length ∧ k ≤ 10 ∧
        (∀ i, i < bs.length → lr.v.rest[n + i]? = bs[i]?) ∧ lr1 = peekTo lr k := by
  intro fuel
  induction fuel with
  | zero =>
    intro n lr k lr1 _ h
    unfold binaryUintLen at h
    rw [run_rpanic] at h; cases h
  | succ fuel ih =>
    intro n lr k lr1 hn h
    unfold binaryUintLen at h
    simp only [run_bind, run_reqAt] at h
    cases hb : lr.v.rest[n]? with
    | none =>
      rw [hb] at h
      exact absurd h (fails_unexpected _ _ _)
    | some byte =>
      rw [hb] at h
      have hlen : n < lr.v.rest.length := (List.getElem?_eq_some_iff.mp hb).1
      have hlr : ({ lr with v := lr.v.demand n } : LR) = peekTo lr (n + 1) := by
        rw [demand_lt _ _ hlen]; rfl
      simp only [hlr] at h
      by_cases hc : (byte &&& 0x80 == 0) = true
      · simp only [hc, ↓reduceIte, run_pure] at h
        cases h
        refine ⟨[byte], hc, rfl, by show n + 1 ≤ 10; omega, ?_, rfl⟩
        intro i hi
        have : i = 0 := by simpa using hi
        subst this
        simpa using hb
      · have hc' : (byte &&& 0x80 == 0) = false := by simpa using hc
        simp only [hc', Bool.false_eq_true, ↓reduceIte] at h
        by_cases h10 : (n + 1 == 10) = true
        · simp only [h10, ↓reduceIte] at h
          exact absurd h (fails_giveUp _ _ _)
        · simp only [h10, Bool.false_eq_true, ↓reduceIte] at h
          have hn' : n + 1 < 10 := by
            have : n + 1 ≠ 10 := by simpa using h10
            omega
          obtain ⟨bs, hs, hk, hk10, hidx, hst⟩ := ih (n + 1) _ k lr1 hn' h
          refine ⟨byte :: bs, shape_cons_of_cont hc' hs, by simp only [List.length_cons]; omega, hk10, ?_, ?_⟩
          · intro i hi
            cases i with
            | zero => simpa using hb
            | succ i =>
              have := hidx i (by simp only [List.length_cons] at hi; omega)
              simp only [List.getElem?_cons_succ]
              rw [← this]
              show lr.v.rest[n + (i + 1)]? = lr.v.rest[n + 1 + i]?
              congr 1; omega
          · rw [hst, peekTo_peekTo _ _ _ (by omega)]

theorem take_eq_of_getElem? (l bs : VBytes) (h : ∀ i, i < bs.length → l[i]? = bs[i]?) :
    l.take bs.length = bs := by
  induction bs generalizing l with
  | nil => simp
  | cons b bs ih =>
    cases l with
    | nil => have := h 0 (by simp); simp at this
    | cons x l =>
      have h0 := h 0 (by simp)
      simp only [List.getElem?_cons_zero, Option.some.injEq] at h0
      simp only [List.length_cons, List.take_succ_cons, h0, List.cons.injEq, true_and]
      apply ih
      intro i hi
      have := h (i + 1) (by simp only [List.length_cons]; omega)
      simpa using this

/-- **Exactness of a varint**: whenever `binary_uint` returns `n`, it has consumed exactly the
1–10 bytes `bs` at the cursor, these are a well-shaped group list (continuation bit on all but
the last), `n` is their value and fits into a `usize`; line bookkeeping and mark are untouched. -/
theorem binaryUint_exact (lr lr' : LR) (n : Nat) (h : binaryUint.run lr = (.ok n, lr')) :
    ∃ bs rest, lr.v.rest = bs ++ rest ∧ 1 ≤ bs.length ∧ bs.length ≤ 10 ∧ Shape bs ∧
      n = leValue bs ∧ n < 2 ^ 64 ∧ lr'.v.rest = rest ∧ lr'.v.pos = lr.v.pos + bs.length ∧
      lr'.line = lr.line ∧ lr'.lineStart = lr.lineStart ∧ lr'.v.mark = lr.v.mark := by
  unfold binaryUint at h
  rw [run_bind] at h
  rcases hl : (binaryUintLen 11 0).run lr with ⟨e | k, lr1⟩
  · rw [hl] at h; cases h
  · rw [hl] at h
    obtain ⟨bs, hs, hk, hk10, hidx, hst⟩ := binaryUintLen_returns 11 0 lr k lr1 (by decide) hl
    simp only [Nat.zero_add] at hk hidx
    subst hk
    have htake : lr.v.rest.take bs.length = bs := take_eq_of_getElem? _ _ hidx
    have hlen : bs.length ≤ lr.v.rest.length := by
      have := congrArg List.length htake
      simp only [List.length_take] at this
      omega
    have hdem : bs.length ≤ lr1.v.demanded := by
      rw [hst]
      unfold View.demanded peekTo
      simp only
      omega
    have hbuf : (bufPrefix bs.length).run lr1 = (.ok bs, lr1) := by
      unfold PM.bufPrefix
      simp only [run_bind, run_get, View.bufPrefix, hdem, ↓reduceIte, run_pure]
      rw [hst]
      show (Except.ok (lr.v.rest.take bs.length), _) = _
      rw [htake]
    simp only [run_bind, hbuf] at h
    cases hv : binaryUintValue bs.reverse 0 with
    | none =>
      rw [hv] at h
      exact absurd h (fails_giveUp _ _ _)
    | some value =>
      rw [hv] at h
      unfold PM.advance at h
      simp only [run_bind, run_get, View.advance, hdem, ↓reduceIte, run_set, run_pure] at h
      cases h
      obtain ⟨hval, hlt⟩ := binaryUintValue_some bs.reverse 0 n (by decide) hv
      rw [beValue_reverse] at hval
      have hne := shape_ne_nil hs
      refine ⟨bs, lr.v.rest.drop bs.length, ?_, ?_, hk10, hs, by omega, hlt, ?_, ?_, ?_, ?_, ?_⟩
      · have := (List.take_append_drop bs.length lr.v.rest).symm
        rw [htake] at this
        exact this
      · cases bs with
        | nil => exact absurd rfl hne
        | cons _ _ => simp
      all_goals (rw [hst]; rfl)

end Aiger
end Flussab

namespace Flussab
namespace Aiger
open PM

/-- The errors of `give_up_at` are the parked I/O error, a syntax error, or the column
underflow — never the fuel marker. -/
theorem giveUpAt_not_fuel {α : Type} (p : Nat) (lr lr' : LR) :
    (giveUpAt p : PM α).run lr ≠ (.error (.panic "fuel"), lr') := by
  intro h
  unfold giveUpAt at h
  simp only [run_bind, run_get, run_set] at h
  split at h
  · rw [run_throw] at h; cases h
  · split at h
    · rw [run_rpanic] at h
      have h1 := (Prod.mk.inj h).1
      injection h1 with h2
      injection h2 with h3
      exact absurd h3 (by decide)
    · rw [run_throw] at h; cases h

theorem giveUp_not_fuel {α : Type} (lr lr' : LR) :
    (giveUp : PM α).run lr ≠ (.error (.panic "fuel"), lr') := by
  intro h
  unfold giveUp at h
  simp only [run_bind, run_position] at h
  exact giveUpAt_not_fuel _ _ _ h

theorem unexpected_not_fuel {α : Type} (lr lr' : LR) :
    (unexpected : PM α).run lr ≠ (.error (.panic "fuel"), lr') := by
  intro h
  unfold unexpected at h
  simp only [run_bind, run_scan, run_get, run_reqAt, run_ite] at h
  split at h
  · exact giveUp_not_fuel _ _ h
  · split at h
    · exact giveUp_not_fuel _ _ h
    · exact giveUp_not_fuel _ _ h

/-- The length loop of `binary_uint` never runs out of its fuel (11 at the entry, `n = 0`): the
test `byte_len == 10` ends it first. -/
theorem binaryUintLen_no_fuel_panic (fuel n : Nat) (hn : n < 10) (hf : 10 - n < fuel) (lr lr' : LR) :
    (binaryUintLen fuel n).run lr ≠ (.error (.panic "fuel"), lr') := by
  induction fuel generalizing n lr with
  | zero => omega
  | succ fuel ih =>
    intro hr
    unfold binaryUintLen at hr
    simp only [run_bind, run_reqAt] at hr
    cases hb : lr.v.rest[n]? with
    | none =>
      simp only [hb] at hr
      exact unexpected_not_fuel _ _ hr
    | some byte =>
      simp only [hb] at hr
      split at hr
      · rw [run_pure] at hr; cases hr
      · split at hr
        · exact giveUp_not_fuel _ _ hr
        · rename_i h10
          have : n + 1 ≠ 10 := by simpa using h10
          exact ih (n + 1) (by omega) (by omega) _ hr

end Aiger
end Flussab
