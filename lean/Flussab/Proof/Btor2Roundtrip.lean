/-
`parse ∘ write = id` for BTOR2 lines: for every well-formed `Line` (`Line.wf`), `next_line` on the
bytes `Line::write_into` emits returns exactly that line.  Built from the exact token
specifications of `Proof/Btor2Exact.lean` and the keyword tables of `Proof/Btor2Tables.lean`.
-/
import Flussab.Proof.Btor2Exact
import Flussab.Proof.Btor2Tables

namespace Flussab
namespace Btor2
open PM
open Gen.Btor2 (UnaryOp BinaryOp TernaryOp AssignmentKind SingleValueOutputKind NodeToken
  NodeValueToken SortToken)

/-! ### the domain of the round trip -/

/-- A node id / sort id / bit width: a non-zero `u64` (`NonZeroU64`). -/
def idOk (x : Nat) : Bool := decide (0 < x) && decide (x < 2 ^ 64)
/-- An index / pad width: a `u64`. -/
def u64Ok (x : Nat) : Bool := decide (x < 2 ^ 64)

def Const.wf : Const → Bool
  | .binary s => binaryConstOk s
  | .decimal s => decimalConstOk s
  | .hex s => hexConstOk s
  | _ => true

def UnaryOp.wf : UnaryOp → Bool
  | .uext w => u64Ok w
  | .sext w => u64Ok w
  | .slice u l => u64Ok u && u64Ok l
  | _ => true

def Op.wf : Op → Bool
  | .unary op a0 => UnaryOp.wf op && idOk a0
  | .binary _ a0 a1 => idOk a0 && idOk a1
  | .ternary _ a0 a1 a2 => idOk a0 && idOk a1 && idOk a2

def ValueVariant.wf : ValueVariant → Bool
  | .const c => c.wf
  | .op o => o.wf
  | _ => true

/-- `justice` lines need at least one condition (the parser reads a positive count), and the
count must be a `u64`. -/
def NodeVariant.wf : NodeVariant → Bool
  | NodeVariant.sort (BSort.bitVec w) => idOk w
  | NodeVariant.sort (BSort.array d c) => idOk d && idOk c
  | NodeVariant.value srt v => idOk srt && v.wf
  | NodeVariant.assignment st srt _ val => idOk st && idOk srt && idOk val
  | NodeVariant.output (Output.singleValue _ val) => idOk val
  | NodeVariant.output (Output.justice nodes) =>
    !nodes.isEmpty && decide (nodes.length < 2 ^ 64) && nodes.all idOk

/-- A symbol the parser reads back: non-empty, no space or newline, not starting a comment. -/
def symbolOk (s : VBytes) : Bool :=
  !s.isEmpty && s.all (fun b => b != 10 && b != 32) && (s.head? != some 59)

/-- A comment the parser reads back: no newline. -/
def commentOk (c : VBytes) : Bool := c.all (· != 10)

def Node.wf (n : Node) : Bool :=
  idOk n.id && n.variant.wf && (match n.symbol with | some s => symbolOk s | none => true) &&
  (match n.comment with | some c => commentOk c | none => true)

/-- The domain of the round trip: what the public constructors allow (non-zero `u64` ids, constants
accepted by the `TryFrom` validators) minus what the text format cannot express (see above). -/
def Line.wf : Line → Bool
  | .comment c => commentOk c
  | .node n => n.wf

/-! ### step combinators -/

variable {E : PErr → LR → Prop} {lr : LR}

theorem Adv.cast {lr1 : LR} {n m : Nat} (a : Adv lr n lr1) (h : n = m) : Adv lr m lr1 := h ▸ a

theorem idOk_iff {x : Nat} : idOk x = true ↔ 0 < x ∧ x < 2 ^ 64 := by simp [idOk]
theorem u64Ok_iff {x : Nat} : u64Ok x = true ↔ x < 2 ^ 64 := by simp [u64Ok]

theorem term_not_digit {x : UInt8} (hx : x = 32 ∨ x = 10) : isDigit x = false := by
  rcases hx with h | h <;> subst h <;> rfl

variable {lr0 : LR} {n : Nat}

theorem step_space {β : Type} {k : PM β} {Q : β → LR → Prop} {T : VBytes} (a : Adv lr0 n lr)
    (hr : lr.v.rest = 32 :: T)
    (hk : ∀ lr1, Adv lr0 (n + 1) lr1 → lr1.v.rest = T → Wp E k lr1 Q) :
    Wp E (requiredSpace >>= fun _ => k) lr Q := by
  refine Wp.bind' (requiredSpace_exact hr) ?_
  intro _ lr1 a1
  exact hk lr1 (a.trans a1) (by rw [a1.rest, hr]; rfl)

theorem step_id {β : Type} {k : Nat → PM β} {Q : β → LR → Prop} (a : Adv lr0 n lr) (v : Nat)
    (hv : idOk v = true) {x : UInt8} {T : VBytes} (hr : lr.v.rest = natText v ++ x :: T)
    (hx : isDigit x = false)
    (hk : ∀ lr1, Adv lr0 (n + (natText v).length) lr1 → lr1.v.rest = x :: T → Wp E (k v) lr1 Q) :
    Wp E (requiredNodeId >>= k) lr Q := by
  obtain ⟨h0, h1⟩ := idOk_iff.mp hv
  refine Wp.bind' (requiredId_exact v h0 h1 hr hx) ?_
  intro r lr1 ⟨hres, a1⟩
  subst hres
  exact hk lr1 (a.trans a1) (a1.rest_of hr)

theorem step_nonneg {β : Type} {k : Nat → PM β} {Q : β → LR → Prop} (a : Adv lr0 n lr) (v : Nat)
    (hv : u64Ok v = true) {x : UInt8} {T : VBytes} (hr : lr.v.rest = natText v ++ x :: T)
    (hx : isDigit x = false)
    (hk : ∀ lr1, Adv lr0 (n + (natText v).length) lr1 → lr1.v.rest = x :: T → Wp E (k v) lr1 Q) :
    Wp E (requiredNonnegativeInt >>= k) lr Q := by
  refine Wp.bind' (requiredNonneg_exact v (u64Ok_iff.mp hv) hr hx) ?_
  intro r lr1 ⟨hres, a1⟩
  subst hres
  exact hk lr1 (a.trans a1) (a1.rest_of hr)

/-- `requiredSpace; requiredNodeId` — one ` <id>` argument. -/
theorem step_space_id {β : Type} {k : Nat → PM β} {Q : β → LR → Prop} (a : Adv lr0 n lr) (v : Nat)
    (hv : idOk v = true) {x : UInt8} {T : VBytes} (hr : lr.v.rest = 32 :: (natText v ++ x :: T))
    (hx : isDigit x = false)
    (hk : ∀ lr1, Adv lr0 (n + 1 + (natText v).length) lr1 → lr1.v.rest = x :: T → Wp E (k v) lr1 Q) :
    Wp E (requiredSpace >>= fun _ => requiredNodeId >>= k) lr Q :=
  step_space a hr (fun _ a1 r1 => step_id a1 v hv r1 hx hk)

theorem step_space_nonneg {β : Type} {k : Nat → PM β} {Q : β → LR → Prop} (a : Adv lr0 n lr) (v : Nat)
    (hv : u64Ok v = true) {x : UInt8} {T : VBytes} (hr : lr.v.rest = 32 :: (natText v ++ x :: T))
    (hx : isDigit x = false)
    (hk : ∀ lr1, Adv lr0 (n + 1 + (natText v).length) lr1 → lr1.v.rest = x :: T → Wp E (k v) lr1 Q) :
    Wp E (requiredSpace >>= fun _ => requiredNonnegativeInt >>= k) lr Q :=
  step_space a hr (fun _ a1 r1 => step_nonneg a1 v hv r1 hx hk)

/-- The node keyword: `name` (a run of `a..z` the table maps to `tok`) followed by a space. -/
theorem step_keyword {β : Type} {k : NodeToken → PM β} {Q : β → LR → Prop} (a : Adv lr0 n lr)
    {name : VBytes} {tok : NodeToken} {T : VBytes} (hr : lr.v.rest = name ++ 32 :: T)
    (hl : name.all isLower = true) (ht : Gen.Btor2.nodeToken name = some tok)
    (hk : ∀ lr1, Adv lr0 (n + name.length) lr1 → lr1.v.rest = 32 :: T → Wp E (k tok) lr1 Q) :
    Wp E (orGiveUp nodeToken unexpected >>= k) lr Q := by
  refine Wp.bind' (orGiveUp_exact (keywordToken_exact Gen.Btor2.nodeToken hr hl (by rfl) ht)) ?_
  intro r lr1 ⟨hres, a1⟩
  subst hres
  exact hk lr1 (a.trans a1) (a1.rest_of hr)

/-! ### keyword facts -/

/-- A keyword literal of the writer: the keyword (a run of `a..z` mapped to `tok`) and one space. -/
def KwSpec (kw : VBytes) (tok : NodeToken) : Prop :=
  kw = kw.dropLast ++ [32] ∧ kw.dropLast.all isLower = true ∧ Gen.Btor2.nodeToken kw.dropLast = some tok

theorem kw_constBinary : KwSpec Gen.Btor2.kwConstBinary (.value .const) := by unfold KwSpec; decide
theorem kw_constDecimal : KwSpec Gen.Btor2.kwConstDecimal (.value .constd) := by unfold KwSpec; decide
theorem kw_constHex : KwSpec Gen.Btor2.kwConstHex (.value .consth) := by unfold KwSpec; decide
theorem kw_constOne : KwSpec Gen.Btor2.kwConstOne (.value .one) := by unfold KwSpec; decide
theorem kw_constOnes : KwSpec Gen.Btor2.kwConstOnes (.value .ones) := by unfold KwSpec; decide
theorem kw_constZero : KwSpec Gen.Btor2.kwConstZero (.value .zero) := by unfold KwSpec; decide
theorem kw_input : KwSpec Gen.Btor2.kwValueVariantInput (.value .input) := by unfold KwSpec; decide
theorem kw_state : KwSpec Gen.Btor2.kwValueVariantState (.value .state) := by unfold KwSpec; decide
theorem kw_justice : KwSpec Gen.Btor2.kwOutputJustice .justice := by unfold KwSpec; decide
theorem kw_assignment (k : AssignmentKind) : KwSpec (Gen.Btor2.assignmentKindKw k) (.assignment k) := by
  cases k <;> (unfold KwSpec; decide)
theorem kw_output (k : SingleValueOutputKind) : KwSpec (Gen.Btor2.singleValueOutputKindKw k) (.output k) := by
  cases k <;> (unfold KwSpec; decide)

theorem unaryName_lower (op : UnaryOp) : (Gen.Btor2.unaryOpName op).all isLower = true := by
  cases op <;> (simp only [Gen.Btor2.unaryOpName]; decide)
theorem binaryName_lower (op : BinaryOp) : (Gen.Btor2.binaryOpName op).all isLower = true := by
  cases op <;> decide
theorem ternaryName_lower (op : TernaryOp) : (Gen.Btor2.ternaryOpName op).all isLower = true := by
  cases op <;> decide

/-! ### the node variants -/

theorem kwspec_split {kw : VBytes} {tok : NodeToken} (h : KwSpec kw tok) (T : VBytes) :
    kw ++ T = kw.dropLast ++ 32 :: T := by
  conv => lhs; rw [h.1]
  simp

theorem kwspec_length {kw : VBytes} {tok : NodeToken} (h : KwSpec kw tok) :
    kw.length = kw.dropLast.length + 1 := by
  conv => lhs; rw [h.1]
  simp

/-- A keyword literal (with its trailing space). -/
theorem step_kwlit {β : Type} {k : NodeToken → PM β} {Q : β → LR → Prop} (a : Adv lr0 n lr) {kw : VBytes}
    {tok : NodeToken} (hs : KwSpec kw tok) {T : VBytes} (hr : lr.v.rest = kw ++ T)
    (hk : ∀ lr1, Adv lr0 (n + kw.dropLast.length) lr1 → lr1.v.rest = 32 :: T → Wp E (k tok) lr1 Q) :
    Wp E (orGiveUp nodeToken unexpected >>= k) lr Q :=
  step_keyword a (by rw [hr]; exact kwspec_split hs T) hs.2.1 hs.2.2 hk

/-- An operator name (no trailing space in `name()`; the writer adds it). -/
theorem step_opname {β : Type} {k : NodeToken → PM β} {Q : β → LR → Prop} (a : Adv lr0 n lr) (op : Op)
    {T : VBytes} (hr : lr.v.rest = opName op ++ 32 :: T)
    (hk : ∀ lr1, Adv lr0 (n + (opName op).length) lr1 → lr1.v.rest = 32 :: T →
      Wp E (k (.value (Btor2Tables.opToken op))) lr1 Q) :
    Wp E (orGiveUp nodeToken unexpected >>= k) lr Q := by
  refine step_keyword a hr ?_ (Btor2Tables.keyword_roundtrip op) hk
  cases op with
  | unary op _ => exact unaryName_lower op
  | binary op _ _ => exact binaryName_lower op
  | ternary op _ _ _ => exact ternaryName_lower op

/-- The goal shape of all variant lemmas: read the node keyword and its arguments, then continue
with the variant and the state advanced by exactly the written text. -/
abbrev VariantGoal (E : PErr → LR → Prop) (lr0 : LR) (n : Nat) (lr : LR) (v : NodeVariant) (x : UInt8)
    (tl : VBytes) : Prop :=
  ∀ {β : Type} {k : NodeVariant → PM β} {Q : β → LR → Prop},
    (∀ lr1, Adv lr0 (n + (writeVariant v).length) lr1 → lr1.v.rest = x :: tl → Wp E (k v) lr1 Q) →
    Wp E (orGiveUp nodeToken unexpected >>= fun tok => nodeVariant tok >>= k) lr Q

theorem term_not_bin {x : UInt8} (hx : x = 32 ∨ x = 10) : isBinDigit x = false := by
  rcases hx with h | h <;> subst h <;> rfl
theorem term_not_hex {x : UInt8} (hx : x = 32 ∨ x = 10) : isHexDigit x = false := by
  rcases hx with h | h <;> subst h <;> rfl

/-- `const` / `constd` / `consth` / `one` / `ones` / `zero`. -/
theorem variant_const_exact (a : Adv lr0 n lr) (srt : Nat) (c : Const) (hs : idOk srt = true)
    (hc : c.wf = true) {x : UInt8} {tl : VBytes} (hx : x = 32 ∨ x = 10)
    (hr : lr.v.rest = writeVariant (.value srt (.const c)) ++ x :: tl) :
    VariantGoal E lr0 n lr (.value srt (.const c)) x tl := by
  intro β k Q hk
  cases c with
  | binary s =>
    simp only [writeVariant, writeValue, List.append_assoc, List.cons_append, List.nil_append] at hr hk
    simp only [Const.wf, binaryConstOk, Bool.and_eq_true, Bool.not_eq_true', List.isEmpty_eq_false_iff] at hc
    refine step_kwlit a kw_constBinary hr (fun lr1 a1 r1 => ?_)
    simp only [nodeVariant, valueVariant, bind_assoc, pure_bind]
    refine step_space_id a1 srt hs r1 (by rfl) (fun lr2 a2 r2 => ?_)
    refine step_space a2 r2 (fun lr3 a3 r3 => ?_)
    refine Wp.bind' (requiredConstant_exact binaryString r3 hc.1
      (scanWhile_exact isBinDigit lr3.v r3 hc.2 (term_not_bin hx))) ?_
    intro r lr4 ⟨hres, a4⟩
    subst hres
    refine hk lr4 ((a3.trans a4).cast ?_) (a4.rest_of r3)
    have := kwspec_length kw_constBinary
    simp only [List.length_append, List.length_cons]; omega
  | hex s =>
    simp only [writeVariant, writeValue, List.append_assoc, List.cons_append, List.nil_append] at hr hk
    simp only [Const.wf, hexConstOk, Bool.and_eq_true, Bool.not_eq_true', List.isEmpty_eq_false_iff] at hc
    refine step_kwlit a kw_constHex hr (fun lr1 a1 r1 => ?_)
    simp only [nodeVariant, valueVariant, bind_assoc, pure_bind]
    refine step_space_id a1 srt hs r1 (by rfl) (fun lr2 a2 r2 => ?_)
    refine step_space a2 r2 (fun lr3 a3 r3 => ?_)
    refine Wp.bind' (requiredConstant_exact hexString r3 hc.1
      (scanWhile_exact isHexDigit lr3.v r3 hc.2 (term_not_hex hx))) ?_
    intro r lr4 ⟨hres, a4⟩
    subst hres
    refine hk lr4 ((a3.trans a4).cast ?_) (a4.rest_of r3)
    have := kwspec_length kw_constHex
    simp only [List.length_append, List.length_cons]; omega
  | decimal s =>
    simp only [writeVariant, writeValue, List.append_assoc, List.cons_append, List.nil_append] at hr hk
    simp only [Const.wf] at hc
    have hne : s ≠ [] := by
      intro h; subst h; simp [decimalConstOk] at hc
    refine step_kwlit a kw_constDecimal hr (fun lr1 a1 r1 => ?_)
    simp only [nodeVariant, valueVariant, bind_assoc, pure_bind]
    refine step_space_id a1 srt hs r1 (by rfl) (fun lr2 a2 r2 => ?_)
    refine step_space a2 r2 (fun lr3 a3 r3 => ?_)
    refine Wp.bind' (requiredConstant_exact decimalString r3 hne
      (decimalString_exact lr3.v r3 hc (term_not_digit hx))) ?_
    intro r lr4 ⟨hres, a4⟩
    subst hres
    refine hk lr4 ((a3.trans a4).cast ?_) (a4.rest_of r3)
    have := kwspec_length kw_constDecimal
    simp only [List.length_append, List.length_cons]; omega
  | one =>
    simp only [writeVariant, writeValue, List.append_assoc] at hr hk
    refine step_kwlit a kw_constOne hr (fun lr1 a1 r1 => ?_)
    simp only [nodeVariant, valueVariant, bind_assoc, pure_bind]
    refine step_space_id a1 srt hs r1 (term_not_digit hx) (fun lr2 a2 r2 => ?_)
    refine hk lr2 (a2.cast ?_) r2
    have := kwspec_length kw_constOne
    simp only [List.length_append]; omega
  | ones =>
    simp only [writeVariant, writeValue, List.append_assoc] at hr hk
    refine step_kwlit a kw_constOnes hr (fun lr1 a1 r1 => ?_)
    simp only [nodeVariant, valueVariant, bind_assoc, pure_bind]
    refine step_space_id a1 srt hs r1 (term_not_digit hx) (fun lr2 a2 r2 => ?_)
    refine hk lr2 (a2.cast ?_) r2
    have := kwspec_length kw_constOnes
    simp only [List.length_append]; omega
  | zero =>
    simp only [writeVariant, writeValue, List.append_assoc] at hr hk
    refine step_kwlit a kw_constZero hr (fun lr1 a1 r1 => ?_)
    simp only [nodeVariant, valueVariant, bind_assoc, pure_bind]
    refine step_space_id a1 srt hs r1 (term_not_digit hx) (fun lr2 a2 r2 => ?_)
    refine hk lr2 (a2.cast ?_) r2
    have := kwspec_length kw_constZero
    simp only [List.length_append]; omega

/-- `input` / `state`. -/
theorem variant_input_exact (a : Adv lr0 n lr) (srt : Nat) (hs : idOk srt = true) {x : UInt8} {tl : VBytes}
    (hx : x = 32 ∨ x = 10) (hr : lr.v.rest = writeVariant (.value srt .input) ++ x :: tl) :
    VariantGoal E lr0 n lr (.value srt .input) x tl := by
  intro β k Q hk
  simp only [writeVariant, writeValue, List.append_assoc] at hr hk
  refine step_kwlit a kw_input hr (fun lr1 a1 r1 => ?_)
  simp only [nodeVariant, valueVariant, bind_assoc, pure_bind]
  refine step_space_id a1 srt hs r1 (term_not_digit hx) (fun lr2 a2 r2 => ?_)
  refine hk lr2 (a2.cast ?_) r2
  have := kwspec_length kw_input
  simp only [List.length_append]; omega

theorem variant_state_exact (a : Adv lr0 n lr) (srt : Nat) (hs : idOk srt = true) {x : UInt8} {tl : VBytes}
    (hx : x = 32 ∨ x = 10) (hr : lr.v.rest = writeVariant (.value srt .state) ++ x :: tl) :
    VariantGoal E lr0 n lr (.value srt .state) x tl := by
  intro β k Q hk
  simp only [writeVariant, writeValue, List.append_assoc] at hr hk
  refine step_kwlit a kw_state hr (fun lr1 a1 r1 => ?_)
  simp only [nodeVariant, valueVariant, bind_assoc, pure_bind]
  refine step_space_id a1 srt hs r1 (term_not_digit hx) (fun lr2 a2 r2 => ?_)
  refine hk lr2 (a2.cast ?_) r2
  have := kwspec_length kw_state
  simp only [List.length_append]; omega

set_option hygiene false in
/-- The proof script shared by the seven unary operators without indices. -/
local macro "plain_unary " op:term : tactic => `(tactic| (
  simp only [writeVariant, writeValue, writeIndices, List.append_assoc, List.cons_append,
    List.nil_append, List.append_nil] at hr hk
  refine step_opname a (.unary $op a0) hr (fun lr1 a1 r1 => ?_)
  simp only [Btor2Tables.opToken, Btor2Tables.unaryOpToken, nodeVariant, valueVariant, bind_assoc,
    pure_bind, Gen.Btor2.unaryOpTokenUnaryOp]
  refine step_space_id a1 srt hs r1 (by rfl) (fun lr2 a2 r2 => ?_)
  refine step_space_id a2 a0 ha r2 (term_not_digit hx) (fun lr3 a3 r3 => ?_)
  refine hk lr3 (a3.cast ?_) r3
  simp only [opName, List.length_append, List.length_cons]; omega))

/-- Unary operators: `uext` / `sext` (pad width), `slice` (two indices), and the seven plain ones. -/
theorem variant_unary_exact (a : Adv lr0 n lr) (srt a0 : Nat) (op : UnaryOp) (hs : idOk srt = true)
    (ha : idOk a0 = true) (hop : UnaryOp.wf op = true) {x : UInt8} {tl : VBytes} (hx : x = 32 ∨ x = 10)
    (hr : lr.v.rest = writeVariant (.value srt (.op (.unary op a0))) ++ x :: tl) :
    VariantGoal E lr0 n lr (.value srt (.op (.unary op a0))) x tl := by
  intro β k Q hk
  cases op
  case uext w =>
    simp only [writeVariant, writeValue, writeIndices, List.append_assoc, List.cons_append,
      List.nil_append] at hr hk
    simp only [UnaryOp.wf] at hop
    refine step_opname a (.unary (.uext w) a0) hr (fun lr1 a1 r1 => ?_)
    simp only [Btor2Tables.opToken, Btor2Tables.unaryOpToken, nodeVariant, valueVariant, bind_assoc,
      pure_bind, Gen.Btor2.extOpTokenUnaryOp]
    refine step_space_id a1 srt hs r1 (by rfl) (fun lr2 a2 r2 => ?_)
    refine step_space_id a2 a0 ha r2 (by rfl) (fun lr3 a3 r3 => ?_)
    refine step_space_nonneg a3 w hop r3 (term_not_digit hx) (fun lr4 a4 r4 => ?_)
    refine hk lr4 (a4.cast ?_) r4
    simp only [opName, List.length_append, List.length_cons]; omega
  case sext w =>
    simp only [writeVariant, writeValue, writeIndices, List.append_assoc, List.cons_append,
      List.nil_append] at hr hk
    simp only [UnaryOp.wf] at hop
    refine step_opname a (.unary (.sext w) a0) hr (fun lr1 a1 r1 => ?_)
    simp only [Btor2Tables.opToken, Btor2Tables.unaryOpToken, nodeVariant, valueVariant, bind_assoc,
      pure_bind, Gen.Btor2.extOpTokenUnaryOp]
    refine step_space_id a1 srt hs r1 (by rfl) (fun lr2 a2 r2 => ?_)
    refine step_space_id a2 a0 ha r2 (by rfl) (fun lr3 a3 r3 => ?_)
    refine step_space_nonneg a3 w hop r3 (term_not_digit hx) (fun lr4 a4 r4 => ?_)
    refine hk lr4 (a4.cast ?_) r4
    simp only [opName, List.length_append, List.length_cons]; omega
  case slice u l =>
    simp only [writeVariant, writeValue, writeIndices, List.append_assoc, List.cons_append,
      List.nil_append] at hr hk
    simp only [UnaryOp.wf, Bool.and_eq_true] at hop
    refine step_opname a (.unary (.slice u l) a0) hr (fun lr1 a1 r1 => ?_)
    simp only [Btor2Tables.opToken, Btor2Tables.unaryOpToken, nodeVariant, valueVariant, bind_assoc,
      pure_bind]
    refine step_space_id a1 srt hs r1 (by rfl) (fun lr2 a2 r2 => ?_)
    refine step_space_id a2 a0 ha r2 (by rfl) (fun lr3 a3 r3 => ?_)
    refine step_space_nonneg a3 u hop.1 r3 (by rfl) (fun lr4 a4 r4 => ?_)
    refine step_space_nonneg a4 l hop.2 r4 (term_not_digit hx) (fun lr5 a5 r5 => ?_)
    refine hk lr5 (a5.cast ?_) r5
    simp only [opName, List.length_append, List.length_cons]; omega
  case not => plain_unary UnaryOp.not
  case inc => plain_unary UnaryOp.inc
  case dec => plain_unary UnaryOp.dec
  case neg => plain_unary UnaryOp.neg
  case redand => plain_unary UnaryOp.redand
  case redor => plain_unary UnaryOp.redor
  case redxor => plain_unary UnaryOp.redxor

/-- Binary operators (all forty). -/
theorem variant_binary_exact (a : Adv lr0 n lr) (srt a0 a1 : Nat) (op : BinaryOp) (hs : idOk srt = true)
    (h0 : idOk a0 = true) (h1 : idOk a1 = true) {x : UInt8} {tl : VBytes} (hx : x = 32 ∨ x = 10)
    (hr : lr.v.rest = writeVariant (.value srt (.op (.binary op a0 a1))) ++ x :: tl) :
    VariantGoal E lr0 n lr (.value srt (.op (.binary op a0 a1))) x tl := by
  intro β k Q hk
  simp only [writeVariant, writeValue, List.append_assoc, List.cons_append, List.nil_append] at hr hk
  refine step_opname a (.binary op a0 a1) hr (fun lr1 b1 r1 => ?_)
  simp only [Btor2Tables.opToken, nodeVariant, valueVariant, bind_assoc, pure_bind]
  refine step_space_id b1 srt hs r1 (by rfl) (fun lr2 b2 r2 => ?_)
  refine step_space_id b2 a0 h0 r2 (by rfl) (fun lr3 b3 r3 => ?_)
  refine step_space_id b3 a1 h1 r3 (term_not_digit hx) (fun lr4 b4 r4 => ?_)
  refine hk lr4 (b4.cast ?_) r4
  simp only [opName, List.length_append, List.length_cons]; omega

/-- Ternary operators. -/
theorem variant_ternary_exact (a : Adv lr0 n lr) (srt a0 a1 a2 : Nat) (op : TernaryOp)
    (hs : idOk srt = true) (h0 : idOk a0 = true) (h1 : idOk a1 = true) (h2 : idOk a2 = true) {x : UInt8}
    {tl : VBytes} (hx : x = 32 ∨ x = 10)
    (hr : lr.v.rest = writeVariant (.value srt (.op (.ternary op a0 a1 a2))) ++ x :: tl) :
    VariantGoal E lr0 n lr (.value srt (.op (.ternary op a0 a1 a2))) x tl := by
  intro β k Q hk
  simp only [writeVariant, writeValue, List.append_assoc, List.cons_append, List.nil_append] at hr hk
  refine step_opname a (.ternary op a0 a1 a2) hr (fun lr1 b1 r1 => ?_)
  simp only [Btor2Tables.opToken, nodeVariant, valueVariant, bind_assoc, pure_bind]
  refine step_space_id b1 srt hs r1 (by rfl) (fun lr2 b2 r2 => ?_)
  refine step_space_id b2 a0 h0 r2 (by rfl) (fun lr3 b3 r3 => ?_)
  refine step_space_id b3 a1 h1 r3 (by rfl) (fun lr4 b4 r4 => ?_)
  refine step_space_id b4 a2 h2 r4 (term_not_digit hx) (fun lr5 b5 r5 => ?_)
  refine hk lr5 (b5.cast ?_) r5
  simp only [opName, List.length_append, List.length_cons]; omega

/-- `init` / `next`. -/
theorem variant_assignment_exact (a : Adv lr0 n lr) (st srt val : Nat) (kind : AssignmentKind)
    (h0 : idOk st = true) (h1 : idOk srt = true) (h2 : idOk val = true) {x : UInt8} {tl : VBytes}
    (hx : x = 32 ∨ x = 10)
    (hr : lr.v.rest = writeVariant (.assignment st srt kind val) ++ x :: tl) :
    VariantGoal E lr0 n lr (.assignment st srt kind val) x tl := by
  intro β k Q hk
  simp only [writeVariant, List.append_assoc, List.cons_append, List.nil_append] at hr hk
  refine step_kwlit a (kw_assignment kind) hr (fun lr1 b1 r1 => ?_)
  simp only [nodeVariant, bind_assoc, pure_bind]
  refine step_space_id b1 srt h1 r1 (by rfl) (fun lr2 b2 r2 => ?_)
  refine step_space_id b2 st h0 r2 (by rfl) (fun lr3 b3 r3 => ?_)
  refine step_space_id b3 val h2 r3 (term_not_digit hx) (fun lr4 b4 r4 => ?_)
  refine hk lr4 (b4.cast ?_) r4
  have := kwspec_length (kw_assignment kind)
  simp only [List.length_append, List.length_cons]; omega

/-- `output` / `bad` / `constraint` / `fair`. -/
theorem variant_output_exact (a : Adv lr0 n lr) (val : Nat) (kind : SingleValueOutputKind)
    (h0 : idOk val = true) {x : UInt8} {tl : VBytes} (hx : x = 32 ∨ x = 10)
    (hr : lr.v.rest = writeVariant (.output (.singleValue kind val)) ++ x :: tl) :
    VariantGoal E lr0 n lr (.output (.singleValue kind val)) x tl := by
  intro β k Q hk
  simp only [writeVariant, List.append_assoc] at hr hk
  refine step_kwlit a (kw_output kind) hr (fun lr1 b1 r1 => ?_)
  simp only [nodeVariant, bind_assoc, pure_bind]
  refine step_space_id b1 val h0 r1 (term_not_digit hx) (fun lr2 b2 r2 => ?_)
  refine hk lr2 (b2.cast ?_) r2
  have := kwspec_length (kw_output kind)
  simp only [List.length_append]; omega

/-! ### sorts -/

def sortName : VBytes := [115, 111, 114, 116]
def bitvecName : VBytes := [98, 105, 116, 118, 101, 99]
def arrayName : VBytes := [97, 114, 114, 97, 121]

theorem kwSortBitVec_eq : Gen.Btor2.kwSortBitVec = sortName ++ 32 :: (bitvecName ++ [32]) := by decide
theorem kwSortArray_eq : Gen.Btor2.kwSortArray = sortName ++ 32 :: (arrayName ++ [32]) := by decide

/-- `sort bitvec <width>` / `sort array <domain> <codomain>`. -/
theorem variant_sort_exact (a : Adv lr0 n lr) (s : BSort) (hs : (NodeVariant.sort s).wf = true) {x : UInt8}
    {tl : VBytes} (hx : x = 32 ∨ x = 10) (hr : lr.v.rest = writeVariant (.sort s) ++ x :: tl) :
    VariantGoal E lr0 n lr (.sort s) x tl := by
  intro β k Q hk
  cases s with
  | bitVec w =>
    simp only [NodeVariant.wf] at hs
    simp only [writeVariant, kwSortBitVec_eq, List.append_assoc, List.cons_append, List.nil_append] at hr hk
    refine step_keyword a (tok := NodeToken.sort) hr (by decide) (by decide) (fun lr1 a1 r1 => ?_)
    simp only [nodeVariant, bind_assoc]
    refine step_space a1 r1 (fun lr2 a2 r2 => ?_)
    refine Wp.bind' (orGiveUp_exact (keywordToken_exact Gen.Btor2.sortToken r2 (by decide) (by rfl)
      (t := SortToken.bitvec) (by decide))) ?_
    intro r lr3 ⟨hres, a3⟩
    subst hres
    have r3 := a3.rest_of r2
    simp only [bind_assoc, pure_bind]
    refine step_space_id (a2.trans a3) w hs r3 (term_not_digit hx) (fun lr4 a4 r4 => ?_)
    refine hk lr4 (a4.cast ?_) r4
    simp only [sortName, bitvecName, List.length_append, List.length_cons, List.length_nil]; omega
  | array d c =>
    simp only [NodeVariant.wf, Bool.and_eq_true] at hs
    simp only [writeVariant, kwSortArray_eq, List.append_assoc, List.cons_append, List.nil_append] at hr hk
    refine step_keyword a (tok := NodeToken.sort) hr (by decide) (by decide) (fun lr1 a1 r1 => ?_)
    simp only [nodeVariant, bind_assoc]
    refine step_space a1 r1 (fun lr2 a2 r2 => ?_)
    refine Wp.bind' (orGiveUp_exact (keywordToken_exact Gen.Btor2.sortToken r2 (by decide) (by rfl)
      (t := SortToken.array) (by decide))) ?_
    intro r lr3 ⟨hres, a3⟩
    subst hres
    have r3 := a3.rest_of r2
    simp only [bind_assoc, pure_bind]
    refine step_space_id (a2.trans a3) d hs.1 r3 (by rfl) (fun lr4 a4 r4 => ?_)
    refine step_space_id a4 c hs.2 r4 (term_not_digit hx) (fun lr5 a5 r5 => ?_)
    refine hk lr5 (a5.cast ?_) r5
    simp only [sortName, arrayName, List.length_append, List.length_cons, List.length_nil]; omega

/-! ### `justice` -/

/-- The conditions of a `justice` line as written: ` <id>` each. -/
def idsText (ns : List Nat) : VBytes := (ns.map fun n => [32] ++ natText n).flatten

theorem idsText_cons (m : Nat) (ms : List Nat) : idsText (m :: ms) = 32 :: (natText m ++ idsText ms) := by
  simp [idsText]

theorem idsText_length_ge (ns : List Nat) : ns.length ≤ (idsText ns).length := by
  induction ns with
  | nil => simp [idsText]
  | cons m ms ih => rw [idsText_cons]; simp only [List.length_cons, List.length_append]; omega

/-- What follows a number inside the id list: a space or the terminator — never a digit. -/
theorem idsText_head (ms : List Nat) (x : UInt8) (tl : VBytes) (hx : x = 32 ∨ x = 10) :
    ∃ y T, idsText ms ++ x :: tl = y :: T ∧ isDigit y = false := by
  cases ms with
  | nil => exact ⟨x, tl, by simp [idsText], term_not_digit hx⟩
  | cons m ms => exact ⟨32, _, by rw [idsText_cons]; rfl, by rfl⟩

/-- The `for _ in 0..count` loop on `count` written ids. -/
theorem justiceLoop_exact (ns : List Nat) : ∀ (n : Nat) (lr : LR) (acc : List Nat) (fuel : Nat),
    Adv lr0 n lr → ns.all idOk = true → ns.length < fuel → ∀ {x : UInt8} {tl : VBytes}, (x = 32 ∨ x = 10) →
    lr.v.rest = idsText ns ++ x :: tl →
    Wp E (justiceLoop fuel ns.length acc) lr (fun r lr1 => r = acc.reverse ++ ns ∧
      Adv lr0 (n + (idsText ns).length) lr1 ∧ lr1.v.rest = x :: tl) := by
  induction ns with
  | nil =>
    intro n lr acc fuel a _ hf x tl _ hr
    cases fuel with
    | zero => omega
    | succ f =>
      simp only [justiceLoop, List.length_nil, beq_self_eq_true, ↓reduceIte]
      exact Wp.pure ⟨by simp, by simpa [idsText] using a, by simpa [idsText] using hr⟩
  | cons m ms ih =>
    intro n lr acc fuel a hall hf x tl hx hr
    simp only [List.all_cons, Bool.and_eq_true] at hall
    cases fuel with
    | zero => omega
    | succ f =>
      obtain ⟨y, T, hy, hyd⟩ := idsText_head ms x tl hx
      rw [idsText_cons, List.cons_append, List.append_assoc, hy] at hr
      have hne : (List.length (m :: ms) == 0) = false := by simp
      rw [justiceLoop]
      simp only [hne, Bool.false_eq_true, ↓reduceIte]
      refine step_space_id a m hall.1 hr hyd (fun lr2 a2 r2 => ?_)
      have hlen : (m :: ms).length - 1 = ms.length := by simp
      rw [hlen]
      refine (ih _ lr2 (m :: acc) f a2 hall.2 (by simp at hf; omega) hx (by rw [r2, hy])).mono ?_
      intro r lr3 ⟨hres, a3, r3⟩
      refine ⟨by rw [hres]; simp, a3.cast ?_, r3⟩
      rw [idsText_cons]; simp only [List.length_cons, List.length_append]; omega

/-- `justice <count> <id>…`. -/
theorem variant_justice_exact (a : Adv lr0 n lr) (ns : List Nat)
    (hs : (NodeVariant.output (.justice ns)).wf = true) {x : UInt8} {tl : VBytes} (hx : x = 32 ∨ x = 10)
    (hr : lr.v.rest = writeVariant (.output (.justice ns)) ++ x :: tl) :
    VariantGoal E lr0 n lr (.output (.justice ns)) x tl := by
  intro β k Q hk
  simp only [NodeVariant.wf, Bool.and_eq_true, Bool.not_eq_true', List.isEmpty_eq_false_iff,
    decide_eq_true_eq] at hs
  obtain ⟨⟨hne, hlen⟩, hall⟩ := hs
  have hcount : idOk ns.length = true := by
    rw [idOk_iff]; exact ⟨List.length_pos_iff.mpr hne, hlen⟩
  have htext : writeVariant (.output (.justice ns)) = Gen.Btor2.kwOutputJustice ++ (natText ns.length ++ idsText ns) := by
    simp [writeVariant, idsText]
  rw [htext] at hr hk
  simp only [List.append_assoc] at hr
  obtain ⟨y, T, hy, hyd⟩ := idsText_head ns x tl hx
  rw [hy] at hr
  refine step_kwlit a kw_justice hr (fun lr1 a1 r1 => ?_)
  simp only [nodeVariant, bind_assoc]
  refine step_space_id a1 ns.length hcount r1 hyd (fun lr2 a2 r2 => ?_)
  refine Wp.bind (Wp.get ?_)
  have hfuel : ns.length < lr2.v.rest.length + 2 := by
    rw [r2, ← hy]
    have := idsText_length_ge ns
    simp only [List.length_append, List.length_cons]; omega
  refine Wp.bind' (justiceLoop_exact ns _ lr2 [] _ a2 hall hfuel hx (by rw [r2, hy])) ?_
  intro r lr3 ⟨hres, a3, r3⟩
  simp only [List.reverse_nil, List.nil_append] at hres
  subst hres
  simp only [pure_bind]
  refine hk lr3 (a3.cast ?_) r3
  have := kwspec_length kw_justice
  simp only [List.length_append]; omega

/-- Every well-formed variant: the node keyword and its arguments are read back exactly. -/
theorem variant_exact (a : Adv lr0 n lr) (v : NodeVariant) (hwf : v.wf = true) {x : UInt8} {tl : VBytes}
    (hx : x = 32 ∨ x = 10) (hr : lr.v.rest = writeVariant v ++ x :: tl) :
    VariantGoal E lr0 n lr v x tl := by
  intro β k Q hk
  cases v with
  | sort s => exact variant_sort_exact a s hwf hx hr hk
  | value srt vv =>
    simp only [NodeVariant.wf, Bool.and_eq_true] at hwf
    cases vv with
    | const c => exact variant_const_exact a srt c hwf.1 hwf.2 hx hr hk
    | input => exact variant_input_exact a srt hwf.1 hx hr hk
    | state => exact variant_state_exact a srt hwf.1 hx hr hk
    | op o =>
      have ho : o.wf = true := hwf.2
      cases o with
      | unary op a0 =>
        simp only [Op.wf, Bool.and_eq_true] at ho
        exact variant_unary_exact a srt a0 op hwf.1 ho.2 ho.1 hx hr hk
      | binary op a0 a1 =>
        simp only [Op.wf, Bool.and_eq_true] at ho
        exact variant_binary_exact a srt a0 a1 op hwf.1 ho.1 ho.2 hx hr hk
      | ternary op a0 a1 a2 =>
        simp only [Op.wf, Bool.and_eq_true] at ho
        exact variant_ternary_exact a srt a0 a1 a2 op hwf.1 ho.1.1 ho.1.2 ho.2 hx hr hk
  | assignment st srt kind val =>
    simp only [NodeVariant.wf, Bool.and_eq_true] at hwf
    exact variant_assignment_exact a st srt val kind hwf.1.1 hwf.1.2 hwf.2 hx hr hk
  | output o =>
    cases o with
    | singleValue kind val => exact variant_output_exact a val kind hwf hx hr hk
    | justice ns => exact variant_justice_exact a ns hwf hx hr hk

/-! ### the end of a line -/

/-- The state after `n` more bytes of which the last one was the line's newline (`nl`) or not. -/
structure LineEnd (lr : LR) (n : Nat) (nl : Bool) (lr1 : LR) : Prop where
  rest : lr1.v.rest = lr.v.rest.drop n
  pos : lr1.v.pos = lr.v.pos + n
  fault : lr1.v.fault = lr.v.fault
  sawEnd : lr1.v.sawEnd = lr.v.sawEnd
  ioErr : lr1.v.ioErr = lr.v.ioErr
  line : lr1.line = lr.line + (if nl then 1 else 0)
  lineStart : lr1.lineStart = if nl then lr.v.pos + n else lr.lineStart

theorem LineEnd.of_adv {lr1 : LR} {n : Nat} (a : Adv lr n lr1) : LineEnd lr n false lr1 :=
  ⟨a.rest, a.pos, a.fault, a.sawEnd, a.ioErr, by simpa using a.line, by simpa using a.lineStart⟩

theorem LineEnd.of_newline {mid lr1 : LR} {n : Nat} (a : Adv lr n mid) (h : NextLine mid lr1) :
    LineEnd lr (n + 1) true lr1 :=
  ⟨by rw [h.rest, a.rest, List.drop_drop], by rw [h.pos, a.pos]; omega, h.fault.trans a.fault,
   h.sawEnd.trans a.sawEnd, h.ioErr.trans a.ioErr, by simp [h.line, a.line],
   by simp only [↓reduceIte]; rw [h.lineStart, a.pos]; omega⟩

theorem LineEnd.cast' {lr1 : LR} {n m : Nat} {nl : Bool} (h : LineEnd lr n nl lr1) (e : n = m) :
    LineEnd lr m nl lr1 := e ▸ h

/-- What `Node::write_into` emits after the variant (without the comment body), and the newline
when the line has no comment. -/
def trailerText (sym : Option VBytes) (hasComment : Bool) : VBytes :=
  (match sym with | some s => [32] ++ s | none => []) ++ (if hasComment then [32, 59] else [10])

/-- The `(symbol, comment)` tail of `try_node` on what the writer emits. -/
theorem trailer_exact (a : Adv lr0 n lr) (sym : Option VBytes) (hc : Bool)
    (hsym : ∀ s, sym = some s → symbolOk s = true) {T : VBytes}
    (hr : lr.v.rest = trailerText sym hc ++ T)
    (h1 : lr0.line + 1 ≤ usizeMax) (h2 : lr0.v.pos + n + (trailerText sym hc).length ≤ usizeMax) :
    Wp E trailer lr (fun r lr1 => r = (sym, hc) ∧ LineEnd lr0 (n + (trailerText sym hc).length) (!hc) lr1) := by
  unfold trailer
  cases sym with
  | none =>
    cases hc with
    | true =>
      -- " ;"
      simp only [trailerText, List.nil_append, ↓reduceIte, List.cons_append, List.length_cons,
        List.length_nil] at hr h2 ⊢
      refine Wp.bind' (space_some hr) ?_
      intro r lr1 ⟨hres, a1⟩
      subst hres
      refine Wp.bind' (commentStart_some (a1.rest_of (t := [32]) hr)) ?_
      intro r lr2 ⟨hres, a2⟩
      subst hres
      exact Wp.pure ⟨rfl, by simpa using LineEnd.of_adv ((a.trans a1).trans a2)⟩
    | false =>
      -- "\n"
      simp only [trailerText, List.nil_append, Bool.false_eq_true, ↓reduceIte, List.cons_append,
        List.length_cons, List.length_nil] at hr h2 ⊢
      refine Wp.bind' (space_none hr (by decide)) ?_
      intro r lr1 ⟨hres, a1⟩
      subst hres
      have r1 : lr1.v.rest = 10 :: T := by rw [a1.rest, hr]; rfl
      have b1 := a.trans a1
      refine Wp.bind' (newline_some r1 (by rw [b1.line]; exact h1) (by rw [b1.pos]; omega)) ?_
      intro r lr2 ⟨hres, nl⟩
      subst hres
      exact Wp.pure ⟨rfl, by simpa using LineEnd.of_newline b1 nl⟩
  | some s =>
    have hs := hsym s rfl
    simp only [symbolOk, Bool.and_eq_true, Bool.not_eq_true', List.isEmpty_eq_false_iff, bne_iff_ne,
      ne_eq] at hs
    obtain ⟨⟨hne, hall⟩, hhead⟩ := hs
    obtain ⟨c0, cs, hcs⟩ : ∃ c0 cs, s = c0 :: cs := by
      cases s with
      | nil => exact absurd rfl hne
      | cons c0 cs => exact ⟨c0, cs, rfl⟩
    have hc0 : c0 ≠ 59 := by rw [hcs] at hhead; simpa using hhead
    cases hc with
    | true =>
      -- " sym ;"
      simp only [trailerText, ↓reduceIte, List.cons_append, List.nil_append, List.append_assoc,
        List.length_cons, List.length_append, List.length_nil] at hr h2 ⊢
      refine Wp.bind' (space_some hr) ?_
      intro r lr1 ⟨hres, a1⟩
      subst hres
      have r1 : lr1.v.rest = s ++ 32 :: 59 :: T := a1.rest_of (t := [32]) hr
      dsimp only
      refine Wp.bind' (commentStart_none (x := c0) (by rw [r1, hcs]; rfl) hc0) ?_
      intro r lr2 ⟨hres, a2⟩
      subst hres
      have r2 : lr2.v.rest = s ++ 32 :: 59 :: T := by rw [a2.rest, r1]; rfl
      dsimp only
      refine Wp.bind' (symbolName_exact r2 hne hall (Or.inl rfl)) ?_
      intro r lr3 ⟨hres, a3⟩
      subst hres
      have r3 := a3.rest_of r2
      dsimp only
      refine Wp.bind' (space_some r3) ?_
      intro r lr4 ⟨hres, a4⟩
      subst hres
      have r4 : lr4.v.rest = 59 :: T := a4.rest_of (t := [32]) r3
      dsimp only
      refine Wp.bind' (commentStart_some r4) ?_
      intro r lr5 ⟨hres, a5⟩
      subst hres
      refine Wp.pure ⟨rfl, ?_⟩
      have := LineEnd.of_adv (((((a.trans a1).trans a2).trans a3).trans a4).trans a5)
      simp only [Bool.not_true]
      refine this.cast' ?_
      omega
    | false =>
      -- " sym\n"
      simp only [trailerText, Bool.false_eq_true, ↓reduceIte, List.cons_append, List.nil_append,
        List.append_assoc, List.length_cons, List.length_append, List.length_nil] at hr h2 ⊢
      refine Wp.bind' (space_some hr) ?_
      intro r lr1 ⟨hres, a1⟩
      subst hres
      have r1 : lr1.v.rest = s ++ 10 :: T := a1.rest_of (t := [32]) hr
      dsimp only
      refine Wp.bind' (commentStart_none (x := c0) (by rw [r1, hcs]; rfl) hc0) ?_
      intro r lr2 ⟨hres, a2⟩
      subst hres
      have r2 : lr2.v.rest = s ++ 10 :: T := by rw [a2.rest, r1]; rfl
      dsimp only
      refine Wp.bind' (symbolName_exact r2 hne hall (Or.inr rfl)) ?_
      intro r lr3 ⟨hres, a3⟩
      subst hres
      have r3 := a3.rest_of r2
      dsimp only
      refine Wp.bind' (space_none r3 (by decide)) ?_
      intro r lr4 ⟨hres, a4⟩
      subst hres
      have r4 : lr4.v.rest = 10 :: T := by rw [a4.rest, r3]; rfl
      have b4 := (((a.trans a1).trans a2).trans a3).trans a4
      dsimp only
      refine Wp.bind' (newline_some r4 (by rw [b4.line]; exact h1) (by rw [b4.pos]; omega)) ?_
      intro r lr5 ⟨hres, nl⟩
      subst hres
      refine Wp.pure ⟨rfl, ?_⟩
      have := LineEnd.of_newline b4 nl
      simp only [Bool.not_false]
      refine this.cast' ?_
      omega

/-! ### `try_node` and `next_line` -/

theorem trailerText_head (sym : Option VBytes) (hc : Bool) (T : VBytes) :
    ∃ x tl, trailerText sym hc ++ T = x :: tl ∧ (x = 32 ∨ x = 10) := by
  cases sym with
  | some s => exact ⟨32, s ++ ((if hc then [32, 59] else [10]) ++ T), by simp [trailerText], Or.inl rfl⟩
  | none =>
    cases hc with
    | true => exact ⟨32, 59 :: T, by simp [trailerText], Or.inl rfl⟩
    | false => exact ⟨10, T, by simp [trailerText], Or.inr rfl⟩

/-- The text of a node up to (not including) its comment body; with the newline if there is no
comment. -/
def nodeHeadText (nd : Node) : VBytes :=
  natText nd.id ++ 32 :: (writeVariant nd.variant ++ trailerText nd.symbol nd.comment.isSome)

theorem LineEnd.adv {mid lr1 : LR} {n m : Nat} (h : LineEnd lr n false mid) (a : Adv mid m lr1) :
    LineEnd lr (n + m) false lr1 :=
  ⟨by rw [a.rest, h.rest, List.drop_drop], by rw [a.pos, h.pos]; omega, a.fault.trans h.fault,
   a.sawEnd.trans h.sawEnd, a.ioErr.trans h.ioErr, by rw [a.line, h.line], by
    rw [a.lineStart, h.lineStart]; simp⟩

theorem LineEnd.after_adv {mid lr1 : LR} {n m : Nat} {nl : Bool} (a : Adv lr n mid)
    (h : LineEnd mid m nl lr1) : LineEnd lr (n + m) nl lr1 :=
  ⟨by rw [h.rest, a.rest, List.drop_drop], by rw [h.pos, a.pos]; omega, h.fault.trans a.fault,
   h.sawEnd.trans a.sawEnd, h.ioErr.trans a.ioErr, by rw [h.line, a.line], by
    rw [h.lineStart, a.lineStart, a.pos]; cases nl <;> simp; omega⟩

/-- `try_node` on the written text of a well-formed node. -/
theorem tryNode_exact (nd : Node) (hwf : nd.wf = true) {T : VBytes}
    (hr : lr.v.rest = nodeHeadText nd ++ T) (h1 : lr.line + 1 ≤ usizeMax)
    (h2 : lr.v.pos + (nodeHeadText nd).length ≤ usizeMax) :
    Wp E tryNode lr (fun r lr1 => r = some ({ nd with comment := none }, nd.comment.isSome) ∧
      LineEnd lr (nodeHeadText nd).length (!nd.comment.isSome) lr1) := by
  obtain ⟨id, variant, symbol, comment⟩ := nd
  simp only [Node.wf, Bool.and_eq_true] at hwf
  obtain ⟨⟨⟨hid, hv⟩, hsym⟩, _⟩ := hwf
  simp only [nodeHeadText, List.append_assoc, List.cons_append] at hr h2 ⊢
  obtain ⟨x, tl, hy, hx⟩ := trailerText_head symbol comment.isSome T
  obtain ⟨h0, hlt⟩ := idOk_iff.mp hid
  unfold tryNode
  refine Wp.bind' (positiveInt_exact (E := E) id h0 hlt hr (by rfl)) ?_
  intro r lr1 ⟨hres, a1⟩
  subst hres
  have r1 := a1.rest_of hr
  dsimp only
  refine step_space a1 r1 (fun lr2 a2 r2 => ?_)
  rw [hy] at r2
  refine variant_exact a2 variant hv hx r2 (fun lr3 a3 r3 => ?_)
  have hs' : ∀ s, symbol = some s → symbolOk s = true := by
    intro s hs; subst hs; exact hsym
  have hpos3 := a3.pos
  refine Wp.bind' (trailer_exact a3 symbol comment.isSome hs' (by rw [r3, hy]) h1 ?_) ?_
  · simp only [List.length_append, List.length_cons] at h2; omega
  intro r lr4 ⟨hres, le⟩
  subst hres
  refine Wp.pure ⟨rfl, le.cast' ?_⟩
  simp only [List.length_append, List.length_cons]; omega

theorem writeLine_node_comment (id : Nat) (variant : NodeVariant) (symbol : Option VBytes) (c : VBytes) :
    writeLine (.node { id, variant, symbol, comment := some c }) =
      nodeHeadText { id, variant, symbol, comment := some c } ++ (c ++ [10]) := by
  cases symbol <;> simp [writeLine, writeLineUnterminated, writeNode, nodeHeadText, trailerText]

theorem writeLine_node_plain (id : Nat) (variant : NodeVariant) (symbol : Option VBytes) :
    writeLine (.node { id, variant, symbol, comment := none }) =
      nodeHeadText { id, variant, symbol, comment := none } := by
  cases symbol <;> simp [writeLine, writeLineUnterminated, writeNode, nodeHeadText, trailerText]

/-- `next_line` after its `skip_whitespace`. -/
def nextLineRest : PM (Option Line) := do
  match ← tryNode with
  | some (node, hasComment) =>
    if hasComment then
      let c ← commentBody
      pure (some (.node { node with comment := some c }))
    else pure (some (.node node))
  | none =>
    match ← commentStart with
    | some () =>
      let c ← commentBody
      pure (some (.comment c))
    | none =>
      match ← eof with
      | some () =>
        checkIoError
        pure none
      | none => unexpected

theorem nextLine_eq : nextLine = (skipWhitespace >>= fun _ => nextLineRest) := rfl

/-- The part of `next_line` after `skip_whitespace`, with the cursor on the first byte of a
written line. -/
theorem nextLineRest_exact (l : Line) (hwf : l.wf = true) {T : VBytes} (hr : lr.v.rest = writeLine l ++ T)
    (h1 : lr.line + 1 ≤ usizeMax) (h2 : lr.v.pos + (writeLine l).length ≤ usizeMax) :
    Wp E nextLineRest lr (fun r lr1 => r = some l ∧
      LineEnd lr (if l.endsInComment then (writeLine l).length - 1 else (writeLine l).length)
        (!l.endsInComment) lr1) := by
  unfold nextLineRest
  cases l with
  | comment c =>
    simp only [Line.wf, commentOk] at hwf
    simp only [writeLine, writeLineUnterminated, Btor2Tables.comment_kw, List.cons_append, List.nil_append,
      List.append_assoc, List.length_cons, List.length_append, List.length_nil] at hr h2 ⊢
    refine Wp.bind' (?_ : Wp E tryNode lr (fun r lr2 => r = none ∧ Adv lr 0 lr2)) ?_
    · unfold tryNode
      refine Wp.bind' (positiveInt_none (E := E) hr (by rfl)) ?_
      intro r lr2 ⟨hres, a2⟩
      subst hres
      exact Wp.pure ⟨rfl, a2⟩
    intro r lr2 ⟨hres, a2⟩
    subst hres
    have r2 : lr2.v.rest = 59 :: (c ++ 10 :: T) := by rw [a2.rest, hr]; rfl
    dsimp only
    refine Wp.bind' (commentStart_some r2) ?_
    intro r lr3 ⟨hres, a3⟩
    subst hres
    have r3 : lr3.v.rest = c ++ 10 :: T := a3.rest_of (t := [59]) r2
    dsimp only
    refine Wp.bind' (commentBody_exact r3 hwf) ?_
    intro cc lr4 ⟨hres, a4⟩
    subst hres
    refine Wp.pure ⟨rfl, ?_⟩
    have := LineEnd.of_adv ((a2.trans a3).trans a4)
    simp only [Line.endsInComment, ↓reduceIte, Bool.not_true]
    refine this.cast' ?_
    omega
  | node nd =>
    obtain ⟨id, variant, symbol, comment⟩ := nd
    have hwf' : Node.wf { id, variant, symbol, comment } = true := hwf
    cases comment with
    | some c =>
      have hc : commentOk c = true := by
        simp only [Node.wf, Bool.and_eq_true] at hwf'; exact hwf'.2
      rw [writeLine_node_comment] at hr h2 ⊢
      have r1 : lr.v.rest = nodeHeadText { id, variant, symbol, comment := some c } ++ (c ++ 10 :: T) := by
        rw [hr]; simp
      refine Wp.bind' (tryNode_exact (E := E) { id, variant, symbol, comment := some c } hwf' r1
        h1 (by simp only [List.length_append] at h2; omega)) ?_
      intro r lr2 ⟨hres, le⟩
      subst hres
      have r2 : lr2.v.rest = c ++ 10 :: T := by rw [le.rest, r1]; simp
      simp only [Option.isSome_some, ↓reduceIte]
      refine Wp.bind' (commentBody_exact r2 hc) ?_
      intro cc lr3 ⟨hres, a3⟩
      subst hres
      refine Wp.pure ⟨rfl, ?_⟩
      have := le.adv a3
      simp only [Line.endsInComment, Option.isSome_some, ↓reduceIte, Bool.not_true] at this ⊢
      refine this.cast' ?_
      simp only [List.length_append, List.length_cons, List.length_nil]; omega
    | none =>
      rw [writeLine_node_plain] at hr h2 ⊢
      refine Wp.bind' (tryNode_exact (E := E) { id, variant, symbol, comment := none } hwf' hr h1 h2) ?_
      intro r lr2 ⟨hres, le⟩
      subst hres
      simp only [Option.isSome_none, Bool.false_eq_true, ↓reduceIte]
      refine Wp.pure ⟨rfl, ?_⟩
      simpa only [Line.endsInComment, Option.isSome_none, Bool.false_eq_true, ↓reduceIte, Bool.not_false]
        using le

/-- The first byte of a written line is a digit or `;` — neither a space nor a newline. -/
theorem writeLine_head (l : Line) : ∃ x tl, writeLine l = x :: tl ∧ x ≠ 32 ∧ x ≠ 10 := by
  cases l with
  | comment c => exact ⟨59, c ++ [10], by simp [writeLine, writeLineUnterminated, Btor2Tables.comment_kw],
      by decide, by decide⟩
  | node nd =>
    obtain ⟨d, ds, hd, hdd⟩ := natText_head nd.id
    refine ⟨d, _, by simp only [writeLine, writeLineUnterminated, writeNode, hd, List.cons_append,
      List.append_assoc]; rfl, ?_, ?_⟩
    · intro h; subst h; simp [isDigit] at hdd
    · intro h; subst h; simp [isDigit] at hdd

/-- **`next_line` reads back what `write_into` wrote**, for every well-formed line, whatever
follows it (`T`). -/
theorem nextLine_exact (l : Line) (hwf : l.wf = true) {T : VBytes} (hr : lr.v.rest = writeLine l ++ T)
    (h1 : lr.line + 1 ≤ usizeMax) (h2 : lr.v.pos + (writeLine l).length ≤ usizeMax) :
    Wp E nextLine lr (fun r lr1 => r = some l ∧
      LineEnd lr (if l.endsInComment then (writeLine l).length - 1 else (writeLine l).length)
        (!l.endsInComment) lr1) := by
  rw [nextLine_eq]
  obtain ⟨x, tl, hx, h32, h10⟩ := writeLine_head l
  refine Wp.bind' (skipWhitespace_noop (by rw [hr, hx]; rfl) h32 h10) ?_
  intro _ lr1 a1
  have r1 : lr1.v.rest = writeLine l ++ T := by rw [a1.rest, hr]; simp
  refine (nextLineRest_exact l hwf r1 (by rw [a1.line]; exact h1) (by rw [a1.pos]; exact h2)).mono ?_
  intro r lr2 ⟨hres, le⟩
  exact ⟨hres, by simpa using LineEnd.after_adv a1 le⟩

end Btor2
end Flussab
