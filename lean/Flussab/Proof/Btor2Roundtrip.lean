/-
`parse ∘ write = id` for BTOR2 lines: for every well-formed `Line` (`Line.wf`), `next_line` on the
bytes `Line::write_into` emits returns exactly that line.  Built from the exact token
specifications of `Proof/Btor2Exact.lean` and the keyword tables of `Proof/Btor2Tables.lean`.
-/
import Flussab.Proof.Btor2Exact
import Flussab.Proof.Btor2Tables

namespace Flussab
namespace Btor2
open PM
open Gen.Btor2 (UnaryOp BinaryOp TernaryOp AssignmentKind SingleValueOutputKind NodeToken
  NodeValueToken SortToken)

/-! ### the domain of the round trip -/

/-- A node id / sort id / bit width: a non-zero `u64` (`NonZeroU64`). -/
def idOk (x : Nat) : Bool := decide (0 < x) && decide (x < 2 ^ 64)
/-- An index / pad width: a `u64`. -/
def u64Ok (x : Nat) : Bool := decide (x < 2 ^ 64)

def Const.wf : Const → Bool
  | .binary s => binaryConstOk s
  | .decimal s => decimalConstOk s
  | .hex s => hexConstOk s
  | _ => true

def UnaryOp.wf : UnaryOp → Bool
  | .uext w => u64Ok w
  | .sext w => u64Ok w
  | .slice u l => u64Ok u && u64Ok l
  | _ => true

def Op.wf : Op → Bool
  | .unary op a0 => UnaryOp.wf op && idOk a0
  | .binary _ a0 a1 => idOk a0 && idOk a1
  | .ternary _ a0 a1 a2 => idOk a0 && idOk a1 && idOk a2

def ValueVariant.wf : ValueVariant → Bool
  | .const c => c.wf
  | .op o => o.wf
  | _ => true

/-- `justice` lines need at least one condition (the parser reads a positive count), and the
count must be a `u64`. -/
def NodeVariant.wf : NodeVariant → Bool
  | NodeVariant.sort (BSort.bitVec w) => idOk w
  | NodeVariant.sort (BSort.array d c) => idOk d && idOk c
  | NodeVariant.value srt v => idOk srt && v.wf
  | NodeVariant.assignment st srt _ val => idOk st && idOk srt && idOk val
  | NodeVariant.output (Output.singleValue _ val) => idOk val
  | NodeVariant.output (Output.justice nodes) =>
    !nodes.isEmpty && decide (nodes.length < 2 ^ 64) && nodes.all idOk

/-- A symbol the parser reads back: non-empty, no space or newline, not starting a comment. -/
def symbolOk (s : VBytes) : Bool :=
  !s.isEmpty && s.all (fun b => b != 10 && b != 32) && (s.head? != some 59)

/-- A comment the parser reads back: no newline. -/
def commentOk (c : VBytes) : Bool := c.all (· != 10)

def Node.wf (n : Node) : Bool :=
  idOk n.id && n.variant.wf && (match n.symbol with | some s => symbolOk s | none => true) &&
  (match n.comment with | some c => commentOk c | none => true)

/-- The domain of the round trip: what the public constructors admit (non-zero `u64` ids, constants
accepted by the `TryFrom` validators) minus what the text format cannot express (see above). -/
def Line.wf : Line → Bool
  | .comment c => commentOk c
  | .node n => n.wf

/-! ### step combinators -/

variable {E : PErr → LR → Prop} {lr : LR}

theorem Adv.cast {lr1 : LR} {n m : Nat} (a : Adv lr n lr1) (h : n = m) : Adv lr m lr1 := h ▸ a

theorem idOk_iff {x : Nat} : idOk x = true ↔ 0 < x ∧ x < 2 ^ 64 := by simp [idOk]
theorem u64Ok_iff {x : Nat} : u64Ok x = true ↔ x < 2 ^ 64 := by simp [u64Ok]

theorem term_not_digit {x : UInt8} (hx : x = 32 ∨ x = 10) : isDigit x = false := by
  rcases hx with h | h <;> subst h <;> rfl

variable {lr0 : LR} {n : Nat}

theorem step_space {β : Type} {k : PM β} {Q : β → LR → Prop} {T : VBytes} (a : Adv lr0 n lr)
    (hr : lr.v.rest = 32 :: T)
    (hk : ∀ lr1, Adv lr0 (n + 1) lr1 → lr1.v.rest = T → Wp E k lr1 Q) :
    Wp E (requiredSpace >>= fun _ => k) lr Q := by
  refine Wp.bind' (requiredSpace_exact hr) ?_
  intro _ lr1 a1
  exact hk lr1 (a.trans a1) (by rw [a1.rest, hr]; rfl)

theorem step_id {β : Type} {k : Nat → PM β} {Q : β → LR → Prop} (a : Adv lr0 n lr) (v : Nat)
    (hv : idOk v = true) {x : UInt8} {T : VBytes} (hr : lr.v.rest = natText v ++ x :: T)
    (hx : isDigit x = false)
    (hk : ∀ lr1, Adv lr0 (n + (natText v).length) lr1 → lr1.v.rest = x :: T → Wp E (k v) lr1 Q) :
    Wp E (requiredNodeId >>= k) lr Q := by
  obtain ⟨h0, h1⟩ := idOk_iff.mp hv
  refine Wp.bind' (requiredId_exact v h0 h1 hr hx) ?_
  intro r lr1 ⟨hres, a1⟩
  subst hres
  exact hk lr1 (a.trans a1) (a1.rest_of hr)

theorem step_nonneg {β : Type} {k : Nat → PM β} {Q : β → LR → Prop} (a : Adv lr0 n lr) (v : Nat)
    (hv : u64Ok v = true) {x : UInt8} {T : VBytes} (hr : lr.v.rest = natText v ++ x :: T)
    (hx : isDigit x = false)
    (hk : ∀ lr1, Adv lr0 (n + (natText v).length) lr1 → lr1.v.rest = x :: T → Wp E (k v) lr1 Q) :
    Wp E (requiredNonnegativeInt >>= k) lr Q := by
  refine Wp.bind' (requiredNonneg_exact v (u64Ok_iff.mp hv) hr hx) ?_
  intro r lr1 ⟨hres, a1⟩
  subst hres
  exact hk lr1 (a.trans a1) (a1.rest_of hr)

/-- `requiredSpace; requiredNodeId` — one ` <id>` argument. -/
theorem step_space_id {β : Type} {k : Nat → PM β} {Q : β → LR → Prop} (a : Adv lr0 n lr) (v : Nat)
    (hv : idOk v = true) {x : UInt8} {T : VBytes} (hr : lr.v.rest = 32 :: (natText v ++ x :: T))
    (hx : isDigit x = false)
    (hk : ∀ lr1, Adv lr0 (n + 1 + (natText v).length) lr1 → lr1.v.rest = x :: T → Wp E (k v) lr1 Q) :
    Wp E (requiredSpace >>= fun _ => requiredNodeId >>= k) lr Q :=
  step_space a hr (fun _ a1 r1 => step_id a1 v hv r1 hx hk)

theorem step_space_nonneg {β : Type} {k : Nat → PM β} {Q : β → LR → Prop} (a : Adv lr0 n lr) (v : Nat)
    (hv : u64Ok v = true) {x : UInt8} {T : VBytes} (hr : lr.v.rest = 32 :: (natText v ++ x :: T))
    (hx : isDigit x = false)
    (hk : ∀ lr1, Adv lr0 (n + 1 + (natText v).length) lr1 → lr1.v.rest = x :: T → Wp E (k v) lr1 Q) :
    Wp E (requiredSpace >>= fun _ => requiredNonnegativeInt >>= k) lr Q :=
  step_space a hr (fun _ a1 r1 => step_nonneg a1 v hv r1 hx hk)

/-- The node keyword: `name` (a run of `a..z` the table maps to `tok`) followed by a space. -/
theorem step_keyword {β : Type} {k : NodeToken → PM β} {Q : β → LR → Prop} (a : Adv lr0 n lr)
    {name : VBytes} {tok : NodeToken} {T : VBytes} (hr : lr.v.rest = name ++ 32 :: T)
    (hl : name.all isLower = true) (ht : Gen.Btor2.nodeToken name = some tok)
    (hk : ∀ lr1, Adv lr0 (n + name.length) lr1 → lr1.v.rest = 32 :: T → Wp E (k tok) lr1 Q) :
    Wp E (orGiveUp nodeToken unexpected >>= k) lr Q := by
  refine Wp.bind' (orGiveUp_exact (keywordToken_exact Gen.Btor2.nodeToken hr hl (by rfl) ht)) ?_
  intro r lr1 ⟨hres, a1⟩
  subst hres
  exact hk lr1 (a.trans a1) (a1.rest_of hr)

/-! ### keyword facts -/

/-- A keyword literal of the writer: the keyword (a run of `a..z` mapped to `tok`) and one space. -/
def KwSpec (kw : VBytes) (tok : NodeToken) : Prop :=
  kw = kw.dropLast ++ [32] ∧ kw.dropLast.all isLower = true ∧ Gen.Btor2.nodeToken kw.dropLast = some tok

theorem kw_constBinary : KwSpec Gen.Btor2.kwConstBinary (.value .const) := by unfold KwSpec; decide
theorem kw_constDecimal : KwSpec Gen.Btor2.kwConstDecimal (.value .constd) := by unfold KwSpec; decide
theorem kw_constHex : KwSpec Gen.Btor2.kwConstHex (.value .consth) := by unfold KwSpec; decide
theorem kw_constOne : KwSpec Gen.Btor2.kwConstOne (.value .one) := by unfold KwSpec; decide
theorem kw_constOnes : KwSpec Gen.Btor2.kwConstOnes (.value .ones) := by unfold KwSpec; decide
theorem kw_constZero : KwSpec Gen.Btor2.kwConstZero (.value .zero) := by unfold KwSpec; decide
theorem kw_input : KwSpec Gen.Btor2.kwValueVariantInput (.value .input) := by unfold KwSpec; decide
theorem kw_state : KwSpec Gen.Btor2.kwValueVariantState (.value .state) := by unfold KwSpec; decide
theorem kw_justice : KwSpec Gen.Btor2.kwOutputJustice .justice := by unfold KwSpec; decide
theorem kw_assignment (k : AssignmentKind) : KwSpec (Gen.Btor2.assignmentKindKw k) (.assignment k) := by
  cases k <;> (unfold KwSpec; decide)
theorem kw_output (k : SingleValueOutputKind) : KwSpec (Gen.Btor2.singleValueOutputKindKw k) (.output k) := by
  cases k <;> (unfold KwSpec; decide)

theorem unaryName_lower (op : UnaryOp) : (Gen.Btor2.unaryOpName op).all isLower = true := by
  cases op <;> (simp only [Gen.Btor2.unaryOpName]; decide)
theorem binaryName_lower (op : BinaryOp) : (Gen.Btor2.binaryOpName op).all isLower = true := by
  cases op <;> decide
theorem ternaryName_lower (op : TernaryOp) : (Gen.Btor2.ternaryOpName op).all isLower = true := by
  cases op <;> decide

/-! ### the node variants -/

theorem kwspec_split {kw : VBytes} {tok : NodeToken} (h : KwSpec kw tok) (T : VBytes) :
    kw ++ T = kw.dropLast ++ 32 :: T := by
  conv => lhs; rw [h.1]
  simp

theorem kwspec_length {kw : VBytes} {tok : NodeToken} (h : KwSpec kw tok) :
    kw.length = kw.dropLast.length + 1 := by
  conv => lhs; rw [h.1]
  simp

/-- A keyword literal (with its trailing space). -/
theorem step_kwlit {β : Type} {k : NodeToken → PM β} {Q : β → LR → Prop} (a : Adv lr0 n lr) {kw : VBytes}
    {tok : NodeToken} (hs : KwSpec kw tok) {T : VBytes} (hr : lr.v.rest = kw ++ T)
    (hk : ∀ lr1, Adv lr0 (n + kw.dropLast.length) lr1 → lr1.v.rest = 32 :: T → Wp E (k tok) lr1 Q) :
    Wp E (orGiveUp nodeToken unexpected >>= k) lr Q :=
  step_keyword a (by rw [hr]; exact kwspec_split hs T) hs.2.1 hs.2.2 hk

/-- An operator name (no trailing space in `name()`; the writer adds it). -/
theorem step_opname {β : Type} {k : NodeToken → PM β} {Q : β → LR → Prop} (a : Adv lr0 n lr) (op : Op)
    {T : VBytes} (hr : lr.v.rest = opName op ++ 32 :: T)
    (hk : ∀ lr1, Adv lr0 (n + (opName op).length) lr1 → lr1.v.rest = 32 :: T →
      Wp E (k (.value (Btor2Tables.opToken op))) lr1 Q) :
    Wp E (orGiveUp nodeToken unexpected >>= k) lr Q := by
  refine step_keyword a hr ?_ (Btor2Tables.keyword_roundtrip op) hk
  cases op with
  | unary op _ => exact unaryName_lower op
  | binary op _ _ => exact binaryName_lower op
  | ternary op _ _ _ => exact ternaryName_lower op

/-- The goal shape of all variant lemmas: read the node keyword and its arguments, then continue
with the variant and the state advanced by exactly the written text. -/
abbrev VariantGoal (E : PErr → LR → Prop) (lr0 : LR) (n : Nat) (lr : LR) (v : NodeVariant) (x : UInt8)
    (tl : VBytes) : Prop :=
  ∀ {β : Type} {k : NodeVariant → PM β} {Q : β → LR → Prop},
    (∀ lr1, Adv lr0 (n + (writeVariant v).length) lr1 → lr1.v.rest = x :: tl → Wp E (k v) lr1 Q) →
    Wp E (orGiveUp nodeToken unexpected >>= fun tok => nodeVariant tok >>= k) lr Q

theorem term_not_bin {x : UInt8} (hx : x = 32 ∨ x = 10) : isBinDigit x = false := by
  rcases hx with h | h <;> subst h <;> rfl
theorem term_not_hex {x : UInt8} (hx : x = 32 ∨ x = 10) : isHexDigit x = false := by
  rcases hx with h | h <;> subst h <;> rfl

/-- `const` / `constd` / `consth` / `one` / `ones` / `zero`. -/
theorem variant_const_exact (a : Adv lr0 n lr) (srt : Nat) (c : Const) (hs : idOk srt = true)
    (hc : c.wf = true) {x : UInt8} {tl : VBytes} (hx : x = 32 ∨ x = 10)
    (hr : lr.v.rest = writeVariant (.value srt (.const c)) ++ x :: tl) :
    VariantGoal E lr0 n lr (.value srt (.const c)) x tl := by
  intro β k Q hk
  cases c with
  | binary s =>
    simp only [writeVariant, writeValue, List.append_assoc, List.cons_append, List.nil_append] at hr hk
    simp only [Const.wf, binaryConstOk, Bool.and_eq_true, Bool.not_eq_true', List.isEmpty_eq_false_iff] at hc
    refine step_kwlit a kw_constBinary hr (fun lr1 a1 r1 => ?_)
    simp only [nodeVariant, valueVariant, bind_assoc, pure_bind]
    refine step_space_id a1 srt hs r1 (by rfl) (fun lr2 a2 r2 => ?_)
    refine step_space a2 r2 (fun lr3 a3 r3 => ?_)
    refine Wp.bind' (requiredConstant_exact binaryString r3 hc.1
      (scanWhile_exact isBinDigit lr3.v r3 hc.2 (term_not_bin hx))) ?_
    intro r lr4 ⟨hres, a4⟩
    subst hres
    refine hk lr4 ((a3.trans a4).cast ?_) (a4.rest_of r3)
    have := kwspec_length kw_constBinary
    simp only [List.length_append, List.length_cons]; omega
  | hex s =>
    simp only [writeVariant, writeValue, List.append_assoc, List.cons_append, List.nil_append] at hr hk
    simp only [Const.wf, hexConstOk, Bool.and_eq_true, Bool.not_eq_true', List.isEmpty_eq_false_iff] at hc
    refine step_kwlit a kw_constHex hr (fun lr1 a1 r1 => ?_)
    simp only [nodeVariant, valueVariant, bind_assoc, pure_bind]
    refine step_space_id a1 srt hs r1 (by rfl) (fun lr2 a2 r2 => ?_)
    refine step_space a2 r2 (fun lr3 a3 r3 => ?_)
    refine Wp.bind' (requiredConstant_exact hexString r3 hc.1
      (scanWhile_exact isHexDigit lr3.v r3 hc.2 (term_not_hex hx))) ?_
    intro r lr4 ⟨hres, a4⟩
    subst hres
    refine hk lr4 ((a3.trans a4).cast ?_) (a4.rest_of r3)
    have := kwspec_length kw_constHex
    simp only [List.length_append, List.length_cons]; omega
  | decimal s =>
    simp only [writeVariant, writeValue, List.append_assoc, List.cons_append, List.nil_append] at hr hk
    simp only [Const.wf] at hc
    have hne : s ≠ [] := by
      intro h; subst h; simp [decimalConstOk] at hc
    refine step_kwlit a kw_constDecimal hr (fun lr1 a1 r1 => ?_)
    simp only [nodeVariant, valueVariant, bind_assoc, pure_bind]
    refine step_space_id a1 srt hs r1 (by rfl) (fun lr2 a2 r2 => ?_)
    refine step_space a2 r2 (fun lr3 a3 r3 => ?_)
    refine Wp.bind' (requiredConstant_exact decimalString r3 hne
      (decimalString_exact lr3.v r3 hc (term_not_digit hx))) ?_
    intro r lr4 ⟨hres, a4⟩
    subst hres
    refine hk lr4 ((a3.trans a4).cast ?_) (a4.rest_of r3)
    have := kwspec_length kw_constDecimal
    simp only [List.length_append, List.length_cons]; omega
  | one =>
    simp only [writeVariant, writeValue, List.append_assoc] at hr hk
    refine step_kwlit a kw_constOne hr (fun lr1 a1 r1 => ?_)
    simp only [nodeVariant, valueVariant, bind_assoc, pure_bind]
    refine step_space_id a1 srt hs r1 (term_not_digit hx) (fun lr2 a2 r2 => ?_)
    refine hk lr2 (a2.cast ?_) r2
    have := kwspec_length kw_constOne
    simp only [List.length_append]; omega
  | ones =>
    simp only [writeVariant, writeValue, List.append_assoc] at hr hk
    refine step_kwlit a kw_constOnes hr (fun lr1 a1 r1 => ?_)
    simp only [nodeVariant, valueVariant, bind_assoc, pure_bind]
    refine step_space_id a1 srt hs r1 (term_not_digit hx) (fun lr2 a2 r2 => ?_)
    refine hk lr2 (a2.cast ?_) r2
    have := kwspec_length kw_constOnes
    simp only [List.length_append]; omega
  | zero =>
    simp only [writeVariant, writeValue, List.append_assoc] at hr hk
    refine step_kwlit a kw_constZero hr (fun lr1 a1 r1 => ?_)
    simp only [nodeVariant, valueVariant, bind_assoc, pure_bind]
    refine step_space_id a1 srt hs r1 (term_not_digit hx) (fun lr2 a2 r2 => ?_)
    refine hk lr2 (a2.cast ?_) r2
    have := kwspec_length kw_constZero
    simp only [List.length_append]; omega

/-- `input` / `state`. -/
theorem variant_input_exact (a : Adv lr0 n lr) (srt : Nat) (hs : idOk srt = true) {x : UInt8} {tl : VBytes}
    (hx : x = 32 ∨ x = 10) (hr : lr.v.rest = writeVariant (.value srt .input) ++ x :: tl) :
    VariantGoal E lr0 n lr (.value srt .input) x tl := by
  intro β k Q hk
  simp only [writeVariant, writeValue, List.append_assoc] at hr hk
  refine step_kwlit a kw_input hr (fun lr1 a1 r1 => ?_)
  simp only [nodeVariant, valueVariant, bind_assoc, pure_bind]
  refine step_space_id a1 srt hs r1 (term_not_digit hx) (fun lr2 a2 r2 => ?_)
  refine hk lr2 (a2.cast ?_) r2
  have := kwspec_length kw_input
  simp only [List.length_append]; omega

theorem variant_state_exact (a : Adv lr0 n lr) (srt : Nat) (hs : idOk srt = true) {x : UInt8} {tl : VBytes}
    (hx : x = 32 ∨ x = 10) (hr : lr.v.rest = writeVariant (.value srt .state) ++ x :: tl) :
    VariantGoal E lr0 n lr (.value srt .state) x tl := by
  intro β k Q hk
  simp only [writeVariant, writeValue, List.append_assoc] at hr hk
  refine step_kwlit a kw_state hr (fun lr1 a1 r1 => ?_)
  simp only [nodeVariant, valueVariant, bind_assoc, pure_bind]
  refine step_space_id a1 srt hs r1 (term_not_digit hx) (fun lr2 a2 r2 => ?_)
  refine hk lr2 (a2.cast ?_) r2
  have := kwspec_length kw_state
  simp only [List.length_append]; omega

/-- Unary operators: `uext` / `sext` (pad width), `slice` (two indices), and the seven plain ones. -/
theorem variant_unary_exact (a : Adv lr0 n lr) (srt a0 : Nat) (op : UnaryOp) (hs : idOk srt = true)
    (ha : idOk a0 = true) (hop : UnaryOp.wf op = true) {x : UInt8} {tl : VBytes} (hx : x = 32 ∨ x = 10)
    (hr : lr.v.rest = writeVariant (.value srt (.op (.unary op a0))) ++ x :: tl) :
    VariantGoal E lr0 n lr (.value srt (.op (.unary op a0))) x tl := by
  intro β k Q hk
  cases op
  case uext w =>
    simp only [writeVariant, writeValue, writeIndices, List.append_assoc, List.cons_append,
      List.nil_append] at hr hk
    simp only [UnaryOp.wf] at hop
    refine step_opname a (.unary (.uext w) a0) hr (fun lr1 a1 r1 => ?_)
    simp only [Btor2Tables.opToken, Btor2Tables.unaryOpToken, nodeVariant, valueVariant, bind_assoc,
      pure_bind, Gen.Btor2.extOpTokenUnaryOp]
    refine step_space_id a1 srt hs r1 (by rfl) (fun lr2 a2 r2 => ?_)
    refine step_space_id a2 a0 ha r2 (by rfl) (fun lr3 a3 r3 => ?_)
    refine step_space_nonneg a3 w hop r3 (term_not_digit hx) (fun lr4 a4 r4 => ?_)
    refine hk lr4 (a4.cast ?_) r4
    simp only [opName, List.length_append, List.length_cons]; omega
  case sext w =>
    simp only [writeVariant, writeValue, writeIndices, List.append_assoc, List.cons_append,
      List.nil_append] at hr hk
    simp only [UnaryOp.wf] at hop
    refine step_opname a (.unary (.sext w) a0) hr (fun lr1 a1 r1 => ?_)
    simp only [Btor2Tables.opToken, Btor2Tables.unaryOpToken, nodeVariant, valueVariant, bind_assoc,
      pure_bind, Gen.Btor2.extOpTokenUnaryOp]
    refine step_space_id a1 srt hs r1 (by rfl) (fun lr2 a2 r2 => ?_)
    refine step_space_id a2 a0 ha r2 (by rfl) (fun lr3 a3 r3 => ?_)
    refine step_space_nonneg a3 w hop r3 (term_not_digit hx) (fun lr4 a4 r4 => ?_)
    refine hk lr4 (a4.cast ?_) r4
    simp only [opName, List.length_append, List.length_cons]; omega
  case slice u l =>
    simp only [writeVariant, writeValue, writeIndices, List.append_assoc, List.cons_append,
      List.nil_append] at hr hk
    simp only [UnaryOp.wf, Bool.and_eq_true] at hop
    refine step_opname a (.unary (.slice u l) a0) hr (fun lr1 a1 r1 => ?_)
    simp only [Btor2Tables.opToken, Btor2Tables.unaryOpToken, nodeVariant, valueVariant, bind_assoc,
      pure_bind]
    refine step_space_id a1 srt hs r1 (by rfl) (fun lr2 a2 r2 => ?_)
    refine step_space_id a2 a0 ha r2 (by rfl) (fun lr3 a3 r3 => ?_)
    refine step_space_nonneg a3 u hop.1 r3 (by rfl) (fun lr4 a4 r4 => ?_)
    refine step_space_nonneg a4 l hop.2 r4 (term_not_digit hx) (fun lr5 a5 r5 => ?_)
    refine hk lr5 (a5.cast ?_) r5
    simp only [opName, List.length_append, List.length_cons]; omega
  all_goals
    simp only [writeVariant, writeValue, writeIndices, List.append_assoc, List.cons_append,
      List.nil_append, List.append_nil] at hr hk
    refine step_opname a (.unary _ a0) hr (fun lr1 a1 r1 => ?_)
    simp only [Btor2Tables.opToken, Btor2Tables.unaryOpToken, nodeVariant, valueVariant, bind_assoc,
      pure_bind, Gen.Btor2.unaryOpTokenUnaryOp]
    refine step_space_id a1 srt hs r1 (by rfl) (fun lr2 a2 r2 => ?_)
    refine step_space_id a2 a0 ha r2 (term_not_digit hx) (fun lr3 a3 r3 => ?_)
    refine hk lr3 (a3.cast ?_) r3
    simp only [opName, List.length_append, List.length_cons]; omega

/-- Binary operators (all forty). -/
theorem variant_binary_exact (a : Adv lr0 n lr) (srt a0 a1 : Nat) (op : BinaryOp) (hs : idOk srt = true)
    (h0 : idOk a0 = true) (h1 : idOk a1 = true) {x : UInt8} {tl : VBytes} (hx : x = 32 ∨ x = 10)
    (hr : lr.v.rest = writeVariant (.value srt (.op (.binary op a0 a1))) ++ x :: tl) :
    VariantGoal E lr0 n lr (.value srt (.op (.binary op a0 a1))) x tl := by
  intro β k Q hk
  simp only [writeVariant, writeValue, List.append_assoc, List.cons_append, List.nil_append] at hr hk
  refine step_opname a (.binary op a0 a1) hr (fun lr1 b1 r1 => ?_)
  simp only [Btor2Tables.opToken, nodeVariant, valueVariant, bind_assoc, pure_bind]
  refine step_space_id b1 srt hs r1 (by rfl) (fun lr2 b2 r2 => ?_)
  refine step_space_id b2 a0 h0 r2 (by rfl) (fun lr3 b3 r3 => ?_)
  refine step_space_id b3 a1 h1 r3 (term_not_digit hx) (fun lr4 b4 r4 => ?_)
  refine hk lr4 (b4.cast ?_) r4
  simp only [opName, List.length_append, List.length_cons]; omega

/-- Ternary operators. -/
theorem variant_ternary_exact (a : Adv lr0 n lr) (srt a0 a1 a2 : Nat) (op : TernaryOp)
    (hs : idOk srt = true) (h0 : idOk a0 = true) (h1 : idOk a1 = true) (h2 : idOk a2 = true) {x : UInt8}
    {tl : VBytes} (hx : x = 32 ∨ x = 10)
    (hr : lr.v.rest = writeVariant (.value srt (.op (.ternary op a0 a1 a2))) ++ x :: tl) :
    VariantGoal E lr0 n lr (.value srt (.op (.ternary op a0 a1 a2))) x tl := by
  intro β k Q hk
  simp only [writeVariant, writeValue, List.append_assoc, List.cons_append, List.nil_append] at hr hk
  refine step_opname a (.ternary op a0 a1 a2) hr (fun lr1 b1 r1 => ?_)
  simp only [Btor2Tables.opToken, nodeVariant, valueVariant, bind_assoc, pure_bind]
  refine step_space_id b1 srt hs r1 (by rfl) (fun lr2 b2 r2 => ?_)
  refine step_space_id b2 a0 h0 r2 (by rfl) (fun lr3 b3 r3 => ?_)
  refine step_space_id b3 a1 h1 r3 (by rfl) (fun lr4 b4 r4 => ?_)
  refine step_space_id b4 a2 h2 r4 (term_not_digit hx) (fun lr5 b5 r5 => ?_)
  refine hk lr5 (b5.cast ?_) r5
  simp only [opName, List.length_append, List.length_cons]; omega

/-- `init` / `next`. -/
theorem variant_assignment_exact (a : Adv lr0 n lr) (st srt val : Nat) (kind : AssignmentKind)
    (h0 : idOk st = true) (h1 : idOk srt = true) (h2 : idOk val = true) {x : UInt8} {tl : VBytes}
    (hx : x = 32 ∨ x = 10)
    (hr : lr.v.rest = writeVariant (.assignment st srt kind val) ++ x :: tl) :
    VariantGoal E lr0 n lr (.assignment st srt kind val) x tl := by
  intro β k Q hk
  simp only [writeVariant, List.append_assoc, List.cons_append, List.nil_append] at hr hk
  refine step_kwlit a (kw_assignment kind) hr (fun lr1 b1 r1 => ?_)
  simp only [nodeVariant, bind_assoc, pure_bind]
  refine step_space_id b1 srt h1 r1 (by rfl) (fun lr2 b2 r2 => ?_)
  refine step_space_id b2 st h0 r2 (by rfl) (fun lr3 b3 r3 => ?_)
  refine step_space_id b3 val h2 r3 (term_not_digit hx) (fun lr4 b4 r4 => ?_)
  refine hk lr4 (b4.cast ?_) r4
  have := kwspec_length (kw_assignment kind)
  simp only [List.length_append, List.length_cons]; omega

/-- `output` / `bad` / `constraint` / `fair`. -/
theorem variant_output_exact (a : Adv lr0 n lr) (val : Nat) (kind : SingleValueOutputKind)
    (h0 : idOk val = true) {x : UInt8} {tl : VBytes} (hx : x = 32 ∨ x = 10)
    (hr : lr.v.rest = writeVariant (.output (.singleValue kind val)) ++ x :: tl) :
    VariantGoal E lr0 n lr (.output (.singleValue kind val)) x tl := by
  intro β k Q hk
  simp only [writeVariant, List.append_assoc] at hr hk
  refine step_kwlit a (kw_output kind) hr (fun lr1 b1 r1 => ?_)
  simp only [nodeVariant, bind_assoc, pure_bind]
  refine step_space_id b1 val h0 r1 (term_not_digit hx) (fun lr2 b2 r2 => ?_)
  refine hk lr2 (b2.cast ?_) r2
  have := kwspec_length (kw_output kind)
  simp only [List.length_append]; omega

end Btor2
end Flussab
