/-
A relational weakest-precondition calculus for two runs of the parser monad (used for the
document-level statement of C08: a replaced numeral token).

`RWp G m1 m2 t1 t2 Q` ("run 1 = `m1` from `t1`, run 2 = `m2` from `t2`"): if run 1 returns, then
run 2 returns in a state related to it by `Q`, or run 2 fails with a panic or an error in `G`.
Nothing is claimed when run 1 fails.  The rules let both runs take the same step (`bind`, `scan`,
`reqAt`, `advance`, …), or reason about one run only (`left`: run 1 cannot return; `right`: a
unary `Wp` specification of run 2 whose postcondition does not mention run 1).

`Sh t1 t2` ("shifted"): the two states have the same unconsumed input, the same amount of
look-ahead in front of the cursor and the same end-of-data / I/O bookkeeping; position, mark and
line bookkeeping are unrelated.  What a parser *returns* depends on nothing else (`ShWp`): from
shifted states the same program returns the same value in shifted states — or fails in run 1, or
panics in run 2 (the overflow checks of `line_at_offset` see the position).
-/
import Flussab.Proof.Sim
import Flussab.Proof.Btor2Basic
import Flussab.Proof.Btor2ErrorAt

namespace Flussab
namespace Btor2
namespace Cat
open PM

variable {α β γ δ : Type} {G : PErr → Prop} {t1 t2 : LR}

/-- An error run 2 may end in: a panic, or an error in `G`. -/
def Good (G : PErr → Prop) (e : PErr) : Prop := (∃ s, e = .panic s) ∨ G e

theorem Good.panic (s : String) : Good G (.panic s) := Or.inl ⟨s, rfl⟩

/-- See the file comment. -/
def RWp (G : PErr → Prop) (m1 : PM α) (m2 : PM β) (t1 t2 : LR)
    (Q : α → LR → β → LR → Prop) : Prop :=
  ∀ a1 s1, m1.run t1 = (.ok a1, s1) →
    (∀ a2 s2, m2.run t2 = (.ok a2, s2) → Q a1 s1 a2 s2) ∧
    (∀ e s2, m2.run t2 = (.error e, s2) → Good G e)

theorem run_pure (a : α) (t : LR) : (pure a : PM α).run t = (.ok a, t) := rfl

theorem RWp.mono {m1 : PM α} {m2 : PM β} {Q Q' : α → LR → β → LR → Prop}
    (h : RWp G m1 m2 t1 t2 Q) (hq : ∀ a1 s1 a2 s2, Q a1 s1 a2 s2 → Q' a1 s1 a2 s2) :
    RWp G m1 m2 t1 t2 Q' := by
  intro a1 s1 h1
  obtain ⟨hok, herr⟩ := h a1 s1 h1
  exact ⟨fun a2 s2 h2 => hq _ _ _ _ (hok a2 s2 h2), herr⟩

theorem RWp.bind {m1 : PM α} {m2 : PM β} {f1 : α → PM γ} {f2 : β → PM δ}
    {Q : γ → LR → δ → LR → Prop}
    (h : RWp G m1 m2 t1 t2 (fun a1 s1 a2 s2 => RWp G (f1 a1) (f2 a2) s1 s2 Q)) :
    RWp G (m1 >>= f1) (m2 >>= f2) t1 t2 Q := by
  intro c u1 hrun
  rw [run_bind] at hrun
  rcases hm1 : m1.run t1 with ⟨e | a1, s1⟩
  · rw [hm1] at hrun; cases hrun
  · rw [hm1] at hrun
    simp only at hrun
    obtain ⟨hok, herr⟩ := h a1 s1 hm1
    refine ⟨?_, ?_⟩
    · intro d u2 hrun2
      rw [run_bind] at hrun2
      rcases hm2 : m2.run t2 with ⟨e | a2, s2⟩
      · rw [hm2] at hrun2; cases hrun2
      · rw [hm2] at hrun2
        simp only at hrun2
        exact ((hok a2 s2 hm2) c u1 hrun).1 d u2 hrun2
    · intro e u2 hrun2
      rw [run_bind] at hrun2
      rcases hm2 : m2.run t2 with ⟨e' | a2, s2⟩
      · rw [hm2] at hrun2
        simp only at hrun2
        obtain ⟨he, _⟩ := Prod.mk.inj hrun2
        cases he
        exact herr _ _ hm2
      · rw [hm2] at hrun2
        simp only at hrun2
        exact ((hok a2 s2 hm2) c u1 hrun).2 e u2 hrun2

/-- Forward form of `bind`. -/
theorem RWp.bind' {m1 : PM α} {m2 : PM β} {f1 : α → PM γ} {f2 : β → PM δ}
    {Q1 : α → LR → β → LR → Prop} {Q : γ → LR → δ → LR → Prop}
    (h : RWp G m1 m2 t1 t2 Q1)
    (hf : ∀ a1 s1 a2 s2, Q1 a1 s1 a2 s2 → RWp G (f1 a1) (f2 a2) s1 s2 Q) :
    RWp G (m1 >>= f1) (m2 >>= f2) t1 t2 Q :=
  RWp.bind (h.mono hf)

theorem RWp.pure {a1 : α} {a2 : β} {Q : α → LR → β → LR → Prop} (h : Q a1 t1 a2 t2) :
    RWp G (pure a1 : PM α) (pure a2 : PM β) t1 t2 Q := by
  intro c s1 h1
  rw [run_pure] at h1
  obtain ⟨h1a, rfl⟩ := Prod.mk.inj h1
  cases h1a
  refine ⟨?_, ?_⟩
  · intro d s2 h2
    rw [run_pure] at h2
    obtain ⟨h2a, rfl⟩ := Prod.mk.inj h2
    cases h2a
    exact h
  · intro e s2 h2
    rw [run_pure] at h2
    cases h2

/-- Run 1 cannot return. -/
theorem RWp.left {m1 : PM α} {m2 : PM β} {Q : α → LR → β → LR → Prop}
    (h : ∀ a s, m1.run t1 ≠ (.ok a, s)) : RWp G m1 m2 t1 t2 Q :=
  fun a1 s1 h1 => absurd h1 (h a1 s1)

/-- Run 1 cannot return, from a unary specification. -/
theorem RWp.leftWp {m1 : PM α} {m2 : PM β} {Q : α → LR → β → LR → Prop} {E : PErr → LR → Prop}
    (h : Wp E m1 t1 (fun _ _ => False)) : RWp G m1 m2 t1 t2 Q :=
  RWp.left (fun a s hr => h.of_run.1 a s hr)

/-- A unary specification of run 2 whose postcondition does not depend on run 1. -/
theorem RWp.right {m1 : PM α} {m2 : PM β} {Q : α → LR → β → LR → Prop}
    (h : Wp (fun e _ => G e) m2 t2 (fun a2 s2 => ∀ a1 s1, Q a1 s1 a2 s2)) :
    RWp G m1 m2 t1 t2 Q := by
  intro a1 s1 _
  exact ⟨fun a2 s2 h2 => h.of_run.1 a2 s2 h2 a1 s1, fun e s2 h2 => Or.inr (h.of_run.2 e s2 h2)⟩

theorem RWp.throwLeft {e : PErr} {m2 : PM β} {Q : α → LR → β → LR → Prop} :
    RWp G (throw e : PM α) m2 t1 t2 Q :=
  RWp.left (fun a s h => by cases h)

/-- Run 2 panics. -/
theorem RWp.panicRight {m1 : PM α} {site : String} {Q : α → LR → β → LR → Prop} :
    RWp G m1 (throw (.panic site) : PM β) t1 t2 Q := by
  intro a1 s1 _
  refine ⟨fun a2 s2 h2 => (by cases h2), fun e s2 h2 => ?_⟩
  obtain ⟨h2a, _⟩ := Prod.mk.inj (show ((.error (.panic site) : Except PErr β), t2) = (.error e, s2) from h2)
  cases h2a
  exact Good.panic _

theorem RWp.scan {f1 : View → α × View} {f2 : View → β × View} {Q : α → LR → β → LR → Prop}
    (h : Q (f1 t1.v).1 { t1 with v := (f1 t1.v).2 } (f2 t2.v).1 { t2 with v := (f2 t2.v).2 }) :
    RWp G (PM.scan f1) (PM.scan f2) t1 t2 Q := by
  intro c s1 h1
  obtain ⟨h1a, rfl⟩ := Prod.mk.inj (show ((.ok (f1 t1.v).1 : Except PErr α),
    { t1 with v := (f1 t1.v).2 }) = (.ok c, s1) from h1)
  cases h1a
  refine ⟨?_, ?_⟩
  · intro d s2 h2
    obtain ⟨h2a, rfl⟩ := Prod.mk.inj (show ((.ok (f2 t2.v).1 : Except PErr β),
      { t2 with v := (f2 t2.v).2 }) = (.ok d, s2) from h2)
    cases h2a
    exact h
  · intro e s2 h2
    have := (Prod.mk.inj (show ((.ok (f2 t2.v).1 : Except PErr β),
      { t2 with v := (f2 t2.v).2 }) = (.error e, s2) from h2)).1
    cases this

theorem RWp.reqAt {k1 k2 : Nat} {Q : Option UInt8 → LR → Option UInt8 → LR → Prop}
    (h : Q t1.v.rest[k1]? { t1 with v := t1.v.demand k1 } t2.v.rest[k2]?
      { t2 with v := t2.v.demand k2 }) :
    RWp G (PM.reqAt k1) (PM.reqAt k2) t1 t2 Q :=
  RWp.scan h

theorem RWp.getBind {g1 : LR → PM α} {g2 : LR → PM β} {Q : α → LR → β → LR → Prop}
    (h : RWp G (g1 t1) (g2 t2) t1 t2 Q) : RWp G (get >>= g1) (get >>= g2) t1 t2 Q := by
  intro a1 s1 h1
  rw [run_get_bind] at h1
  obtain ⟨hok, herr⟩ := h a1 s1 h1
  exact ⟨fun a2 s2 h2 => hok a2 s2 (by rw [run_get_bind] at h2; exact h2),
    fun e s2 h2 => herr e s2 (by rw [run_get_bind] at h2; exact h2)⟩

theorem RWp.set {u1 u2 : LR} {Q : PUnit → LR → PUnit → LR → Prop} (h : Q ⟨⟩ u1 ⟨⟩ u2) :
    RWp G (set u1 : PM PUnit) (set u2 : PM PUnit) t1 t2 Q := by
  intro c s1 h1
  obtain ⟨_, rfl⟩ := Prod.mk.inj (show ((.ok ⟨⟩ : Except PErr PUnit), u1) = (.ok c, s1) from h1)
  refine ⟨?_, ?_⟩
  · intro d s2 h2
    obtain ⟨_, rfl⟩ := Prod.mk.inj (show ((.ok ⟨⟩ : Except PErr PUnit), u2) = (.ok d, s2) from h2)
    exact h
  · intro e s2 h2
    have := (Prod.mk.inj (show ((.ok ⟨⟩ : Except PErr PUnit), u2) = (.error e, s2) from h2)).1
    cases this

theorem RWp.advance {n1 n2 : Nat} {Q : Unit → LR → Unit → LR → Prop}
    (h : n1 ≤ t1.v.demanded → n2 ≤ t2.v.demanded → Q () (advLR n1 t1) () (advLR n2 t2)) :
    RWp G (PM.advance n1) (PM.advance n2) t1 t2 Q := by
  intro c s1 h1
  rw [advance_run] at h1
  by_cases hn1 : n1 ≤ t1.v.demanded
  · simp only [hn1, ↓reduceIte] at h1
    obtain ⟨_, rfl⟩ := Prod.mk.inj h1
    refine ⟨?_, ?_⟩
    · intro d s2 h2
      rw [advance_run] at h2
      by_cases hn2 : n2 ≤ t2.v.demanded
      · simp only [hn2, ↓reduceIte] at h2
        obtain ⟨_, rfl⟩ := Prod.mk.inj h2
        exact h hn1 hn2
      · simp only [hn2, ↓reduceIte] at h2
        cases h2
    · intro e s2 h2
      rw [advance_run] at h2
      by_cases hn2 : n2 ≤ t2.v.demanded
      · simp only [hn2, ↓reduceIte] at h2
        cases h2
      · simp only [hn2, ↓reduceIte] at h2
        obtain ⟨h2a, _⟩ := Prod.mk.inj h2
        cases h2a
        exact Good.panic _
  · simp only [hn1, ↓reduceIte] at h1
    cases h1

theorem RWp.bufPrefix {n1 n2 : Nat} {Q : VBytes → LR → VBytes → LR → Prop}
    (h : n1 ≤ t1.v.demanded → n2 ≤ t2.v.demanded → Q (t1.v.rest.take n1) t1 (t2.v.rest.take n2) t2) :
    RWp G (PM.bufPrefix n1) (PM.bufPrefix n2) t1 t2 Q := by
  intro c s1 h1
  rw [bufPrefix_run] at h1
  by_cases hn1 : n1 ≤ t1.v.demanded
  · simp only [hn1, ↓reduceIte] at h1
    obtain ⟨h1a, rfl⟩ := Prod.mk.inj h1
    cases h1a
    refine ⟨?_, ?_⟩
    · intro d s2 h2
      rw [bufPrefix_run] at h2
      by_cases hn2 : n2 ≤ t2.v.demanded
      · simp only [hn2, ↓reduceIte] at h2
        obtain ⟨h2a, rfl⟩ := Prod.mk.inj h2
        cases h2a
        exact h hn1 hn2
      · simp only [hn2, ↓reduceIte] at h2
        cases h2
    · intro e s2 h2
      rw [bufPrefix_run] at h2
      by_cases hn2 : n2 ≤ t2.v.demanded
      · simp only [hn2, ↓reduceIte] at h2
        cases h2
      · simp only [hn2, ↓reduceIte] at h2
        obtain ⟨h2a, _⟩ := Prod.mk.inj h2
        cases h2a
        exact Good.panic _
  · simp only [hn1, ↓reduceIte] at h1
    cases h1

theorem RWp.advanceWithBuf {n1 n2 : Nat} {Q : VBytes → LR → VBytes → LR → Prop}
    (h : n1 ≤ t1.v.demanded → n2 ≤ t2.v.demanded →
      Q (t1.v.rest.take n1) (advLR n1 t1) (t2.v.rest.take n2) (advLR n2 t2)) :
    RWp G (PM.advanceWithBuf n1) (PM.advanceWithBuf n2) t1 t2 Q := by
  unfold PM.advanceWithBuf
  refine RWp.bind (RWp.bufPrefix fun h1 h2 => ?_)
  refine RWp.bind (RWp.advance fun _ _ => ?_)
  exact RWp.pure (h h1 h2)

theorem RWp.setMark {Q : PUnit → LR → PUnit → LR → Prop}
    (h : Q ⟨⟩ { t1 with v := t1.v.setMark } ⟨⟩ { t2 with v := t2.v.setMark }) :
    RWp G PM.setMark PM.setMark t1 t2 Q := by
  intro c s1 h1
  obtain ⟨_, rfl⟩ := Prod.mk.inj (show ((.ok ⟨⟩ : Except PErr PUnit),
    { t1 with v := t1.v.setMark }) = (.ok c, s1) from h1)
  refine ⟨?_, ?_⟩
  · intro d s2 h2
    obtain ⟨_, rfl⟩ := Prod.mk.inj (show ((.ok ⟨⟩ : Except PErr PUnit),
      { t2 with v := t2.v.setMark }) = (.ok d, s2) from h2)
    exact h
  · intro e s2 h2
    have := (Prod.mk.inj (show ((.ok ⟨⟩ : Except PErr PUnit),
      { t2 with v := t2.v.setMark }) = (.error e, s2) from h2)).1
    cases this

theorem lineAtOffset_run (off : Nat) (t : LR) :
    (PM.lineAtOffset off).run t =
      if t.line + 1 > usizeMax ∨ t.v.pos + off > usizeMax then
        (.error (.panic "line_at_offset overflow"), t)
      else (.ok (), PM.nextLine t off) := by
  unfold PM.lineAtOffset
  rw [run_get_bind]
  by_cases hc : t.line + 1 > usizeMax ∨ t.v.pos + off > usizeMax
  · simp only [hc, ↓reduceIte]; rfl
  · simp only [hc, ↓reduceIte]; rfl

theorem RWp.lineAtOffset {o1 o2 : Nat} {Q : Unit → LR → Unit → LR → Prop}
    (h : Q () (PM.nextLine t1 o1) () (PM.nextLine t2 o2)) :
    RWp G (PM.lineAtOffset o1) (PM.lineAtOffset o2) t1 t2 Q := by
  intro c s1 h1
  rw [lineAtOffset_run] at h1
  split at h1
  · cases h1
  · obtain ⟨_, rfl⟩ := Prod.mk.inj h1
    refine ⟨?_, ?_⟩
    · intro d s2 h2
      rw [lineAtOffset_run] at h2
      split at h2
      · cases h2
      · obtain ⟨_, rfl⟩ := Prod.mk.inj h2
        exact h
    · intro e s2 h2
      rw [lineAtOffset_run] at h2
      split at h2
      · obtain ⟨h2a, _⟩ := Prod.mk.inj h2
        cases h2a
        exact Good.panic _
      · cases h2

theorem giveUpAt_never {p : Nat} (t : LR) (a : α) (s : LR) :
    (PM.giveUpAt p : PM α).run t ≠ (.ok a, s) := by
  rw [giveUpAt_run]
  intro h
  cases h

theorem giveUp_never (t : LR) (a : α) (s : LR) : (PM.giveUp : PM α).run t ≠ (.ok a, s) := by
  unfold PM.giveUp
  intro h
  rw [run_bind] at h
  exact giveUpAt_never t a s h

/-- `unexpected` never returns. -/
theorem unexpected_never (t : LR) (a : α) (s : LR) : (unexpected : PM α).run t ≠ (.ok a, s) := by
  intro h
  have := (unexpected_at (Q := fun (_ : α) _ => False) (Still.refl t)).of_run.1 a s h
  exact this

theorem RWp.unexpectedLeft {m2 : PM β} {Q : α → LR → β → LR → Prop} :
    RWp G (unexpected : PM α) m2 t1 t2 Q :=
  RWp.left (unexpected_never t1)

/-! ### shifted states -/

/-- Two views with the same unconsumed input, the same look-ahead in front of the cursor and the
same end-of-data / I/O bookkeeping. -/
structure ShV (a b : View) : Prop where
  rest : a.rest = b.rest
  fault : a.fault = b.fault
  sawEnd : a.sawEnd = b.sawEnd
  ioErr : a.ioErr = b.ioErr
  la : a.peeked - a.pos = b.peeked - b.pos

def Sh (t1 t2 : LR) : Prop := ShV t1.v t2.v

theorem ShV.demanded {a b : View} (h : ShV a b) : a.demanded = b.demanded := by
  unfold View.demanded
  rw [h.la, h.rest]

theorem ShV.demand {a b : View} (h : ShV a b) (k : Nat) : ShV (a.demand k) (b.demand k) := by
  have hl : a.rest.length = b.rest.length := by rw [h.rest]
  have hla := h.la
  by_cases hk : k < a.rest.length
  · rw [demand_of_lt a k hk, demand_of_lt b k (hl ▸ hk)]
    refine ⟨h.rest, h.fault, h.sawEnd, h.ioErr, ?_⟩
    show max a.peeked (a.pos + k + 1) - a.pos = max b.peeked (b.pos + k + 1) - b.pos
    omega
  · rw [demand_of_ge a k hk, demand_of_ge b k (hl ▸ hk)]
    refine ⟨h.rest, h.fault, rfl, ?_, ?_⟩
    · show (a.ioErr || (a.fault && !a.sawEnd)) = (b.ioErr || (b.fault && !b.sawEnd))
      rw [h.ioErr, h.fault, h.sawEnd]
    · show max a.peeked (a.pos + k + 1) - a.pos = max b.peeked (b.pos + k + 1) - b.pos
      omega

theorem Sh.adv {n : Nat} (h : Sh t1 t2) : Sh (advLR n t1) (advLR n t2) := by
  have hla := h.la
  refine ⟨?_, h.fault, h.sawEnd, h.ioErr, ?_⟩
  · show t1.v.rest.drop n = t2.v.rest.drop n
    rw [h.rest]
  · show t1.v.peeked - (t1.v.pos + n) = t2.v.peeked - (t2.v.pos + n)
    omega

/-- A scanner that depends on the unconsumed input only. -/
def ShScan (f : View → α × View) : Prop :=
  ∀ a b, ShV a b → (f a).1 = (f b).1 ∧ ShV (f a).2 (f b).2

/-- From shifted states: related results in shifted states. -/
def ShWp (G : PErr → Prop) (m1 : PM α) (m2 : PM β) (ρ : α → β → Prop) : Prop :=
  ∀ t1 t2, Sh t1 t2 → RWp G m1 m2 t1 t2 (fun a1 s1 a2 s2 => ρ a1 a2 ∧ Sh s1 s2)

/-- The same program returns the same value. -/
abbrev ShC (G : PErr → Prop) (m : PM α) : Prop := ShWp G m m Eq

theorem ShWp.bind {m1 : PM α} {m2 : PM β} {f1 : α → PM γ} {f2 : β → PM δ} {ρ : α → β → Prop}
    {ρ' : γ → δ → Prop} (hm : ShWp G m1 m2 ρ) (hf : ∀ a1 a2, ρ a1 a2 → ShWp G (f1 a1) (f2 a2) ρ') :
    ShWp G (m1 >>= f1) (m2 >>= f2) ρ' :=
  fun t1 t2 h => RWp.bind' (hm t1 t2 h) (fun a1 s1 a2 s2 ⟨hr, hs⟩ => hf a1 a2 hr s1 s2 hs)

theorem ShC.bind {m : PM α} {f : α → PM γ} (hm : ShC G m) (hf : ∀ a, ShC G (f a)) :
    ShC G (m >>= f) :=
  ShWp.bind hm (fun a1 a2 h => by subst h; exact hf a1)

theorem ShWp.mono {m1 : PM α} {m2 : PM β} {ρ ρ' : α → β → Prop} (h : ShWp G m1 m2 ρ)
    (hr : ∀ a1 a2, ρ a1 a2 → ρ' a1 a2) : ShWp G m1 m2 ρ' :=
  fun t1 t2 hs => (h t1 t2 hs).mono (fun a1 _ a2 _ ⟨h1, h2⟩ => ⟨hr a1 a2 h1, h2⟩)

theorem ShWp.pure {a1 : α} {a2 : β} {ρ : α → β → Prop} (h : ρ a1 a2) :
    ShWp G (pure a1 : PM α) (pure a2 : PM β) ρ :=
  fun _ _ hs => RWp.pure ⟨h, hs⟩

theorem ShC.pure (a : α) : ShC G (pure a : PM α) := ShWp.pure rfl

/-- Run 1 never returns. -/
theorem ShWp.left {m1 : PM α} {m2 : PM β} {ρ : α → β → Prop}
    (h : ∀ t a s, m1.run t ≠ (.ok a, s)) : ShWp G m1 m2 ρ :=
  fun t1 _ _ => RWp.left (h t1)

theorem ShWp.unexpected {m2 : PM β} {ρ : α → β → Prop} : ShWp G (unexpected : PM α) m2 ρ :=
  ShWp.left unexpected_never

theorem ShWp.throw {e : PErr} {m2 : PM β} {ρ : α → β → Prop} : ShWp G (throw e : PM α) m2 ρ :=
  ShWp.left (fun _ _ _ h => by cases h)

theorem ShC.scan {f : View → α × View} (hf : ShScan f) : ShC G (PM.scan f) := by
  intro t1 t2 h
  obtain ⟨h1, h2⟩ := hf t1.v t2.v h
  exact RWp.scan ⟨h1, h2⟩

theorem shScan_reqAt (k : Nat) : ShScan (·.reqAt k) := by
  intro a b h
  refine ⟨?_, h.demand k⟩
  show a.rest[k]? = b.rest[k]?
  rw [h.rest]

theorem ShC.reqAt (k : Nat) : ShC G (PM.reqAt k) := ShC.scan (shScan_reqAt k)

theorem ShC.reqByte : ShC G PM.reqByte := ShC.reqAt 0

theorem ShC.advance (n : Nat) : ShC G (PM.advance n) :=
  fun _ _ h => RWp.advance (fun _ _ => ⟨rfl, h.adv⟩)

theorem ShC.bufPrefix (n : Nat) : ShC G (PM.bufPrefix n) :=
  fun _ _ h => RWp.bufPrefix (fun _ _ => ⟨by rw [h.rest], h⟩)

theorem ShC.advanceWithBuf (n : Nat) : ShC G (PM.advanceWithBuf n) :=
  fun _ _ h => RWp.advanceWithBuf (fun _ _ => ⟨by rw [h.rest], h.adv⟩)

theorem ShC.setMark : ShC G PM.setMark :=
  fun _ _ h => RWp.setMark ⟨rfl, ⟨h.rest, h.fault, h.sawEnd, h.ioErr, h.la⟩⟩

theorem ShC.lineAtOffset (off : Nat) : ShC G (PM.lineAtOffset off) :=
  fun _ _ h => RWp.lineAtOffset ⟨rfl, ⟨h.rest, h.fault, h.sawEnd, h.ioErr, h.la⟩⟩

/-- `get` followed by programs that agree on shifted states. -/
theorem ShWp.getBind {g1 : LR → PM α} {g2 : LR → PM β} {ρ : α → β → Prop}
    (h : ∀ u1 u2, Sh u1 u2 → ShWp G (g1 u1) (g2 u2) ρ) : ShWp G (get >>= g1) (get >>= g2) ρ :=
  fun t1 t2 hs => RWp.getBind (h t1 t2 hs t1 t2 hs)

theorem ShC.utf8Unwrap (bs : VBytes) : ShC G (PM.utf8Unwrap bs) := by
  unfold PM.utf8Unwrap
  split
  · exact ShC.pure _
  · exact ShWp.throw

theorem ShC.orGiveUp {p : PM (Option α)} (hp : ShC G p) : ShC G (PM.orGiveUp p unexpected) := by
  unfold PM.orGiveUp
  refine ShC.bind hp (fun r => ?_)
  cases r with
  | some a => exact ShC.pure a
  | none => exact ShWp.unexpected

end Cat
end Btor2
end Flussab
