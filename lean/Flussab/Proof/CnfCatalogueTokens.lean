/-
Prefix determinism inside a line (C08, replaced numeral token): the token functions of
`Model/CnfToken.lean`, run side by side on `pre ++ tok ++ post` and `pre ++ tok' ++ post` from the
two extensions of a short state.

A token that starts inside `pre` ends inside `pre`; the blanks behind it are skipped up to the
boundary at most.  At the boundary the numeral scanners (`uint`, `int`) report the replacement as
unrepresentable without consuming anything, and `var_count` / `uint_count` / the literal scanner
turn that into an error at the first byte of the token; every other token falls through in both
runs.  Only `comment` can pass over the replaced token: it leaves the runs in shifted states.
-/
import Flussab.Proof.CnfCataloguePrefix

namespace Flussab
namespace Cnf
namespace Cat
open PM
open Flussab.Btor2.Cat
open Flussab.Btor2 (demand_rest demand_pos demand_of_lt demand_of_ge demand_demand runLen_le
  runLen_eq_takeWhile demand_mark takeWhile_stop)

variable {X : Ctx} {α β : Type}

/-! ### common tails -/

theorem isEndOfWord_E {G : PErr → Prop} {q1 q2 : VBytes} {s : LR} {k : Nat}
    {Q : Bool → LR → Bool → LR → Prop}
    (h1 : k < s.v.rest.length + q1.length) (h2 : k < s.v.rest.length + q2.length)
    (h : Q (isWordEnd (s.v.rest ++ q1)[k]?) (E q1 (pk k s)) (isWordEnd (s.v.rest ++ q2)[k]?) (E q2 (pk k s))) :
    RWp G (isEndOfWord k) (isEndOfWord k) (E q1 s) (E q2 s) Q := by
  unfold isEndOfWord
  refine RWp.bind (RWp.reqAtE h1 h2 ?_)
  exact RWp.pure h

/-- `tabs_or_spaces(off)`, `advance`, return: the bytes up to `off` contain no newline. -/
theorem tabsAdvance_pw (hX : OKC X) {s : LR} (hs : St X s) (off : Nat) (hoff : off ≤ s.v.rest.length)
    (hno : ∀ x ∈ s.v.rest.take off, x ≠ 10) (a : α) :
    RWp (Loc X) (PM.scan (Text.tabsOrSpaces · off) >>= fun o => PM.advance o >>= fun _ => pure a)
      (PM.scan (Text.tabsOrSpaces · off) >>= fun o => PM.advance o >>= fun _ => pure a)
      (E X.q1 s) (E X.q2 s) (Post X No2 No1 No1) := by
  obtain ⟨d1, tl1, e1, hd1⟩ := hX.q1_hd
  obtain ⟨d2, tl2, e2, hd2⟩ := hX.q2_hd
  have l1 := hX.q1_len
  have l2 := hX.q2_len
  have hle := tabs_le s off hoff
  refine RWp.bind (RWp.scanE (f1 := (Text.tabsOrSpaces · off)) (f2 := (Text.tabsOrSpaces · off))
    (tabs_E e1 (dig_not_blank hd1) s off hoff) (tabs_E e2 (dig_not_blank hd2) s off hoff)
    (by omega) (by omega) ?_)
  refine RWp.bind (RWp.advanceE (by simp only [pk_rest]; exact hle) ?_)
  exact RWp.pure (Post.inP (hs.adv_pk hle hle (take_tabs_nolf _ off hno)))

/-- `line_at_offset(n0 + 1)`, `tabs_or_spaces`, `advance`, return — behind `n0` bytes without
newline and a newline. -/
theorem lineTail_pw (hX : OKC X) {s : LR} (hs : St X s) (n0 : Nat)
    (hno : ∀ x ∈ s.v.rest.take n0, x ≠ 10) (h10 : s.v.rest[n0]? = some 10) (a : α) :
    RWp (Loc X)
      (PM.lineAtOffset (n0 + 1) >>= fun _ => PM.scan (Text.tabsOrSpaces · (n0 + 1)) >>= fun o =>
        PM.advance o >>= fun _ => pure a)
      (PM.lineAtOffset (n0 + 1) >>= fun _ => PM.scan (Text.tabsOrSpaces · (n0 + 1)) >>= fun o =>
        PM.advance o >>= fun _ => pure a)
      (E X.q1 s) (E X.q2 s) (Post X No2 No1 No1) := by
  obtain ⟨d1, tl1, e1, hd1⟩ := hX.q1_hd
  obtain ⟨d2, tl2, e2, hd2⟩ := hX.q2_hd
  have l1 := hX.q1_len
  have l2 := hX.q2_len
  have hlt : n0 < s.v.rest.length := (List.getElem?_eq_some_iff.mp h10).1
  have hoff : n0 + 1 ≤ (PM.nextLine s (n0 + 1)).v.rest.length := hlt
  have hle := tabs_le (PM.nextLine s (n0 + 1)) (n0 + 1) hoff
  refine RWp.bind (RWp.lineAtOffset ?_)
  show RWp _ _ _ (E X.q1 (PM.nextLine s (n0 + 1))) (E X.q2 (PM.nextLine s (n0 + 1))) _
  refine RWp.bind (RWp.scanE (f1 := (Text.tabsOrSpaces · (n0 + 1))) (f2 := (Text.tabsOrSpaces · (n0 + 1)))
    (tabs_E e1 (dig_not_blank hd1) _ (n0 + 1) hoff) (tabs_E e2 (dig_not_blank hd2) _ (n0 + 1) hoff)
    (by simp only [nextLine_v] at hle ⊢; omega) (by simp only [nextLine_v] at hle ⊢; omega) ?_)
  refine RWp.bind (RWp.advanceE (by simp only [pk_rest]; exact hle) ?_)
  refine RWp.pure (Post.inP ?_)
  simp only [nextLine_v] at hle
  refine St.of_line hs n0 (Text.runLen isBlank (s.v.rest.drop (n0 + 1))) hno h10 ?_ hle rfl rfl rfl rfl ?_
  · exact fun x hx => blank_ne_lf x (runLen_take_all isBlank _ x hx)
  · have := hs.peek
    show max s.v.peeked (s.v.pos + (n0 + 1 + Text.runLen isBlank (s.v.rest.drop (n0 + 1))) + 1) ≤ _
    omega

/-- `line_at_offset(n0 + 1)`, `advance`, return (`interactive_newline`). -/
theorem lineTail0_pw (hX : OKC X) {s : LR} (hs : St X s) (n0 : Nat)
    (hno : ∀ x ∈ s.v.rest.take n0, x ≠ 10) (h10 : s.v.rest[n0]? = some 10) (a : α) :
    RWp (Loc X)
      (PM.lineAtOffset (n0 + 1) >>= fun _ => PM.advance (n0 + 1) >>= fun _ => pure a)
      (PM.lineAtOffset (n0 + 1) >>= fun _ => PM.advance (n0 + 1) >>= fun _ => pure a)
      (E X.q1 s) (E X.q2 s) (Post X No2 No1 No1) := by
  have hlt : n0 < s.v.rest.length := (List.getElem?_eq_some_iff.mp h10).1
  refine RWp.bind (RWp.lineAtOffset ?_)
  show RWp _ _ _ (E X.q1 (PM.nextLine s (n0 + 1))) (E X.q2 (PM.nextLine s (n0 + 1))) _
  refine RWp.bind (RWp.advanceE (s := PM.nextLine s (n0 + 1)) hlt ?_)
  refine RWp.pure (Post.inP ?_)
  refine St.of_line hs n0 0 hno h10 (by simp) (by omega) rfl rfl rfl rfl hs.peek

/-! ### words -/

theorem matchLen_full {pat l : VBytes} (h : Text.matchLen pat l = pat.length) : l.take pat.length = pat := by
  induction pat generalizing l with
  | nil => simp
  | cons p ps ih =>
    cases l with
    | nil => simp [Text.matchLen] at h
    | cons b bs =>
      simp only [Text.matchLen] at h
      split at h
      · rename_i hpb
        have hpb' : p = b := by simpa using hpb
        simp only [List.length_cons, Nat.add_right_cancel_iff] at h
        simp [List.take_succ_cons, ih h, hpb']
      · simp at h

theorem word_pw (hX : OKC X) (pat : VBytes) (hne : pat ≠ [])
    (hpat : ∀ x ∈ pat, isDigit x = false ∧ x ≠ 10) : PWP X (word pat) (word pat) := by
  intro s hs
  obtain ⟨d1, tl1, e1, hd1⟩ := hX.q1_hd
  obtain ⟨d2, tl2, e2, hd2⟩ := hX.q2_hd
  have l1 := hX.q1_len
  have l2 := hX.q2_len
  have hp1 : ∀ x ∈ pat, x ≠ d1 := by
    intro x hx he; subst he; rw [(hpat x hx).1] at hd1; cases hd1
  have hp2 : ∀ x ∈ pat, x ≠ d2 := by
    intro x hx he; subst he; rw [(hpat x hx).1] at hd2; cases hd2
  have f1 := fixed_E e1 s pat hne hp1
  have f2 := fixed_E e2 s pat hne hp2
  obtain ⟨hm1, hm2⟩ := matchLen_le pat s.v.rest
  have hpos : 0 < pat.length := List.length_pos_iff.mpr hne
  unfold word
  by_cases hm : Text.matchLen pat s.v.rest = pat.length
  · simp only [hm, ↓reduceIte] at f1 f2
    refine RWp.bind (RWp.scanE (f1 := (Text.fixed · 0 pat)) (f2 := (Text.fixed · 0 pat)) f1 f2
      (by omega) (by omega) ?_)
    have hn0 : (pat.length != 0) = true := by rw [bne_iff_ne]; omega
    simp only [hn0, ↓reduceIte]
    refine RWp.bind (isEndOfWord_E (by simp only [pk_rest]; omega) (by simp only [pk_rest]; omega) ?_)
    simp only [pk_rest]
    by_cases hlt : pat.length < s.v.rest.length
    · have g1 : (s.v.rest ++ X.q1)[pat.length]? = s.v.rest[pat.length]? := getElem_E_lt _ _ hlt
      have g2 : (s.v.rest ++ X.q2)[pat.length]? = s.v.rest[pat.length]? := getElem_E_lt _ _ hlt
      simp only [g1, g2]
      split
      · have hst := (hs.pk (pat.length - 1) (by omega)).pk pat.length (by simp only [pk_rest]; omega)
        refine (tabsAdvance_pw hX hst pat.length (by simp only [pk_rest]; omega) ?_ _).mono
          (fun _ _ _ _ h => h)
        simp only [pk_rest]
        rw [matchLen_full hm]
        exact fun x hx => (hpat x hx).2
      · exact RWp.pure (Post.inP ((hs.pk _ (by omega)).pk _ (by simp only [pk_rest]; omega)))
    · have he : pat.length = s.v.rest.length := by omega
      simp only [he, getElem_E_eq s e1, getElem_E_eq s e2, dig_not_wordEnd hd1, dig_not_wordEnd hd2,
        Bool.false_eq_true, ↓reduceIte]
      exact RWp.pure (Post.inP ((hs.pk _ (by omega)).pk _ (by simp only [pk_rest]; omega)))
  · simp only [hm, ↓reduceIte] at f1 f2
    refine RWp.bind (RWp.scanE (f1 := (Text.fixed · 0 pat)) (f2 := (Text.fixed · 0 pat)) f1 f2
      (by omega) (by omega) ?_)
    simp only [bne_self_eq_false, Bool.false_eq_true, ↓reduceIte]
    exact RWp.pure (Post.inP (hs.pk _ (by omega)))

/-! ### numbers inside the short input -/

theorem numberTail_in (hX : OKC X) {s : LR} (hs : St X s) (value : Option Int) (off : Nat)
    (hoff : off < s.v.rest.length) (hno : ∀ x ∈ s.v.rest.take off, x ≠ 10) :
    RWp (Loc X) (numberTail value off) (numberTail value off) (E X.q1 s) (E X.q2 s)
      (Post X No2 No1 No1) := by
  have l1 := hX.q1_len
  have l2 := hX.q2_len
  unfold numberTail
  split
  · refine RWp.bind (isEndOfWord_E (by omega) (by omega) ?_)
    simp only [getElem_E_lt _ _ hoff]
    split
    · split
      · exact tabsAdvance_pw hX (hs.pk off (by omega)) off (by simp only [pk_rest]; omega)
          (by simp only [pk_rest]; exact hno) _
      · refine RWp.bind (RWp.bufPrefixE (by simp only [pk_rest]; omega) ?_)
        refine RWp.bind (utf8Unwrap_rwp _ ?_)
        exact RWp.pure (Post.inP (hs.pk off (by omega)))
    · exact RWp.pure (Post.inP (hs.pk off (by omega)))
  · exact RWp.pure (Post.inP hs)

theorem uint_in (hX : OKC X) (t : IntTy) (hb : 1 ≤ t.bits) {s : LR} (hs : St X s)
    (hne : s.v.rest ≠ []) :
    RWp (Loc X) (uint t) (uint t) (E X.q1 s) (E X.q2 s) (Post X No2 No1 No1) := by
  have l1 := hX.q1_len
  have l2 := hX.q2_len
  have h0 : 0 < s.v.rest.length := List.length_pos_iff.mpr hne
  have f1 := asciiDigitsT_eq t hb (E X.q1 s).v 0
  have f2 := asciiDigitsT_eq t hb (E X.q2 s).v 0
  obtain ⟨a1, hlt⟩ := takeWhile_E hs 0 h0 X.q1
  obtain ⟨a2, _⟩ := takeWhile_E hs 0 h0 X.q2
  simp only [E_rest] at f1 f2
  rw [a1] at f1
  rw [a2] at f2
  simp only [List.drop_zero] at f1 f2 hlt
  unfold uint
  refine RWp.bind (RWp.scanE (f1 := (Text.asciiDigits t · 0)) (f2 := (Text.asciiDigits t · 0))
    f1 f2 (by omega) (by omega) ?_)
  dsimp only
  refine numberTail_in hX (hs.pk _ (by omega)) _ _ (by simp only [pk_rest]; omega) ?_
  have := takeWhile_nolf s.v.rest 0
  simpa using this

theorem int_in (hX : OKC X) (t : IntTy) (hb : 1 ≤ t.bits) {s : LR} (hs : St X s)
    (hne : s.v.rest ≠ []) :
    RWp (Loc X) (int t) (int t) (E X.q1 s) (E X.q2 s) (Post X No2 No1 No1) := by
  have l1 := hX.q1_len
  have l2 := hX.q2_len
  obtain ⟨a, k, hk, hak, hno, hf⟩ := signed_E t hb hs hne
  unfold int
  refine RWp.bind (RWp.scanE (f1 := (Text.signedAsciiDigits t · 0)) (f2 := (Text.signedAsciiDigits t · 0))
    (hf X.q1) (hf X.q2) (by omega) (by omega) ?_)
  obtain ⟨value, off⟩ := a
  dsimp only
  exact numberTail_in hX (hs.pk _ (by omega)) _ _ (by simp only [pk_rest]; omega)
    (by simp only [pk_rest]; exact hno)

/-! ### numbers at the boundary (run 2) -/

theorem q2_takeWhile (hX : OKC X) : X.q2.takeWhile isDigit = X.tok' := by
  obtain ⟨c, tl, hp, hc⟩ := hX.post_hd
  unfold Ctx.q2
  rw [hp]
  exact Flussab.Btor2.takeWhile_append isDigit _ c tl hX.tok'_dig (ws_not_digit' hc)

theorem numValT_big (hX : OKC X) (t : IntTy) (hfit : t.maxVal < 2 ^ 64) : numValT t X.tok' = none := by
  unfold numValT
  have hb := hX.big
  have : t.fits (Text.decVal X.tok' : Nat) = false := by
    cases h : t.fits (Text.decVal X.tok' : Nat)
    · rfl
    · rw [IntTy.fits_iff] at h
      have h2 := h.2
      omega
  simp [this]

/-- What a rejected numeral leaves behind: nothing consumed, same line, same mark. -/
structure Stay (u u' : LR) : Prop where
  pos : u'.v.pos = u.v.pos
  line : u'.line = u.line
  lineStart : u'.lineStart = u.lineStart
  mark : u'.v.mark = u.v.mark

theorem numberTail_bd (hX : OKC X) {E : PErr → LR → Prop} {u0 u : LR} (hst : Stay u0 u)
    (hu : u.v.rest = X.q2) (hpk : u.v.pos + X.tok'.length + 1 ≤ u.v.peeked) :
    Wp E (numberTail none X.tok'.length) u (fun r u' => r = some none ∧ Stay u0 u') := by
  obtain ⟨c, tl, hp, hc⟩ := hX.post_hd
  have hpos := hX.tok'_pos
  have hlen : X.tok'.length < u.v.rest.length := by
    rw [hu]; unfold Ctx.q2; rw [hp]; simp
  have hget : u.v.rest[X.tok'.length]? = some c := by
    rw [hu]; unfold Ctx.q2
    rw [List.getElem?_append_right (Nat.le_refl _), Nat.sub_self, hp]; rfl
  unfold numberTail
  have hn0 : (X.tok'.length != 0) = true := by rw [bne_iff_ne]; omega
  simp only [hn0, ↓reduceIte]
  unfold isEndOfWord
  refine Wp.bind (Wp.bind (Wp.reqAt ?_))
  rw [hget]
  refine Wp.pure ?_
  simp only [wordEnd_of_ws hc, ↓reduceIte]
  rw [demand_of_lt _ _ hlen]
  refine Wp.bind (Wp.bufPrefix ?_ ?_)
  · show X.tok'.length ≤ min (max u.v.peeked (u.v.pos + X.tok'.length + 1) - u.v.pos) u.v.rest.length
    omega
  · refine Wp.bind (Wp.utf8Unwrap ?_ ?_)
    · intro x hx
      simp only at hx
      rw [hu] at hx
      unfold Ctx.q2 at hx
      rw [List.take_append_of_le_length (Nat.le_refl _), List.take_length] at hx
      exact digit_lt x (List.all_eq_true.mp hX.tok'_dig x hx)
    · exact Wp.pure ⟨rfl, ⟨hst.pos, hst.line, hst.lineStart, hst.mark⟩⟩

/-- `uint::<T>` on the replacement token: `Err(numeral)`, nothing consumed. -/
theorem uint_bd (hX : OKC X) (t : IntTy) (hb : 1 ≤ t.bits) (hfit : t.maxVal < 2 ^ 64)
    {E : PErr → LR → Prop} {u : LR} (hu : u.v.rest = X.q2) :
    Wp E (uint t) u (fun r u' => r = some none ∧ Stay u u') := by
  obtain ⟨c, tl, hp, hc⟩ := hX.post_hd
  have hlen : X.tok'.length < u.v.rest.length := by
    rw [hu]; unfold Ctx.q2; rw [hp]; simp
  have f := asciiDigitsT_eq t hb u.v 0
  simp only [List.drop_zero, Nat.zero_add, hu, q2_takeWhile hX, numValT_big hX t hfit] at f
  unfold uint
  refine Wp.bind (Wp.scan ?_)
  rw [f]
  dsimp only
  rw [demand_of_lt _ _ hlen]
  refine numberTail_bd hX ⟨rfl, rfl, rfl, rfl⟩ hu ?_
  show u.v.pos + X.tok'.length + 1 ≤ max u.v.peeked (u.v.pos + X.tok'.length + 1)
  omega

theorem int_bd (hX : OKC X) (t : IntTy) (hb : 1 ≤ t.bits) (hfit : t.maxVal < 2 ^ 64)
    {E : PErr → LR → Prop} {u : LR} (hu : u.v.rest = X.q2) :
    Wp E (int t) u (fun r u' => r = some none ∧ Stay u u') := by
  obtain ⟨c, tl, hp, hc⟩ := hX.post_hd
  obtain ⟨d2, tl2, e2, hd2⟩ := hX.q2_hd
  have hlen : X.tok'.length < u.v.rest.length := by
    rw [hu]; unfold Ctx.q2; rw [hp]; simp
  have hne : ¬ u.v.rest[0]? = some 45 := by
    rw [hu, e2]
    simp only [List.getElem?_cons_zero, Option.some.injEq]
    exact dig_ne hd2 (c := 45) (Or.inl (by decide))
  have f := asciiDigitsT_eq t hb u.v 0
  simp only [List.drop_zero, Nat.zero_add, hu, q2_takeWhile hX, numValT_big hX t hfit] at f
  unfold int
  refine Wp.bind (Wp.scan ?_)
  rw [signed_of_ne t _ hne, f]
  dsimp only
  rw [demand_of_lt _ _ hlen]
  refine numberTail_bd hX ⟨rfl, rfl, rfl, rfl⟩ hu ?_
  show u.v.pos + X.tok'.length + 1 ≤ max u.v.peeked (u.v.pos + X.tok'.length + 1)
  omega

/-- `give_up_at(p)` for a position `p` on the token. -/
theorem giveUpAt_loc {u : LR} {p : Nat} {Q : α → LR → Prop} (hle : u.lineStart ≤ p)
    (hloc : Loc X (.syn u.line (p - u.lineStart + 1))) :
    Wp (fun e _ => Loc X e) (PM.giveUpAt p : PM α) u Q :=
  Wp.giveUpAt (fun _ => by intro l c h; cases h) (fun _ => ⟨hle, hloc⟩)

theorem St.bd_loc (hX : OKC X) {s : LR} (hs : St X s) (hr : s.v.rest = []) :
    s.lineStart ≤ s.v.pos ∧ Loc X (.syn s.line (s.v.pos - s.lineStart + 1)) :=
  ⟨(hs.colA (by rw [hr]; rfl)).1, hs.loc hr 0 hX.tok'_pos⟩

/-! ### the numeral tokens -/

theorem usize_fit : usizeTy.maxVal < 2 ^ 64 := by decide
theorem u64_fit : u64Ty.maxVal < 2 ^ 64 := by decide
theorem isize_fit : isizeTy.maxVal < 2 ^ 64 := by decide

theorem varCount_pw (hX : OKC X) (l : LitTy) : PWP X (varCount l) (varCount l) := by
  intro s hs
  by_cases hr : s.v.rest = []
  · obtain ⟨hle, hloc⟩ := St.bd_loc hX hs hr
    refine RWp.right ?_
    unfold varCount
    refine Wp.bind (Wp.setMark ?_)
    refine Wp.bind' (uint_bd hX usizeTy (by decide) usize_fit (by show s.v.rest ++ X.q2 = X.q2; rw [hr]; rfl)) ?_
    rintro r u' ⟨rfl, hst⟩
    dsimp only
    unfold exceedsVarCount
    refine Wp.bind (Wp.mark ?_)
    rw [hst.mark]
    refine giveUpAt_loc (by rw [hst.lineStart]; exact hle) ?_
    rw [hst.line, hst.lineStart]
    exact hloc
  · unfold varCount
    refine RWp.bind (RWp.setMark ?_)
    refine RWp.bind' (uint_in hX usizeTy (by decide) hs.setMark hr) ?_
    intro a1 u1 a2 u2 hp
    rcases hp with ⟨rfl, s3, hs3, rfl, rfl⟩ | ⟨h, _⟩ | ⟨h, _⟩ | ⟨h, _⟩
    · split
      · exact RWp.pure (Post.inP hs3)
      · exact RWp.left (exceedsVarCount_never _)
      · split
        · exact RWp.left (exceedsVarCount_never _)
        · exact RWp.pure (Post.inP hs3)
    · exact h.elim
    · exact h.elim
    · exact h.elim

theorem uintCount_pw (hX : OKC X) (t : IntTy) (hb : 1 ≤ t.bits) (hfit : t.maxVal < 2 ^ 64) :
    PWP X (uintCount t) (uintCount t) := by
  intro s hs
  by_cases hr : s.v.rest = []
  · obtain ⟨hle, hloc⟩ := St.bd_loc hX hs hr
    refine RWp.right ?_
    unfold uintCount
    refine Wp.bind (Wp.setMark ?_)
    refine Wp.bind' (uint_bd hX t hb hfit (by show s.v.rest ++ X.q2 = X.q2; rw [hr]; rfl)) ?_
    rintro r u' ⟨rfl, hst⟩
    dsimp only
    unfold PM.giveUp
    refine Wp.bind (Wp.position ?_)
    rw [hst.pos]
    refine giveUpAt_loc (by rw [hst.lineStart]; exact hle) ?_
    rw [hst.line, hst.lineStart]
    exact hloc
  · unfold uintCount
    refine RWp.bind (RWp.setMark ?_)
    refine RWp.bind' (uint_in hX t hb hs.setMark hr) ?_
    intro a1 u1 a2 u2 hp
    rcases hp with ⟨rfl, s3, hs3, rfl, rfl⟩ | ⟨h, _⟩ | ⟨h, _⟩ | ⟨h, _⟩
    · split
      · exact RWp.pure (Post.inP hs3)
      · exact RWp.left (giveUp_never _)
      · exact RWp.pure (Post.inP hs3)
    · exact h.elim
    · exact h.elim
    · exact h.elim

/-- `lit_int` from a state whose mark is at the cursor (`clause_lits` sets it). -/
theorem litInt_pwm (hX : OKC X) : PWM X litInt litInt := by
  intro s hs hmk
  by_cases hr : s.v.rest = []
  · obtain ⟨hle, hloc⟩ := St.bd_loc hX hs hr
    refine RWp.right ?_
    unfold litInt
    refine Wp.bind' (int_bd hX isizeTy (by decide) isize_fit (by show s.v.rest ++ X.q2 = X.q2; rw [hr]; rfl)) ?_
    rintro r u' ⟨rfl, hst⟩
    dsimp only
    unfold exceedsVarCount
    refine Wp.bind (Wp.mark ?_)
    rw [hst.mark]
    have hm : (E X.q2 s).v.mark = s.v.pos := hmk
    rw [hm]
    refine giveUpAt_loc (by rw [hst.lineStart]; exact hle) ?_
    rw [hst.line, hst.lineStart]
    exact hloc
  · unfold litInt
    refine RWp.bind' (int_in hX isizeTy (by decide) hs hr) ?_
    intro a1 u1 a2 u2 hp
    rcases hp with ⟨rfl, s3, hs3, rfl, rfl⟩ | ⟨h, _⟩ | ⟨h, _⟩ | ⟨h, _⟩
    · split
      · exact RWp.pure (Post.inP hs3)
      · exact RWp.left (exceedsVarCount_never _)
      · exact RWp.pure (Post.inP hs3)
    · exact h.elim
    · exact h.elim
    · exact h.elim

/-- `braced_uint`: a `{` inside the short input has its `}` there too. -/
theorem bracedUint_pw (hX : OKC X) (t : IntTy) (hb : 1 ≤ t.bits) :
    PWP X (bracedUint t) (bracedUint t) := by
  intro s hs
  obtain ⟨d1, tl1, e1, hd1⟩ := hX.q1_hd
  obtain ⟨d2, tl2, e2, hd2⟩ := hX.q2_hd
  have l1 := hX.q1_len
  have l2 := hX.q2_len
  unfold bracedUint
  refine RWp.bind (RWp.reqAtE (k := 0) (by omega) (by omega) ?_)
  cases hr : s.v.rest with
  | nil =>
    have g1 : ([] ++ X.q1)[0]? = some d1 := by rw [e1]; rfl
    have g2 : ([] ++ X.q2)[0]? = some d2 := by rw [e2]; rfl
    have n1 : ((some d1 : Option UInt8) != some 123) = true := by
      have := dig_ne hd1 (c := 123) (Or.inr (by decide)); simpa using this
    have n2 : ((some d2 : Option UInt8) != some 123) = true := by
      have := dig_ne hd2 (c := 123) (Or.inr (by decide)); simpa using this
    simp only [g1, g2, n1, n2, ↓reduceIte]
    exact RWp.pure (Post.inP (hs.pk 0 (Nat.zero_le _)))
  | cons x r1 =>
    simp only [List.cons_append, List.getElem?_cons_zero]
    split
    · exact RWp.pure (Post.inP (hs.pk 0 (Nat.zero_le _)))
    · rename_i hx
      have hx' : x = 123 := by simpa using hx
      subst hx'
      have hne : s.v.rest ≠ [] := by rw [hr]; simp
      obtain ⟨c, hlast, hc⟩ := hs.last hne
      have h1 : 1 < s.v.rest.length := by
        cases r1 with
        | nil =>
          rw [hr] at hlast
          simp only [List.getLast?_singleton, Option.some.injEq] at hlast
          subst hlast
          rcases hc with h | h <;> cases h
        | cons _ _ => rw [hr]; simp
      have hst0 := hs.pk 0 (Nat.zero_le _)
      have f1 := asciiDigitsT_eq t hb (E X.q1 (pk 0 s)).v 1
      have f2 := asciiDigitsT_eq t hb (E X.q2 (pk 0 s)).v 1
      obtain ⟨a1, hlt⟩ := takeWhile_E hst0 1 (by simp only [pk_rest]; exact h1) X.q1
      obtain ⟨a2, _⟩ := takeWhile_E hst0 1 (by simp only [pk_rest]; exact h1) X.q2
      simp only [E_rest] at f1 f2
      rw [a1] at f1
      rw [a2] at f2
      simp only [pk_rest] at f1 f2 hlt
      refine RWp.bind (RWp.scanE (f1 := (Text.asciiDigits t · 1)) (f2 := (Text.asciiDigits t · 1))
        f1 f2 (by simp only [pk_rest]; omega) (by simp only [pk_rest]; omega) ?_)
      dsimp only
      generalize hn : 1 + ((s.v.rest.drop 1).takeWhile isDigit).length = n at hlt ⊢
      have hstn := hst0.pk n (by simp only [pk_rest]; omega)
      split
      · refine RWp.bind (RWp.reqAtE (k := n) (by simp only [pk_rest]; omega) (by simp only [pk_rest]; omega) ?_)
        simp only [pk_rest]
        simp only [getElem_E_lt _ _ hlt]
        have hstn2 := hstn.pk n (by simp only [pk_rest]; omega)
        -- the bytes `{`, digits: no newline
        have hno : ∀ y ∈ s.v.rest.take n, y ≠ 10 := by
          intro y hy
          rw [← hn, List.take_add, List.mem_append] at hy
          rcases hy with hy | hy
          · rw [hr] at hy
            simp only [List.take_succ_cons, List.take_zero, List.mem_singleton] at hy
            rw [hy]; decide
          · exact takeWhile_nolf s.v.rest 1 y hy
        split
        · rename_i h125
          have h125' : s.v.rest[n]? = some 125 := by simpa using h125
          have hno' : ∀ y ∈ s.v.rest.take (n + 1), y ≠ 10 := by
            intro y hy
            rw [List.take_add, List.mem_append] at hy
            rcases hy with hy | hy
            · exact hno y hy
            · have hlt' : n < s.v.rest.length := hlt
              rw [List.drop_eq_getElem_cons hlt'] at hy
              simp only [List.take_succ_cons, List.take_zero, List.mem_singleton] at hy
              have : s.v.rest[n] = 125 := by
                rw [List.getElem?_eq_getElem hlt'] at h125'; exact Option.some.inj h125'
              rw [hy, this]; decide
          split
          · exact (tabsAdvance_pw hX hstn2 (n + 1) (by simp only [pk_rest]; omega)
              (by simp only [pk_rest]; exact hno') _)
          · refine RWp.bind (RWp.bufPrefixE (by simp only [pk_rest]; omega) ?_)
            refine RWp.bind (utf8Unwrap_rwp _ ?_)
            exact RWp.pure (Post.inP hstn2)
        · exact RWp.pure (Post.inP hstn2)
      · exact RWp.pure (Post.inP hstn)

theorem clauseGroup_pw (hX : OKC X) (limit : Int) : PWP X (clauseGroup limit) (clauseGroup limit) := by
  intro s hs
  unfold clauseGroup
  refine RWp.bind (RWp.setMark ?_)
  refine RWp.bind' (bracedUint_pw hX usizeTy (by decide) _ hs.setMark) ?_
  intro a1 u1 a2 u2 hp
  rcases hp with ⟨rfl, s3, hs3, rfl, rfl⟩ | ⟨h, _⟩ | ⟨h, _⟩ | ⟨h, _⟩
  · split
    · exact RWp.pure (Post.inP hs3)
    · exact RWp.left (giveUp_never _)
    · split
      · exact RWp.left (exceedsVarCount_never _)
      · exact RWp.pure (Post.inP hs3)
  · exact h.elim
  · exact h.elim
  · exact h.elim

end Cat
end Cnf
end Flussab
