/-
The canonical layout renders exactly what the writers of `flussab-cnf` produce:
`(Layout.canonical cs).render fmt h cs = Cnf.writeDoc fmt h cs`.
-/
import Flussab.Spec.Layout

namespace Flussab.CnfP
open Flussab Flussab.Cnf Flussab.Spec
set_option linter.unusedSimpArgs false

theorem intNumeral_zero (x : Int) : intNumeral 0 x = intText x := by
  unfold intNumeral numeral intText Writer.intDigits
  simp

theorem terminator_canonical : terminator false 0 = [48] := by decide

theorem renderLits_canonical (xs : List Int) :
    renderLits (xs.map fun _ => (0, Sep.blank {})) xs = (xs.map fun l => intText l ++ [32]).flatten := by
  induction xs with
  | nil => rfl
  | cons x xs ih =>
    simp only [List.map_cons, renderLits, ih, intNumeral_zero, List.flatten_cons, List.append_assoc]
    rfl

/-- `' ' l₁ ' ' l₂ … ' '` read as "space before each" or "space after each". -/
theorem flatten_shift (s : VBytes) (f : Int → VBytes) (xs : List Int) :
    s ++ (xs.map fun l => f l ++ s).flatten = (xs.map fun l => s ++ f l).flatten ++ s := by
  induction xs with
  | nil => simp
  | cons x xs ih =>
    simp only [List.map_cons, List.flatten_cons, List.append_assoc]
    rw [ih]

theorem renderClauseBody_canonical (fmt : Format) (c : Clause) :
    renderClauseBody fmt (ClauseLayout.canonical c) c ++ [10] = writeClause fmt c := by
  unfold renderClauseBody renderTag writeClause ClauseLayout.canonical
  cases fmt with
  | cnf =>
    simp only [renderLits_canonical, terminator_canonical, renderBlanks, renderJunk, List.map_nil,
      List.nil_append, List.append_nil, List.append_assoc]
    rfl
  | wcnf =>
    simp only [renderLits_canonical, terminator_canonical, renderBlanks, renderJunk, List.map_nil,
      List.nil_append, List.append_nil, List.append_assoc, intNumeral_zero, Sep.render, Blank1.render]
    have := flatten_shift [32] intText c.lits
    simp only [BlankCh.byte]
    rw [← List.append_assoc [32], this]
    simp
  | gcnf =>
    simp only [renderLits_canonical, terminator_canonical, renderBlanks, renderJunk, List.map_nil,
      List.nil_append, List.append_nil, List.append_assoc, intNumeral_zero, Sep.render, Blank1.render,
      BlankCh.byte]
    rfl

theorem renderClauses_canonical (fmt : Format) (cs : List Clause) :
    renderClauses fmt (cs.map ClauseLayout.canonical) cs (some ([], [])) =
      (cs.map (writeClause fmt)).flatten := by
  induction cs with
  | nil => rfl
  | cons c cs ih =>
    simp only [List.map_cons, renderClauses, Option.isNone_some, Bool.and_false, Bool.false_eq_true,
      ↓reduceIte, ih, List.flatten_cons]
    rw [← renderClauseBody_canonical]
    rfl

theorem renderHeader_canonical (fmt : Format) (h : Header) :
    renderHeader {} fmt h = writeHeader fmt h := by
  unfold renderHeader writeHeader
  cases fmt <;>
    simp [intNumeral_zero, Blank1.render, renderBlanks, BlankCh.byte, Eol.render]

/-- **The writers produce the canonical layout.** -/
theorem render_canonical (fmt : Format) (h : Option Header) (cs : List Clause) :
    (Layout.canonical cs).render fmt h cs = writeDoc fmt h cs := by
  unfold Layout.render writeDoc Layout.canonical
  simp only [renderBlanks, renderJunk, List.map_nil, List.nil_append]
  by_cases hc : (h.isNone && cs.isEmpty) = true
  · simp only [hc, ↓reduceIte]
    simp only [Bool.and_eq_true, Option.isNone_iff_eq_none, List.isEmpty_iff] at hc
    obtain ⟨h1, h2⟩ := hc
    subst h1; subst h2
    rfl
  · simp only [hc, ↓reduceIte, renderClauses_canonical]
    cases h <;> simp [renderHeader_canonical, renderClauses_canonical]

theorem fitsClauses_canonical (cs : List Clause) : FitsClauses (cs.map ClauseLayout.canonical) cs := by
  induction cs with
  | nil => trivial
  | cons c cs ih =>
    refine ⟨by simp [ClauseLayout.canonical], ?_, ih⟩
    simp [ClauseLayout.valid, ClauseLayout.canonical, Junk.valid, Sep.valid]

theorem fits_canonical (cs : List Clause) : (Layout.canonical cs).Fits cs :=
  ⟨rfl, fitsClauses_canonical cs, rfl⟩

end Flussab.CnfP
