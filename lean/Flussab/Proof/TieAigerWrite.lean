/-
Tie between `impl Writer` of `/repo/flussab-aiger/src/ascii.rs` / `binary.rs` (generated:
`Gen/AigerWriteGen.lean`, `Gen/AigerBinWriteGen.lean`) and the writers of `Model/Aiger.lean` — proofs.
Statements: `Props/TieAigerWrite.lean`.
-/
import Flussab.Gen.AigerWriteGen
import Flussab.Gen.AigerBinWriteGen
import Flussab.Props.TieWriter
import Flussab.Proof.AigerVarint

namespace Flussab
namespace TieAigerWriteAux

open Writer (Op)
open AigerWriteExt

/-- The generated call an op of the format writers stands for. -/
def genOp : Op → RM Writer Unit
  | .write bs => Gen.Writer.writeAllDeferErr bs
  | .digits s b x => Gen.WriteText.asciiDigits s b x
  | _ => pure ()

def genSeq : List Op → RM Writer Unit
  | [] => pure ()
  | op :: ops => do genOp op; genSeq ops

/-- write / digits ops (the only ones the format writers issue). -/
def WD : Op → Prop
  | .write _ => True
  | .digits _ _ _ => True
  | _ => False

theorem genSeq_append (a b : List Op) (w : Writer) :
    genSeq (a ++ b) w = (do genSeq a; genSeq b : RM Writer Unit) w := by
  induction a generalizing w with
  | nil => rfl
  | cons op a ih =>
    show (genOp op >>= fun _ => genSeq (a ++ b)) w = _
    show _ = ((genOp op >>= fun _ => genSeq a) >>= fun _ => genSeq b) w
    simp only [RM.bind_apply]
    rcases genOp op w with ⟨_ | u, w'⟩
    · rfl
    · exact ih w'

theorem genOp_eq (op : Op) (hwd : WD op) (hv : op.Valid) (w : Writer) (h : w.buf.length ≤ w.cap) :
    genOp op w = match op.run w with
      | (none, w') => (none, w')
      | (some _, w') => (some (), w') := by
  cases op with
  | write bs =>
    simp only [genOp, Op.run, TieWriter.write_all_defer_err_tied w bs h]
    rcases w.writeAllDeferErr bs with ⟨_ | u, w'⟩ <;> rfl
  | digits sg bits x =>
    simp only [genOp, Op.run, TieWriter.ascii_digits_tied w sg bits x h hv]
    rcases w.asciiDigits sg bits x with ⟨_ | u, w'⟩ <;> rfl
  | _ => exact absurd hwd (by simp [WD])

theorem genSeq_eq (ops : List Op) (hwd : ∀ op ∈ ops, WD op) (hv : ∀ op ∈ ops, op.Valid) (w : Writer)
    (h : w.buf.length ≤ w.cap) : genSeq ops w = runSeq ops w := by
  induction ops generalizing w with
  | nil => rfl
  | cons op ops ih =>
    have hvo := hv op (by simp)
    show (genOp op >>= fun _ => genSeq ops) w = _
    simp only [RM.bind_apply, runSeq, genOp_eq op (hwd op (by simp)) hvo w h]
    have hok := (Writer.op_len w op hvo h).1
    rcases hr : op.run w with ⟨_ | u, w'⟩
    · rfl
    · rw [hr] at hok
      exact ih (fun o ho => hwd o (by simp [ho])) (fun o ho => hv o (by simp [ho])) w' hok

/-- `runSeq` keeps the capacity invariant. -/
theorem runSeq_len (ops : List Op) (hv : ∀ op ∈ ops, op.Valid) (w : Writer) (h : w.buf.length ≤ w.cap) :
    (runSeq ops w).2.buf.length ≤ (runSeq ops w).2.cap := by
  induction ops generalizing w with
  | nil => exact h
  | cons op ops ih =>
    have hok := (Writer.op_len w op (hv op (by simp)) h).1
    simp only [runSeq]
    rcases hr : op.run w with ⟨_ | u, w'⟩
    · rw [hr] at hok; exact hok
    · rw [hr] at hok
      exact ih (fun o ho => hv o (by simp [ho])) w' hok

/-! ### validity and bytes of the ops -/

theorem dig_valid (n : Nat) (hn : n < 2 ^ 64) : (dig n).Valid := by
  apply C11.digits_fit false 64 (by decide)
  simp only [IntTy.fits, IntTy.minVal, IntTy.maxVal, Bool.and_eq_true, decide_eq_true_eq]
  constructor
  · simp
  · simp only [Bool.false_eq_true, ↓reduceIte]
    have : (Int.ofNat n) < ((2 ^ 64 : Nat) : Int) := Int.ofNat_lt.mpr hn
    omega

theorem intDigits_ofNat (n : Nat) : Writer.intDigits (Int.ofNat n) = Aiger.natText n := by
  simp [Writer.intDigits, Aiger.natText]

theorem intDigits_cast (n : Nat) : Writer.intDigits (n : Int) = Aiger.natText n := intDigits_ofNat n

/-- The bytes of a write / digits op (independent of the writer state). -/
def piece : Op → WBytes
  | .write bs => bs
  | .digits _ _ x => Writer.intDigits x
  | _ => []

def pieces (ops : List Op) : WBytes := (ops.map piece).flatten

theorem written_eq (ops : List Op) (hwd : ∀ op ∈ ops, WD op) (w : Writer) :
    C11.written ops w = pieces ops := by
  induction ops generalizing w with
  | nil => rfl
  | cons op ops ih =>
    simp only [C11.written, pieces, List.map_cons, List.flatten_cons]
    rw [ih (fun o ho => hwd o (by simp [ho]))]
    have := hwd op (by simp)
    cases op <;> first | rfl | exact absurd this (by simp [WD])

theorem pieces_append (a b : List Op) : pieces (a ++ b) = pieces a ++ pieces b := by
  simp [pieces]

/-! ### ASCII writer: each generated function is the generated run of its op list -/

theorem a_writeLit (c : Nat) : Gen.AigerWrite.writeLit c = genSeq (opsLit c) := rfl
theorem a_writeCount (c : Nat) : Gen.AigerWrite.writeCount c = genSeq (opsLit c) := rfl
theorem a_writeLatch (l : Aiger.Latch) : Gen.AigerWrite.writeLatch l = genSeq (opsLatchAscii l) := by
  rcases l with ⟨st, nx, _ | _ | _⟩ <;> rfl
theorem a_writeAndGate (g : Aiger.AndGate) : Gen.AigerWrite.writeAndGate g = genSeq (opsAndGateAscii g) := rfl
theorem a_writeSymbol (s : Aiger.Symbol) : Gen.AigerWrite.writeSymbol s = genSeq (opsSymbol s) := by
  rcases s with ⟨k, i, n⟩
  cases k <;> rfl
theorem a_writeComment (c : List UInt8) : Gen.AigerWrite.writeComment c = genSeq (opsComment c) := rfl

theorem wd_dig (n : Nat) : WD (dig n) := trivial

theorem opsInit_wd (i : Option Bool) (c : Nat) : ∀ op ∈ opsInit i c, WD op := by
  rcases i with _ | _ | _ <;> simp [opsInit, WD, dig]
theorem opsInit_valid (i : Option Bool) (c : Nat) (hc : i = none → c < 2 ^ 64) : ∀ op ∈ opsInit i c, op.Valid := by
  rcases i with _ | _ | _
  · intro op hop
    simp only [opsInit, List.mem_cons, List.not_mem_nil, or_false] at hop
    rcases hop with rfl | rfl | rfl
    · trivial
    · exact dig_valid c (hc rfl)
    · trivial
  · simp [opsInit, Op.Valid]
  · simp [opsInit, Op.Valid]
theorem opsInit_pieces (i : Option Bool) (c : Nat) : pieces (opsInit i c) = Aiger.writeInit i c := by
  rcases i with _ | _ | _ <;> simp [opsInit, pieces, piece, Aiger.writeInit, dig, intDigits_cast]

/-! ### binary writer -/

def genSeqB : List Op → RM BinWriter Unit
  | [] => pure ()
  | op :: ops => do liftW (genOp op); genSeqB ops

theorem genSeqB_eq (ops : List Op) (hwd : ∀ op ∈ ops, WD op) (hv : ∀ op ∈ ops, op.Valid) (s : BinWriter)
    (h : s.writer.buf.length ≤ s.writer.cap) : genSeqB ops s = runSeqB ops s := by
  induction ops generalizing s with
  | nil => rfl
  | cons op ops ih =>
    have hvo := hv op (by simp)
    show (liftW (genOp op) >>= fun _ => genSeqB ops) s = _
    simp only [RM.bind_apply, runSeqB, runSeq, liftW, genOp_eq op (hwd op (by simp)) hvo s.writer h]
    have hok := (Writer.op_len s.writer op hvo h).1
    rcases hr : op.run s.writer with ⟨_ | u, w'⟩
    · rfl
    · rw [hr] at hok
      exact ih (fun o ho => hwd o (by simp [ho])) (fun o ho => hv o (by simp [ho])) { s with writer := w' } hok

theorem b_writeLit (c : Nat) : Gen.AigerBinWrite.writeLit c = genSeqB (opsLit c) := rfl
theorem b_writeCount (c : Nat) : Gen.AigerBinWrite.writeCount c = genSeqB (opsLit c) := rfl
theorem b_writeSymbol (s : Aiger.Symbol) : Gen.AigerBinWrite.writeSymbol s = genSeqB (opsSymbol s) := by
  rcases s with ⟨k, i, n⟩
  cases k <;> rfl
theorem b_writeComment (c : List UInt8) : Gen.AigerBinWrite.writeComment c = genSeqB (opsComment c) := rfl

theorem b_writeLatch (l : Aiger.OLatch) (s : BinWriter) :
    Gen.AigerBinWrite.writeLatch l s =
      (do genSeqB (opsLatchBin l s.code); RM.modify fun r => { r with code := (s.code + 2) % 2 ^ 64 } : RM BinWriter Unit) s := by
  rcases l with ⟨nx, _ | _ | _⟩
  all_goals simp only [Gen.AigerBinWrite.writeLatch, opsLatchBin, opsInit, genSeqB, genOp, dig, List.cons_append,
    List.nil_append, RM.bind_apply, RM.get_apply, RM.modify_apply, RM.pure_apply, liftW]
  · rcases Gen.WriteText.asciiDigits false 64 (Int.ofNat nx) s.writer with ⟨_ | _, w1⟩
    · rfl
    · simp only []
      rcases Gen.Writer.writeAllDeferErr [32] w1 with ⟨_ | _, w2⟩
      · rfl
      · simp only []
        rcases Gen.WriteText.asciiDigits false 64 (Int.ofNat s.code) w2 with ⟨_ | _, w3⟩
        · rfl
        · simp only []
          rcases Gen.Writer.writeAllDeferErr [10] w3 with ⟨_ | _, w4⟩ <;> rfl
  · rcases Gen.WriteText.asciiDigits false 64 (Int.ofNat nx) s.writer with ⟨_ | _, w1⟩
    · rfl
    · simp only []
      rcases Gen.Writer.writeAllDeferErr [10] w1 with ⟨_ | _, w2⟩ <;> rfl
  · rcases Gen.WriteText.asciiDigits false 64 (Int.ofNat nx) s.writer with ⟨_ | _, w1⟩
    · rfl
    · simp only []
      rcases Gen.Writer.writeAllDeferErr [32, 49, 10] w1 with ⟨_ | _, w2⟩ <;> rfl
/-! ### `write_binary_uint` -/

theorem ofNat_mod256 (c : Nat) : UInt8.ofNat c = UInt8.ofNat (c % 256) := by
  apply UInt8.toNat_inj.mp
  simp

set_option maxRecDepth 100000 in
theorem bits_fin : ∀ k : Fin 256, UInt8.ofNat k.val ||| 128 = UInt8.ofNat (k.val % 128 + 128) ∧
    (UInt8.ofNat k.val ||| 128) &&& 127 = UInt8.ofNat (k.val % 128) := by decide

theorem bor128 (c : Nat) : UInt8.ofNat c ||| 128 = UInt8.ofNat (c % 128 + 128) := by
  have h := (bits_fin ⟨c % 256, Nat.mod_lt _ (by decide)⟩).1
  simp only at h
  rw [ofNat_mod256 c, h]
  congr 2
  omega

theorem band127 (c : Nat) : (UInt8.ofNat c ||| 128) &&& 127 = UInt8.ofNat (c % 128) := by
  have h := (bits_fin ⟨c % 256, Nat.mod_lt _ (by decide)⟩).2
  simp only at h
  rw [ofNat_mod256 c, h]
  congr 1
  omega

theorem set_split (l : List UInt8) (i : Nat) (b : UInt8) (hi : i < l.length) (bs : List UInt8) :
    List.take (i + 1) (l.set i b) ++ bs ++ List.drop (i + 1 + bs.length) (l.set i b) =
      List.take i l ++ (b :: bs) ++ List.drop (i + (bs.length + 1)) l := by
  have h1 : List.take (i + 1) (l.set i b) = List.take i l ++ [b] := by
    rw [List.take_succ_eq_append_getElem (by simpa using hi)]
    simp [List.take_set_of_le (Nat.le_refl i)]
  have h2 : List.drop (i + 1 + bs.length) (l.set i b) = List.drop (i + (bs.length + 1)) l := by
    rw [List.drop_set_of_lt (by omega)]
    congr 1; omega
  rw [h1, h2]; simp
theorem set_split0 (l : List UInt8) (i : Nat) (b : UInt8) (hi : i < l.length) :
    l.set i b = List.take i l ++ [b] ++ List.drop (i + 1) l := by
  rw [List.set_eq_take_append_cons_drop]; simp [hi]

/-- The loop of `write_binary_uint` as it runs: every byte gets the continuation bit. -/
def raw : Nat → Nat → Option (List UInt8)
  | 0, _ => none
  | f + 1, code =>
    if code / 2 ^ 7 == 0 then some [UInt8.ofNat code ||| 128]
    else (raw f (code / 2 ^ 7)).map (fun bs => (UInt8.ofNat code ||| 128) :: bs)

theorem loop_eq (f : Nat) : ∀ (code : Nat) (bytes : List UInt8) (len : Nat) (hl : bytes.length = len + f)
    (s : BinWriter),
    Gen.AigerBinWrite.writeBinaryUint.loop1 (f + 1) (code, bytes, len) s =
      match raw f code with
      | none => (none, s)
      | some bs => (some (Ctl.brk (0, bytes.take len ++ bs ++ bytes.drop (len + bs.length), len + bs.length)), s) := by
  induction f with
  | zero =>
    intro code bytes len hl s
    have : ¬ len < bytes.length := by omega
    simp [Gen.AigerBinWrite.writeBinaryUint.loop1, setChecked, this, raw]
  | succ f ih =>
    intro code bytes len hl s
    have hlt : len < bytes.length := by omega
    unfold Gen.AigerBinWrite.writeBinaryUint.loop1
    simp only [setChecked, hlt, ↓reduceIte, RM.bind_apply, RM.liftOpt_apply, raw]
    by_cases hz : (code / 2 ^ 7 == 0) = true
    · simp only [hz, ↓reduceIte]
      have hz' : code / 2 ^ 7 = 0 := by simpa using hz
      rw [hz', set_split0 bytes len _ hlt]
      rfl
    · simp only [hz, Bool.false_eq_true, ↓reduceIte]
      rw [ih _ _ _ (by simp; omega)]
      rcases raw f (code / 2 ^ 7) with _ | bs
      · rfl
      · simp only [Option.map_some, List.length_cons]
        rw [set_split bytes len _ hlt bs]
        have : len + 1 + bs.length = len + (bs.length + 1) := by omega
        rw [this]

/-- `bytes[len - 1] &= 0x7f`. -/
def fixLast : List UInt8 → List UInt8
  | [] => []
  | [b] => [b &&& 127]
  | b :: bs => b :: fixLast bs

theorem fixLast_length (bs : List UInt8) : (fixLast bs).length = bs.length := by
  induction bs with
  | nil => rfl
  | cons b t ih => cases t with
    | nil => rfl
    | cons b' t' => simp only [fixLast, List.length_cons] at ih ⊢; omega

theorem raw_ne_nil (f code : Nat) (bs : List UInt8) (h : raw f code = some bs) : bs ≠ [] := by
  cases f with
  | zero => simp [raw] at h
  | succ f =>
    simp only [raw] at h
    split at h
    · cases h; simp
    · rcases hr : raw f (code / 2 ^ 7) with _ | t
      · simp [hr] at h
      · simp [hr] at h; subst h; simp

theorem fix_raw (f : Nat) : ∀ code, (raw f code).map fixLast = Aiger.writeBinaryUintAux f code := by
  induction f with
  | zero => intro code; rfl
  | succ f ih =>
    intro code
    have h128 : (2 : Nat) ^ 7 = 128 := by decide
    simp only [raw, Aiger.writeBinaryUintAux, h128]
    by_cases hz : (code / 128 == 0) = true
    · simp only [hz, ↓reduceIte, Option.map_some, fixLast, band127]
    · simp only [hz, Bool.false_eq_true, ↓reduceIte]
      rw [← ih (code / 128)]
      rcases hr : raw f (code / 128) with _ | t
      · rfl
      · have hne := raw_ne_nil f (code / 128) t hr
        cases t with
        | nil => exact absurd rfl hne
        | cons b' t' => simp only [Option.map_some, fixLast, bor128]

theorem post_eq (bs rest : List UInt8) (hne : bs ≠ []) :
    ∃ x, indexChecked (bs ++ rest) (bs.length - 1) = some x ∧
      setChecked (bs ++ rest) (bs.length - 1) (x &&& 127) = some (fixLast bs ++ rest) := by
  induction bs with
  | nil => exact absurd rfl hne
  | cons b t ih =>
    cases t with
    | nil => exact ⟨b, by simp [indexChecked], by simp [setChecked, fixLast]⟩
    | cons b' t' =>
      obtain ⟨x, h1, h2⟩ := ih (by simp)
      refine ⟨x, ?_, ?_⟩
      · simpa [indexChecked] using h1
      · simp only [setChecked, List.length_cons, List.length_append, List.cons_append] at h2 ⊢
        simp only [Nat.add_sub_cancel] at h2 ⊢
        split at h2
        · rename_i hlt
          have : t'.length + 1 < t'.length + rest.length + 1 + 1 := by omega
          simp only [this, ↓reduceIte, List.set_cons_succ, fixLast]
          simp only [Option.some.injEq] at h2 ⊢
          rw [h2]; rfl
        · cases h2

theorem writeBinaryUint_eq (code : Nat) (s : BinWriter) :
    Gen.AigerBinWrite.writeBinaryUint code s =
      match Aiger.writeBinaryUint code with
      | none => (none, s)
      | some bs => genSeqB [.write bs] s := by
  have h10 : (64 + 6) / 7 = 10 := by decide
  unfold Gen.AigerBinWrite.writeBinaryUint
  simp only [h10, List.length_replicate, RM.bind_apply]
  rw [loop_eq 10 code (List.replicate 10 0) 0 (by simp) s]
  rw [Aiger.writeBinaryUint, ← fix_raw 10 code]
  rcases hr : raw 10 code with _ | bs
  · rfl
  · have hne := raw_ne_nil 10 code bs hr
    obtain ⟨x, h1, h2⟩ := post_eq bs (List.drop (0 + bs.length) (List.replicate 10 0)) hne
    have hpos : 1 ≤ bs.length := by
      cases bs with
      | nil => exact absurd rfl hne
      | cons _ _ => simp
    simp only [Option.map_some, List.take_zero, List.nil_append, Nat.zero_add, RM.bind_apply, RM.pure_apply, RM.usub_apply, hpos,
      ↓reduceIte, RM.liftOpt_apply] at h1 h2 ⊢
    rw [h1]
    simp only [h2]
    have hs : sliceChecked (fixLast bs ++ List.drop bs.length (List.replicate 10 0)) 0 bs.length = some (fixLast bs) := by
      simp [sliceChecked, fixLast_length]
    simp only [hs]
    rfl

/-- `write_and_gate` of the binary writer, unfolded: swap, assert, the two deltas, bump. -/
theorem b_writeAndGate (g : Aiger.OGate) (s : BinWriter) :
    Gen.AigerBinWrite.writeAndGate g s =
      (let c := gateCodes g
       if s.code < c.1 then (none, s) else
         (do Gen.AigerBinWrite.writeBinaryUint (s.code - c.1)
             Gen.AigerBinWrite.writeBinaryUint (c.1 - c.2)
             RM.modify fun r => { r with code := (r.code + 2) % 2 ^ 64 } : RM BinWriter Unit) s) := by
  unfold Gen.AigerBinWrite.writeAndGate gateCodes
  by_cases hlt : g.in0 < g.in1
  · simp only [hlt, decide_true, ↓reduceIte, RM.bind_apply, RM.pure_apply, RM.get_apply, RM.assert_apply,
      RM.usub_apply, decide_eq_true_eq]
    by_cases hc : s.code < g.in1
    · have : ¬ g.in1 ≤ s.code := by omega
      simp [hc, this]
    · have : g.in1 ≤ s.code := by omega
      have h2 : g.in0 ≤ g.in1 := by omega
      simp only [hc, this, h2, ↓reduceIte]
      rcases Gen.AigerBinWrite.writeBinaryUint (s.code - g.in1) s with ⟨_ | _, s1⟩
      · rfl
      · simp only []
        rcases Gen.AigerBinWrite.writeBinaryUint (g.in1 - g.in0) s1 with ⟨_ | _, s2⟩ <;> rfl
  · simp only [hlt, decide_false, Bool.false_eq_true, ↓reduceIte, RM.bind_apply, RM.pure_apply, RM.get_apply, RM.assert_apply,
      RM.usub_apply, decide_eq_true_eq]
    by_cases hc : s.code < g.in0
    · have : ¬ g.in0 ≤ s.code := by omega
      simp [hc, this]
    · have : g.in0 ≤ s.code := by omega
      have h2 : g.in1 ≤ g.in0 := by omega
      simp only [hc, this, h2, ↓reduceIte]
      rcases Gen.AigerBinWrite.writeBinaryUint (s.code - g.in0) s with ⟨_ | _, s1⟩
      · rfl
      · simp only []
        rcases Gen.AigerBinWrite.writeBinaryUint (g.in0 - g.in1) s1 with ⟨_ | _, s2⟩ <;> rfl

/-! ### final forms -/

theorem lit_bytes (c : Nat) (w : Writer) : C11.written (opsLit c) w = Aiger.writeLit c := by
  rw [written_eq _ (by simp [opsLit, WD, dig])]
  simp [opsLit, pieces, piece, dig, intDigits_cast, Aiger.writeLit]

theorem latch_ascii_bytes (l : Aiger.Latch) (w : Writer) :
    C11.written (opsLatchAscii l) w = Aiger.writeLatchAscii l := by
  rw [written_eq _ (by
    intro op hop
    simp only [opsLatchAscii, List.mem_append] at hop
    rcases hop with hop | hop
    · simp only [List.mem_cons, List.not_mem_nil, or_false] at hop
      rcases hop with rfl | rfl | rfl <;> trivial
    · exact opsInit_wd _ _ op hop)]
  rw [opsLatchAscii, pieces_append, opsInit_pieces]
  simp [pieces, piece, dig, intDigits_cast, Aiger.writeLatchAscii]

theorem and_gate_ascii_bytes (g : Aiger.AndGate) (w : Writer) :
    C11.written (opsAndGateAscii g) w = Aiger.writeAndGateAscii g := by
  rw [written_eq _ (by simp [opsAndGateAscii, WD, dig])]
  simp [opsAndGateAscii, pieces, piece, dig, intDigits_cast, Aiger.writeAndGateAscii]

theorem symbol_bytes (s : Aiger.Symbol) (w : Writer) : C11.written (opsSymbol s) w = Aiger.writeSymbol s := by
  rw [written_eq _ (by simp [opsSymbol, WD, dig])]
  simp [opsSymbol, pieces, piece, dig, intDigits_cast, Aiger.writeSymbol]

theorem comment_bytes (c : List UInt8) (w : Writer) : C11.written (opsComment c) w = Aiger.writeComment c := by
  rw [written_eq _ (by simp [opsComment, WD])]
  simp [opsComment, pieces, piece, Aiger.writeComment]

theorem opsLatchBin_wd (l : Aiger.OLatch) (code : Nat) : ∀ op ∈ opsLatchBin l code, WD op := by
  intro op hop
  simp only [opsLatchBin, List.mem_append, List.mem_cons, List.not_mem_nil, or_false] at hop
  rcases hop with rfl | hop
  · trivial
  · exact opsInit_wd _ _ op hop

theorem latch_bin_bytes (l : Aiger.OLatch) (code : Nat) (w : Writer) :
    C11.written (opsLatchBin l code) w = Aiger.natText l.next ++ Aiger.writeInit l.init code := by
  rw [written_eq _ (opsLatchBin_wd l code)]
  rw [opsLatchBin, pieces_append, opsInit_pieces]
  simp [pieces, piece, dig, intDigits_cast]

theorem valid_of_list {ops : List Op} (h : ∀ op ∈ ops, (∃ n, n < 2 ^ 64 ∧ op = dig n) ∨ (∃ bs, op = .write bs)) :
    (∀ op ∈ ops, op.Valid) ∧ (∀ op ∈ ops, WD op) := by
  constructor
  · intro op hop
    rcases h op hop with ⟨n, hn, rfl⟩ | ⟨bs, rfl⟩
    · exact dig_valid n hn
    · trivial
  · intro op hop
    rcases h op hop with ⟨n, hn, rfl⟩ | ⟨bs, rfl⟩ <;> trivial

theorem opsLit_ok (c : Nat) (hc : c < 2 ^ 64) :
    (∀ op ∈ opsLit c, op.Valid) ∧ (∀ op ∈ opsLit c, WD op) := by
  apply valid_of_list
  intro op hop
  simp only [opsLit, List.mem_cons, List.not_mem_nil, or_false] at hop
  rcases hop with rfl | rfl
  · exact .inl ⟨c, hc, rfl⟩
  · exact .inr ⟨_, rfl⟩

theorem opsInit_ok (i : Option Bool) (c : Nat) (hc : c < 2 ^ 64) :
    ∀ op ∈ opsInit i c, (∃ n, n < 2 ^ 64 ∧ op = dig n) ∨ (∃ bs, op = .write bs) := by
  intro op hop
  rcases i with _ | _ | _ <;> simp only [opsInit, List.mem_cons, List.not_mem_nil, or_false] at hop
  · rcases hop with rfl | rfl | rfl
    · exact .inr ⟨_, rfl⟩
    · exact .inl ⟨c, hc, rfl⟩
    · exact .inr ⟨_, rfl⟩
  · subst hop; exact .inr ⟨_, rfl⟩
  · subst hop; exact .inr ⟨_, rfl⟩

theorem opsLatchAscii_ok (l : Aiger.Latch) (hs : l.state < 2 ^ 64) (hn : l.next < 2 ^ 64) :
    (∀ op ∈ opsLatchAscii l, op.Valid) ∧ (∀ op ∈ opsLatchAscii l, WD op) := by
  apply valid_of_list
  intro op hop
  simp only [opsLatchAscii, List.mem_append, List.mem_cons, List.not_mem_nil, or_false] at hop
  rcases hop with (rfl | rfl | rfl) | hop
  · exact .inl ⟨_, hs, rfl⟩
  · exact .inr ⟨_, rfl⟩
  · exact .inl ⟨_, hn, rfl⟩
  · exact opsInit_ok _ _ hs op hop

theorem opsLatchBin_ok (l : Aiger.OLatch) (code : Nat) (hn : l.next < 2 ^ 64) (hc : code < 2 ^ 64) :
    (∀ op ∈ opsLatchBin l code, op.Valid) ∧ (∀ op ∈ opsLatchBin l code, WD op) := by
  apply valid_of_list
  intro op hop
  simp only [opsLatchBin, List.mem_append, List.mem_cons, List.not_mem_nil, or_false] at hop
  rcases hop with rfl | hop
  · exact .inl ⟨_, hn, rfl⟩
  · exact opsInit_ok _ _ hc op hop

theorem opsAndGateAscii_ok (g : Aiger.AndGate) (ho : g.out < 2 ^ 64) (h0 : g.in0 < 2 ^ 64) (h1 : g.in1 < 2 ^ 64) :
    (∀ op ∈ opsAndGateAscii g, op.Valid) ∧ (∀ op ∈ opsAndGateAscii g, WD op) := by
  apply valid_of_list
  intro op hop
  simp only [opsAndGateAscii, List.mem_cons, List.not_mem_nil, or_false] at hop
  rcases hop with rfl | rfl | rfl | rfl | rfl | rfl
  · exact .inl ⟨_, ho, rfl⟩
  · exact .inr ⟨_, rfl⟩
  · exact .inl ⟨_, h0, rfl⟩
  · exact .inr ⟨_, rfl⟩
  · exact .inl ⟨_, h1, rfl⟩
  · exact .inr ⟨_, rfl⟩

theorem opsSymbol_ok (s : Aiger.Symbol) (hi : s.index < 2 ^ 64) :
    (∀ op ∈ opsSymbol s, op.Valid) ∧ (∀ op ∈ opsSymbol s, WD op) := by
  apply valid_of_list
  intro op hop
  simp only [opsSymbol, List.mem_cons, List.not_mem_nil, or_false] at hop
  rcases hop with rfl | rfl | rfl | rfl | rfl
  · exact .inr ⟨_, rfl⟩
  · exact .inl ⟨_, hi, rfl⟩
  · exact .inr ⟨_, rfl⟩
  · exact .inr ⟨_, rfl⟩
  · exact .inr ⟨_, rfl⟩

theorem opsComment_ok (c : List UInt8) :
    (∀ op ∈ opsComment c, op.Valid) ∧ (∀ op ∈ opsComment c, WD op) := by
  apply valid_of_list
  intro op hop
  simp only [opsComment, List.mem_cons, List.not_mem_nil, or_false] at hop
  rcases hop with rfl | rfl | rfl <;> exact .inr ⟨_, rfl⟩

theorem ascii_write_lit_eq (w : Writer) (c : Nat) (h : w.buf.length ≤ w.cap) (hc : c < 2 ^ 64) :
    Gen.AigerWrite.writeLit c w = runSeq (opsLit c) w := by
  rw [a_writeLit]; exact genSeq_eq _ (opsLit_ok c hc).2 (opsLit_ok c hc).1 w h
theorem ascii_write_count_eq (w : Writer) (c : Nat) (h : w.buf.length ≤ w.cap) (hc : c < 2 ^ 64) :
    Gen.AigerWrite.writeCount c w = runSeq (opsLit c) w := by
  rw [a_writeCount]; exact genSeq_eq _ (opsLit_ok c hc).2 (opsLit_ok c hc).1 w h
theorem ascii_write_latch_eq (w : Writer) (l : Aiger.Latch) (h : w.buf.length ≤ w.cap)
    (hs : l.state < 2 ^ 64) (hn : l.next < 2 ^ 64) :
    Gen.AigerWrite.writeLatch l w = runSeq (opsLatchAscii l) w := by
  rw [a_writeLatch]; exact genSeq_eq _ (opsLatchAscii_ok l hs hn).2 (opsLatchAscii_ok l hs hn).1 w h
theorem ascii_write_and_gate_eq (w : Writer) (g : Aiger.AndGate) (h : w.buf.length ≤ w.cap)
    (ho : g.out < 2 ^ 64) (h0 : g.in0 < 2 ^ 64) (h1 : g.in1 < 2 ^ 64) :
    Gen.AigerWrite.writeAndGate g w = runSeq (opsAndGateAscii g) w := by
  rw [a_writeAndGate]
  exact genSeq_eq _ (opsAndGateAscii_ok g ho h0 h1).2 (opsAndGateAscii_ok g ho h0 h1).1 w h
theorem ascii_write_symbol_eq (w : Writer) (s : Aiger.Symbol) (h : w.buf.length ≤ w.cap) (hi : s.index < 2 ^ 64) :
    Gen.AigerWrite.writeSymbol s w = runSeq (opsSymbol s) w := by
  rw [a_writeSymbol]; exact genSeq_eq _ (opsSymbol_ok s hi).2 (opsSymbol_ok s hi).1 w h
theorem ascii_write_comment_eq (w : Writer) (c : List UInt8) (h : w.buf.length ≤ w.cap) :
    Gen.AigerWrite.writeComment c w = runSeq (opsComment c) w := by
  rw [a_writeComment]; exact genSeq_eq _ (opsComment_ok c).2 (opsComment_ok c).1 w h

theorem bin_write_lit_eq (s : BinWriter) (c : Nat) (h : s.writer.buf.length ≤ s.writer.cap) (hc : c < 2 ^ 64) :
    Gen.AigerBinWrite.writeLit c s = runSeqB (opsLit c) s := by
  rw [b_writeLit]; exact genSeqB_eq _ (opsLit_ok c hc).2 (opsLit_ok c hc).1 s h
theorem bin_write_count_eq (s : BinWriter) (c : Nat) (h : s.writer.buf.length ≤ s.writer.cap) (hc : c < 2 ^ 64) :
    Gen.AigerBinWrite.writeCount c s = runSeqB (opsLit c) s := by
  rw [b_writeCount]; exact genSeqB_eq _ (opsLit_ok c hc).2 (opsLit_ok c hc).1 s h
theorem bin_write_symbol_eq (s : BinWriter) (y : Aiger.Symbol) (h : s.writer.buf.length ≤ s.writer.cap)
    (hi : y.index < 2 ^ 64) : Gen.AigerBinWrite.writeSymbol y s = runSeqB (opsSymbol y) s := by
  rw [b_writeSymbol]; exact genSeqB_eq _ (opsSymbol_ok y hi).2 (opsSymbol_ok y hi).1 s h
theorem bin_write_comment_eq (s : BinWriter) (c : List UInt8) (h : s.writer.buf.length ≤ s.writer.cap) :
    Gen.AigerBinWrite.writeComment c s = runSeqB (opsComment c) s := by
  rw [b_writeComment]; exact genSeqB_eq _ (opsComment_ok c).2 (opsComment_ok c).1 s h

theorem bin_write_latch_eq (s : BinWriter) (l : Aiger.OLatch) (h : s.writer.buf.length ≤ s.writer.cap)
    (hn : l.next < 2 ^ 64) (hc : s.code < 2 ^ 64) :
    Gen.AigerBinWrite.writeLatch l s =
      match runSeqB (opsLatchBin l s.code) s with
      | (none, s') => (none, s')
      | (some _, s') => (some (), { s' with code := (s.code + 2) % 2 ^ 64 }) := by
  rw [b_writeLatch]
  simp only [RM.bind_apply, genSeqB_eq _ (opsLatchBin_ok l s.code hn hc).2 (opsLatchBin_ok l s.code hn hc).1 s h]
  rcases runSeqB (opsLatchBin l s.code) s with ⟨_ | _, s'⟩ <;> rfl

theorem bin_write_latch_model (l : Aiger.OLatch) (code : Nat) (w : Writer) :
    wmOut (Aiger.binWriteLatch l) code = some (C11.written (opsLatchBin l code) w, (code + 2) % 2 ^ 64) := by
  rw [latch_bin_bytes]
  simp [wmOut, Aiger.binWriteLatch, Aiger.emit, Aiger.bumpCode, StateT.run, bind, StateT.bind, modify, modifyGet,
    MonadStateOf.modifyGet, StateT.modifyGet, get, getThe, MonadStateOf.get, StateT.get, pure, Except.pure, Except.bind]

theorem runSeq_runOps (ops : List Op) (w : Writer) (hv : ∀ op ∈ ops, op.Valid) (hi : C11.Inv w) :
    runSeq ops w = (some (), C11.runOps ops w) := by
  induction ops generalizing w with
  | nil => rfl
  | cons op ops ih =>
    obtain ⟨⟨r, hr⟩, hi', _⟩ := C11.op_keeps_inv w op (hv op (by simp)) hi
    simp only [runSeq, C11.runOps]
    rcases hrun : op.run w with ⟨_ | u, w'⟩
    · rw [hrun] at hr; cases hr
    · rw [hrun] at hi'
      exact ih w' (fun o ho => hv o (by simp [ho])) hi'

theorem write_ok (bs : List UInt8) : (∀ op ∈ [Op.write bs], op.Valid) ∧ (∀ op ∈ [Op.write bs], WD op) := by
  constructor <;> intro op hop <;> simp only [List.mem_cons, List.not_mem_nil, or_false] at hop <;> subst hop <;> trivial

theorem bin_write_binary_uint_eq (s : BinWriter) (code : Nat) (h : s.writer.buf.length ≤ s.writer.cap) :
    Gen.AigerBinWrite.writeBinaryUint code s =
      match Aiger.writeBinaryUint code with
      | none => (none, s)
      | some bs => runSeqB [.write bs] s := by
  rw [writeBinaryUint_eq]
  rcases Aiger.writeBinaryUint code with _ | bs
  · rfl
  · exact genSeqB_eq _ (write_ok bs).2 (write_ok bs).1 s h

theorem bin_write_uint_model (code c : Nat) :
    wmOut (Aiger.binWriteUint code) c = (Aiger.writeBinaryUint code).map fun bs => (bs, c) := by
  unfold Aiger.binWriteUint
  rcases Aiger.writeBinaryUint code with _ | bs
  · rfl
  · simp [wmOut, Aiger.emit, StateT.run, modify, modifyGet, MonadStateOf.modifyGet, StateT.modifyGet, pure, Except.pure]

theorem uint_no_panic (code : Nat) (h : code < 2 ^ 64) :
    ∃ bs, Aiger.writeBinaryUint code = some bs ∧ 1 ≤ bs.length ∧ bs.length ≤ 10 := by
  obtain ⟨bs, h1, h2, h3, _⟩ := Aiger.writeBinaryUint_spec code h
  exact ⟨bs, h1, h2, h3⟩

theorem gateCodes_lt (g : Aiger.OGate) (h0 : g.in0 < 2 ^ 64) (h1 : g.in1 < 2 ^ 64) :
    (gateCodes g).1 < 2 ^ 64 ∧ (gateCodes g).2 ≤ (gateCodes g).1 := by
  unfold gateCodes; split <;> simp <;> omega

theorem bin_write_and_gate_eq (s : BinWriter) (g : Aiger.OGate) (h : s.writer.buf.length ≤ s.writer.cap)
    (h0 : g.in0 < 2 ^ 64) (h1 : g.in1 < 2 ^ 64) (hc : s.code < 2 ^ 64) :
    ∃ b0 b1, Aiger.writeBinaryUint (s.code - (gateCodes g).1) = some b0 ∧
      Aiger.writeBinaryUint ((gateCodes g).1 - (gateCodes g).2) = some b1 ∧
      Gen.AigerBinWrite.writeAndGate g s =
        (if s.code < (gateCodes g).1 then (none, s) else
          match runSeqB [.write b0, .write b1] s with
          | (none, s') => (none, s')
          | (some _, s') => (some (), { s' with code := (s.code + 2) % 2 ^ 64 })) ∧
      wmOut (Aiger.binWriteAndGate g) s.code =
        (if s.code < (gateCodes g).1 then none else some (b0 ++ b1, (s.code + 2) % 2 ^ 64)) := by
  obtain ⟨hg1, hg2⟩ := gateCodes_lt g h0 h1
  obtain ⟨b0, hb0, _, _⟩ := uint_no_panic (s.code - (gateCodes g).1) (by omega)
  obtain ⟨b1, hb1, _, _⟩ := uint_no_panic ((gateCodes g).1 - (gateCodes g).2) (by omega)
  refine ⟨b0, b1, hb0, hb1, ?_, ?_⟩
  · rw [b_writeAndGate]
    simp only []
    by_cases hlt : s.code < (gateCodes g).1
    · simp only [hlt, ↓reduceIte]
    · simp only [hlt, ↓reduceIte, RM.bind_apply]
      have e0 := bin_write_binary_uint_eq s (s.code - (gateCodes g).1) h
      rw [hb0] at e0
      simp only [] at e0
      rw [e0]
      simp only [runSeqB, runSeq]
      have hlen := (Writer.op_len s.writer (.write b0) trivial h).1
      rcases hr : (Op.write b0).run s.writer with ⟨_ | _, w1⟩
      · rfl
      · rw [hr] at hlen
        simp only []
        have e1 := bin_write_binary_uint_eq { s with writer := w1 } ((gateCodes g).1 - (gateCodes g).2) hlen
        rw [hb1] at e1
        simp only [] at e1
        rw [e1]
        simp only [runSeqB, runSeq]
        rcases (Op.write b1).run w1 with ⟨_ | _, w2⟩ <;> rfl
  · unfold gateCodes at hb0 hb1 ⊢
    unfold Aiger.binWriteAndGate Aiger.binWriteUint
    by_cases hlt : g.in0 < g.in1
    · simp only [hlt, ↓reduceIte] at hb0 hb1 ⊢
      by_cases hc' : s.code < g.in1
      · simp [wmOut, hc', StateT.run, bind, StateT.bind, get, getThe, MonadStateOf.get, StateT.get, pure, Except.pure,
          Except.bind, throw, throwThe, MonadExceptOf.throw, StateT.lift]
      · simp [wmOut, hc', hb0, hb1, Aiger.emit, Aiger.bumpCode, StateT.run, bind, StateT.bind, get, getThe, MonadStateOf.get, StateT.get, pure, Except.pure,
          Except.bind, modify, modifyGet, MonadStateOf.modifyGet, StateT.modifyGet]
    · simp only [hlt, ↓reduceIte] at hb0 hb1 ⊢
      by_cases hc' : s.code < g.in0
      · simp [wmOut, hc', StateT.run, bind, StateT.bind, get, getThe, MonadStateOf.get, StateT.get, pure, Except.pure,
          Except.bind, throw, throwThe, MonadExceptOf.throw, StateT.lift]
      · simp [wmOut, hc', hb0, hb1, Aiger.emit, Aiger.bumpCode, StateT.run, bind, StateT.bind, get, getThe, MonadStateOf.get, StateT.get, pure, Except.pure,
          Except.bind, modify, modifyGet, MonadStateOf.modifyGet, StateT.modifyGet]

/-! ### `write_header` -/

theorem splitLast_reverse (r : List Nat) :
    splitLast r.reverse = match r with | [] => none | x :: t => some (x, t.reverse) := by
  cases r <;> simp [splitLast]

theorem a_loop1 (n : Nat) : ∀ (r : List Nat) (s : Writer), r.length ≤ n →
    Gen.AigerWrite.writeHeader.loop1 (n + 1) r.reverse s = (some (Ctl.brk (Aiger.trimFieldsRev r).reverse), s) := by
  induction n with
  | zero =>
    intro r s hr
    have : r = [] := List.eq_nil_of_length_eq_zero (by omega)
    subst this
    rfl
  | succ n ih =>
    intro r s hr
    unfold Gen.AigerWrite.writeHeader.loop1
    simp only [splitLast_reverse]
    rcases r with _ | ⟨x, t⟩
    · rfl
    · rcases x with _ | k
      · simp only [List.length_reverse, ge_iff_le, Aiger.trimFieldsRev]
        by_cases h5 : 5 ≤ t.length
        · simp only [h5, decide_true, ↓reduceIte]
          exact ih t s (by simpa using hr)
        · simp only [h5, decide_false, Bool.false_eq_true, ↓reduceIte]
          rfl
      · simp only [Aiger.trimFieldsRev]
        rfl

theorem a_loop2 (fs : List Nat) : Gen.AigerWrite.writeHeader.loop2 fs = genSeq (opsFields fs) := by
  induction fs with
  | nil => rfl
  | cons f rest ih =>
    unfold Gen.AigerWrite.writeHeader.loop2
    rw [ih]
    rfl

theorem trimFieldsRev_mem (r : List Nat) : ∀ x ∈ Aiger.trimFieldsRev r, x ∈ r := by
  induction r with
  | nil => intro x hx; simp [Aiger.trimFieldsRev] at hx
  | cons a t ih =>
    intro x hx
    rcases a with _ | k
    · simp only [Aiger.trimFieldsRev] at hx
      split at hx
      · exact List.mem_cons_of_mem _ (ih x hx)
      · exact hx
    · simpa [Aiger.trimFieldsRev] using hx

theorem trimFields_mem (fs : List Nat) : ∀ x ∈ Aiger.trimFields fs, x ∈ fs := by
  intro x hx
  simp only [Aiger.trimFields, List.mem_reverse] at hx
  simpa using trimFieldsRev_mem _ x hx

theorem a_writeHeader (h : Aiger.Header) (s : Writer) :
    Gen.AigerWrite.writeHeader h s = genSeq (opsHeader false h) s := by
  unfold Gen.AigerWrite.writeHeader
  have hl := a_loop1 9 (Aiger.headerFields h).reverse s (by simp [Aiger.headerFields])
  simp only [List.reverse_reverse, Aiger.headerFields] at hl
  simp only [List.length_cons, List.length_nil, RM.bind_apply, Nat.zero_add, Nat.reduceAdd, hl, a_loop2]
  simp only [RM.pure_apply, opsHeader, genSeq_append, RM.bind_apply, genSeq, genOp, Aiger.magic, Aiger.trimFields,
    Aiger.headerFields, Bool.false_eq_true, ↓reduceIte]
  generalize (Aiger.trimFieldsRev _).reverse = tr
  rcases Gen.Writer.writeAllDeferErr [97, 97, 103] s with ⟨_ | _, s1⟩ <;> simp only []

theorem opsFields_ok (fs : List Nat) (hf : ∀ f ∈ fs, f < 2 ^ 64) :
    ∀ op ∈ opsFields fs, (∃ n, n < 2 ^ 64 ∧ op = dig n) ∨ (∃ bs, op = .write bs) := by
  intro op hop
  simp only [opsFields, List.mem_flatMap, List.mem_cons, List.not_mem_nil, or_false] at hop
  obtain ⟨f, hfm, rfl | rfl⟩ := hop
  · exact .inr ⟨_, rfl⟩
  · exact .inl ⟨f, hf f hfm, rfl⟩

theorem opsHeader_ok (bin : Bool) (h : Aiger.Header) (hf : HeaderFits h) :
    (∀ op ∈ opsHeader bin h, op.Valid) ∧ (∀ op ∈ opsHeader bin h, WD op) := by
  apply valid_of_list
  intro op hop
  simp only [opsHeader, List.mem_append, List.mem_cons, List.not_mem_nil, or_false] at hop
  rcases hop with (rfl | hop) | rfl
  · exact .inr ⟨_, rfl⟩
  · exact opsFields_ok _ (fun f hfm => hf f (trimFields_mem _ f hfm)) op hop
  · exact .inr ⟨_, rfl⟩

theorem opsFields_pieces (fs : List Nat) :
    pieces (opsFields fs) = (fs.map fun f => [32] ++ Aiger.natText f).flatten := by
  induction fs with
  | nil => rfl
  | cons f rest ih =>
    have : opsFields (f :: rest) = [.write [32], dig f] ++ opsFields rest := by simp [opsFields]
    rw [this, pieces_append, ih]
    simp [pieces, piece, dig, intDigits_cast]

theorem header_bytes (bin : Bool) (h : Aiger.Header) (w : Writer) :
    C11.written (opsHeader bin h) w = Aiger.writeHeader bin h := by
  rw [written_eq _ (by
    intro op hop
    simp only [opsHeader, opsFields, List.mem_append, List.mem_cons, List.not_mem_nil, or_false, List.mem_flatMap] at hop
    rcases hop with (rfl | ⟨f, _, rfl | rfl⟩) | rfl <;> trivial)]
  rw [opsHeader, pieces_append, pieces_append, opsFields_pieces]
  simp [pieces, piece, Aiger.writeHeader]

theorem ascii_write_header_eq (w : Writer) (h : Aiger.Header) (hw : w.buf.length ≤ w.cap) (hf : HeaderFits h) :
    Gen.AigerWrite.writeHeader h w = runSeq (opsHeader false h) w := by
  rw [a_writeHeader]; exact genSeq_eq _ (opsHeader_ok false h hf).2 (opsHeader_ok false h hf).1 w hw

theorem genSeqB_append (a b : List Op) (s : BinWriter) :
    genSeqB (a ++ b) s = (do genSeqB a; genSeqB b : RM BinWriter Unit) s := by
  induction a generalizing s with
  | nil => rfl
  | cons op a ih =>
    show (liftW (genOp op) >>= fun _ => genSeqB (a ++ b)) s = _
    show _ = ((liftW (genOp op) >>= fun _ => genSeqB a) >>= fun _ => genSeqB b) s
    simp only [RM.bind_apply]
    rcases liftW (genOp op) s with ⟨_ | u, s'⟩
    · rfl
    · exact ih s'

theorem b_loop1 (n : Nat) : ∀ (r : List Nat) (s : BinWriter), r.length ≤ n →
    Gen.AigerBinWrite.writeHeader.loop1 (n + 1) r.reverse s = (some (Ctl.brk (Aiger.trimFieldsRev r).reverse), s) := by
  induction n with
  | zero =>
    intro r s hr
    have : r = [] := List.eq_nil_of_length_eq_zero (by omega)
    subst this
    rfl
  | succ n ih =>
    intro r s hr
    unfold Gen.AigerBinWrite.writeHeader.loop1
    simp only [splitLast_reverse]
    rcases r with _ | ⟨x, t⟩
    · rfl
    · rcases x with _ | k
      · simp only [List.length_reverse, ge_iff_le, Aiger.trimFieldsRev]
        by_cases h5 : 5 ≤ t.length
        · simp only [h5, decide_true, ↓reduceIte]
          exact ih t s (by simpa using hr)
        · simp only [h5, decide_false, Bool.false_eq_true, ↓reduceIte]
          rfl
      · simp only [Aiger.trimFieldsRev]
        rfl

theorem b_loop2 (fs : List Nat) : Gen.AigerBinWrite.writeHeader.loop2 fs = genSeqB (opsFields fs) := by
  induction fs with
  | nil => rfl
  | cons f rest ih =>
    unfold Gen.AigerBinWrite.writeHeader.loop2
    rw [ih]
    rfl

theorem b_writeHeader (h : Aiger.Header) (s : BinWriter) :
    Gen.AigerBinWrite.writeHeader h s = genSeqB (opsHeader true h) { s with code := headerCode h } := by
  unfold Gen.AigerBinWrite.writeHeader
  have hl := b_loop1 9 (Aiger.headerFields h).reverse { s with code := headerCode h } (by simp [Aiger.headerFields])
  simp only [List.reverse_reverse, Aiger.headerFields, headerCode] at hl
  simp only [List.length_cons, List.length_nil, RM.bind_apply, RM.modify_apply, Nat.zero_add, Nat.reduceAdd, hl, b_loop2]
  simp only [RM.pure_apply, opsHeader, genSeqB_append, RM.bind_apply, genSeqB, genOp, Aiger.magic, Aiger.trimFields,
    Aiger.headerFields, ↓reduceIte, headerCode]
  generalize (Aiger.trimFieldsRev _).reverse = tr
  rcases liftW (Gen.Writer.writeAllDeferErr [97, 105, 103]) _ with ⟨_ | _, s1⟩ <;> simp only []

theorem bin_write_header_eq (s : BinWriter) (h : Aiger.Header) (hw : s.writer.buf.length ≤ s.writer.cap)
    (hf : HeaderFits h) :
    Gen.AigerBinWrite.writeHeader h s = runSeqB (opsHeader true h) { s with code := headerCode h } := by
  rw [b_writeHeader]; exact genSeqB_eq _ (opsHeader_ok true h hf).2 (opsHeader_ok true h hf).1 _ hw

theorem bin_write_header_model (h : Aiger.Header) (code : Nat) (w : Writer) :
    wmOut (Aiger.binWriteHeader h) code = some (C11.written (opsHeader true h) w, headerCode h) := by
  rw [header_bytes]
  simp [wmOut, Aiger.binWriteHeader, Aiger.emit, headerCode, StateT.run, bind, StateT.bind, modify, modifyGet,
    MonadStateOf.modifyGet, StateT.modifyGet, pure, Except.pure, Except.bind]

end TieAigerWriteAux
end Flussab
