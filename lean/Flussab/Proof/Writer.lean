/-
L4 proofs: what `write_all` on a scheduled sink does, and the buffer discipline of
`DeferredWriter`.
-/
import Flussab.Model.Writer

namespace Flussab
namespace Sink

/-- A sink that never fails: it may accept short and be interrupted, nothing else. -/
def Good (s : Sink) : Prop := ∀ e ∈ s.sched, (∃ n, e = WEv.accept n) ∨ e = WEv.intr

/-- A sink that never panics. -/
def NoPanic (s : Sink) : Prop := WEv.panic ∉ s.sched

theorem Good.noPanic {s : Sink} (h : Good s) : NoPanic s := by
  intro hp
  rcases h _ hp with ⟨n, hn⟩ | hn <;> cases hn

theorem writeAllLoop_nil (f : Nat) (s : Sink) : s.writeAllLoop f [] = (.ok, s) := by
  cases f <;> simp [writeAllLoop]

/-- What `write_all` does on any sink: the sink receives a prefix of the offered bytes, in order;
all of them iff the result is `ok`; the schedule only shrinks. -/
theorem writeAllLoop_spec (f : Nat) (s : Sink) (buf : WBytes) (hf : buf.length + s.sched.length + 1 ≤ f) :
    ∃ p, p <+: buf ∧ (s.writeAllLoop f buf).2.sunk = s.sunk ++ p ∧
      ((s.writeAllLoop f buf).1 = .ok → p = buf) ∧
      (∃ q, s.sched = q ++ (s.writeAllLoop f buf).2.sched) ∧
      (buf = [] → (s.writeAllLoop f buf).2 = s) := by
  induction f generalizing s buf with
  | zero => omega
  | succ f ih =>
    cases buf with
    | nil =>
      rw [writeAllLoop_nil]
      exact ⟨[], by simp, by simp, fun _ => rfl, ⟨[], rfl⟩, fun _ => rfl⟩
    | cons b bs =>
      unfold writeAllLoop
      simp only [List.isEmpty_cons, Bool.false_eq_true, ↓reduceIte]
      unfold write1
      cases hs : s.sched with
      | nil =>
        simp only [List.length_cons]
        have hd : List.drop (bs.length + 1) (b :: bs) = [] := by simp
        simp only [hd, writeAllLoop_nil]
        exact ⟨b :: bs, List.prefix_refl _, rfl, fun _ => rfl, ⟨[], rfl⟩, fun h => by simp at h⟩
      | cons e rest =>
        cases e with
        | accept n =>
          simp only
          have hk : 1 ≤ min (max n 1) (b :: bs).length := by simp; omega
          generalize hkk : min (max n 1) (b :: bs).length = k at *
          cases k with
          | zero => omega
          | succ k =>
            simp only
            have := ih { s with sched := rest, sunk := s.sunk ++ (b :: bs).take (k + 1),
                                log := s.log ++ [((b :: bs).length, k + 1)] }
              ((b :: bs).drop (k + 1)) (by simp [hs] at hf ⊢; omega)
            obtain ⟨p, hp, h1, h2, ⟨q, hq⟩, _⟩ := this
            refine ⟨(b :: bs).take (k + 1) ++ p, ?_, ?_, ?_, ⟨WEv.accept n :: q, ?_⟩, fun h => by simp at h⟩
            · obtain ⟨t, ht⟩ := hp
              exact ⟨t, by rw [List.append_assoc, ht, List.take_append_drop]⟩
            · rw [h1]; simp
            · intro hok
              rw [h2 hok, List.take_append_drop]
            · exact congrArg (List.cons _) hq
        | intr =>
          simp only
          have := ih { s with sched := rest, log := s.log ++ [((b :: bs).length, 1000001)] } (b :: bs)
            (by simp [hs] at hf ⊢; omega)
          obtain ⟨p, hp, h1, h2, ⟨q, hq⟩, _⟩ := this
          exact ⟨p, hp, h1, h2, ⟨WEv.intr :: q, congrArg (List.cons _) hq⟩, fun h => by simp at h⟩
        | zero =>
          simp only
          exact ⟨[], by simp, by simp, fun h => by simp at h, ⟨[WEv.zero], by simp⟩, fun h => by simp at h⟩
        | fail =>
          simp only
          exact ⟨[], by simp, by simp, fun h => by simp at h, ⟨[WEv.fail], by simp⟩, fun h => by simp at h⟩
        | panic =>
          simp only
          exact ⟨[], by simp, by simp, fun h => by simp at h, ⟨[WEv.panic], by simp⟩, fun h => by simp at h⟩

theorem writeAll_spec (s : Sink) (buf : WBytes) :
    ∃ p, p <+: buf ∧ (s.writeAll buf).2.sunk = s.sunk ++ p ∧ ((s.writeAll buf).1 = .ok → p = buf) ∧
      (∃ q, s.sched = q ++ (s.writeAll buf).2.sched) ∧ (buf = [] → (s.writeAll buf).2 = s) :=
  writeAllLoop_spec _ s buf (Nat.le_refl _)

theorem NoPanic.of_suffix {s s' : Sink} (h : NoPanic s) (hq : ∃ q, s.sched = q ++ s'.sched) : NoPanic s' := by
  obtain ⟨q, hq⟩ := hq
  intro hp
  exact h (by rw [hq]; simp [hp])

theorem Good.of_suffix {s s' : Sink} (h : Good s) (hq : ∃ q, s.sched = q ++ s'.sched) : Good s' := by
  obtain ⟨q, hq⟩ := hq
  intro e he
  exact h e (by rw [hq]; simp [he])

/-- A sink that never panics never makes `write_all` panic; a good sink never makes it fail. -/
theorem writeAllLoop_res (f : Nat) (s : Sink) (buf : WBytes) :
    (NoPanic s → (s.writeAllLoop f buf).1 ≠ .panic) ∧
    (Good s → buf.length + s.sched.length + 1 ≤ f → (s.writeAllLoop f buf).1 = .ok) := by
  induction f generalizing s buf with
  | zero => exact ⟨fun _ => by simp [writeAllLoop], fun _ h => by omega⟩
  | succ f ih =>
    cases buf with
    | nil => rw [writeAllLoop_nil]; exact ⟨fun _ => by simp, fun _ _ => rfl⟩
    | cons b bs =>
      unfold writeAllLoop
      simp only [List.isEmpty_cons, Bool.false_eq_true, ↓reduceIte]
      unfold write1
      cases hs : s.sched with
      | nil =>
        simp only [List.length_cons]
        have hd : List.drop (bs.length + 1) (b :: bs) = [] := by simp
        simp only [hd, writeAllLoop_nil]
        exact ⟨fun _ => by simp, fun _ _ => trivial⟩
      | cons e rest =>
        have hnp : NoPanic s → NoPanic { s with sched := rest } := fun h hp => h (by rw [hs]; simp [NoPanic] at hp ⊢; exact Or.inr hp)
        have hg : Good s → Good { s with sched := rest } := fun h e he => h e (by rw [hs]; simp [he])
        cases e with
        | accept n =>
          simp only
          have hk : 1 ≤ min (max n 1) (b :: bs).length := by simp; omega
          generalize hkk : min (max n 1) (b :: bs).length = k at *
          cases k with
          | zero => omega
          | succ k =>
            simp only
            have := ih { s with sched := rest, sunk := s.sunk ++ (b :: bs).take (k + 1),
                                log := s.log ++ [((b :: bs).length, k + 1)] } ((b :: bs).drop (k + 1))
            exact ⟨fun h => this.1 (hnp h), fun h hf => this.2 (hg h) (by simp [hs] at hf ⊢; omega)⟩
        | intr =>
          simp only
          have := ih { s with sched := rest, log := s.log ++ [((b :: bs).length, 1000001)] } (b :: bs)
          exact ⟨fun h => this.1 (hnp h), fun h hf => this.2 (hg h) (by simp [hs] at hf ⊢; omega)⟩
        | zero =>
          simp only
          exact ⟨fun _ => by simp, fun h _ => by
            rcases h WEv.zero (by rw [hs]; simp) with ⟨n, hn⟩ | hn <;> cases hn⟩
        | fail =>
          simp only
          exact ⟨fun _ => by simp, fun h _ => by
            rcases h WEv.fail (by rw [hs]; simp) with ⟨n, hn⟩ | hn <;> cases hn⟩
        | panic =>
          simp only
          exact ⟨fun h => absurd (show WEv.panic ∈ s.sched by rw [hs]; simp) h, fun h _ => by
            rcases h WEv.panic (by rw [hs]; simp) with ⟨n, hn⟩ | hn <;> cases hn⟩

theorem writeAll_noPanic (s : Sink) (buf : WBytes) (h : NoPanic s) : (s.writeAll buf).1 ≠ .panic :=
  (writeAllLoop_res _ s buf).1 h

theorem writeAll_good (s : Sink) (buf : WBytes) (h : Good s) : (s.writeAll buf).1 = .ok :=
  (writeAllLoop_res _ s buf).2 h (Nat.le_refl _)

end Sink
end Flussab
