/-
C04, prefix clause: the run over a source that delivers `b` and then fails, compared with the
run over the fault-free source `b ++ more`.

Ingredients, all about the failing (left) run from a state `lr` of an error-free parse:
* C05/C04 (`nextClause_ok`): the invariant is kept; `next_clause` never reports a clean end; a
  syntax error is raised with `sawEnd = false`;
* C09 (`nextClause_ready`): a clause is handed out with `peeked ≤ pos`, or after `eof` matched —
  which it cannot for a failing source; with `J` ("`sawEnd` iff something at or behind the end was
  demanded") this gives `sawEnd = false` whenever an item is handed out;
* the simulation (`nextClause_c`): a call that ends with `sawEnd = false` is reproduced, value
  and state, by the run over the longer stream.
-/
import Flussab.Proof.CnfSim
import Flussab.Proof.CnfParserSafe
import Flussab.Proof.CnfLookahead

namespace Flussab
namespace Cnf
open PM

variable {b q : VBytes} {lr : LR}

/-- With a failing source, `Done` means that the end of the data has not been seen. -/
theorem done_sawEnd (hI : Inv b true lr) (hJ : J lr) (hD : Done lr) : lr.v.sawEnd = false := by
  cases hs : lr.v.sawEnd
  · rfl
  · exfalso
    rcases hD.1 with h | ⟨_, h⟩
    · have := hJ.mp hs
      omega
    · have := hI.finv.1 hI.fault hs
      rw [h] at this; exact absurd this (by simp)

/-- What one `next_clause` call of the failing run does, for the three kinds of outcome. -/
theorem nextClause_left (p : Parser) (hI : Inv b true lr) (hR : Ready lr) (hJ : J lr) :
    (∀ c p' lr1, p.nextClause.run lr = (.ok (some c, p'), lr1) →
      Inv b true lr1 ∧ Ready lr1 ∧ J lr1 ∧
      p.nextClause.run (ext q lr) = (.ok (some c, p'), ext q lr1)) ∧
    (∀ p' lr1, p.nextClause.run lr ≠ (.ok (none, p'), lr1)) ∧
    (∀ l c lr1, p.nextClause.run lr = (.error (.syn l c), lr1) →
      ∃ s, p.nextClause.run (ext q lr) = (.error (.syn l c), s)) ∧
    (lr.v.sawEnd = true → (∀ c p' lr1, p.nextClause.run lr ≠ (.ok (some c, p'), lr1)) ∧
      (∀ l c lr1, p.nextClause.run lr ≠ (.error (.syn l c), lr1))) := by
  obtain ⟨hok, herr⟩ := (nextClause_ok p hI).of_run
  have hla := (nextClause_ready p hR).of_run.1
  have hsim := nextClause_c (q := q) p hJ
  have item : ∀ c p' lr1, p.nextClause.run lr = (.ok (some c, p'), lr1) →
      Inv b true lr1 ∧ Ready lr1 ∧ J lr1 ∧ lr1.v.sawEnd = false ∧ (lr.v.sawEnd = false ∧
      p.nextClause.run (ext q lr) = (.ok (some c, p'), ext q lr1)) := by
    intro c p' lr1 hr
    obtain ⟨i1, _⟩ := hok _ _ hr
    have d1 := hla _ _ hr c rfl
    obtain ⟨j1, a1⟩ := hsim _ _ hr trivial
    have s1 := done_sawEnd i1 j1 d1
    exact ⟨i1, Or.inl d1.2, j1, s1, a1 s1⟩
  have synt : ∀ l c lr1, p.nextClause.run lr = (.error (.syn l c), lr1) →
      lr.v.sawEnd = false ∧ ∃ s, p.nextClause.run (ext q lr) = (.error (.syn l c), s) := by
    intro l c lr1 hr
    have s1 : lr1.v.sawEnd = false := (herr _ _ hr).2.2 rfl
    obtain ⟨_, a1⟩ := hsim _ _ hr trivial
    exact a1 s1
  refine ⟨fun c p' lr1 hr => ?_, fun p' lr1 hr => ?_, fun l c lr1 hr => (synt l c lr1 hr).2,
    fun hs => ⟨fun c p' lr1 hr => ?_, fun l c lr1 hr => ?_⟩⟩
  · obtain ⟨i1, r1, j1, _, _, a1⟩ := item c p' lr1 hr
    exact ⟨i1, r1, j1, a1⟩
  · obtain ⟨_, _, _, hn⟩ := hok _ _ hr
    exact absurd (hn rfl).1 (by simp)
  · obtain ⟨_, _, _, _, s0, _⟩ := item c p' lr1 hr
    rw [hs] at s0; exact absurd s0 (by simp)
  · obtain ⟨s0, _⟩ := synt l c lr1 hr
    rw [hs] at s0; exact absurd s0 (by simp)

/-- The items collected so far stay in front. -/
theorem driveClauses_acc_prefix (n : Nat) (p : Parser) (acc : List Clause) (lr : LR) :
    acc.reverse <+: (driveClauses n p acc lr).1 := by
  induction n generalizing p acc lr with
  | zero => exact List.prefix_refl _
  | succ n ih =>
    unfold driveClauses
    rcases p.nextClause.run lr with ⟨e | ⟨oc, p'⟩, lr1⟩
    · exact List.prefix_refl _
    · cases oc with
      | none => exact List.prefix_refl _
      | some c =>
        have := ih p' (c :: acc) lr1
        simp only [List.reverse_cons] at this
        exact List.IsPrefix.trans (List.prefix_append _ _) this

/-- The driver: the failing run's items are a prefix of the fault-free run's, and a syntax error
of the failing run is the fault-free run's outcome, with the same items. -/
theorem driveClauses_prefix (n n' : Nat) (h : n ≤ n') (p : Parser) (acc : List Clause)
    (hI : Inv b true lr) (hR : Ready lr) (hJ : J lr) :
    (driveClauses n p acc lr).1 <+: (driveClauses n' p acc (ext q lr)).1 ∧
    (∀ l c, (driveClauses n p acc lr).2.1 = some (.syn l c) →
      (driveClauses n' p acc (ext q lr)).2.1 = some (.syn l c) ∧
      (driveClauses n' p acc (ext q lr)).1 = (driveClauses n p acc lr).1) := by
  induction n generalizing n' p acc lr with
  | zero =>
    have h0 : driveClauses 0 p acc lr = (acc.reverse, some (.panic "fuel"), lr) := by
      rw [driveClauses]
    rw [h0]
    exact ⟨driveClauses_acc_prefix _ _ _ _, fun l c hc => by simp at hc⟩
  | succ n ih =>
    cases n' with
    | zero => omega
    | succ n' =>
      obtain ⟨hitem, hnone, hsyn, _⟩ := nextClause_left (q := q) p hI hR hJ
      rw [driveClauses, driveClauses]
      rcases hr : p.nextClause.run lr with ⟨e | ⟨oc, p'⟩, lr1⟩
      · simp only
        refine ⟨?_, fun l c hc => ?_⟩
        · rcases p.nextClause.run (ext q lr) with ⟨e' | ⟨oc', p''⟩, lr1'⟩
          · exact List.prefix_refl _
          · cases oc' with
            | none => exact List.prefix_refl _
            | some c' =>
              have := driveClauses_acc_prefix n' p'' (c' :: acc) lr1'
              simp only [List.reverse_cons] at this
              exact List.IsPrefix.trans (List.prefix_append _ _) this
        · simp only [Option.some.injEq] at hc
          subst hc
          obtain ⟨s, hs⟩ := hsyn l c lr1 hr
          rw [hs]
          exact ⟨rfl, rfl⟩
      · cases oc with
        | none => exact absurd hr (hnone p' lr1)
        | some c =>
          obtain ⟨i1, r1, j1, a1⟩ := hitem c p' lr1 hr
          rw [a1]
          simp only
          exact ih n' (by omega) p' (c :: acc) i1 r1 j1

/-- Once the failing run has seen the end of its data, it hands out nothing more and does not end
in a syntax error. -/
theorem driveClauses_after_end (n : Nat) (p : Parser) (acc : List Clause) (hI : Inv b true lr)
    (hR : Ready lr) (hJ : J lr) (hs : lr.v.sawEnd = true) :
    (driveClauses n p acc lr).1 = acc.reverse ∧
    ∀ l c, (driveClauses n p acc lr).2.1 ≠ some (.syn l c) := by
  cases n with
  | zero => unfold driveClauses; exact ⟨rfl, fun l c hc => by simp at hc⟩
  | succ n =>
    obtain ⟨_, hnone, _, hend⟩ := nextClause_left (q := []) p hI hR hJ
    obtain ⟨h1, h2⟩ := hend hs
    rw [driveClauses]
    rcases hr : p.nextClause.run lr with ⟨e | ⟨oc, p'⟩, lr1⟩
    · simp only
      refine ⟨by first | rfl | trivial, fun l c hc => ?_⟩
      simp only [Option.some.injEq] at hc
      subst hc
      exact h2 l c lr1 hr
    · cases oc with
      | none => exact absurd hr (hnone p' lr1)
      | some c => exact absurd hr (h1 c p' lr1)

/-- **Whole documents.**  `r₁`: the source delivers `b`, then fails; `r₂`: the fault-free source
`b ++ more`. -/
theorem parseAll_prefix (fmt : Format) (l : LitTy) (ignoreHeader : Bool) (b more : VBytes)
    (hb : b.length < 2 ^ 63) :
    (parseAll fmt l ignoreHeader (LR.init b true)).items <+:
      (parseAll fmt l ignoreHeader (LR.init (b ++ more) false)).items ∧
    (∀ h, (parseAll fmt l ignoreHeader (LR.init b true)).header = some h →
      (parseAll fmt l ignoreHeader (LR.init (b ++ more) false)).header = some h) ∧
    (∀ ln c, (parseAll fmt l ignoreHeader (LR.init b true)).final = some (.syn ln c) →
      (parseAll fmt l ignoreHeader (LR.init (b ++ more) false)).final = some (.syn ln c) ∧
      (parseAll fmt l ignoreHeader (LR.init (b ++ more) false)).items =
        (parseAll fmt l ignoreHeader (LR.init b true)).items) := by
  have hI := inv_init b true (SizeOK.of_lt hb)
  have hJ := J_init b true
  have hT : Tight (LR.init b true) := by simp [Tight, LR.init, View.init]
  obtain ⟨hok, herr⟩ := (parserNew_ok fmt l ignoreHeader hI).of_run
  have hla := (parserNew_la fmt l ignoreHeader (lr := LR.init b true)).of_run.1
  have hsim := parserNew_c (q := more) fmt l ignoreHeader (lr := LR.init b true) hJ
  rw [← ext_init b more]
  unfold parseAll
  rcases hr : (Parser.new fmt l ignoreHeader).run (LR.init b true) with ⟨e | p, lr1⟩
  · -- the header already fails
    simp only
    refine ⟨List.nil_prefix, fun h hh => by simp at hh, fun ln c hc => ?_⟩
    simp only [Option.some.injEq] at hc
    subst hc
    have s1 : lr1.v.sawEnd = false := (herr _ _ hr).2.2 rfl
    obtain ⟨_, a1⟩ := hsim _ _ hr trivial
    obtain ⟨_, s, hs⟩ := a1 s1
    rw [hs]
    exact ⟨rfl, rfl⟩
  · obtain ⟨i1, _⟩ := hok _ _ hr
    obtain ⟨d1, r1⟩ := hla _ _ hr
    obtain ⟨j1, a1⟩ := hsim _ _ hr trivial
    cases hs : lr1.v.sawEnd
    · -- `Parser::new` is reproduced by the fault-free run
      obtain ⟨_, a2⟩ := a1 hs
      have a2' : (Parser.new fmt l ignoreHeader).run (ext more (LR.init b true)) =
          (.ok p, ext more lr1) := a2
      rw [a2']
      simp only
      obtain ⟨k1, k2⟩ := driveClauses_prefix (q := more) (lr1.v.rest.length + 2)
        ((ext more lr1).v.rest.length + 2) (by rw [ext_rest_length]; omega) p [] i1 (r1 hT) j1
      exact ⟨k1, fun h hh => hh, k2⟩
    · -- the end of the data was seen while looking for a header: nothing is handed out
      obtain ⟨k1, k2⟩ := driveClauses_after_end (lr1.v.rest.length + 2) p [] i1 (r1 hT) j1 hs
      simp only
      refine ⟨by rw [k1]; exact List.nil_prefix, fun h hh => ?_, fun ln c hc => absurd hc (k2 ln c)⟩
      have := done_sawEnd i1 j1 (d1 (by rw [hh]; rfl) hT)
      rw [hs] at this; exact absurd this (by simp)

/-- The solver log: a syntax error of the failing run is the fault-free run's outcome. -/
theorem parseLog_syntax_same (l : LitTy) (ig : Bool) (b more : VBytes) (hb : b.length < 2 ^ 63)
    (ln c : Nat) (lr1 : LR)
    (hr : (parseLog l ig).run (LR.init b true) = (.error (.syn ln c), lr1)) :
    ∃ s, (parseLog l ig).run (LR.init (b ++ more) false) = (.error (.syn ln c), s) := by
  have hI := inv_init b true (SizeOK.of_lt hb)
  have s1 : lr1.v.sawEnd = false := ((parseLog_ok l ig hI).of_run.2 _ _ hr).2.2 rfl
  obtain ⟨_, a1⟩ := parseLog_c (q := more) l ig (lr := LR.init b true) (J_init b true) _ _ hr trivial
  rw [← ext_init b more]
  exact (a1 s1).2

end Cnf
end Flussab
