/-
Look-ahead of the AIGER parsers (property C09), in the Hoare framework of `Proof/PMHoare.lean`
with the trivial error postcondition (partial correctness: statements about calls that return).

`Tight lr`: at most the byte under the cursor has been demanded (`peeked ≤ pos + 1`).
`Flush lr`: nothing at or behind the cursor has been demanded (`peeked ≤ pos`).
Every AIGER token that consumes input ends by consuming the last byte it looked at (a pattern, a
space, a newline, the last byte of a varint) — except the decimal scanner, which looks at the
byte behind the digits; and every item ends with a newline or a varint.  So: tokens map `Tight`
to `Tight`, items map `Tight` to `Flush`.
-/
import Flussab.Model.Aiger
import Flussab.Proof.PMHoare
import Flussab.Proof.AigerBasic

namespace Flussab
namespace Aiger
open PM

/-- Partial correctness: any error outcome is accepted. -/
abbrev T : PErr → LR → Prop := fun _ _ => True

def Tight (lr : LR) : Prop := lr.v.peeked ≤ lr.v.pos + 1
def Flush (lr : LR) : Prop := lr.v.peeked ≤ lr.v.pos

theorem Flush.tight {lr : LR} (h : Flush lr) : Tight lr := by unfold Flush Tight at *; omega

variable {lr lr0 : LR}

/-- A call that never returns satisfies every partial-correctness triple. -/
theorem wp_of_fails {α : Type} {m : PM α} {Q : α → LR → Prop} (h : Fails m) : Wp T m lr Q := by
  unfold Wp
  rcases hm : m.run lr with ⟨e | a, lr1⟩
  · trivial
  · exact absurd hm (h lr a lr1)

theorem advance_pc (n : Nat) :
    Wp T (PM.advance n) lr (fun _ lr1 => lr1.v.pos = lr.v.pos + n ∧ lr1.v.peeked = lr.v.peeked) := by
  unfold PM.advance
  refine Wp.bind (Wp.get ?_)
  by_cases hn : n ≤ lr.v.demanded
  · simp only [View.advance, hn, ↓reduceIte]
    exact Wp.set ⟨rfl, rfl⟩
  · simp only [View.advance, hn, ↓reduceIte]
    trivial

theorem lineAtOffset_pc (off : Nat) : Wp T (PM.lineAtOffset off) lr (fun _ lr1 => lr1.v = lr.v) := by
  unfold PM.lineAtOffset
  refine Wp.bind (Wp.get ?_)
  split
  · trivial
  · exact Wp.set rfl

theorem bufPrefix_pc (n : Nat) : Wp T (PM.bufPrefix n) lr (fun _ lr1 => lr1 = lr) := by
  unfold PM.bufPrefix
  refine Wp.bind (Wp.get ?_)
  split
  · exact Wp.pure rfl
  · trivial

theorem advanceWithBuf_pc (n : Nat) :
    Wp T (PM.advanceWithBuf n) lr (fun _ lr1 => lr1.v.pos = lr.v.pos + n ∧ lr1.v.peeked = lr.v.peeked) := by
  unfold PM.advanceWithBuf
  refine Wp.bind' (bufPrefix_pc n) ?_
  intro bs lr1 e
  subst e
  refine Wp.bind' (advance_pc n) ?_
  intro _ lr2 h
  exact Wp.pure h

theorem utf8_pc (bs : VBytes) : Wp T (PM.utf8Unwrap bs) lr (fun _ lr1 => lr1 = lr) := by
  unfold PM.utf8Unwrap
  split
  · exact Wp.pure rfl
  · trivial

/-! ### tokens -/

/-- A token that, when it matches, consumes everything it looked at. -/
abbrev ConsLA {α : Type} (lr : LR) (r : Option α) (lr1 : LR) : Prop :=
  (r.isSome = true → Tight lr → Flush lr1) ∧
  (r = none → lr1.v.pos = lr.v.pos ∧ (Tight lr → lr1.v.peeked ≤ lr.v.pos + 2))

/-- What an alternative of the symbol prefix chain leaves behind: on a match the first byte was
`c`; on a fall-through nothing was consumed, and the reader is still tight unless the first byte
was `c`. -/
abbrev AltLA (c : UInt8) (lr : LR) {α : Type} (r : Option α) (lr1 : LR) : Prop :=
  (r.isSome = true → lr.v.rest[0]? = some c ∧ (Tight lr → Tight lr1)) ∧
  (r = none → lr1.v.pos = lr.v.pos ∧ lr1.v.rest = lr.v.rest ∧
    ((Tight lr → Tight lr1) ∨ lr.v.rest[0]? = some c))

theorem head_of_prefix {c : UInt8} {l : VBytes} (h : [c] <+: l) : l[0]? = some c := by
  obtain ⟨t, ht⟩ := h
  rw [← ht]; rfl

theorem fixed1_la (c : UInt8) : Wp T (fixed [c]) lr (AltLA c lr) := by
  unfold fixed
  refine Wp.bind' (Wp.fixed0F (Ext.refl lr) [c]) ?_
  intro off lr1 ⟨e1, _, hle, hoff⟩
  simp only [List.length_singleton] at hle hoff
  split
  · rename_i hne
    have hne' : off ≠ 0 := by simpa using hne
    rcases hoff with ⟨h0, _⟩ | ⟨hlen, hpre, _⟩
    · exact absurd h0 hne'
    refine Wp.bind' (advance_pc off) ?_
    intro _ lr2 ⟨p2, k2⟩
    refine Wp.pure ⟨fun _ => ⟨head_of_prefix hpre, fun ht => ?_⟩, (fun h => by cases h)⟩
    unfold Tight at *
    rw [p2, k2, e1.pos]; omega
  · refine Wp.pure ⟨(fun h => by cases h), fun _ => ⟨e1.pos, e1.rest, Or.inl fun ht => ?_⟩⟩
    unfold Tight at *
    rw [e1.pos]; omega

theorem fixed_la (pat : VBytes) : Wp T (fixed pat) lr (fun r lr1 => r.isSome = true → Tight lr → Flush lr1) := by
  unfold fixed
  refine Wp.bind' (Wp.fixed0F (Ext.refl lr) pat) ?_
  intro off lr1 ⟨e1, _, hle, hoff⟩
  split
  · rename_i hne
    have hne' : off ≠ 0 := by simpa using hne
    rcases hoff with ⟨h0, _⟩ | ⟨hlen, _, _⟩
    · exact absurd h0 hne'
    refine Wp.bind' (advance_pc off) ?_
    intro _ lr2 ⟨p2, k2⟩
    refine Wp.pure (fun _ ht => ?_)
    unfold Tight at ht; unfold Flush
    rw [p2, k2, e1.pos]; omega
  · exact Wp.pure (fun h => by cases h)

theorem fixedNotEol1_la (c : UInt8) : Wp T (fixedNotEol [c]) lr (AltLA c lr) := by
  unfold fixedNotEol
  refine Wp.bind' (Wp.fixed0F (Ext.refl lr) [c]) ?_
  intro off lr1 ⟨e1, _, hle, hoff⟩
  simp only [List.length_singleton] at hle hoff
  split
  · rename_i hne
    have hne' : off ≠ 0 := by simpa using hne
    rcases hoff with ⟨h0, _⟩ | ⟨hlen, hpre, _⟩
    · exact absurd h0 hne'
    subst hlen
    refine Wp.bind' (Wp.reqAtF e1 1) ?_
    intro a lr2 ⟨e2, _, k2, _⟩
    split
    · exact Wp.pure ⟨(fun h => by cases h), fun _ => ⟨e2.pos, e2.rest, Or.inr (head_of_prefix hpre)⟩⟩
    · refine Wp.bind' (advance_pc 1) ?_
      intro _ lr3 ⟨p3, k3⟩
      refine Wp.pure ⟨fun _ => ⟨head_of_prefix hpre, fun ht => ?_⟩, (fun h => by cases h)⟩
      unfold Tight at *
      rw [p3, k3, k2, e2.pos]; omega
  · refine Wp.pure ⟨(fun h => by cases h), fun _ => ⟨e1.pos, e1.rest, Or.inl fun ht => ?_⟩⟩
    unfold Tight at *
    rw [e1.pos]; omega

theorem space_la : Wp T space lr (fun r lr1 => r.isSome = true → Tight lr → Flush lr1) := by
  unfold space
  refine Wp.bind' (Wp.reqByteF (Ext.refl lr)) ?_
  intro c lr1 ⟨e1, _, k1, _⟩
  split
  · refine Wp.bind' (advance_pc 1) ?_
    intro _ lr2 ⟨p2, k2⟩
    refine Wp.pure (fun _ ht => ?_)
    unfold Tight at ht; unfold Flush
    rw [p2, k2, k1, e1.pos]; omega
  · exact Wp.pure (fun h => by cases h)

theorem requiredSpace_la : Wp T requiredSpace lr (fun _ lr1 => Tight lr → Flush lr1) := by
  unfold requiredSpace
  refine Wp.orGiveUp (space_la.mono ?_)
  intro r lr1 h
  cases r with
  | none => exact wp_of_fails fails_unexpected
  | some _ => exact h rfl

theorem newline_la : Wp T newline lr (fun r lr1 => r.isSome = true → Tight lr → Flush lr1) := by
  unfold newline
  refine Wp.bind' (Wp.reqByteF (Ext.refl lr)) ?_
  intro c lr1 ⟨e1, _, k1, _⟩
  split
  · refine Wp.bind' (advance_pc 1) ?_
    intro _ lr2 ⟨p2, k2⟩
    refine Wp.bind' (lineAtOffset_pc 0) ?_
    intro _ lr3 hv
    refine Wp.pure (fun _ ht => ?_)
    unfold Tight at ht; unfold Flush
    rw [hv, p2, k2, k1, e1.pos]; omega
  · exact Wp.pure (fun h => by cases h)

theorem requiredNewline_la : Wp T requiredNewline lr (fun _ lr1 => Tight lr → Flush lr1) := by
  unfold requiredNewline
  refine Wp.orGiveUp (newline_la.mono ?_)
  intro r lr1 h
  cases r with
  | none => exact wp_of_fails fails_unexpected
  | some _ => exact h rfl

theorem requiredNewlineOrSpace_la :
    Wp T requiredNewlineOrSpace lr (fun _ lr1 => Tight lr → Flush lr1) := by
  unfold requiredNewlineOrSpace
  refine Wp.bind' (Wp.reqByteF (Ext.refl lr)) ?_
  intro c lr1 ⟨e1, _, k1, _⟩
  split
  · refine Wp.bind' (advance_pc 1) ?_
    intro _ lr2 ⟨p2, k2⟩
    have hfl : Tight lr → lr2.v.peeked ≤ lr2.v.pos := by
      intro ht; unfold Tight at ht
      rw [p2, k2, k1, e1.pos]; omega
    split
    · refine Wp.bind' (lineAtOffset_pc 0) ?_
      intro _ lr3 hv
      refine Wp.pure (fun ht => ?_)
      unfold Flush; rw [hv]; exact hfl ht
    · exact Wp.pure hfl
  · exact wp_of_fails fails_unexpected

/-- `uint` looks at the byte behind the digits and no further. -/
theorem uint_la : Wp T uint lr (fun r lr1 => ∀ v, r = .ok v → Tight lr → Tight lr1) := by
  unfold uint
  refine Wp.bind' (Wp.asciiDigitsF (Ext.refl lr) usizeTy 0) ?_
  intro r lr1 ⟨e1, _, _, _, k1⟩
  obtain ⟨value, off⟩ := r
  dsimp only at k1 ⊢
  split
  · refine Wp.bind' (bufPrefix_pc off) ?_
    intro bs lr2 e2
    subst e2
    split
    · exact wp_of_fails (fails_rpanic _)
    · split
      · refine Wp.bind' (advance_pc off) ?_
        intro _ lr3 ⟨p3, k3⟩
        refine Wp.pure (fun v _ ht => ?_)
        unfold Tight at *
        rw [p3, k3, k1, e1.pos]; omega
      · refine Wp.bind' (utf8_pc _) ?_
        intro _ lr3 _
        exact Wp.pure (fun v h => by cases h)
  · exact Wp.pure (fun v h => by cases h)

theorem setMark_la {Q : PUnit → LR → Prop} (h : Q ⟨⟩ { lr with v := lr.v.setMark }) :
    Wp T setMark lr Q := Wp.setMark h

theorem headerField_la (limit : Nat) :
    Wp T (headerField limit) lr (fun _ lr1 => Tight lr → Tight lr1) := by
  unfold headerField
  refine Wp.bind (setMark_la ?_)
  refine Wp.bind' uint_la ?_
  intro r lr1 h
  split
  · exact wp_of_fails fails_errorAtMark
  · rename_i count
    split
    · exact wp_of_fails fails_errorAtMark
    · exact Wp.pure (fun ht => h count rfl ht)
  · exact wp_of_fails fails_unexpected

theorem lit_la (limit : Nat) (assigning : Bool) :
    Wp T (lit limit assigning) lr (fun _ lr1 => Tight lr → Tight lr1) := by
  unfold lit
  refine Wp.bind (setMark_la ?_)
  refine Wp.bind' uint_la ?_
  intro r lr1 h
  split
  · exact wp_of_fails fails_errorAtMark
  · rename_i count
    split
    · exact wp_of_fails fails_errorAtMark
    · split
      · exact wp_of_fails fails_errorAtMark
      · exact Wp.pure (fun ht => h count rfl ht)
  · exact wp_of_fails fails_unexpected

/-- `remaining_line_content` consumes the newline it stopped at. -/
theorem remainingLineContent_la :
    Wp T remainingLineContent lr (fun _ lr1 => Tight lr → Flush lr1) := by
  unfold remainingLineContent
  refine Wp.bind (Wp.get ?_)
  refine Wp.bind' (Wp.reqAtF (Ext.refl lr) _) ?_
  intro c lr1 ⟨e1, _, k1, _⟩
  split
  · refine Wp.bind' (advance_pc _) ?_
    intro _ lr2 _
    exact wp_of_fails fails_unexpected
  · refine Wp.bind' (bufPrefix_pc _) ?_
    intro bs lr2 e2
    subst e2
    dsimp only
    split
    · refine Wp.bind' (lineAtOffset_pc _) ?_
      intro _ lr3 hv
      refine Wp.bind' (advanceWithBuf_pc _) ?_
      intro _ lr4 ⟨p4, k4⟩
      refine Wp.pure (fun ht => ?_)
      unfold Tight at ht; unfold Flush
      rw [p4, k4, hv, k1, e1.pos]; omega
    · refine Wp.bind' (advance_pc _) ?_
      intro _ lr3 _
      exact wp_of_fails fails_unexpected

/-- The length loop of `binary_uint` looks at exactly the bytes it counts. -/
theorem binaryUintLen_la (lr0 : LR) :
    ∀ (fuel n : Nat) (lr : LR), Ext lr0 lr → lr.v.peeked ≤ max lr0.v.peeked (lr0.v.pos + n) →
      Wp T (binaryUintLen fuel n) lr (fun k lr1 => Ext lr0 lr1 ∧ n < k ∧
        lr1.v.peeked ≤ max lr0.v.peeked (lr0.v.pos + k)) := by
  intro fuel
  induction fuel with
  | zero => intro n lr _ _; unfold binaryUintLen; exact wp_of_fails (fails_rpanic _)
  | succ fuel ih =>
    intro n lr e hk
    unfold binaryUintLen
    refine Wp.bind' (Wp.reqAtF e n) ?_
    intro a lr1 ⟨e1, _, k1, _⟩
    have hk1 : lr1.v.peeked ≤ max lr0.v.peeked (lr0.v.pos + (n + 1)) := by rw [k1]; omega
    split
    · dsimp only
      split
      · exact Wp.pure ⟨e1, by omega, hk1⟩
      · split
        · exact wp_of_fails fails_giveUp
        · refine (ih (n + 1) lr1 e1 hk1).mono ?_
          intro k lr2 ⟨e2, hn, hp⟩
          exact ⟨e2, by omega, hp⟩
    · exact wp_of_fails fails_unexpected

/-- `binary_uint` consumes every byte it looked at. -/
theorem binaryUint_la : Wp T binaryUint lr (fun _ lr1 => Tight lr → Flush lr1) := by
  unfold binaryUint
  refine Wp.bind' (binaryUintLen_la lr 11 0 lr (Ext.refl lr) (by omega)) ?_
  intro k lr1 ⟨e1, hk, hp⟩
  refine Wp.bind' (bufPrefix_pc k) ?_
  intro bs lr2 e2
  subst e2
  split
  · exact wp_of_fails fails_giveUp
  · refine Wp.bind' (advance_pc k) ?_
    intro _ lr3 ⟨p3, k3⟩
    refine Wp.pure (fun ht => ?_)
    unfold Tight at ht; unfold Flush
    rw [p3, k3, e1.pos]; omega

theorem deltaCode_la (code : Nat) : Wp T (deltaCode code) lr (fun _ lr1 => Tight lr → Flush lr1) := by
  unfold deltaCode
  refine Wp.bind (setMark_la ?_)
  refine Wp.bind' binaryUint_la ?_
  intro d lr1 h
  split
  · exact wp_of_fails fails_errorAtMark
  · exact Wp.pure h

end Aiger
end Flussab

namespace Flussab
namespace Aiger
open PM

variable {lr : LR}

/-! ### items -/

theorem checkedSub_la (site : String) (x y : Nat) : Wp T (checkedSub site x y) lr (fun _ lr1 => lr1 = lr) := by
  unfold checkedSub
  split
  · exact wp_of_fails (fails_rpanic _)
  · exact Wp.pure rfl

theorem checkedAdd_la (site : String) (x y : Nat) : Wp T (checkedAdd site x y) lr (fun _ lr1 => lr1 = lr) := by
  unfold checkedAdd
  split
  · exact wp_of_fails (fails_rpanic _)
  · exact Wp.pure rfl

theorem checkedMul_la (site : String) (x y : Nat) : Wp T (checkedMul site x y) lr (fun _ lr1 => lr1 = lr) := by
  unfold checkedMul
  split
  · exact wp_of_fails (fails_rpanic _)
  · exact Wp.pure rfl

theorem headerOptional_la (hd : Header) (hf : Flush lr) :
    Wp T (headerOptional hd) lr (fun _ lr1 => Flush lr1) := by
  unfold headerOptional
  refine Wp.bind' requiredNewlineOrSpace_la ?_
  intro s1 lr1 f1
  have f1 := f1 hf.tight
  split
  · exact Wp.pure f1
  refine Wp.bind' (headerField_la _) ?_
  intro c1 lr2 t2
  have t2 := t2 f1.tight
  refine Wp.bind' requiredNewlineOrSpace_la ?_
  intro s2 lr3 f3
  have f3 := f3 t2
  split
  · exact Wp.pure f3
  refine Wp.bind' (headerField_la _) ?_
  intro c2 lr4 t4
  have t4 := t4 f3.tight
  refine Wp.bind' requiredNewlineOrSpace_la ?_
  intro s3 lr5 f5
  have f5 := f5 t4
  split
  · exact Wp.pure f5
  refine Wp.bind' (headerField_la _) ?_
  intro c3 lr6 t6
  have t6 := t6 f5.tight
  refine Wp.bind' requiredNewlineOrSpace_la ?_
  intro s4 lr7 f7
  have f7 := f7 t6
  split
  · exact Wp.pure f7
  refine Wp.bind' (headerField_la _) ?_
  intro c4 lr8 t8
  have t8 := t8 f7.tight
  refine Wp.bind' requiredNewline_la ?_
  intro _ lr9 f9
  exact Wp.pure (f9 t8)

/-- `Header::parse` consumes its line and looks no further. -/
theorem Header.parse_la (bin : Bool) (l : LitTy) (ht : Tight lr) :
    Wp T (Header.parse bin l) lr (fun _ lr1 => Flush lr1) := by
  unfold Header.parse
  refine Wp.bind' (Q1 := fun _ lr1 => Flush lr1) (Wp.orGiveUp ((fixed_la _).mono ?_)) ?_
  · intro r lr1 h
    cases r with
    | none => exact wp_of_fails fails_unexpected
    | some _ => exact h rfl ht
  intro _ lr1 f1
  refine Wp.bind' requiredSpace_la ?_
  intro _ lr2 f2
  have f2 := f2 f1.tight
  refine Wp.bind' (headerField_la _) ?_
  intro m lr3 t3
  have t3 := t3 f2.tight
  refine Wp.bind' requiredSpace_la ?_
  intro _ lr4 f4
  have f4 := f4 t3
  refine Wp.bind' (headerField_la _) ?_
  intro ic lr5 t5
  have t5 := t5 f4.tight
  refine Wp.bind' (checkedSub_la _ _ _) ?_
  intro lim1 lr5' e5
  subst e5
  refine Wp.bind' requiredSpace_la ?_
  intro _ lr6 f6
  have f6 := f6 t5
  refine Wp.bind' (headerField_la _) ?_
  intro lc lr7 t7
  have t7 := t7 f6.tight
  refine Wp.bind' (checkedSub_la _ _ _) ?_
  intro lim2 lr7' e7
  subst e7
  refine Wp.bind' requiredSpace_la ?_
  intro _ lr8 f8
  have f8 := f8 t7
  refine Wp.bind' (headerField_la _) ?_
  intro oc lr9 t9
  have t9 := t9 f8.tight
  refine Wp.bind' requiredSpace_la ?_
  intro _ lr10 f10
  have f10 := f10 t9
  refine Wp.bind' (headerField_la _) ?_
  intro ac lr11 t11
  have t11 := t11 f10.tight
  -- the optional part starts with `required_newline_or_space`, which needs `Tight`
  unfold headerOptional
  refine Wp.bind' requiredNewlineOrSpace_la ?_
  intro s1 lr12 f12
  have f12 := f12 t11
  split
  · exact Wp.pure f12
  refine Wp.bind' (headerField_la _) ?_
  intro c1 lr13 t13
  have t13 := t13 f12.tight
  refine Wp.bind' requiredNewlineOrSpace_la ?_
  intro s2 lr14 f14
  have f14 := f14 t13
  split
  · exact Wp.pure f14
  refine Wp.bind' (headerField_la _) ?_
  intro c2 lr15 t15
  have t15 := t15 f14.tight
  refine Wp.bind' requiredNewlineOrSpace_la ?_
  intro s3 lr16 f16
  have f16 := f16 t15
  split
  · exact Wp.pure f16
  refine Wp.bind' (headerField_la _) ?_
  intro c3 lr17 t17
  have t17 := t17 f16.tight
  refine Wp.bind' requiredNewlineOrSpace_la ?_
  intro s4 lr18 f18
  have f18 := f18 t17
  split
  · exact Wp.pure f18
  refine Wp.bind' (headerField_la _) ?_
  intro c4 lr19 t19
  have t19 := t19 f18.tight
  refine Wp.bind' requiredNewline_la ?_
  intro _ lr20 f20
  exact Wp.pure (f20 t19)

theorem Parser.new_la (bin : Bool) (l : LitTy) (ht : Tight lr) :
    Wp T (Parser.new bin l) lr (fun _ lr1 => Flush lr1) := by
  unfold Parser.new
  refine Wp.bind' (Header.parse_la bin l ht) ?_
  intro hd lr1 f1
  refine Wp.bind' (checkedMul_la _ _ _) ?_
  intro m2 lr2 e2
  subst e2
  refine Wp.bind' (checkedAdd_la _ _ _) ?_
  intro ml lr3 e3
  subst e3
  exact Wp.pure f1

/-- What a `next_*` call does to the look-ahead: an item is handed out with nothing demanded at
or behind the cursor; `None` is returned without touching the reader. -/
def StepLA {α : Type} (next : St → PM (Option α × St)) : Prop :=
  ∀ (s : St) (lr : LR), Tight lr →
    Wp T (next s) lr (fun r lr1 => (r.1.isSome = true → Flush lr1) ∧ (r.1 = none → lr1 = lr))

theorem litLine_la (p : Parser) (assigning : Bool) (ht : Tight lr) :
    Wp T (litLine p assigning) lr (fun _ lr1 => Flush lr1) := by
  unfold litLine
  refine Wp.bind' (lit_la _ _) ?_
  intro c lr1 t1
  refine Wp.bind' requiredNewline_la ?_
  intro _ lr2 f2
  exact Wp.pure (f2 (t1 ht))

theorem nextLit_la (assigning : Bool) : StepLA (nextLit assigning) := by
  intro s lr ht
  unfold nextLit
  split
  · exact Wp.pure ⟨(fun h => by cases h), fun _ => rfl⟩
  · refine Wp.bind' (litLine_la _ _ ht) ?_
    intro c lr1 f1
    exact Wp.pure ⟨fun _ => f1, (fun h => by cases h)⟩

theorem latchInit_la (p : Parser) (stateCode : Nat) (ht : Tight lr) :
    Wp T (latchInit p stateCode) lr (fun _ lr1 => Flush lr1) := by
  unfold latchInit
  refine Wp.bind' (lit_la _ _) ?_
  intro c lr1 t1
  refine Wp.bind' (Q1 := fun _ lr2 => lr2 = lr1) ?_ ?_
  · split
    · exact Wp.pure rfl
    · split
      · exact Wp.pure rfl
      · exact wp_of_fails fails_errorAtMark
  intro init lr2 e
  subst e
  refine Wp.bind' requiredNewline_la ?_
  intro _ lr3 f3
  exact Wp.pure (f3 (t1 ht))

theorem latchReset_la (p : Parser) (stateCode : Nat) (ht : Tight lr) :
    Wp T (latchReset p stateCode) lr (fun _ lr1 => Flush lr1) := by
  unfold latchReset
  refine Wp.bind' requiredNewlineOrSpace_la ?_
  intro sp lr1 f1
  split
  · exact latchInit_la p stateCode (f1 ht).tight
  · exact Wp.pure (f1 ht)

theorem nextLatchAscii_la : StepLA nextLatchAscii := by
  intro s lr ht
  unfold nextLatchAscii
  split
  · exact Wp.pure ⟨(fun h => by cases h), fun _ => rfl⟩
  · refine Wp.bind' (lit_la _ _) ?_
    intro sc lr1 t1
    refine Wp.bind' requiredSpace_la ?_
    intro _ lr2 f2
    refine Wp.bind' (lit_la _ _) ?_
    intro nc lr3 t3
    refine Wp.bind' (latchReset_la _ _ (t3 (f2 (t1 ht)).tight)) ?_
    intro init lr4 f4
    exact Wp.pure ⟨fun _ => f4, (fun h => by cases h)⟩

theorem nextLatchBin_la : StepLA nextLatchBin := by
  intro s lr ht
  unfold nextLatchBin
  split
  · exact Wp.pure ⟨(fun h => by cases h), fun _ => rfl⟩
  · refine Wp.bind' (lit_la _ _) ?_
    intro nc lr1 t1
    refine Wp.bind' (latchReset_la _ _ (t1 ht)) ?_
    intro init lr2 f2
    exact Wp.pure ⟨fun _ => f2, (fun h => by cases h)⟩

theorem nextJusticeSize_la : StepLA nextJusticeSize := by
  intro s lr ht
  unfold nextJusticeSize
  split
  · exact Wp.pure ⟨(fun h => by cases h), fun _ => rfl⟩
  · refine Wp.bind' (checkedSub_la _ _ _) ?_
    intro lim lr0 e0
    subst e0
    refine Wp.bind' (headerField_la _) ?_
    intro count lr1 t1
    refine Wp.bind' requiredNewline_la ?_
    intro _ lr2 f2
    refine Wp.bind' (checkedAdd_la _ _ _) ?_
    intro t lr3 e3
    subst e3
    exact Wp.pure ⟨fun _ => f2 (t1 ht), (fun h => by cases h)⟩

theorem nextAndGateAscii_la : StepLA nextAndGateAscii := by
  intro s lr ht
  unfold nextAndGateAscii
  split
  · exact Wp.pure ⟨(fun h => by cases h), fun _ => rfl⟩
  · refine Wp.bind' (lit_la _ _) ?_
    intro oc lr1 t1
    refine Wp.bind' requiredSpace_la ?_
    intro _ lr2 f2
    refine Wp.bind' (lit_la _ _) ?_
    intro c0 lr3 t3
    refine Wp.bind' requiredSpace_la ?_
    intro _ lr4 f4
    refine Wp.bind' (lit_la _ _) ?_
    intro c1 lr5 t5
    refine Wp.bind' requiredNewline_la ?_
    intro _ lr6 f6
    exact Wp.pure ⟨fun _ => f6 (t5 (f4 (t3 (f2 (t1 ht)).tight)).tight), (fun h => by cases h)⟩

/-- Binary gates: after the second varint exactly the consumed bytes have been demanded. -/
theorem nextAndGateBin_la : StepLA nextAndGateBin := by
  intro s lr ht
  unfold nextAndGateBin
  split
  · exact Wp.pure ⟨(fun h => by cases h), fun _ => rfl⟩
  · refine Wp.bind' (deltaCode_la _) ?_
    intro c0 lr1 f1
    refine Wp.bind' (deltaCode_la _) ?_
    intro c1 lr2 f2
    exact Wp.pure ⟨fun _ => f2 (f1 ht).tight, (fun h => by cases h)⟩

/-- The draining loops keep the reader tight (each item leaves it flush). -/
theorem whileSome_la {α : Type} {next : St → PM (Option α × St)} (hstep : StepLA next) :
    ∀ (fuel : Nat) (s : St) (acc : List α) (lr : LR), Tight lr →
      Wp T (whileSome next fuel s acc) lr (fun _ lr1 => Tight lr1) := by
  intro fuel
  induction fuel with
  | zero => intro s acc lr _; unfold whileSome; exact wp_of_fails (fails_rpanic _)
  | succ fuel ih =>
    intro s acc lr ht
    unfold whileSome
    refine Wp.bind' (hstep s lr ht) ?_
    rintro ⟨o, s'⟩ lr1 ⟨h1, h2⟩
    cases o with
    | none =>
      have := h2 rfl
      subst this
      exact Wp.pure ht
    | some a => exact ih s' (a :: acc) lr1 (h1 rfl).tight

/-! ### symbols -/

theorem symAlt_la (count : Nat) (c : UInt8) (notEol : Bool) :
    Wp T (symAlt count c notEol) lr (AltLA c lr) := by
  unfold symAlt
  split
  · refine Wp.bind' (Q1 := AltLA c lr) ?_ ?_
    · split
      · exact fixedNotEol1_la c
      · exact fixed1_la c
    intro r lr1 ⟨h1, h2⟩
    cases r with
    | none => exact Wp.pure ⟨(fun h => by cases h), fun _ => h2 rfl⟩
    | some u =>
      dsimp only
      refine Wp.bind' (checkedSub_la _ _ _) ?_
      intro lim lr2 e2
      subst e2
      refine Wp.bind' (headerField_la _) ?_
      intro idx lr3 t3
      exact Wp.pure ⟨fun _ => ⟨(h1 rfl).1, fun ht => t3 ((h1 rfl).2 ht)⟩, (fun h => by cases h)⟩
  · exact Wp.pure ⟨(fun h => by cases h), fun _ => ⟨rfl, rfl, Or.inl id⟩⟩

/-- The prefix chain: a target is returned with the reader tight, provided it was tight at the
start (or the first byte is one that none of the remaining alternatives starts with — the state
after `c` followed by a newline was looked at). -/
theorem symTarget_la : ∀ (alts : List (SymKind × Nat × UInt8 × Bool)),
    alts.Pairwise (fun a a' => a.2.2.1 ≠ a'.2.2.1) → ∀ (lr : LR),
    (Tight lr ∨ ∃ c0, lr.v.rest[0]? = some c0 ∧ ∀ a ∈ alts, a.2.2.1 ≠ c0) →
    Wp T (symTarget alts) lr (fun r lr1 => r.isSome = true → Tight lr1) := by
  intro alts
  induction alts with
  | nil => intro _ lr _; unfold symTarget; exact Wp.pure (fun h => by cases h)
  | cons a alts ih =>
    intro hp lr hpre
    obtain ⟨k, count, c, ne⟩ := a
    rw [List.pairwise_cons] at hp
    unfold symTarget
    refine Wp.bind' (symAlt_la count c ne) ?_
    intro r lr1 ⟨h1, h2⟩
    cases r with
    | some idx =>
      obtain ⟨hc, ht⟩ := h1 rfl
      refine Wp.pure (fun _ => ?_)
      rcases hpre with ht0 | ⟨c0, hc0, hne⟩
      · exact ht ht0
      · rw [hc0] at hc
        have := hne (k, count, c, ne) (by simp)
        simp only [Option.some.injEq] at hc
        exact absurd hc.symm this
    | none =>
      obtain ⟨hpos, hrest, hor⟩ := h2 rfl
      refine ih hp.2 lr1 ?_
      rcases hpre with ht0 | ⟨c0, hc0, hne⟩
      · rcases hor with ht | hc
        · exact Or.inl (ht ht0)
        · refine Or.inr ⟨c, by rw [hrest]; exact hc, fun a ha => ?_⟩
          exact (hp.1 a ha).symm
      · exact Or.inr ⟨c0, by rw [hrest]; exact hc0, fun a ha => hne a (by simp [ha])⟩

theorem symKinds_pairwise (hd : Header) :
    (symKinds hd).Pairwise (fun a a' => a.2.2.1 ≠ a'.2.2.1) := by
  simp only [symKinds, List.pairwise_cons, List.mem_cons, List.mem_nil_iff, or_false, forall_eq_or_imp,
    forall_eq, List.Pairwise.nil, and_true, false_imp_iff, implies_true]
  decide

/-- `next_symbol` hands out a symbol with nothing demanded at or behind the cursor. -/
theorem nextSymbol_la (p : Parser) (ht : Tight lr) :
    Wp T (nextSymbol p) lr (fun r lr1 => r.isSome = true → Flush lr1) := by
  unfold nextSymbol
  refine Wp.bind' (symTarget_la _ (symKinds_pairwise p.header) lr (Or.inl ht)) ?_
  intro r lr1 h1
  cases r with
  | none => exact Wp.pure (fun h => by cases h)
  | some t =>
    obtain ⟨kind, index⟩ := t
    dsimp only
    refine Wp.bind' requiredSpace_la ?_
    intro _ lr2 f2
    refine Wp.bind' remainingLineContent_la ?_
    intro name lr3 f3
    exact Wp.pure (fun _ => f3 (f2 (h1 rfl)).tight)

end Aiger
end Flussab
