/-
C12: renumbering never increases the number of and-gates (every allocated code comes with a fresh
`lit_map` key, and the keys are distinct defined variables).
-/
import Flussab.Proof.AigLeaf

namespace Flussab.Aig

/-! ### counting: every allocated code comes with a fresh `lit_map` key -/

def keysOf (m : LitMap) : List Nat := m.map (·.1)

structure CountInv (st : St) : Prop where
  even : ∀ k ∈ keysOf st.litMap, k % 2 = 0
  nodup : ((keysOf st.litMap).map (· / 2)).Nodup
  count : st.lastCode / 2 + 1 ≤ st.litMap.length

theorem CountInv.fresh {st : St} (h : CountInv st) {key : Nat} (hk : ¬ st.litMap.HasKey key) :
    key / 2 ∉ (keysOf st.litMap).map (· / 2) := by
  intro hm
  rw [List.mem_map] at hm
  obtain ⟨k, hk1, hk2⟩ := hm
  have := h.even k hk1
  have e : k = 2 * (key / 2) := by omega
  apply hk
  unfold LitMap.HasKey
  rw [← e]; exact hk1

theorem CountInv.insert {st : St} (h : CountInv st) {key : Nat} (hk : ¬ st.litMap.HasKey key)
    (value lc : Nat) (hlc : lc / 2 ≤ st.lastCode / 2 + 1) (gs : List OGate) (ix : List (OGate × Nat)) :
    CountInv { litMap := st.litMap.insert key value, lastCode := lc, gates := gs, index := ix } := by
  refine ⟨?_, ?_, ?_⟩
  · intro k hm
    simp only [keysOf, LitMap.insert, List.map_cons, List.mem_cons] at hm
    rcases hm with rfl | hm
    · omega
    · exact h.even k hm
  · simp only [keysOf, LitMap.insert, List.map_cons, List.nodup_cons]
    refine ⟨?_, h.nodup⟩
    have := h.fresh hk
    have e : 2 * (key / 2) / 2 = key / 2 := by omega
    rw [e]; exact this
  · have := h.count
    simp only [LitMap.insert, List.length_cons]
    omega

theorem finish_count (cfg : Config) (st : St) (lit out t0 t1 : Nat) (h : CountInv st)
    (hk : ¬ st.litMap.HasKey out) : CountInv (finish cfg st lit out t0 t1).2 := by
  unfold finish
  rcases sort2 t0 t1 with ⟨x, y⟩
  simp only
  split
  · exact h.insert hk _ _ (by omega) _ _
  · split
    · split
      · exact h.insert hk _ _ (by omega) _ _
      · exact h.insert hk _ _ (by omega) _ _
    · exact h.insert hk _ _ (by omega) _ _

theorem transfer_count {a : Aig} {defs : Defs} (hd : DefsOk a defs) (hn : (definedVars a).Nodup)
    (cfg : Config) :
    ∀ (fuel : Nat) (path : List Nat) (st : St) (lit t : Nat) (st' : St), Inv a st → CountInv st →
      transfer cfg defs fuel path st lit = .ok (t, st') → CountInv st' := by
  intro fuel
  induction fuel with
  | zero => intro path st lit t st' _ _ h; simp [transfer] at h
  | succ fuel ih =>
    intro path st lit t st' hinv hc h
    unfold transfer at h
    cases hget : st.litMap.get lit with
    | some t' =>
      simp only [hget] at h
      injection h with h; injection h with _ e2; subst e2; exact hc
    | none =>
      simp only [hget] at h
      have hnk : ¬ st.litMap.HasKey lit := (LitMap.get_none_iff _ _).mp hget
      split at h
      · exact absurd h (by simp)
      · split at h
        · exact absurd h (by simp)
        · rename_i d hfd
          obtain ⟨hmem, hl⟩ := findDef_mem hd hfd
          split at h
          · rename_i t0 st1 h0
            have p0 := transfer_post hd cfg _ _ _ _ _ _ hinv h0
            have c1 := ih _ _ _ _ _ hinv hc h0
            split at h
            · rename_i t1 st2 h1
              have p1 := transfer_post hd cfg _ _ _ _ _ _ p0.inv h1
              have c2 := ih _ _ _ _ _ p0.inv c1 h1
              injection h with h
              have hst : st' = (finish cfg st2 lit d.out t0 t1).2 := by rw [h]
              rw [hst]
              apply finish_count _ _ _ _ _ _ c2
              intro hk2
              have hk2' : st2.litMap.HasKey lit := LitMap.hasKey_of_var hl.symm hk2
              have hgr : Grounded a (lit / 2) := by rw [hl]; exact Grounded.gate d hmem p0.ground p1.ground
              have hcyc : ∀ x, (x = d.in0 ∨ x = d.in1) → DepStar a (x / 2) (lit / 2) → False := by
                intro x hx hs
                have hdep : Dep a (lit / 2) (x / 2) := by
                  refine ⟨d, hmem, hl.symm, ?_⟩
                  rcases hx with rfl | rfl
                  · exact Or.inl rfl
                  · exact Or.inr rfl
                have : DepPlus a (lit / 2) (lit / 2) := by
                  rcases hs with hs | hs
                  · rw [hs] at hdep; exact DepPlus.single hdep
                  · exact DepPlus.cons hdep hs
                exact hgr.not_onCycle hn this
              rcases transfer_newkeys hd cfg _ _ _ _ _ _ h1 lit hk2' with hk1 | hs
              · rcases transfer_newkeys hd cfg _ _ _ _ _ _ h0 lit hk1 with hk0 | hs
                · exact hnk hk0
                · exact hcyc _ (Or.inl rfl) hs
              · exact hcyc _ (Or.inr rfl) hs
            · exact absurd h (by simp)
            · exact absurd h (by simp)
          · exact absurd h (by simp)
          · exact absurd h (by simp)

theorem transferAll_count {a : Aig} {defs : Defs} (hd : DefsOk a defs) (hn : (definedVars a).Nodup)
    (cfg : Config) (fuel : Nat) :
    ∀ (lits : List Nat) (st st' : St), Inv a st → CountInv st →
      transferAll cfg defs fuel lits st = .ok st' → CountInv st' := by
  intro lits
  induction lits with
  | nil => intro st st' _ hc h; simp only [transferAll] at h; injection h with h; subst h; exact hc
  | cons l rest ih =>
    intro st st' hinv hc h
    simp only [transferAll] at h
    split at h
    · rename_i t st1 h1
      exact ih _ _ (transfer_post hd cfg _ _ _ _ _ _ hinv h1).inv (transfer_count hd hn cfg _ _ _ _ _ _ hinv hc h1) h
    · exact absurd h (by simp)
    · exact absurd h (by simp)

theorem countInv_init : CountInv St.init := by
  refine ⟨?_, ?_, ?_⟩ <;> simp [St.init, keysOf, LitMap.insert]

theorem initInputs_count (l : List Nat) (st : St) (h : CountInv st)
    (hfresh : ∀ x ∈ l, ¬ st.litMap.HasKey x) (hn : (l.map (· / 2)).Nodup) :
    CountInv (initInputs l st) := by
  induction l generalizing st with
  | nil => exact h
  | cons x rest ih =>
    simp only [initInputs]
    simp only [List.map_cons, List.nodup_cons] at hn
    apply ih _ (h.insert (hfresh x (by simp)) _ _ (by omega) _ _) _ hn.2
    intro y hy
    rw [LitMap.hasKey_insert_iff, not_or]
    exact ⟨fun he => hn.1 (List.mem_map.mpr ⟨y, hy, he.symm⟩), hfresh y (List.mem_cons_of_mem _ hy)⟩

theorem initLatches_count {defs : Defs} (l : List Latch) (st st' : St) (h : CountInv st)
    (he : initLatches defs l st = .ok st') : CountInv st' := by
  induction l generalizing st with
  | nil => simp only [initLatches] at he; injection he with he; subst he; exact h
  | cons x rest ih =>
    simp only [initLatches] at he
    split at he
    · exact absurd he (by simp)
    · rename_i hc
      rw [Bool.or_eq_true, not_or] at hc
      have hk : ¬ st.litMap.HasKey x.state := by rw [← LitMap.get_isSome_iff]; exact hc.2
      exact ih _ (h.insert hk _ _ (by omega) _ _) he

/-- Renumbering never increases the number of and-gates. -/
theorem renumber_gate_count {cfg : Config} {a : Aig} {fuel : Nat} {o : OrderedAig} {m : LitMap}
    (h : renumber cfg a fuel = .ok (o, m)) : o.gates.length ≤ a.gates.length := by
  obtain ⟨defs, st0, st, h1, h2, h3, _, ho⟩ := renumber_ok_decomp h
  have hn := init_nodup h1 h2
  obtain ⟨hI, _, _, h0I, _, _, _, _⟩ := nodup_parts hn
  have i0 : Inv a st0 :=
    (initLatches_inv a.latches [] _ _ (by simp)
      (by simpa using initInputs_inv (a := a) a.inputs [] St.init (by simp) (initInv_init a)) h2).toInv
  have c0 : CountInv st0 := initLatches_count _ _ _
    (initInputs_count a.inputs St.init countInv_init (by
      intro x hx hk
      have : x / 2 = 0 := by
        simp only [St.init, LitMap.HasKey, LitMap.insert, List.map_cons, List.map_nil,
          List.mem_singleton] at hk
        omega
      exact h0I (List.mem_map.mpr ⟨x, hx, this⟩)) hI) h2
  obtain ⟨i1, _, _⟩ := transferAll_post (litDefs_defsOk h1) cfg fuel _ _ _ i0 h3
  have c1 := transferAll_count (litDefs_defsOk h1) hn cfg fuel _ _ _ i0 c0 h3
  -- the keys are distinct defined variables
  have hsub : ∀ v ∈ (keysOf st.litMap).map (· / 2), v ∈ definedVars a := by
    intro v hv
    simp only [keysOf, List.map_map, List.mem_map, Function.comp] at hv
    obtain ⟨⟨k, w⟩, hm, rfl⟩ := hv
    exact (i1.mapGround k w hm).defined
  have hlen := c1.nodup.length_le_of_subset hsub
  have hdl : (definedVars a).length = 1 + a.inputs.length + a.gates.length + a.latches.length := by
    simp [definedVars, definedLits]; omega
  have hcount := c1.count
  have hcode := i1.code
  simp only [keysOf, List.length_map] at hlen
  rw [ho]
  show st.gates.length ≤ a.gates.length
  omega

end Flussab.Aig
