/-
Round trip of the AIGER sections (property C03): every `next_*` reader on what the corresponding
`write_*` wrote, and the `while let Some(x) = next()? { push }` loops on a whole written section.
-/
import Flussab.Proof.AigerRtTokens
import Flussab.Proof.AigerParse
import Flussab.Proof.AigerJustice

namespace Flussab.AigerRT
open Flussab Flussab.CnfP
open Flussab.PM hiding run_bind
open Flussab.Aiger hiding run_bind run_pure run_throw run_rpanic run_get run_set run_modify run_scan
  run_reqAt run_reqByte run_setMark run_mark run_position run_ite run_bufPrefix run_advance
  run_utf8Unwrap
set_option linter.unusedSimpArgs false
set_option linter.unusedVariables false

/-- The parser's limit is a `usize` and fits the literal type (established by `Parser::new`). -/
structure POk (p : Parser) : Prop where
  fits : p.maxLit ≤ p.lit.maxCode
  small : p.maxLit < 2 ^ 64
  one : 1 ≤ p.maxLit

/-! ### the generic loop -/

section loop
variable {α : Type}

def renderL (render : St → α → VBytes) (step : St → α → St) : St → List α → VBytes
  | _, [] => []
  | s, x :: xs => render s x ++ renderL render step (step s x) xs

def GoodL (good : St → α → Prop) (step : St → α → St) : St → List α → Prop
  | _, [] => True
  | s, x :: xs => good s x ∧ GoodL good step (step s x) xs

/-- `while let Some(x) = next()? { push }` over a written section returns exactly the items. -/
theorem whileSome_steps {N : Nat} (next : St → PM (Option α × St)) (step : St → α → St)
    (render : St → α → VBytes) (good : St → α → Prop)
    (hitem : ∀ s x rest, s.left ≠ 0 → good s x →
      Steps N (next s) (some x, step s x) (render s x ++ rest) rest)
    (hleft : ∀ s x, s.left ≠ 0 → (step s x).left + 1 = s.left)
    (hnone : ∀ s r, s.left = 0 → Steps N (next s) (none, s) r r) :
    ∀ (xs : List α) (s : St) (acc : List α) (fuel : Nat) (rest : VBytes), s.left = xs.length →
      xs.length < fuel → GoodL good step s xs →
      Steps N (whileSome next fuel s acc) (acc.reverse ++ xs, xs.foldl step s)
        (renderL render step s xs ++ rest) rest := by
  intro xs
  induction xs with
  | nil =>
    intro s acc fuel rest hl hf _
    cases fuel with
    | zero => simp at hf
    | succ fuel =>
      unfold whileSome
      refine Steps.bind (hnone s _ hl) ?_
      simp only [List.append_nil, List.foldl_nil]
      exact Steps.pure _ _
  | cons x xs ih =>
    intro s acc fuel rest hl hf hg
    cases fuel with
    | zero => simp at hf
    | succ fuel =>
      have hne : s.left ≠ 0 := by rw [hl]; simp
      unfold whileSome
      simp only [renderL, List.append_assoc]
      refine Steps.bind (hitem s x _ hne hg.1) ?_
      have hl' : (step s x).left = xs.length := by
        have := hleft s x hne
        simp only [List.length_cons] at hl
        omega
      have := ih (step s x) (x :: acc) fuel rest hl' (by simp only [List.length_cons] at hf; omega) hg.2
      simp only [List.reverse_cons, List.append_assoc, List.singleton_append, List.foldl_cons] at this ⊢
      exact this

end loop

/-! ### literal lines -/

theorem fromCode_ok {p : Parser} (hp : POk p) {c : Nat} (hc : c ≤ p.maxLit) : p.lit.fromCode c = c :=
  fromCode_of_le p.lit c p.maxLit hc hp.fits

theorem litLine_steps {N} (p : Parser) (hp : POk p) (assigning : Bool) (c : Nat) (hc : c ≤ p.maxLit)
    (ha : assigning = true → c % 2 = 0 ∧ 2 ≤ c) (rest : VBytes) :
    Steps N (litLine p assigning) c (writeLit c ++ rest) rest := by
  unfold litLine writeLit natText
  rw [List.append_assoc]
  refine Steps.bind (lit_steps p.maxLit assigning c (by have := hp.small; omega) hc ha _ (ND.newline _)) ?_
  refine Steps.bind (requiredNewline_steps rest) ?_
  rw [fromCode_ok hp hc]
  exact Steps.pure _ _

/-- The state after one item of a counted section. -/
def dec (s : St) : St := { s with left := s.left - 1 }

theorem nextLit_some {N} (assigning : Bool) (s : St) (hp : POk s.p) (c : Nat) (rest : VBytes)
    (hl : s.left ≠ 0) (hc : c ≤ s.p.maxLit) (ha : assigning = true → c % 2 = 0 ∧ 2 ≤ c) :
    Steps N (nextLit assigning s) (some c, dec s) (writeLit c ++ rest) rest := by
  unfold nextLit
  cases hs : s.left with
  | zero => exact absurd hs hl
  | succ left =>
    simp only
    refine Steps.bind (litLine_steps _ hp assigning c hc ha rest) ?_
    have : dec s = { s with left := left } := by unfold dec; rw [hs]; rfl
    rw [this]
    exact Steps.pure _ _

theorem nextLit_none {N} (assigning : Bool) (s : St) (r : VBytes) (hl : s.left = 0) :
    Steps N (nextLit assigning s) (none, s) r r := by
  unfold nextLit
  rw [hl]
  exact Steps.pure _ _

theorem renderL_lits (cs : List Nat) (s : St) :
    renderL (fun _ c => writeLit c) (fun s _ => dec s) s cs = writeLits cs := by
  induction cs generalizing s with
  | nil => rfl
  | cons c cs ih => simp only [renderL, ih, writeLits, List.map_cons, List.flatten_cons]

theorem foldl_dec (cs : List Nat) (s : St) (hl : s.left = cs.length) :
    cs.foldl (fun s _ => dec s) s = { s with left := 0 } := by
  induction cs generalizing s with
  | nil => simp only [List.foldl_nil]; cases s; simp_all
  | cons c cs ih =>
    simp only [List.foldl_cons]
    rw [ih (dec s) (by unfold dec; simp only [List.length_cons] at hl ⊢; omega)]
    unfold dec; rfl

theorem foldl_dec_p (cs : List Nat) (s : St) : (cs.foldl (fun s _ => dec s) s).p = s.p := by
  induction cs generalizing s with
  | nil => rfl
  | cons c cs ih => simp only [List.foldl_cons]; rw [ih]; rfl

theorem goodL_lits (assigning : Bool) (cs : List Nat) (s : St) (hp : POk s.p)
    (h : ∀ c ∈ cs, c ≤ s.p.maxLit ∧ (assigning = true → c % 2 = 0 ∧ 2 ≤ c)) :
    GoodL (fun s c => POk s.p ∧ c ≤ s.p.maxLit ∧ (assigning = true → c % 2 = 0 ∧ 2 ≤ c))
      (fun s _ => dec s) s cs := by
  induction cs generalizing s with
  | nil => trivial
  | cons c cs ih =>
    exact ⟨⟨hp, h c (by simp)⟩, ih (dec s) hp (fun x hx => h x (by simp [hx]))⟩

/-- A whole literal section (`inputs`, `outputs`, `bad`, `constraints`, justice literals,
`fairness`) is read back. -/
theorem lits_steps {N} (assigning : Bool) (cs : List Nat) (s : St) (hp : POk s.p) (rest : VBytes)
    (hl : s.left = cs.length)
    (h : ∀ c ∈ cs, c ≤ s.p.maxLit ∧ (assigning = true → c % 2 = 0 ∧ 2 ≤ c)) :
    Steps N (whileSome (nextLit assigning) (s.left + 1) s []) (cs, { s with left := 0 })
      (writeLits cs ++ rest) rest := by
  have := whileSome_steps (N := N) (nextLit assigning) (fun s _ => dec s) (fun _ c => writeLit c)
    (fun s c => POk s.p ∧ c ≤ s.p.maxLit ∧ (assigning = true → c % 2 = 0 ∧ 2 ≤ c))
    (fun s x rest hl hg => nextLit_some assigning s hg.1 x rest hl hg.2.1 hg.2.2)
    (fun s x hl => by unfold dec; dsimp only; omega)
    (fun s r hl => nextLit_none assigning s r hl)
    cs s [] (s.left + 1) rest hl (by omega) (goodL_lits assigning cs s hp h)
  rw [renderL_lits, foldl_dec cs s hl] at this
  simpa using this

/-! ### latches -/

theorem natDigits_one : Writer.natDigits 1 = [49] := by decide

/-- The reset part of a latch line, all three forms. -/
theorem latchReset_steps {N} (p : Parser) (hp : POk p) (st : Nat) (init : Option Bool) (rest : VBytes)
    (hst : init = none → 2 ≤ st ∧ st ≤ p.maxLit) :
    Steps N (latchReset p st) init (writeInit init st ++ rest) rest := by
  unfold latchReset
  cases init with
  | some b =>
    cases b with
    | false =>
      simp only [writeInit, List.cons_append, List.nil_append]
      refine Steps.bind (newlineOrSpace_newline rest) ?_
      simp only [Bool.false_eq_true, ↓reduceIte]
      exact Steps.pure _ _
    | true =>
      simp only [writeInit, List.cons_append, List.nil_append]
      refine Steps.bind (newlineOrSpace_space _) ?_
      simp only [↓reduceIte]
      unfold latchInit
      have h1 := lit_steps (N := N) p.maxLit false 1 (by decide) hp.one (fun h => by cases h)
        (10 :: rest) (ND.newline _)
      rw [natDigits_one] at h1
      refine Steps.bind h1 ?_
      simp only [show (1 : Nat) < 2 from by decide, ↓reduceIte]
      refine Steps.bind (Steps.pure _ _) ?_
      refine Steps.bind (requiredNewline_steps rest) ?_
      exact Steps.pure _ _
  | none =>
    obtain ⟨h2, hm⟩ := hst rfl
    simp only [writeInit, natText, List.cons_append, List.nil_append, List.append_assoc]
    refine Steps.bind (newlineOrSpace_space _) ?_
    simp only [↓reduceIte]
    unfold latchInit
    refine Steps.bind (lit_steps p.maxLit false st (by have := hp.small; omega) hm
      (fun h => by cases h) (10 :: rest) (ND.newline _)) ?_
    have hlt : ¬ st < 2 := by omega
    simp only [hlt, ↓reduceIte, beq_self_eq_true]
    refine Steps.bind (Steps.pure _ _) ?_
    refine Steps.bind (requiredNewline_steps rest) ?_
    exact Steps.pure _ _

def LatchGood (s : St) (l : Latch) : Prop :=
  POk s.p ∧ l.state ≤ s.p.maxLit ∧ l.state % 2 = 0 ∧ 2 ≤ l.state ∧ l.next ≤ s.p.maxLit

theorem nextLatchAscii_some {N} (s : St) (l : Latch) (rest : VBytes) (hl : s.left ≠ 0)
    (hg : LatchGood s l) :
    Steps N (nextLatchAscii s) (some l, dec s) (writeLatchAscii l ++ rest) rest := by
  obtain ⟨hp, h1, h2, h3, h4⟩ := hg
  unfold nextLatchAscii
  cases hs : s.left with
  | zero => exact absurd hs hl
  | succ left =>
    simp only [writeLatchAscii, natText, List.append_assoc, List.cons_append, List.nil_append]
    refine Steps.bind (lit_steps s.p.maxLit true l.state (by have := hp.small; omega) h1
      (fun _ => ⟨h2, h3⟩) _ (ND.space _)) ?_
    refine Steps.bind (requiredSpace_steps _) ?_
    have hnd : ND (writeInit l.init l.state ++ rest) := by
      cases hi : l.init with
      | none => simp only [writeInit, List.cons_append]; exact ND.space _
      | some b => cases b <;> simp only [writeInit, List.cons_append] <;> first | exact ND.space _ | exact ND.newline _
    refine Steps.bind (lit_steps s.p.maxLit false l.next (by have := hp.small; omega) h4
      (fun h => by cases h) _ hnd) ?_
    refine Steps.bind (latchReset_steps s.p hp l.state l.init rest (fun _ => ⟨h3, h1⟩)) ?_
    have : dec s = { s with left := left } := by unfold dec; rw [hs]; rfl
    rw [this, fromCode_ok hp h1, fromCode_ok hp h4]
    exact Steps.pure _ _

theorem nextLatchAscii_none {N} (s : St) (r : VBytes) (hl : s.left = 0) :
    Steps N (nextLatchAscii s) (none, s) r r := by
  unfold nextLatchAscii
  rw [hl]
  exact Steps.pure _ _

/-! ### sections whose items do not depend on the section state -/

section simple
variable {α : Type}

theorem renderL_simple (render : α → VBytes) (xs : List α) (s : St) :
    renderL (fun _ x => render x) (fun s _ => dec s) s xs = (xs.map render).flatten := by
  induction xs generalizing s with
  | nil => rfl
  | cons x xs ih => simp only [renderL, ih, List.map_cons, List.flatten_cons]

theorem foldl_dec' (xs : List α) (s : St) (hl : s.left = xs.length) :
    xs.foldl (fun s _ => dec s) s = { s with left := 0 } := by
  induction xs generalizing s with
  | nil => simp only [List.foldl_nil]; cases s; simp_all
  | cons c cs ih =>
    simp only [List.foldl_cons]
    rw [ih (dec s) (by unfold dec; simp only [List.length_cons] at hl ⊢; omega)]
    unfold dec; rfl

theorem goodL_simple (good : Parser → α → Prop) (xs : List α) (s : St) (h : ∀ x ∈ xs, good s.p x) :
    GoodL (fun s x => good s.p x) (fun s _ => dec s) s xs := by
  induction xs generalizing s with
  | nil => trivial
  | cons c cs ih => exact ⟨h c (by simp), ih (dec s) (fun x hx => h x (by simp [hx]))⟩

theorem section_steps {N : Nat} (next : St → PM (Option α × St)) (render : α → VBytes)
    (good : Parser → α → Prop)
    (hitem : ∀ s x rest, s.left ≠ 0 → good s.p x →
      Steps N (next s) (some x, dec s) (render x ++ rest) rest)
    (hnone : ∀ s r, s.left = 0 → Steps N (next s) (none, s) r r)
    (xs : List α) (s : St) (rest : VBytes) (hl : s.left = xs.length) (h : ∀ x ∈ xs, good s.p x) :
    Steps N (whileSome next (s.left + 1) s []) (xs, { s with left := 0 })
      ((xs.map render).flatten ++ rest) rest := by
  have := whileSome_steps (N := N) next (fun s _ => dec s) (fun _ x => render x)
    (fun s x => good s.p x) hitem (fun s x hl => by unfold dec; dsimp only; omega) hnone
    xs s [] (s.left + 1) rest hl (by omega) (goodL_simple good xs s h)
  rw [renderL_simple, foldl_dec' xs s hl] at this
  simpa using this

end simple

theorem latchesAscii_steps {N} (ls : List Latch) (s : St) (rest : VBytes) (hl : s.left = ls.length)
    (h : ∀ l ∈ ls, LatchGood s l) :
    Steps N (whileSome nextLatchAscii (s.left + 1) s []) (ls, { s with left := 0 })
      ((ls.map writeLatchAscii).flatten ++ rest) rest :=
  section_steps nextLatchAscii writeLatchAscii
    (fun p l => POk p ∧ l.state ≤ p.maxLit ∧ l.state % 2 = 0 ∧ 2 ≤ l.state ∧ l.next ≤ p.maxLit)
    (fun s x rest hl hg => nextLatchAscii_some s x rest hl hg)
    (fun s r hl => nextLatchAscii_none s r hl) ls s rest hl h

/-! ### ASCII and gates -/

def GateGood (p : Parser) (g : AndGate) : Prop :=
  POk p ∧ g.out ≤ p.maxLit ∧ g.out % 2 = 0 ∧ 2 ≤ g.out ∧ g.in0 ≤ p.maxLit ∧ g.in1 ≤ p.maxLit

theorem nextAndGateAscii_some {N} (s : St) (g : AndGate) (rest : VBytes) (hl : s.left ≠ 0)
    (hg : GateGood s.p g) :
    Steps N (nextAndGateAscii s) (some g, dec s) (writeAndGateAscii g ++ rest) rest := by
  obtain ⟨hp, h1, h2, h3, h4, h5⟩ := hg
  unfold nextAndGateAscii
  cases hs : s.left with
  | zero => exact absurd hs hl
  | succ left =>
    simp only [writeAndGateAscii, natText, List.append_assoc, List.cons_append, List.nil_append]
    refine Steps.bind (lit_steps s.p.maxLit true g.out (by have := hp.small; omega) h1
      (fun _ => ⟨h2, h3⟩) _ (ND.space _)) ?_
    refine Steps.bind (requiredSpace_steps _) ?_
    refine Steps.bind (lit_steps s.p.maxLit false g.in0 (by have := hp.small; omega) h4
      (fun h => by cases h) _ (ND.space _)) ?_
    refine Steps.bind (requiredSpace_steps _) ?_
    refine Steps.bind (lit_steps s.p.maxLit false g.in1 (by have := hp.small; omega) h5
      (fun h => by cases h) _ (ND.newline _)) ?_
    refine Steps.bind (requiredNewline_steps rest) ?_
    have : dec s = { s with left := left } := by unfold dec; rw [hs]; rfl
    rw [this, fromCode_ok hp h1, fromCode_ok hp h4, fromCode_ok hp h5]
    exact Steps.pure _ _

theorem nextAndGateAscii_none {N} (s : St) (r : VBytes) (hl : s.left = 0) :
    Steps N (nextAndGateAscii s) (none, s) r r := by
  unfold nextAndGateAscii
  rw [hl]
  exact Steps.pure _ _

theorem gatesAscii_steps {N} (gs : List AndGate) (s : St) (rest : VBytes) (hl : s.left = gs.length)
    (h : ∀ g ∈ gs, GateGood s.p g) :
    Steps N (whileSome nextAndGateAscii (s.left + 1) s []) (gs, { s with left := 0 })
      ((gs.map writeAndGateAscii).flatten ++ rest) rest :=
  section_steps nextAndGateAscii writeAndGateAscii GateGood
    (fun s x rest hl hg => nextAndGateAscii_some s x rest hl hg)
    (fun s r hl => nextAndGateAscii_none s r hl) gs s rest hl h

/-! ### justice sizes -/

theorem checkedSub_steps {N} (site : String) (a b : Nat) (r : VBytes) (h : b ≤ a) :
    Steps N (checkedSub site a b) (a - b) r r := by
  unfold checkedSub
  have : ¬ b > a := by omega
  simp only [this, ↓reduceIte]
  exact Steps.pure _ _

theorem checkedAdd_steps {N} (site : String) (a b : Nat) (r : VBytes) (h : a + b ≤ usizeMax) :
    Steps N (checkedAdd site a b) (a + b) r r := by
  unfold checkedAdd
  have : ¬ a + b > usizeMax := by omega
  simp only [this, ↓reduceIte]
  exact Steps.pure _ _

theorem checkedMul_steps {N} (site : String) (a b : Nat) (r : VBytes) (h : a * b ≤ usizeMax) :
    Steps N (checkedMul site a b) (a * b) r r := by
  unfold checkedMul
  have : ¬ a * b > usizeMax := by omega
  simp only [this, ↓reduceIte]
  exact Steps.pure _ _

def sizeStep (s : St) (x : Nat) : St := { s with left := s.left - 1, total := s.total + x }

theorem nextJusticeSize_some {N} (s : St) (x : Nat) (rest : VBytes) (hl : s.left ≠ 0)
    (hx : s.total + x ≤ usizeMax) :
    Steps N (nextJusticeSize s) (some x, sizeStep s x) (writeLit x ++ rest) rest := by
  unfold nextJusticeSize
  cases hs : s.left with
  | zero => exact absurd hs hl
  | succ left =>
    simp only [writeLit, natText, List.append_assoc, List.cons_append, List.nil_append]
    have hu : usizeMax = 2 ^ 64 - 1 := rfl
    refine Steps.bind (checkedSub_steps _ _ _ _ (by show s.total ≤ usizeMax; omega)) ?_
    refine Steps.bind (headerField_steps _ x (by omega) (by show x ≤ usizeMax - s.total; omega) _
      (ND.newline _)) ?_
    refine Steps.bind (requiredNewline_steps rest) ?_
    refine Steps.bind (checkedAdd_steps _ _ _ _ (by show s.total + x ≤ usizeMax; exact hx)) ?_
    have : sizeStep s x = { s with left := left, total := s.total + x } := by
      unfold sizeStep; rw [hs]; rfl
    rw [this]
    exact Steps.pure _ _

theorem nextJusticeSize_none {N} (s : St) (r : VBytes) (hl : s.left = 0) :
    Steps N (nextJusticeSize s) (none, s) r r := by
  unfold nextJusticeSize
  rw [hl]
  exact Steps.pure _ _

theorem foldl_sizeStep (xs : List Nat) (s : St) (hl : s.left = xs.length) :
    xs.foldl sizeStep s = { s with left := 0, total := s.total + xs.sum } := by
  induction xs generalizing s with
  | nil => simp only [List.foldl_nil, List.sum_nil, Nat.add_zero]; cases s; simp_all
  | cons c cs ih =>
    simp only [List.foldl_cons, List.sum_cons]
    rw [ih (sizeStep s c) (by unfold sizeStep; simp only [List.length_cons] at hl ⊢; omega)]
    unfold sizeStep
    simp only [Nat.add_assoc]

theorem goodL_sizes (xs : List Nat) (s : St) (h : s.total + xs.sum ≤ usizeMax) :
    GoodL (fun s x => s.total + x ≤ usizeMax) sizeStep s xs := by
  induction xs generalizing s with
  | nil => trivial
  | cons c cs ih =>
    simp only [List.sum_cons] at h
    refine ⟨by omega, ih (sizeStep s c) ?_⟩
    unfold sizeStep; dsimp only; omega

theorem sizes_steps {N} (xs : List Nat) (s : St) (rest : VBytes) (hl : s.left = xs.length)
    (h : s.total + xs.sum ≤ usizeMax) :
    Steps N (whileSome nextJusticeSize (s.left + 1) s [])
      (xs, { s with left := 0, total := s.total + xs.sum }) (writeLits xs ++ rest) rest := by
  have := whileSome_steps (N := N) nextJusticeSize sizeStep (fun _ c => writeLit c)
    (fun s x => s.total + x ≤ usizeMax)
    (fun s x rest hl hg => nextJusticeSize_some s x rest hl hg)
    (fun s x hl => by unfold sizeStep; dsimp only; omega)
    (fun s r hl => nextJusticeSize_none s r hl)
    xs s [] (s.left + 1) rest hl (by omega) (goodL_sizes xs s h)
  have hr : renderL (fun _ c => writeLit c) sizeStep s xs = writeLits xs := by
    clear this h hl
    induction xs generalizing s with
    | nil => rfl
    | cons c cs ih => simp only [renderL, ih, writeLits, List.map_cons, List.flatten_cons]
  rw [hr, foldl_sizeStep xs s hl] at this
  simpa using this

/-! ### the justice distribution loop -/

theorem justiceSeek_ge (js : List (List Nat)) (sizes : List Nat) :
    ∀ (fuel jp jp' : Nat), justiceSeek js sizes fuel jp = some jp' → jp ≤ jp' := by
  intro fuel
  induction fuel with
  | zero => intro jp jp' h; simp [justiceSeek] at h
  | succ fuel ih =>
    intro jp jp' h
    unfold justiceSeek at h
    split at h
    · split at h
      · have := ih _ _ h; omega
      · cases h; exact Nat.le_refl _
    · cases h

theorem flatten_modify_last (c : Nat) : ∀ (cur : List (List Nat)) (i : Nat), i < cur.length →
    (∀ k l, i < k → cur[k]? = some l → l = []) →
    (cur.modify i (· ++ [c])).flatten = cur.flatten ++ [c] := by
  intro cur
  induction cur with
  | nil => intro i hi; simp at hi
  | cons x xs ih =>
    intro i hi hemp
    cases i with
    | zero =>
      simp only [List.modify_zero_cons, List.flatten_cons]
      have : xs.flatten = [] := by
        rw [List.flatten_eq_nil_iff]
        intro l hl
        obtain ⟨k, hk, hkl⟩ := List.getElem_of_mem hl
        exact hemp (k + 1) l (by omega) (by simp [List.getElem?_eq_getElem hk, hkl])
      simp [this]
    | succ i =>
      simp only [List.modify_succ_cons, List.flatten_cons]
      rw [ih i (by simpa using hi) (fun k l hk hl => hemp (k + 1) l (by omega) (by simpa using hl))]
      simp

theorem eq_of_flatten_lengths : ∀ (a b : List (List Nat)), a.flatten = b.flatten →
    a.map List.length = b.map List.length → a = b := by
  intro a
  induction a with
  | nil => intro b _ hl; cases b with
    | nil => rfl
    | cons _ _ => simp at hl
  | cons x xs ih =>
    intro b hf hl
    cases b with
    | nil => simp at hl
    | cons y ys =>
      simp only [List.map_cons, List.cons.injEq] at hl
      simp only [List.flatten_cons] at hf
      obtain ⟨h1, h2⟩ := List.append_inj hf hl.1
      rw [h1, ih ys h2 hl.2]

theorem st_left_zero (s : St) (h : s.left = 0) : ({ s with left := 0 } : St) = s := by
  cases s; simp_all

/-- The distribution loop on the written literals fills the properties in order. -/
theorem justiceLits_steps {N} (sizes : List Nat) :
    ∀ (lits : List Nat) (s : St) (cur : List (List Nat)) (jp fuel : Nat) (rest : VBytes),
      POk s.p → s.left = lits.length → lits.length < fuel → JInv cur sizes jp s.left →
      (∀ k l, jp < k → cur[k]? = some l → l = []) → (∀ c ∈ lits, c ≤ s.p.maxLit) →
      ∃ final, Steps N (justiceLitsLoop sizes fuel s cur jp) (final, { s with left := 0 })
          (writeLits lits ++ rest) rest ∧
        final.flatten = cur.flatten ++ lits ∧ final.map List.length = sizes := by
  intro lits
  induction lits with
  | nil =>
    intro s cur jp fuel rest hp hl hf hi hemp hc
    cases fuel with
    | zero => simp at hf
    | succ fuel =>
      refine ⟨cur, ?_, by simp, full_of_deficit_zero cur sizes hi.len hi.le (by rw [hi.def_, hl]; rfl)⟩
      unfold justiceLitsLoop nextJusticeLit
      refine Steps.bind (nextLit_none false s _ hl) ?_
      simp only [writeLits, List.map_nil, List.flatten_nil, List.nil_append]
      rw [st_left_zero s hl]
      exact Steps.pure _ _
  | cons c lits ih =>
    intro s cur jp fuel rest hp hl hf hi hemp hc
    cases fuel with
    | zero => simp at hf
    | succ fuel =>
      have hne : s.left ≠ 0 := by rw [hl]; simp
      have hleft : s.left = (dec s).left + 1 := by unfold dec; dsimp only; omega
      have hi0 := hi
      rw [hleft] at hi
      obtain ⟨jp', hseek, hi', j, sz, hj, hsz, hlt⟩ :=
        justiceSeek_some cur sizes ((dec s).left + 1) (by omega) (cur.length - jp) jp (cur.length + 1)
          (Nat.le_refl _) (by omega) hi
      have hge := justiceSeek_ge cur sizes _ _ _ hseek
      have hjlen : jp' < cur.length := (List.getElem?_eq_some_iff.mp hj).1
      have hemp' : ∀ k l, jp' < k → (cur.modify jp' (· ++ [c]))[k]? = some l → l = [] := by
        intro k l hk hkl
        rw [List.getElem?_modify] at hkl
        cases hck : cur[k]? with
        | none => rw [hck] at hkl; simp at hkl
        | some l0 =>
          rw [hck] at hkl
          have hne' : ¬ jp' = k := by omega
          simp only [Option.map_eq_map, Option.map_some, hne', ↓reduceIte, Option.some.injEq] at hkl
          subst hkl
          exact hemp k _ (by omega) hck
      obtain ⟨final, hst, hfl, hlen⟩ := ih (dec s) (cur.modify jp' (· ++ [c])) jp' fuel rest hp
        (by unfold dec; dsimp only; simp only [List.length_cons] at hl; omega)
        (by simp only [List.length_cons] at hf; omega) (hi'.push c j sz hj hsz hlt) hemp'
        (fun x hx => hc x (by simp [hx]))
      refine ⟨final, ?_, ?_, hlen⟩
      · unfold justiceLitsLoop nextJusticeLit
        simp only [writeLits, List.map_cons, List.flatten_cons, List.append_assoc]
        refine Steps.bind (nextLit_some false s hp c _ hne (hc c (by simp)) (fun h => by cases h)) ?_
        simp only [hseek]
        exact hst
      · rw [hfl, flatten_modify_last c cur jp' hjlen (fun k l hk hkl => hemp k l (by omega) hkl)]
        simp

/-! ### binary latches and gates (the next-literal counter `code` is part of the state) -/

def binStep (s : St) : St :=
  { s with left := s.left - 1, p := { s.p with code := (s.p.code + 2) % 2 ^ 64 } }

def OLatchGood (s : St) (l : OLatch) : Prop :=
  POk s.p ∧ l.next ≤ s.p.maxLit ∧ (l.init = none → 2 ≤ s.p.code ∧ s.p.code ≤ s.p.maxLit)

def olatchBytes (code : Nat) (l : OLatch) : VBytes := natText l.next ++ writeInit l.init code

theorem nextLatchBin_some {N} (s : St) (l : OLatch) (rest : VBytes) (hl : s.left ≠ 0)
    (hg : OLatchGood s l) :
    Steps N (nextLatchBin s) (some l, binStep s) (olatchBytes s.p.code l ++ rest) rest := by
  obtain ⟨hp, h1, h2⟩ := hg
  unfold nextLatchBin
  cases hs : s.left with
  | zero => exact absurd hs hl
  | succ left =>
    simp only [olatchBytes, natText, List.append_assoc]
    have hnd : ND (writeInit l.init s.p.code ++ rest) := by
      cases hi : l.init with
      | none => simp only [writeInit, List.cons_append]; exact ND.space _
      | some b => cases b <;> simp only [writeInit, List.cons_append] <;> first | exact ND.space _ | exact ND.newline _
    refine Steps.bind (lit_steps s.p.maxLit false l.next (by have := hp.small; omega) h1
      (fun h => by cases h) _ hnd) ?_
    refine Steps.bind (latchReset_steps s.p hp s.p.code l.init rest h2) ?_
    have : binStep s = { s with left := left, p := { s.p with code := (s.p.code + 2) % 2 ^ 64 } } := by
      unfold binStep; rw [hs]; rfl
    rw [this, fromCode_ok hp h1]
    exact Steps.pure _ _

theorem nextLatchBin_none {N} (s : St) (r : VBytes) (hl : s.left = 0) :
    Steps N (nextLatchBin s) (none, s) r r := by
  unfold nextLatchBin
  rw [hl]
  exact Steps.pure _ _

theorem deltaCode_steps {N} (code delta : Nat) (hc : code < 2 ^ 64) (hd : delta ≤ code)
    (bs rest : VBytes) (hw : writeBinaryUint delta = some bs) :
    Steps N (deltaCode code) (code - delta) (bs ++ rest) rest := by
  unfold deltaCode
  refine setMark_bind ?_
  refine Steps.bind (binaryUint_steps delta (by omega) bs rest hw) ?_
  have : ¬ delta > code := by omega
  simp only [this, ↓reduceIte]
  exact Steps.pure _ _

/-- The two varints of a gate, as the writer emits them. -/
def gateBytes (code : Nat) (g : OGate) : VBytes :=
  (writeBinaryUint (code - g.in0)).getD [] ++ (writeBinaryUint (g.in0 - g.in1)).getD []

def OGateGood (s : St) (g : OGate) : Prop :=
  POk s.p ∧ g.in1 ≤ g.in0 ∧ g.in0 ≤ s.p.code ∧ s.p.code < 2 ^ 64 ∧ s.p.code ≤ s.p.maxLit

theorem nextAndGateBin_some {N} (s : St) (g : OGate) (rest : VBytes) (hl : s.left ≠ 0)
    (hg : OGateGood s g) :
    Steps N (nextAndGateBin s) (some g, binStep s) (gateBytes s.p.code g ++ rest) rest := by
  obtain ⟨hp, h1, h2, h3, h4⟩ := hg
  obtain ⟨b0, hb0, _⟩ := writeBinaryUint_spec (s.p.code - g.in0) (by omega)
  obtain ⟨b1, hb1, _⟩ := writeBinaryUint_spec (g.in0 - g.in1) (by omega)
  unfold nextAndGateBin
  cases hs : s.left with
  | zero => exact absurd hs hl
  | succ left =>
    simp only [gateBytes, hb0, hb1, Option.getD_some, List.append_assoc]
    refine Steps.bind (deltaCode_steps s.p.code (s.p.code - g.in0) h3 (by omega) b0 _ hb0) ?_
    have e0 : s.p.code - (s.p.code - g.in0) = g.in0 := by omega
    rw [e0]
    refine Steps.bind (deltaCode_steps g.in0 (g.in0 - g.in1) (by omega) (by omega) b1 _ hb1) ?_
    have e1 : g.in0 - (g.in0 - g.in1) = g.in1 := by omega
    rw [e1]
    have : binStep s = { s with left := left, p := { s.p with code := (s.p.code + 2) % 2 ^ 64 } } := by
      unfold binStep; rw [hs]; rfl
    rw [this, fromCode_ok hp (by omega : g.in0 ≤ s.p.maxLit), fromCode_ok hp (by omega : g.in1 ≤ s.p.maxLit)]
    exact Steps.pure _ _

theorem nextAndGateBin_none {N} (s : St) (r : VBytes) (hl : s.left = 0) :
    Steps N (nextAndGateBin s) (none, s) r r := by
  unfold nextAndGateBin
  rw [hl]
  exact Steps.pure _ _

/-- A whole section of binary latches. -/
theorem latchesBin_steps {N} (ls : List OLatch) (s : St) (rest : VBytes) (hl : s.left = ls.length)
    (hg : GoodL OLatchGood (fun s _ => binStep s) s ls) :
    Steps N (whileSome nextLatchBin (s.left + 1) s []) (ls, ls.foldl (fun s _ => binStep s) s)
      (renderL (fun s l => olatchBytes s.p.code l) (fun s _ => binStep s) s ls ++ rest) rest := by
  have := whileSome_steps (N := N) nextLatchBin (fun s _ => binStep s)
    (fun s l => olatchBytes s.p.code l) OLatchGood
    (fun s x rest hl hg => nextLatchBin_some s x rest hl hg)
    (fun s x hl => by unfold binStep; dsimp only; omega)
    (fun s r hl => nextLatchBin_none s r hl)
    ls s [] (s.left + 1) rest hl (by omega) hg
  simpa using this

/-- The whole and-gate block. -/
theorem gatesBin_steps {N} (gs : List OGate) (s : St) (rest : VBytes) (hl : s.left = gs.length)
    (hg : GoodL OGateGood (fun s _ => binStep s) s gs) :
    Steps N (whileSome nextAndGateBin (s.left + 1) s []) (gs, gs.foldl (fun s _ => binStep s) s)
      (renderL (fun s g => gateBytes s.p.code g) (fun s _ => binStep s) s gs ++ rest) rest := by
  have := whileSome_steps (N := N) nextAndGateBin (fun s _ => binStep s)
    (fun s g => gateBytes s.p.code g) OGateGood
    (fun s x rest hl hg => nextAndGateBin_some s x rest hl hg)
    (fun s x hl => by unfold binStep; dsimp only; omega)
    (fun s r hl => nextAndGateBin_none s r hl)
    gs s [] (s.left + 1) rest hl (by omega) hg
  simpa using this

end Flussab.AigerRT
