/-
C12: `Aig::lit_defs` and the numbering loops of `Renumber::initialize`: duplicate detection,
and the invariant `Inv` holds before the first `transfer`.
-/
import Flussab.Proof.AigTransfer

namespace Flussab.Aig

/-! ### `lit_defs` -/

/-- Variables bound in `defs`. -/
def kv (d : Defs) : List Nat := d.map (·.1 / 2)

theorem contains_iff (d : Defs) (k : Nat) : d.contains k = true ↔ k ∈ d.map (·.1) := by
  unfold Defs.contains; exact alookup_isSome_iff k d

theorem contains_var_iff (d : Defs) (lit : Nat) :
    (d.contains (1 ^^^ lit) || d.contains lit) = true ↔ lit / 2 ∈ kv d := by
  rw [Bool.or_eq_true, contains_iff, contains_iff]
  unfold kv
  simp only [List.mem_map]
  constructor
  · rintro (⟨x, hx, he⟩ | ⟨x, hx, he⟩)
    · exact ⟨x, hx, by rw [he]; exact one_xor_div lit⟩
    · exact ⟨x, hx, by rw [he]⟩
  · rintro ⟨x, hx, he⟩
    by_cases hp : x.1 % 2 = lit % 2
    · exact Or.inr ⟨x, hx, eq_of_div_mod he hp⟩
    · refine Or.inl ⟨x, hx, eq_of_div_mod ?_ ?_⟩
      · rw [one_xor_div]; exact he
      · rw [one_xor_mod]; omega

theorem defsAdd_ok {es : List (Nat × LitDef)} {d d' : Defs} (h : defsAdd es d = .ok d') :
    d' = es.reverse ++ d ∧ ((kv d).Nodup → (kv d').Nodup) := by
  induction es generalizing d with
  | nil => simp only [defsAdd] at h; injection h with h; subst h; simp
  | cons e rest ih =>
    obtain ⟨lit, v⟩ := e
    simp only [defsAdd] at h
    split at h
    · exact absurd h (by simp)
    · rename_i hc
      rw [contains_var_iff] at hc
      obtain ⟨i1, i2⟩ := ih h
      refine ⟨by rw [i1]; simp, fun hn => i2 ?_⟩
      simp only [kv, List.map_cons, List.nodup_cons]
      exact ⟨hc, hn⟩

theorem defsAdd_err {es : List (Nat × LitDef)} {d : Defs} {e : Err} (h : defsAdd es d = .error e) :
    ∃ l, e = .alreadyDefined l := by
  induction es generalizing d with
  | nil => simp [defsAdd] at h
  | cons x rest ih =>
    obtain ⟨lit, v⟩ := x
    simp only [defsAdd] at h
    split at h
    · injection h with h; exact ⟨lit, h.symm⟩
    · exact ih h

theorem inputEntries_fst (i : Nat) (l : List Nat) : (inputEntries i l).map (·.1) = l := by
  induction l generalizing i with
  | nil => rfl
  | cons x rest ih => simp [inputEntries, ih]

theorem inputEntries_not_gate (i : Nat) (l : List Nat) (k x y : Nat) :
    (k, LitDef.andGate x y) ∉ inputEntries i l := by
  induction l generalizing i with
  | nil => simp [inputEntries]
  | cons z rest ih => simp [inputEntries, ih]

theorem litDefs_ok {a : Aig} {defs : Defs} (h : litDefs a = .ok defs) :
    defs = (gateEntries a.gates).reverse ++ ((inputEntries 0 a.inputs).reverse ++ [(0, .constant)]) ∧
    (kv defs).Nodup := by
  unfold litDefs at h
  split at h
  · exact absurd h (by simp)
  · rename_i d hd
    obtain ⟨e1, n1⟩ := defsAdd_ok hd
    obtain ⟨e2, n2⟩ := defsAdd_ok h
    exact ⟨by rw [e2, e1], n2 (n1 (by simp [kv]))⟩

theorem litDefs_err {a : Aig} {e : Err} (h : litDefs a = .error e) : ∃ l, e = .alreadyDefined l := by
  unfold litDefs at h
  split at h
  · rename_i e' hd
    injection h with h; subst h; exact defsAdd_err hd
  · exact defsAdd_err h

theorem litDefs_defsOk {a : Aig} {defs : Defs} (h : litDefs a = .ok defs) : DefsOk a defs := by
  intro k x y hl
  have hm := alookup_mem hl
  rw [(litDefs_ok h).1] at hm
  simp only [List.mem_append, List.mem_reverse, List.mem_singleton, Prod.mk.injEq] at hm
  rcases hm with hm | hm | hm
  · unfold gateEntries at hm
    rw [List.mem_map] at hm
    obtain ⟨g, hg, he⟩ := hm
    injection he with e1 e2; injection e2 with e2 e3
    subst e1; subst e2; subst e3
    exact hg
  · exact absurd hm (inputEntries_not_gate _ _ _ _ _)
  · exact absurd hm.2 (by simp)

/-- The variables of `defs` are: gate outputs (reversed), inputs (reversed), the constant. -/
theorem litDefs_kv {a : Aig} {defs : Defs} (h : litDefs a = .ok defs) :
    kv defs = (a.gates.map (·.out / 2)).reverse ++ ((a.inputs.map (· / 2)).reverse ++ [0]) := by
  rw [(litDefs_ok h).1]
  unfold kv
  simp only [List.map_append, List.map_reverse, List.map_cons, List.map_nil]
  have h1 : (gateEntries a.gates).map (fun x => x.1 / 2) = a.gates.map (·.out / 2) := by
    unfold gateEntries; rw [List.map_map]; rfl
  have h2 : (inputEntries 0 a.inputs).map (fun x => x.1 / 2) = a.inputs.map (· / 2) := by
    have := inputEntries_fst 0 a.inputs
    calc (inputEntries 0 a.inputs).map (fun x => x.1 / 2)
        = ((inputEntries 0 a.inputs).map (·.1)).map (· / 2) := by rw [List.map_map]; rfl
      _ = a.inputs.map (· / 2) := by rw [this]
  rw [h1, h2]

/-! ### the latch loop -/

theorem initLatches_err {defs : Defs} {ls : List Latch} {st : St} {e : Err}
    (h : initLatches defs ls st = .error e) : ∃ l, e = .alreadyDefined l := by
  induction ls generalizing st with
  | nil => simp [initLatches] at h
  | cons l rest ih =>
    simp only [initLatches] at h
    split at h
    · injection h with h; exact ⟨_, h.symm⟩
    · exact ih h

theorem initLatches_keys {defs : Defs} {ls : List Latch} {st st' : St}
    (h : initLatches defs ls st = .ok st') : ∀ k, st.litMap.HasKey k → st'.litMap.HasKey k := by
  induction ls generalizing st with
  | nil => simp only [initLatches] at h; injection h with h; subst h; exact fun _ hk => hk
  | cons l rest ih =>
    simp only [initLatches] at h
    split at h
    · exact absurd h (by simp)
    · intro k hk
      exact ih h k (LitMap.hasKey_insert_of _ _ _ _ hk)

theorem initLatches_nodup {defs : Defs} {ls : List Latch} {st st' : St}
    (h : initLatches defs ls st = .ok st') :
    (ls.map (·.state / 2)).Nodup ∧ ∀ l ∈ ls, l.state / 2 ∉ kv defs ∧ ¬ st.litMap.HasKey l.state := by
  induction ls generalizing st with
  | nil => simp
  | cons l rest ih =>
    simp only [initLatches] at h
    split at h
    · exact absurd h (by simp)
    · rename_i hc
      rw [Bool.or_eq_true, not_or] at hc
      obtain ⟨hc1, hc2⟩ := hc
      have hc1' : l.state / 2 ∉ kv defs := by
        rw [← contains_var_iff]; rw [Bool.or_comm]; exact hc1
      have hc2' : ¬ st.litMap.HasKey l.state := by
        rw [← LitMap.get_isSome_iff]; exact hc2
      obtain ⟨i1, i2⟩ := ih h
      constructor
      · simp only [List.map_cons, List.nodup_cons]
        refine ⟨?_, i1⟩
        intro hm
        rw [List.mem_map] at hm
        obtain ⟨l', hl', he⟩ := hm
        exact (i2 l' hl').2 (LitMap.hasKey_insert_of_var _ _ _ _ he.symm)
      · intro l' hl'
        rcases List.mem_cons.mp hl' with rfl | hl'
        · exact ⟨hc1', hc2'⟩
        · exact ⟨(i2 l' hl').1, fun hk => (i2 l' hl').2 (LitMap.hasKey_insert_of _ _ _ _ hk)⟩

/-! ### the state before the first transfer -/

/-- Invariant of the two numbering loops of `initialize`: `nI` inputs and `nL` latches done. -/
structure InitInv (a : Aig) (nI nL : Nat) (st : St) : Prop where
  gates : st.gates = []
  index : st.index = []
  code : st.lastCode = 2 * (nI + nL)
  le : nI + nL ≤ a.inputs.length + a.latches.length
  entries : ∀ k v, (k, v) ∈ st.litMap → v ≤ st.lastCode + 1 ∧ Grounded a (k / 2) ∧
    ∀ σ, Consistent a σ → litValL (baseOf a σ) v = litVal σ k

theorem initInv_init (a : Aig) : InitInv a 0 0 St.init := by
  refine ⟨rfl, rfl, rfl, by omega, ?_⟩
  intro k v hm
  simp only [St.init, LitMap.insert, List.mem_cons, Prod.mk.injEq, List.not_mem_nil, or_false] at hm
  obtain ⟨rfl, rfl⟩ := hm
  refine ⟨by simp, Grounded.const, ?_⟩
  intro σ hc
  simp [litValL, litVal, baseOf, hc.1]

theorem InitInv.add {a : Aig} {nI nL : Nat} {st : St} (h : InitInv a nI nL st) (lit : Nat)
    (nI' nL' : Nat) (hn : nI' + nL' = nI + nL + 1) (hle : nI' + nL' ≤ a.inputs.length + a.latches.length)
    (hg : Grounded a (lit / 2))
    (hs : ∀ σ, litValL (baseOf a σ) (st.lastCode + 2) = litVal σ lit) :
    InitInv a nI' nL' { st with lastCode := st.lastCode + 2,
                                litMap := st.litMap.insert lit (st.lastCode + 2) } := by
  have hc := h.code
  refine ⟨h.gates, h.index, by simp only; omega, hle, ?_⟩
  intro k v hm
  simp only [LitMap.insert, List.mem_cons, Prod.mk.injEq] at hm
  rcases hm with ⟨rfl, rfl⟩ | hm
  · refine ⟨?_, ?_, ?_⟩
    · show (st.lastCode + 2) ^^^ (lit % 2) ≤ st.lastCode + 2 + 1
      exact xor_bit_le _ _ _ (by omega) (by omega) (by omega)
    · have : 2 * (lit / 2) / 2 = lit / 2 := by omega
      rw [this]; exact hg
    · intro σ _
      exact sound_insert σ _ lit _ (hs σ)
  · obtain ⟨e1, e2, e3⟩ := h.entries k v hm
    exact ⟨by simp only; omega, e2, e3⟩

theorem baseOf_input (a : Aig) (σ : Nat → Bool) (pre rest : List Nat) (lit : Nat)
    (h : a.inputs = pre ++ lit :: rest) :
    litValL (baseOf a σ) (2 * (pre.length + 0) + 2) = litVal σ lit := by
  unfold litValL baseOf
  have e1 : (2 * (pre.length + 0) + 2) / 2 = pre.length + 1 := by omega
  have e2 : (2 * (pre.length + 0) + 2) % 2 = 0 := by omega
  rw [e1, e2, h]
  simp

theorem baseOf_latch (a : Aig) (σ : Nat → Bool) (pre rest : List Latch) (l : Latch)
    (h : a.latches = pre ++ l :: rest) :
    litValL (baseOf a σ) (2 * (a.inputs.length + pre.length) + 2) = litVal σ l.state := by
  unfold litValL baseOf
  have e1 : (2 * (a.inputs.length + pre.length) + 2) / 2 = (a.inputs.length + pre.length) + 1 := by omega
  have e2 : (2 * (a.inputs.length + pre.length) + 2) % 2 = 0 := by omega
  rw [e1, e2, h]
  simp

theorem initInputs_inv {a : Aig} (l : List Nat) :
    ∀ (pre : List Nat) (st : St), a.inputs = pre ++ l → InitInv a pre.length 0 st →
      InitInv a a.inputs.length 0 (initInputs l st) := by
  induction l with
  | nil => intro pre st hp h; simp only [initInputs]; rw [hp]; simpa using h
  | cons lit rest ih =>
    intro pre st hp h
    simp only [initInputs]
    apply ih (pre ++ [lit]) _ (by rw [hp]; simp)
    have hlen : (pre ++ [lit]).length = pre.length + 1 := by simp
    rw [hlen]
    apply h.add lit (pre.length + 1) 0 (by omega) (by rw [hp]; simp; omega)
      (Grounded.input lit (by rw [hp]; simp))
    intro σ
    rw [h.code]
    exact baseOf_input a σ pre rest lit hp

theorem initLatches_inv {a : Aig} {defs : Defs} (l : List Latch) :
    ∀ (pre : List Latch) (st st' : St), a.latches = pre ++ l →
      InitInv a a.inputs.length pre.length st → initLatches defs l st = .ok st' →
      InitInv a a.inputs.length a.latches.length st' := by
  induction l with
  | nil =>
    intro pre st st' hp h he
    simp only [initLatches] at he; injection he with he; subst he
    rw [hp]; simpa using h
  | cons x rest ih =>
    intro pre st st' hp h he
    simp only [initLatches] at he
    split at he
    · exact absurd he (by simp)
    · apply ih (pre ++ [x]) _ _ (by rw [hp]; simp) _ he
      have hlen : (pre ++ [x]).length = pre.length + 1 := by simp
      rw [hlen]
      apply h.add x.state a.inputs.length (pre.length + 1) (by omega) (by rw [hp]; simp)
        (Grounded.latch x (by rw [hp]; simp))
      intro σ
      rw [h.code]
      exact baseOf_latch a σ pre rest x hp

theorem InitInv.toInv {a : Aig} {st : St} (h : InitInv a a.inputs.length a.latches.length st) :
    Inv a st := by
  refine ⟨by rw [h.code, h.gates]; simp, fun k v hm => (h.entries k v hm).1, ?_,
    fun k v hm => (h.entries k v hm).2.1, ?_, ?_⟩
  · intro σ hc k v hm
    have := (h.entries k v hm).2.2 σ hc
    unfold St.vals newVals
    rw [h.gates]; exact this
  · intro i hi; rw [h.gates] at hi; simp at hi
  · intro g c hm; rw [h.index] at hm; simp at hm

end Flussab.Aig
