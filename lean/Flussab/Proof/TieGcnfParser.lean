/-
Proofs of the tie between the generated streaming GCNF parser (`Gen/GcnfParserGen.lean`, from
`flussab-cnf/src/gcnf.rs`, `impl Parser`) and `Model/Cnf.lean` (format `.gcnf`).  Statements:
`Props/TieGcnfParser.lean`.

The proofs of `Proof/TieWcnfParser.lean` over the monad `GPPM = StateT Cnf.GParserS PM` (the GCNF parser struct has
the extra fields `group_limit`, `group_limit_is_hard`; the state-level lemmas of `Proof/TieCnfParser.lean` are
repeated for this record), with `clause_group` (fall-through consumes nothing: `Cnf.clauseGroup_la`) in place of
the weight.  State-independent lemmas (`unexpected_err`, `prog_m_*`, `usizeAsIsize_small`, `nextClauseM`,
`litsOf`, `hardAfterNew`) are those of `Proof/TieCnfParser.lean`.

Kernel cost: `simp` must not rewrite under the `have x := t2` of the generated `and_also` closure (the proof term
makes the kernel time out); the closure is therefore run separately (`closG_run`) after the `have` was removed by
`dsimp only`.
-/
import Flussab.Gen.GcnfParserGen
import Flussab.Proof.TieCnfParser

set_option linter.unusedSimpArgs false

namespace Flussab
namespace TieGcnfParserAux
open PM GcnfParserExt TieCnfTokenAux
open TieCnfParserAux (restM unexpected_err prog_m_comment' prog_m_newline usizeAsIsize_small nextClauseM litsOf hardAfterNew)

variable {α β : Type}

/-- One run of a `GPPM` computation. -/
theorem ppm_bind_apply (x : GPPM α) (f : α → GPPM β) (s : Cnf.GParserS) (lr : LR) :
    (x >>= f) s lr = match x s lr with
      | (.ok (a, s'), lr') => f a s' lr'
      | (.error e, lr') => (.error e, lr') := by
  show ((x s : PM (α × Cnf.GParserS)) >>= fun p => f p.1 p.2) lr = _
  rw [PM.bind_apply]
  rcases x s lr with ⟨_ | ⟨a, s'⟩, lr'⟩ <;> rfl

theorem ppm_pure_apply (a : α) (s : Cnf.GParserS) (lr : LR) : (pure a : GPPM α) s lr = (.ok (a, s), lr) := rfl

theorem tok_apply (x : PM α) (s : Cnf.GParserS) (lr : LR) :
    tok x s lr = match x lr with
      | (.ok a, lr') => (.ok (a, s), lr')
      | (.error e, lr') => (.error e, lr') := by
  show ((x : PM α) >>= fun a => (pure (a, s) : PM (α × Cnf.GParserS))) lr = _
  rw [PM.bind_apply]
  rcases x lr with ⟨_ | a, lr'⟩ <;> rfl

theorem getP_apply (s : Cnf.GParserS) (lr : LR) : getP s lr = (.ok (s, s), lr) := rfl
theorem setP_apply (t s : Cnf.GParserS) (lr : LR) : setP t s lr = (.ok ((), t), lr) := rfl
theorem modifyP_apply (g : Cnf.GParserS → Cnf.GParserS) (s : Cnf.GParserS) (lr : LR) :
    modifyP g s lr = (.ok ((), g s), lr) := rfl
theorem getLR_apply' (s : Cnf.GParserS) (lr : LR) : GcnfParserExt.getLR s lr = (.ok (lr, s), lr) := rfl


theorem tok_pure (a : α) : tok (pure a : PM α) = (pure a : GPPM α) := by
  funext s lr; rfl

theorem tok_bind (x : PM α) (f : α → PM β) : tok (x >>= f) = tok x >>= fun a => tok (f a) := by
  funext s lr
  rw [ppm_bind_apply, tok_apply, tok_apply, PM.bind_apply]
  rcases x lr with ⟨_ | a, lr'⟩
  · rfl
  · simp only [tok_apply]

/-- `x.or_give_up(|| e)` on the value of `x` is the model's `orGiveUp x e`. -/
theorem tok_orGiveUp (x : PM (Option α)) (e : PM α) :
    tok (PM.orGiveUp x e) = tok x >>= fun o => GcnfParserExt.orGiveUp o (tok e) := by
  unfold PM.orGiveUp
  rw [tok_bind]
  congr 1; funext o
  cases o with
  | none => rfl
  | some a => exact tok_pure a

theorem hdr_step (l : Cnf.LitTy) (f : Nat) (s : Cnf.GParserS) (lr : LR) :
    Gen.GcnfParser.parseHeader.loop1 l (f + 1) () s lr =
      (tok («matches» Cnf.comment) >>= fun c =>
        if c = true then Gen.GcnfParser.parseHeader.loop1 l f ()
        else tok («matches» Cnf.newline) >>= fun c2 =>
          if c2 = true then Gen.GcnfParser.parseHeader.loop1 l f () else pure (Ctl.brk ())) s lr := by
  rw [Gen.GcnfParser.parseHeader.loop1]
  simp only [ppm_bind_apply, tok_apply, «matches», PM.bind_apply, pure_apply]
  rcases Cnf.comment lr with ⟨_ | o, lr1⟩
  · rfl
  · rcases o with _ | u
    · simp only [Option.isSome_none, Bool.false_eq_true, if_false, ppm_bind_apply, tok_apply, PM.bind_apply, pure_apply]
      rcases Cnf.newline lr1 with ⟨_ | o2, lr2⟩
      · rfl
      · rcases o2 with _ | u2
        · rfl
        · rfl
    · rfl

theorem hdr_loop (l : Cnf.LitTy) (fuel : Nat) : ∀ (s : Cnf.GParserS) (lr : LR), lr.v.rest.length < fuel →
    Gen.GcnfParser.parseHeader.loop1 l fuel () s lr =
      (tok (Cnf.headerSkipLoop fuel) >>= fun _ => (pure (Ctl.brk ()) : GPPM (Ctl Unit (Option Cnf.Header)))) s lr := by
  induction fuel with
  | zero => intro s lr h; omega
  | succ fuel ih =>
    intro s lr hf
    rw [hdr_step, Cnf.headerSkipLoop]
    simp only [ppm_bind_apply, tok_apply, PM.bind_apply]
    have hp := (Wp.of_run (prog_m_comment' lr)).1
    cases hm : «matches» Cnf.comment lr with
    | mk r lr1 =>
      cases r with
      | error e => rfl
      | ok c =>
        cases c with
        | true =>
          have := (hp true lr1 hm).1 rfl
          have h2 := ih s lr1 (by omega)
          simp only [if_true]
          rw [h2]
          simp only [ppm_bind_apply, tok_apply]
        | false =>
          have e1 := (hp false lr1 hm).2 rfl
          simp only [Bool.false_eq_true, if_false, ppm_bind_apply, tok_apply, PM.bind_apply]
          have hp2 := (Wp.of_run (prog_m_newline lr1)).1
          cases hm2 : «matches» Cnf.newline lr1 with
          | mk r2 lr2 =>
            cases r2 with
            | error e => rfl
            | ok c2 =>
              cases c2 with
              | true =>
                have := (hp2 true lr2 hm2).1 rfl
                rw [e1] at this
                have h2 := ih s lr2 (by omega)
                simp only [if_true]
                rw [h2]
                simp only [ppm_bind_apply, tok_apply]
              | false => rfl

theorem header_tail (l : Cnf.LitTy) :
    (tok (Cnf.word [112]) >>= fun t5 =>
        andThen t5 fun _ => do
          let t6 ← tok (Cnf.word [103, 99, 110, 102])
          GcnfParserExt.orGiveUp t6 (tok Cnf.unexpected)
          let t8 ← tok (Cnf.varCount l)
          let t9 ← GcnfParserExt.orGiveUp t8 (tok Cnf.unexpected)
          let t10 ← tok (Cnf.uintCount Cnf.usizeTy)
          let t11 ← GcnfParserExt.orGiveUp t10 (tok Cnf.unexpected)
          let t12 ← tok (Cnf.uintCount Cnf.usizeTy)
          let t13 ← GcnfParserExt.orGiveUp t12 (tok Cnf.unexpected)
          let t14 ← tok Cnf.interactiveEndOfLine
          GcnfParserExt.orGiveUp t14 (tok Cnf.unexpected)
          pure ({ varCount := t9, clauseCount := t11, extra := t13 } : Cnf.Header)) =
      tok (do
        match ← Cnf.word [112] with
        | none => pure none
        | some () =>
          PM.orGiveUp (Cnf.word (Cnf.keyword .gcnf)) Cnf.unexpected
          let varCount ← PM.orGiveUp (Cnf.varCount l) Cnf.unexpected
          let clauseCount ← PM.orGiveUp (Cnf.uintCount Cnf.usizeTy) Cnf.unexpected
          let extra ← PM.orGiveUp (Cnf.uintCount Cnf.usizeTy) Cnf.unexpected
          PM.orGiveUp Cnf.interactiveEndOfLine Cnf.unexpected
          pure (some ({ varCount, clauseCount, extra } : Cnf.Header))) := by
  rw [tok_bind]
  congr 1; funext o
  cases o with
  | none => exact (tok_pure _).symm
  | some u =>
    simp only [GcnfParserExt.andThen, tok_bind, tok_orGiveUp, tok_pure, bind_assoc, pure_bind, Cnf.keyword]

theorem parseHeader_eq (l : Cnf.LitTy) : Gen.GcnfParser.parseHeader l = tok (Cnf.parseHeader .gcnf l) := by
  funext s lr
  unfold Gen.GcnfParser.parseHeader Cnf.parseHeader
  simp only [ppm_bind_apply, tok_apply, PM.bind_apply, getLR_apply', TieCnfTokenAux.get_apply]
  rcases Cnf.skipWhitespace lr with ⟨_ | u, lr1⟩
  · rfl
  · simp only []
    rw [hdr_loop l _ s lr1 (by omega)]
    simp only [ppm_bind_apply, tok_apply, PM.bind_apply]
    rcases Cnf.headerSkipLoop (lr1.v.rest.length + 1) lr1 with ⟨_ | u2, lr2⟩
    · rfl
    · simp only [ppm_pure_apply]
      have h := congrFun (congrFun (header_tail l) s) lr2
      rw [tok_apply, PM.bind_apply] at h
      exact h

/-- The generated parser record that corresponds to a model parser record: the model has no `lit_buf`
(the literals are returned) and no `lit_limit_is_hard`, `group_limit_is_hard` (they only select a message). -/
def ofModelG (p : Cnf.Parser) (hard ghard : Bool) (buf : List Int) : Cnf.GParserS :=
  { clauseCount := p.clauseCount, clauseLimit := p.clauseLimit, clauseLimitActive := p.clauseLimitActive,
    litLimit := p.litLimit, litLimitIsHard := hard, groupLimit := p.groupLimit, groupLimitIsHard := ghard,
    litBuf := buf, header := p.header }

/-- `group_limit_is_hard` after `Parser::new`: the limit is `usize::MAX` unless a header group count was used. -/
def ghardAfterNew (ignoreHeader : Bool) (p : Cnf.Parser) : Bool :=
  match p.header with
  | some h => ignoreHeader || h.extra == 0
  | none => true

theorem new_eq (l : Cnf.LitTy) (hl : l.bits ≤ 64) (cfg : Cnf.Config) (s0 : Cnf.GParserS) :
    (Gen.GcnfParser.new l cfg).run s0 =
      (Cnf.Parser.new .gcnf l cfg.ignoreHeader >>= fun p =>
        pure (ofModelG p (hardAfterNew cfg.ignoreHeader p) (ghardAfterNew cfg.ignoreHeader p) [],
              ofModelG p (hardAfterNew cfg.ignoreHeader p) (ghardAfterNew cfg.ignoreHeader p) [])) := by
  funext lr
  show Gen.GcnfParser.new l cfg s0 lr = _
  unfold Gen.GcnfParser.new Cnf.Parser.new
  rw [parseHeader_eq]
  simp only [ppm_bind_apply, tok_apply, PM.bind_apply, setP_apply]
  have hret := CnfP.parseHeader_ret .gcnf l lr
  rcases hrun : Cnf.parseHeader .gcnf l lr with ⟨_ | o, lr1⟩
  · rfl
  · rcases o with _ | h
    · rfl
    · have hwf := hret (some h) lr1 hrun h rfl
      obtain ⟨h0, h1, h2, h3, h4⟩ := hwf
      have hm := Flussab.CnfP.maxDimacs_le l hl
      have hu : CnfParserExt.usizeAsIsize h.varCount = h.varCount := usizeAsIsize_small _ (by omega)
      simp only [hu]
      rcases cfg with ⟨ign⟩
      cases ign with
      | true => rfl
      | false =>
        have hvb : (h.varCount == 0) = decide (h.varCount = 0) := by
          by_cases hv : h.varCount = 0 <;> simp [hv]
        have heb : (h.extra == 0) = decide (h.extra = 0) := by
          by_cases hv : h.extra = 0 <;> simp [hv]
        have hg : (Cnf.Format.gcnf == Cnf.Format.gcnf) = true := rfl
        by_cases hv : h.varCount = 0 <;> by_cases hc : h.clauseCount = 0 <;> by_cases he : h.extra = 0 <;>
          simp [hv, hc, he, hvb, heb, hg, ppm_bind_apply, modifyP_apply, getP_apply, ofModelG, hardAfterNew,
            ghardAfterNew, pure_apply]

/-! ### `next_clause` -/

abbrev NC := Ctl Unit (Option (Int × List Int))

/-- The value `next_clause` hands out for a clause of the model: `(group, literals)`. -/
def outOf (c : Cnf.Clause) : Int × List Int := (c.tag, c.lits)

/-- What the generated loop returns for a result of the model's loop. -/
def ncOut (hard ghard : Bool) (buf : List Int) (r : Except PErr ((Option Cnf.Clause × Cnf.Parser)) × LR) :
    Except PErr (NC × Cnf.GParserS) × LR :=
  match r with
  | (.ok (c, p'), lr') =>
    (.ok (Ctl.ret (c.map outOf), ofModelG p' hard ghard (match c with | some c => c.lits | none => buf)), lr')
  | (.error e, lr') => (.error e, lr')

/-- The part of an iteration after the clause alternative fell through (generated code). -/
def restG (l : Cnf.LitTy) (f : Nat) : GPPM NC := do
  let t6 ← tok Cnf.comment
  if t6.isSome = true then Gen.GcnfParser.nextClause.loop1 l f ()
    else do
      let t7 ← tok Cnf.newline
      if t7.isSome = true then Gen.GcnfParser.nextClause.loop1 l f ()
        else do
          let s1 ← getP
          let s2 ← getP
          let s3 ← getP
          if (!s1.clauseLimitActive || decide ((s2.clauseCount : Int) ≥ s3.clauseLimit)) = true then do
              let t8 ← tok Cnf.eof
              let t9 ← pure t8.isSome
              if t9 = true then pure (Ctl.ret none) else tok Cnf.unexpected
            else do
              let t9 ← pure false
              if t9 = true then pure (Ctl.ret none) else tok Cnf.unexpected

theorem rest_eq (p : Cnf.Parser) (hard ghard : Bool) (buf : List Int) (f : Nat)
    (ih : ∀ lr : LR, lr.v.rest.length < f →
      Gen.GcnfParser.nextClause.loop1 p.lit f () (ofModelG p hard ghard buf) lr = ncOut hard ghard buf (Cnf.nextClauseLoop p f lr))
    (lr : LR) (hf : lr.v.rest.length < f + 1) :
    restG p.lit f (ofModelG p hard ghard buf) lr = ncOut hard ghard buf (restM p f lr) := by
  unfold restG restM «matches»
  simp only [ppm_bind_apply, tok_apply, PM.bind_apply, pure_apply]
  have hp := (Wp.of_run (prog_comment lr)).1
  rcases hm : Cnf.comment lr with ⟨_ | o, lr1⟩
  · rfl
  · have hp1 := hp o lr1 hm
    cases o with
    | some u =>
      have := hp1.1 rfl
      simp only [Option.isSome_some, if_true]
      exact ih lr1 (by omega)
    | none =>
      have e1 := hp1.2 rfl
      simp only [Option.isSome_none, Bool.false_eq_true, if_false, ppm_bind_apply, tok_apply, PM.bind_apply, pure_apply]
      have hp2 := (Wp.of_run (prog_newline lr1)).1
      rcases hm2 : Cnf.newline lr1 with ⟨_ | o2, lr2⟩
      · rfl
      · have hp3 := hp2 o2 lr2 hm2
        cases o2 with
        | some u =>
          have := hp3.1 rfl
          rw [e1] at this
          simp only [Option.isSome_some, if_true]
          exact ih lr2 (by omega)
        | none =>
          simp only [Option.isSome_none, Bool.false_eq_true, if_false, ppm_bind_apply, getP_apply, ofModelG]
          by_cases hme : (!p.clauseLimitActive || decide ((p.clauseCount : Int) ≥ p.clauseLimit)) = true
          · simp only [hme, if_true, ppm_bind_apply, tok_apply, PM.bind_apply, pure_apply]
            rcases Cnf.eof lr2 with ⟨_ | o3, lr3⟩
            · rfl
            · cases o3 with
              | some u => rfl
              | none =>
                simp only [Option.isSome_none, Bool.false_eq_true, if_false, ppm_pure_apply, tok_apply]
                obtain ⟨e, lr4, hu⟩ := unexpected_err lr3
                rw [hu, hu]; rfl
          · simp only [hme, Bool.false_eq_true, if_false, ppm_bind_apply, ppm_pure_apply, tok_apply]
            obtain ⟨e, lr4, hu⟩ := unexpected_err lr2
            rw [hu, hu]; rfl

/-- The `and_also` closure of `next_clause` (text of the generated code). -/
def closG (l : Cnf.LitTy) : GPPM Unit := do
  let t2 ← GcnfParserExt.tok (Cnf.nonTerminatingLinebreaks)
  let _ := t2
  let t3 ← GcnfParserExt.clauseLits l ((← GcnfParserExt.getP).litLimit) ((← GcnfParserExt.getP).litLimitIsHard)
  let t4 ← GcnfParserExt.orGiveUp t3 do
    GcnfParserExt.tok Cnf.unexpected
  let t5 ← GcnfParserExt.tok (Cnf.interactiveEndOfLine)
  let t6 ← GcnfParserExt.orGiveUp t5 do
    GcnfParserExt.tok Cnf.unexpected
  pure t6

/-- The same part of the model's `clauseAlt`. -/
def closM (p : Cnf.Parser) : PM (List Int) := do
  let _ ← Cnf.nonTerminatingLinebreaks
  let lits ← PM.orGiveUp (Cnf.clauseLits p.lit p.litLimit) Cnf.unexpected
  PM.orGiveUp Cnf.interactiveEndOfLine Cnf.unexpected
  pure lits

theorem closG_run (p : Cnf.Parser) (hard ghard : Bool) (buf : List Int) (lr : LR) :
    closG p.lit (ofModelG p hard ghard buf) lr =
      match closM p lr with
      | (.ok lits, lr') => (.ok ((), ofModelG p hard ghard lits), lr')
      | (.error e, lr') => (.error e, lr') := by
  unfold closG closM GcnfParserExt.clauseLits PM.orGiveUp
  rw [ppm_bind_apply, tok_apply, PM.bind_apply]
  rcases Cnf.nonTerminatingLinebreaks lr with ⟨_ | b, lr2⟩
  · rfl
  · have hl : (ofModelG p hard ghard buf).litLimit = p.litLimit := rfl
    dsimp only
    simp only [getP_apply, hl, ppm_bind_apply, tok_apply, PM.bind_apply]
    rcases Cnf.clauseLits p.lit p.litLimit lr2 with ⟨_ | o, lr3⟩
    · rfl
    · cases o with
      | none =>
        obtain ⟨e, lr4, hu⟩ := unexpected_err lr3
        simp only [ppm_pure_apply, GcnfParserExt.orGiveUp, tok_apply, hu]
      | some lits =>
        simp only [ppm_bind_apply, modifyP_apply, ppm_pure_apply, GcnfParserExt.orGiveUp, tok_apply,
          PM.bind_apply, pure_apply]
        rcases Cnf.interactiveEndOfLine lr3 with ⟨_ | o2, lr4⟩
        · rfl
        · cases o2 with
          | some u => rfl
          | none =>
            obtain ⟨e, lr5, hu⟩ := unexpected_err lr4
            simp only [tok_apply, hu]

/-- Continuation after a `GPPM Unit` step that was run. -/
def contK {β : Type} (r : Except PErr (Unit × Cnf.GParserS) × LR) (k : GPPM β) : Except PErr (β × Cnf.GParserS) × LR :=
  match r with
  | (.ok (_, s'), lr') => k s' lr'
  | (.error e, lr') => (.error e, lr')

theorem andAlso_some (w : Int) (c : Int → GPPM Unit) :
    GcnfParserExt.andAlso (some w) c = (c w >>= fun _ => pure (some w)) := rfl

/-- The model's clause alternative for GCNF, with the part after the group as `closM`. -/
theorem clauseAlt_gcnf (p : Cnf.Parser) (hfmt : p.fmt = .gcnf) :
    Cnf.clauseAlt p = (Cnf.clauseGroup p.groupLimit >>= fun o =>
      match o with
      | none => pure none
      | some w => closM p >>= fun lits => pure (some ({ tag := w, lits } : Cnf.Clause))) := by
  unfold Cnf.clauseAlt closM
  simp only [hfmt]
  congr 1; funext o
  cases o with
  | none => rfl
  | some w => simp only [bind_assoc, pure_bind]

theorem nc_loop (p : Cnf.Parser) (hfmt : p.fmt = .gcnf) (hard ghard : Bool) (buf : List Int) (fuel : Nat) :
    ∀ lr : LR, lr.v.rest.length < fuel →
      Gen.GcnfParser.nextClause.loop1 p.lit fuel () (ofModelG p hard ghard buf) lr =
        ncOut hard ghard buf (Cnf.nextClauseLoop p fuel lr) := by
  induction fuel with
  | zero => intro lr h; omega
  | succ f ih =>
    intro lr hf
    rw [Gen.GcnfParser.nextClause.loop1, Cnf.nextClauseLoop, clauseAlt_gcnf p hfmt]
    simp only [ppm_bind_apply, getP_apply, PM.bind_apply]
    by_cases hc : (((p.clauseCount : Int) != p.clauseLimit) || !p.clauseLimitActive) = true
    · have hc' : (((ofModelG p hard ghard buf).clauseCount : Int) != (ofModelG p hard ghard buf).clauseLimit ||
          !(ofModelG p hard ghard buf).clauseLimitActive) = true := hc
      simp only [hc, hc', if_true, ppm_bind_apply, getP_apply]
      have hgl : (ofModelG p hard ghard buf).groupLimit = p.groupLimit := rfl
      simp only [GcnfParserExt.clauseGroup, hgl, tok_apply, PM.bind_apply]
      have hla := (Wp.of_run (Cnf.clauseGroup_la (lr := lr) p.groupLimit)).1
      rcases hm : Cnf.clauseGroup p.groupLimit lr with ⟨_ | o, lr1⟩
      · rfl
      · have h1 := hla o lr1 hm
        cases o with
        | none =>
          have e1 := (h1.2 rfl).1.rest
          have := rest_eq p hard ghard buf f ih lr1 (by rw [e1]; exact hf)
          simp only [ppm_pure_apply, GcnfParserExt.andAlso, Option.isSome_none, Bool.false_eq_true, if_false, pure_apply]
          exact this
        | some w =>
          have hrun := closG_run p hard ghard buf lr1
          unfold closG at hrun
          dsimp only at hrun ⊢
          rw [andAlso_some, ppm_bind_apply]
          rw [hrun, PM.bind_apply]
          rcases closM p lr1 with ⟨_ | lits, lr2⟩
          · rfl
          · rfl
    · have hc' : ¬ (((ofModelG p hard ghard buf).clauseCount : Int) != (ofModelG p hard ghard buf).clauseLimit ||
          !(ofModelG p hard ghard buf).clauseLimitActive) = true := hc
      simp only [hc, hc', if_false, pure_apply]
      exact rest_eq p hard ghard buf f ih lr hf


/-- `Gen.GcnfParser.nextClause` with the fuel expression abstracted (so that no proof step can make the kernel
unfold the fuelled loops at `rest.length + 2`). -/
def nextClauseG (l : Cnf.LitTy) (fuelOf : LR → Nat) : GPPM (Option (Int × List Int)) := do
  GcnfParserExt.modifyP fun r => { r with litBuf := [] }
  GcnfParserExt.tok (Cnf.skipWhitespace)
  let r10 ← Gen.GcnfParser.nextClause.loop1 l (fuelOf (← GcnfParserExt.getLR)) ()
  match r10 with
  | Ctl.ret v => pure v
  | Ctl.fuel => (GcnfParserExt.tok (PM.rpanic "generated"))
  | Ctl.brk _ => (GcnfParserExt.tok (PM.rpanic "generated"))

theorem nextClauseG_eq (p : Cnf.Parser) (hfmt : p.fmt = .gcnf) (hard ghard : Bool) (buf : List Int)
    (fuelOf : LR → Nat) (hfuel : ∀ lr : LR, lr.v.rest.length < fuelOf lr) :
    (nextClauseG p.lit fuelOf).run (ofModelG p hard ghard buf) =
      (nextClauseM p fuelOf >>= fun r => pure (r.1.map outOf, ofModelG r.2 hard ghard (litsOf r.1))) := by
  funext lr
  show nextClauseG p.lit fuelOf (ofModelG p hard ghard buf) lr = _
  unfold nextClauseG nextClauseM
  simp only [ppm_bind_apply, modifyP_apply, tok_apply, PM.bind_apply, getLR_apply', TieCnfTokenAux.get_apply]
  rcases Cnf.skipWhitespace lr with ⟨_ | u, lr1⟩
  · rfl
  · simp only []
    have h := nc_loop p hfmt hard ghard [] (fuelOf lr1) lr1 (hfuel lr1)
    have e : ({ ofModelG p hard ghard buf with litBuf := [] } : Cnf.GParserS) = ofModelG p hard ghard [] := rfl
    rw [e, h]
    rcases Cnf.nextClauseLoop p (fuelOf lr1) lr1 with ⟨_ | ⟨c, p'⟩, lr2⟩
    · rfl
    · cases c <;> rfl

theorem nextClause_eq (p : Cnf.Parser) (hfmt : p.fmt = .gcnf) (hard ghard : Bool) (buf : List Int) :
    (Gen.GcnfParser.nextClause p.lit).run (ofModelG p hard ghard buf) =
      (Cnf.Parser.nextClause p >>= fun r => pure (r.1.map outOf, ofModelG r.2 hard ghard (litsOf r.1))) :=
  nextClauseG_eq p hfmt hard ghard buf (fun lr => lr.v.rest.length + 2) (fun lr => by omega)

end TieGcnfParserAux
end Flussab
