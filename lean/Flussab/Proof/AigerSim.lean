/-
Prefix simulation (`Proof/Sim.lean`) for the AIGER token layer (`Model/AigerToken.lean`): every
function commutes with extending the stream as long as its run does not see the end of the data.

Three functions compute something from the length of the unconsumed stream and so run a
*different* program over the longer stream:
* `unexpected` — its last request depends on how many bytes are in front of the cursor, but both
  runs end in `give_up` at the cursor;
* `remaining_line_content` — if the line has a newline, both runs find it at the same offset; if
  not, the left run asks for the byte behind its data and sees the end;
* `remaining_file_content` — reads to the end of the data: the left run always sees the end.
For the last two `R2.bind_end` is the rule: once the left run has seen the end, nothing has to be
shown about the right one.
-/
import Flussab.Model.Aiger
import Flussab.Proof.Sim

namespace Flussab
namespace Aiger
open PM

variable {q : VBytes} {lr : LR}

/-! ### generic rules -/

/-- A left run that panics is excluded by the premise of `R2`. -/
theorem R2.panic_left {α : Type} (s : String) (m' : PM α) : R2 q (rpanic s : PM α) m' lr := by
  intro _ res lr1 hrun hnp
  obtain ⟨rfl, _⟩ := Prod.mk.inj
    (show ((.error (.panic s) : Except PErr α), lr) = (res, lr1) from hrun)
  exact absurd hnp (by simp [NoPanic])

theorem ext_rest_length (lr : LR) : (ext q lr).v.rest.length = lr.v.rest.length + q.length := by
  simp [ext, extv]

/-- From a state in which the end of the data has been seen, a program that satisfies `C` is
related to every program. -/
theorem R2.of_end {α : Type} {m m' : PM α} (h : C q m lr) (he : lr.v.sawEnd = true) :
    R2 q m m' lr := by
  intro hJ res lr1 hrun hnp
  obtain ⟨j1, h1⟩ := h hJ res lr1 hrun hnp
  refine ⟨j1, fun hs => ?_⟩
  have := (h1 hs).1
  rw [he] at this
  exact absurd this (by simp)

/-- A first step that makes the left run see the end of the data. -/
theorem R2.bind_end {α β : Type} {m : PM α} {f : α → PM β} (m2 : PM β)
    (hm : J lr → ∀ res lr1, m.run lr = (res, lr1) → NoPanic res → J lr1 ∧ lr1.v.sawEnd = true)
    (hf : ∀ a lr1, C q (f a) lr1) : R2 q (m >>= f) m2 lr := by
  intro hJ res lr2 hrun hnp
  rw [PM.run_bind] at hrun
  rcases hm1 : m.run lr with ⟨e | a, lr1⟩
  · rw [hm1] at hrun
    simp only at hrun
    obtain ⟨rfl, rfl⟩ := Prod.mk.inj hrun
    obtain ⟨j1, s1⟩ := hm hJ _ _ hm1 hnp.cast
    exact ⟨j1, fun hs => by rw [s1] at hs; exact absurd hs (by simp)⟩
  · rw [hm1] at hrun
    simp only at hrun
    obtain ⟨j1, s1⟩ := hm hJ _ _ hm1 trivial
    obtain ⟨j2, h2⟩ := hf a lr1 j1 _ _ hrun hnp
    refine ⟨j2, fun hs => ?_⟩
    have := (h2 hs).1
    rw [s1] at this
    exact absurd this (by simp)

/-- `request_byte_at_offset(k)` at or behind the end of the data. -/
theorem reqAt_end (k : Nat) (hk : lr.v.rest.length ≤ k) :
    J lr → ∀ res lr1, (reqAt k).run lr = (res, lr1) → NoPanic res → J lr1 ∧ lr1.v.sawEnd = true := by
  intro hJ res lr1 hrun _
  obtain ⟨_, rfl⟩ := Prod.mk.inj
    (show ((.ok lr.v.rest[k]? : Except PErr (Option UInt8)), { lr with v := lr.v.demand k }) = (res, lr1)
      from hrun)
  refine ⟨demand_JV lr.v k hJ, ?_⟩
  show (lr.v.demand k).sawEnd = true
  rw [(C16.demand_effect lr.v k).2.2.2.2]
  simp [hk]

theorem C.advanceWithBuf (n : Nat) : C q (PM.advanceWithBuf n) lr := by
  unfold PM.advanceWithBuf
  refine R2.bind (C.bufPrefix n) ?_
  intro bs lr1
  exact R2.bind (C.advance n) (fun _ _ => R2.pure _)

/-! ### `unexpected` (as in `Proof/CnfSim.lean`; the AIGER token layer has its own copy of the
function) -/

theorem demand_ioErr_lt (v : View) (k : Nat) (h : k < v.rest.length) :
    (v.demand k).ioErr = v.ioErr := by
  simp [View.demand, h]

theorem demand_ioErr_nofault (v : View) (k : Nat) (h : v.fault = false) :
    (v.demand k).ioErr = v.ioErr := by
  unfold View.demand
  dsimp only
  split
  · rfl
  · simp [h]

theorem giveUp_run {α : Type} (s : LR) :
    (giveUp : PM α).run s = (giveUpAt s.v.pos : PM α).run s := rfl

theorem reqAt_giveUp_r2 {α : Type} (k k' : Nat) :
    R2 q (reqAt k >>= fun _ => (giveUp : PM α)) (reqAt k' >>= fun _ => (giveUp : PM α)) lr := by
  intro hJ res lr1 hrun _
  have hl : (reqAt k >>= fun _ => (giveUp : PM α)).run lr =
      (giveUpAt lr.v.pos : PM α).run { lr with v := lr.v.demand k } := by
    rw [PM.run_bind]
    show (giveUp : PM α).run { lr with v := lr.v.demand k } = _
    rw [giveUp_run]
    have : (lr.v.demand k).pos = lr.v.pos := (C16.demand_effect lr.v k).2.1
    simp only [this]
  have hr : (reqAt k' >>= fun _ => (giveUp : PM α)).run (ext q lr) =
      (giveUpAt lr.v.pos : PM α).run { ext q lr with v := (extv q lr.v).demand k' } := by
    rw [PM.run_bind]
    show (giveUp : PM α).run { ext q lr with v := (extv q lr.v).demand k' } = _
    rw [giveUp_run]
    have : ((extv q lr.v).demand k').pos = lr.v.pos := (C16.demand_effect (extv q lr.v) k').2.1
    simp only [this]
  rw [hl, giveUpAt_run] at hrun
  obtain ⟨rfl, rfl⟩ := Prod.mk.inj hrun
  refine ⟨demand_JV lr.v k hJ, fun hs => ?_⟩
  obtain ⟨h1, h2⟩ := (demand_sawEnd lr.v k).mp hs
  refine ⟨h1, ?_⟩
  have e1 : (lr.v.demand k).ioErr = lr.v.ioErr := demand_ioErr_lt lr.v k h2
  have e2 : ((extv q lr.v).demand k').ioErr = lr.v.ioErr := demand_ioErr_nofault _ k' rfl
  show ∃ s, (reqAt k' >>= fun _ => (giveUp : PM α)).run (ext q lr) = (_, s)
  rw [hr, giveUpAt_run]
  refine ⟨_, Prod.ext ?_ rfl⟩
  simp only [e1, e2]
  rfl

theorem unexpected_c {α : Type} : C q (unexpected : PM α) lr := by
  unfold unexpected
  refine R2.bind (C.scan (sc_newline q 0)) ?_
  intro r lr1
  split
  · exact C.giveUp
  · refine C.get_bind (fun hs => ?_) ?_
    · have : (ext q lr1).v.isAtEnd = lr1.v.isAtEnd := by
        show ((ext q lr1).v.sawEnd && (ext q lr1).v.rest.isEmpty) =
          (lr1.v.sawEnd && lr1.v.rest.isEmpty)
        show (lr1.v.sawEnd && (ext q lr1).v.rest.isEmpty) = _
        rw [hs]; rfl
      simp only [this]
    · split
      · exact C.giveUp
      · refine R2.get_bind ?_
        exact reqAt_giveUp_r2 _ _

theorem orGiveUp_c {α : Type} {p : PM (Option α)} (hp : C q p lr) :
    C q (orGiveUp p unexpected) lr :=
  R2.orGiveUp hp (fun _ => unexpected_c)

/-! ### tokens -/

theorem fixed_c (pat : VBytes) : C q (fixed pat) lr := by
  unfold fixed
  refine R2.bind (C.scan (sc_fixed q 0 pat)) ?_
  intro off lr1
  split
  · exact R2.bind (C.advance off) (fun _ _ => R2.pure _)
  · exact R2.pure _

theorem fixedNotEol_c (pat : VBytes) : C q (fixedNotEol pat) lr := by
  unfold fixedNotEol
  refine R2.bind (C.scan (sc_fixed q 0 pat)) ?_
  intro off lr1
  split
  · refine R2.bind (C.reqAt off) ?_
    intro c lr2
    split
    · exact R2.pure _
    · exact R2.bind (C.advance off) (fun _ _ => R2.pure _)
  · exact R2.pure _

theorem space_c : C q space lr := by
  unfold space
  refine R2.bind C.reqByte ?_
  intro c lr1
  split
  · exact R2.bind (C.advance 1) (fun _ _ => R2.pure _)
  · exact R2.pure _

theorem requiredSpace_c : C q requiredSpace lr := orGiveUp_c space_c

theorem newline_c : C q newline lr := by
  unfold newline
  refine R2.bind C.reqByte ?_
  intro c lr1
  split
  · refine R2.bind (C.advance 1) ?_
    intro _ lr2
    exact R2.bind (C.lineAtOffset 0) (fun _ _ => R2.pure _)
  · exact R2.pure _

theorem requiredNewline_c : C q requiredNewline lr := orGiveUp_c newline_c

theorem requiredNewlineOrSpace_c : C q requiredNewlineOrSpace lr := by
  unfold requiredNewlineOrSpace
  refine R2.bind C.reqByte ?_
  intro c lr1
  split
  · refine R2.bind (C.advance 1) ?_
    intro _ lr2
    split
    · exact R2.bind (C.lineAtOffset 0) (fun _ _ => R2.pure _)
    · exact R2.pure _
  · exact unexpected_c

theorem uint_c : C q uint lr := by
  unfold uint
  refine R2.bind (C.scan (sc_asciiDigits q usizeTy 0)) ?_
  intro r lr1
  obtain ⟨value, off⟩ := r
  dsimp only
  split
  · refine R2.bind (C.bufPrefix off) ?_
    intro bs lr2
    split
    · exact R2.panic_left _ _
    · split
      · exact R2.bind (C.advance off) (fun _ _ => R2.pure _)
      · exact R2.bind (C.utf8Unwrap _) (fun _ _ => R2.pure _)
  · exact R2.pure _

theorem binaryUintLen_c (fuel n : Nat) : C q (binaryUintLen fuel n) lr := by
  induction fuel generalizing n lr with
  | zero => unfold binaryUintLen; exact R2.panic_left _ _
  | succ fuel ih =>
    unfold binaryUintLen
    refine R2.bind (C.reqAt n) ?_
    intro c lr1
    split
    · dsimp only
      split
      · exact R2.pure _
      · split
        · exact C.giveUp
        · exact ih _
    · exact unexpected_c

theorem binaryUint_c : C q binaryUint lr := by
  unfold binaryUint
  refine R2.bind (binaryUintLen_c 11 0) ?_
  intro len lr1
  refine R2.bind (C.bufPrefix len) ?_
  intro bs lr2
  split
  · exact C.giveUp
  · exact R2.bind (C.advance len) (fun _ _ => R2.pure _)

theorem errorAtMark_c {α : Type} : C q (errorAtMark : PM α) lr := by
  unfold errorAtMark
  exact R2.bind C.mark (fun p _ => C.giveUpAt p)

theorem deltaCode_c (code : Nat) : C q (deltaCode code) lr := by
  unfold deltaCode
  refine R2.bind C.setMark ?_
  intro _ lr1
  refine R2.bind binaryUint_c ?_
  intro delta lr2
  split
  · exact errorAtMark_c
  · exact R2.pure _

theorem headerField_c (limit : Nat) : C q (headerField limit) lr := by
  unfold headerField
  refine R2.bind C.setMark ?_
  intro _ lr1
  refine R2.bind uint_c ?_
  intro r lr2
  split
  · exact errorAtMark_c
  · split
    · exact errorAtMark_c
    · exact R2.pure _
  · exact unexpected_c

theorem lit_c (limit : Nat) (assigning : Bool) : C q (lit limit assigning) lr := by
  unfold lit
  refine R2.bind C.setMark ?_
  intro _ lr1
  refine R2.bind uint_c ?_
  intro r lr2
  split
  · exact errorAtMark_c
  · split
    · exact errorAtMark_c
    · split
      · exact errorAtMark_c
      · exact R2.pure _
  · exact unexpected_c

theorem symbolIndex_c (limit : Nat) : C q (symbolIndex limit) lr := headerField_c limit

/-! ### `remaining_line_content` -/

/-- The function behind its `get`, as a function of the offset of the line end. -/
def rlcBody (offset : Nat) : PM VBytes := do
  if (← reqAt offset).isNone then
    advance offset
    unexpected
  else
    let bytes ← bufPrefix offset
    let upTo := utf8ValidUpTo bytes
    if upTo == bytes.length then
      lineAtOffset (offset + 1)
      let withNl ← advanceWithBuf (offset + 1)
      pure (withNl.take offset)
    else
      advance upTo
      unexpected

theorem remainingLineContent_eq :
    remainingLineContent = (get >>= fun s => rlcBody (Text.runLen (· != 10) s.v.rest)) := rfl

theorem rlcBody_c (offset : Nat) : C q (rlcBody offset) lr := by
  unfold rlcBody
  refine R2.bind (C.reqAt offset) ?_
  intro c lr1
  split
  · exact R2.bind (C.advance offset) (fun _ _ => unexpected_c)
  · refine R2.bind (C.bufPrefix offset) ?_
    intro bytes lr2
    dsimp only
    split
    · refine R2.bind (C.lineAtOffset _) ?_
      intro _ lr3
      exact R2.bind (C.advanceWithBuf _) (fun _ _ => R2.pure _)
    · exact R2.bind (C.advance _) (fun _ _ => unexpected_c)

theorem runLen_le (p : UInt8 → Bool) (l : VBytes) : Text.runLen p l ≤ l.length := by
  induction l with
  | nil => simp [Text.runLen]
  | cons c cs ih =>
    simp only [Text.runLen]
    split
    · simp only [List.length_cons]; omega
    · omega

theorem remainingLineContent_c : C q remainingLineContent lr := by
  rw [remainingLineContent_eq]
  refine R2.get_bind ?_
  by_cases h : Text.runLen (· != 10) lr.v.rest < lr.v.rest.length
  · have : Text.runLen (· != 10) (ext q lr).v.rest = Text.runLen (· != 10) lr.v.rest :=
      runLen_append _ _ _ h
    rw [this]
    exact rlcBody_c _
  · -- no newline in the data: the request behind the last byte sees the end
    have hle := runLen_le (· != 10) lr.v.rest
    unfold rlcBody
    refine R2.bind_end _ (reqAt_end _ (by omega)) ?_
    intro c lr1
    split
    · exact R2.bind (C.advance _) (fun _ _ => unexpected_c)
    · refine R2.bind (C.bufPrefix _) ?_
      intro bytes lr2
      dsimp only
      split
      · refine R2.bind (C.lineAtOffset _) ?_
        intro _ lr3
        exact R2.bind (C.advanceWithBuf _) (fun _ _ => R2.pure _)
      · exact R2.bind (C.advance _) (fun _ _ => unexpected_c)

/-! ### `remaining_file_content`, `eof` -/

theorem checkIoError_run (s : LR) : checkIoError.run s =
    (if s.v.ioErr = true then .error .io else .ok (), { s with v := s.v.checkIoError.2 }) := by
  unfold checkIoError
  rw [run_get_bind]
  simp only [View.checkIoError]
  by_cases h1 : s.v.ioErr = true
  · simp only [h1, ↓reduceIte]; rfl
  · simp only [h1]; rfl

theorem checkIoError_c : C q checkIoError lr := by
  intro hJ res lr1 hrun _
  rw [checkIoError_run] at hrun
  obtain ⟨rfl, rfl⟩ := Prod.mk.inj hrun
  refine ⟨hJ, fun hs => ⟨hs, ?_⟩⟩
  have hio : (ext q lr).v.ioErr = lr.v.ioErr := rfl
  by_cases h1 : lr.v.ioErr = true
  · simp only [h1, ↓reduceIte]
    refine ⟨{ ext q lr with v := (ext q lr).v.checkIoError.2 }, ?_⟩
    rw [checkIoError_run]
    simp only [hio, h1, ↓reduceIte]
  · simp only [h1]
    show checkIoError.run (ext q lr) = _
    rw [checkIoError_run]
    simp only [hio, h1]
    rfl

theorem fileContentSeek_c (bytes : VBytes) : C q (fileContentSeek bytes) lr := by
  unfold fileContentSeek
  dsimp only
  split
  · refine R2.get_bind ?_
    refine R2.ite (fun _ => R2.panic_left _ _) (fun _ => ?_)
    intro hJ res lr1 hrun hnp
    -- `set { lr with line := … }` then the rest: the `set` commutes with `ext`
    have key : C q (do
        advance (bytes.length - Text.runLen (· != 10) bytes.reverse)
        lineAtOffset 0
        pure (bytes.length - (bytes.length - Text.runLen (· != 10) bytes.reverse)) : PM Nat)
        { lr with line := lr.line + ((bytes.take (bytes.length -
          Text.runLen (· != 10) bytes.reverse - 1)).filter (· == 10)).length } := by
      refine R2.bind (C.advance _) ?_
      intro _ lr2
      exact R2.bind (C.lineAtOffset 0) (fun _ _ => R2.pure _)
    obtain ⟨j1, h1⟩ := key hJ res lr1 hrun hnp
    refine ⟨j1, fun hs => ?_⟩
    obtain ⟨s0, a⟩ := h1 hs
    refine ⟨s0, ?_⟩
    cases res with
    | ok x => exact a
    | error e => exact a
  · exact R2.pure _

/-- The function behind its `get`, as a function of the number of unconsumed bytes. -/
def rfcBody (len : Nat) : PM VBytes := do
  let _ ← reqAt len
  checkIoError
  let bytes ← bufPrefix len
  let upTo := utf8ValidUpTo bytes
  if upTo == len && (bytes.getLast? == some 10 || len == 0) then
    let all ← advanceWithBuf len
    pure (all.take (len - 1))
  else
    let validUpTo ← fileContentSeek (bytes.take upTo)
    advance validUpTo
    unexpected

theorem remainingFileContent_eq :
    remainingFileContent = (get >>= fun s => rfcBody s.v.rest.length) := rfl

theorem remainingFileContent_c : C q remainingFileContent lr := by
  rw [remainingFileContent_eq]
  refine R2.get_bind ?_
  unfold rfcBody
  refine R2.bind_end _ (reqAt_end _ (Nat.le_refl _)) ?_
  intro _ lr1
  refine R2.bind checkIoError_c ?_
  intro _ lr2
  refine R2.bind (C.bufPrefix _) ?_
  intro bytes lr3
  dsimp only
  split
  · exact R2.bind (C.advanceWithBuf _) (fun _ _ => R2.pure _)
  · refine R2.bind (fileContentSeek_c _) ?_
    intro v lr4
    exact R2.bind (C.advance _) (fun _ _ => unexpected_c)

theorem eof_c : C q eof lr := by
  unfold eof
  refine R2.bind C.reqByte ?_
  intro c lr1
  split
  · refine C.get_bind (fun _ => rfl) ?_
    split
    · exact R2.pure _
    · exact R2.pure _
  · exact R2.pure _

end Aiger
end Flussab
