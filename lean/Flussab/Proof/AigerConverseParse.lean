/-
The converse of the AIGER round trip, structure level: what `parse()` returns is in the domain of
the writers.  `Proof/AigerParse.lean` (C06) has the numeric part; here
* the symbol table and the comment: every returned symbol satisfies `SymOk` for the header of the
  file, the comment is valid UTF-8 (`parseTail_post`, `parseAscii_tail`);
* the binary and-gate block: gate `i` is the cast of two codes `c1 ≤ c0 ≤` the running counter,
  which is `code₀ + 2·(number of latches) + 2·i` (`parseBinary_conv`) — the writer's `assert!`.
-/
import Flussab.Proof.AigerConverseTokens
import Flussab.Proof.AigerParse
import Flussab.Proof.AigerRtDomain

namespace Flussab
namespace Aiger
open PM AigerRT

/-! ### the header of the written file is the header that was read -/

theorem header_eq_of_fields (h : Header) (m i la o g b c j f : Nat)
    (h1 : m = h.maxVarIndex) (h2 : i = h.inputCount) (h3 : la = h.latchCount)
    (h4 : o = h.outputCount) (h5 : g = h.andGateCount) (h6 : b = h.badCount)
    (h7 : c = h.constraintCount) (h8 : j = h.justiceCount) (h9 : f = h.fairnessCount) :
    ({ maxVarIndex := m, inputCount := i, latchCount := la, outputCount := o, andGateCount := g,
       badCount := b, constraintCount := c, justiceCount := j, fairnessCount := f } : Header) = h := by
  subst h1 h2 h3 h4 h5 h6 h7 h8 h9
  cases h
  rfl

theorem aigHeader_eq {p : Parser} {a : Aig} (ok : AigOk p a) : aigHeader a = p.header :=
  header_eq_of_fields _ _ _ _ _ _ _ _ _ _ ok.maxVarIndex ok.inputs ok.latches ok.outputs ok.gates
    ok.bad ok.constraints ok.justice ok.fairness

theorem orderedHeader_eq {p : Parser} {a : OrderedAig} (ok : OrderedOk p a) :
    orderedHeader a = p.header :=
  header_eq_of_fields _ _ _ _ _ _ _ _ _ _ ok.maxVarIndex ok.inputCount ok.latches ok.outputs ok.gates
    ok.bad ok.constraints ok.justice ok.fairness

/-! ### symbol table and comment -/

theorem remainingLineContent_post :
    Post remainingLineContent (fun n => n.all (· != 10) = true ∧ validUtf8 n = true) := by
  intro lr n lr' h
  obtain ⟨_, _, _, h1, h2⟩ := remainingLineContent_exact lr lr' n h
  exact ⟨h1, h2⟩

theorem remainingFileContent_post : Post remainingFileContent (fun c => validUtf8 c = true) :=
  fun lr c lr' h => remainingFileContent_valid lr lr' c h

theorem nextSymbol_name (p : Parser) :
    Post (nextSymbol p) (fun r => ∀ s, r = some s →
      s.name.all (· != 10) = true ∧ validUtf8 s.name = true) := by
  unfold nextSymbol
  refine Post.bind (Post.true _) fun r _ => ?_
  cases r with
  | none => exact Post.pure (by intro s h; cases h)
  | some t =>
    obtain ⟨kind, index⟩ := t
    simp only
    refine Post.bind (Post.true _) fun _ _ => ?_
    refine Post.bind remainingLineContent_post fun name hn => Post.pure ?_
    intro s h
    cases h
    exact hn

/-- Every symbol `next_symbol` returns is in the domain of `write_symbol` / the round trip. -/
theorem nextSymbol_symOk (p : Parser) :
    Post (nextSymbol p) (fun r => ∀ s, r = some s → SymOk p.header s) :=
  Post.mono (Post.and (nextSymbol_post p) (nextSymbol_name p)) fun _ h s hs =>
    ⟨h.1 s hs, (h.2 s hs).1, (h.2 s hs).2⟩

/-- `while let Some(x) = next()? { push }`: everything pushed satisfies what `next` guarantees. -/
theorem whileSome_all {σ α : Type} {next : σ → PM (Option α × σ)} {P : α → Prop}
    (h : ∀ s, Post (next s) (fun r => ∀ a, r.1 = some a → P a)) :
    ∀ (fuel : Nat) (s : σ) (acc : List α), (∀ a ∈ acc, P a) →
      Post (whileSome next fuel s acc) (fun r => ∀ a ∈ r.1, P a) := by
  intro fuel
  induction fuel with
  | zero => intro s acc _; unfold whileSome; exact Post.of_fails (fails_rpanic _)
  | succ fuel ih =>
    intro s acc hacc
    unfold whileSome
    refine Post.bind (h s) fun r hr => ?_
    obtain ⟨o, s'⟩ := r
    cases o with
    | none =>
      simp only
      refine Post.pure ?_
      intro a ha
      exact hacc a (by simpa using ha)
    | some a =>
      simp only at hr ⊢
      refine ih s' (a :: acc) ?_
      intro x hx
      rcases List.mem_cons.mp hx with rfl | hx
      · exact hr _ rfl
      · exact hacc x hx

theorem comment_post (p : Parser) :
    Post (comment p) (fun c => ∀ x, c = some x → validUtf8 x = true) := by
  unfold comment
  refine Post.bind (Post.true _) fun _ _ => ?_
  refine Post.bind (Post.true _) fun _ _ => ?_
  refine Post.bind (Post.true _) fun r _ => ?_
  split
  · refine Post.bind (Post.true _) fun _ _ => ?_
    refine Post.bind remainingFileContent_post fun c hc => Post.pure ?_
    intro x hx
    cases hx
    exact hc
  · refine Post.bind (Post.true _) fun _ _ => Post.pure ?_
    intro x hx
    cases hx

/-- What the tail of `parse()` returns. -/
def TailOk (h : Header) (symbols : List Symbol) (c : Option VBytes) : Prop :=
  (∀ s ∈ symbols, SymOk h s) ∧ ∀ x, c = some x → validUtf8 x = true

theorem parseTail_post (p : Parser) : Post (parseTail p) (fun r => TailOk p.header r.1 r.2) := by
  unfold parseTail
  refine Post.bind (Post.true _) fun lr0 _ => ?_
  refine Post.bind (whileSome_all (P := SymOk p.header) ?_ _ () [] (by simp)) fun r hr => ?_
  · intro _
    refine Post.bind (nextSymbol_symOk p) fun r hr => Post.pure ?_
    intro a ha
    exact hr a ha
  obtain ⟨symbols, u⟩ := r
  simp only at hr ⊢
  refine Post.bind (comment_post p) fun c hc => Post.pure ⟨hr, hc⟩

/-- `ascii::Parser::parse`: the symbol table and the comment of the result. -/
theorem parseAscii_tail (p : Parser) :
    Post (parseAscii p) (fun a => TailOk p.header a.symbols a.comment) := by
  unfold parseAscii
  simp only
  refine Post.bind (whileSome_spec (nextLit_spec true) _ p.inputs []) fun r hr => ?_
  obtain ⟨inputs, s1⟩ := r
  obtain ⟨xs, _, d1⟩ := hr
  simp only
  refine Post.bind (toLatches_post s1) fun s2 h2 => ?_
  have c2 : SameCfg p.inputs s2 := d1.cfg.trans h2.2
  refine Post.bind (whileSome_spec nextLatchAscii_spec _ s2 []) fun r hr => ?_
  obtain ⟨latches, s3⟩ := r
  obtain ⟨xs, _, d2⟩ := hr
  have c3 : SameCfg p.inputs s3 := c2.trans d2.cfg
  simp only
  refine Post.bind (parseMid_post s3) fun r hr => ?_
  obtain ⟨mid, s4⟩ := r
  obtain ⟨_, hc⟩ := hr
  simp only at hc ⊢
  have c4 : SameCfg p.inputs s4 := c3.trans hc
  refine Post.bind (toAndGates_post s4) fun s5 h5 => ?_
  have c5 : SameCfg p.inputs s5 := c4.trans h5.2
  refine Post.bind (whileSome_spec nextAndGateAscii_spec _ s5 []) fun r hr => ?_
  obtain ⟨gates, s6⟩ := r
  obtain ⟨xs, _, d3⟩ := hr
  have c6 : SameCfg p.inputs s6 := c5.trans d3.cfg
  simp only
  refine Post.bind (toSymbols_post s6) fun p' hp' => ?_
  have hh : p'.header = p.header := by rw [hp'.1, c6.1]; rfl
  refine Post.bind (parseTail_post p') fun r hr => ?_
  obtain ⟨symbols, c⟩ := r
  simp only at hr ⊢
  rw [hh] at hr
  exact Post.pure hr

/-! ### what leaves the parser configuration alone -/

theorem nextLit_p (a : Bool) (s : St) : Post (nextLit a s) (fun r => r.2.p = s.p) := by
  unfold nextLit
  split
  · exact Post.pure rfl
  · exact Post.bind (Post.true _) fun c _ => Post.pure rfl

theorem nextJusticeSize_p (s : St) : Post (nextJusticeSize s) (fun r => r.2.p = s.p) := by
  unfold nextJusticeSize
  split
  · exact Post.pure rfl
  · refine Post.bind (Post.true _) fun _ _ => ?_
    refine Post.bind (Post.true _) fun _ _ => ?_
    refine Post.bind (Post.true _) fun _ _ => ?_
    exact Post.bind (Post.true _) fun _ _ => Post.pure rfl

theorem whileSome_p {α : Type} {next : St → PM (Option α × St)}
    (h : ∀ s, Post (next s) (fun r => r.2.p = s.p)) :
    ∀ (fuel : Nat) (s : St) (acc : List α),
      Post (whileSome next fuel s acc) (fun r => r.2.p = s.p) := by
  intro fuel
  induction fuel with
  | zero => intro s acc; unfold whileSome; exact Post.of_fails (fails_rpanic _)
  | succ fuel ih =>
    intro s acc
    unfold whileSome
    refine Post.bind (h s) fun r hr => ?_
    obtain ⟨o, s'⟩ := r
    cases o with
    | none => simp only at hr ⊢; exact Post.pure hr
    | some a =>
      simp only at hr ⊢
      exact Post.mono (ih s' (a :: acc)) fun r h2 => h2.trans hr

theorem finish_p {α : Type} {next : St → PM (Option α × St)}
    (h : ∀ s, Post (next s) (fun r => r.2.p = s.p)) (s : St) :
    Post (finish next s) (fun s' => s'.p = s.p) := by
  unfold finish
  refine Post.bind (whileSome_p h _ s []) fun r hr => ?_
  obtain ⟨xs, s'⟩ := r
  exact Post.pure hr

/-- The loop at the start of a transition function does nothing when the section has been
drained (which is how `parse()` uses it). -/
theorem finish_zero_eq {α : Type} {P : Nat → LitTy → α → Prop} {w : α → Nat}
    {next : St → PM (Option α × St)} (hstep : StepSpec P w next) (s : St) (hl : s.left = 0) :
    Post (finish next s) (fun s' => s' = s) := by
  unfold finish
  rw [hl]
  unfold whileSome
  refine Post.bind (Post.bind (hstep s) fun r hr => ?_) fun r (hr : r.2 = s) => ?_
  · obtain ⟨o, s'⟩ := r
    cases o with
    | none =>
      simp only at hr ⊢
      exact Post.pure hr.2
    | some a =>
      simp only at hr
      omega
  · obtain ⟨xs, s'⟩ := r
    exact Post.pure hr

theorem justiceLitsLoop_p (sizes : List Nat) :
    ∀ (fuel : Nat) (s : St) (js : List (List Nat)) (jp : Nat),
      Post (justiceLitsLoop sizes fuel s js jp) (fun r => r.2.p = s.p) := by
  intro fuel
  induction fuel with
  | zero => intro s js jp; unfold justiceLitsLoop; exact Post.of_fails (fails_rpanic _)
  | succ fuel ih =>
    intro s js jp
    unfold justiceLitsLoop
    refine Post.bind (nextLit_p false s) fun r hr => ?_
    obtain ⟨o, s'⟩ := r
    cases o with
    | none => simp only at hr ⊢; exact Post.pure hr
    | some c =>
      simp only at hr ⊢
      split
      · exact Post.of_fails (fails_rpanic _)
      · exact Post.mono (ih s' _ _) fun r h2 => h2.trans hr

theorem toLatches_p (s : St) : Post (toLatches s) (fun r => r.p = s.p) := by
  unfold toLatches
  refine Post.bind (Q1 := fun s' => s'.p = s.p) ?_ fun s' hs' => Post.pure hs'
  exact Post.ite (fun _ => Post.pure rfl) (fun _ => finish_p (nextLit_p true) s)

theorem toOutputs_p (s : St) (hl : s.left = 0) : Post (toOutputs s) (fun r => r.p = s.p) := by
  unfold toOutputs
  refine Post.bind (Q1 := fun s' => s' = s) ?_ fun s' hs' => Post.pure (by rw [hs'])
  exact Post.ite (fun _ => finish_zero_eq nextLatchBin_spec s hl)
    (fun _ => finish_zero_eq nextLatchAscii_spec s hl)

theorem toBad_p (s : St) : Post (toBad s) (fun r => r.p = s.p) := by
  unfold toBad
  exact Post.bind (finish_p (nextLit_p false) s) fun s' hs' => Post.pure hs'

theorem toConstraints_p (s : St) : Post (toConstraints s) (fun r => r.p = s.p) := by
  unfold toConstraints
  exact Post.bind (finish_p (nextLit_p false) s) fun s' hs' => Post.pure hs'

theorem toJusticeSizes_p (s : St) : Post (toJusticeSizes s) (fun r => r.p = s.p) := by
  unfold toJusticeSizes
  exact Post.bind (finish_p (nextLit_p false) s) fun s' hs' => Post.pure hs'

theorem toJusticeLits_p (s : St) : Post (toJusticeLits s) (fun r => r.p = s.p) := by
  unfold toJusticeLits
  exact Post.bind (finish_p nextJusticeSize_p s) fun s' hs' => Post.pure hs'

theorem toFairness_p (s : St) : Post (toFairness s) (fun r => r.p = s.p) := by
  unfold toFairness
  exact Post.bind (finish_p (nextLit_p false) s) fun s' hs' => Post.pure hs'

theorem toAndGates_p (s : St) : Post (toAndGates s) (fun r => r.p = s.p) := by
  unfold toAndGates
  exact Post.bind (finish_p (nextLit_p false) s) fun s' hs' => Post.pure hs'

/-- The middle sections do not touch the parser configuration — in particular not the binary
parser's next-literal counter. -/
theorem parseMid_p (s : St) (hl : s.left = 0) : Post (parseMid s) (fun r => r.2.p = s.p) := by
  unfold parseMid
  refine Post.bind (toOutputs_p s hl) fun s1 h1 => ?_
  refine Post.bind (whileSome_p (nextLit_p false) _ s1 []) fun r hr => ?_
  obtain ⟨outputs, s2⟩ := r
  simp only at hr ⊢
  refine Post.bind (toBad_p s2) fun s3 h3 => ?_
  refine Post.bind (whileSome_p (nextLit_p false) _ s3 []) fun r hr4 => ?_
  obtain ⟨bad, s4⟩ := r
  simp only at hr4 ⊢
  refine Post.bind (toConstraints_p s4) fun s5 h5 => ?_
  refine Post.bind (whileSome_p (nextLit_p false) _ s5 []) fun r hr6 => ?_
  obtain ⟨constraints, s6⟩ := r
  simp only at hr6 ⊢
  refine Post.bind (toJusticeSizes_p s6) fun s7 h7 => ?_
  refine Post.bind (whileSome_p nextJusticeSize_p _ s7 []) fun r hr8 => ?_
  obtain ⟨sizes, s8⟩ := r
  simp only at hr8 ⊢
  refine Post.bind (toJusticeLits_p s8) fun s9 h9 => ?_
  refine Post.bind (justiceLitsLoop_p sizes _ s9 _ 0) fun r hr10 => ?_
  obtain ⟨justice, s10⟩ := r
  simp only at hr10 ⊢
  refine Post.bind (toFairness_p s10) fun s11 h11 => ?_
  refine Post.bind (whileSome_p (nextLit_p false) _ s11 []) fun r hr12 => ?_
  obtain ⟨fairness, s12⟩ := r
  simp only at hr12 ⊢
  refine Post.pure ?_
  show s12.p = s.p
  rw [hr12, h11, hr10, h9, hr8, h7, hr6, h5, hr4, h3, hr, h1]

/-! ### the running counter of the binary parser -/

/-- A step of a section of the binary format that defines one variable per item: the item
satisfies `P` relative to the counter, and the counter advances by two (wrapping, F4). -/
def CodeStep {α : Type} (P : Nat → LitTy → α → Prop) (next : St → PM (Option α × St)) : Prop :=
  ∀ s, Post (next s) (fun r => match r.1 with
    | some a => P s.p.code s.p.lit a ∧ r.2.p = { s.p with code := (s.p.code + 2) % 2 ^ 64 }
    | none => r.2 = s)

theorem parser_code_self (p : Parser) (h : p.code < 2 ^ 64) :
    p = { p with code := (p.code + 2 * 0) % 2 ^ 64 } := by
  obtain ⟨bin, lit, header, maxLit, code⟩ := p
  simp only [Nat.mul_zero, Nat.add_zero, Parser.mk.injEq, true_and]
  exact (Nat.mod_eq_of_lt h).symm

/-- The loop over such a section: item `i` satisfies `P` relative to `code + 2·i`. -/
theorem whileSome_code {α : Type} {P : Nat → LitTy → α → Prop} {next : St → PM (Option α × St)}
    (h : CodeStep P next) :
    ∀ (fuel : Nat) (s : St) (acc : List α), s.p.code < 2 ^ 64 →
      Post (whileSome next fuel s acc) (fun r => ∃ xs, r.1 = acc.reverse ++ xs ∧
        r.2.p = { s.p with code := (s.p.code + 2 * xs.length) % 2 ^ 64 } ∧
        ∀ i x, xs[i]? = some x → P ((s.p.code + 2 * i) % 2 ^ 64) s.p.lit x) := by
  intro fuel
  induction fuel with
  | zero => intro s acc _; unfold whileSome; exact Post.of_fails (fails_rpanic _)
  | succ fuel ih =>
    intro s acc hc
    unfold whileSome
    refine Post.bind (h s) fun r hr => ?_
    obtain ⟨o, s'⟩ := r
    cases o with
    | none =>
      simp only at hr ⊢
      subst hr
      refine Post.pure ⟨[], by simp, ?_, ?_⟩
      · exact parser_code_self _ hc
      · intro i x hx; simp at hx
    | some a =>
      simp only at hr ⊢
      obtain ⟨hp, hs'⟩ := hr
      have hc' : s'.p.code < 2 ^ 64 := by rw [hs']; exact Nat.mod_lt _ (by decide)
      refine Post.mono (ih s' (a :: acc) hc') ?_
      rintro ⟨ys, s''⟩ ⟨xs, hxs, hp2, hall⟩
      simp only at hxs hp2 hall ⊢
      refine ⟨a :: xs, by rw [hxs]; simp, ?_, ?_⟩
      · rw [hp2, hs']
        simp only [Parser.mk.injEq, true_and, List.length_cons]
        omega
      · intro i x hx
        cases i with
        | zero =>
          simp only [List.getElem?_cons_zero, Option.some.injEq] at hx
          subst hx
          simp only [Nat.mul_zero, Nat.add_zero, Nat.mod_eq_of_lt hc]
          exact hp
        | succ i =>
          simp only [List.getElem?_cons_succ] at hx
          have := hall i x hx
          rw [hs'] at this
          have e : ((s.p.code + 2) % 2 ^ 64 + 2 * i) % 2 ^ 64 = (s.p.code + 2 * (i + 1)) % 2 ^ 64 := by
            omega
          rw [← e]
          exact this

theorem nextLatchBin_code : CodeStep (fun _ _ (_ : OLatch) => True) nextLatchBin := by
  intro s
  unfold nextLatchBin
  split
  · exact Post.pure rfl
  · refine Post.bind (Post.true _) fun _ _ => ?_
    exact Post.bind (Post.true _) fun _ _ => Post.pure ⟨trivial, rfl⟩

/-- A binary and gate read while the counter is `code`: the casts of two codes
`c1 ≤ c0 ≤ code`. -/
def OGateAt (code : Nat) (l : LitTy) (g : OGate) : Prop :=
  ∃ c0 c1, g.in0 = l.fromCode c0 ∧ g.in1 = l.fromCode c1 ∧ c1 ≤ c0 ∧ c0 ≤ code

theorem nextAndGateBin_code : CodeStep OGateAt nextAndGateBin := by
  intro s
  unfold nextAndGateBin
  split
  · exact Post.pure rfl
  · refine Post.bind (deltaCode_post _) fun c0 h0 => ?_
    refine Post.bind (deltaCode_post _) fun c1 h1 => Post.pure ?_
    exact ⟨⟨c0, c1, rfl, rfl, h1, h0⟩, rfl⟩

/-- `Parser::new`: where the counter starts. -/
theorem Parser.new_code (bin : Bool) (l : LitTy) :
    Post (Parser.new bin l) (fun p => p.code =
      if bin then ((p.header.inputCount + 1) % 2 ^ 64 * 2) % 2 ^ 64 else 0) := by
  unfold Parser.new
  refine Post.bind (Post.true _) fun h _ => ?_
  refine Post.bind (Post.true _) fun _ _ => ?_
  exact Post.bind (Post.true _) fun _ _ => Post.pure rfl

/-- `binary::Parser::parse`: gate `i` was read while the counter was
`code₀ + 2·(number of latches) + 2·i`; symbol table and comment as for the ASCII format. -/
theorem parseBinary_conv (p : Parser) (hc : p.code < 2 ^ 64) :
    Post (parseBinary p) (fun a =>
      (∀ i g, a.gates[i]? = some g →
        OGateAt ((p.code + 2 * a.latches.length + 2 * i) % 2 ^ 64) p.lit g) ∧
      TailOk p.header a.symbols a.comment) := by
  unfold parseBinary
  refine Post.bind (toLatches_p { p }) fun s2 (h2 : s2.p = p) => ?_
  refine Post.bind (Post.and (whileSome_code nextLatchBin_code _ s2 [] (by rw [h2]; exact hc))
    (whileSome_spec nextLatchBin_spec _ s2 [])) fun r hr => ?_
  obtain ⟨latches, s3⟩ := r
  obtain ⟨⟨xs, hxs, hp3, _⟩, ⟨ys, _, d3⟩⟩ := hr
  simp only [List.reverse_nil, List.nil_append] at hxs hp3 ⊢
  subst hxs
  refine Post.bind (parseMid_p s3 d3.left) fun r hr => ?_
  obtain ⟨mid, s4⟩ := r
  simp only at hr ⊢
  refine Post.bind (toAndGates_p s4) fun s5 h5 => ?_
  have hp5 : s5.p = { p with code := (p.code + 2 * latches.length) % 2 ^ 64 } := by
    rw [h5, hr, hp3, h2]
  refine Post.bind (Post.and (whileSome_code nextAndGateBin_code _ s5 []
      (by rw [hp5]; exact Nat.mod_lt _ (by decide)))
    (whileSome_spec nextAndGateBin_spec _ s5 [])) fun r hr => ?_
  obtain ⟨gates, s6⟩ := r
  obtain ⟨⟨xs, hxs, _, hg⟩, ⟨ys, _, d6⟩⟩ := hr
  simp only [List.reverse_nil, List.nil_append] at hxs hg ⊢
  subst hxs
  refine Post.bind (toSymbols_post s6) fun p' hp' => ?_
  have hh : p'.header = p.header := by rw [hp'.1, d6.cfg.1, hp5]
  refine Post.bind (parseTail_post p') fun r hr => ?_
  obtain ⟨symbols, c⟩ := r
  simp only at hr ⊢
  rw [hh] at hr
  refine Post.pure ⟨?_, hr⟩
  intro i g hig
  have := hg i g hig
  rw [hp5] at this
  simp only at this
  have e : ((p.code + 2 * latches.length) % 2 ^ 64 + 2 * i) % 2 ^ 64 =
      (p.code + 2 * latches.length + 2 * i) % 2 ^ 64 := by omega
  rw [← e]
  exact this

end Aiger
end Flussab
