/-
Proofs of `Props/TieAigerWriteDoc.lean`: the generated whole-file AIGER write drivers
(`Gen/AigerWriteDocGen.lean`, `Gen/AigerBinWriteDocGen.lean`) against the op histories of
`Model/AigerWriteDoc.lean` and the byte functions of `Model/Aiger.lean`.
-/
import Flussab.Gen.AigerWriteDocGen
import Flussab.Gen.AigerBinWriteDocGen
import Flussab.Model.AigerWriteDoc
import Flussab.Proof.TieAigerWrite

namespace Flussab
namespace TieAigerWriteDocAux

open Writer (Op)
open AigerWriteExt TieAigerWriteAux

/-! ### monad plumbing -/

theorem genSeq_app (a b : List Op) : genSeq (a ++ b) = (genSeq a >>= fun _ => genSeq b) := by
  funext w; exact genSeq_append a b w

theorem bind_pure_unit {σ : Type} (m : RM σ Unit) : (m >>= fun _ => (pure () : RM σ Unit)) = m := by
  funext s
  simp only [RM.bind_apply]
  rcases m s with ⟨_ | u, s'⟩ <;> rfl

/-- `for x in xs { f x }`. -/
def forSeq {σ α : Type} (f : α → RM σ Unit) : List α → RM σ Unit
  | [] => pure ()
  | x :: r => do f x; forSeq f r

theorem forSeq_eq {α : Type} (f : α → RM Writer Unit) (ops : α → List Op) (hf : ∀ x, f x = genSeq (ops x))
    (xs : List α) : forSeq f xs = genSeq (xs.flatMap ops) := by
  induction xs with
  | nil => rfl
  | cons x r ih =>
    rw [List.flatMap_cons, genSeq_app, ← ih, ← hf]
    rfl

/-! ### validity of composed histories -/

def Good (ops : List Op) : Prop := (∀ op ∈ ops, op.Valid) ∧ (∀ op ∈ ops, WD op)

theorem good_nil : Good [] := ⟨by simp, by simp⟩

theorem good_append {a b : List Op} (ha : Good a) (hb : Good b) : Good (a ++ b) := by
  constructor <;> intro op hop <;> rcases List.mem_append.mp hop with h | h
  · exact ha.1 op h
  · exact hb.1 op h
  · exact ha.2 op h
  · exact hb.2 op h

theorem good_flatMap {α : Type} (xs : List α) (ops : α → List Op) (h : ∀ x ∈ xs, Good (ops x)) :
    Good (xs.flatMap ops) := by
  constructor <;> intro op hop <;> obtain ⟨x, hx, hox⟩ := List.mem_flatMap.mp hop
  · exact (h x hx).1 op hox
  · exact (h x hx).2 op hox

theorem good_lits (cs : List Nat) (h : ∀ c ∈ cs, c < 2 ^ 64) : Good (opsLits cs) :=
  good_flatMap cs opsLit fun c hc => opsLit_ok c (h c hc)

theorem good_mid (o b c : List Nat) (j : List (List Nat)) (f : List Nat)
    (ho : ∀ x ∈ o, x < 2 ^ 64) (hb : ∀ x ∈ b, x < 2 ^ 64) (hc : ∀ x ∈ c, x < 2 ^ 64)
    (hj : ∀ l ∈ j, l.length < 2 ^ 64 ∧ ∀ x ∈ l, x < 2 ^ 64) (hf : ∀ x ∈ f, x < 2 ^ 64) :
    Good (opsMid o b c j f) := by
  refine good_append (good_lits o ho) (good_append (good_lits b hb) (good_append (good_lits c hc)
    (good_append (good_lits _ ?_) (good_append (good_flatMap j opsLits fun l hl => good_lits l (hj l hl).2)
      (good_lits f hf)))))
  intro x hx
  obtain ⟨l, hl, rfl⟩ := List.mem_map.mp hx
  exact (hj l hl).1

theorem good_tail (ss : List Aiger.Symbol) (c : Option (List UInt8)) (hs : ∀ s ∈ ss, s.index < 2 ^ 64) :
    Good (opsTail ss c) := by
  refine good_append (good_flatMap ss opsSymbol fun s h => opsSymbol_ok s (hs s h)) ?_
  cases c with
  | none => exact good_nil
  | some c => exact opsComment_ok c

theorem good_aig (a : Aiger.Aig) (h : AigFits a) : Good (opsAig a) :=
  good_append (opsHeader_ok false _ h.header) (good_append (good_lits _ h.inputs)
    (good_append (good_flatMap _ _ fun l hl => opsLatchAscii_ok l (h.latches l hl).1 (h.latches l hl).2)
      (good_append (good_mid _ _ _ _ _ h.outputs h.bad h.constraints h.justice h.fairness)
        (good_append (good_flatMap _ _ fun g hg => opsAndGateAscii_ok g (h.gates g hg).1 (h.gates g hg).2.1 (h.gates g hg).2.2)
          (good_tail _ _ h.symbols)))))

/-! ### bytes of composed histories -/

theorem pieces_flatMap {α : Type} (xs : List α) (ops : α → List Op) :
    pieces (xs.flatMap ops) = (xs.map fun x => pieces (ops x)).flatten := by
  induction xs with
  | nil => rfl
  | cons x r ih => rw [List.flatMap_cons, pieces_append, ih]; rfl

theorem pieces_of_written {ops : List Op} (hwd : ∀ op ∈ ops, WD op) {bs : List UInt8}
    (h : ∀ w, C11.written ops w = bs) : pieces ops = bs := by
  rw [← written_eq ops hwd default]; exact h default

theorem wd_lit (c : Nat) : ∀ op ∈ opsLit c, WD op := by
  intro op hop
  simp only [opsLit, List.mem_cons, List.not_mem_nil, or_false] at hop
  rcases hop with rfl | rfl <;> trivial

theorem pieces_lit (c : Nat) : pieces (opsLit c) = Aiger.writeLit c :=
  pieces_of_written (wd_lit c) (lit_bytes c)

theorem pieces_lits (cs : List Nat) : pieces (opsLits cs) = Aiger.writeLits cs := by
  rw [opsLits, pieces_flatMap, Aiger.writeLits]
  simp only [pieces_lit]


theorem wd_of_good {ops : List Op} (h : Good ops) : ∀ op ∈ ops, WD op := h.2

theorem wd_flatMap {α : Type} (xs : List α) (ops : α → List Op) (h : ∀ x, ∀ op ∈ ops x, WD op) :
    ∀ op ∈ xs.flatMap ops, WD op := by
  intro op hop
  obtain ⟨x, _, hox⟩ := List.mem_flatMap.mp hop
  exact h x op hox

theorem pieces_latch (l : Aiger.Latch) : pieces (opsLatchAscii l) = Aiger.writeLatchAscii l := by
  refine pieces_of_written ?_ (latch_ascii_bytes l)
  intro op hop
  simp only [opsLatchAscii, List.mem_append, List.mem_cons, List.not_mem_nil, or_false] at hop
  rcases hop with (rfl | rfl | rfl) | hop
  · trivial
  · trivial
  · trivial
  · exact opsInit_wd _ _ op hop

theorem pieces_gate (g : Aiger.AndGate) : pieces (opsAndGateAscii g) = Aiger.writeAndGateAscii g := by
  refine pieces_of_written ?_ (and_gate_ascii_bytes g)
  intro op hop
  simp only [opsAndGateAscii, List.mem_cons, List.not_mem_nil, or_false] at hop
  rcases hop with rfl | rfl | rfl | rfl | rfl | rfl <;> trivial

theorem wd_symbol (s : Aiger.Symbol) : ∀ op ∈ opsSymbol s, WD op := by
  intro op hop
  simp only [opsSymbol, List.mem_cons, List.not_mem_nil, or_false] at hop
  rcases hop with rfl | rfl | rfl | rfl | rfl <;> trivial

theorem pieces_symbol (s : Aiger.Symbol) : pieces (opsSymbol s) = Aiger.writeSymbol s :=
  pieces_of_written (wd_symbol s) (symbol_bytes s)

theorem pieces_comment (c : List UInt8) : pieces (opsComment c) = Aiger.writeComment c :=
  pieces_of_written (opsComment_ok c).2 (comment_bytes c)

theorem pieces_mid (o b c : List Nat) (j : List (List Nat)) (f : List Nat) :
    pieces (opsMid o b c j f) = Aiger.writeMid o b c j f := by
  simp only [opsMid, pieces_append, pieces_lits, pieces_flatMap, Aiger.writeMid, List.append_assoc]

theorem pieces_tail (ss : List Aiger.Symbol) (c : Option (List UInt8)) :
    pieces (opsTail ss c) = Aiger.writeTail ss c := by
  cases c <;> simp only [opsTail, pieces_append, pieces_flatMap, pieces_symbol, pieces_comment, Aiger.writeTail] <;> rfl

theorem wd_header (bin : Bool) (h : Aiger.Header) : ∀ op ∈ opsHeader bin h, WD op := by
  intro op hop
  simp only [opsHeader, opsFields, List.mem_append, List.mem_cons, List.not_mem_nil, or_false, List.mem_flatMap] at hop
  rcases hop with (rfl | ⟨f, _, rfl | rfl⟩) | rfl <;> trivial

theorem pieces_header (bin : Bool) (h : Aiger.Header) : pieces (opsHeader bin h) = Aiger.writeHeader bin h :=
  pieces_of_written (wd_header bin h) (header_bytes bin h)

theorem pieces_aig (a : Aiger.Aig) : pieces (opsAig a) = Aiger.writeAig a := by
  simp only [opsAig, pieces_append, pieces_lits, pieces_flatMap, pieces_mid, pieces_tail, pieces_header,
    pieces_latch, pieces_gate, Aiger.writeAig, List.append_assoc]
  rfl

theorem wd_append {a b : List Op} (ha : ∀ op ∈ a, WD op) (hb : ∀ op ∈ b, WD op) : ∀ op ∈ a ++ b, WD op := by
  intro op hop
  rcases List.mem_append.mp hop with h | h
  · exact ha op h
  · exact hb op h

theorem wd_lits (cs : List Nat) : ∀ op ∈ opsLits cs, WD op := wd_flatMap cs opsLit wd_lit

theorem wd_latch (l : Aiger.Latch) : ∀ op ∈ opsLatchAscii l, WD op := by
  intro op hop
  simp only [opsLatchAscii, List.mem_append, List.mem_cons, List.not_mem_nil, or_false] at hop
  rcases hop with (rfl | rfl | rfl) | hop
  · trivial
  · trivial
  · trivial
  · exact opsInit_wd _ _ op hop

theorem wd_gate (g : Aiger.AndGate) : ∀ op ∈ opsAndGateAscii g, WD op := by
  intro op hop
  simp only [opsAndGateAscii, List.mem_cons, List.not_mem_nil, or_false] at hop
  rcases hop with rfl | rfl | rfl | rfl | rfl | rfl <;> trivial

theorem wd_mid (o b c : List Nat) (j : List (List Nat)) (f : List Nat) : ∀ op ∈ opsMid o b c j f, WD op :=
  wd_append (wd_lits o) (wd_append (wd_lits b) (wd_append (wd_lits c) (wd_append (wd_lits _)
    (wd_append (wd_flatMap j opsLits wd_lits) (wd_lits f)))))

theorem wd_tail (ss : List Aiger.Symbol) (c : Option (List UInt8)) : ∀ op ∈ opsTail ss c, WD op := by
  refine wd_append (wd_flatMap ss opsSymbol wd_symbol) ?_
  cases c with
  | none => intro op hop; cases hop
  | some c => exact (opsComment_ok c).2

theorem wd_aig (a : Aiger.Aig) : ∀ op ∈ opsAig a, WD op :=
  wd_append (wd_header _ _) (wd_append (wd_lits _) (wd_append (wd_flatMap _ _ wd_latch)
    (wd_append (wd_mid _ _ _ _ _) (wd_append (wd_flatMap _ _ wd_gate) (wd_tail _ _)))))

theorem aig_bytes (a : Aiger.Aig) (w : Writer) : C11.written (opsAig a) w = Aiger.writeAig a := by
  rw [written_eq _ (wd_aig a), pieces_aig]

/-! ### ASCII `write_aig` -/

open Gen.AigerWriteDoc in
theorem aig_loop1 (xs : List Nat) : writeAig.loop1 xs = genSeq (opsLits xs) := by
  rw [opsLits, ← forSeq_eq _ _ a_writeLit]
  induction xs with
  | nil => rfl
  | cons x r ih => simp only [writeAig.loop1, forSeq, ih]

theorem opsLits_map_length (j : List (List Nat)) :
    j.flatMap (fun l => opsLit l.length) = opsLits (j.map List.length) := by
  induction j with
  | nil => rfl
  | cons l r ih => simp only [List.flatMap_cons, List.map_cons, opsLits, ih] <;> rfl

section
open Gen.AigerWriteDoc

theorem aig_loop2 (xs : List Aiger.Latch) : writeAig.loop2 xs = genSeq (xs.flatMap opsLatchAscii) := by
  rw [← forSeq_eq _ _ a_writeLatch]
  induction xs with
  | nil => rfl
  | cons x r ih => simp only [writeAig.loop2, forSeq, ih]

theorem aig_loop3 (xs : List Nat) : writeAig.loop3 xs = genSeq (opsLits xs) := by
  rw [opsLits, ← forSeq_eq _ _ a_writeLit]
  induction xs with
  | nil => rfl
  | cons x r ih => simp only [writeAig.loop3, forSeq, ih]

theorem aig_loop4 (xs : List Nat) : writeAig.loop4 xs = genSeq (opsLits xs) := by
  rw [opsLits, ← forSeq_eq _ _ a_writeLit]
  induction xs with
  | nil => rfl
  | cons x r ih => simp only [writeAig.loop4, forSeq, ih]

theorem aig_loop5 (xs : List Nat) : writeAig.loop5 xs = genSeq (opsLits xs) := by
  rw [opsLits, ← forSeq_eq _ _ a_writeLit]
  induction xs with
  | nil => rfl
  | cons x r ih => simp only [writeAig.loop5, forSeq, ih]

theorem aig_loop6 (xs : List (List Nat)) : writeAig.loop6 xs = genSeq (opsLits (xs.map List.length)) := by
  rw [← opsLits_map_length, ← forSeq_eq (fun l : List Nat => Gen.AigerWrite.writeCount l.length) _ (fun l => a_writeCount l.length)]
  induction xs with
  | nil => rfl
  | cons x r ih => simp only [writeAig.loop6, forSeq, ih]

theorem aig_loop8 (xs : List Nat) : writeAig.loop8 xs = genSeq (opsLits xs) := by
  rw [opsLits, ← forSeq_eq _ _ a_writeLit]
  induction xs with
  | nil => rfl
  | cons x r ih => simp only [writeAig.loop8, forSeq, ih]

theorem aig_loop7 (xs : List (List Nat)) : writeAig.loop7 xs = genSeq (xs.flatMap opsLits) := by
  rw [← forSeq_eq _ _ aig_loop8]
  induction xs with
  | nil => rfl
  | cons x r ih => simp only [writeAig.loop7, forSeq, ih]

theorem aig_loop9 (xs : List Nat) : writeAig.loop9 xs = genSeq (opsLits xs) := by
  rw [opsLits, ← forSeq_eq _ _ a_writeLit]
  induction xs with
  | nil => rfl
  | cons x r ih => simp only [writeAig.loop9, forSeq, ih]

theorem aig_loop10 (xs : List Aiger.AndGate) : writeAig.loop10 xs = genSeq (xs.flatMap opsAndGateAscii) := by
  rw [← forSeq_eq _ _ a_writeAndGate]
  induction xs with
  | nil => rfl
  | cons x r ih => simp only [writeAig.loop10, forSeq, ih]

theorem aig_loop11 (xs : List Aiger.Symbol) : writeAig.loop11 xs = genSeq (xs.flatMap opsSymbol) := by
  rw [← forSeq_eq _ _ a_writeSymbol]
  induction xs with
  | nil => rfl
  | cons x r ih => simp only [writeAig.loop11, forSeq, ih]

theorem a_writeHeader' (h : Aiger.Header) : Gen.AigerWrite.writeHeader h = genSeq (opsHeader false h) := by
  funext s; exact a_writeHeader h s

theorem genSeq_nil : genSeq [] = (pure () : RM Writer Unit) := rfl

theorem a_writeAig (a : Aiger.Aig) : writeAig a = genSeq (opsAig a) := by
  unfold writeAig
  simp only [aig_loop1, aig_loop2, aig_loop3, aig_loop4, aig_loop5, aig_loop6, aig_loop7, aig_loop9, aig_loop10,
    aig_loop11, a_writeHeader', a_writeComment]
  simp only [opsAig, opsMid, opsTail, List.append_assoc]
  simp only [genSeq_app]
  rcases a with ⟨mv, i, l, o, b, c, j, f, g, sy, _ | cm⟩
  · rfl
  · simp only [bind_pure_unit]
    rfl

end

theorem ascii_write_aig_eq (w : Writer) (a : Aiger.Aig) (h : w.buf.length ≤ w.cap) (hf : AigFits a) :
    Gen.AigerWriteDoc.writeAig a w = runSeq (opsAig a) w := by
  rw [a_writeAig]; exact genSeq_eq _ (good_aig a hf).2 (good_aig a hf).1 w h

/-! ### ASCII `write_ordered_aig` -/

theorem bind_assoc' {σ α β γ : Type} (x : RM σ α) (f : α → RM σ β) (g : β → RM σ γ) :
    ((x >>= f) >>= g) = (x >>= fun a => f a >>= g) := by
  funext s
  simp only [RM.bind_apply]
  rcases x s with ⟨_ | a, s'⟩ <;> rfl

theorem pure_bind' {σ α β : Type} (a : α) (f : α → RM σ β) : ((pure a : RM σ α) >>= f) = f a := rfl

section
open Gen.AigerWriteDoc

theorem ord_loop1 (n : Nat) : ∀ code, writeOrderedAig.loop1 n code =
    (genSeq (opsOrdInputs n code) >>= fun _ => pure (code + 2 * n)) := by
  induction n with
  | zero => intro code; rfl
  | succ n ih =>
    intro code
    simp only [writeOrderedAig.loop1, ih, opsOrdInputs, genSeq_app, a_writeLit, bind_assoc']
    have : code + 2 + 2 * n = code + 2 * (n + 1) := by omega
    rw [this]

theorem ord_loop2 (xs : List Aiger.OLatch) : ∀ code, writeOrderedAig.loop2 xs code =
    (genSeq (opsOrdLatches xs code) >>= fun _ => pure (code + 2 * xs.length)) := by
  induction xs with
  | nil => intro code; rfl
  | cons x r ih =>
    intro code
    simp only [writeOrderedAig.loop2, ih, opsOrdLatches, genSeq_app, a_writeLatch, bind_assoc', List.length_cons]
    have : code + 2 + 2 * r.length = code + 2 * (r.length + 1) := by omega
    rw [this]

theorem ord_loop10 (xs : List Aiger.OGate) : ∀ code, writeOrderedAig.loop10 xs code =
    (genSeq (opsOrdGates xs code) >>= fun _ => pure (code + 2 * xs.length)) := by
  induction xs with
  | nil => intro code; rfl
  | cons x r ih =>
    intro code
    simp only [writeOrderedAig.loop10, ih, opsOrdGates, genSeq_app, a_writeAndGate, bind_assoc', List.length_cons]
    have : code + 2 + 2 * r.length = code + 2 * (r.length + 1) := by omega
    rw [this]

theorem ord_loop3 (xs : List Nat) : writeOrderedAig.loop3 xs = genSeq (opsLits xs) := by
  rw [opsLits, ← forSeq_eq _ _ a_writeLit]
  induction xs with
  | nil => rfl
  | cons x r ih => simp only [writeOrderedAig.loop3, forSeq, ih]

theorem ord_loop4 (xs : List Nat) : writeOrderedAig.loop4 xs = genSeq (opsLits xs) := by
  rw [opsLits, ← forSeq_eq _ _ a_writeLit]
  induction xs with
  | nil => rfl
  | cons x r ih => simp only [writeOrderedAig.loop4, forSeq, ih]

theorem ord_loop5 (xs : List Nat) : writeOrderedAig.loop5 xs = genSeq (opsLits xs) := by
  rw [opsLits, ← forSeq_eq _ _ a_writeLit]
  induction xs with
  | nil => rfl
  | cons x r ih => simp only [writeOrderedAig.loop5, forSeq, ih]

theorem ord_loop6 (xs : List (List Nat)) : writeOrderedAig.loop6 xs = genSeq (opsLits (xs.map List.length)) := by
  rw [← opsLits_map_length, ← forSeq_eq (fun l : List Nat => Gen.AigerWrite.writeCount l.length) _ (fun l => a_writeCount l.length)]
  induction xs with
  | nil => rfl
  | cons x r ih => simp only [writeOrderedAig.loop6, forSeq, ih]

theorem ord_loop8 (xs : List Nat) : writeOrderedAig.loop8 xs = genSeq (opsLits xs) := by
  rw [opsLits, ← forSeq_eq _ _ a_writeLit]
  induction xs with
  | nil => rfl
  | cons x r ih => simp only [writeOrderedAig.loop8, forSeq, ih]

theorem ord_loop7 (xs : List (List Nat)) : writeOrderedAig.loop7 xs = genSeq (xs.flatMap opsLits) := by
  rw [← forSeq_eq _ _ ord_loop8]
  induction xs with
  | nil => rfl
  | cons x r ih => simp only [writeOrderedAig.loop7, forSeq, ih]

theorem ord_loop9 (xs : List Nat) : writeOrderedAig.loop9 xs = genSeq (opsLits xs) := by
  rw [opsLits, ← forSeq_eq _ _ a_writeLit]
  induction xs with
  | nil => rfl
  | cons x r ih => simp only [writeOrderedAig.loop9, forSeq, ih]

theorem ord_loop11 (xs : List Aiger.Symbol) : writeOrderedAig.loop11 xs = genSeq (xs.flatMap opsSymbol) := by
  rw [← forSeq_eq _ _ a_writeSymbol]
  induction xs with
  | nil => rfl
  | cons x r ih => simp only [writeOrderedAig.loop11, forSeq, ih]

theorem a_writeOrderedAig (a : Aiger.OrderedAig) : writeOrderedAig a = genSeq (opsOrderedAigAscii a) := by
  unfold writeOrderedAig
  simp only [ord_loop1, ord_loop2, ord_loop3, ord_loop4, ord_loop5, ord_loop6, ord_loop7, ord_loop9, ord_loop10,
    ord_loop11, a_writeHeader', a_writeComment, bind_assoc', pure_bind']
  simp only [opsOrderedAigAscii, opsMid, opsTail, List.append_assoc]
  simp only [genSeq_app]
  rcases a with ⟨mv, i, l, o, b, c, j, f, g, sy, _ | cm⟩
  · rfl
  · simp only [bind_pure_unit]
    rfl

end

theorem good_ordInputs (n : Nat) : ∀ code, code + 2 * n ≤ 2 ^ 64 → Good (opsOrdInputs n code) := by
  induction n with
  | zero => intro _ _; exact good_nil
  | succ n ih =>
    intro code h
    exact good_append (opsLit_ok code (by omega)) (ih (code + 2) (by omega))

theorem good_ordLatches (xs : List Aiger.OLatch) : ∀ code, code + 2 * xs.length ≤ 2 ^ 64 →
    (∀ l ∈ xs, l.next < 2 ^ 64) → Good (opsOrdLatches xs code) := by
  induction xs with
  | nil => intro _ _ _; exact good_nil
  | cons x r ih =>
    intro code h hn
    simp only [List.length_cons] at h
    exact good_append (opsLatchAscii_ok _ (by show code < _; omega) (hn x (by simp)))
      (ih (code + 2) (by omega) fun l hl => hn l (by simp [hl]))

theorem good_ordGates (xs : List Aiger.OGate) : ∀ code, code + 2 * xs.length ≤ 2 ^ 64 →
    (∀ g ∈ xs, g.in0 < 2 ^ 64 ∧ g.in1 < 2 ^ 64) → Good (opsOrdGates xs code) := by
  induction xs with
  | nil => intro _ _ _; exact good_nil
  | cons x r ih =>
    intro code h hn
    simp only [List.length_cons] at h
    exact good_append (opsAndGateAscii_ok _ (by show code < _; omega) (hn x (by simp)).1 (hn x (by simp)).2)
      (ih (code + 2) (by omega) fun l hl => hn l (by simp [hl]))

theorem good_ordered (a : Aiger.OrderedAig) (h : OrdFits a) (hc : OrdCodesFit a) : Good (opsOrderedAigAscii a) := by
  unfold OrdCodesFit at hc
  exact good_append (opsHeader_ok false _ h.header) (good_append (good_ordInputs _ _ (by omega))
    (good_append (good_ordLatches _ _ (by omega) h.latches)
      (good_append (good_mid _ _ _ _ _ h.outputs h.bad h.constraints h.justice h.fairness)
        (good_append (good_ordGates _ _ (by omega) h.gates) (good_tail _ _ h.symbols)))))

theorem ascii_write_ordered_aig_eq (w : Writer) (a : Aiger.OrderedAig) (h : w.buf.length ≤ w.cap)
    (hf : OrdFits a) (hc : OrdCodesFit a) :
    Gen.AigerWriteDoc.writeOrderedAig a w = runSeq (opsOrderedAigAscii a) w := by
  rw [a_writeOrderedAig]; exact genSeq_eq _ (good_ordered a hf hc).2 (good_ordered a hf hc).1 w h

/-! bytes of the ordered ASCII history -/

theorem fromCode_id (l : Aiger.LitTy) (c : Nat) (h : c < 2 ^ l.bits) : l.fromCode c = c := Nat.mod_eq_of_lt h

theorem wd_ordInputs (n : Nat) : ∀ code, ∀ op ∈ opsOrdInputs n code, WD op := by
  induction n with
  | zero => intro _ op hop; cases hop
  | succ n ih => intro code; exact wd_append (wd_lit code) (ih (code + 2))

theorem wd_ordLatches (xs : List Aiger.OLatch) : ∀ code, ∀ op ∈ opsOrdLatches xs code, WD op := by
  induction xs with
  | nil => intro _ op hop; cases hop
  | cons x r ih => intro code; exact wd_append (wd_latch _) (ih (code + 2))

theorem wd_ordGates (xs : List Aiger.OGate) : ∀ code, ∀ op ∈ opsOrdGates xs code, WD op := by
  induction xs with
  | nil => intro _ op hop; cases hop
  | cons x r ih => intro code; exact wd_append (wd_gate _) (ih (code + 2))

theorem wd_ordered (a : Aiger.OrderedAig) : ∀ op ∈ opsOrderedAigAscii a, WD op :=
  wd_append (wd_header _ _) (wd_append (wd_ordInputs _ _) (wd_append (wd_ordLatches _ _)
    (wd_append (wd_mid _ _ _ _ _) (wd_append (wd_ordGates _ _) (wd_tail _ _)))))

theorem pieces_ordInputs (l : Aiger.LitTy) (n : Nat) : ∀ s, (∀ i, i < s + n → 2 * (i + 1) < 2 ^ l.bits) →
    pieces (opsOrdInputs n (2 * (s + 1))) =
      Aiger.writeLits ((List.range' s n).map fun i => l.fromCode (2 * (i + 1))) := by
  induction n with
  | zero => intro _ _; rfl
  | succ n ih =>
    intro s h
    have e : 2 * (s + 1) + 2 = 2 * (s + 1 + 1) := by omega
    rw [opsOrdInputs, pieces_append, pieces_lit, e, ih (s + 1) (fun i hi => h i (by omega)), List.range'_succ,
      List.map_cons, fromCode_id l _ (h s (by omega))]
    simp only [Aiger.writeLits, List.map_cons, List.flatten_cons]

theorem pieces_ordLatches (l : Aiger.LitTy) (n : Nat) (xs : List Aiger.OLatch) :
    ∀ k, (∀ i, i < k + xs.length → 2 * (n + 1 + i) < 2 ^ l.bits) →
    pieces (opsOrdLatches xs (2 * (n + 1 + k))) =
      ((xs.zipIdx k).map fun (p : Aiger.OLatch × Nat) => Aiger.writeLatchAscii
        { state := l.fromCode (2 * (n + 1 + p.2)), next := p.1.next, init := p.1.init }).flatten := by
  induction xs with
  | nil => intro _ _; rfl
  | cons x r ih =>
    intro k h
    simp only [List.length_cons] at h
    have e : 2 * (n + 1 + k) + 2 = 2 * (n + 1 + (k + 1)) := by omega
    rw [opsOrdLatches, pieces_append, pieces_latch, e, ih (k + 1) (fun i hi => h i (by omega))]
    simp only [List.zipIdx_cons, List.map_cons, List.flatten_cons, fromCode_id l _ (h k (by omega))]

theorem pieces_ordGates (l : Aiger.LitTy) (n : Nat) (xs : List Aiger.OGate) :
    ∀ k, (∀ i, i < k + xs.length → 2 * (n + 1 + i) < 2 ^ l.bits) →
    pieces (opsOrdGates xs (2 * (n + 1 + k))) =
      ((xs.zipIdx k).map fun (p : Aiger.OGate × Nat) => Aiger.writeAndGateAscii
        { in0 := p.1.in0, in1 := p.1.in1, out := l.fromCode (2 * (n + 1 + p.2)) }).flatten := by
  induction xs with
  | nil => intro _ _; rfl
  | cons x r ih =>
    intro k h
    simp only [List.length_cons] at h
    have e : 2 * (n + 1 + k) + 2 = 2 * (n + 1 + (k + 1)) := by omega
    rw [opsOrdGates, pieces_append, pieces_gate, e, ih (k + 1) (fun i hi => h i (by omega))]
    simp only [List.zipIdx_cons, List.map_cons, List.flatten_cons, fromCode_id l _ (h k (by omega))]

theorem pieces_ordered (l : Aiger.LitTy) (a : Aiger.OrderedAig)
    (hl : 2 * (a.inputCount + a.latches.length + a.gates.length) < 2 ^ l.bits) :
    pieces (opsOrderedAigAscii a) = Aiger.writeOrderedAigAscii l a := by
  have hI : pieces (opsOrdInputs a.inputCount 2) = _ := pieces_ordInputs l a.inputCount 0 (fun i hi => by omega)
  have e2 : 2 + 2 * a.inputCount = 2 * (a.inputCount + 1 + 0) := by omega
  have e3 : 2 + 2 * a.inputCount + 2 * a.latches.length = 2 * (a.inputCount + a.latches.length + 1 + 0) := by omega
  unfold opsOrderedAigAscii Aiger.writeOrderedAigAscii
  rw [e3, e2]
  simp only [pieces_append, pieces_header, pieces_mid, pieces_tail, hI,
    pieces_ordLatches l a.inputCount a.latches 0 (fun i hi => by omega),
    pieces_ordGates l (a.inputCount + a.latches.length) a.gates 0 (fun i hi => by omega),
    List.append_assoc, List.range_eq_range', List.map_map]
  rfl

theorem ordered_ascii_bytes (l : Aiger.LitTy) (a : Aiger.OrderedAig)
    (hl : 2 * (a.inputCount + a.latches.length + a.gates.length) < 2 ^ l.bits) (w : Writer) :
    C11.written (opsOrderedAigAscii a) w = Aiger.writeOrderedAigAscii l a := by
  rw [written_eq _ (wd_ordered a), pieces_ordered l a hl]

/-! ### binary `write_ordered_aig`: the driver is the model's sequence of sections -/

theorem genSeqB_app (a b : List Op) : genSeqB (a ++ b) = (genSeqB a >>= fun _ => genSeqB b) := by
  funext s; exact genSeqB_append a b s

theorem forSeq_eqB {α : Type} (f : α → RM BinWriter Unit) (ops : α → List Op) (hf : ∀ x, f x = genSeqB (ops x))
    (xs : List α) : forSeq f xs = genSeqB (xs.flatMap ops) := by
  induction xs with
  | nil => rfl
  | cons x r ih =>
    rw [List.flatMap_cons, genSeqB_app, ← ih, ← hf]
    rfl

section
open Gen.AigerBinWriteDoc

theorem bin_loop1 (xs : List Aiger.OLatch) : writeOrderedAig.loop1 xs = forSeq Gen.AigerBinWrite.writeLatch xs := by
  induction xs with
  | nil => rfl
  | cons x r ih => simp only [writeOrderedAig.loop1, forSeq, ih]

theorem bin_loop2 (xs : List Nat) : writeOrderedAig.loop2 xs = genSeqB (opsLits xs) := by
  rw [opsLits, ← forSeq_eqB _ _ b_writeLit]
  induction xs with
  | nil => rfl
  | cons x r ih => simp only [writeOrderedAig.loop2, forSeq, ih]

theorem bin_loop3 (xs : List Nat) : writeOrderedAig.loop3 xs = genSeqB (opsLits xs) := by
  rw [opsLits, ← forSeq_eqB _ _ b_writeLit]
  induction xs with
  | nil => rfl
  | cons x r ih => simp only [writeOrderedAig.loop3, forSeq, ih]

theorem bin_loop4 (xs : List Nat) : writeOrderedAig.loop4 xs = genSeqB (opsLits xs) := by
  rw [opsLits, ← forSeq_eqB _ _ b_writeLit]
  induction xs with
  | nil => rfl
  | cons x r ih => simp only [writeOrderedAig.loop4, forSeq, ih]

theorem bin_loop5 (xs : List (List Nat)) : writeOrderedAig.loop5 xs = genSeqB (opsLits (xs.map List.length)) := by
  rw [← opsLits_map_length, ← forSeq_eqB (fun l : List Nat => Gen.AigerBinWrite.writeCount l.length) _ (fun l => b_writeCount l.length)]
  induction xs with
  | nil => rfl
  | cons x r ih => simp only [writeOrderedAig.loop5, forSeq, ih]

theorem bin_loop7 (xs : List Nat) : writeOrderedAig.loop7 xs = genSeqB (opsLits xs) := by
  rw [opsLits, ← forSeq_eqB _ _ b_writeLit]
  induction xs with
  | nil => rfl
  | cons x r ih => simp only [writeOrderedAig.loop7, forSeq, ih]

theorem bin_loop6 (xs : List (List Nat)) : writeOrderedAig.loop6 xs = genSeqB (xs.flatMap opsLits) := by
  rw [← forSeq_eqB _ _ bin_loop7]
  induction xs with
  | nil => rfl
  | cons x r ih => simp only [writeOrderedAig.loop6, forSeq, ih]

theorem bin_loop8 (xs : List Nat) : writeOrderedAig.loop8 xs = genSeqB (opsLits xs) := by
  rw [opsLits, ← forSeq_eqB _ _ b_writeLit]
  induction xs with
  | nil => rfl
  | cons x r ih => simp only [writeOrderedAig.loop8, forSeq, ih]

theorem bin_loop9 (xs : List Aiger.OGate) : writeOrderedAig.loop9 xs = forSeq Gen.AigerBinWrite.writeAndGate xs := by
  induction xs with
  | nil => rfl
  | cons x r ih => simp only [writeOrderedAig.loop9, forSeq, ih]

theorem bin_loop10 (xs : List Aiger.Symbol) : writeOrderedAig.loop10 xs = genSeqB (xs.flatMap opsSymbol) := by
  rw [← forSeq_eqB _ _ b_writeSymbol]
  induction xs with
  | nil => rfl
  | cons x r ih => simp only [writeOrderedAig.loop10, forSeq, ih]

theorem genSeqB_nil : genSeqB [] = (pure () : RM BinWriter Unit) := rfl

/-- The generated binary driver is: header, the latches one by one, the ops of the middle sections, the gates one
by one, the ops of symbol table and comment — the sequence of `Aiger.binWriteOrderedAig`. -/
theorem b_writeOrderedAig (a : Aiger.OrderedAig) : writeOrderedAig a =
    (do Gen.AigerBinWrite.writeHeader (Aiger.orderedHeader a)
        forSeq Gen.AigerBinWrite.writeLatch a.latches
        genSeqB (opsMid a.outputs a.bad a.constraints a.justice a.fairness)
        forSeq Gen.AigerBinWrite.writeAndGate a.gates
        genSeqB (opsTail a.symbols a.comment)) := by
  unfold writeOrderedAig
  simp only [bin_loop1, bin_loop2, bin_loop3, bin_loop4, bin_loop5, bin_loop6, bin_loop8, bin_loop9, bin_loop10,
    b_writeComment]
  simp only [opsMid, opsTail, genSeqB_app, bind_assoc']
  rcases a with ⟨mv, i, l, o, b, c, j, f, g, sy, _ | cm⟩
  · simp only [genSeqB_nil, bind_pure_unit]
    rfl
  · simp only [bind_pure_unit]
    rfl

end

/-! ### binary `write_ordered_aig`: the event history -/

def Inv (s : BinWriter) : Prop := s.writer.buf.length ≤ s.writer.cap

theorem runSeqC_app (a b : List BOp) : ∀ s, runSeqC (a ++ b) s =
    match runSeqC a s with
    | (none, s') => (none, s')
    | (some _, s') => runSeqC b s' := by
  induction a with
  | nil => intro s; rfl
  | cons x r ih =>
    intro s
    cases x with
    | op o =>
      simp only [List.cons_append, runSeqC]
      rcases o.run s.writer with ⟨_ | u, w'⟩
      · rfl
      · exact ih _
    | setCode c => simp only [List.cons_append, runSeqC]; exact ih _
    | panic => rfl

theorem runSeqC_ops (ops : List Op) : ∀ s, runSeqC (ops.map .op) s = runSeqB ops s := by
  induction ops with
  | nil => intro s; rfl
  | cons o r ih =>
    intro s
    simp only [List.map_cons, runSeqC, runSeqB, runSeq]
    rcases o.run s.writer with ⟨_ | u, w'⟩
    · rfl
    · exact ih _

/-- Post-state of a run of plain ops. -/
theorem runSeqB_post (ops : List Op) (hv : ∀ op ∈ ops, op.Valid) (s : BinWriter) (h : Inv s) :
    Inv (runSeqB ops s).2 ∧ (runSeqB ops s).2.code = s.code :=
  ⟨runSeq_len ops hv s.writer h, rfl⟩

theorem seq_step (m k : RM BinWriter Unit) (a b : List BOp) (s : BinWriter) (Q : BinWriter → Prop)
    (hm : m s = runSeqC a s) (hq : ∀ s', runSeqC a s = (some (), s') → Q s')
    (hk : ∀ s', Q s' → k s' = runSeqC b s') :
    (m >>= fun _ => k) s = runSeqC (a ++ b) s := by
  rw [runSeqC_app, RM.bind_apply, hm]
  rcases h : runSeqC a s with ⟨_ | u, s'⟩
  · rfl
  · exact hk s' (hq s' h)

/-- latches -/
theorem latches_run (ls : List Aiger.OLatch) : ∀ s, Inv s → s.code < 2 ^ 64 → (∀ l ∈ ls, l.next < 2 ^ 64) →
    forSeq Gen.AigerBinWrite.writeLatch ls s = runSeqC (bopsLatches ls s.code) s ∧
    ∀ s', runSeqC (bopsLatches ls s.code) s = (some (), s') → Inv s' ∧ s'.code = bumps ls.length s.code := by
  induction ls with
  | nil =>
    intro s h _ _
    refine ⟨rfl, ?_⟩
    intro s' hs
    cases hs
    exact ⟨h, rfl⟩
  | cons l r ih =>
    intro s h hc hn
    have hl := bin_write_latch_eq s l h (hn l (by simp)) hc
    have hok := opsLatchBin_ok l s.code (hn l (by simp)) hc
    have hpost := runSeqB_post _ hok.1 s h
    simp only [bopsLatches, runSeqC_app, runSeqC_ops]
    show (Gen.AigerBinWrite.writeLatch l >>= fun _ => forSeq Gen.AigerBinWrite.writeLatch r) s = _ ∧ _
    rw [RM.bind_apply, hl]
    rcases hr : runSeqB (opsLatchBin l s.code) s with ⟨_ | u, s1⟩
    · refine ⟨rfl, ?_⟩
      intro s' hs; cases hs
    · rw [hr] at hpost
      simp only [runSeqC]
      have hb : bump s.code < 2 ^ 64 := Nat.mod_lt _ (by decide)
      have := ih { s1 with code := bump s.code } hpost.1 hb (fun x hx => hn x (by simp [hx]))
      exact ⟨this.1, fun s' hs => by
        have := this.2 s' hs
        exact ⟨this.1, by rw [this.2]; rfl⟩⟩

/-- gates -/
theorem gates_run (gs : List Aiger.OGate) : ∀ s, Inv s → s.code < 2 ^ 64 →
    (∀ g ∈ gs, g.in0 < 2 ^ 64 ∧ g.in1 < 2 ^ 64) →
    forSeq Gen.AigerBinWrite.writeAndGate gs s = runSeqC (bopsGates gs s.code) s ∧
    ∀ s', runSeqC (bopsGates gs s.code) s = (some (), s') → Inv s' := by
  induction gs with
  | nil =>
    intro s h _ _
    refine ⟨rfl, ?_⟩
    intro s' hs
    cases hs
    exact h
  | cons g r ih =>
    intro s h hc hn
    obtain ⟨b0, b1, e0, e1, hrun, _⟩ := bin_write_and_gate_eq s g h (hn g (by simp)).1 (hn g (by simp)).2 hc
    show (Gen.AigerBinWrite.writeAndGate g >>= fun _ => forSeq Gen.AigerBinWrite.writeAndGate r) s = _ ∧ _
    rw [RM.bind_apply, hrun]
    by_cases hlt : s.code < (gateCodes g).1
    · simp only [bopsGates, hlt, ↓reduceIte, runSeqC]
      exact ⟨trivial, fun s' hs => by cases hs⟩
    · simp only [bopsGates, hlt, ↓reduceIte, uintBytes, e0, e1, Option.getD_some, runSeqC_app, runSeqC_ops]
      have hv : ∀ op ∈ [Op.write b0, Op.write b1], op.Valid := by
        intro op hop
        simp only [List.mem_cons, List.not_mem_nil, or_false] at hop
        rcases hop with rfl | rfl <;> trivial
      have hpost := runSeqB_post _ hv s h
      rcases hr : runSeqB [Op.write b0, Op.write b1] s with ⟨_ | u, s1⟩
      · exact ⟨rfl, fun s' hs => by cases hs⟩
      · rw [hr] at hpost
        simp only [runSeqC]
        have hb : bump s.code < 2 ^ 64 := Nat.mod_lt _ (by decide)
        have := ih { s1 with code := bump s.code } hpost.1 hb (fun x hx => hn x (by simp [hx]))
        exact this

theorem header_run (h : Aiger.Header) (hf : HeaderFits h) (s : BinWriter) (hi : Inv s) :
    Gen.AigerBinWrite.writeHeader h s = runSeqC (.setCode (headerCode h) :: (opsHeader true h).map .op) s ∧
    ∀ s', runSeqC (.setCode (headerCode h) :: (opsHeader true h).map .op) s = (some (), s') →
      Inv s' ∧ s'.code = headerCode h := by
  simp only [runSeqC, runSeqC_ops]
  refine ⟨bin_write_header_eq s h hi hf, ?_⟩
  intro s' hs
  have hpost := runSeqB_post _ (opsHeader_ok true h hf).1 { s with code := headerCode h } hi
  rw [hs] at hpost
  exact hpost

theorem ops_run (ops : List Op) (hg : Good ops) (s : BinWriter) (hi : Inv s) :
    genSeqB ops s = runSeqC (ops.map .op) s ∧
    ∀ s', runSeqC (ops.map .op) s = (some (), s') → Inv s' ∧ s'.code = s.code := by
  rw [runSeqC_ops]
  refine ⟨genSeqB_eq ops hg.2 hg.1 s hi, ?_⟩
  intro s' hs
  have hpost := runSeqB_post _ hg.1 s hi
  rw [hs] at hpost
  exact hpost

theorem headerCode_lt (h : Aiger.Header) : headerCode h < 2 ^ 64 := Nat.mod_lt _ (by decide)

theorem bumps_lt (n : Nat) : ∀ c, c < 2 ^ 64 → bumps n c < 2 ^ 64 := by
  induction n with
  | zero => intro c h; exact h
  | succ n ih => intro c _; exact ih _ (Nat.mod_lt _ (by decide))

theorem bin_write_ordered_aig_eq (a : Aiger.OrderedAig) (hf : OrdFits a) (s : BinWriter) (hi : Inv s) :
    Gen.AigerBinWriteDoc.writeOrderedAig a s = runSeqC (bopsOrderedAigBin a) s := by
  rw [b_writeOrderedAig]
  have hH := header_run _ hf.header s hi
  refine seq_step _ _ _ _ s (fun s' => Inv s' ∧ s'.code = headerCode (Aiger.orderedHeader a)) hH.1 hH.2 ?_
  intro s1 ⟨hi1, hc1⟩
  have hL := latches_run a.latches s1 hi1 (by rw [hc1]; exact headerCode_lt _) hf.latches
  rw [hc1] at hL
  refine seq_step _ _ _ _ s1 (fun s' => Inv s' ∧ s'.code = bumps a.latches.length (headerCode (Aiger.orderedHeader a)))
    hL.1 hL.2 ?_
  intro s2 ⟨hi2, hc2⟩
  have hM := ops_run _ (good_mid _ _ _ _ _ hf.outputs hf.bad hf.constraints hf.justice hf.fairness) s2 hi2
  rw [hc2] at hM
  refine seq_step _ _ _ _ s2 (fun s' => Inv s' ∧ s'.code = bumps a.latches.length (headerCode (Aiger.orderedHeader a)))
    hM.1 hM.2 ?_
  intro s3 ⟨hi3, hc3⟩
  have hG := gates_run a.gates s3 hi3 (by rw [hc3]; exact bumps_lt _ _ (headerCode_lt _)) hf.gates
  rw [hc3] at hG
  refine seq_step _ _ _ _ s3 Inv hG.1 hG.2 ?_
  intro s4 hi4
  exact (ops_run _ (good_tail _ _ hf.symbols) s4 hi4).1


/-! ### binary `write_ordered_aig`: the event history and the hand model `Aiger.binWriteOrderedAig` -/

/-- Outcome of a model action started with `o` already emitted and the counter at `c`. -/
def runW (m : Aiger.WM Unit) (o : List UInt8) (c : Nat) : Option (List UInt8 × Nat) :=
  match m.run { out := o, code := c } with
  | .ok (_, b) => some (b.out, b.code)
  | .error _ => none

theorem runW_bind (m k : Aiger.WM Unit) (o : List UInt8) (c : Nat) :
    runW (m >>= fun _ => k) o c = match runW m o c with
      | none => none
      | some p => runW k p.1 p.2 := by
  simp only [runW, StateT.run, bind, StateT.bind, Except.bind]
  rcases h : m { out := o, code := c } with e | ⟨u, b⟩
  · rfl
  · rfl

theorem runW_emit (bs o : List UInt8) (c : Nat) : runW (Aiger.emit bs) o c = some (o ++ bs, c) := by
  simp [runW, Aiger.emit, StateT.run, modify, modifyGet, MonadStateOf.modifyGet, StateT.modifyGet, pure, Except.pure]

theorem runW_header (h : Aiger.Header) (o : List UInt8) (c : Nat) :
    runW (Aiger.binWriteHeader h) o c = some (o ++ Aiger.writeHeader true h, headerCode h) := by
  simp [runW, Aiger.binWriteHeader, Aiger.emit, headerCode, StateT.run, bind, StateT.bind, modify, modifyGet,
    MonadStateOf.modifyGet, StateT.modifyGet, pure, Except.pure, Except.bind]

theorem runW_latch (l : Aiger.OLatch) (o : List UInt8) (c : Nat) :
    runW (Aiger.binWriteLatch l) o c = some (o ++ (Aiger.natText l.next ++ Aiger.writeInit l.init c), bump c) := by
  simp [runW, bump, Aiger.binWriteLatch, Aiger.emit, Aiger.bumpCode, StateT.run, bind, StateT.bind, modify, modifyGet,
    MonadStateOf.modifyGet, StateT.modifyGet, get, getThe, MonadStateOf.get, StateT.get, pure, Except.pure, Except.bind]

theorem runW_gate (g : Aiger.OGate) (o : List UInt8) (c : Nat) (b0 b1 : List UInt8)
    (hb0 : Aiger.writeBinaryUint (c - (gateCodes g).1) = some b0)
    (hb1 : Aiger.writeBinaryUint ((gateCodes g).1 - (gateCodes g).2) = some b1) :
    runW (Aiger.binWriteAndGate g) o c =
      (if c < (gateCodes g).1 then none else some (o ++ (b0 ++ b1), bump c)) := by
  unfold gateCodes at hb0 hb1 ⊢
  unfold Aiger.binWriteAndGate Aiger.binWriteUint
  by_cases hlt : g.in0 < g.in1
  · simp only [hlt, ↓reduceIte] at hb0 hb1 ⊢
    by_cases hc' : c < g.in1
    · simp [runW, hc', StateT.run, bind, StateT.bind, get, getThe, MonadStateOf.get, StateT.get, pure, Except.pure,
        Except.bind, throw, throwThe, MonadExceptOf.throw, StateT.lift]
    · simp [runW, bump, hc', hb0, hb1, Aiger.emit, Aiger.bumpCode, StateT.run, bind, StateT.bind, get, getThe, MonadStateOf.get, StateT.get, pure, Except.pure,
        Except.bind, modify, modifyGet, MonadStateOf.modifyGet, StateT.modifyGet]
  · simp only [hlt, ↓reduceIte] at hb0 hb1 ⊢
    by_cases hc' : c < g.in0
    · simp [runW, hc', StateT.run, bind, StateT.bind, get, getThe, MonadStateOf.get, StateT.get, pure, Except.pure,
        Except.bind, throw, throwThe, MonadExceptOf.throw, StateT.lift]
    · simp [runW, bump, hc', hb0, hb1, Aiger.emit, Aiger.bumpCode, StateT.run, bind, StateT.bind, get, getThe, MonadStateOf.get, StateT.get, pure, Except.pure,
        Except.bind, modify, modifyGet, MonadStateOf.modifyGet, StateT.modifyGet]

/-- What an event history means for the hand model's `WM` monad, started with `o` emitted and the counter at `c`:
`none` once the panic event is reached, else the bytes of the ops (`piece`) appended and the last counter. -/
def bopsOut : List BOp → List UInt8 → Nat → Option (List UInt8 × Nat)
  | [], o, c => some (o, c)
  | .op x :: r, o, c => bopsOut r (o ++ piece x) c
  | .setCode c' :: r, o, _ => bopsOut r o c'
  | .panic :: _, _, _ => none

theorem bopsOut_app (a b : List BOp) : ∀ o c, bopsOut (a ++ b) o c =
    match bopsOut a o c with
    | none => none
    | some p => bopsOut b p.1 p.2 := by
  induction a with
  | nil => intro o c; rfl
  | cons x r ih =>
    intro o c
    cases x with
    | op x => simp only [List.cons_append, bopsOut]; exact ih _ _
    | setCode c' => simp only [List.cons_append, bopsOut]; exact ih _ _
    | panic => rfl

theorem bopsOut_ops (ops : List Op) : ∀ o c, bopsOut (ops.map .op) o c = some (o ++ pieces ops, c) := by
  induction ops with
  | nil => intro o c; simp [bopsOut, pieces]
  | cons x r ih =>
    intro o c
    simp only [List.map_cons, bopsOut, ih]
    simp [pieces]

theorem pieces_latchBin (l : Aiger.OLatch) (c : Nat) :
    pieces (opsLatchBin l c) = Aiger.natText l.next ++ Aiger.writeInit l.init c :=
  pieces_of_written (opsLatchBin_wd l c) (latch_bin_bytes l c)

theorem latches_out (ls : List Aiger.OLatch) : ∀ o c,
    runW (ls.forM Aiger.binWriteLatch) o c = bopsOut (bopsLatches ls c) o c ∧
    ∃ bs, bopsOut (bopsLatches ls c) o c = some (o ++ bs, bumps ls.length c) := by
  induction ls with
  | nil => intro o c; exact ⟨rfl, [], by simp [bopsLatches, bopsOut, bumps]⟩
  | cons l r ih =>
    intro o c
    obtain ⟨h1, bs, h2⟩ := ih (o ++ (Aiger.natText l.next ++ Aiger.writeInit l.init c)) (bump c)
    have e : (l :: r).forM Aiger.binWriteLatch = (Aiger.binWriteLatch l >>= fun _ => r.forM Aiger.binWriteLatch) := rfl
    rw [e]
    simp only [runW_bind, runW_latch, bopsLatches, bopsOut_app, bopsOut_ops, pieces_latchBin, bopsOut,
      List.length_cons, bumps]
    refine ⟨h1, (Aiger.natText l.next ++ Aiger.writeInit l.init c) ++ bs, ?_⟩
    rw [h2]; simp

theorem gates_out (gs : List Aiger.OGate) : ∀ o c, c < 2 ^ 64 → (∀ g ∈ gs, g.in0 < 2 ^ 64 ∧ g.in1 < 2 ^ 64) →
    runW (gs.forM Aiger.binWriteAndGate) o c = bopsOut (bopsGates gs c) o c := by
  induction gs with
  | nil => intro o c _ _; rfl
  | cons g r ih =>
    intro o c hc hn
    obtain ⟨hg1, hg2⟩ := gateCodes_lt g (hn g (by simp)).1 (hn g (by simp)).2
    obtain ⟨b0, hb0, _, _⟩ := uint_no_panic (c - (gateCodes g).1) (by omega)
    obtain ⟨b1, hb1, _, _⟩ := uint_no_panic ((gateCodes g).1 - (gateCodes g).2) (by omega)
    have e : (g :: r).forM Aiger.binWriteAndGate = (Aiger.binWriteAndGate g >>= fun _ => r.forM Aiger.binWriteAndGate) := rfl
    rw [e]
    simp only [runW_bind, runW_gate g o c b0 b1 hb0 hb1, bopsGates]
    by_cases hlt : c < (gateCodes g).1
    · simp only [hlt, ↓reduceIte, bopsOut]
    · simp only [hlt, ↓reduceIte, bopsOut_app, bopsOut_ops, bopsOut, uintBytes, hb0, hb1, Option.getD_some]
      have := ih (o ++ (b0 ++ b1)) (bump c) (Nat.mod_lt _ (by decide)) (fun x hx => hn x (by simp [hx]))
      rw [this]
      simp [pieces, piece]

theorem ordered_out (a : Aiger.OrderedAig) (hf : OrdFits a) (o : List UInt8) (c : Nat) :
    runW (Aiger.binWriteOrderedAig a) o c = bopsOut (bopsOrderedAigBin a) o c := by
  unfold Aiger.binWriteOrderedAig bopsOrderedAigBin
  obtain ⟨hL, bs, hLs⟩ := latches_out a.latches (o ++ Aiger.writeHeader true (Aiger.orderedHeader a))
    (headerCode (Aiger.orderedHeader a))
  have hG := gates_out a.gates (o ++ Aiger.writeHeader true (Aiger.orderedHeader a) ++ bs ++
      Aiger.writeMid a.outputs a.bad a.constraints a.justice a.fairness)
    (bumps a.latches.length (headerCode (Aiger.orderedHeader a)))
    (bumps_lt _ _ (headerCode_lt _)) hf.gates
  simp only [runW_bind, runW_header, runW_emit, List.cons_append, bopsOut, bopsOut_app, bopsOut_ops, pieces_header,
    pieces_mid, pieces_tail, hL, hLs, hG]

theorem wmOut_runW (m : Aiger.WM Unit) (c : Nat) : wmOut m c = runW m [] c := rfl

theorem ordered_file (a : Aiger.OrderedAig) (hf : OrdFits a) :
    (Aiger.writeOrderedAigBinary a).toOption = (bopsOut (bopsOrderedAigBin a) [] 0).map (·.1) := by
  rw [← ordered_out a hf]
  unfold Aiger.writeOrderedAigBinary runW
  rcases (Aiger.binWriteOrderedAig a).run { out := [], code := 0 } with e | ⟨u, b⟩ <;> rfl


/-! ### binary `write_ordered_aig`: histories without the panic event (towards the good-sink corollary) -/

theorem bopsOps_app (a b : List BOp) : bopsOps (a ++ b) = bopsOps a ++ bopsOps b := by
  induction a with
  | nil => rfl
  | cons x r ih => cases x <;> simp [bopsOps, ih]

theorem bopsOps_ops (ops : List Op) : bopsOps (ops.map .op) = ops := by
  induction ops with
  | nil => rfl
  | cons x r ih => simp [bopsOps, ih]

/-- A history the model reads without `throw` has no panic event; its bytes are those of its ops. -/
theorem bopsOut_some (l : List BOp) : ∀ o c p, bopsOut l o c = some p →
    BOp.panic ∉ l ∧ p.1 = o ++ pieces (bopsOps l) := by
  induction l with
  | nil => intro o c p h; cases h; simp [bopsOps, pieces]
  | cons x r ih =>
    intro o c p h
    cases x with
    | op x =>
      obtain ⟨h1, h2⟩ := ih _ _ _ h
      refine ⟨by simp [h1], ?_⟩
      rw [h2]; simp [bopsOps, pieces]
    | setCode c' =>
      obtain ⟨h1, h2⟩ := ih _ _ _ h
      exact ⟨by simp [h1], by rw [h2]; rfl⟩
    | panic => cases h

/-- Without the panic event, a run of the history is the run of its ops on the writer; a normal return ends with
the counter the model ends with. -/
theorem runSeqC_noPanic (l : List BOp) : ∀ s, BOp.panic ∉ l →
    (runSeqC l s).1 = (runSeq (bopsOps l) s.writer).1 ∧ (runSeqC l s).2.writer = (runSeq (bopsOps l) s.writer).2 ∧
    ∀ o p, (runSeqC l s).1 = some () → bopsOut l o s.code = some p → (runSeqC l s).2.code = p.2 := by
  induction l with
  | nil => intro s _; exact ⟨rfl, rfl, fun o p _ h => by cases h; rfl⟩
  | cons x r ih =>
    intro s hnp
    have hr : BOp.panic ∉ r := fun h => hnp (by simp [h])
    cases x with
    | op x =>
      simp only [runSeqC, bopsOps, runSeq, bopsOut]
      rcases x.run s.writer with ⟨_ | u, w'⟩
      · exact ⟨rfl, rfl, fun o p h _ => by cases h⟩
      · have := ih { s with writer := w' } hr
        exact ⟨this.1, this.2.1, fun o p h1 h2 => this.2.2 (o ++ piece x) p h1 h2⟩
    | setCode c' =>
      simp only [runSeqC, bopsOps, bopsOut]
      exact ih { s with code := c' } hr
    | panic => exact absurd (by simp) hnp

theorem good_bopsLatches (ls : List Aiger.OLatch) : ∀ c, c < 2 ^ 64 → (∀ l ∈ ls, l.next < 2 ^ 64) →
    Good (bopsOps (bopsLatches ls c)) := by
  induction ls with
  | nil => intro _ _ _; exact good_nil
  | cons l r ih =>
    intro c hc hn
    simp only [bopsLatches, bopsOps_app, bopsOps_ops, bopsOps]
    exact good_append (opsLatchBin_ok l c (hn l (by simp)) hc)
      (ih (bump c) (Nat.mod_lt _ (by decide)) fun x hx => hn x (by simp [hx]))

theorem good_bopsGates (gs : List Aiger.OGate) : ∀ c, Good (bopsOps (bopsGates gs c)) := by
  induction gs with
  | nil => intro _; exact good_nil
  | cons g r ih =>
    intro c
    simp only [bopsGates]
    split
    · exact good_nil
    · simp only [bopsOps_app, bopsOps_ops, bopsOps]
      refine good_append ⟨?_, ?_⟩ (ih _) <;>
      · intro op hop
        simp only [List.mem_cons, List.not_mem_nil, or_false] at hop
        rcases hop with rfl | rfl <;> trivial

theorem good_bopsOrdered (a : Aiger.OrderedAig) (hf : OrdFits a) : Good (bopsOps (bopsOrderedAigBin a)) := by
  simp only [bopsOrderedAigBin, bopsOps_app, bopsOps_ops, bopsOps, List.cons_append]
  exact good_append (opsHeader_ok true _ hf.header) (good_append (good_bopsLatches _ _ (headerCode_lt _) hf.latches)
    (good_append (good_mid _ _ _ _ _ hf.outputs hf.bad hf.constraints hf.justice hf.fairness)
      (good_append (good_bopsGates _ _) (good_tail _ _ hf.symbols))))


end TieAigerWriteDocAux
end Flussab
