/-
Facts about rendered layout pieces (`Spec/Layout.lean`): which byte class each piece starts with,
numerals read back to their value, and the junk-skipping loops of the tokenizer absorb rendered
junk (fuel suffices).
-/
import Flussab.Spec.Layout
import Flussab.Proof.CnfTokens
import Flussab.Proof.Decimal

namespace Flussab.CnfP
open Flussab Flussab.PM Flussab.Cnf Flussab.Spec
set_option linter.unusedSimpArgs false
set_option linter.unusedVariables false

/-! ### what a text starts with -/

/-- Starts with a digit or `'-'` (a numeral). -/
def StartsNum (r : VBytes) : Prop := ∃ b t, r = b :: t ∧ (isDigit b = true ∨ b = 45)
/-- Is empty or starts with LF / CR. -/
def StartsEol (r : VBytes) : Prop := r = [] ∨ ∃ b t, r = b :: t ∧ (b = 10 ∨ b = 13)
/-- Is empty or starts a junk line (`'c'`, LF, CR). -/
def StartsLine (r : VBytes) : Prop := r = [] ∨ ∃ b t, r = b :: t ∧ (b = 99 ∨ b = 10 ∨ b = 13)
/-- Start of the core of a clause: a numeral, for GCNF `'{'`. -/
def StartsCore (fmt : Format) (r : VBytes) : Prop :=
  match fmt with
  | .gcnf => ∃ t, r = 123 :: t
  | _ => StartsNum r

theorem isDigit_cases {b : UInt8} (h : isDigit b = true) :
    b ≠ 99 ∧ b ≠ 10 ∧ b ≠ 13 ∧ b ≠ 112 ∧ b ≠ 45 ∧ b ≠ 123 ∧ isBlank b = false := by
  simp only [isDigit, Bool.and_eq_true, decide_eq_true_eq] at h
  have h1 : 48 ≤ b.toNat := UInt8.le_iff_toNat_le.mp h.1
  have h2 : b.toNat ≤ 57 := UInt8.le_iff_toNat_le.mp h.2
  refine ⟨?_, ?_, ?_, ?_, ?_, ?_, ?_⟩
  all_goals first
    | (intro hb; subst hb; revert h1 h2; decide)
    | (simp only [isBlank, Bool.or_eq_false_iff, beq_eq_false_iff_ne]
       constructor <;> (intro hb; subst hb; revert h1 h2; decide))

theorem StartsNum.nb {r} (h : StartsNum r) : NB r := by
  obtain ⟨b, t, rfl, hb⟩ := h
  intro x hx; simp only [List.head?_cons, Option.some.injEq] at hx; subst hx
  rcases hb with hb | hb
  · exact (isDigit_cases hb).2.2.2.2.2.2
  · subst hb; rfl

theorem StartsNum.ne {r} (h : StartsNum r) :
    r.head? ≠ some 99 ∧ r.head? ≠ some 10 ∧ r.head? ≠ some 13 ∧ r.head? ≠ some 112 := by
  obtain ⟨b, t, rfl, hb⟩ := h
  simp only [List.head?_cons, ne_eq, Option.some.injEq]
  rcases hb with hb | hb
  · obtain ⟨a1, a2, a3, a4, _⟩ := isDigit_cases hb; exact ⟨a1, a2, a3, a4⟩
  · subst hb; decide

theorem StartsCore.nb {fmt r} (h : StartsCore fmt r) : NB r := by
  cases fmt
  · exact StartsNum.nb h
  · exact StartsNum.nb h
  · obtain ⟨t, rfl⟩ := h
    intro x hx; simp only [List.head?_cons, Option.some.injEq] at hx; subst hx; rfl

theorem StartsCore.ne {fmt r} (h : StartsCore fmt r) :
    r.head? ≠ some 99 ∧ r.head? ≠ some 10 ∧ r.head? ≠ some 13 ∧ r.head? ≠ some 112 := by
  cases fmt
  · exact StartsNum.ne h
  · exact StartsNum.ne h
  · obtain ⟨t, rfl⟩ := h
    simp only [List.head?_cons, ne_eq, Option.some.injEq]; decide

theorem StartsEol.line {r} (h : StartsEol r) : StartsLine r := by
  rcases h with h | ⟨b, t, h, hb⟩
  · exact Or.inl h
  · exact Or.inr ⟨b, t, h, Or.inr hb⟩

theorem StartsEol.we {r} (h : StartsEol r) : WE r := by
  rcases h with h | ⟨b, t, h, hb⟩
  · subst h; rfl
  · subst h; rcases hb with hb | hb <;> subst hb <;> rfl

theorem StartsLine.nb {r} (h : StartsLine r) : NB r := by
  rcases h with h | ⟨b, t, h, hb⟩
  · subst h; exact NB.nil
  · subst h
    intro x hx; simp only [List.head?_cons, Option.some.injEq] at hx; subst hx
    rcases hb with hb | hb | hb <;> subst hb <;> rfl

theorem StartsLine.nd {r} (h : StartsLine r) : ND r := by
  rcases h with h | ⟨b, t, h, hb⟩
  · subst h; intro _ hx; simp at hx
  · subst h
    intro x hx; simp only [List.head?_cons, Option.some.injEq] at hx; subst hx
    rcases hb with hb | hb | hb <;> subst hb <;> rfl

theorem StartsLine.ne {r} (h : StartsLine r) :
    r.head? ≠ some 45 ∧ r.head? ≠ some 123 ∧ r.head? ≠ some 112 := by
  rcases h with h | ⟨b, t, h, hb⟩
  · subst h; simp
  · subst h
    simp only [List.head?_cons, ne_eq, Option.some.injEq]
    rcases hb with hb | hb | hb <;> subst hb <;> decide

theorem StartsEol.ne99 {r} (h : StartsEol r) : r.head? ≠ some 99 := by
  rcases h with h | ⟨b, t, h, hb⟩
  · subst h; simp
  · subst h
    simp only [List.head?_cons, ne_eq, Option.some.injEq]
    rcases hb with hb | hb <;> subst hb <;> decide

/-! ### blanks and line ends -/

theorem blankCh_isBlank (c : BlankCh) : isBlank c.byte = true := by cases c <;> rfl

theorem allBlank_render (b : Blanks) : AllBlank (renderBlanks b) := by
  intro x hx
  simp only [renderBlanks, List.mem_map] at hx
  obtain ⟨c, _, rfl⟩ := hx
  exact blankCh_isBlank c

theorem allBlank_render1 (b : Blank1) : AllBlank b.render := by
  intro x hx
  simp only [Blank1.render, List.mem_cons] at hx
  rcases hx with hx | hx
  · subst hx; exact blankCh_isBlank _
  · exact allBlank_render _ x hx

theorem render1_ne_nil (b : Blank1) : b.render ≠ [] := by simp [Blank1.render]

theorem isEol_render (e : Eol) : IsEol e.render := by
  cases e
  · exact Or.inl rfl
  · exact Or.inr rfl

theorem startsEol_eol (e : Eol) (r : VBytes) : StartsEol (e.render ++ r) := by
  cases e
  · exact Or.inr ⟨10, r, rfl, Or.inl rfl⟩
  · exact Or.inr ⟨13, 10 :: r, rfl, Or.inr rfl⟩

/-- Blanks in front of a word end are a word end. -/
theorem we_blanks (b : Blanks) {r : VBytes} (h : WE r) : WE (renderBlanks b ++ r) := by
  cases hb : renderBlanks b with
  | nil => simpa using h
  | cons x t =>
    rw [← hb]
    exact WE.of_blank (allBlank_render b) (by rw [hb]; simp)

theorem we_blank1 (b : Blank1) (r : VBytes) : WE (b.render ++ r) :=
  WE.of_blank (allBlank_render1 b) (render1_ne_nil b)

/-! ### junk -/

theorem startsLine_junkLine (l : JunkLine) (r : VBytes) : StartsLine (l.render ++ r) := by
  cases l with
  | comment body => exact Or.inr ⟨99, body ++ [10] ++ r, by simp [JunkLine.render], Or.inl rfl⟩
  | blank e =>
    have := (startsEol_eol e r).line
    exact this

theorem startsLine_junk (j : Junk) {r : VBytes} (h : StartsLine r) : StartsLine (renderJunk j ++ r) := by
  cases j with
  | nil => exact h
  | cons x j =>
    obtain ⟨l, b⟩ := x
    simp only [renderJunk, List.append_assoc]
    exact startsLine_junkLine l _

theorem nb_junk (j : Junk) {r : VBytes} (h : NB r) : NB (renderJunk j ++ r) := by
  cases j with
  | nil => exact h
  | cons x j =>
    obtain ⟨l, b⟩ := x
    simp only [renderJunk, List.append_assoc]
    exact (startsLine_junkLine l _).nb

theorem junk_valid_cons {l : JunkLine} {b : Blanks} {j : Junk} (h : Junk.valid ((l, b) :: j) = true) :
    l.valid = true ∧ Junk.valid j = true := by
  simpa [Junk.valid] using h

/-- One junk line (with the blanks after it) is consumed by `comment`, or `comment` falls through
and `newline` consumes it. -/
theorem junkLine_step {N} (l : JunkLine) (b : Blanks) (r : VBytes) (hv : l.valid = true) (hnb : NB r) :
    Steps N comment (some ()) (l.render ++ (renderBlanks b ++ r)) r ∨
    (Steps N comment none (l.render ++ (renderBlanks b ++ r)) (l.render ++ (renderBlanks b ++ r)) ∧
      Steps N newline (some ()) (l.render ++ (renderBlanks b ++ r)) r) := by
  cases l with
  | comment body =>
    left
    have := comment_ok (N := N) body (renderBlanks b) r hv (allBlank_render b) hnb
    refine this.cast ?_ rfl
    simp [JunkLine.render]
  | blank e =>
    right
    exact ⟨comment_fall _ (startsEol_eol e _).ne99,
      newline_ok e.render (renderBlanks b) r (isEol_render e) (allBlank_render b) hnb⟩

theorem junkLine_len_pos (l : JunkLine) : 0 < l.render.length := by
  cases l with
  | comment body => simp [JunkLine.render]
  | blank e => cases e <;> simp [JunkLine.render, Eol.render]

/-- The header's skipping loop absorbs junk and stops in front of `r`. -/
theorem headerSkipLoop_ok {N} (j : Junk) (r : VBytes) (hv : j.valid = true) (hnb : NB r)
    (h99 : r.head? ≠ some 99) (h10 : r.head? ≠ some 10) (h13 : r.head? ≠ some 13) :
    ∀ f, (renderJunk j).length + 1 ≤ f → Steps N (headerSkipLoop f) () (renderJunk j ++ r) r := by
  induction j with
  | nil =>
    intro f hf
    obtain ⟨f', rfl⟩ : ∃ f', f = f' + 1 := ⟨f - 1, by omega⟩
    rw [headerSkipLoop]
    simp only [renderJunk, List.nil_append]
    refine Steps.bind (Steps.matches (comment_fall r h99)) ?_
    simp only [Option.isSome_none, Bool.false_eq_true, ↓reduceIte]
    refine Steps.bind (Steps.matches (newline_fall r h10 h13)) ?_
    simp only [Option.isSome_none, Bool.false_eq_true, ↓reduceIte]
    exact Steps.pure _ _
  | cons x j ih =>
    obtain ⟨l, b⟩ := x
    obtain ⟨hl, hj⟩ := junk_valid_cons hv
    intro f hf
    have hpos := junkLine_len_pos l
    simp only [renderJunk, List.length_append] at hf
    obtain ⟨f', rfl⟩ : ∃ f', f = f' + 1 := ⟨f - 1, by omega⟩
    have ih' := ih hj f' (by omega)
    rw [headerSkipLoop]
    simp only [renderJunk, List.append_assoc]
    rcases junkLine_step (N := N) l b (renderJunk j ++ r) hl (nb_junk j hnb) with h | ⟨h1, h2⟩
    · refine Steps.bind (Steps.matches h) ?_
      simp only [Option.isSome_some, ↓reduceIte]
      exact ih'
    · refine Steps.bind (Steps.matches h1) ?_
      simp only [Option.isSome_none, Bool.false_eq_true, ↓reduceIte]
      refine Steps.bind (Steps.matches h2) ?_
      simp only [Option.isSome_some, ↓reduceIte]
      exact ih'

/-- The skipping loop of `non_terminating_linebreaks`. -/
theorem skipLinesLoop_ok {N} (j : Junk) (r : VBytes) (hv : j.valid = true) (hnb : NB r)
    (h99 : r.head? ≠ some 99) (h10 : r.head? ≠ some 10) (h13 : r.head? ≠ some 13) :
    ∀ f, (renderJunk j).length + 1 ≤ f → Steps N (skipLinesLoop f) () (renderJunk j ++ r) r := by
  induction j with
  | nil =>
    intro f hf
    obtain ⟨f', rfl⟩ : ∃ f', f = f' + 1 := ⟨f - 1, by omega⟩
    rw [skipLinesLoop]
    simp only [renderJunk, List.nil_append]
    refine Steps.bind (Steps.matches
      (Steps.orParse_right (comment_fall r h99) (newline_fall r h10 h13))) ?_
    simp only [Option.isSome_none, Bool.false_eq_true, ↓reduceIte]
    exact Steps.pure _ _
  | cons x j ih =>
    obtain ⟨l, b⟩ := x
    obtain ⟨hl, hj⟩ := junk_valid_cons hv
    intro f hf
    have hpos := junkLine_len_pos l
    simp only [renderJunk, List.length_append] at hf
    obtain ⟨f', rfl⟩ : ∃ f', f = f' + 1 := ⟨f - 1, by omega⟩
    have ih' := ih hj f' (by omega)
    rw [skipLinesLoop]
    simp only [renderJunk, List.append_assoc]
    have hstep : Steps N (orParse comment newline) (some ())
        (l.render ++ (renderBlanks b ++ (renderJunk j ++ r))) (renderJunk j ++ r) := by
      rcases junkLine_step (N := N) l b (renderJunk j ++ r) hl (nb_junk j hnb) with h | ⟨h1, h2⟩
      · exact Steps.orParse_left h
      · exact Steps.orParse_right h1 h2
    refine Steps.bind (Steps.matches hstep) ?_
    simp only [Option.isSome_some, ↓reduceIte]
    exact ih'

/-! ### separators -/

/-- The blanks of a separator that the preceding number token consumes. -/
def sepLead : Sep → VBytes
  | .blank b => b.render
  | .brk pre _ _ _ => renderBlanks pre

/-- The rest of the separator: nothing, or the line break with its junk. -/
def sepTail : Sep → VBytes
  | .blank _ => []
  | .brk _ e post junk => e.render ++ (renderBlanks post ++ renderJunk junk)

theorem sep_render (s : Sep) : s.render = sepLead s ++ sepTail s := by
  cases s <;> simp [Sep.render, sepLead, sepTail]

theorem allBlank_sepLead (s : Sep) : AllBlank (sepLead s) := by
  cases s
  · exact allBlank_render1 _
  · exact allBlank_render _

theorem nb_sepTail (s : Sep) {r : VBytes} (h : NB r) : NB (sepTail s ++ r) := by
  cases s with
  | blank b => simpa [sepTail] using h
  | brk pre e post junk =>
    simp only [sepTail, List.append_assoc]
    exact (startsEol_eol e _).line.nb

theorem we_sep (s : Sep) (r : VBytes) : WE (sepLead s ++ (sepTail s ++ r)) := by
  cases s with
  | blank b => exact we_blank1 b _
  | brk pre e post junk =>
    simp only [sepLead, sepTail, List.append_assoc]
    exact we_blanks pre (startsEol_eol e _).we

/-- `non_terminating_linebreaks` in front of a numeral: no line break. -/
theorem ntl_none {N} (r : VBytes) (h10 : r.head? ≠ some 10) (h13 : r.head? ≠ some 13) :
    Steps N nonTerminatingLinebreaks false r r := by
  unfold nonTerminatingLinebreaks
  refine Steps.bind (Steps.matches (newline_fall r h10 h13)) ?_
  simp only [Option.isSome_none, Bool.false_eq_true, ↓reduceIte]
  exact Steps.pure _ _

/-- `non_terminating_linebreaks` absorbs `Eol ++ blanks ++ junk`. -/
theorem ntl_brk {N} (e : Eol) (post : Blanks) (j : Junk) (r : VBytes) (hv : j.valid = true)
    (hnb : NB r) (h99 : r.head? ≠ some 99) (h10 : r.head? ≠ some 10) (h13 : r.head? ≠ some 13) :
    Steps N nonTerminatingLinebreaks true
      (e.render ++ (renderBlanks post ++ (renderJunk j ++ r))) r := by
  unfold nonTerminatingLinebreaks
  refine Steps.bind (Steps.matches (newline_ok e.render (renderBlanks post) (renderJunk j ++ r)
    (isEol_render e) (allBlank_render post) (nb_junk j hnb))) ?_
  simp only [Option.isSome_some, ↓reduceIte]
  refine Steps.get_bind ?_
  intro lr hlr
  refine Steps.bind (skipLinesLoop_ok j r hv hnb h99 h10 h13 _ ?_) (Steps.pure _ _)
  rw [hlr]; simp

/-- What `non_terminating_linebreaks` does after a separator whose blanks are gone. -/
theorem ntl_sepTail {N} (s : Sep) (r : VBytes) (hv : s.valid = true) (hr : StartsNum r) :
    ∃ b, Steps N nonTerminatingLinebreaks b (sepTail s ++ r) r := by
  obtain ⟨h99, h10, h13, _⟩ := hr.ne
  cases s with
  | blank b => exact ⟨false, by simpa [sepTail] using ntl_none r h10 h13⟩
  | brk pre e post junk =>
    refine ⟨true, ?_⟩
    have := ntl_brk (N := N) e post junk r hv hr.nb h99 h10 h13
    simpa [sepTail] using this

/-! ### numerals -/

theorem allDigit_replicate (z : Nat) : AllDigit (List.replicate z 48) := by
  intro b hb
  rw [List.mem_replicate] at hb
  rw [hb.2]; rfl

theorem decVal_replicate (z : Nat) : Text.decVal (List.replicate z 48) = 0 := by
  induction z with
  | zero => rfl
  | succ z ih =>
    have : List.replicate (z + 1) (48 : UInt8) = List.replicate z 48 ++ [48] := by
      rw [List.replicate_succ']
    rw [this, Text.decVal_append, ih]; rfl

/-- A numeral consists of digits, is non-empty and reads back to its number. -/
theorem numeral_spec (z n : Nat) :
    AllDigit (numeral z n) ∧ numeral z n ≠ [] ∧ Text.decVal (numeral z n) = n := by
  obtain ⟨d1, d2, d3, _, _⟩ := Writer.digitsOf_spec n
  unfold numeral
  rw [Writer.natDigits_eq]
  refine ⟨?_, ?_, ?_⟩
  · intro b hb
    rw [List.mem_append] at hb
    rcases hb with hb | hb
    · exact allDigit_replicate z b hb
    · exact d2 b hb
  · intro h; rw [List.append_eq_nil_iff] at h; exact d3 h.2
  · rw [Text.decVal_append, decVal_replicate, d1]; simp

theorem startsNum_numeral (z n : Nat) (r : VBytes) : StartsNum (numeral z n ++ r) := by
  obtain ⟨h1, h2, _⟩ := numeral_spec z n
  cases h : numeral z n with
  | nil => exact absurd h h2
  | cons b t => exact ⟨b, t ++ r, rfl, Or.inl (h1 b (by rw [h]; simp))⟩

theorem startsNum_intNumeral (z : Nat) (x : Int) (r : VBytes) : StartsNum (intNumeral z x ++ r) := by
  unfold intNumeral
  split
  · exact ⟨45, _, rfl, Or.inr rfl⟩
  · exact startsNum_numeral _ _ _

theorem startsNum_terminator (neg : Bool) (z : Nat) (r : VBytes) : StartsNum (terminator neg z ++ r) := by
  unfold terminator
  split
  · exact ⟨45, _, rfl, Or.inr rfl⟩
  · exact startsNum_numeral _ _ _

theorem isizeTy_fits (x : Int) (h1 : -(2 ^ 63 : Int) ≤ x) (h2 : x < 2 ^ 63) : isizeTy.fits x = true := by
  rw [IntTy.fits_iff]
  simp only [isizeTy, IntTy.minVal, IntTy.maxVal, ↓reduceIte]
  have : ((2 ^ (64 - 1) : Nat) : Int) = 2 ^ 63 := by simp
  omega

/-- `int::<isize>` reads a signed numeral (leading zeros allowed, `-0…0` is zero). -/
theorem int_intNumeral {N} (z : Nat) (x : Int) (bl rest : VBytes) (h1 : -(2 ^ 63 : Int) < x)
    (h2 : x < 2 ^ 63) (hbl : AllBlank bl) (hnb : NB rest) (hwe : WE (bl ++ rest)) :
    Steps N (int isizeTy) (some (some x)) (intNumeral z x ++ (bl ++ rest)) rest := by
  obtain ⟨d1, d2, d3⟩ := numeral_spec z x.natAbs
  unfold intNumeral
  split
  · rename_i hneg
    have hx : x = -((Text.decVal (numeral z x.natAbs) : Nat) : Int) := by rw [d3]; omega
    have := int_ok_neg (N := N) isizeTy (by decide) (numeral z x.natAbs) bl rest d1 d2
      (by rw [← hx]; exact isizeTy_fits x (by omega) h2) hbl hnb hwe
    rw [← hx] at this
    exact this
  · rename_i hneg
    have hx : x = ((Text.decVal (numeral z x.natAbs) : Nat) : Int) := by rw [d3]; omega
    have := int_ok_pos (N := N) isizeTy (by decide) (numeral z x.natAbs) bl rest d1 d2
      (by rw [← hx]; exact isizeTy_fits x (by omega) h2) hbl hnb hwe
    rw [← hx] at this
    exact this

theorem int_terminator {N} (neg : Bool) (z : Nat) (bl rest : VBytes) (hbl : AllBlank bl) (hnb : NB rest)
    (hwe : WE (bl ++ rest)) :
    Steps N (int isizeTy) (some (some 0)) (terminator neg z ++ (bl ++ rest)) rest := by
  obtain ⟨d1, d2, d3⟩ := numeral_spec z 0
  unfold terminator
  split
  · have := int_ok_neg (N := N) isizeTy (by decide) (numeral z 0) bl rest d1 d2
      (by rw [d3]; decide) hbl hnb hwe
    rw [d3] at this
    exact this
  · have := int_ok_pos (N := N) isizeTy (by decide) (numeral z 0) bl rest d1 d2
      (by rw [d3]; decide) hbl hnb hwe
    rw [d3] at this
    exact this

/-- `uint::<T>` reads a non-negative numeral. -/
theorem uint_intNumeral {N} (t : IntTy) (hb : 1 ≤ t.bits) (z : Nat) (x : Int) (bl rest : VBytes)
    (h0 : 0 ≤ x) (hfit : t.fits x = true) (hbl : AllBlank bl) (hnb : NB rest) (hwe : WE (bl ++ rest)) :
    Steps N (uint t) (some (some x)) (intNumeral z x ++ (bl ++ rest)) rest := by
  obtain ⟨d1, d2, d3⟩ := numeral_spec z x.natAbs
  have hx : x = ((Text.decVal (numeral z x.natAbs) : Nat) : Int) := by rw [d3]; omega
  unfold intNumeral
  have hneg : ¬ x < 0 := by omega
  simp only [hneg, ↓reduceIte]
  have := uint_ok (N := N) t hb (numeral z x.natAbs) bl rest d1 d2 (by rw [← hx]; exact hfit) hbl hnb hwe
  rw [← hx] at this
  exact this

theorem bracedUint_intNumeral {N} (t : IntTy) (hb : 1 ≤ t.bits) (z : Nat) (x : Int) (bl rest : VBytes)
    (h0 : 0 ≤ x) (hfit : t.fits x = true) (hbl : AllBlank bl) (hnb : NB rest) :
    Steps N (bracedUint t) (some (some x)) ([123] ++ intNumeral z x ++ [125] ++ (bl ++ rest)) rest := by
  obtain ⟨d1, d2, d3⟩ := numeral_spec z x.natAbs
  have hx : x = ((Text.decVal (numeral z x.natAbs) : Nat) : Int) := by rw [d3]; omega
  unfold intNumeral
  have hneg : ¬ x < 0 := by omega
  simp only [hneg, ↓reduceIte]
  have := bracedUint_ok (N := N) t hb (numeral z x.natAbs) bl rest d1 d2 (by rw [← hx]; exact hfit) hbl hnb
  rw [← hx] at this
  refine this.cast ?_ rfl
  simp

end Flussab.CnfP
