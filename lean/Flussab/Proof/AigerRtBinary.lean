/-
Round trip of whole binary AIGER files (property C03): what `binary::Writer::write_ordered_aig`
writes for a well-formed `OrderedAig` (it never panics on one), and `binary::Parser::parse` on it.
-/
import Flussab.Proof.AigerRtFile

namespace Flussab.AigerRT
open Flussab Flussab.CnfP
open Flussab.PM hiding run_bind
open Flussab.Aiger hiding run_bind run_pure run_throw run_rpanic run_get run_set run_modify run_scan
  run_reqAt run_reqByte run_setMark run_mark run_position run_ite run_bufPrefix run_advance
  run_utf8Unwrap
set_option linter.unusedSimpArgs false
set_option linter.unusedVariables false

/-! ### bytes that depend on the running `code` -/

section code
variable {α : Type}

/-- Items rendered with the next-literal counter, which advances by 2 (wrapping) per item. -/
def renderCode (f : Nat → α → VBytes) : Nat → List α → VBytes
  | _, [] => []
  | code, x :: xs => f code x ++ renderCode f ((code + 2) % 2 ^ 64) xs

/-- A property of every item together with the counter value it is processed at. -/
def GoodCode (good : Nat → α → Prop) : Nat → List α → Prop
  | _, [] => True
  | code, x :: xs => good code x ∧ GoodCode good ((code + 2) % 2 ^ 64) xs

theorem renderL_code (f : Nat → α → VBytes) (xs : List α) (s : St) :
    renderL (fun s x => f s.p.code x) (fun s _ => binStep s) s xs = renderCode f s.p.code xs := by
  induction xs generalizing s with
  | nil => rfl
  | cons x xs ih => simp only [renderL, renderCode, ih]; rfl

/-- The counter after a list of items. -/
def endCode : Nat → List α → Nat
  | code, [] => code
  | code, _ :: xs => endCode ((code + 2) % 2 ^ 64) xs

theorem endCode_eq (xs : List α) (c : Nat) (hc : c < 2 ^ 64) :
    endCode c xs = (c + 2 * xs.length) % 2 ^ 64 := by
  induction xs generalizing c with
  | nil => simp only [endCode, List.length_nil, Nat.mul_zero, Nat.add_zero]; omega
  | cons x xs ih =>
    simp only [endCode, List.length_cons]
    rw [ih _ (Nat.mod_lt _ (by decide))]
    omega

/-- What a run of binary items does to the section state. -/
structure BinAfter (s s' : St) (n : Nat) (code' : Nat) : Prop where
  left : s'.left = s.left - n
  total : s'.total = s.total
  header : s'.p.header = s.p.header
  maxLit : s'.p.maxLit = s.p.maxLit
  lit : s'.p.lit = s.p.lit
  bin : s'.p.bin = s.p.bin
  code : s'.p.code = code'

theorem foldl_binStep (xs : List α) (s : St) :
    BinAfter s (xs.foldl (fun s _ => binStep s) s) xs.length (endCode s.p.code xs) := by
  induction xs generalizing s with
  | nil => exact ⟨by simp, rfl, rfl, rfl, rfl, rfl, rfl⟩
  | cons x xs ih =>
    have := ih (binStep s)
    simp only [List.foldl_cons, List.length_cons, endCode]
    exact ⟨by rw [this.left]; unfold binStep; dsimp only; omega, this.total, this.header, this.maxLit,
      this.lit, this.bin, this.code⟩

theorem goodCode_of_index (good : Nat → α → Prop) (xs : List α) (c0 : Nat) (hc0 : c0 < 2 ^ 64)
    (h : ∀ k x, xs[k]? = some x → good ((c0 + 2 * k) % 2 ^ 64) x) : GoodCode good c0 xs := by
  induction xs generalizing c0 with
  | nil => trivial
  | cons x xs ih =>
    refine ⟨?_, ih _ (Nat.mod_lt _ (by decide)) ?_⟩
    · have := h 0 x rfl
      simpa [Nat.mod_eq_of_lt hc0] using this
    · intro k y hk
      have := h (k + 1) y (by simpa using hk)
      have e : ((c0 + 2) % 2 ^ 64 + 2 * k) % 2 ^ 64 = (c0 + 2 * (k + 1)) % 2 ^ 64 := by omega
      rw [e]; exact this

end code

/-! ### from counter-indexed facts to the loop hypotheses -/

theorem pok_binStep (s : St) (h : POk s.p) : POk (binStep s).p := ⟨h.fits, h.small, h.one⟩

theorem goodL_latches (ls : List OLatch) (s : St) (hp : POk s.p)
    (h : GoodCode (fun code l => l.next ≤ s.p.maxLit ∧ (l.init = none → 2 ≤ code ∧ code ≤ s.p.maxLit))
      s.p.code ls) : GoodL OLatchGood (fun s _ => binStep s) s ls := by
  induction ls generalizing s with
  | nil => trivial
  | cons l ls ih => exact ⟨⟨hp, h.1.1, h.1.2⟩, ih (binStep s) (pok_binStep s hp) h.2⟩

theorem goodL_gates (gs : List OGate) (s : St) (hp : POk s.p)
    (h : GoodCode (fun code g => g.in1 ≤ g.in0 ∧ g.in0 ≤ code ∧ code < 2 ^ 64 ∧ code ≤ s.p.maxLit)
      s.p.code gs) : GoodL OGateGood (fun s _ => binStep s) s gs := by
  induction gs generalizing s with
  | nil => trivial
  | cons g gs ih =>
    exact ⟨⟨hp, h.1.1, h.1.2.1, h.1.2.2.1, h.1.2.2.2⟩, ih (binStep s) (pok_binStep s hp) h.2⟩

/-! ### the binary writer -/

theorem run_emit (bs : VBytes) (w : BinW) :
    (emit bs).run w = .ok ((), { w with out := w.out ++ bs }) := rfl

theorem run_binWriteLatch (l : OLatch) (w : BinW) :
    (binWriteLatch l).run w =
      .ok ((), { out := w.out ++ olatchBytes w.code l, code := (w.code + 2) % 2 ^ 64 }) := rfl

theorem wm_bind {α β : Type} (x : WM α) (f : α → WM β) (w : BinW) (a : α) (w' : BinW)
    (h : x.run w = .ok (a, w')) : (x >>= f).run w = (f a).run w' := by
  rw [StateT.run_bind, h]; rfl

theorem forM_latches (ls : List OLatch) (w : BinW) :
    (ls.forM binWriteLatch).run w =
      .ok ((), { out := w.out ++ renderCode olatchBytes w.code ls, code := endCode w.code ls }) := by
  induction ls generalizing w with
  | nil => simp only [List.forM_nil, renderCode, endCode, List.append_nil]; rfl
  | cons l ls ih =>
    show (binWriteLatch l >>= fun _ => ls.forM binWriteLatch).run w = _
    rw [wm_bind _ _ _ _ _ (run_binWriteLatch l w), ih]
    simp only [renderCode, endCode, List.append_assoc]

theorem run_binWriteAndGate (g : OGate) (w : BinW) (h1 : g.in1 ≤ g.in0) (h2 : g.in0 ≤ w.code)
    (h3 : w.code < 2 ^ 64) :
    (binWriteAndGate g).run w =
      .ok ((), { out := w.out ++ gateBytes w.code g, code := (w.code + 2) % 2 ^ 64 }) := by
  obtain ⟨b0, hb0, _⟩ := writeBinaryUint_spec (w.code - g.in0) (by omega)
  obtain ⟨b1, hb1, _⟩ := writeBinaryUint_spec (g.in0 - g.in1) (by omega)
  have hns : ¬ g.in0 < g.in1 := by omega
  have hna : ¬ g.in0 > w.code := by omega
  unfold binWriteAndGate gateBytes binWriteUint
  simp only [hns, ↓reduceIte, hb1, Option.getD_some]
  show (match (get : WM BinW).run w with
    | .ok (st, w') => ((if g.in0 > st.code then _ else _ : WM Unit).run w')
    | .error e => .error e) = _
  show ((if g.in0 > w.code then _ else _ : WM Unit).run w) = _
  simp only [hna, ↓reduceIte, hb0, Option.getD_some, ← List.append_assoc]
  rfl

theorem forM_gates (gs : List OGate) (w : BinW)
    (h : GoodCode (fun code g => g.in1 ≤ g.in0 ∧ g.in0 ≤ code ∧ code < 2 ^ 64) w.code gs) :
    (gs.forM binWriteAndGate).run w =
      .ok ((), { out := w.out ++ renderCode gateBytes w.code gs, code := endCode w.code gs }) := by
  induction gs generalizing w with
  | nil => simp only [renderCode, endCode, List.append_nil]; rfl
  | cons g gs ih =>
    show (binWriteAndGate g >>= fun _ => gs.forM binWriteAndGate).run w = _
    rw [wm_bind _ _ _ _ _ (run_binWriteAndGate g w h.1.1 h.1.2.1 h.1.2.2), ih _ h.2]
    simp only [renderCode, endCode, List.append_assoc]

/-- The first literal behind the inputs, as `write_header` / `Parser::new` compute it. -/
def code0 (a : OrderedAig) : Nat := ((a.inputCount + 1) % 2 ^ 64 * 2) % 2 ^ 64

/-- What the binary writer produces when no gate trips its `assert!`. -/
def binaryBytes (a : OrderedAig) : VBytes :=
  writeHeader true (orderedHeader a) ++ (renderCode olatchBytes (code0 a) a.latches ++
    (writeMid a.outputs a.bad a.constraints a.justice a.fairness ++
      (renderCode gateBytes (endCode (code0 a) a.latches) a.gates ++ writeTail a.symbols a.comment)))

theorem writeOrderedAigBinary_ok (a : OrderedAig)
    (h : GoodCode (fun code g => g.in1 ≤ g.in0 ∧ g.in0 ≤ code ∧ code < 2 ^ 64)
      (endCode (code0 a) a.latches) a.gates) :
    writeOrderedAigBinary a = .ok (binaryBytes a) := by
  unfold writeOrderedAigBinary binWriteOrderedAig
  have h1 : (binWriteHeader (orderedHeader a)).run ({} : BinW) =
      .ok ((), { out := writeHeader true (orderedHeader a), code := code0 a }) := rfl
  rw [wm_bind _ _ _ _ _ h1, wm_bind _ _ _ _ _ (forM_latches a.latches _),
    wm_bind _ _ _ _ _ (run_emit _ _), wm_bind _ _ _ _ _ (forM_gates a.gates _ h), run_emit]
  simp only [binaryBytes, List.append_assoc]

/-! ### whole binary files -/

/-- Domain of the binary round trip for literal type `l`. -/
structure WFord (l : LitTy) (a : OrderedAig) : Prop where
  bits : l.bits ≤ 64
  maxVar : 2 * a.maxVarIndex + 1 ≤ l.maxCode
  vars : a.inputCount + a.latches.length + a.gates.length ≤ a.maxVarIndex
  latches : ∀ x ∈ a.latches, x.next ≤ 2 * a.maxVarIndex + 1
  lits : ∀ x ∈ a.outputs ++ a.bad ++ a.constraints ++ a.justice.flatten ++ a.fairness,
    x ≤ 2 * a.maxVarIndex + 1
  /-- each gate's inputs are ordered and the first is at most the gate's own literal (the
  writer's `assert!`) -/
  gates : ∀ i (g : OGate), a.gates[i]? = some g →
    g.in1 ≤ g.in0 ∧ g.in0 ≤ 2 * (a.inputCount + a.latches.length + 1 + i)
  symbols : ∀ s ∈ a.symbols, SymOk (orderedHeader a) s
  comment : ∀ c, a.comment = some c → validUtf8 c = true
  /-- every count is a `usize` (implied by `size`; kept as an explicit hypothesis) -/
  counts : HeaderSmall (orderedHeader a)
  justiceTotal : (a.justice.map List.length).sum ≤ usizeMax
  /-- the file fits the `usize` arithmetic of the line bookkeeping -/
  size : (binaryBytes a).length < usizeMax

theorem WFord.sane {l : LitTy} {a : OrderedAig} (h : WFord l a) : HeaderSane l (orderedHeader a) := by
  have := h.maxVar
  exact ⟨by show a.maxVarIndex ≤ (l.maxCode - 1) / 2; omega, h.vars⟩

theorem WFord.mlt {l : LitTy} {a : OrderedAig} (h : WFord l a) : a.maxVarIndex < 2 ^ 63 := by
  have h1 := h.maxVar
  have h2 := maxCode_le l h.bits
  have hu : usizeMax = 2 ^ 64 - 1 := rfl
  omega

/-- The counter at latch `k` / gate `i` is that item's own literal. -/
theorem WFord.latchCodes {l : LitTy} {a : OrderedAig} (h : WFord l a) :
    GoodCode (fun code (x : OLatch) => x.next ≤ a.maxVarIndex * 2 + 1 ∧
      (x.init = none → 2 ≤ code ∧ code ≤ a.maxVarIndex * 2 + 1)) (code0 a) a.latches := by
  have hm := h.mlt
  have hv := h.vars
  refine goodCode_of_index _ _ _ (Nat.mod_lt _ (by decide)) ?_
  intro k x hk
  have hkl : k < a.latches.length := (List.getElem?_eq_some_iff.mp hk).1
  have hx := h.latches x (List.mem_of_getElem? hk)
  refine ⟨by omega, fun _ => ?_⟩
  unfold code0
  omega

theorem WFord.endLatches {l : LitTy} {a : OrderedAig} (h : WFord l a) :
    endCode (code0 a) a.latches = (2 * (a.inputCount + 1) + 2 * a.latches.length) % 2 ^ 64 := by
  have hm := h.mlt
  have hv := h.vars
  have hc : code0 a < 2 ^ 64 := Nat.mod_lt _ (by decide)
  rw [endCode_eq _ _ hc]
  unfold code0
  omega

theorem WFord.gateCodes {l : LitTy} {a : OrderedAig} (h : WFord l a) :
    GoodCode (fun code (g : OGate) => g.in1 ≤ g.in0 ∧ g.in0 ≤ code ∧ code < 2 ^ 64 ∧
      code ≤ a.maxVarIndex * 2 + 1) (endCode (code0 a) a.latches) a.gates := by
  have hm := h.mlt
  have hv := h.vars
  rw [h.endLatches]
  refine goodCode_of_index _ _ _ (Nat.mod_lt _ (by decide)) ?_
  intro i g hi
  have hil : i < a.gates.length := (List.getElem?_eq_some_iff.mp hi).1
  obtain ⟨h1, h2⟩ := h.gates i g hi
  refine ⟨h1, ?_, Nat.mod_lt _ (by decide), ?_⟩ <;> omega

theorem goodCode_mono {α : Type} {good good' : Nat → α → Prop} (hgg : ∀ c x, good c x → good' c x) :
    ∀ (xs : List α) (c : Nat), GoodCode good c xs → GoodCode good' c xs := by
  intro xs
  induction xs with
  | nil => intro _ _; trivial
  | cons x xs ih => intro c h; exact ⟨hgg _ _ h.1, ih _ h.2⟩

/-- The binary writer never panics on a well-formed circuit. -/
theorem WFord.write_ok {l : LitTy} {a : OrderedAig} (h : WFord l a) :
    writeOrderedAigBinary a = .ok (binaryBytes a) :=
  writeOrderedAigBinary_ok a (goodCode_mono (fun c g hg => ⟨hg.1, hg.2.1, hg.2.2.1⟩) _ _ h.gateCodes)

theorem parseBinary_steps {N} (l : LitTy) (a : OrderedAig) (h : WFord l a) :
    Steps N (parseBinary (parserOf true l (orderedHeader a))) a
      (renderCode olatchBytes (code0 a) a.latches ++
        (writeMid a.outputs a.bad a.constraints a.justice a.fairness ++
          (renderCode gateBytes (endCode (code0 a) a.latches) a.gates ++
            writeTail a.symbols a.comment))) [] := by
  have hl1 : 1 ≤ l.maxCode := by have := h.maxVar; omega
  have hp : POk (parserOf true l (orderedHeader a)) := parserOf_ok true l h.bits hl1 _ h.sane
  unfold parseBinary
  refine Steps.bind (toLatches_zero _ _ rfl) ?_
  -- latches
  have hs1 : ({ p := parserOf true l (orderedHeader a), left := a.latches.length, total := 0 } : St).p.code
      = code0 a := rfl
  have hL := latchesBin_steps (N := N) a.latches
    ({ p := parserOf true l (orderedHeader a), left := a.latches.length, total := 0 } : St)
    (writeMid a.outputs a.bad a.constraints a.justice a.fairness ++
      (renderCode gateBytes (endCode (code0 a) a.latches) a.gates ++ writeTail a.symbols a.comment))
    rfl (goodL_latches _ _ hp h.latchCodes)
  rw [renderL_code, hs1] at hL
  refine Steps.bind hL ?_
  have hA := foldl_binStep a.latches
    ({ p := parserOf true l (orderedHeader a), left := a.latches.length, total := 0 } : St)
  generalize (a.latches.foldl (fun s _ => binStep s)
    ({ p := parserOf true l (orderedHeader a), left := a.latches.length, total := 0 } : St)) = s3 at hA ⊢
  have hp3 : POk s3.p := ⟨by rw [hA.maxLit, hA.lit]; exact hp.fits, by rw [hA.maxLit]; exact hp.small,
    by rw [hA.maxLit]; exact hp.one⟩
  have hl3 : s3.left = 0 := by rw [hA.left]; simp
  simp only
  -- middle sections
  refine Steps.bind (parseMid_steps s3 hp3 hl3 a.outputs a.bad a.constraints a.justice a.fairness
    ⟨by rw [hA.header]; rfl, by rw [hA.header]; rfl, by rw [hA.header]; rfl, by rw [hA.header]; rfl,
     by rw [hA.header]; rfl, fun x hx => by
       have := h.lits x hx
       rw [hA.maxLit]; show x ≤ a.maxVarIndex * 2 + 1; omega, h.justiceTotal⟩ _) ?_
  simp only
  refine Steps.bind (toAndGates_zero _ _ rfl) ?_
  -- gates
  have hc3 : s3.p.code = endCode (code0 a) a.latches := hA.code
  have hG := gatesBin_steps (N := N) a.gates
    ({ p := s3.p, left := s3.p.header.andGateCount, total := (a.justice.map List.length).sum } : St)
    (writeTail a.symbols a.comment) (by rw [hA.header]; rfl)
    (goodL_gates _ _ hp3 (by
      show GoodCode _ s3.p.code a.gates
      rw [hc3, hA.maxLit]
      exact h.gateCodes))
  rw [renderL_code] at hG
  simp only [hc3] at hG
  refine Steps.bind hG ?_
  have hB := foldl_binStep a.gates
    ({ p := s3.p, left := s3.p.header.andGateCount, total := (a.justice.map List.length).sum } : St)
  generalize (a.gates.foldl (fun s _ => binStep s)
    ({ p := s3.p, left := s3.p.header.andGateCount, total := (a.justice.map List.length).sum } : St))
    = s6 at hB ⊢
  have hl6 : s6.left = 0 := by
    rw [hB.left]; show s3.p.header.andGateCount - a.gates.length = 0
    rw [hA.header]; show a.gates.length - a.gates.length = 0; omega
  have hh6 : s6.p.header = orderedHeader a := by rw [hB.header]; exact hA.header
  simp only
  refine Steps.bind (toSymbols_zero s6 _ hl6) ?_
  refine Steps.bind (parseTail_steps s6.p (by rw [hh6]; exact h.counts) a.symbols a.comment
    (by rw [hh6]; exact h.symbols) h.comment) ?_
  simp only [hh6]
  cases a
  exact Steps.pure _ _

/-- **`aig_roundtrip`** in `Steps` form. -/
theorem parseAig_steps {N} (l : LitTy) (a : OrderedAig) (h : WFord l a) :
    Steps N (parseAig l) a (binaryBytes a) [] := by
  have hl1 : 1 ≤ l.maxCode := by have := h.maxVar; omega
  unfold parseAig binaryBytes
  refine Steps.bind (parserNew_steps true l h.bits hl1 (orderedHeader a) h.sane h.counts _) ?_
  exact parseBinary_steps l a h

/-- **`aig_roundtrip`**: `binary::Writer::write_ordered_aig` does not panic on a well-formed
`OrderedAig`, and `binary::Parser::parse` on its output returns that `OrderedAig`, having consumed
the whole file. -/
theorem aig_roundtrip (l : LitTy) (a : OrderedAig) (h : WFord l a) :
    ∃ bs, writeOrderedAigBinary a = .ok bs ∧
      ∃ lr', (parseAig l).run (LR.init bs false) = (.ok a, lr') ∧ lr'.v.rest = [] := by
  refine ⟨binaryBytes a, h.write_ok, ?_⟩
  obtain ⟨lr', hr, _, hrest⟩ := parseAig_steps (N := (binaryBytes a).length) l a h
    (LR.init (binaryBytes a) false) (good_init _ h.size) rfl
  exact ⟨lr', hr, hrest⟩

end Flussab.AigerRT
