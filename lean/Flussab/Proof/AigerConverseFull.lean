/-
The statements of the converse direction of C03-AIGER at full strength, as `Prop`s, next to which
`Props/C03AigerConverse.lean` states what is proved.

* `aag_parsed_is_domain_full` / `aig_parsed_is_domain_full` ("whatever `parse()` returns is in
  the domain of the round trip", for every `l.bits ≤ 64`, no size hypothesis) are FALSE as stated,
  for two reasons, each of which is a hypothesis of the proved theorems:
  - `l.bits = 0`: `aag 0 0 0 0 0\n` is accepted (the limit `(MAX_CODE - 1) / 2` of the first
    header field is `0` in the model's natural-number arithmetic), but the domain demands
    `2·0+1 ≤ MAX_CODE = 0`.  A zero-bit type is not a literal type of the crate (`u8`…`u64`);
    refuted by `decide` in the Props file.
  - the clause `size` of the domains bounds the length of the *writer's output* by `usize::MAX`;
    the model's `remaining_file_content` does no `usize` arithmetic, so the model accepts a
    comment of `2^64` bytes, for which the clause fails.  No real buffer holds such an input.
* `aag_parse_write_parse_full` / `aig_parse_write_parse_full` (parse ∘ write ∘ parse = parse
  without a bound on the input) are proved for inputs of fewer than `usize::MAX - 1` bytes; for
  longer ones — which exist in the model only — they are open (they would need a round-trip theorem
  that does not go through the `usize` line bookkeeping).
-/
import Flussab.Proof.AigerConverseMain

namespace Flussab
namespace Aiger
open PM AigerRT

def aag_parsed_is_domain_full : Prop :=
  ∀ (l : LitTy), l.bits ≤ 64 → ∀ (b : VBytes) (a : Aig) (lr' : LR),
    (parseAag l).run (LR.init b false) = (.ok a, lr') → AigDomain l a

def aig_parsed_is_domain_full : Prop :=
  ∀ (l : LitTy), l.bits ≤ 64 → ∀ (b : VBytes) (a : OrderedAig) (lr' : LR),
    (parseAig l).run (LR.init b false) = (.ok a, lr') → OrdDomain l a

def aag_parse_write_parse_full : Prop :=
  ∀ (l : LitTy), 1 ≤ l.bits → l.bits ≤ 64 → ∀ (b : VBytes) (a : Aig) (lr' : LR),
    (parseAag l).run (LR.init b false) = (.ok a, lr') →
    ∃ lr'', (parseAag l).run (LR.init (writeAig a) false) = (.ok a, lr'') ∧ lr''.v.rest = []

def aig_parse_write_parse_full : Prop :=
  ∀ (l : LitTy), 1 ≤ l.bits → l.bits ≤ 64 → ∀ (b : VBytes) (a : OrderedAig) (lr' : LR),
    (parseAig l).run (LR.init b false) = (.ok a, lr') →
    ∃ bs, writeOrderedAigBinary a = .ok bs ∧
      ∃ lr'', (parseAig l).run (LR.init bs false) = (.ok a, lr'') ∧ lr''.v.rest = []

end Aiger
end Flussab
