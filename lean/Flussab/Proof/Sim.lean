/-
Prefix simulation for the parser monad (property C04, "items handed out before the error are the
items of the fault-free run").

`ext q lr` is the state `lr` over a longer stream: `q` appended to the unconsumed bytes, and a
source that does not fail.  A reader that never hits the end of its data cannot tell the two
apart.  `R2 q m m' lr` says: if `m` run from `lr` ends (without panic) in a state in which the end
of the data has not been seen (`sawEnd = false`), then the end was not seen at the start either,
and `m'` run from `ext q lr` returns the same value in the state `ext q lr1` (for an error: the
same error).  `C q m lr` is `R2 q m m lr`; two programs are needed only for the fuelled loops,
whose fuel is computed from the (longer) stream.

`J lr` ("`sawEnd` is set exactly if an offset at or behind the end of the data has been
demanded") is carried along; it turns the look-ahead bound of C09 into `sawEnd = false`.
-/
import Flussab.Proof.PMHoare

namespace Flussab
namespace PM

/-- The view over a longer stream from a source that does not fail. -/
def extv (q : VBytes) (v : View) : View := { v with rest := v.rest ++ q, fault := false }

/-- The parser state over a longer stream. -/
def ext (q : VBytes) (lr : LR) : LR := { lr with v := extv q lr.v }

/-- `sawEnd` is set exactly if an offset at or behind the end of the data has been demanded. -/
def JV (v : View) : Prop := v.sawEnd = true ↔ v.pos + v.rest.length < v.peeked

def J (lr : LR) : Prop := JV lr.v

theorem J_init (b : VBytes) (fault : Bool) : J (LR.init b fault) := by
  simp [J, JV, LR.init, View.init]

theorem ext_init (b q : VBytes) : ext q (LR.init b true) = LR.init (b ++ q) false := rfl

/-! ### `demand` -/

theorem demand_sawEnd (v : View) (k : Nat) :
    (v.demand k).sawEnd = false ↔ v.sawEnd = false ∧ k < v.rest.length := by
  have := (C16.demand_effect v k).2.2.2.2
  rw [this]
  cases v.sawEnd <;> simp

theorem demand_extv (q : VBytes) (v : View) (k : Nat) (hk : k < v.rest.length) :
    (extv q v).demand k = extv q (v.demand k) := by
  simp only [View.demand, extv, hk, ↓reduceIte, List.length_append]
  have hk' : k < v.rest.length + q.length := by omega
  simp only [hk', ↓reduceIte]

theorem demand_JV (v : View) (k : Nat) (h : JV v) : JV (v.demand k) := by
  obtain ⟨h1, h2, _, h4, h5⟩ := C16.demand_effect v k
  unfold JV at *
  rw [h1, h2, h4, h5]
  by_cases hk : v.rest.length ≤ k
  · simp [hk]; omega
  · simp only [hk, decide_false, Bool.or_false]
    rw [h]; omega

/-! ### scanners -/

/-- A scanner commutes with extending the stream as long as it does not hit the end. -/
def SC {α : Type} (q : VBytes) (f : View → α × View) : Prop :=
  ∀ v, JV v → JV (f v).2 ∧
    ((f v).2.sawEnd = false → v.sawEnd = false ∧ f (extv q v) = ((f v).1, extv q (f v).2))

theorem getElem?_append_lt (l q : VBytes) (k : Nat) (h : k < l.length) : (l ++ q)[k]? = l[k]? :=
  List.getElem?_append_left h

theorem sc_reqAt (q : VBytes) (k : Nat) : SC q (·.reqAt k) := by
  intro v hJ
  refine ⟨demand_JV v k hJ, fun h => ?_⟩
  obtain ⟨h1, h2⟩ := (demand_sawEnd v k).mp h
  refine ⟨h1, ?_⟩
  show ((v.rest ++ q)[k]?, (extv q v).demand k) = _
  rw [getElem?_append_lt _ _ _ h2, demand_extv q v k h2]
  rfl

theorem runLen_append (p : UInt8 → Bool) (l q : VBytes) (h : Text.runLen p l < l.length) :
    Text.runLen p (l ++ q) = Text.runLen p l := by
  induction l with
  | nil => simp at h
  | cons c cs ih =>
    simp only [List.cons_append, Text.runLen] at h ⊢
    by_cases hc : p c = true
    · simp only [hc, ↓reduceIte, List.length_cons, Nat.add_lt_add_iff_right] at h ⊢
      rw [ih h]
    · simp [hc]

theorem drop_append_le (l q : VBytes) (n : Nat) (h : n ≤ l.length) :
    (l ++ q).drop n = l.drop n ++ q := List.drop_append_of_le_length h

theorem sc_tabs (q : VBytes) (off : Nat) : SC q (Text.tabsOrSpaces · off) := by
  intro v hJ
  simp only [Text.tabsOrSpaces]
  refine ⟨demand_JV v _ hJ, fun h => ?_⟩
  obtain ⟨h1, h2⟩ := (demand_sawEnd v _).mp h
  refine ⟨h1, ?_⟩
  have hoff : off ≤ v.rest.length := by omega
  have hrun : Text.runLen isBlank ((v.rest ++ q).drop off) = Text.runLen isBlank (v.rest.drop off) := by
    rw [drop_append_le _ _ _ hoff]
    exact runLen_append _ _ _ (by simp only [List.length_drop]; omega)
  rw [show (extv q v).rest = v.rest ++ q from rfl, hrun, demand_extv q v _ h2]

theorem sc_nextNewline (q : VBytes) (off : Nat) : SC q (Text.nextNewline · off) := by
  intro v hJ
  simp only [Text.nextNewline]
  refine ⟨demand_JV v _ hJ, fun h => ?_⟩
  obtain ⟨h1, h2⟩ := (demand_sawEnd v _).mp h
  refine ⟨h1, ?_⟩
  have hoff : off ≤ v.rest.length := by omega
  have hrun : Text.runLen (· != 10) ((v.rest ++ q).drop off) =
      Text.runLen (· != 10) (v.rest.drop off) := by
    rw [drop_append_le _ _ _ hoff]
    exact runLen_append _ _ _ (by simp only [List.length_drop]; omega)
  rw [show (extv q v).rest = v.rest ++ q from rfl, hrun, demand_extv q v _ h2,
    getElem?_append_lt _ _ _ h2]

theorem sc_newline (q : VBytes) (off : Nat) : SC q (Text.newline · off) := by
  intro v hJ
  show JV (Text.newline v off).2 ∧ ((Text.newline v off).2.sawEnd = false → v.sawEnd = false ∧
    Text.newline (extv q v) off = ((Text.newline v off).1, extv q (Text.newline v off).2))
  have e0 : ∀ k, k < v.rest.length → (extv q v).rest[k]? = v.rest[k]? :=
    fun k hk => getElem?_append_lt _ _ _ hk
  have j1 := demand_JV v off hJ
  have j2 := demand_JV (v.demand off) (off + 1) j1
  have hrest : (v.demand off).rest = v.rest := (C16.demand_effect v off).1
  -- the scanner as a function of the two bytes it looks at
  have shape : ∀ w : View, Text.newline w off =
      if w.rest[off]? = some 10 then (off + 1, w.demand off)
      else if w.rest[off]? = some 13 then
        ((if w.rest[off + 1]? = some 10 then off + 2 else off), (w.demand off).demand (off + 1))
      else (off, w.demand off) := by
    intro w
    simp only [Text.newline]
    split
    · simp_all
    · rename_i h13
      simp only [h13]
      split <;> simp_all
    · rename_i n10 n13
      have a : ¬ w.rest[off]? = some 10 := fun h => n10 h
      have b : ¬ w.rest[off]? = some 13 := fun h => n13 h
      simp [a, b]
  rw [shape v, shape (extv q v)]
  by_cases h10 : v.rest[off]? = some 10
  · simp only [h10, ↓reduceIte]
    refine ⟨j1, fun h => ?_⟩
    obtain ⟨h1, h2⟩ := (demand_sawEnd v off).mp h
    refine ⟨h1, ?_⟩
    rw [e0 off h2]
    simp only [h10, ↓reduceIte]
    rw [demand_extv q v off h2]
  · by_cases h13 : v.rest[off]? = some 13
    · have n1310 : ¬ ((some 13 : Option UInt8) = some 10) := by decide
      simp only [h13, n1310, ↓reduceIte]
      refine ⟨j2, fun h => ?_⟩
      obtain ⟨h1, h2⟩ := (demand_sawEnd _ _).mp h
      rw [hrest] at h2
      obtain ⟨h3, h4⟩ := (demand_sawEnd v off).mp h1
      refine ⟨h3, ?_⟩
      rw [e0 off h4, e0 _ h2]
      simp only [h13, n1310, ↓reduceIte]
      rw [demand_extv q v off h4, demand_extv q (v.demand off) (off + 1) (by rw [hrest]; exact h2)]
    · simp only [h10, h13, ↓reduceIte]
      refine ⟨j1, fun h => ?_⟩
      obtain ⟨h1, h2⟩ := (demand_sawEnd v off).mp h
      refine ⟨h1, ?_⟩
      rw [e0 off h2]
      simp only [h10, h13, ↓reduceIte]
      rw [demand_extv q v off h2]

theorem matchLen_append (pat l q : VBytes)
    (h : Text.matchLen pat l = pat.length ∨ Text.matchLen pat l < l.length) :
    Text.matchLen pat (l ++ q) = Text.matchLen pat l := by
  induction pat generalizing l with
  | nil => cases l <;> cases q <;> simp [Text.matchLen]
  | cons p ps ih =>
    cases l with
    | nil =>
      simp [Text.matchLen] at h
    | cons c cs =>
      simp only [List.cons_append, Text.matchLen] at h ⊢
      by_cases hpc : (p == c) = true
      · simp only [hpc, ↓reduceIte, List.length_cons, Nat.add_right_cancel_iff,
          Nat.add_lt_add_iff_right] at h ⊢
        rw [ih cs h]
      · simp [hpc]

theorem sc_fixed (q : VBytes) (off : Nat) (pat : VBytes) : SC q (Text.fixed · off pat) := by
  intro v hJ
  dsimp only
  by_cases hm : Text.matchLen pat (v.rest.drop off) = pat.length
  · by_cases hp : pat.isEmpty = true
    · have hpe : pat = [] := by simpa using hp
      subst hpe
      have : ∀ w : View, Text.fixed w off [] = (off + 0, w) := by
        intro w; cases w.rest.drop off <;> simp [Text.fixed, Text.matchLen]
      rw [this v, this (extv q v)]
      refine ⟨hJ, fun h => ⟨h, rfl⟩⟩
    · have hpos : 0 < pat.length := by
        cases pat with
        | nil => simp at hp
        | cons _ _ => simp
      have hf : Text.fixed v off pat = (off + pat.length, v.demand (off + pat.length - 1)) := by
        simp [Text.fixed, hm, hp]
      rw [hf]
      refine ⟨demand_JV v _ hJ, fun h => ?_⟩
      obtain ⟨h1, h2⟩ := (demand_sawEnd v _).mp h
      refine ⟨h1, ?_⟩
      have hoff : off ≤ v.rest.length := by omega
      have hm' : Text.matchLen pat ((extv q v).rest.drop off) = pat.length := by
        show Text.matchLen pat ((v.rest ++ q).drop off) = pat.length
        rw [drop_append_le _ _ _ hoff, matchLen_append _ _ _ (Or.inl hm), hm]
      have hf' : Text.fixed (extv q v) off pat =
          (off + pat.length, (extv q v).demand (off + pat.length - 1)) := by
        simp [Text.fixed, hm', hp]
      rw [hf', demand_extv q v _ h2]
  · have hf : Text.fixed v off pat = (off, v.demand (off + Text.matchLen pat (v.rest.drop off))) := by
      simp [Text.fixed, hm]
    rw [hf]
    refine ⟨demand_JV v _ hJ, fun h => ?_⟩
    obtain ⟨h1, h2⟩ := (demand_sawEnd v _).mp h
    refine ⟨h1, ?_⟩
    have hoff : off ≤ v.rest.length := by omega
    have hm' : Text.matchLen pat ((extv q v).rest.drop off) = Text.matchLen pat (v.rest.drop off) := by
      show Text.matchLen pat ((v.rest ++ q).drop off) = _
      rw [drop_append_le _ _ _ hoff]
      exact matchLen_append _ _ _ (Or.inr (by simp only [List.length_drop]; omega))
    have hf' : Text.fixed (extv q v) off pat =
        (off, (extv q v).demand (off + Text.matchLen pat (v.rest.drop off))) := by
      simp [Text.fixed, hm', hm]
    rw [hf', demand_extv q v _ h2]

theorem digitsLoop_append (t : IntTy) (sub : Bool) (l q : VBytes) (x : Int) (o : Bool) (n : Nat)
    (h : (l.takeWhile isDigit).length < l.length) :
    Text.digitsLoop t sub (l ++ q) x o n = Text.digitsLoop t sub l x o n := by
  induction l generalizing x o n with
  | nil => simp at h
  | cons c cs ih =>
    simp only [List.cons_append, Text.digitsLoop]
    by_cases hc : isDigit c = true
    · simp only [hc, ↓reduceIte]
      apply ih
      simpa [List.takeWhile, hc] using h
    · simp [hc]

theorem sc_digitsCont (q : VBytes) (t : IntTy) (sub : Bool) (off : Nat) (value : Option Int) :
    SC q (fun v => Text.digitsCont t sub v off value) := by
  intro v hJ
  dsimp only
  obtain ⟨c1, c2⟩ := digitsCont_spec t sub v off value
  rw [show Text.digitsCont t sub v off value =
    ((Text.digitsCont t sub v off value).1, (Text.digitsCont t sub v off value).2) from rfl, c2]
  refine ⟨demand_JV v _ hJ, fun h => ?_⟩
  obtain ⟨h1, h2⟩ := (demand_sawEnd v _).mp h
  refine ⟨h1, ?_⟩
  have hoff : off ≤ v.rest.length := by omega
  have hloop : Text.digitsLoop t sub ((extv q v).rest.drop off) (value.getD 0) value.isNone 0 =
      Text.digitsLoop t sub (v.rest.drop off) (value.getD 0) value.isNone 0 := by
    show Text.digitsLoop t sub ((v.rest ++ q).drop off) _ _ _ = _
    rw [drop_append_le _ _ _ hoff]
    exact digitsLoop_append _ _ _ _ _ _ _ (by simp only [List.length_drop]; omega)
  have hcnt := digitsLoop_count t sub (v.rest.drop off) (value.getD 0) value.isNone 0
  simp only [Text.digitsCont, hloop]
  generalize Text.digitsLoop t sub (v.rest.drop off) (value.getD 0) value.isNone 0 = r at *
  obtain ⟨a, c, n⟩ := r
  simp only [Nat.zero_add] at hcnt
  simp only at hcnt ⊢
  subst hcnt
  rw [demand_extv q v _ h2]

theorem sc_asciiDigits (q : VBytes) (t : IntTy) (off : Nat) : SC q (Text.asciiDigits t · off) :=
  sc_digitsCont q t false off (some 0)

theorem sc_signedDigits (q : VBytes) (t : IntTy) (off : Nat) :
    SC q (Text.signedAsciiDigits t · off) := by
  intro v hJ
  dsimp only
  have e0 : ∀ k, k < v.rest.length → (extv q v).rest[k]? = v.rest[k]? :=
    fun k hk => getElem?_append_lt _ _ _ hk
  have hrest : ∀ (w : View) k, (w.demand k).rest = w.rest := fun w k => (C16.demand_effect w k).1
  by_cases h45 : v.rest[off]? = some 45
  · have j1 := demand_JV v off hJ
    have j2 := demand_JV (v.demand off) (off + 1) j1
    -- both remaining branches demand `off` and `off + 1`
    have key : ∀ (r : Option Int × Nat) (r' : Option Int × Nat),
        Text.signedAsciiDigits t v off = (r, (v.demand off).demand (off + 1)) →
        (off + 1 < v.rest.length →
          Text.signedAsciiDigits t (extv q v) off = (r', ((extv q v).demand off).demand (off + 1))) →
        (off + 1 < v.rest.length → r' = r) →
        JV (Text.signedAsciiDigits t v off).2 ∧
        ((Text.signedAsciiDigits t v off).2.sawEnd = false → v.sawEnd = false ∧
          Text.signedAsciiDigits t (extv q v) off =
            ((Text.signedAsciiDigits t v off).1, extv q (Text.signedAsciiDigits t v off).2)) := by
      intro r r' hl hr hrr
      rw [hl]
      refine ⟨j2, fun h => ?_⟩
      obtain ⟨h1, h2⟩ := (demand_sawEnd _ _).mp h
      rw [hrest] at h2
      obtain ⟨h3, h4⟩ := (demand_sawEnd v off).mp h1
      refine ⟨h3, ?_⟩
      rw [hr h2, hrr h2, demand_extv q v off h4,
        demand_extv q (v.demand off) (off + 1) (by rw [hrest]; exact h2)]
    have h45' : off + 1 < v.rest.length → (extv q v).rest[off]? = some 45 := by
      intro h; rw [e0 off (by omega)]; exact h45
    cases hd : v.rest[off + 1]? with
    | none =>
      refine key (some 0, off) (some 0, off) (by simp [Text.signedAsciiDigits, h45, hd]) ?_
        (fun _ => rfl)
      intro h
      have := List.getElem?_eq_none_iff.mp hd
      omega
    | some d =>
      by_cases hdig : isDigit d = true
      · -- a negative numeral: the digit loop behind the first digit
        have hshape : ∀ w : View, w.rest[off]? = some 45 → w.rest[off + 1]? = some d →
            Text.signedAsciiDigits t w off =
              (((if (Text.digitsLoop t true (w.rest.drop (off + 2)) (t.osub 0 (digitVal d)).1
                    (t.osub 0 (digitVal d)).2 0).2.1 then none
                 else some (Text.digitsLoop t true (w.rest.drop (off + 2)) (t.osub 0 (digitVal d)).1
                    (t.osub 0 (digitVal d)).2 0).1),
                off + 2 + (Text.digitsLoop t true (w.rest.drop (off + 2)) (t.osub 0 (digitVal d)).1
                    (t.osub 0 (digitVal d)).2 0).2.2),
               ((w.demand off).demand (off + 1)).demand
                 (off + 2 + (Text.digitsLoop t true (w.rest.drop (off + 2)) (t.osub 0 (digitVal d)).1
                    (t.osub 0 (digitVal d)).2 0).2.2)) := by
          intro w a b
          simp [Text.signedAsciiDigits, a, b, hdig]
        rw [hshape v h45 hd]
        have hcnt := digitsLoop_count t true (v.rest.drop (off + 2)) (t.osub 0 (digitVal d)).1
          (t.osub 0 (digitVal d)).2 0
        have j3 := demand_JV _ (off + 2 + (Text.digitsLoop t true (v.rest.drop (off + 2))
          (t.osub 0 (digitVal d)).1 (t.osub 0 (digitVal d)).2 0).2.2) j2
        refine ⟨j3, fun h => ?_⟩
        obtain ⟨g1, g2⟩ := (demand_sawEnd _ _).mp h
        rw [hrest, hrest] at g2
        obtain ⟨g3, g4⟩ := (demand_sawEnd _ _).mp g1
        rw [hrest] at g4
        obtain ⟨g5, g6⟩ := (demand_sawEnd v off).mp g3
        refine ⟨g5, ?_⟩
        have hloop : Text.digitsLoop t true ((extv q v).rest.drop (off + 2)) (t.osub 0 (digitVal d)).1
            (t.osub 0 (digitVal d)).2 0 = Text.digitsLoop t true (v.rest.drop (off + 2))
            (t.osub 0 (digitVal d)).1 (t.osub 0 (digitVal d)).2 0 := by
          show Text.digitsLoop t true ((v.rest ++ q).drop (off + 2)) _ _ _ = _
          rw [drop_append_le _ _ _ (by omega)]
          apply digitsLoop_append
          simp only [Nat.zero_add] at hcnt
          rw [← hcnt]
          simp only [List.length_drop]
          omega
        rw [hshape (extv q v) (by rw [e0 off g6]; exact h45) (by rw [e0 _ g4]; exact hd), hloop,
          demand_extv q v off g6, demand_extv q (v.demand off) (off + 1) (by rw [hrest]; exact g4),
          demand_extv q _ _ (by rw [hrest, hrest]; exact g2)]
      · have hdig' : isDigit d = false := by simpa using hdig
        refine key (some 0, off) (some 0, off) (by simp [Text.signedAsciiDigits, h45, hd, hdig']) ?_
          (fun _ => rfl)
        intro h
        have a := h45' h
        have b : (extv q v).rest[off + 1]? = some d := by rw [e0 _ h]; exact hd
        simp [Text.signedAsciiDigits, a, b, hdig']
  · have hl : Text.signedAsciiDigits t v off = Text.digitsCont t false v off (some 0) := by
      simp only [Text.signedAsciiDigits]
    rw [hl]
    obtain ⟨c1, c2⟩ := sc_digitsCont q t false off (some 0) v hJ
    refine ⟨c1, fun h => ?_⟩
    obtain ⟨c3, c4⟩ := c2 h
    refine ⟨c3, ?_⟩
    obtain ⟨_, d2⟩ := digitsCont_spec t false v off (some 0)
    rw [d2] at h
    obtain ⟨_, h2⟩ := (demand_sawEnd v _).mp h
    have h45' : ¬ (extv q v).rest[off]? = some 45 := by rw [e0 off (by omega)]; exact h45
    have hr : Text.signedAsciiDigits t (extv q v) off = Text.digitsCont t false (extv q v) off (some 0) := by
      simp only [Text.signedAsciiDigits]
    rw [hr]; exact c4

/-! ### the relational predicate -/

/-- The outcome is not a panic (C05 shows it never is). -/
def NoPanic {α : Type} : Except PErr α → Prop
  | .error (.panic _) => False
  | _ => True

theorem NoPanic.cast {α β : Type} {e : PErr} (h : NoPanic (.error e : Except PErr α)) :
    NoPanic (.error e : Except PErr β) := by
  cases e <;> first | trivial | exact h

/-- `m'` run over the longer stream agrees with the outcome `(res, lr1)` of the run from `lr`:
same value in the corresponding state, or the same error. -/
def Agree {α : Type} (q : VBytes) (m' : PM α) (lr : LR) (res : Except PErr α) (lr1 : LR) : Prop :=
  match res with
  | .ok a => m'.run (ext q lr) = (.ok a, ext q lr1)
  | .error e => ∃ s, m'.run (ext q lr) = (.error e, s)

/-- See the file comment. -/
def R2 {α : Type} (q : VBytes) (m m' : PM α) (lr : LR) : Prop :=
  J lr → ∀ res lr1, m.run lr = (res, lr1) → NoPanic res →
    J lr1 ∧ (lr1.v.sawEnd = false → lr.v.sawEnd = false ∧ Agree q m' lr res lr1)

/-- The same program on both sides. -/
abbrev C {α : Type} (q : VBytes) (m : PM α) (lr : LR) : Prop := R2 q m m lr

variable {α β : Type} {q : VBytes} {lr : LR}

theorem run_get_bind (g : LR → PM β) (lr : LR) : (get >>= g).run lr = (g lr).run lr := rfl

theorem R2.bind {m m' : PM α} {f f' : α → PM β} (hm : R2 q m m' lr)
    (hf : ∀ a lr1, R2 q (f a) (f' a) lr1) : R2 q (m >>= f) (m' >>= f') lr := by
  intro hJ res lr2 hrun hnp
  rw [run_bind] at hrun
  rcases hm1 : m.run lr with ⟨e | a, lr1⟩
  · rw [hm1] at hrun
    simp only at hrun
    obtain ⟨rfl, rfl⟩ := Prod.mk.inj hrun
    obtain ⟨j1, h1⟩ := hm hJ _ _ hm1 hnp.cast
    refine ⟨j1, fun hs => ?_⟩
    obtain ⟨s0, s, hs'⟩ := h1 hs
    refine ⟨s0, s, ?_⟩
    rw [run_bind, hs']
  · rw [hm1] at hrun
    simp only at hrun
    obtain ⟨j1, h1⟩ := hm hJ _ _ hm1 trivial
    obtain ⟨j2, h2⟩ := hf a lr1 j1 _ _ hrun hnp
    refine ⟨j2, fun hs => ?_⟩
    obtain ⟨s1, a2⟩ := h2 hs
    obtain ⟨s0, a1⟩ := h1 s1
    refine ⟨s0, ?_⟩
    have a1' : m'.run (ext q lr) = (.ok a, ext q lr1) := a1
    cases res with
    | ok x =>
      show (m' >>= f').run (ext q lr) = _
      rw [run_bind, a1']; exact a2
    | error e =>
      obtain ⟨s, a2'⟩ := a2
      exact ⟨s, by rw [run_bind, a1']; exact a2'⟩

theorem R2.pure (a : α) : C q (pure a : PM α) lr := by
  intro hJ res lr1 hrun _
  obtain ⟨rfl, rfl⟩ := Prod.mk.inj (show ((.ok a : Except PErr α), lr) = (res, lr1) from hrun)
  exact ⟨hJ, fun hs => ⟨hs, rfl⟩⟩

theorem R2.throw (e : PErr) : C q (throw e : PM α) lr := by
  intro hJ res lr1 hrun _
  obtain ⟨rfl, rfl⟩ := Prod.mk.inj (show ((.error e : Except PErr α), lr) = (res, lr1) from hrun)
  exact ⟨hJ, fun hs => ⟨hs, _, rfl⟩⟩

theorem R2.ite {c : Prop} [Decidable c] {a a' b b' : PM α} (ht : c → R2 q a a' lr)
    (hf : ¬ c → R2 q b b' lr) : R2 q (if c then a else b) (if c then a' else b') lr := by
  by_cases h : c
  · simp only [h, ↓reduceIte]; exact ht h
  · simp only [h, ↓reduceIte]; exact hf h

/-- `get` followed by programs that may depend on the (different) states. -/
theorem R2.get_bind {g g' : LR → PM β} (h : R2 q (g lr) (g' (ext q lr)) lr) :
    R2 q (get >>= g) (get >>= g') lr := by
  intro hJ res lr1 hrun hnp
  rw [run_get_bind] at hrun
  obtain ⟨j1, h1⟩ := h hJ res lr1 hrun hnp
  refine ⟨j1, fun hs => ?_⟩
  obtain ⟨s0, a⟩ := h1 hs
  refine ⟨s0, ?_⟩
  cases res with
  | ok x => show (get >>= g').run (ext q lr) = _; rw [run_get_bind]; exact a
  | error e =>
    obtain ⟨s, a'⟩ := a
    exact ⟨s, by rw [run_get_bind]; exact a'⟩

/-- `get` followed by a program that does not depend on what differs between the states (as
long as the end of the data has not been seen). -/
theorem C.get_bind {g : LR → PM β} (heq : lr.v.sawEnd = false → g (ext q lr) = g lr)
    (h : C q (g lr) lr) : C q (get >>= g) lr := by
  intro hJ res lr1 hrun hnp
  rw [run_get_bind] at hrun
  obtain ⟨j1, h1⟩ := h hJ res lr1 hrun hnp
  refine ⟨j1, fun hs => ?_⟩
  obtain ⟨s0, a⟩ := h1 hs
  refine ⟨s0, ?_⟩
  cases res with
  | ok x => show (get >>= g).run (ext q lr) = _; rw [run_get_bind, heq s0]; exact a
  | error e =>
    obtain ⟨s, a'⟩ := a
    exact ⟨s, by rw [run_get_bind, heq s0]; exact a'⟩

/-! ### primitives -/

theorem C.scan {f : View → α × View} (h : SC q f) : C q (PM.scan f) lr := by
  intro hJ res lr1 hrun _
  obtain ⟨rfl, rfl⟩ := Prod.mk.inj
    (show ((.ok (f lr.v).1 : Except PErr α), { lr with v := (f lr.v).2 }) = (res, lr1) from hrun)
  obtain ⟨j1, h1⟩ := h lr.v hJ
  refine ⟨j1, fun hs => ?_⟩
  obtain ⟨s0, e⟩ := h1 hs
  refine ⟨s0, ?_⟩
  show ((.ok (f (extv q lr.v)).1 : Except PErr α), { ext q lr with v := (f (extv q lr.v)).2 }) = _
  rw [e]; rfl

theorem C.reqAt (k : Nat) : C q (PM.reqAt k) lr := C.scan (sc_reqAt q k)

theorem C.reqByte : C q PM.reqByte lr := C.reqAt 0

/-- The state after `advance(n)`. -/
def advLR (n : Nat) (lr : LR) : LR :=
  { lr with v := { lr.v with rest := lr.v.rest.drop n, pos := lr.v.pos + n } }

theorem advance_run (n : Nat) (lr : LR) :
    (PM.advance n).run lr =
      if n ≤ lr.v.demanded then (.ok (), advLR n lr)
      else (.error (.panic "advance beyond scanned data"), lr) := by
  unfold PM.advance
  rw [run_get_bind]
  by_cases hn : n ≤ lr.v.demanded
  · simp only [View.advance, hn, ↓reduceIte]; rfl
  · simp only [View.advance, hn, ↓reduceIte]; rfl

theorem ext_advLR (n : Nat) (lr : LR) (h : n ≤ lr.v.rest.length) :
    advLR n (ext q lr) = ext q (advLR n lr) := by
  simp only [advLR, ext, extv, drop_append_le _ _ _ h]

theorem demanded_ext (n : Nat) (lr : LR) (hn : n ≤ lr.v.demanded) :
    n ≤ lr.v.rest.length ∧ n ≤ (ext q lr).v.demanded := by
  unfold View.demanded at *
  refine ⟨by omega, ?_⟩
  show n ≤ min (lr.v.peeked - lr.v.pos) (lr.v.rest ++ q).length
  simp only [List.length_append]; omega

theorem C.advance (n : Nat) : C q (PM.advance n) lr := by
  intro hJ res lr1 hrun hnp
  rw [advance_run] at hrun
  by_cases hn : n ≤ lr.v.demanded
  · simp only [hn, ↓reduceIte] at hrun
    obtain ⟨rfl, rfl⟩ := Prod.mk.inj hrun
    obtain ⟨hle, hn'⟩ := demanded_ext (q := q) n lr hn
    refine ⟨?_, fun hs => ⟨hs, ?_⟩⟩
    · unfold J JV at *
      simp only [advLR, List.length_drop]
      rw [hJ]; omega
    · show (PM.advance n).run (ext q lr) = _
      rw [advance_run]
      simp only [hn', ↓reduceIte, ext_advLR n lr hle]
  · simp only [hn, ↓reduceIte] at hrun
    obtain ⟨rfl, _⟩ := Prod.mk.inj hrun
    exact absurd hnp (by simp [NoPanic])

theorem bufPrefix_run (n : Nat) (lr : LR) :
    (PM.bufPrefix n).run lr =
      if n ≤ lr.v.demanded then (.ok (lr.v.rest.take n), lr)
      else (.error (.panic "slice beyond scanned data"), lr) := by
  unfold PM.bufPrefix
  rw [run_get_bind]
  by_cases hn : n ≤ lr.v.demanded
  · simp only [View.bufPrefix, hn, ↓reduceIte]; rfl
  · simp only [View.bufPrefix, hn, ↓reduceIte]; rfl

theorem C.bufPrefix (n : Nat) : C q (PM.bufPrefix n) lr := by
  intro hJ res lr1 hrun hnp
  rw [bufPrefix_run] at hrun
  by_cases hn : n ≤ lr.v.demanded
  · simp only [hn, ↓reduceIte] at hrun
    obtain ⟨rfl, rfl⟩ := Prod.mk.inj hrun
    obtain ⟨hle, hn'⟩ := demanded_ext (q := q) n lr hn
    refine ⟨hJ, fun hs => ⟨hs, ?_⟩⟩
    show (PM.bufPrefix n).run (ext q lr) = _
    rw [bufPrefix_run]
    simp only [hn', ↓reduceIte]
    show ((.ok ((lr.v.rest ++ q).take n) : Except PErr VBytes), _) = _
    rw [List.take_append_of_le_length hle]
  · simp only [hn, ↓reduceIte] at hrun
    obtain ⟨rfl, _⟩ := Prod.mk.inj hrun
    exact absurd hnp (by simp [NoPanic])

theorem C.setMark : C q PM.setMark lr := by
  intro hJ res lr1 hrun _
  obtain ⟨rfl, rfl⟩ := Prod.mk.inj (show ((.ok ⟨⟩ : Except PErr PUnit),
    { lr with v := lr.v.setMark }) = (res, lr1) from hrun)
  exact ⟨hJ, fun hs => ⟨hs, rfl⟩⟩

theorem C.position : C q PM.position lr := by
  intro hJ res lr1 hrun _
  obtain ⟨rfl, rfl⟩ := Prod.mk.inj (show ((.ok lr.v.pos : Except PErr Nat), lr) = (res, lr1)
    from hrun)
  exact ⟨hJ, fun hs => ⟨hs, rfl⟩⟩

theorem C.mark : C q PM.mark lr := by
  intro hJ res lr1 hrun _
  obtain ⟨rfl, rfl⟩ := Prod.mk.inj (show ((.ok lr.v.mark : Except PErr Nat), lr) = (res, lr1)
    from hrun)
  exact ⟨hJ, fun hs => ⟨hs, rfl⟩⟩

theorem C.lineAtOffset (off : Nat) : C q (PM.lineAtOffset off) lr := by
  intro hJ res lr1 hrun hnp
  unfold PM.lineAtOffset at hrun
  rw [run_get_bind] at hrun
  by_cases hc : lr.line + 1 > usizeMax ∨ lr.v.pos + off > usizeMax
  · simp only [hc, ↓reduceIte] at hrun
    obtain ⟨rfl, _⟩ := Prod.mk.inj (show ((.error (.panic "line_at_offset overflow") :
      Except PErr Unit), lr) = (res, lr1) from hrun)
    exact absurd hnp (by simp [NoPanic])
  · simp only [hc, ↓reduceIte] at hrun
    obtain ⟨rfl, rfl⟩ := Prod.mk.inj (show ((.ok () : Except PErr Unit),
      { lr with line := lr.line + 1, lineStart := lr.v.pos + off }) = (res, lr1) from hrun)
    refine ⟨hJ, fun hs => ⟨hs, ?_⟩⟩
    show (PM.lineAtOffset off).run (ext q lr) = _
    unfold PM.lineAtOffset
    rw [run_get_bind]
    have hc' : ¬ ((ext q lr).line + 1 > usizeMax ∨ (ext q lr).v.pos + off > usizeMax) := hc
    simp only [hc', ↓reduceIte]
    rfl

/-- The run of `give_up_at`, explicitly. -/
theorem giveUpAt_run (p : Nat) (lr : LR) :
    (PM.giveUpAt p : PM α).run lr =
      (.error (if lr.v.ioErr = true then .io
        else if p < lr.lineStart then .panic "column underflow (position before line start)"
        else .syn lr.line (p - lr.lineStart + 1)), { lr with v := lr.v.checkIoError.2 }) := by
  unfold PM.giveUpAt
  rw [run_get_bind]
  simp only [View.checkIoError]
  by_cases h1 : lr.v.ioErr = true
  · simp only [h1, ↓reduceIte]; rfl
  · by_cases h2 : p < lr.lineStart
    · simp only [h1, h2, ↓reduceIte]; rfl
    · simp only [h1, h2, ↓reduceIte]; rfl

theorem C.giveUpAt (p : Nat) : C q (PM.giveUpAt p : PM α) lr := by
  intro hJ res lr1 hrun _
  rw [giveUpAt_run] at hrun
  obtain ⟨rfl, rfl⟩ := Prod.mk.inj hrun
  exact ⟨hJ, fun hs => ⟨hs, _, giveUpAt_run p (ext q lr)⟩⟩

theorem C.giveUp : C q (PM.giveUp : PM α) lr := by
  unfold PM.giveUp
  exact R2.bind C.position (fun p _ => C.giveUpAt p)

theorem C.utf8Unwrap (bs : VBytes) : C q (PM.utf8Unwrap bs) lr := by
  unfold PM.utf8Unwrap
  split
  · exact R2.pure _
  · exact R2.throw _

theorem R2.orGiveUp {p p' : PM (Option α)} {err err' : PM α} (hp : R2 q p p' lr)
    (he : ∀ lr1, R2 q err err' lr1) : R2 q (PM.orGiveUp p err) (PM.orGiveUp p' err') lr := by
  unfold PM.orGiveUp
  refine R2.bind hp ?_
  intro r lr1
  cases r with
  | some a => exact R2.pure a
  | none => exact he lr1

theorem C.matches {p : PM (Option α)} (hp : C q p lr) : C q (PM.matches p) lr := by
  unfold PM.matches
  exact R2.bind hp (fun r _ => R2.pure _)

theorem C.orParse {p p2 : PM (Option α)} (hp : C q p lr) (hq : ∀ lr1, C q p2 lr1) :
    C q (PM.orParse p p2) lr := by
  unfold PM.orParse
  refine R2.bind hp ?_
  intro r lr1
  cases r with
  | some a => exact R2.pure _
  | none => exact hq lr1

end PM
end Flussab
