/-
C12: termination.  The recursion depth of `transfer` on a well-founded literal is bounded by its
height, and heights are bounded by the number of gates (pigeonhole).
-/
import Flussab.Proof.AigGround

namespace Flussab.Aig

/-- Well-founded with explicit height (longest path to a constant / input / latch). -/
inductive GroundedH (a : Aig) : Nat → Nat → Prop where
  | const : GroundedH a 0 0
  | input (l : Nat) : l ∈ a.inputs → GroundedH a (l / 2) 0
  | latch (l : Latch) : l ∈ a.latches → GroundedH a (l.state / 2) 0
  | gate (g : AndGate) (h0 h1 : Nat) : g ∈ a.gates → GroundedH a (g.in0 / 2) h0 →
      GroundedH a (g.in1 / 2) h1 → GroundedH a (g.out / 2) (max h0 h1 + 1)

theorem Grounded.height {a : Aig} {v : Nat} (h : Grounded a v) : ∃ n, GroundedH a v n := by
  induction h with
  | const => exact ⟨0, .const⟩
  | input l hl => exact ⟨0, .input l hl⟩
  | latch l hl => exact ⟨0, .latch l hl⟩
  | gate g hg _ _ ih0 ih1 =>
    obtain ⟨n0, i0⟩ := ih0
    obtain ⟨n1, i1⟩ := ih1
    exact ⟨_, .gate g n0 n1 hg i0 i1⟩

theorem GroundedH.gate_inv {a : Aig} (hn : (definedVars a).Nodup) {g : AndGate} (hg : g ∈ a.gates)
    {n : Nat} (h : GroundedH a (g.out / 2) n) :
    ∃ h0 h1, n = max h0 h1 + 1 ∧ GroundedH a (g.in0 / 2) h0 ∧ GroundedH a (g.in1 / 2) h1 := by
  obtain ⟨u0, uI, uL, uG⟩ := gate_var_unique hn hg
  generalize hv : g.out / 2 = v at h
  cases h with
  | const => exact absurd hv u0
  | input l hl => exact absurd hv.symm (uI l hl)
  | latch l hl => exact absurd hv.symm (uL l hl)
  | gate g' h0 h1 hg' i0 i1 =>
    have := uG g' hg' hv.symm
    subst this
    exact ⟨h0, h1, rfl, i0, i1⟩

theorem GroundedH.leaf_zero {a : Aig} (hn : (definedVars a).Nodup) {v n : Nat} (h : GroundedH a v n)
    (hleaf : v = 0 ∨ (∃ l ∈ a.inputs, l / 2 = v) ∨ ∃ l ∈ a.latches, l.state / 2 = v) : n = 0 := by
  cases h with
  | const => rfl
  | input => rfl
  | latch => rfl
  | gate g h0 h1 hg _ _ =>
    obtain ⟨u0, uI, uL, _⟩ := gate_var_unique hn hg
    rcases hleaf with h | ⟨l, hl, he⟩ | ⟨l, hl, he⟩
    · exact absurd h u0
    · exact absurd he (uI l hl)
    · exact absurd he (uL l hl)

/-- The height is a function of the variable. -/
theorem GroundedH.unique {a : Aig} (hn : (definedVars a).Nodup) {v n n' : Nat}
    (h : GroundedH a v n) (h' : GroundedH a v n') : n = n' := by
  induction h generalizing n' with
  | const => exact (h'.leaf_zero hn (Or.inl rfl)).symm
  | input l hl => exact (h'.leaf_zero hn (Or.inr (Or.inl ⟨l, hl, rfl⟩))).symm
  | latch l hl => exact (h'.leaf_zero hn (Or.inr (Or.inr ⟨l, hl, rfl⟩))).symm
  | gate g h0 h1 hg _ _ ih0 ih1 =>
    obtain ⟨k0, k1, rfl, j0, j1⟩ := h'.gate_inv hn hg
    rw [ih0 j0, ih1 j1]

theorem GroundedH.pos_gate {a : Aig} {v n : Nat} (h : GroundedH a v n) (hp : 0 < n) :
    v ∈ a.gates.map (·.out / 2) := by
  cases h with
  | const => omega
  | input => omega
  | latch => omega
  | gate g _ _ hg _ _ => exact List.mem_map.mpr ⟨g, hg, rfl⟩

/-- Below a variable of height `n` there is a variable of every height `1..n`. -/
theorem GroundedH.every_height {a : Aig} {v n : Nat} (h : GroundedH a v n) :
    ∀ k, 1 ≤ k → k ≤ n → ∃ w, GroundedH a w k := by
  induction h with
  | const => intro k h1 h2; omega
  | input => intro k h1 h2; omega
  | latch => intro k h1 h2; omega
  | gate g h0 h1 hg i0 i1 ih0 ih1 =>
    intro k hk1 hk2
    by_cases he : k = max h0 h1 + 1
    · subst he; exact ⟨_, .gate g h0 h1 hg i0 i1⟩
    · by_cases hk0 : k ≤ h0
      · exact ih0 k hk1 hk0
      · exact ih1 k hk1 (by omega)

/-- Pigeonhole: the height of a variable is at most the number of gates. -/
theorem GroundedH.le_gates {a : Aig} (hn : (definedVars a).Nodup) {v n : Nat} (h : GroundedH a v n) :
    n ≤ a.gates.length := by
  have key : ∀ m, m ≤ n → ∃ c : List Nat, c.length = m ∧ c.Nodup ∧
      ∀ x ∈ c, ∃ k, 1 ≤ k ∧ k ≤ m ∧ GroundedH a x k := by
    intro m
    induction m with
    | zero => intro _; exact ⟨[], rfl, List.nodup_nil, by simp⟩
    | succ m ih =>
      intro hm
      obtain ⟨c, c1, c2, c3⟩ := ih (by omega)
      obtain ⟨w, hw⟩ := h.every_height (m + 1) (by omega) hm
      refine ⟨w :: c, by simp [c1], ?_, ?_⟩
      · rw [List.nodup_cons]
        refine ⟨?_, c2⟩
        intro hmem
        obtain ⟨k, _, k2, k3⟩ := c3 w hmem
        have := GroundedH.unique hn hw k3
        omega
      · intro x hx
        rcases List.mem_cons.mp hx with rfl | hx
        · exact ⟨m + 1, by omega, by omega, hw⟩
        · obtain ⟨k, k1, k2, k3⟩ := c3 x hx
          exact ⟨k, k1, by omega, k3⟩
  obtain ⟨c, c1, c2, c3⟩ := key n (Nat.le_refl _)
  have hsub : ∀ x ∈ c, x ∈ a.gates.map (·.out / 2) := by
    intro x hx
    obtain ⟨k, k1, _, k3⟩ := c3 x hx
    exact k3.pos_gate (by omega)
  have := c2.length_le_of_subset hsub
  rw [c1, List.length_map] at this
  exact this

/-! ### fuel -/

theorem transfer_fuel {a : Aig} {defs : Defs} (hd : DefsOk a defs) (hn : (definedVars a).Nodup)
    (cfg : Config) :
    ∀ (fuel : Nat) (path : List Nat) (st : St) (lit n : Nat), GroundedH a (lit / 2) n → n < fuel →
      transfer cfg defs fuel path st lit ≠ .outOfFuel := by
  intro fuel
  induction fuel with
  | zero => intro _ _ _ n _ h; omega
  | succ fuel ih =>
    intro path st lit n hg hlt
    unfold transfer
    split
    · simp
    · split
      · simp
      · split
        · simp
        · rename_i d hfd
          obtain ⟨hmem, hl⟩ := findDef_mem hd hfd
          rw [hl] at hg
          obtain ⟨h0, h1, rfl, g0, g1⟩ := hg.gate_inv hn hmem
          split
          · split
            · simp
            · simp
            · rename_i hof
              exact absurd hof (ih _ _ _ h1 g1 (by omega))
          · simp
          · rename_i hof
            exact absurd hof (ih _ _ _ h0 g0 (by omega))

theorem transferAll_fuel {a : Aig} {defs : Defs} (hd : DefsOk a defs) (hn : (definedVars a).Nodup)
    (cfg : Config) (fuel : Nat) :
    ∀ (lits : List Nat) (st : St), (∀ l ∈ lits, ∃ n, GroundedH a (l / 2) n ∧ n < fuel) →
      transferAll cfg defs fuel lits st ≠ .outOfFuel := by
  intro lits
  induction lits with
  | nil => intro st _; simp [transferAll]
  | cons l rest ih =>
    intro st h
    simp only [transferAll]
    split
    · exact ih _ (fun l' hl' => h l' (List.mem_cons_of_mem _ hl'))
    · simp
    · rename_i hof
      obtain ⟨n, g, hlt⟩ := h l (by simp)
      exact absurd hof (transfer_fuel hd hn cfg _ _ _ _ n g hlt)

/-- Fuel exceeding the number of gates is enough whenever all roots are well-founded. -/
theorem renumber_fuel {cfg : Config} {a : Aig} {fuel : Nat}
    (hg : ∀ r ∈ roots cfg a, Grounded a (r / 2)) (hf : a.gates.length < fuel) :
    renumber cfg a fuel ≠ .outOfFuel := by
  unfold renumber initState
  cases h1 : litDefs a with
  | error e => simp
  | ok defs =>
    cases h2 : initLatches defs a.latches (initInputs a.inputs St.init) with
    | error e => simp [h2]
    | ok st0 =>
      have hn := init_nodup h1 h2
      have := transferAll_fuel (litDefs_defsOk h1) hn cfg fuel (roots cfg a) st0 (by
        intro l hl
        obtain ⟨n, gn⟩ := (hg l hl).height
        exact ⟨n, gn, by have := gn.le_gates hn; omega⟩)
      simp only [h2]
      split
      · simp
      · rename_i hof; exact absurd hof this
      · simp

end Flussab.Aig
