/-
Specification vocabulary for C12: relational semantics of an (arbitrary, possibly cyclic) `Aig`,
well-foundedness of variables, the defined-variable list, dependency paths.
-/
import Flussab.Proof.AigBasic

namespace Flussab.Aig

/-- `σ` (a valuation of the *old* variables) is consistent with `a`: the constant is false and
every and-gate equation holds (polarity of a literal = parity of its code).  Needs no acyclicity. -/
def Consistent (a : Aig) (σ : Nat → Bool) : Prop :=
  σ 0 = false ∧ ∀ g ∈ a.gates, litVal σ g.out = (litVal σ g.in0 && litVal σ g.in1)

/-- Values of the new variables `0 .. I+L`: constant, then the old input literals in order, then
the old latch-state literals in order (`σ` restricted to old inputs and latches). -/
def baseOf (a : Aig) (σ : Nat → Bool) : List Bool :=
  false :: (a.inputs.map (litVal σ) ++ a.latches.map (fun l => litVal σ l.state))

theorem baseOf_length (a : Aig) (σ : Nat → Bool) :
    (baseOf a σ).length = a.inputs.length + a.latches.length + 1 := by
  simp [baseOf]

/-- All variable values of the renumbered circuit under `σ` restricted to inputs and latches. -/
def newVals (a : Aig) (gates : List OGate) (σ : Nat → Bool) : List Bool :=
  evalGates gates (baseOf a σ)

theorem newVals_eq_evalOrd (a : Aig) (gates : List OGate) (σ : Nat → Bool) :
    newVals a gates σ = evalOrd gates (a.inputs.map (litVal σ)) (a.latches.map (fun l => litVal σ l.state)) := rfl

/-- The literals that define a variable, in the order in which the code checks them. -/
def definedLits (a : Aig) : List Nat :=
  0 :: (a.inputs ++ a.gates.map (·.out) ++ a.latches.map (·.state))

/-- The variables with a definition (with multiplicity). -/
def definedVars (a : Aig) : List Nat := (definedLits a).map (· / 2)

/-- Variable `v` is well-founded: it is the constant, an input, a latch, or the output of a gate
whose two input variables are well-founded. -/
inductive Grounded (a : Aig) : Nat → Prop where
  | const : Grounded a 0
  | input (l : Nat) : l ∈ a.inputs → Grounded a (l / 2)
  | latch (l : Latch) : l ∈ a.latches → Grounded a (l.state / 2)
  | gate (g : AndGate) : g ∈ a.gates → Grounded a (g.in0 / 2) → Grounded a (g.in1 / 2) →
      Grounded a (g.out / 2)

/-- `Dep a v w`: variable `v` is a gate output and `w` one of that gate's input variables. -/
def Dep (a : Aig) (v w : Nat) : Prop :=
  ∃ g ∈ a.gates, g.out / 2 = v ∧ (g.in0 / 2 = w ∨ g.in1 / 2 = w)

/-- One or more dependency steps. -/
inductive DepPlus (a : Aig) : Nat → Nat → Prop where
  | single {v w : Nat} : Dep a v w → DepPlus a v w
  | cons {v w x : Nat} : Dep a v w → DepPlus a w x → DepPlus a v x

/-- Zero or more dependency steps. -/
def DepStar (a : Aig) (v w : Nat) : Prop := v = w ∨ DepPlus a v w

/-- `v` has no definition at all. -/
def Undefined (a : Aig) (v : Nat) : Prop := v ∉ definedVars a

/-- `v` lies on a combinational cycle. -/
def OnCycle (a : Aig) (v : Nat) : Prop := DepPlus a v v

end Flussab.Aig
