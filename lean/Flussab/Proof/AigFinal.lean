/-
C12: reading the final state: images of literals are bounded and sound.
-/
import Flussab.Proof.AigFuel

namespace Flussab.Aig

theorem mapLit_bound {a : Aig} {st : St} (h : Inv a st) (l : Nat) :
    mapLit st.litMap l ≤ st.lastCode + 1 := by
  unfold mapLit
  cases hg : st.litMap.get l with
  | none => simp
  | some t =>
    obtain ⟨v, hm, rfl⟩ := LitMap.get_eq_some hg
    exact xor_bit_le v _ _ (by omega) h.code_even (h.mapBound _ _ hm)

theorem get_sound {a : Aig} {st : St} (h : Inv a st) {σ : Nat → Bool} (hc : Consistent a σ)
    {k t : Nat} (hg : st.litMap.get k = some t) : litValL (st.vals a σ) t = litVal σ k := by
  obtain ⟨v, hm, rfl⟩ := LitMap.get_eq_some hg
  exact sound_get σ _ k v (h.mapSound σ hc _ _ hm)

theorem mapLit_sound {a : Aig} {st : St} (h : Inv a st) {σ : Nat → Bool} (hc : Consistent a σ)
    {r : Nat} (hk : st.litMap.HasKey r) : litValL (st.vals a σ) (mapLit st.litMap r) = litVal σ r := by
  unfold mapLit
  have := (LitMap.get_isSome_iff _ _).mpr hk
  cases hg : st.litMap.get r with
  | none => simp [hg] at this
  | some t => exact get_sound h hc hg


theorem mem_roots_next {cfg : Config} {a : Aig} {l : Latch} (h : l ∈ a.latches) : l.next ∈ roots cfg a := by
  simp only [roots, List.mem_append, List.mem_map]
  exact Or.inl (Or.inl (Or.inl (Or.inl (Or.inl (Or.inr ⟨l, h, rfl⟩)))))

theorem mem_roots_outputs {cfg : Config} {a : Aig} {r : Nat} (h : r ∈ a.outputs) : r ∈ roots cfg a := by
  simp only [roots, List.mem_append]; exact Or.inl (Or.inl (Or.inl (Or.inl (Or.inr h))))

theorem mem_roots_bad {cfg : Config} {a : Aig} {r : Nat} (h : r ∈ a.bad) : r ∈ roots cfg a := by
  simp only [roots, List.mem_append]; exact Or.inl (Or.inl (Or.inl (Or.inr h)))

theorem mem_roots_constraints {cfg : Config} {a : Aig} {r : Nat} (h : r ∈ a.constraints) :
    r ∈ roots cfg a := by
  simp only [roots, List.mem_append]; exact Or.inl (Or.inl (Or.inr h))

theorem mem_roots_fairness {cfg : Config} {a : Aig} {r : Nat} (h : r ∈ a.fairness) : r ∈ roots cfg a := by
  simp only [roots, List.mem_append]; exact Or.inl (Or.inr h)

theorem mem_roots_justice {cfg : Config} {a : Aig} {js : List Nat} {r : Nat} (hj : js ∈ a.justice)
    (h : r ∈ js) : r ∈ roots cfg a := by
  simp only [roots, List.mem_append, List.mem_flatten]; exact Or.inr ⟨js, hj, h⟩

theorem mem_roots_gate {a : Aig} {g : AndGate} {h t : Bool} (hg : g ∈ a.gates) :
    g.out ∈ roots ⟨false, h, t⟩ a := by
  simp only [roots, List.mem_append, Bool.false_eq_true, if_false]
  exact Or.inl (Or.inl (Or.inl (Or.inl (Or.inl (Or.inl (List.mem_map.mpr ⟨g, hg, rfl⟩))))))

end Flussab.Aig
