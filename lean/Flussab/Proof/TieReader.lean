/-
Proofs of the tie between the generated reader model (`Gen/ReaderGen.lean`, from
`deferred_reader.rs`) and `Model/Reader.lean`.  The statements that count are collected in
`Props/TieReader.lean`.
-/
import Flussab.Gen.ReaderGen
import Flussab.Proof.Reader

namespace Flussab
namespace TieReaderAux

open Flussab

theorem setChunkSize_eq (r : Reader) (c : Nat) :
    Gen.Reader.setChunkSize c r = (some (), r.setChunkSize c) := rfl

theorem bufLen_eq (r : Reader) : Gen.Reader.bufLen r = (some r.bufLen, r) := rfl

theorem position_eq (r : Reader) : Gen.Reader.position r = (some r.position, r) := rfl

theorem mark_eq (r : Reader) : Gen.Reader.mark r = (some r.mark, r) := rfl

theorem setMark_eq (r : Reader) : Gen.Reader.setMark r = (some (), r.setMark) := rfl

theorem setMarkToPosition_eq (r : Reader) (p : Nat) :
    Gen.Reader.setMarkToPosition p r = (some (), r.setMarkToPosition p) := rfl

theorem isComplete_eq (r : Reader) : Gen.Reader.isComplete r = (some r.isComplete, r) := rfl

theorem isAtEnd_eq (r : Reader) : Gen.Reader.isAtEnd r = (some r.isAtEnd, r) := rfl

theorem checkIoError_eq (r : Reader) :
    Gen.Reader.checkIoError r =
      (some (if r.ioError then Except.error IoErr.other else Except.ok ()), r.checkIoError.2) := by
  simp [Gen.Reader.checkIoError, Reader.checkIoError, ReaderExt.takeIoError, ReaderExt.optOfBool]
  cases r.ioError <;> simp

theorem ioError_eq (r : Reader) :
    Gen.Reader.ioError r = (some (ReaderExt.optOfBool r.ioError), r) := rfl

/-- `advance`: same result, same state — in particular the state is untouched when it panics. -/
theorem advance_eq (r : Reader) (n : Nat) : Gen.Reader.advance n r = r.advance n := by
  simp [Gen.Reader.advance, Reader.advance, usizeOSub]
  split <;> simp_all

theorem sliceChecked_window (r : Reader) (h : r.posInBuf + r.validLen ≤ r.buf.length) :
    sliceChecked r.buf r.posInBuf (r.posInBuf + r.validLen) = some r.window := by
  simp [sliceChecked, Reader.window, h]

/-- `buf()`: the `get_unchecked` range is inside the vector (its `debug_assert!` holds) and the slice
is the model's window. -/
theorem buf_eq (r : Reader) (h : r.posInBuf + r.validLen ≤ r.buf.length) :
    Gen.Reader.buf r = (some r.window, r) := by
  simp [Gen.Reader.buf, sliceChecked_window r h]

theorem advanceWithBuf_eq (r : Reader) (n : Nat) (h : r.posInBuf + r.validLen ≤ r.buf.length) :
    Gen.Reader.advanceWithBuf n r = r.advanceWithBuf n := by
  simp only [Gen.Reader.advanceWithBuf, Reader.advanceWithBuf, RM.bind_apply, advance_eq]
  unfold Reader.advance
  by_cases hn : r.validLen < n
  · simp [hn]
  · have : r.posInBuf + n ≤ r.buf.length := by omega
    simp [hn, RM.usub_apply, RM.assert_apply, sliceChecked, this]

theorem advanceUnchecked_eq (r : Reader) (n : Nat) (h : n ≤ r.validLen) :
    Gen.Reader.advanceUnchecked n r = r.advance n := by
  have : ¬ r.validLen < n := by omega
  simp [Gen.Reader.advanceUnchecked, Reader.advance, RM.usub_apply, RM.assert_apply, h, this]

theorem writeAt_nil (l : Bytes) (i : Nat) : writeAt l i [] = l := by
  simp [writeAt]

/-! ### the `Interrupted` retry loop of `request_more` -/

/-- What one un-retried `read` into `buf[a..te]` does, in terms of `Source.read`. -/
theorem loop1_step (r : Reader) (te fuel : Nat)
    (hb : r.posInBuf + r.validLen ≤ te ∧ te ≤ r.buf.length)
    (hc : te - (r.posInBuf + r.validLen) = r.chunk) :
    Gen.Reader.requestMore.loop1 te (fuel + 1) () r =
      match r.src.read r.chunk with
      | (.data [], s) => (some (Ctl.brk ()), { r with src := s, complete := true })
      | (.data bs, s) =>
          if bs.length ≤ r.chunk then
            (some (Ctl.brk ()), { r with src := s, buf := writeAt r.buf (r.posInBuf + r.validLen) bs,
                                         validLen := r.validLen + bs.length })
          else (none, { r with src := s, buf := writeAt r.buf (r.posInBuf + r.validLen) bs })
      | (.intr, s) => Gen.Reader.requestMore.loop1 te fuel () { r with src := s }
      | (.err, s) => (some (Ctl.brk ()), { r with src := s, ioError := true, complete := true })
      | (.lie n, s) => if n = 0 then (some (Ctl.brk ()), { r with src := s, complete := true })
          else if n ≤ r.chunk then (some (Ctl.brk ()), { r with src := s, validLen := r.validLen + n })
          else (none, { r with src := s }) := by
  rw [Gen.Reader.requestMore.loop1]
  simp only [RM.bind_apply, RM.get_apply, ReaderExt.readInto, hb, and_self, if_true, hc]
  rcases hr : r.src.read r.chunk with ⟨res, s⟩
  cases res with
  | data bs =>
    cases bs with
    | nil => simp [writeAt_nil]
    | cons b bs =>
      simp [RM.assert_apply]
      by_cases h : bs.length + 1 ≤ r.chunk <;> simp [h]
  | intr => simp
  | err => simp
  | lie n =>
    cases n with
    | zero => simp
    | succ n => simp [RM.assert_apply]; by_cases h : n + 1 ≤ r.chunk <;> simp [h]

open Source in
theorem readRetry_intr (s : Source) (rest : List Ev) (cap : Nat) (hp : s.pre = []) (hs : s.sched = .intr :: rest) :
    s.readRetry cap = ({ s with calls := s.calls + 1,
                                afterEnd := if s.ended then s.afterEnd + 1 else s.afterEnd,
                                sched := rest } : Source).readRetry cap := by
  simp only [Source.readRetry, hp, hs, Source.skipIntr]
  simp only [List.isEmpty_nil, Bool.not_true, Bool.false_eq_true, if_false]
  congr 2
  · omega
  · cases s.ended <;> simp <;> omega

open Source in
theorem readRetry_nonintr (s : Source) (cap : Nat) (h : s.pre ≠ [] ∨ ∀ t, s.sched ≠ .intr :: t) :
    s.readRetry cap = s.read cap := by
  unfold Source.readRetry
  by_cases hp : s.pre = []
  · have hh : ∀ t, s.sched ≠ .intr :: t := by
      rcases h with h | h
      · exact absurd hp h
      · exact h
    have : Source.skipIntr s.sched = (0, s.sched) := by
      cases hs : s.sched with
      | nil => rfl
      | cons e t =>
        cases e with
        | intr => exact absurd hs (hh t)
        | give n => rfl
        | lie x => rfl
    simp [hp, this]
    congr 1
    cases s; simp_all
  · have : s.pre.isEmpty = false := by
      cases h' : s.pre with
      | nil => exact absurd h' hp
      | cons a t => rfl
    simp [this]

open Source in
theorem deliver_bounds (s : Source) (n cap : Nat) :
    match s.deliver n cap with
    | (.data bs, _) => bs.length ≤ cap
    | (.lie _, _) => False
    | (.intr, _) => False
    | _ => True := by
  unfold Source.deliver
  by_cases h1 : min (min n cap) s.data.length = 0
  · simp only [h1, if_true]
    by_cases h2 : s.data.isEmpty
    · simp only [h2, if_true]
      cases s.fault <;> simp
    · simp [h2]
  · simp only [h1, if_false]
    simp; omega

open Source in
theorem read_bounds (s : Source) (cap : Nat) :
    match s.read cap with
    | (.data bs, _) => bs.length ≤ cap
    | (.lie n, _) => cap < n
    | _ => True := by
  unfold Source.read
  by_cases hp : s.pre.isEmpty
  · simp only [hp, Bool.not_true, Bool.false_eq_true, if_false]
    cases hs : s.sched with
    | nil =>
      simp only
      have := deliver_bounds { s with calls := s.calls + 1, afterEnd := if s.ended then s.afterEnd + 1 else s.afterEnd } cap cap
      revert this
      split <;> simp_all
    | cons e t =>
      cases e with
      | intr => simp
      | lie x => simp; omega
      | give n =>
        simp only
        have := deliver_bounds { s with calls := s.calls + 1, afterEnd := if s.ended then s.afterEnd + 1 else s.afterEnd, sched := t } (max n 1) cap
        revert this
        split <;> simp_all
  · simp [hp]; omega

open Source in
theorem read_intr (s : Source) (rest : List Ev) (cap : Nat) (hp : s.pre = []) (hs : s.sched = .intr :: rest) :
    s.read cap = (.intr, { s with calls := s.calls + 1,
                                  afterEnd := if s.ended then s.afterEnd + 1 else s.afterEnd,
                                  sched := rest }) := by
  simp [Source.read, hp, hs]

open Source in
theorem deliver_not_intr (s : Source) (n cap : Nat) : (s.deliver n cap).1 ≠ .intr := by
  simp only [Source.deliver]
  split
  · split
    · cases s.fault <;> simp
    · simp
  · simp

open Source in
theorem read_not_intr (s : Source) (cap : Nat) (h : s.pre ≠ [] ∨ ∀ t, s.sched ≠ .intr :: t) :
    (s.read cap).1 ≠ .intr := by
  unfold Source.read
  by_cases hp : s.pre.isEmpty
  · have hh : ∀ t, s.sched ≠ .intr :: t := by
      rcases h with h | h
      · simp at hp; exact absurd hp h
      · exact h
    simp only [hp, Bool.not_true, Bool.false_eq_true, if_false]
    cases hs : s.sched with
    | nil => exact deliver_not_intr _ _ _
    | cons e t =>
      cases e with
      | intr => exact absurd hs (hh t)
      | lie x => simp
      | give n => exact deliver_not_intr _ _ _
  · simp [hp]

/-- How the loop result is read off the model's `readStep`. -/
def post (p : Option Bool × Reader) : Option (Ctl Unit Bool) × Reader :=
  match p with
  | (some _, r') => (some (Ctl.brk ()), r')
  | (none, r') => (none, r')

theorem loop1_eq (fuel : Nat) : ∀ (r : Reader) (te : Nat),
    r.src.sched.length < fuel →
    r.posInBuf + r.validLen ≤ te → te ≤ r.buf.length → te - (r.posInBuf + r.validLen) = r.chunk →
    Gen.Reader.requestMore.loop1 te fuel () r = post r.readStep := by
  induction fuel with
  | zero => intro r te h; omega
  | succ fuel ih =>
    intro r te hf h1 h2 hc
    rw [loop1_step r te fuel ⟨h1, h2⟩ hc]
    by_cases hi : r.src.pre = [] ∧ ∃ rest, r.src.sched = Ev.intr :: rest
    · obtain ⟨hp, rest, hs⟩ := hi
      rw [read_intr r.src rest r.chunk hp hs]
      simp only
      rw [ih]
      rotate_left
      · simp only [hs, List.length_cons] at hf; simp only; omega
      · exact h1
      · exact h2
      · exact hc
      unfold Reader.readStep
      rw [readRetry_intr r.src rest r.chunk hp hs]
    · have hn : r.src.pre ≠ [] ∨ ∀ t, r.src.sched ≠ Ev.intr :: t := by
        by_cases hp : r.src.pre = []
        · right; intro t ht; exact hi ⟨hp, t, ht⟩
        · left; exact hp
      unfold Reader.readStep
      rw [readRetry_nonintr r.src r.chunk hn]
      have hb := read_bounds r.src r.chunk
      rcases hr : r.src.read r.chunk with ⟨res, s⟩
      rw [hr] at hb
      cases res with
      | data bs =>
        cases bs with
        | nil => simp [post]
        | cons b bs => simp at hb; simp [post, hb]
      | intr => exact absurd (by rw [hr]) (read_not_intr r.src r.chunk hn)
      | err => simp [post]
      | lie n =>
        simp at hb
        have : n ≠ 0 := by omega
        have h3 : ¬ n ≤ r.chunk := by omega
        simp [post, this, h3]

theorem readStep_true (r : Reader) :
    (match r.readStep with | (some _, r') => (some true, r') | (none, r') => (none, r')) = r.readStep := by
  unfold Reader.readStep
  rcases r.src.readRetry r.chunk with ⟨res, s⟩
  cases res with
  | data bs => cases bs <;> rfl
  | intr => rfl
  | err => rfl
  | lie n => rfl

/-- The tail of `request_more` after realign / grow: the generated retry loop is `readStep`. -/
theorem k3_eq (r : Reader) (te : Nat) (h1 : r.posInBuf + r.validLen ≤ te) (h2 : te ≤ r.buf.length)
    (hc : te - (r.posInBuf + r.validLen) = r.chunk) :
    Gen.Reader.requestMore.k3 te r = r.readStep := by
  unfold Gen.Reader.requestMore.k3
  simp only [RM.bind_apply, RM.get_apply]
  rw [loop1_eq _ r te (by simp [ReaderExt.retryFuel]) h1 h2 hc]
  conv => rhs; rw [← readStep_true]
  rcases r.readStep with ⟨_ | b, r'⟩ <;> simp [post]

theorem k2_eq (r : Reader) (h : r.posInBuf + r.validLen ≤ r.buf.length) :
    Gen.Reader.requestMore.k2 r = r.growStep.readStep := by
  unfold Gen.Reader.requestMore.k2 Reader.growStep
  by_cases hg : r.buf.length < r.posInBuf + r.validLen + r.chunk
  · have hg' : ¬ (r.posInBuf + r.validLen + r.chunk ≤ r.buf.length) := by omega
    simp [hg, hg', ReaderExt.resize]
    exact k3_eq _ _ (by simp) (by simp; omega) (by simp)
  · simp [hg]
    exact k3_eq _ _ (by omega) (by omega) (by omega)

theorem k1_eq (r : Reader) (h : r.posInBuf + r.validLen ≤ r.buf.length) :
    Gen.Reader.requestMore.k1 r = r.realignStep.growStep.readStep := by
  unfold Gen.Reader.requestMore.k1 Reader.realignStep
  by_cases hre : r.posInBuf > r.chunk * 2
  · have hcw : r.posInBuf ≤ r.posInBuf + r.validLen ∧ r.posInBuf + r.validLen ≤ r.buf.length ∧
        0 + (r.posInBuf + r.validLen - r.posInBuf) ≤ r.buf.length := by omega
    have hv : r.validLen ≤ r.buf.length := by omega
    have hlen : (writeAt r.buf 0 (List.take r.validLen (List.drop r.posInBuf r.buf))).length = r.buf.length :=
      Reader.length_writeAt _ _ _ (by simp; omega)
    simp only [hre, decide_true, if_true, RM.bind_apply, RM.get_apply, ReaderExt.copyWithin, hcw, and_self,
      RM.modify_apply, Reader.moveStep, Reader.shrinkStep, ReaderExt.truncate]
    by_cases hs : 4 * (r.validLen + r.chunk) < r.buf.length
    · simp [hs, hlen]
      exact k2_eq _ (by simp [hlen]; omega)
    · simp [hs, hlen]
      exact k2_eq _ (by simp [hlen]; omega)
  · simp [hre]
    exact k2_eq r h

theorem requestMore_eq (r : Reader) (h : r.Ok) : Gen.Reader.requestMore r = r.requestMore := by
  unfold Gen.Reader.requestMore Reader.requestMore
  have hin := h.inBuf
  by_cases hc : r.complete
  · simp [hc]
  · have hno : ¬ (r.posInBuf > r.chunk * 2 ∧ r.posInBuf + r.validLen > r.buf.length) := by omega
    simp [hc, hno]
    exact k1_eq r hin

/-- Fuel a refill loop needs from state `r`. -/
def need (r : Reader) : Nat := if r.complete then 1 else r.src.pre.length + r.src.data.length + 2

def postU (p : Option Unit × Reader) : Option (Ctl Unit Unit) × Reader :=
  match p with
  | (some _, r') => (some (Ctl.brk ()), r')
  | (none, r') => (none, r')

theorem requestCold_loop_eq (len : Nat) (f : Nat) : ∀ (r : Reader), r.Ok → need r ≤ f →
    Gen.Reader.requestCold.loop1 len f () r = postU (r.requestLoop f len) := by
  induction f with
  | zero => intro r _ hn; unfold need at hn; split at hn <;> omega
  | succ f ih =>
    intro r h hn
    rw [Gen.Reader.requestCold.loop1]
    unfold Reader.requestLoop
    by_cases hv : r.validLen < len
    · simp only [RM.bind_apply, RM.get_apply, hv, decide_true, if_true, requestMore_eq r h]
      rcases Reader.requestMore_spec r h with ⟨hc, he⟩ | ⟨hc, r1, bs, he, hf, hok, _⟩ | ⟨hc, r1, he, hl, hok, _⟩
      · rw [he]; simp [postU]
      · rw [he]
        simp only [RM.pure_apply, Bool.not_true, Bool.false_eq_true, if_false]
        apply ih r1 hok
        unfold need at hn ⊢
        simp only [hc, Bool.false_eq_true, if_false] at hn
        split
        · omega
        · rename_i hc1
          have hb : bs ≠ [] := fun hb => hc1 (hf.atEnd hb).1
          have hs := congrArg List.length hf.stream
          simp only [List.length_append] at hs
          have : 0 < bs.length := List.length_pos_iff.mpr hb
          omega
      · rw [he]; simp [postU]
    · simp [hv, postU]

theorem need_le_fuel (r : Reader) : need r ≤ r.fuel + 1 := by
  unfold need Reader.fuel; split <;> omega

theorem requestCold_eq (r : Reader) (h : r.Ok) (len : Nat) :
    Gen.Reader.requestCold len r = r.requestLoop (r.fuel + 1) len := by
  unfold Gen.Reader.requestCold
  simp only [RM.bind_apply, RM.get_apply]
  rw [requestCold_loop_eq len _ r h (need_le_fuel r)]
  rcases r.requestLoop (r.fuel + 1) len with ⟨_ | u, r'⟩ <;> simp [postU]

theorem request_eq (r : Reader) (h : r.Ok) (len : Nat) : Gen.Reader.request len r = r.request len := by
  unfold Gen.Reader.request Reader.request
  by_cases hv : r.validLen < len
  · simp only [RM.bind_apply, RM.get_apply, hv, decide_true, if_true, requestCold_eq r h]
    rcases Reader.requestLoop_spec (r.fuel + 1) r len h with ⟨r', bs, e, ok, _⟩ | ⟨r', bs, e, ok, _⟩
    · rw [e]; simp [buf_eq r' ok.inBuf]
    · rw [e]
  · have : r.requestLoop (r.fuel + 1) len = (some (), r) := by
      unfold Reader.requestLoop; simp [hv]
    simp [hv, this, buf_eq r h.inBuf]

def postB (k : Nat) (p : Option Unit × Reader) : Option (Ctl Unit (Option UInt8)) × Reader :=
  match p with
  | (some _, r') => if r'.validLen ≤ k then (some (Ctl.ret none), r') else (some (Ctl.brk ()), r')
  | (none, r') => (none, r')

theorem rbCold_loop_eq (k : Nat) (f : Nat) : ∀ (r : Reader), r.Ok → need r ≤ f →
    Gen.Reader.requestByteAtOffsetCold.loop1 k f () r = postB k (r.requestLoop f (k + 1)) := by
  induction f with
  | zero => intro r _ hn; unfold need at hn; split at hn <;> omega
  | succ f ih =>
    intro r h hn
    rw [Gen.Reader.requestByteAtOffsetCold.loop1]
    unfold Reader.requestLoop
    by_cases hv : r.validLen ≤ k
    · have hv' : r.validLen < k + 1 := by omega
      simp only [RM.bind_apply, RM.get_apply, hv, hv', decide_true, if_true, Bool.not_true, Bool.false_eq_true,
        if_false, requestMore_eq r h]
      rcases Reader.requestMore_spec r h with ⟨hc, he⟩ | ⟨hc, r1, bs, he, hf, hok, _⟩ | ⟨hc, r1, he, hl, hok, _⟩
      · rw [he]; simp [postB, hv]
      · rw [he]
        simp only [RM.pure_apply, Bool.not_true, Bool.false_eq_true, if_false]
        apply ih r1 hok
        unfold need at hn ⊢
        simp only [hc, Bool.false_eq_true, if_false] at hn
        split
        · omega
        · rename_i hc1
          have hb : bs ≠ [] := fun hb => hc1 (hf.atEnd hb).1
          have hs := congrArg List.length hf.stream
          simp only [List.length_append] at hs
          have : 0 < bs.length := List.length_pos_iff.mpr hb
          omega
      · rw [he]; simp [postB]
    · have hv' : ¬ r.validLen < k + 1 := by omega
      have hv2 : k < r.validLen := by omega
      simp [hv, hv', hv2, postB]

theorem index_window (r : Reader) (h : r.posInBuf + r.validLen ≤ r.buf.length) (k : Nat) (hk : k < r.validLen) :
    indexChecked r.buf (r.posInBuf + k) = r.window[k]? ∧ (r.window[k]?).isSome := by
  simp [indexChecked, Reader.window, List.getElem?_take, hk]
  omega

theorem requestByteAtOffsetCold_eq (r : Reader) (h : r.Ok) (k : Nat) :
    Gen.Reader.requestByteAtOffsetCold k r = r.requestByteAt k := by
  unfold Gen.Reader.requestByteAtOffsetCold Reader.requestByteAt
  simp only [RM.bind_apply, RM.get_apply]
  rw [rbCold_loop_eq k _ r h (need_le_fuel r)]
  rcases Reader.requestLoop_spec (r.fuel + 1) r (k + 1) h with ⟨r', bs, e, ok, _⟩ | ⟨r', bs, e, ok, _⟩
  · rw [e]
    by_cases hv : r'.validLen ≤ k
    · have : r'.window[k]? = none := by
        apply List.getElem?_eq_none
        rw [Reader.window_length r' ok.inBuf]; exact hv
      simp [postB, hv, this]
    · obtain ⟨h1, h2⟩ := index_window r' ok.inBuf k (by omega)
      simp only [postB, hv, if_false, RM.pure_apply, RM.bind_apply, RM.get_apply, RM.liftOpt_apply, h1]
      rcases hw : r'.window[k]? with _ | b
      · rw [hw] at h2; simp at h2
      · rfl
  · rw [e]; simp [postB]

theorem requestByteAtOffset_eq (r : Reader) (h : r.Ok) (k : Nat) :
    Gen.Reader.requestByteAtOffset k r = r.requestByteAt k := by
  unfold Gen.Reader.requestByteAtOffset
  by_cases hv : k < r.validLen
  · have hl : r.requestLoop (r.fuel + 1) (k + 1) = (some (), r) := by
      unfold Reader.requestLoop
      have : ¬ r.validLen < k + 1 := by omega
      simp [this]
    obtain ⟨h1, h2⟩ := index_window r h.inBuf k hv
    simp only [RM.bind_apply, RM.get_apply, hv, decide_true, if_true, RM.liftOpt_apply, h1, Reader.requestByteAt, hl]
    rcases hw : r.window[k]? with _ | b
    · rw [hw] at h2; simp at h2
    · rfl
  · simp only [RM.bind_apply, RM.get_apply, hv, decide_false, Bool.false_eq_true, if_false,
      requestByteAtOffsetCold_eq r h k]

theorem requestByte_eq (r : Reader) (h : r.Ok) : Gen.Reader.requestByte r = r.requestByteAt 0 := by
  unfold Gen.Reader.requestByte
  simp only [RM.bind_apply, requestByteAtOffset_eq r h 0]

end TieReaderAux
end Flussab
