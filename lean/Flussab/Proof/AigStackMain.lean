/-
C12, explicit stack: the whole `renumber_aig` run of the stack machine equals the run of the
recursive model — same `Ok` value (ordered circuit and final `lit_map`), same error, and the
iteration fuel `14·gates + 6` per `transfer` call is never exhausted.
-/
import Flussab.Proof.AigStackFuel

namespace Flussab.Aig

/-- `transferAll`'s result as a result of `transferAllStack` (stack empty between the calls). -/
def liftSt : Res St → Res Renumber
  | .ok st => .ok ⟨st, #[]⟩
  | .error e => .error e
  | .outOfFuel => .outOfFuel

/-- Everything `initialize` knows when it starts transferring. -/
structure Ready (a : Aig) (defs : Defs) (st : St) : Prop where
  defsOk : DefsOk a defs
  defsFull : DefsFull a defs
  nodup : (definedVars a).Nodup
  inv : Inv a st
  count : CountInv st

theorem Ready.transfer {a : Aig} {defs : Defs} {st : St} (h : Ready a defs st) {cfg : Config}
    {fuel : Nat} {path : List Nat} {lit t : Nat} {st' : St}
    (e : transfer cfg defs fuel path st lit = .ok (t, st')) : Ready a defs st' :=
  ⟨h.defsOk, h.defsFull, h.nodup, (transfer_post h.defsOk cfg _ _ _ _ _ _ h.inv e).inv,
    transfer_count h.defsOk h.nodup cfg _ _ _ _ _ _ h.inv h.count e⟩

theorem Ready.transferAll {a : Aig} {defs : Defs} {st : St} (h : Ready a defs st) {cfg : Config}
    {fuel : Nat} {lits : List Nat} {st' : St}
    (e : transferAll cfg defs fuel lits st = .ok st') : Ready a defs st' :=
  ⟨h.defsOk, h.defsFull, h.nodup, (transferAll_post h.defsOk cfg _ _ _ _ h.inv e).1,
    transferAll_count h.defsOk h.nodup cfg _ _ _ _ h.inv h.count e⟩

/-- **One `transfer` call of `initialize`, with explicit fuels.** -/
theorem transferStack_refines {a : Aig} {defs : Defs} {st : St} (h : Ready a defs st) (cfg : Config)
    (dfuel fuel : Nat) (hdf : 2 * a.gates.length + 3 ≤ dfuel) (hfu : stackFuel a ≤ fuel) (lit : Nat) :
    transfer cfg defs dfuel [] st lit ≠ .outOfFuel ∧
    transferStack cfg defs fuel ⟨st, #[]⟩ lit = liftRes #[] (transfer cfg defs dfuel [] st lit) := by
  have hne := transfer_total h.defsOk h.defsFull h.nodup cfg dfuel [] st lit h.inv
    (PathInv.nil a defs lit st) (by simp; omega)
  have hc := transferCost_top_le h.defsOk h.defsFull h.nodup cfg dfuel st lit h.inv h.count hne
  refine ⟨hne, transferStack_eq cfg defs dfuel st lit hne fuel ?_⟩
  unfold stackFuel at hfu
  omega

/-- `for &lit in lits { self.transfer(lit)?; }`. -/
theorem transferAllStack_refines {a : Aig} {defs : Defs} (cfg : Config) (dfuel fuel : Nat)
    (hdf : 2 * a.gates.length + 3 ≤ dfuel) (hfu : stackFuel a ≤ fuel) :
    ∀ (lits : List Nat) (st : St), Ready a defs st →
      transferAllStack cfg defs fuel lits ⟨st, #[]⟩ = liftSt (transferAll cfg defs dfuel lits st) := by
  intro lits
  induction lits with
  | nil => intro st _; rfl
  | cons l rest ih =>
    intro st h
    obtain ⟨_, heq⟩ := transferStack_refines h cfg dfuel fuel hdf hfu l
    simp only [transferAllStack, transferAll, heq]
    cases e : transfer cfg defs dfuel [] st l with
    | outOfFuel => rfl
    | error err => rfl
    | ok r =>
      obtain ⟨t, st'⟩ := r
      simp only [liftRes]
      exact ih st' (h.transfer e)

/-! ### the sequence of loops of `initialize` -/

theorem transferAll_append (cfg : Config) (defs : Defs) (fuel : Nat) (l1 l2 : List Nat) (st : St) :
    transferAll cfg defs fuel (l1 ++ l2) st =
      match transferAll cfg defs fuel l1 st with
      | .ok st1 => transferAll cfg defs fuel l2 st1
      | .error e => .error e
      | .outOfFuel => .outOfFuel := by
  induction l1 generalizing st with
  | nil => rfl
  | cons x rest ih =>
    simp only [List.cons_append, transferAll]
    cases transfer cfg defs fuel [] st x with
    | outOfFuel => rfl
    | error e => rfl
    | ok r => exact ih r.2

/-- A sequence of `for` loops over literal lists. -/
def transferSegs (cfg : Config) (defs : Defs) (fuel : Nat) : List (List Nat) → Renumber → Res Renumber
  | [], rn => .ok rn
  | s :: ss, rn => (transferAllStack cfg defs fuel s rn).andThen (transferSegs cfg defs fuel ss)

theorem transferSegs_refines {a : Aig} {defs : Defs} (cfg : Config) (dfuel fuel : Nat)
    (hdf : 2 * a.gates.length + 3 ≤ dfuel) (hfu : stackFuel a ≤ fuel) :
    ∀ (ss : List (List Nat)) (st : St), Ready a defs st →
      transferSegs cfg defs fuel ss ⟨st, #[]⟩ = liftSt (transferAll cfg defs dfuel ss.flatten st) := by
  intro ss
  induction ss with
  | nil => intro st _; rfl
  | cons s ss ih =>
    intro st h
    simp only [transferSegs, List.flatten_cons, transferAll_append,
      transferAllStack_refines cfg dfuel fuel hdf hfu s st h]
    cases e : transferAll cfg defs dfuel s st with
    | outOfFuel => rfl
    | error err => rfl
    | ok st1 =>
      simp only [liftSt, Res.andThen]
      exact ih st1 (h.transferAll e)

theorem Res.andThen_ok {α : Type} (r : Res α) : r.andThen .ok = r := by
  cases r <;> rfl

/-- The loops of `initialize` after the latch loop, as one sequence. -/
theorem initialize_tail_eq (cfg : Config) (defs : Defs) (fuel : Nat) (a : Aig) (rn : Renumber) :
    ((if cfg.trim then .ok rn else transferAllStack cfg defs fuel (a.gates.map (·.out)) rn).andThen fun rn =>
      (transferAllStack cfg defs fuel (a.latches.map (·.next)) rn).andThen fun rn =>
      (transferAllStack cfg defs fuel a.outputs rn).andThen fun rn =>
      (transferAllStack cfg defs fuel a.bad rn).andThen fun rn =>
      (transferAllStack cfg defs fuel a.constraints rn).andThen fun rn =>
      (transferAllStack cfg defs fuel a.fairness rn).andThen fun rn =>
      transferAllStack cfg defs fuel a.justice.flatten rn) =
    transferSegs cfg defs fuel
      [if cfg.trim then [] else a.gates.map (·.out), a.latches.map (·.next), a.outputs, a.bad,
        a.constraints, a.fairness, a.justice.flatten] rn := by
  have e : (if cfg.trim then Res.ok rn else transferAllStack cfg defs fuel (a.gates.map (·.out)) rn) =
      transferAllStack cfg defs fuel (if cfg.trim then [] else a.gates.map (·.out)) rn := by
    cases cfg.trim <;> rfl
  rw [e]
  simp only [transferSegs]
  congr 1; funext rn
  congr 1; funext rn
  congr 1; funext rn
  congr 1; funext rn
  congr 1; funext rn
  congr 1; funext rn
  exact (Res.andThen_ok _).symm

theorem roots_eq_flatten (cfg : Config) (a : Aig) :
    roots cfg a = [if cfg.trim then [] else a.gates.map (·.out), a.latches.map (·.next), a.outputs,
      a.bad, a.constraints, a.fairness, a.justice.flatten].flatten := by
  simp [roots, List.flatten]

/-- The state in which `initialize` starts transferring is `Ready`. -/
theorem ready_init {a : Aig} {defs : Defs} {st0 : St} (h1 : litDefs a = .ok defs)
    (h2 : initLatches defs a.latches (initInputs a.inputs St.init) = .ok st0) : Ready a defs st0 := by
  have hn := init_nodup h1 h2
  obtain ⟨hI, _, _, h0I, _, _, _, _⟩ := nodup_parts hn
  have i0 : Inv a st0 :=
    (initLatches_inv a.latches [] _ _ (by simp)
      (by simpa using initInputs_inv (a := a) a.inputs [] St.init (by simp) (initInv_init a)) h2).toInv
  have c0 : CountInv st0 := initLatches_count _ _ _
    (initInputs_count a.inputs St.init countInv_init (by
      intro x hx hk
      have : x / 2 = 0 := by
        simp only [St.init, LitMap.HasKey, LitMap.insert, List.map_cons, List.map_nil,
          List.mem_singleton] at hk
        omega
      exact h0I (List.mem_map.mpr ⟨x, hx, this⟩)) hI) h2
  exact ⟨litDefs_defsOk h1, litDefs_defsFull h1, hn, i0, c0⟩

/-- `Renumber::new` of the stack machine = `initState` of the recursive model. -/
theorem newStack_refines (cfg : Config) (a : Aig) (dfuel fuel : Nat)
    (hdf : 2 * a.gates.length + 3 ≤ dfuel) (hfu : stackFuel a ≤ fuel) :
    newStack cfg a fuel = liftSt (initState cfg a dfuel) := by
  unfold newStack initState
  cases h1 : litDefs a with
  | error e => rfl
  | ok defs =>
    simp only [initializeStack]
    have hinit : ({ litMap := LitMap.insert [] 0 0, lastCode := 0, gates := [], index := [] } : St) =
        St.init := rfl
    rw [hinit]
    cases h2 : initLatches defs a.latches (initInputs a.inputs St.init) with
    | error e => rfl
    | ok st0 =>
      simp only
      rw [initialize_tail_eq, roots_eq_flatten]
      exact transferSegs_refines cfg dfuel fuel hdf hfu _ st0 (ready_init h1 h2)

/-- **Refinement of the whole run.**  For every circuit and all options, the explicit-stack
machine with at least `stackFuel a = 14·gates + 6` loop iterations per `transfer` call and the
recursive model with recursion depth at least `2·gates + 3` return the same value: the same
`OrderedAig` and final `lit_map`, or the same error; and that value is never `outOfFuel`. -/
theorem renumberStackFuel_eq_renumber (cfg : Config) (a : Aig) (dfuel fuel : Nat)
    (hdf : 2 * a.gates.length + 3 ≤ dfuel) (hfu : stackFuel a ≤ fuel) :
    renumberStackFuel cfg a fuel = renumber cfg a dfuel := by
  unfold renumberStackFuel renumber
  rw [newStack_refines cfg a dfuel fuel hdf hfu]
  cases initState cfg a dfuel with
  | outOfFuel => rfl
  | error e => rfl
  | ok st => rfl

theorem renumberStack_eq_renumberAig (cfg : Config) (a : Aig) :
    renumberStack cfg a = renumberAig cfg a :=
  renumberStackFuel_eq_renumber cfg a _ _ (Nat.le_refl _) (Nat.le_refl _)

/-- The final tables (`lit_map`, `last_code`, `and_gates`, `and_gate_index`) and the emptied stack. -/
theorem newStack_tables (cfg : Config) (a : Aig) :
    newStack cfg a (stackFuel a) = liftSt (initState cfg a (defaultFuel a)) :=
  newStack_refines cfg a _ _ (Nat.le_refl _) (Nat.le_refl _)

/-! ### more loop fuel never changes a finished run -/

theorem transferAllStack_mono (cfg : Config) (defs : Defs) (n k : Nat) :
    ∀ (lits : List Nat) (rn : Renumber), transferAllStack cfg defs n lits rn ≠ .outOfFuel →
      transferAllStack cfg defs (n + k) lits rn = transferAllStack cfg defs n lits rn := by
  intro lits
  induction lits with
  | nil => intro rn _; rfl
  | cons l rest ih =>
    intro rn h
    simp only [transferAllStack] at h ⊢
    cases e : transferStack cfg defs n rn l with
    | outOfFuel => rw [e] at h; exact absurd rfl h
    | error err =>
      have := runStack_mono cfg defs n ⟨rn, .transfer l⟩ (by
        show transferStack cfg defs n rn l ≠ _; rw [e]; simp) k
      unfold transferStack at e ⊢
      rw [this, e]
    | ok r =>
      have := runStack_mono cfg defs n ⟨rn, .transfer l⟩ (by
        show transferStack cfg defs n rn l ≠ _; rw [e]; simp) k
      rw [e] at h
      simp only at h
      unfold transferStack at e ⊢
      rw [this, e]
      exact ih r.2 h

theorem transferSegs_mono (cfg : Config) (defs : Defs) (n k : Nat) :
    ∀ (ss : List (List Nat)) (rn : Renumber), transferSegs cfg defs n ss rn ≠ .outOfFuel →
      transferSegs cfg defs (n + k) ss rn = transferSegs cfg defs n ss rn := by
  intro ss
  induction ss with
  | nil => intro rn _; rfl
  | cons s ss ih =>
    intro rn h
    simp only [transferSegs] at h ⊢
    cases e : transferAllStack cfg defs n s rn with
    | outOfFuel => rw [e] at h; exact absurd rfl h
    | error err => rw [transferAllStack_mono cfg defs n k s rn (by rw [e]; simp), e]; rfl
    | ok rn' =>
      rw [e] at h
      rw [transferAllStack_mono cfg defs n k s rn (by rw [e]; simp), e]
      exact ih rn' h

theorem newStack_mono (cfg : Config) (a : Aig) (n k : Nat) (h : newStack cfg a n ≠ .outOfFuel) :
    newStack cfg a (n + k) = newStack cfg a n := by
  unfold newStack at h ⊢
  cases h1 : litDefs a with
  | error e => rfl
  | ok defs =>
    rw [h1] at h
    simp only [initializeStack] at h ⊢
    cases h2 : initLatches defs a.latches (initInputs a.inputs
        { litMap := LitMap.insert [] 0 0, lastCode := 0, gates := [], index := [] }) with
    | error e => rfl
    | ok st0 =>
      rw [h2] at h
      simp only at h ⊢
      rw [initialize_tail_eq] at h
      rw [initialize_tail_eq, initialize_tail_eq]
      exact transferSegs_mono cfg defs n k _ _ h

theorem renumberStackFuel_mono (cfg : Config) (a : Aig) (n k : Nat)
    (h : renumberStackFuel cfg a n ≠ .outOfFuel) :
    renumberStackFuel cfg a (n + k) = renumberStackFuel cfg a n := by
  have hn : newStack cfg a n ≠ .outOfFuel := by
    intro e; apply h; unfold renumberStackFuel; rw [e]
  unfold renumberStackFuel
  rw [newStack_mono cfg a n k hn]

/-- **Any fuel.**  Whatever iteration fuel the stack machine is given: unless it is cut off, its
result is the result of the recursive model. -/
theorem renumberStackFuel_eq_of_finished (cfg : Config) (a : Aig) (fuel : Nat)
    (h : renumberStackFuel cfg a fuel ≠ .outOfFuel) :
    renumberStackFuel cfg a fuel = renumberAig cfg a := by
  rw [← renumberStackFuel_mono cfg a fuel (stackFuel a) h]
  exact renumberStackFuel_eq_renumber cfg a _ _ (Nat.le_refl _) (by omega)

theorem renumberStackFuel_ok {cfg : Config} {a : Aig} {fuel : Nat} {r : OrderedAig × LitMap}
    (h : renumberStackFuel cfg a fuel = .ok r) : renumberAig cfg a = .ok r := by
  rw [← renumberStackFuel_eq_of_finished cfg a fuel (by rw [h]; simp), h]

theorem renumberStackFuel_error {cfg : Config} {a : Aig} {fuel : Nat} {e : Err}
    (h : renumberStackFuel cfg a fuel = .error e) : renumberAig cfg a = .error e := by
  rw [← renumberStackFuel_eq_of_finished cfg a fuel (by rw [h]; simp), h]

/-- A state reached by `initialize` after transferring some literals is `Ready`. -/
theorem ready_in_run {cfg : Config} {a : Aig} {defs : Defs} {st0 st : St} {dfuel : Nat} {pre : List Nat}
    (h1 : litDefs a = .ok defs)
    (h2 : initLatches defs a.latches (initInputs a.inputs St.init) = .ok st0)
    (h3 : transferAll cfg defs dfuel pre st0 = .ok st) : Ready a defs st :=
  (ready_init h1 h2).transferAll h3

theorem liftRes_ne_outOfFuel {stk : Array Cont} {r : Res (Nat × St)} (h : r ≠ .outOfFuel) :
    liftRes stk r ≠ .outOfFuel := by
  cases r with
  | outOfFuel => exact absurd rfl h
  | error e => simp [liftRes]
  | ok r => simp [liftRes]

end Flussab.Aig
