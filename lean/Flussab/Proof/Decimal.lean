/-
Canonical decimal text (`natDigits`, `intDigits`: the model of what `itoap` emits): it reads
back to the number, has no leading zeros, and its length is monotone — hence bounded by
`MAX_LEN` for every value of the type.
-/
import Flussab.Model.Writer
import Flussab.Proof.Digits

namespace Flussab
namespace Writer

/-- Reference definition by well-founded recursion. -/
def digitsOf (n : Nat) : WBytes :=
  if h : n < 10 then [UInt8.ofNat (48 + n)] else digitsOf (n / 10) ++ [UInt8.ofNat (48 + n % 10)]
termination_by n
decreasing_by omega

theorem natDigitsAux_eq (f n : Nat) (acc : WBytes) (h : n < 10 ^ (f + 1)) :
    natDigitsAux (f + 1) n acc = digitsOf n ++ acc := by
  induction f generalizing n acc with
  | zero =>
    have hn : n < 10 := by simpa using h
    have h0 : n / 10 = 0 := by omega
    have hm : n % 10 = n := Nat.mod_eq_of_lt hn
    unfold natDigitsAux
    simp only [h0, ↓reduceIte]
    rw [digitsOf]; simp only [hn, ↓reduceDIte, hm, List.singleton_append]
  | succ f ih =>
    unfold natDigitsAux
    by_cases h0 : n / 10 = 0
    · have hn : n < 10 := by omega
      have hm : n % 10 = n := Nat.mod_eq_of_lt hn
      simp only [h0, ↓reduceIte]
      rw [digitsOf]; simp only [hn, ↓reduceDIte, hm, List.singleton_append]
    · simp only [h0, ↓reduceIte]
      have hn : ¬ n < 10 := by omega
      rw [ih (n / 10) _ (by rw [Nat.pow_succ] at h; omega)]
      conv => rhs; rw [digitsOf]
      simp only [hn, ↓reduceDIte, List.append_assoc, List.singleton_append]

theorem natDigits_eq (n : Nat) : natDigits n = digitsOf n := by
  unfold natDigits
  rw [natDigitsAux_eq n n [] (by
    have : n < 10 ^ n := Nat.lt_pow_self (by omega)
    have : 10 ^ n ≤ 10 ^ (n + 1) := Nat.pow_le_pow_right (by omega) (by omega)
    omega)]
  simp

theorem digit_toNat (d : Nat) (h : d < 10) : (UInt8.ofNat (48 + d)).toNat - 48 = d := by
  have : (UInt8.ofNat (48 + d)).toNat = 48 + d := by
    simp [UInt8.toNat_ofNat']; omega
  omega

theorem digit_isDigit (d : Nat) (h : d < 10) : isDigit (UInt8.ofNat (48 + d)) = true := by
  have ht : (UInt8.ofNat (48 + d)).toNat = 48 + d := by
    simp [UInt8.toNat_ofNat']; omega
  simp only [isDigit, Bool.and_eq_true, decide_eq_true_eq]
  constructor
  · apply UInt8.le_iff_toNat_le.mpr; rw [ht]; simp
  · apply UInt8.le_iff_toNat_le.mpr; rw [ht]; simp; omega

/-- The canonical text reads back to the number, consists of digits only, is non-empty, and has
no leading zero except for `0` itself. -/
theorem digitsOf_spec (n : Nat) :
    Text.decVal (digitsOf n) = n ∧ (∀ b ∈ digitsOf n, isDigit b = true) ∧ digitsOf n ≠ [] ∧
    (n ≠ 0 → (digitsOf n).head? ≠ some 48) ∧ (n = 0 → digitsOf n = [48]) := by
  induction n using Nat.strongRecOn with
  | _ n ih =>
    rw [digitsOf]
    by_cases hn : n < 10
    · simp only [hn, ↓reduceDIte]
      refine ⟨?_, ?_, by simp, ?_, ?_⟩
      · simp only [Text.decVal, List.foldl, Nat.zero_mul, Nat.zero_add]
        exact digit_toNat n hn
      · intro b hb; rw [List.mem_singleton.mp hb]; exact digit_isDigit n hn
      · intro h0 heq
        simp only [List.head?_cons, Option.some.injEq] at heq
        have h1 := digit_toNat n hn
        rw [heq] at h1
        simp at h1; omega
      · intro h0; subst h0; rfl
    · simp only [hn, ↓reduceDIte]
      obtain ⟨i1, i2, i3, i4, _⟩ := ih (n / 10) (by omega)
      have hmod : n % 10 < 10 := Nat.mod_lt _ (by omega)
      refine ⟨?_, ?_, by simp, ?_, fun h0 => by omega⟩
      · have := Text.decVal_append (digitsOf (n / 10)) [UInt8.ofNat (48 + n % 10)]
        rw [this, i1]
        simp only [Text.decVal, List.foldl, Nat.zero_mul, Nat.zero_add, List.length_cons,
          List.length_nil, Nat.pow_one]
        rw [digit_toNat _ hmod]; omega
      · intro b hb
        simp only [List.mem_append, List.mem_singleton] at hb
        rcases hb with hb | hb
        · exact i2 b hb
        · rw [hb]; exact digit_isDigit _ hmod
      · intro _
        have h10 : n / 10 ≠ 0 := by omega
        have := i4 h10
        cases hd : digitsOf (n / 10) with
        | nil => exact absurd hd i3
        | cons a t => rw [hd] at this; simpa using this

theorem digitsOf_length_mono (n m : Nat) (h : n ≤ m) : (digitsOf n).length ≤ (digitsOf m).length := by
  induction m using Nat.strongRecOn generalizing n with
  | _ m ih =>
    rw [digitsOf, digitsOf.eq_def m]
    by_cases hm : m < 10
    · have hn : n < 10 := by omega
      simp [hn, hm]
    · by_cases hn : n < 10
      · simp [hn, hm]
      · simp only [hn, hm, ↓reduceDIte, List.length_append, List.length_cons, List.length_nil]
        have := ih (m / 10) (by omega) (n / 10) (by omega)
        omega

/-- **`digits_fit`**: the text of every value of an integer type is at most `MAX_LEN` bytes. -/
theorem intDigits_length_le (signed : Bool) (bits : Nat) (x : Int)
    (hfit : (IntTy.mk signed bits).fits x = true) (hb : 1 ≤ bits) :
    (intDigits x).length ≤ maxLen signed bits := by
  rw [IntTy.fits_iff] at hfit
  simp only [IntTy.minVal, IntTy.maxVal] at hfit
  have hp : 2 ^ bits = 2 * 2 ^ (bits - 1) := by
    have : bits = (bits - 1) + 1 := by omega
    conv => lhs; rw [this, Nat.pow_succ]
    omega
  have hpos : 0 < 2 ^ (bits - 1) := Nat.two_pow_pos _
  simp only [intDigits, maxLen, natDigits_eq]
  have habs : x.natAbs ≤ 2 ^ bits := by
    cases signed
    · simp only [Bool.false_eq_true, ↓reduceIte] at hfit
      have : ((2 ^ bits : Nat) : Int) = 2 * ((2 ^ (bits - 1) : Nat) : Int) := by rw [hp]; push_cast; rfl
      omega
    · simp only [↓reduceIte] at hfit
      have : ((2 ^ bits : Nat) : Int) = 2 * ((2 ^ (bits - 1) : Nat) : Int) := by rw [hp]; push_cast; rfl
      omega
  have hmono := digitsOf_length_mono x.natAbs (2 ^ bits) habs
  cases signed
  · simp only [Bool.false_eq_true, ↓reduceIte] at hfit ⊢
    have : ¬ x < 0 := by omega
    simp only [this, ↓reduceIte]; omega
  · simp only [↓reduceIte]
    split
    · simp only [List.length_cons]; omega
    · omega

end Writer
end Flussab
