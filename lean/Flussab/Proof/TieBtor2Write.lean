/-
Tie between the BTOR2 writer of `/repo/flussab-btor2/src/btor2.rs` (`Line::write_into` and everything below it;
generated: `Gen/Btor2WriteGen.lean`, unit `tools/unit_btor2write.py`) and the writer of `Model/Btor2.lean` — proofs.
Statements: `Props/TieBtor2Write.lean`.

Method (as `Proof/TieAigerWrite.lean`, whose `genSeq` / `genSeq_eq` / `written_eq` are reused): every generated
function *is* `genSeq` of its op history (`g_*`: the monad laws of `RM Writer`, no hypothesis); `genSeq ops = runSeq ops`
on a writer with `len ≤ cap` when the ops are valid (`ok_*`: numbers within `u64`); the bytes of a history of
write / digits ops do not depend on the writer state (`wds_*`, `p_*`).
-/
import Flussab.Gen.Btor2WriteGen
import Flussab.Proof.TieAigerWrite

namespace Flussab
namespace TieBtor2WriteAux


open AigerWriteExt (dig runSeq)
open TieAigerWriteAux (genSeq genOp genSeq_eq genSeq_append WD pieces piece written_eq pieces_append dig_valid)
open Btor2WriteExt
open Gen.Btor2Write

/-! ### monad laws of `RM Writer`, as far as the generated code needs them -/

theorem bind_pure_unit (x : RM Writer Unit) : (x >>= fun _ => (pure () : RM Writer Unit)) = x := by
  funext s
  simp only [RM.bind_apply]
  rcases x s with ⟨_ | u, s'⟩ <;> rfl

theorem bind_assoc' {α β γ : Type} (x : RM Writer α) (f : α → RM Writer β) (g : β → RM Writer γ) :
    ((x >>= f) >>= g) = (x >>= fun a => f a >>= g) := by
  funext s
  simp only [RM.bind_apply]
  rcases x s with ⟨_ | a, s'⟩ <;> rfl

theorem pure_bind' {α β : Type} (a : α) (f : α → RM Writer β) : ((pure a : RM Writer α) >>= f) = f a := rfl

/-! ### everything is a `genSeq` -/

theorem w_eq (bs : List UInt8) : Gen.Writer.writeAllDeferErr bs = genSeq [.write bs] :=
  (bind_pure_unit _).symm

theorem d_eq (n : Nat) : Gen.WriteText.asciiDigits false 64 (Int.ofNat n) = genSeq [dig n] :=
  (bind_pure_unit _).symm

theorem pure_eq : (pure () : RM Writer Unit) = genSeq [] := rfl

theorem seq_bind (a b : List Writer.Op) : (genSeq a >>= fun _ => genSeq b) = genSeq (a ++ b) := by
  funext w
  exact (genSeq_append a b w).symm

theorem seq_bind_k {β : Type} (a b : List Writer.Op) (k : Unit → RM Writer β) :
    (genSeq a >>= fun _ => genSeq b >>= k) = (genSeq (a ++ b) >>= k) := by
  rw [← seq_bind, bind_assoc']

theorem g_nodeId (n : Nat) : nodeIdWriteInto n = genSeq (opsNodeId n) := rfl

theorem g_sort (s : BSort) : sortWriteInto s = genSeq (opsSort s) := by
  rcases s with w | ⟨d, c⟩
  · rfl
  · unfold sortWriteInto
    simp only [g_nodeId, w_eq, pure_eq, seq_bind, opsNodeId, opsSort]
    rfl

theorem g_assignment (a : Assignment) : assignmentWriteInto a = genSeq (opsAssignment a) := by
  rcases a with ⟨st, so, kind, va⟩
  unfold assignmentWriteInto
  cases kind <;> simp only [g_nodeId, w_eq, pure_eq, seq_bind, opsNodeId, opsAssignment] <;> rfl

theorem g_singleValueOutput (s : SingleValueOutput) :
    singleValueOutputWriteInto s = genSeq (opsSingleValueOutput s) := by
  rcases s with ⟨kind, va⟩
  unfold singleValueOutputWriteInto
  cases kind <;> simp only [g_nodeId, w_eq, pure_eq, seq_bind, opsNodeId, opsSingleValueOutput] <;> rfl

/-! ### `Output::write_into`: the `for` loop over the node slice -/

theorem g_loop (cap : List Nat) (nodes : List Nat) : ∀ i : Nat,
    outputWriteInto.loop1 cap nodes i () = (genSeq (opsNodes nodes) >>= fun _ => pure (Ctl.brk ())) := by
  induction nodes with
  | nil => intro i; rfl
  | cons n rest ih =>
    intro i
    unfold outputWriteInto.loop1
    have e : opsNodes (n :: rest) = [.write [32], dig n] ++ opsNodes rest := by simp [opsNodes]
    rw [ih, e, ← seq_bind, bind_assoc']
    simp only [g_nodeId, w_eq, opsNodeId, seq_bind_k]
    rfl

theorem g_output (o : Output) : outputWriteInto o = genSeq (opsOutput o) := by
  rcases o with s | nodes
  · unfold outputWriteInto
    simp only [g_singleValueOutput, pure_eq, seq_bind, opsOutput, List.append_nil]
  · unfold outputWriteInto
    simp only [g_loop, bind_assoc', pure_bind', w_eq, d_eq, pure_eq, seq_bind, opsOutput]
    simp only [List.cons_append, List.nil_append, List.append_nil]

/-! ### the `name()` tables -/

theorem g_unaryOpName (op : Gen.Btor2.UnaryOp) : unaryOpName op = pure (Gen.Btor2.unaryOpName op) := by
  cases op <;> rfl

theorem g_binaryOpName (op : Gen.Btor2.BinaryOp) : binaryOpName op = pure (Gen.Btor2.binaryOpName op) := by
  cases op <;> rfl

theorem g_ternaryOpName (op : Gen.Btor2.TernaryOp) : ternaryOpName op = pure (Gen.Btor2.ternaryOpName op) := by
  cases op <;> rfl

theorem g_indices (op : Gen.Btor2.UnaryOp) : unaryOpWriteIndicesInto op = genSeq (opsIndices op) := by
  cases op <;> first | rfl | (unfold unaryOpWriteIndicesInto; simp only [w_eq, d_eq, pure_eq, seq_bind, opsIndices]; rfl)

/-! ### `Value::write_into` -/

theorem g_value (v : Value) : valueWriteInto v = genSeq (opsValue v) := by
  rcases v with ⟨so, va⟩
  unfold valueWriteInto
  rcases va with c | _ | _ | o
  · cases c <;> simp only [g_nodeId, w_eq, pure_eq, seq_bind, opsNodeId, opsValue] <;> rfl
  · simp only [g_nodeId, w_eq, pure_eq, seq_bind, opsNodeId, opsValue]; rfl
  · simp only [g_nodeId, w_eq, pure_eq, seq_bind, opsNodeId, opsValue]; rfl
  · rcases o with ⟨op, a0⟩ | ⟨op, a0, a1⟩ | ⟨op, a0, a1, a2⟩
    · simp only [g_unaryOpName, g_indices, pure_bind', g_nodeId, w_eq, pure_eq, seq_bind, opsNodeId, opsValue]
      simp only [List.cons_append, List.nil_append, List.append_nil]
    · simp only [g_binaryOpName, pure_bind', g_nodeId, w_eq, pure_eq, seq_bind, opsNodeId, opsValue]; rfl
    · simp only [g_ternaryOpName, pure_bind', g_nodeId, w_eq, pure_eq, seq_bind, opsNodeId, opsValue]; rfl

theorem g_variant (nv : NodeVariant) : nodeVariantWriteInto nv = genSeq (opsVariant nv) := by
  cases nv <;> unfold nodeVariantWriteInto <;>
    simp only [g_sort, g_value, g_assignment, g_output, pure_eq, seq_bind, opsVariant, List.append_nil]

theorem g_node (n : Node) : nodeWriteInto n = genSeq (opsNode n) := by
  rcases n with ⟨id, nv, sym, com⟩
  unfold nodeWriteInto
  rcases sym with _ | sym <;> rcases com with _ | com <;>
    simp only [g_nodeId, g_variant, w_eq, pure_eq, seq_bind, opsNodeId, opsNode, opsTrailer] <;>
    simp only [List.cons_append, List.nil_append, List.append_nil]

theorem g_lineUnterminated (l : Line) : lineWriteIntoUnterminated l = genSeq (opsLineUnterminated l) := by
  cases l <;> unfold lineWriteIntoUnterminated <;>
    simp only [g_node, w_eq, pure_eq, seq_bind, opsLineUnterminated, List.append_nil] <;> rfl

theorem g_line (l : Line) : lineWriteInto l = genSeq (opsLine l) := by
  unfold lineWriteInto
  simp only [g_lineUnterminated, w_eq, pure_eq, seq_bind, opsLine, List.append_nil]

/-! ### the ops are valid (numbers within `u64`) and are write / digits ops -/

/-- An op of the BTOR2 writer: the digits of a `u64`, or a `write`. -/
def OkOp (op : Writer.Op) : Prop := (∃ n, n < 2 ^ 64 ∧ op = dig n) ∨ (∃ bs, op = .write bs)

def Ok (ops : List Writer.Op) : Prop := ∀ op ∈ ops, OkOp op

theorem ok_nil : Ok [] ↔ True := by simp [Ok]
theorem ok_cons (op : Writer.Op) (r : List Writer.Op) : Ok (op :: r) ↔ OkOp op ∧ Ok r := by simp [Ok]
theorem ok_append (a b : List Writer.Op) : Ok (a ++ b) ↔ Ok a ∧ Ok b := by
  simp only [Ok, List.mem_append]
  exact ⟨fun h => ⟨fun o ho => h o (.inl ho), fun o ho => h o (.inr ho)⟩, fun h o ho => ho.elim (h.1 o) (h.2 o)⟩
theorem okop_write (bs : List UInt8) : OkOp (.write bs) ↔ True := by simp [OkOp]
theorem okop_dig (n : Nat) : OkOp (dig n) ↔ U64 n := by
  constructor
  · rintro (⟨m, hm, e⟩ | ⟨bs, e⟩)
    · simp only [dig, Writer.Op.digits.injEq, true_and] at e
      have : n = m := Int.ofNat.inj e
      subst this; exact hm
    · simp [dig] at e
  · intro h; exact .inl ⟨n, h, rfl⟩

theorem ok_valid {ops : List Writer.Op} (h : Ok ops) : (∀ op ∈ ops, op.Valid) ∧ (∀ op ∈ ops, WD op) :=
  TieAigerWriteAux.valid_of_list h

theorem ok_sort (s : BSort) (h : s.Fits) : Ok (opsSort s) := by
  cases s <;> simpa only [opsSort, ok_cons, ok_nil, okop_write, okop_dig, BSort.Fits, and_true, true_and] using h

theorem ok_assignment (a : Assignment) (h : a.Fits) : Ok (opsAssignment a) := by
  simpa only [opsAssignment, ok_cons, ok_nil, okop_write, okop_dig, Assignment.Fits, and_true, true_and] using h

theorem ok_singleValueOutput (s : SingleValueOutput) (h : s.Fits) : Ok (opsSingleValueOutput s) := by
  simpa only [opsSingleValueOutput, ok_cons, ok_nil, okop_write, okop_dig, SingleValueOutput.Fits, and_true,
    true_and] using h

theorem ok_nodes (nodes : List Nat) (h : ∀ n ∈ nodes, U64 n) : Ok (opsNodes nodes) := by
  intro op hop
  simp only [opsNodes, List.mem_flatMap, List.mem_cons, List.not_mem_nil, or_false] at hop
  obtain ⟨n, hn, rfl | rfl⟩ := hop
  · exact (okop_write _).mpr trivial
  · exact (okop_dig n).mpr (h n hn)

theorem ok_output (o : Output) (h : o.Fits) : Ok (opsOutput o) := by
  rcases o with s | nodes
  · exact ok_singleValueOutput s h
  · simp only [opsOutput, ok_append, ok_cons, ok_nil, okop_write, okop_dig, and_true, true_and]
    exact ⟨h.1, ok_nodes nodes h.2⟩

theorem ok_indices (op : Gen.Btor2.UnaryOp) (h : unaryFits op) : Ok (opsIndices op) := by
  cases op with
  | uext w => simpa only [opsIndices, ok_cons, ok_nil, okop_write, okop_dig, unaryFits, and_true, true_and] using h
  | sext w => simpa only [opsIndices, ok_cons, ok_nil, okop_write, okop_dig, unaryFits, and_true, true_and] using h
  | slice u l => simpa only [opsIndices, ok_cons, ok_nil, okop_write, okop_dig, unaryFits, and_true, true_and] using h
  | _ => simp only [opsIndices, ok_nil]

theorem ok_value (v : Value) (h : v.Fits) : Ok (opsValue v) := by
  rcases v with ⟨so, va⟩
  obtain ⟨h1, h2⟩ := h
  simp only at h1 h2
  rcases va with c | _ | _ | o
  · cases c <;> simpa only [opsValue, ok_cons, ok_nil, okop_write, okop_dig, and_true, true_and] using h1
  · simpa only [opsValue, ok_cons, ok_nil, okop_write, okop_dig, and_true, true_and] using h1
  · simpa only [opsValue, ok_cons, ok_nil, okop_write, okop_dig, and_true, true_and] using h1
  · rcases o with ⟨op, a0⟩ | ⟨op, a0, a1⟩ | ⟨op, a0, a1, a2⟩
    · simp only [Op.Fits] at h2
      simp only [opsValue, ok_append, ok_cons, ok_nil, okop_write, okop_dig, and_true, true_and]
      exact ⟨⟨h1, h2.2⟩, ok_indices op h2.1⟩
    · simp only [Op.Fits] at h2
      simp only [opsValue, ok_cons, ok_nil, okop_write, okop_dig, and_true, true_and]
      exact ⟨h1, h2.1, h2.2⟩
    · simp only [Op.Fits] at h2
      simp only [opsValue, ok_cons, ok_nil, okop_write, okop_dig, and_true, true_and]
      exact ⟨h1, h2.1, h2.2.1, h2.2.2⟩

theorem ok_variant (nv : NodeVariant) (h : nv.Fits) : Ok (opsVariant nv) := by
  cases nv
  · exact ok_sort _ h
  · exact ok_value _ h
  · exact ok_assignment _ h
  · exact ok_output _ h

theorem ok_trailer (s c : Option (List UInt8)) : Ok (opsTrailer s c) := by
  rcases s with _ | s <;> rcases c with _ | c <;>
    simp only [opsTrailer, ok_append, ok_cons, ok_nil, okop_write, and_true]

theorem ok_node (n : Node) (h : n.Fits) : Ok (opsNode n) := by
  simp only [opsNode, ok_append, ok_cons, ok_nil, okop_write, okop_dig, and_true]
  exact ⟨⟨h.1, ok_variant _ h.2⟩, ok_trailer _ _⟩

theorem ok_lineUnterminated (l : Line) (h : l.Fits) : Ok (opsLineUnterminated l) := by
  cases l
  · simp only [opsLineUnterminated, ok_cons, ok_nil, okop_write, and_true]
  · exact ok_node _ h

theorem ok_line (l : Line) (h : l.Fits) : Ok (opsLine l) := by
  simp only [opsLine, ok_append, ok_cons, ok_nil, okop_write, and_true]
  exact ok_lineUnterminated l h

/-! ### write / digits ops only (no hypothesis on the numbers), and their bytes -/

def WDs (ops : List Writer.Op) : Prop := ∀ op ∈ ops, WD op

theorem wds_nil : WDs [] ↔ True := by simp [WDs]
theorem wds_cons (op : Writer.Op) (r : List Writer.Op) : WDs (op :: r) ↔ WD op ∧ WDs r := by simp [WDs]
theorem wds_append (a b : List Writer.Op) : WDs (a ++ b) ↔ WDs a ∧ WDs b := by
  simp only [WDs, List.mem_append]
  exact ⟨fun h => ⟨fun o ho => h o (.inl ho), fun o ho => h o (.inr ho)⟩, fun h o ho => ho.elim (h.1 o) (h.2 o)⟩
theorem wd_write (bs : List UInt8) : WD (.write bs) ↔ True := by simp [WD]
theorem wd_dig (n : Nat) : WD (dig n) ↔ True := by simp [WD, dig]

theorem wds_sort (s : BSort) : WDs (opsSort s) := by
  cases s <;> simp only [opsSort, wds_cons, wds_nil, wd_write, wd_dig, and_true]

theorem wds_assignment (a : Assignment) : WDs (opsAssignment a) := by
  simp only [opsAssignment, wds_cons, wds_nil, wd_write, wd_dig, and_true]

theorem wds_singleValueOutput (s : SingleValueOutput) : WDs (opsSingleValueOutput s) := by
  simp only [opsSingleValueOutput, wds_cons, wds_nil, wd_write, wd_dig, and_true]

theorem wds_nodes (nodes : List Nat) : WDs (opsNodes nodes) := by
  intro op hop
  simp only [opsNodes, List.mem_flatMap, List.mem_cons, List.not_mem_nil, or_false] at hop
  obtain ⟨n, _, rfl | rfl⟩ := hop <;> trivial

theorem wds_output (o : Output) : WDs (opsOutput o) := by
  rcases o with s | nodes
  · exact wds_singleValueOutput s
  · simp only [opsOutput, wds_append, wds_cons, wds_nil, wd_write, wd_dig, and_true, true_and]
    exact wds_nodes nodes

theorem wds_indices (op : Gen.Btor2.UnaryOp) : WDs (opsIndices op) := by
  cases op <;> simp only [opsIndices, wds_cons, wds_nil, wd_write, wd_dig, and_true]

theorem wds_value (v : Value) : WDs (opsValue v) := by
  rcases v with ⟨so, va⟩
  rcases va with c | _ | _ | o
  · cases c <;> simp only [opsValue, wds_cons, wds_nil, wd_write, wd_dig, and_true]
  · simp only [opsValue, wds_cons, wds_nil, wd_write, wd_dig, and_true]
  · simp only [opsValue, wds_cons, wds_nil, wd_write, wd_dig, and_true]
  · rcases o with ⟨op, a0⟩ | ⟨op, a0, a1⟩ | ⟨op, a0, a1, a2⟩
    · simp only [opsValue, wds_append, wds_cons, wds_nil, wd_write, wd_dig, and_true, true_and]
      exact wds_indices op
    · simp only [opsValue, wds_cons, wds_nil, wd_write, wd_dig, and_true]
    · simp only [opsValue, wds_cons, wds_nil, wd_write, wd_dig, and_true]

theorem wds_variant (nv : NodeVariant) : WDs (opsVariant nv) := by
  cases nv
  · exact wds_sort _
  · exact wds_value _
  · exact wds_assignment _
  · exact wds_output _

theorem wds_trailer (s c : Option (List UInt8)) : WDs (opsTrailer s c) := by
  rcases s with _ | s <;> rcases c with _ | c <;>
    simp only [opsTrailer, wds_append, wds_cons, wds_nil, wd_write, and_true]

theorem wds_node (n : Node) : WDs (opsNode n) := by
  simp only [opsNode, wds_append, wds_cons, wds_nil, wd_write, wd_dig, and_true, true_and]
  exact ⟨wds_variant _, wds_trailer _ _⟩

theorem wds_lineUnterminated (l : Line) : WDs (opsLineUnterminated l) := by
  cases l
  · simp only [opsLineUnterminated, wds_cons, wds_nil, wd_write, and_true]
  · exact wds_node _

theorem wds_line (l : Line) : WDs (opsLine l) := by
  simp only [opsLine, wds_append, wds_cons, wds_nil, wd_write, and_true]
  exact wds_lineUnterminated l

theorem pieces_nil : pieces [] = [] := rfl
theorem pieces_cons_write (bs : List UInt8) (r : List Writer.Op) : pieces (.write bs :: r) = bs ++ pieces r := rfl
theorem pieces_cons_dig (n : Nat) (r : List Writer.Op) : pieces (dig n :: r) = Btor2.natText n ++ pieces r := by
  show Writer.intDigits (Int.ofNat n) ++ pieces r = _
  rw [TieAigerWriteAux.intDigits_ofNat]; rfl

theorem p_sort (s : BSort) : pieces (opsSort s) = Btor2.writeVariant (.sort s.toModel) := by
  cases s <;>
    simp [opsSort, pieces_cons_write, pieces_cons_dig, pieces_nil, Btor2.writeVariant, BSort.toModel,
      Gen.Btor2.kwSortBitVec, Gen.Btor2.kwSortArray]

theorem p_assignment (a : Assignment) :
    pieces (opsAssignment a) = Btor2.writeVariant (.assignment a.state a.sort a.kind a.value) := by
  rcases a with ⟨st, so, kind, va⟩
  cases kind <;>
    simp [opsAssignment, pieces_cons_write, pieces_cons_dig, pieces_nil, Btor2.writeVariant,
      Gen.Btor2.assignmentKindKw, Gen.Btor2.kwAssignmentKindInit, Gen.Btor2.kwAssignmentKindNext]

theorem p_singleValueOutput (s : SingleValueOutput) :
    pieces (opsSingleValueOutput s) = Btor2.writeVariant (.output (.singleValue s.kind s.value)) := by
  rcases s with ⟨kind, va⟩
  cases kind <;>
    simp [opsSingleValueOutput, pieces_cons_write, pieces_cons_dig, pieces_nil, Btor2.writeVariant,
      Gen.Btor2.singleValueOutputKindKw, Gen.Btor2.kwSingleValueOutputKindOutput, Gen.Btor2.kwSingleValueOutputKindBad,
      Gen.Btor2.kwSingleValueOutputKindConstraint, Gen.Btor2.kwSingleValueOutputKindFair]

theorem p_nodes (nodes : List Nat) :
    pieces (opsNodes nodes) = (nodes.map fun n => [32] ++ Btor2.natText n).flatten := by
  induction nodes with
  | nil => rfl
  | cons n rest ih =>
    have : opsNodes (n :: rest) = [.write [32], dig n] ++ opsNodes rest := by simp [opsNodes]
    rw [this, pieces_append, ih]
    simp [pieces_cons_write, pieces_cons_dig, pieces_nil]

theorem p_output (o : Output) : pieces (opsOutput o) = Btor2.writeVariant (.output o.toModel) := by
  rcases o with s | nodes
  · exact p_singleValueOutput s
  · simp [opsOutput, p_nodes, pieces_cons_write, pieces_cons_dig, Btor2.writeVariant,
      Output.toModel, Gen.Btor2.kwOutputJustice]

theorem p_indices (op : Gen.Btor2.UnaryOp) : pieces (opsIndices op) = Btor2.writeIndices op := by
  cases op <;> simp [opsIndices, pieces_cons_write, pieces_cons_dig, pieces_nil, Btor2.writeIndices]

theorem p_value (v : Value) : pieces (opsValue v) = Btor2.writeValue v.sort v.variant.toModel := by
  rcases v with ⟨so, va⟩
  rcases va with c | _ | _ | o
  · cases c <;>
      simp [opsValue, pieces_cons_write, pieces_cons_dig, pieces_nil, Btor2.writeValue, ValueVariant.toModel,
        Gen.Btor2.kwConstBinary, Gen.Btor2.kwConstHex, Gen.Btor2.kwConstDecimal, Gen.Btor2.kwConstOne,
        Gen.Btor2.kwConstOnes, Gen.Btor2.kwConstZero]
  · simp [opsValue, pieces_cons_write, pieces_cons_dig, pieces_nil, Btor2.writeValue, ValueVariant.toModel,
      Gen.Btor2.kwValueVariantInput]
  · simp [opsValue, pieces_cons_write, pieces_cons_dig, pieces_nil, Btor2.writeValue, ValueVariant.toModel,
      Gen.Btor2.kwValueVariantState]
  · rcases o with ⟨op, a0⟩ | ⟨op, a0, a1⟩ | ⟨op, a0, a1, a2⟩
    · simp [opsValue, p_indices, pieces_cons_write, pieces_cons_dig, Btor2.writeValue,
        ValueVariant.toModel, Op.toModel]
    · simp [opsValue, pieces_cons_write, pieces_cons_dig, pieces_nil, Btor2.writeValue, ValueVariant.toModel,
        Op.toModel]
    · simp [opsValue, pieces_cons_write, pieces_cons_dig, pieces_nil, Btor2.writeValue, ValueVariant.toModel,
        Op.toModel]

theorem p_variant (nv : NodeVariant) : pieces (opsVariant nv) = Btor2.writeVariant nv.toModel := by
  cases nv
  · exact p_sort _
  · rw [opsVariant, p_value]; rfl
  · exact p_assignment _
  · exact p_output _

theorem p_trailer (s c : Option (List UInt8)) :
    pieces (opsTrailer s c) = (match s with | some s => [32] ++ s | none => []) ++
      (match c with | some c => [32, 59] ++ c | none => []) := by
  rcases s with _ | s <;> rcases c with _ | c <;>
    simp [opsTrailer, pieces_cons_write, pieces_nil]

theorem p_node (n : Node) : pieces (opsNode n) = Btor2.writeNode n.toModel := by
  rcases n with ⟨id, nv, sym, com⟩
  rw [opsNode, pieces_append, pieces_append, p_variant, p_trailer]
  rcases sym with _ | sym <;> rcases com with _ | com <;>
    simp [pieces_cons_write, pieces_cons_dig, pieces_nil, Btor2.writeNode, Node.toModel]

theorem p_lineUnterminated (l : Line) : pieces (opsLineUnterminated l) = Btor2.writeLineUnterminated l.toModel := by
  cases l
  · simp [opsLineUnterminated, pieces_cons_write, pieces_nil, Btor2.writeLineUnterminated, Line.toModel,
      Gen.Btor2.kwLineComment]
  · exact p_node _

theorem p_line (l : Line) : pieces (opsLine l) = Btor2.writeLine l.toModel := by
  rw [opsLine, pieces_append, p_lineUnterminated]
  simp [pieces_cons_write, pieces_nil, Btor2.writeLine]

/-! ### `toModel` is a bijection -/

theorem line_toModel_ofModel (l : Btor2.Line) : (Line.ofModel l).toModel = l := by
  rcases l with c | ⟨id, nv, sym, com⟩
  · rfl
  · simp only [Line.ofModel, Line.toModel, Node.ofModel, Node.toModel, Btor2.Line.node.injEq, Btor2.Node.mk.injEq,
      true_and, and_true]
    rcases nv with s | ⟨so, va⟩ | _ | o
    · cases s <;> rfl
    · rcases va with c | _ | _ | o
      · rfl
      · rfl
      · rfl
      · cases o <;> rfl
    · rfl
    · cases o <;> rfl

theorem line_ofModel_toModel (l : Line) : Line.ofModel l.toModel = l := by
  rcases l with c | ⟨id, nv, sym, com⟩
  · rfl
  · simp only [Line.ofModel, Line.toModel, Node.ofModel, Node.toModel, Line.node.injEq, Node.mk.injEq,
      true_and, and_true]
    rcases nv with s | ⟨so, va⟩ | _ | o
    · rcases s with _ | ⟨d, c⟩ <;> rfl
    · rcases va with c | _ | _ | o
      · rfl
      · rfl
      · rfl
      · rcases o with ⟨op, a0⟩ | ⟨op, a0, a1⟩ | ⟨op, a0, a1, a2⟩ <;> rfl
    · rfl
    · rcases o with ⟨k, v⟩ | _ <;> rfl

/-! ### the tie theorems -/

theorem run_eq {f : RM Writer Unit} {ops : List Writer.Op} (hg : f = genSeq ops) (hok : Ok ops) (w : Writer)
    (h : w.buf.length ≤ w.cap) : f w = runSeq ops w := by
  rw [hg]; exact genSeq_eq ops (ok_valid hok).2 (ok_valid hok).1 w h

theorem bytes_eq {ops : List Writer.Op} {bs : List UInt8} (hwd : WDs ops) (hp : pieces ops = bs) (w : Writer) :
    C11.written ops w = bs := by
  rw [written_eq ops hwd w, hp]

theorem ok_nodeId (n : Nat) (h : U64 n) : Ok (opsNodeId n) := by
  simpa only [opsNodeId, ok_cons, ok_nil, okop_dig, and_true] using h

theorem wds_nodeId (n : Nat) : WDs (opsNodeId n) := by
  simp only [opsNodeId, wds_cons, wds_nil, wd_dig, and_true]

theorem p_nodeId (n : Nat) : pieces (opsNodeId n) = Btor2.natText n := by
  simp [opsNodeId, pieces_cons_dig, pieces_nil]

theorem name_apply {α : Type} {f : RM Writer α} {a : α} (h : f = pure a) (w : Writer) : f w = (some a, w) := by
  rw [h]; rfl

theorem loop_eq (w : Writer) (all nodes : List Nat) (i : Nat) (h : w.buf.length ≤ w.cap)
    (hn : ∀ n ∈ nodes, U64 n) :
    outputWriteInto.loop1 all nodes i () w =
      match runSeq (opsNodes nodes) w with
      | (none, w') => (none, w')
      | (some _, w') => (some (Ctl.brk ()), w') := by
  rw [g_loop all nodes i, RM.bind_apply, run_eq rfl (ok_nodes nodes hn) w h]
  rcases runSeq (opsNodes nodes) w with ⟨_ | _, w'⟩ <;> rfl

end TieBtor2WriteAux
end Flussab
