/-
Prefix determinism inside a line for the BTOR2 parser (C08, replaced numeral token): set-up.

Two documents `pre ++ tok ++ post` and `pre ++ tok' ++ post` are parsed side by side.  While the
cursor is inside `pre` both runs are in the states `E q1 s` / `E q2 s` of one "short" state `s`
whose unconsumed input is the rest `r` of `pre` (`q1 = tok ++ post`, `q2 = tok' ++ post`); `St X s`
is the invariant of the short state: the line bookkeeping of `s` leads to the line `X.L` and the
column `X.lo` of the boundary, at most one byte behind `r` has been looked at, and `r` is empty or
ends in a space / newline (no token straddles the boundary).

`Post`: what a parser function can have done when both runs return — both still inside `pre` with
the same value (`St`), both behind the replaced token in shifted states (`Cat.Sh`; values related
by `ρ`), run 2 stuck on a digit of `tok'` (`Dig2`, its next error is on the token), or run 1 stuck
on a digit of `tok` (`Dig`).  Errors of run 2 while run 1 returns must be located on the token
(`Loc`).
-/
import Flussab.Proof.Btor2CatalogueShift
import Flussab.Proof.Btor2Numbers
import Flussab.Proof.Btor2Canonical

namespace Flussab
namespace Btor2
namespace Cat
open PM

/-! ### lists -/

/-- Length of the last line of `r` (the bytes behind its last newline). -/
def lll (r : VBytes) : Nat := (r.reverse.takeWhile (· != 10)).length

theorem takeWhile_all_self {p : UInt8 → Bool} : ∀ (l : VBytes), (∀ x ∈ l, p x = true) → l.takeWhile p = l
  | [], _ => rfl
  | x :: xs, h => by
    have hx : p x = true := h x (by simp)
    simp only [List.takeWhile, hx]
    rw [takeWhile_all_self xs (fun y hy => h y (by simp [hy]))]

theorem takeWhile_append_stop {p : UInt8 → Bool} : ∀ (l m : VBytes), (∃ x ∈ l, p x = false) →
    (l ++ m).takeWhile p = l.takeWhile p
  | [], _, h => by obtain ⟨x, hx, _⟩ := h; simp at hx
  | y :: ys, m, h => by
    by_cases hy : p y = true
    · simp only [List.cons_append, List.takeWhile, hy]
      rw [takeWhile_append_stop ys m]
      obtain ⟨x, hx, hpx⟩ := h
      simp only [List.mem_cons] at hx
      rcases hx with rfl | hx
      · rw [hy] at hpx; cases hpx
      · exact ⟨x, hx, hpx⟩
    · have hy' : p y = false := by simpa using hy
      simp [List.takeWhile, hy']

theorem count10_zero {r : VBytes} : r.count 10 = 0 ↔ ∀ x ∈ r, x ≠ 10 := by
  rw [List.count_eq_zero]
  constructor
  · intro h x hx he; subst he; exact h hx
  · intro h hm; exact h 10 hm rfl

theorem lll_no_lf {r : VBytes} (h : r.count 10 = 0) : lll r = r.length := by
  unfold lll
  rw [takeWhile_all_self]
  · simp
  · intro x hx
    have := count10_zero.mp h x (by simpa using hx)
    simpa using this

theorem lll_append {a b : VBytes} (h : b.count 10 ≠ 0) : lll (a ++ b) = lll b := by
  unfold lll
  rw [List.reverse_append, takeWhile_append_stop]
  have : ¬ ∀ x ∈ b, x ≠ 10 := fun hh => h (count10_zero.mpr hh)
  have hm : (10 : UInt8) ∈ b := by
    apply Classical.byContradiction
    intro hn
    exact this (fun x hx he => hn (he ▸ hx))
  exact ⟨10, by simpa using hm, by simp⟩

theorem lll_cons_lf {r : VBytes} (h : r.count 10 = 0) : lll (10 :: r) = r.length := by
  unfold lll
  rw [List.reverse_cons, List.takeWhile_append_of_pos]
  · simp [List.takeWhile]
  · intro x hx
    have := count10_zero.mp h x (by simpa using hx)
    simpa using this

theorem count_drop_of_take {r : VBytes} {n : Nat} (h : ∀ x ∈ r.take n, x ≠ 10) :
    (r.drop n).count 10 = r.count 10 := by
  have h0 : (r.take n).count 10 = 0 := count10_zero.mpr h
  have : (r.take n ++ r.drop n).count 10 = (r.drop n).count 10 := by
    rw [List.count_append, h0, Nat.zero_add]
  rw [List.take_append_drop] at this
  exact this.symm

theorem runLen_take_all (p : UInt8 → Bool) (l : VBytes) : ∀ x ∈ l.take (Text.runLen p l), p x = true := by
  induction l with
  | nil => simp
  | cons y ys ih =>
    by_cases hy : p y = true
    · simp only [Text.runLen, hy, ↓reduceIte, List.take_succ_cons, List.mem_cons]
      intro x hx
      rcases hx with rfl | hx
      · exact hy
      · exact ih x hx
    · simp [Text.runLen, hy]

theorem runLen_lt_of_getLast (p : UInt8 → Bool) {l : VBytes} {c : UInt8} (hl : l.getLast? = some c)
    (hc : p c = false) : Text.runLen p l < l.length := by
  induction l with
  | nil => simp at hl
  | cons y ys ih =>
    by_cases hy : p y = true
    · simp only [Text.runLen, hy, ↓reduceIte, List.length_cons, Nat.add_lt_add_iff_right]
      cases ys with
      | nil =>
        simp only [List.getLast?_singleton, Option.some.injEq] at hl
        subst hl; rw [hy] at hc; cases hc
      | cons z zs =>
        rw [List.getLast?_cons_cons] at hl
        exact ih hl
    · simp [Text.runLen, hy]

/-- A run over `l ++ q` ends inside `l`, or at its end if the first byte of `q` ends it. -/
theorem runLen_append_hd (p : UInt8 → Bool) (l : VBytes) {d : UInt8} {tl : VBytes} (hd : p d = false) :
    Text.runLen p (l ++ d :: tl) = Text.runLen p l := by
  induction l with
  | nil => simp [Text.runLen, hd]
  | cons y ys ih =>
    by_cases hy : p y = true
    · simp [Text.runLen, hy, ih]
    · simp [Text.runLen, hy]

theorem runLen_all (p : UInt8 → Bool) {l : VBytes} (h : l.all p = true) : Text.runLen p l = l.length := by
  induction l with
  | nil => rfl
  | cons y ys ih =>
    simp only [List.all_cons, Bool.and_eq_true] at h
    simp [Text.runLen, h.1, ih h.2]

/-! ### the context -/

/-- The replaced token, its replacement, what follows, and the line / first column of the token. -/
structure Ctx where
  tok : VBytes
  tok' : VBytes
  post : VBytes
  L : Nat
  lo : Nat

namespace Ctx
def q1 (X : Ctx) : VBytes := X.tok ++ X.post
def q2 (X : Ctx) : VBytes := X.tok' ++ X.post

structure OK (X : Ctx) : Prop where
  tok_ne : X.tok ≠ []
  tok_dig : X.tok.all isDigit = true
  tok'_dig : X.tok'.all isDigit = true
  big : 2 ^ 64 ≤ Text.decVal X.tok'
  post_hd : X.post.head? = some 32 ∨ X.post.head? = some 10

variable {X : Ctx}

theorem OK.tok'_ne (h : X.OK) : X.tok' ≠ [] := by
  intro he
  have := h.big
  rw [he, Text.decVal_nil] at this
  omega

theorem OK.post_cons (h : X.OK) : ∃ c tl, X.post = c :: tl ∧ (c = 32 ∨ c = 10) := by
  cases hp : X.post with
  | nil => have := h.post_hd; rw [hp] at this; simp at this
  | cons c tl =>
    have := h.post_hd
    rw [hp] at this
    simp only [List.head?_cons, Option.some.injEq] at this
    exact ⟨c, tl, rfl, this⟩

theorem hd_of_dig {t p : VBytes} (hne : t ≠ []) (hd : t.all isDigit = true) :
    ∃ d tl, t ++ p = d :: tl ∧ isDigit d = true := by
  cases t with
  | nil => exact absurd rfl hne
  | cons d ds =>
    simp only [List.all_cons, Bool.and_eq_true] at hd
    exact ⟨d, ds ++ p, rfl, hd.1⟩

theorem OK.q1_hd (h : X.OK) : ∃ d tl, X.q1 = d :: tl ∧ isDigit d = true := hd_of_dig h.tok_ne h.tok_dig
theorem OK.q2_hd (h : X.OK) : ∃ d tl, X.q2 = d :: tl ∧ isDigit d = true := hd_of_dig h.tok'_ne h.tok'_dig

theorem OK.tok'_pos (h : X.OK) : 0 < X.tok'.length := List.length_pos_iff.mpr h.tok'_ne

theorem OK.q1_len (h : X.OK) : 0 < X.q1.length := by
  obtain ⟨d, tl, e, _⟩ := h.q1_hd; rw [e]; simp
theorem OK.q2_len (h : X.OK) : 0 < X.q2.length := by
  obtain ⟨d, tl, e, _⟩ := h.q2_hd; rw [e]; simp

end Ctx

/-- A syntax error on the replaced token. -/
def Loc (X : Ctx) (e : PErr) : Prop :=
  ∀ l c, e = .syn l c → l = X.L ∧ X.lo ≤ c ∧ c < X.lo + X.tok'.length

variable {X : Ctx}

/-! ### the short state and its two extensions -/

/-- The state `s` over the longer input `rest ++ q`. -/
def E (q : VBytes) (s : LR) : LR := { s with v := { s.v with rest := s.v.rest ++ q } }

/-- The state after a request for the byte at offset `k` (which exists). -/
def pk (k : Nat) (s : LR) : LR :=
  { s with v := { s.v with peeked := max s.v.peeked (s.v.pos + k + 1) } }

@[simp] theorem E_rest (q : VBytes) (s : LR) : (E q s).v.rest = s.v.rest ++ q := rfl
@[simp] theorem E_pos (q : VBytes) (s : LR) : (E q s).v.pos = s.v.pos := rfl
@[simp] theorem E_peeked (q : VBytes) (s : LR) : (E q s).v.peeked = s.v.peeked := rfl
@[simp] theorem E_line (q : VBytes) (s : LR) : (E q s).line = s.line := rfl
@[simp] theorem E_lineStart (q : VBytes) (s : LR) : (E q s).lineStart = s.lineStart := rfl
@[simp] theorem pk_rest (k : Nat) (s : LR) : (pk k s).v.rest = s.v.rest := rfl
@[simp] theorem pk_pos (k : Nat) (s : LR) : (pk k s).v.pos = s.v.pos := rfl
@[simp] theorem pk_line (k : Nat) (s : LR) : (pk k s).line = s.line := rfl
@[simp] theorem pk_lineStart (k : Nat) (s : LR) : (pk k s).lineStart = s.lineStart := rfl
@[simp] theorem pk_peeked (k : Nat) (s : LR) :
    (pk k s).v.peeked = max s.v.peeked (s.v.pos + k + 1) := rfl

theorem E_demand (q : VBytes) (s : LR) (k : Nat) (hk : k < s.v.rest.length + q.length) :
    ({ E q s with v := (E q s).v.demand k } : LR) = E q (pk k s) := by
  have : k < (E q s).v.rest.length := by simp only [E_rest, List.length_append]; exact hk
  rw [demand_of_lt _ _ this]
  rfl

theorem E_demand_v (q : VBytes) (s : LR) (k : Nat) (hk : k < s.v.rest.length + q.length) :
    (E q s).v.demand k = (E q (pk k s)).v := by
  have : k < (E q s).v.rest.length := by simp only [E_rest, List.length_append]; exact hk
  rw [demand_of_lt _ _ this]
  rfl

theorem E_adv (q : VBytes) (s : LR) (n : Nat) (hn : n ≤ s.v.rest.length) :
    advLR n (E q s) = E q (advLR n s) := by
  simp only [advLR, E, List.drop_append_of_le_length hn]

theorem E_demanded (q : VBytes) (s : LR) :
    (E q s).v.demanded = min (s.v.peeked - s.v.pos) (s.v.rest.length + q.length) := by
  simp [View.demanded, E]

/-- The invariant of the short state. -/
structure St (X : Ctx) (s : LR) : Prop where
  line : s.line + s.v.rest.count 10 = X.L
  colA : s.v.rest.count 10 = 0 →
    s.lineStart ≤ s.v.pos ∧ X.lo + s.lineStart = s.v.pos + s.v.rest.length + 1
  colB : s.v.rest.count 10 ≠ 0 → X.lo = lll s.v.rest + 1
  peek : s.v.peeked ≤ s.v.pos + s.v.rest.length + 1
  bd : s.v.rest = [] ∨ s.v.rest.getLast? = some 32 ∨ s.v.rest.getLast? = some 10

/-- Only look-ahead (inside the short input or its first byte behind) happened. -/
theorem St.of_peek {s u : LR} (hs : St X s) (hrest : u.v.rest = s.v.rest) (hpos : u.v.pos = s.v.pos)
    (hline : u.line = s.line) (hls : u.lineStart = s.lineStart)
    (hpk : u.v.peeked ≤ s.v.pos + s.v.rest.length + 1) : St X u :=
  ⟨by rw [hline, hrest]; exact hs.line, by rw [hrest, hls, hpos]; exact hs.colA,
    by rw [hrest]; exact hs.colB, by rw [hrest, hpos]; exact hpk, by rw [hrest]; exact hs.bd⟩

theorem St.pk {s : LR} (hs : St X s) (k : Nat) (hk : k ≤ s.v.rest.length) : St X (pk k s) := by
  refine hs.of_peek rfl rfl rfl rfl ?_
  have := hs.peek
  simp only [pk_peeked]
  omega

/-- `n` bytes that are not newlines have been consumed. -/
theorem St.of_adv {s u : LR} (hs : St X s) (n : Nat) (hn : n ≤ s.v.rest.length)
    (hno : ∀ x ∈ s.v.rest.take n, x ≠ 10)
    (hrest : u.v.rest = s.v.rest.drop n) (hpos : u.v.pos = s.v.pos + n) (hline : u.line = s.line)
    (hls : u.lineStart = s.lineStart) (hpk : u.v.peeked ≤ s.v.pos + s.v.rest.length + 1) : St X u := by
  have hc := count_drop_of_take hno
  have hlen : (s.v.rest.drop n).length = s.v.rest.length - n := List.length_drop
  refine ⟨?_, ?_, ?_, ?_, ?_⟩
  · rw [hline, hrest, hc]; exact hs.line
  · rw [hrest, hc, hls, hpos, hlen]
    intro h0
    obtain ⟨h1, h2⟩ := hs.colA h0
    exact ⟨by omega, by omega⟩
  · rw [hrest, hc]
    intro h0
    rw [hs.colB h0]
    have : lll (s.v.rest.take n ++ s.v.rest.drop n) = lll (s.v.rest.drop n) :=
      lll_append (by rw [hc]; exact h0)
    rw [List.take_append_drop] at this
    rw [this]
  · rw [hrest, hpos, hlen]; omega
  · rw [hrest]
    by_cases hlt : n < s.v.rest.length
    · right
      rw [List.getLast?_drop]
      have : ¬ s.v.rest.length ≤ n := by omega
      simp only [this, ↓reduceIte]
      rcases hs.bd with h | h
      · rw [h] at hlt; simp at hlt
      · exact h
    · left
      exact List.drop_eq_nil_of_le (by omega)

/-- A newline has been consumed and the line bookkeeping updated. -/
theorem St.of_nl {s u : LR} {r' : VBytes} (hs : St X s) (hr : s.v.rest = 10 :: r')
    (hrest : u.v.rest = r') (hpos : u.v.pos = s.v.pos + 1) (hline : u.line = s.line + 1)
    (hls : u.lineStart = s.v.pos + 1) (hpk : u.v.peeked ≤ s.v.pos + s.v.rest.length + 1) : St X u := by
  have hcnt : s.v.rest.count 10 = r'.count 10 + 1 := by rw [hr]; simp
  have hne : s.v.rest.count 10 ≠ 0 := by omega
  have hlo := hs.colB hne
  refine ⟨?_, ?_, ?_, ?_, ?_⟩
  · rw [hline, hrest]; have := hs.line; omega
  · rw [hrest, hls, hpos]
    intro h0
    rw [hr, lll_cons_lf h0] at hlo
    exact ⟨Nat.le_refl _, by omega⟩
  · rw [hrest]
    intro h0
    rw [hlo, hr]
    have : lll ([10] ++ r') = lll r' := lll_append h0
    simpa using this
  · rw [hrest, hpos]; rw [hr] at hpk; simp only [List.length_cons] at hpk; omega
  · rw [hrest]
    cases r' with
    | nil => left; rfl
    | cons z zs =>
      right
      have := hs.bd
      rw [hr, List.getLast?_cons_cons] at this
      rcases this with h | h
      · cases h
      · exact h

/-- A non-empty rest of the short input ends in a byte that ends every token. -/
theorem St.last {s : LR} (hs : St X s) (hne : s.v.rest ≠ []) :
    ∃ c, s.v.rest.getLast? = some c ∧ (c = 32 ∨ c = 10) := by
  rcases hs.bd with h | h | h
  · exact absurd h hne
  · exact ⟨32, h, Or.inl rfl⟩
  · exact ⟨10, h, Or.inr rfl⟩

/-- At the boundary the cursor is at line `X.L`, column `X.lo`. -/
theorem St.loc {s : LR} (hs : St X s) (hr : s.v.rest = []) (k : Nat) (hk : k < X.tok'.length) :
    Loc X (.syn s.line (s.v.pos + k - s.lineStart + 1)) := by
  intro l c he
  cases he
  have h1 := hs.line
  obtain ⟨h2, h3⟩ := hs.colA (by rw [hr]; rfl)
  rw [hr] at h1 h3
  simp only [List.count_nil, List.length_nil] at h1 h3
  exact ⟨by omega, by omega, by omega⟩

/-! ### outcomes -/

/-- The next byte is a digit. -/
def Dig (u : LR) : Prop := ∃ d tl, u.v.rest = d :: tl ∧ isDigit d = true

/-- Run 2 is stuck on a digit of the replacement token: an error at its cursor is on the token. -/
def Dig2 (X : Ctx) (u : LR) : Prop := Dig u ∧ Loc X (.syn u.line (u.v.pos - u.lineStart + 1))

variable {α β : Type}

/-- What both runs can have done when they return (see the file comment). -/
def Post (X : Ctx) (ρ : α → α → Prop) (ε1 ε2 : α → Prop) (a1 : α) (u1 : LR) (a2 : α) (u2 : LR) : Prop :=
  (a1 = a2 ∧ ∃ s, St X s ∧ u1 = E X.q1 s ∧ u2 = E X.q2 s) ∨ (ρ a1 a2 ∧ Sh u1 u2) ∨
  (ε2 a2 ∧ Dig2 X u2) ∨ (ε1 a1 ∧ Dig u1)

theorem Post.inP {ρ : α → α → Prop} {ε1 ε2 : α → Prop} {a : α} {s : LR} (hs : St X s) :
    Post X ρ ε1 ε2 a (E X.q1 s) a (E X.q2 s) := Or.inl ⟨rfl, s, hs, rfl, rfl⟩

theorem Post.mono {ρ ρ' : α → α → Prop} {ε1 ε1' ε2 ε2' : α → Prop} {a1 a2 : α} {u1 u2 : LR}
    (h : Post X ρ ε1 ε2 a1 u1 a2 u2) (hr : ∀ a b, ρ a b → ρ' a b) (h1 : ∀ a, ε1 a → ε1' a)
    (h2 : ∀ a, ε2 a → ε2' a) : Post X ρ' ε1' ε2' a1 u1 a2 u2 := by
  rcases h with h | ⟨h, hs⟩ | ⟨h, hd⟩ | ⟨h, hd⟩
  · exact Or.inl h
  · exact Or.inr (Or.inl ⟨hr _ _ h, hs⟩)
  · exact Or.inr (Or.inr (Or.inl ⟨h2 _ h, hd⟩))
  · exact Or.inr (Or.inr (Or.inr ⟨h1 _ h, hd⟩))

/-- From the two extensions of a short state: `Post`. -/
def PW (X : Ctx) (m1 m2 : PM α) (ρ : α → α → Prop) (ε1 ε2 : α → Prop) : Prop :=
  ∀ s, St X s → RWp (Loc X) m1 m2 (E X.q1 s) (E X.q2 s) (Post X ρ ε1 ε2)

def No2 : α → α → Prop := fun _ _ => False
def No1 : α → Prop := fun _ => False

/-- Both runs stay inside the short input (or run 1 fails, or run 2 fails on the token). -/
abbrev PWP (X : Ctx) (m1 m2 : PM α) : Prop := PW X m1 m2 No2 No1 No1

theorem PW.mono {m1 m2 : PM α} {ρ ρ' : α → α → Prop} {ε1 ε1' ε2 ε2' : α → Prop}
    (h : PW X m1 m2 ρ ε1 ε2) (hr : ∀ a b, ρ a b → ρ' a b) (h1 : ∀ a, ε1 a → ε1' a)
    (h2 : ∀ a, ε2 a → ε2' a) : PW X m1 m2 ρ' ε1' ε2' :=
  fun s hs => (h s hs).mono (fun _ _ _ _ hp => hp.mono hr h1 h2)

theorem PWP.weaken {m1 m2 : PM α} {ρ : α → α → Prop} {ε1 ε2 : α → Prop} (h : PWP X m1 m2) :
    PW X m1 m2 ρ ε1 ε2 :=
  PW.mono h (fun _ _ hh => hh.elim) (fun _ hh => hh.elim) (fun _ hh => hh.elim)

theorem PW.bind {m1 m2 : PM α} {f1 f2 : α → PM β} {ρm : α → α → Prop} {ε1m ε2m : α → Prop}
    {ρ : β → β → Prop} {ε1 ε2 : β → Prop}
    (hm : PW X m1 m2 ρm ε1m ε2m)
    (hP : ∀ a, PW X (f1 a) (f2 a) ρ ε1 ε2)
    (hS : ∀ a1 a2, ρm a1 a2 → ShWp (Loc X) (f1 a1) (f2 a2) ρ)
    (h2 : ∀ a2, ε2m a2 → ∀ u, Dig2 X u →
      Wp (fun e _ => Loc X e) (f2 a2) u (fun b u' => ε2 b ∧ Dig2 X u'))
    (h1 : ∀ a1, ε1m a1 → ∀ u, Dig u → ∀ b u', (f1 a1).run u ≠ (.ok b, u')) :
    PW X (m1 >>= f1) (m2 >>= f2) ρ ε1 ε2 := by
  intro s hs
  refine RWp.bind' (hm s hs) ?_
  intro a1 u1 a2 u2 hpost
  rcases hpost with ⟨rfl, s', hs', rfl, rfl⟩ | ⟨hr, hsh⟩ | ⟨he, hd⟩ | ⟨he, hd⟩
  · exact hP a1 s' hs'
  · exact (hS a1 a2 hr u1 u2 hsh).mono (fun _ _ _ _ h => Or.inr (Or.inl h))
  · exact RWp.right ((h2 a2 he u2 hd).mono (fun b u' h _ _ => Or.inr (Or.inr (Or.inl h))))
  · exact RWp.left (h1 a1 he u1 hd)

/-- `bind` behind a step that stays inside the short input. -/
theorem PW.bindP {m1 m2 : PM α} {f1 f2 : α → PM β} {ρ : β → β → Prop} {ε1 ε2 : β → Prop}
    (hm : PWP X m1 m2) (hP : ∀ a, PW X (f1 a) (f2 a) ρ ε1 ε2) :
    PW X (m1 >>= f1) (m2 >>= f2) ρ ε1 ε2 :=
  PW.bind hm hP (fun _ _ h => h.elim) (fun _ h => h.elim) (fun _ h => h.elim)

/-- A pure function applied to the result. -/
theorem PW.map {m1 m2 : PM α} {g : α → β} {ρm : α → α → Prop} {ε1m ε2m : α → Prop}
    {ρ : β → β → Prop} {ε1 ε2 : β → Prop} (hm : PW X m1 m2 ρm ε1m ε2m)
    (hr : ∀ a b, ρm a b → ρ (g a) (g b)) (h1 : ∀ a, ε1m a → ε1 (g a)) (h2 : ∀ a, ε2m a → ε2 (g a)) :
    PW X (m1 >>= fun a => pure (g a)) (m2 >>= fun a => pure (g a)) ρ ε1 ε2 := by
  intro s hs
  refine RWp.bind' (hm s hs) ?_
  intro a1 u1 a2 u2 hpost
  refine RWp.pure ?_
  rcases hpost with ⟨rfl, h⟩ | ⟨h, hsh⟩ | ⟨h, hd⟩ | ⟨h, hd⟩
  · exact Or.inl ⟨rfl, h⟩
  · exact Or.inr (Or.inl ⟨hr _ _ h, hsh⟩)
  · exact Or.inr (Or.inr (Or.inl ⟨h2 _ h, hd⟩))
  · exact Or.inr (Or.inr (Or.inr ⟨h1 _ h, hd⟩))

theorem PW.pure {ρ : α → α → Prop} {ε1 ε2 : α → Prop} (a : α) :
    PW X (pure a : PM α) (pure a : PM α) ρ ε1 ε2 :=
  fun _ hs => RWp.pure (Post.inP hs)

theorem PW.left {m1 m2 : PM α} {ρ : α → α → Prop} {ε1 ε2 : α → Prop}
    (h : ∀ t a u, m1.run t ≠ (.ok a, u)) : PW X m1 m2 ρ ε1 ε2 :=
  fun _ _ => RWp.left (h _)

theorem PW.unexpected {m2 : PM α} {ρ : α → α → Prop} {ε1 ε2 : α → Prop} :
    PW X (unexpected : PM α) m2 ρ ε1 ε2 :=
  PW.left unexpected_never

/-! ### steps inside the short input -/

variable {G : PErr → Prop} {q1 q2 : VBytes} {s : LR}

theorem RWp.reqAtE {k : Nat} {Q : Option UInt8 → LR → Option UInt8 → LR → Prop}
    (h1 : k < s.v.rest.length + q1.length) (h2 : k < s.v.rest.length + q2.length)
    (h : Q (s.v.rest ++ q1)[k]? (E q1 (pk k s)) (s.v.rest ++ q2)[k]? (E q2 (pk k s))) :
    RWp G (PM.reqAt k) (PM.reqAt k) (E q1 s) (E q2 s) Q := by
  refine RWp.reqAt ?_
  rw [E_demand _ _ _ h1, E_demand _ _ _ h2]
  exact h

/-- A scanner whose effect on the view is one request for an existing byte. -/
theorem RWp.scanE {f1 f2 : View → α × View} {a1 a2 : α} {n1 n2 : Nat}
    {Q : α → LR → α → LR → Prop}
    (hf1 : f1 (E q1 s).v = (a1, (E q1 s).v.demand n1)) (hf2 : f2 (E q2 s).v = (a2, (E q2 s).v.demand n2))
    (h1 : n1 < s.v.rest.length + q1.length) (h2 : n2 < s.v.rest.length + q2.length)
    (h : Q a1 (E q1 (pk n1 s)) a2 (E q2 (pk n2 s))) :
    RWp G (PM.scan f1) (PM.scan f2) (E q1 s) (E q2 s) Q := by
  refine RWp.scan ?_
  rw [hf1, hf2]
  simp only
  rw [E_demand _ _ _ h1, E_demand _ _ _ h2]
  exact h

theorem RWp.advanceE {n : Nat} {Q : Unit → LR → Unit → LR → Prop} (hn : n ≤ s.v.rest.length)
    (h : Q () (E q1 (advLR n s)) () (E q2 (advLR n s))) :
    RWp G (PM.advance n) (PM.advance n) (E q1 s) (E q2 s) Q := by
  refine RWp.advance (fun _ _ => ?_)
  rw [E_adv _ _ _ hn, E_adv _ _ _ hn]
  exact h

theorem RWp.bufPrefixE {n : Nat} {Q : VBytes → LR → VBytes → LR → Prop} (hn : n ≤ s.v.rest.length)
    (h : Q (s.v.rest.take n) (E q1 s) (s.v.rest.take n) (E q2 s)) :
    RWp G (PM.bufPrefix n) (PM.bufPrefix n) (E q1 s) (E q2 s) Q := by
  refine RWp.bufPrefix (fun _ _ => ?_)
  simp only [E_rest, List.take_append_of_le_length hn]
  exact h

theorem RWp.advanceWithBufE {n : Nat} {Q : VBytes → LR → VBytes → LR → Prop}
    (hn : n ≤ s.v.rest.length)
    (h : Q (s.v.rest.take n) (E q1 (advLR n s)) (s.v.rest.take n) (E q2 (advLR n s))) :
    RWp G (PM.advanceWithBuf n) (PM.advanceWithBuf n) (E q1 s) (E q2 s) Q := by
  refine RWp.advanceWithBuf (fun _ _ => ?_)
  simp only [E_rest, List.take_append_of_le_length hn]
  rw [E_adv _ _ _ hn, E_adv _ _ _ hn]
  exact h

/-- The state after `advance n` of bytes that are not newlines, behind a look-ahead of `k`. -/
theorem St.adv_pk {s : LR} (hs : St X s) {n k : Nat} (hn : n ≤ s.v.rest.length)
    (hk : k ≤ s.v.rest.length) (hno : ∀ x ∈ s.v.rest.take n, x ≠ 10) : St X (advLR n (Cat.pk k s)) := by
  refine hs.of_adv n hn hno rfl rfl rfl rfl ?_
  have := hs.peek
  show max s.v.peeked (s.v.pos + k + 1) ≤ _
  omega

/-! ### unary helpers -/

theorem Wp.monoE {m : PM α} {t : LR} {E1 E2 : PErr → LR → Prop} {Q : α → LR → Prop}
    (h : Wp E1 m t Q) (he : ∀ e u, E1 e u → E2 e u) : Wp E2 m t Q := by
  unfold Wp at *
  rcases hm : m.run t with ⟨e | a, u⟩
  · rw [hm] at h; exact he _ _ h
  · rw [hm] at h; exact h

theorem Wp.and {m : PM α} {t : LR} {E1 E2 : PErr → LR → Prop} {Q1 Q2 : α → LR → Prop}
    (h1 : Wp E1 m t Q1) (h2 : Wp E2 m t Q2) :
    Wp (fun e u => E1 e u ∧ E2 e u) m t (fun a u => Q1 a u ∧ Q2 a u) := by
  unfold Wp at *
  rcases hm : m.run t with ⟨e | a, u⟩
  · rw [hm] at h1 h2; exact ⟨h1, h2⟩
  · rw [hm] at h1 h2; exact ⟨h1, h2⟩

/-- An error at the cursor of a state whose cursor is on the token. -/
theorem atStart_loc {u : LR} (h : Loc X (.syn u.line (u.v.pos - u.lineStart + 1))) (e : PErr) (u' : LR)
    (ha : AtStart u e u') : Loc X e := by
  intro l c he
  subst he
  obtain ⟨rfl, rfl⟩ := ha
  exact h _ _ rfl

end Cat
end Btor2
end Flussab
