/-
Proofs of the tie between the generated DIMACS writers (`Gen/CnfWriteGen.lean`, `Gen/WcnfWriteGen.lean`,
`Gen/GcnfWriteGen.lean`, from `flussab-cnf/src/{cnf,wcnf,gcnf}.rs`) and their histories of writer
operations (`Model/DimacsWrite.lean`), and of what those histories write.  The statements that count are
collected in `Props/TieDimacsWrite.lean`.
-/
import Flussab.Proof.TieWriter
import Flussab.Model.DimacsWriteGenRun
import Flussab.Props.C11

namespace Flussab
namespace TieDimacsWriteAux
open Writer

/-- `runSeq ops` followed by `k`. -/
def seqK {β : Type} (ops : List Op) (k : RM Writer β) : RM Writer β := fun w =>
  match runSeq ops w with
  | (none, w') => (none, w')
  | (some _, w') => k w'

theorem seqK_nil {β : Type} (k : RM Writer β) (w : Writer) : seqK [] k w = k w := rfl

theorem seqK_cons {β : Type} (op : Op) (ops : List Op) (k : RM Writer β) (w : Writer) :
    seqK (op :: ops) k w = match op.run w with
      | (none, w') => (none, w')
      | (some _, w') => seqK ops k w' := by
  simp only [seqK, runSeq]
  rcases op.run w with ⟨_ | r, w'⟩ <;> rfl

theorem seqK_append {β : Type} (a b : List Op) (k : RM Writer β) (w : Writer) :
    seqK (a ++ b) k w = seqK a (seqK b k) w := by
  induction a generalizing w with
  | nil => rfl
  | cons op a ih =>
    simp only [List.cons_append, seqK_cons]
    rcases op.run w with ⟨_ | r, w'⟩
    · rfl
    · exact ih w'

theorem runSeq_eq_seqK (ops : List Op) (w : Writer) : runSeq ops w = seqK ops (pure ()) w := by
  simp only [seqK]
  rcases runSeq ops w with ⟨_ | r, w'⟩ <;> rfl

/-- One statement `g; k` of a generated function, where `g` is a call of the writer API. -/
theorem step_tied {β : Type} (g : RM Writer Unit) (op : Op) (hv : op.Valid) (ops : List Op)
    (k : Unit → RM Writer β) (k' : RM Writer β) (w : Writer) (h : w.buf.length ≤ w.cap)
    (hg : g w = match op.run w with | (none, w') => (none, w') | (some _, w') => (some (), w'))
    (hk : ∀ w' : Writer, w'.buf.length ≤ w'.cap → k () w' = seqK ops k' w') :
    (g >>= k) w = seqK (op :: ops) k' w := by
  rw [seqK_cons, RM.bind_apply, hg]
  have hl := (Writer.op_len w op hv h).1
  revert hl
  rcases op.run w with ⟨_ | r, w'⟩
  · intro _; rfl
  · intro hl; exact hk w' hl

theorem write_step (bs : WBytes) (w : Writer) (h : w.buf.length ≤ w.cap) :
    Gen.Writer.writeAllDeferErr bs w =
      match (Op.write bs).run w with | (none, w') => (none, w') | (some _, w') => (some (), w') := by
  rw [TieWriterAux.writeAllDeferErr_eq w bs h]
  simp only [Op.run]
  rcases w.writeAllDeferErr bs with ⟨_ | u, w'⟩ <;> rfl

theorem digits_step (sg : Bool) (bits : Nat) (x : Int) (w : Writer) (h : w.buf.length ≤ w.cap)
    (hv : (Op.digits sg bits x).Valid) :
    Gen.WriteText.asciiDigits sg bits x w =
      match (Op.digits sg bits x).run w with | (none, w') => (none, w') | (some _, w') => (some (), w') := by
  rw [TieWriterAux.asciiDigits_eq w sg bits x h hv]
  simp only [Op.run]
  rcases w.asciiDigits sg bits x with ⟨_ | u, w'⟩ <;> rfl

theorem lit_valid (x : Int) (hx : (IntTy.mk true 64).fits x = true) : (Op.digits true 64 x).Valid :=
  C11.digits_fit true 64 (by decide) x hx

theorem cnf_loop (cl : List Int) (lits : List Int) (hl : ∀ x ∈ lits, (IntTy.mk true 64).fits x = true) :
    ∀ (i : Nat) (w : Writer), w.buf.length ≤ w.cap →
      Gen.CnfWrite.writeClause.loop1 cl lits i () w =
        seqK (lits.flatMap (Cnf.litOps .cnf)) (pure (Ctl.brk ())) w := by
  induction lits with
  | nil => intro i w _; rfl
  | cons x rest ih =>
    intro i w h
    have hx := lit_valid x (hl x (by simp))
    have ih' := ih (fun y hy => hl y (by simp [hy]))
    rw [Gen.CnfWrite.writeClause.loop1]
    simp only [List.flatMap_cons, Cnf.litOps, List.cons_append, List.nil_append, DimacsWriteExt.dimacs]
    refine step_tied _ _ hx _ _ _ w h (digits_step _ _ _ w h hx) (fun w1 h1 => ?_)
    refine step_tied _ (Op.write [32]) trivial _ _ _ w1 h1 (write_step _ w1 h1) (fun w2 h2 => ?_)
    exact ih' _ w2 h2

theorem runSeq_len (ops : List Op) (hv : ∀ op ∈ ops, op.Valid) (w : Writer) (h : w.buf.length ≤ w.cap) :
    (runSeq ops w).2.buf.length ≤ (runSeq ops w).2.cap := by
  induction ops generalizing w with
  | nil => exact h
  | cons op ops ih =>
    have hl := (Writer.op_len w op (hv op (by simp)) h).1
    have ih' := fun w' => ih (fun o ho => hv o (by simp [ho])) w'
    simp only [runSeq]
    revert hl
    rcases op.run w with ⟨_ | r, w'⟩
    · exact fun hl => hl
    · exact fun hl => ih' w' hl

/-- A translated `for` loop (left by running off the end of the slice) followed by the rest. -/
theorem loop_tied {β : Type} (g : RM Writer (Ctl Unit Unit)) (ops : List Op) (hv : ∀ op ∈ ops, op.Valid)
    (f : Ctl Unit Unit → RM Writer β) (k' : RM Writer β) (w : Writer) (h : w.buf.length ≤ w.cap)
    (hg : g w = seqK ops (pure (Ctl.brk ())) w)
    (hk : ∀ w' : Writer, w'.buf.length ≤ w'.cap → f (Ctl.brk ()) w' = k' w') :
    (g >>= f) w = seqK ops k' w := by
  rw [RM.bind_apply, hg]
  have hl := runSeq_len ops hv w h
  simp only [seqK]
  revert hl
  rcases runSeq ops w with ⟨_ | r, w'⟩
  · intro _; rfl
  · intro hl; exact hk w' hl

theorem litOps_valid (fmt : Cnf.Format) (lits : List Int) (hl : ∀ x ∈ lits, (IntTy.mk true 64).fits x = true) :
    ∀ op ∈ lits.flatMap (Cnf.litOps fmt), op.Valid := by
  intro op hop
  simp only [List.mem_flatMap] at hop
  obtain ⟨x, hx, hop⟩ := hop
  have := lit_valid x (hl x hx)
  cases fmt <;> simp only [Cnf.litOps, List.mem_cons, List.not_mem_nil, or_false] at hop <;>
    rcases hop with rfl | rfl <;> first | exact this | trivial

theorem cnf_writeClause_eq (lits : List Int) (hl : ∀ x ∈ lits, (IntTy.mk true 64).fits x = true)
    (w : Writer) (h : w.buf.length ≤ w.cap) :
    Gen.CnfWrite.writeClause lits w = runSeq (Cnf.opsOfClause .cnf ⟨0, lits⟩) w := by
  rw [runSeq_eq_seqK]
  unfold Gen.CnfWrite.writeClause Cnf.opsOfClause
  simp only [List.nil_append, seqK_append]
  refine loop_tied _ _ (litOps_valid _ lits hl) _ _ w h (cnf_loop lits lits hl 0 w h) (fun w1 h1 => ?_)
  exact step_tied _ (Op.write [48, 10]) trivial [] _ _ w1 h1 (write_step _ w1 h1) (fun _ _ => rfl)

/-! ### wcnf.rs -/

theorem nat_valid (n : Nat) (hn : n < 2 ^ 64) : (Op.digits false 64 (n : Int)).Valid := by
  refine C11.digits_fit false 64 (by decide) n ?_
  simp only [IntTy.fits, IntTy.minVal, IntTy.maxVal, Bool.and_eq_true, decide_eq_true_eq]
  simp only [Bool.false_eq_true, ↓reduceIte]
  omega

theorem wcnf_loop (cl : List Int) (lits : List Int) (hl : ∀ x ∈ lits, (IntTy.mk true 64).fits x = true) :
    ∀ (i : Nat) (w : Writer), w.buf.length ≤ w.cap →
      Gen.WcnfWrite.writeClause.loop1 cl lits i () w =
        seqK (lits.flatMap (Cnf.litOps .wcnf)) (pure (Ctl.brk ())) w := by
  induction lits with
  | nil => intro i w _; rfl
  | cons x rest ih =>
    intro i w h
    have hx := lit_valid x (hl x (by simp))
    have ih' := ih (fun y hy => hl y (by simp [hy]))
    rw [Gen.WcnfWrite.writeClause.loop1]
    simp only [List.flatMap_cons, Cnf.litOps, List.cons_append, List.nil_append, DimacsWriteExt.dimacs]
    refine step_tied _ (Op.write [32]) trivial _ _ _ w h (write_step _ w h) (fun w1 h1 => ?_)
    refine step_tied _ _ hx _ _ _ w1 h1 (digits_step _ _ _ w1 h1 hx) (fun w2 h2 => ?_)
    exact ih' _ w2 h2

theorem wcnf_writeClause_eq (weight : Nat) (hw : weight < 2 ^ 64) (lits : List Int)
    (hl : ∀ x ∈ lits, (IntTy.mk true 64).fits x = true) (w : Writer) (h : w.buf.length ≤ w.cap) :
    Gen.WcnfWrite.writeClause weight lits w = runSeq (Cnf.opsOfClause .wcnf ⟨weight, lits⟩) w := by
  rw [runSeq_eq_seqK]
  unfold Gen.WcnfWrite.writeClause Cnf.opsOfClause
  simp only [List.cons_append, List.nil_append]
  have hwv := nat_valid weight hw
  refine step_tied _ _ hwv _ _ _ w h (digits_step _ _ _ w h hwv) (fun w0 h0 => ?_)
  rw [seqK_append]
  refine loop_tied _ _ (litOps_valid _ lits hl) _ _ w0 h0 (wcnf_loop lits lits hl 0 w0 h0) (fun w1 h1 => ?_)
  exact step_tied _ (Op.write [32, 48, 10]) trivial [] _ _ w1 h1 (write_step _ w1 h1) (fun _ _ => rfl)

/-! ### gcnf.rs -/

theorem gcnf_loop (cl : List Int) (lits : List Int) (hl : ∀ x ∈ lits, (IntTy.mk true 64).fits x = true) :
    ∀ (i : Nat) (w : Writer), w.buf.length ≤ w.cap →
      Gen.GcnfWrite.writeClause.loop1 cl lits i () w =
        seqK (lits.flatMap (Cnf.litOps .gcnf)) (pure (Ctl.brk ())) w := by
  induction lits with
  | nil => intro i w _; rfl
  | cons x rest ih =>
    intro i w h
    have hx := lit_valid x (hl x (by simp))
    have ih' := ih (fun y hy => hl y (by simp [hy]))
    rw [Gen.GcnfWrite.writeClause.loop1]
    simp only [List.flatMap_cons, Cnf.litOps, List.cons_append, List.nil_append, DimacsWriteExt.dimacs]
    refine step_tied _ _ hx _ _ _ w h (digits_step _ _ _ w h hx) (fun w1 h1 => ?_)
    refine step_tied _ (Op.write [32]) trivial _ _ _ w1 h1 (write_step _ w1 h1) (fun w2 h2 => ?_)
    exact ih' _ w2 h2

theorem gcnf_writeClause_eq (group : Nat) (hgr : group < 2 ^ 64) (lits : List Int)
    (hl : ∀ x ∈ lits, (IntTy.mk true 64).fits x = true) (w : Writer) (h : w.buf.length ≤ w.cap) :
    Gen.GcnfWrite.writeClause group lits w = runSeq (Cnf.opsOfClause .gcnf ⟨group, lits⟩) w := by
  rw [runSeq_eq_seqK]
  unfold Gen.GcnfWrite.writeClause Cnf.opsOfClause
  simp only [List.cons_append, List.nil_append]
  have hgv := nat_valid group hgr
  refine step_tied _ (Op.write [123]) trivial _ _ _ w h (write_step _ w h) (fun wa ha => ?_)
  refine step_tied _ _ hgv _ _ _ wa ha (digits_step _ _ _ wa ha hgv) (fun wb hb => ?_)
  refine step_tied _ (Op.write [125, 32]) trivial _ _ _ wb hb (write_step _ wb hb) (fun w0 h0 => ?_)
  rw [seqK_append]
  refine loop_tied _ _ (litOps_valid _ lits hl) _ _ w0 h0 (gcnf_loop lits lits hl 0 w0 h0) (fun w1 h1 => ?_)
  exact step_tied _ (Op.write [48, 10]) trivial [] _ _ w1 h1 (write_step _ w1 h1) (fun _ _ => rfl)

/-! ### headers -/

theorem intDigits_ofNat (n : Nat) : Writer.intDigits (n : Int) = Writer.natDigits n := by
  have : ¬ ((n : Int) < 0) := by omega
  simp only [Writer.intDigits, this, ↓reduceIte, Int.natAbs_natCast]

/-- `writeln!` (contract `writeFmt`: one `write_all`), result dropped. -/
theorem writeFmt_step (pieces : List (List UInt8)) (text : WBytes) (ht : pieces.flatten = text)
    (w : Writer) (h : w.buf.length ≤ w.cap) :
    (do let t ← DimacsWriteExt.writeFmt pieces; let _ := t; pure ()) w = runSeq [Op.write text] w := by
  subst ht
  simp only [RM.bind_apply, DimacsWriteExt.writeFmt, TieWriterAux.writeAll_eq w _ h, runSeq, Op.run]
  rcases w.writeAllDeferErr pieces.flatten with ⟨_ | u, w'⟩ <;> rfl

open TieDimacsWrite (hdrModel hdrOfModel genHeader genClause genClauses genDoc)

theorem cnf_writeHeader_eq (hd : DimacsWriteExt.Hdr) (w : Writer) (h : w.buf.length ≤ w.cap) :
    Gen.CnfWrite.writeHeader hd w = runSeq (Cnf.opsOfHeader .cnf (hdrModel hd)) w := by
  unfold Gen.CnfWrite.writeHeader Cnf.opsOfHeader
  refine writeFmt_step _ _ ?_ w h
  simp [Cnf.writeHeader, Cnf.keyword, Cnf.intText, hdrModel, intDigits_ofNat, DimacsWriteExt.displayNat]

theorem wcnf_writeHeader_eq (hd : DimacsWriteExt.Hdr) (w : Writer) (h : w.buf.length ≤ w.cap) :
    Gen.WcnfWrite.writeHeader hd w = runSeq (Cnf.opsOfHeader .wcnf (hdrModel hd)) w := by
  unfold Gen.WcnfWrite.writeHeader Cnf.opsOfHeader
  refine writeFmt_step _ _ ?_ w h
  simp [Cnf.writeHeader, Cnf.keyword, Cnf.intText, hdrModel, intDigits_ofNat, DimacsWriteExt.displayNat]

theorem gcnf_writeHeader_eq (hd : DimacsWriteExt.Hdr) (w : Writer) (h : w.buf.length ≤ w.cap) :
    Gen.GcnfWrite.writeHeader hd w = runSeq (Cnf.opsOfHeader .gcnf (hdrModel hd)) w := by
  unfold Gen.GcnfWrite.writeHeader Cnf.opsOfHeader
  refine writeFmt_step _ _ ?_ w h
  simp [Cnf.writeHeader, Cnf.keyword, Cnf.intText, hdrModel, intDigits_ofNat, DimacsWriteExt.displayNat]

/-! ### the bytes of the histories -/

theorem litOps_bytes (fmt : Cnf.Format) (w : Writer) (lits : List Int) :
    (lits.flatMap (Cnf.litOps fmt)).flatMap (Op.bytes w) =
      (lits.map fun l => match fmt with
        | .wcnf => [32] ++ Cnf.intText l
        | _ => Cnf.intText l ++ [32]).flatten := by
  induction lits with
  | nil => rfl
  | cons x rest ih =>
    simp only [List.flatMap_cons, List.flatMap_append, ih, List.map_cons, List.flatten_cons]
    cases fmt <;> simp [Cnf.litOps, Op.bytes, Cnf.intText]

theorem opsOfClause_bytes (fmt : Cnf.Format) (c : Cnf.Clause) (w : Writer) :
    (Cnf.opsOfClause fmt c).flatMap (Op.bytes w) = Cnf.writeClause fmt c := by
  simp only [Cnf.opsOfClause, List.flatMap_append, litOps_bytes]
  cases fmt <;> simp [Cnf.writeClause, Op.bytes, Cnf.intText]

theorem opsOfHeader_bytes (fmt : Cnf.Format) (h : Cnf.Header) (w : Writer) :
    (Cnf.opsOfHeader fmt h).flatMap (Op.bytes w) = Cnf.writeHeader fmt h := by
  simp [Cnf.opsOfHeader, Op.bytes]

theorem opsOfDoc_bytes (fmt : Cnf.Format) (h : Option Cnf.Header) (cs : List Cnf.Clause) (w : Writer) :
    (Cnf.opsOfDoc fmt h cs).flatMap (Op.bytes w) = Cnf.writeDoc fmt h cs := by
  simp only [Cnf.opsOfDoc, Cnf.writeDoc, List.flatMap_append]
  congr 1
  · cases h with
    | none => rfl
    | some h => exact opsOfHeader_bytes fmt h w
  · induction cs with
    | nil => rfl
    | cons c cs ih => simp only [List.flatMap_cons, List.flatMap_append, opsOfClause_bytes, ih, List.map_cons, List.flatten_cons]

/-- Ops whose bytes do not depend on the writer state (`write`, `digits`). -/
def Data : Op → Prop
  | .write _ => True
  | .digits _ _ _ => True
  | _ => False

theorem written_data (ops : List Op) (hd : ∀ op ∈ ops, Data op) (w w0 : Writer) :
    C11.written ops w = ops.flatMap (Op.bytes w0) := by
  induction ops generalizing w with
  | nil => rfl
  | cons op ops ih =>
    simp only [C11.written, List.flatMap_cons, ih (fun o ho => hd o (by simp [ho]))]
    have := hd op (by simp)
    cases op <;> first | rfl | exact absurd this id

/-! ### the uniform interface, and whole documents -/

theorem hdrModel_ofModel (h : Cnf.Header) (hw : h.Writable) : hdrModel (hdrOfModel h) = h := by
  obtain ⟨h1, h2, h3⟩ := hw
  cases h
  simp only [hdrModel, hdrOfModel, Cnf.Header.mk.injEq] at *
  omega

theorem genHeader_eq (fmt : Cnf.Format) (hd : Cnf.Header) (hw : hd.Writable) (w : Writer)
    (h : w.buf.length ≤ w.cap) : genHeader fmt hd w = runSeq (Cnf.opsOfHeader fmt hd) w := by
  have e := hdrModel_ofModel hd hw
  cases fmt
  · have := cnf_writeHeader_eq (hdrOfModel hd) w h
    rw [e] at this
    exact this
  · have := wcnf_writeHeader_eq (hdrOfModel hd) w h
    rw [e] at this
    exact this
  · have := gcnf_writeHeader_eq (hdrOfModel hd) w h
    rw [e] at this
    exact this

theorem genClause_eq (fmt : Cnf.Format) (c : Cnf.Clause) (hc : c.Writable fmt) (w : Writer)
    (h : w.buf.length ≤ w.cap) : genClause fmt c w = runSeq (Cnf.opsOfClause fmt c) w := by
  obtain ⟨hl, ht⟩ := hc
  cases fmt
  · simp only [genClause, cnf_writeClause_eq c.lits hl w h]
    rfl
  · obtain ⟨t0, t1⟩ := ht (by decide)
    have ht' : c.tag.toNat < 2 ^ 64 := by omega
    have e : ((c.tag.toNat : Nat) : Int) = c.tag := by omega
    have := wcnf_writeClause_eq c.tag.toNat ht' c.lits hl w h
    rw [e] at this
    exact this
  · obtain ⟨t0, t1⟩ := ht (by decide)
    have ht' : c.tag.toNat < 2 ^ 64 := by omega
    have e : ((c.tag.toNat : Nat) : Int) = c.tag := by omega
    have := gcnf_writeClause_eq c.tag.toNat ht' c.lits hl w h
    rw [e] at this
    exact this

theorem opsOfClause_valid (fmt : Cnf.Format) (c : Cnf.Clause) (hc : c.Writable fmt) :
    ∀ op ∈ Cnf.opsOfClause fmt c, op.Valid := by
  obtain ⟨hl, ht⟩ := hc
  have hlv := litOps_valid fmt c.lits hl
  intro op hop
  simp only [Cnf.opsOfClause, List.mem_append] at hop
  rcases hop with (hop | hop) | hop
  · cases fmt
    · simp at hop
    · obtain ⟨t0, t1⟩ := ht (by decide)
      simp only [List.mem_cons, List.not_mem_nil, or_false] at hop
      subst hop
      have e : ((c.tag.toNat : Nat) : Int) = c.tag := by omega
      rw [← e]
      exact nat_valid c.tag.toNat (by omega)
    · obtain ⟨t0, t1⟩ := ht (by decide)
      simp only [List.mem_cons, List.not_mem_nil, or_false] at hop
      rcases hop with rfl | rfl | rfl
      · trivial
      · have e : ((c.tag.toNat : Nat) : Int) = c.tag := by omega
        rw [← e]
        exact nat_valid c.tag.toNat (by omega)
      · trivial
  · exact hlv op hop
  · simp only [List.mem_cons, List.not_mem_nil, or_false] at hop
    subst hop
    trivial

theorem opsOfClause_data (fmt : Cnf.Format) (c : Cnf.Clause) : ∀ op ∈ Cnf.opsOfClause fmt c, Data op := by
  intro op hop
  simp only [Cnf.opsOfClause, List.mem_append, List.mem_flatMap] at hop
  rcases hop with (hop | ⟨x, _, hop⟩) | hop
  · cases fmt <;> simp only [List.mem_cons, List.not_mem_nil, or_false] at hop
    · rcases hop with rfl; trivial
    · rcases hop with rfl | rfl | rfl <;> trivial
  · cases fmt <;> simp only [Cnf.litOps, List.mem_cons, List.not_mem_nil, or_false] at hop <;>
      rcases hop with rfl | rfl <;> trivial
  · simp only [List.mem_cons, List.not_mem_nil, or_false] at hop
    subst hop
    trivial

theorem opsOfDoc_valid (fmt : Cnf.Format) (h : Option Cnf.Header) (cs : List Cnf.Clause)
    (hcs : ∀ c ∈ cs, c.Writable fmt) : ∀ op ∈ Cnf.opsOfDoc fmt h cs, op.Valid := by
  intro op hop
  simp only [Cnf.opsOfDoc, List.mem_append, List.mem_flatMap] at hop
  rcases hop with hop | ⟨c, hc, hop⟩
  · cases h with
    | none => simp at hop
    | some h =>
      simp only [Cnf.opsOfHeader, List.mem_cons, List.not_mem_nil, or_false] at hop
      subst hop; trivial
  · exact opsOfClause_valid fmt c (hcs c hc) op hop

theorem opsOfDoc_data (fmt : Cnf.Format) (h : Option Cnf.Header) (cs : List Cnf.Clause) :
    ∀ op ∈ Cnf.opsOfDoc fmt h cs, Data op := by
  intro op hop
  simp only [Cnf.opsOfDoc, List.mem_append, List.mem_flatMap] at hop
  rcases hop with hop | ⟨c, _, hop⟩
  · cases h with
    | none => simp at hop
    | some h =>
      simp only [Cnf.opsOfHeader, List.mem_cons, List.not_mem_nil, or_false] at hop
      subst hop; trivial
  · exact opsOfClause_data fmt c op hop

/-- A call of a function that is tied to a history, followed by the rest. -/
theorem seq_tied {β : Type} (g : RM Writer Unit) (ops : List Op) (hv : ∀ op ∈ ops, op.Valid)
    (k : Unit → RM Writer β) (k' : RM Writer β) (w : Writer) (h : w.buf.length ≤ w.cap)
    (hg : g w = runSeq ops w)
    (hk : ∀ w' : Writer, w'.buf.length ≤ w'.cap → k () w' = k' w') :
    (g >>= k) w = seqK ops k' w := by
  rw [RM.bind_apply, hg]
  have hl := runSeq_len ops hv w h
  simp only [seqK]
  revert hl
  rcases runSeq ops w with ⟨_ | r, w'⟩
  · intro _; rfl
  · intro hl; exact hk w' hl

theorem genClauses_eq (fmt : Cnf.Format) (cs : List Cnf.Clause) (hcs : ∀ c ∈ cs, c.Writable fmt) :
    ∀ w : Writer, w.buf.length ≤ w.cap → genClauses fmt cs w = runSeq (cs.flatMap (Cnf.opsOfClause fmt)) w := by
  induction cs with
  | nil => intro w _; rfl
  | cons c cs ih =>
    intro w h
    have hc := hcs c (by simp)
    have ih' := ih (fun d hd => hcs d (by simp [hd]))
    rw [genClauses, runSeq_eq_seqK, List.flatMap_cons, seqK_append]
    refine seq_tied _ _ (opsOfClause_valid fmt c hc) _ _ w h (genClause_eq fmt c hc w h) (fun w1 h1 => ?_)
    rw [← runSeq_eq_seqK]
    exact ih' w1 h1

theorem genDoc_eq (fmt : Cnf.Format) (hd : Option Cnf.Header) (cs : List Cnf.Clause)
    (hh : ∀ h ∈ hd, Cnf.Header.Writable h) (hcs : ∀ c ∈ cs, c.Writable fmt) (w : Writer)
    (h : w.buf.length ≤ w.cap) : genDoc fmt hd cs w = runSeq (Cnf.opsOfDoc fmt hd cs) w := by
  unfold genDoc Cnf.opsOfDoc
  rw [runSeq_eq_seqK, seqK_append]
  cases hd with
  | none =>
    simp only [seqK_nil]
    rw [← runSeq_eq_seqK]
    exact genClauses_eq fmt cs hcs w h
  | some hdr =>
    refine seq_tied _ _ (fun op hop => ?_) _ _ w h (genHeader_eq fmt hdr (hh hdr rfl) w h) (fun w1 h1 => ?_)
    · simp only [Cnf.opsOfHeader, List.mem_cons, List.not_mem_nil, or_false] at hop
      subst hop; trivial
    · rw [← runSeq_eq_seqK]
      exact genClauses_eq fmt cs hcs w1 h1

/-! ### composition with C11 -/

/-- On a sink that never panics no panic unwinds through the history: `runSeq` is `C11.runOps`. -/
theorem runSeq_no_panic (ops : List Op) (hv : ∀ op ∈ ops, op.Valid) (w : Writer) (hi : C11.Inv w) :
    runSeq ops w = (some (), C11.runOps ops w) := by
  induction ops generalizing w with
  | nil => rfl
  | cons op ops ih =>
    obtain ⟨⟨r, hr⟩, hi', _⟩ := C11.op_keeps_inv w op (hv op (by simp)) hi
    have ih' := ih (fun o ho => hv o (by simp [ho])) (op.run w).2 hi'
    simp only [runSeq, C11.runOps]
    revert hr ih'
    rcases op.run w with ⟨o, w'⟩
    intro hr ih'
    simp only at hr
    subst hr
    exact ih'

/-- **Good sink**: a history of `write` / `digits` ops run as a Rust function runs it, then `flush`
(the generated `<DeferredWriter as Write>::flush`): no panic, `flush` returns `Ok(())`, and the sink has
received what it had, what was buffered, and the bytes of the history — in order, once. -/
theorem good_sink_flush (ops : List Op) (hv : ∀ op ∈ ops, op.Valid) (hd : ∀ op ∈ ops, Data op)
    (w : Writer) (hg : w.sink.Good) (hinv : w.buf.length ≤ w.cap) (hup : w.panicked = false)
    (he : w.ioError = false) :
    ∃ w1 w2, runSeq ops w = (some (), w1) ∧ Gen.Writer.flush w1 = (some (Except.ok ()), w2) ∧
      w2.sink.sunk = w.sink.sunk ++ w.buf ++ ops.flatMap (Op.bytes w) ∧ w2.buf = [] := by
  obtain ⟨s1, s2, s3⟩ := C11.good_sink_exact ops w hv hg hinv hup he .flush (Or.inl rfl)
  have s3' := s3 rfl
  rw [C11.runOps_append] at s1 s2
  refine ⟨C11.runOps ops w, (Op.flush.run (C11.runOps ops w)).2,
    runSeq_no_panic ops hv w ⟨hg.noPanic, hinv, hup⟩, ?_, ?_, s2⟩
  · rw [TieWriterAux.flush_eq]
    have e : Op.flush.run (C11.runOps ops w) = (C11.runOps ops w).flush := rfl
    rw [e] at s3' ⊢
    revert s3'
    rcases (C11.runOps ops w).flush with ⟨o, w2⟩
    intro s3'
    simp only at s3'
    subst s3'
    rfl
  · rw [s1, written_data ops hd w w]

end TieDimacsWriteAux
end Flussab
